package c37

import (
	"context"
	"strings"

	"github.com/gauss-project/aurorafs/pkg/aurora"
	"github.com/gauss-project/aurorafs/pkg/crypto"
	"github.com/gauss-project/aurorafs/pkg/p2p"
	"github.com/gauss-project/aurorafs/pkg/p2p/libp2p/verifexport"
	"github.com/gauss-project/aurorafs/pkg/topology/lightnode"
	libp2ppeer "github.com/libp2p/go-libp2p-core/peer"
	ma "github.com/multiformats/go-multiaddr"

	"verifharness/core"
)

// ---- handshake: Handle (listener: reads Syn, writes SynAck, reads Ack) and Handshake (dialer: writes Syn, reads SynAck, writes Ack)

const (
	hsSelfP2P   = "16Uiu2HAkx8ULY8cTXhdVAcMmLcH9AsTKz6uBQ7DPLKRjMLgBVYkA"
	hsRemoteP2P = "16Uiu2HAkx8ULY8cTXhdVAcMmLcH9AsTKz6uBQ7DPLKRjMLgBVYkS"
)

type identityResolver struct{}

func (identityResolver) Resolve(a ma.Multiaddr) (ma.Multiaddr, error) { return a, nil }

type acceptAll struct{}

func (acceptAll) Pick(p2p.Peer) bool { return true }

type hsEnv struct {
	svc      *verifexport.HandshakeService
	remoteMA ma.Multiaddr
	remoteID libp2ppeer.ID
}

func newHsEnv() *hsEnv {
	self := overlayOf("hs-self")
	selfMA, _ := ma.NewMultiaddr("/ip4/127.0.0.1/tcp/1634/p2p/" + hsSelfP2P)
	info, err := libp2ppeer.AddrInfoFromP2pAddr(selfMA)
	if err != nil {
		panic(err)
	}
	svc, err := verifexport.NewHandshake(crypto.NewDefaultSigner(keyOf("hs-self")), identityResolver{}, self, networkID, fullMode, "hi", info.ID, noLog, lightnode.NewContainer(self), 2)
	if err != nil {
		panic(err)
	}
	svc.SetPicker(acceptAll{})
	rma, _ := ma.NewMultiaddr("/ip4/10.1.2.3/tcp/1634")
	rinfo, _ := libp2ppeer.AddrInfoFromP2pAddr(mustMA("/ip4/10.1.2.3/tcp/1634/p2p/" + hsRemoteP2P))
	return &hsEnv{svc: svc, remoteMA: rma, remoteID: rinfo.ID}
}

func mustMA(s string) ma.Multiaddr {
	m, err := ma.NewMultiaddr(s)
	if err != nil {
		panic(err)
	}
	return m
}

func maOK(b []byte) bool { _, err := ma.NewMultiaddrBytes(b); return err == nil }

func p2pInfoOK(b []byte) bool {
	m, err := ma.NewMultiaddrBytes(b)
	if err != nil {
		return false
	}
	_, err = libp2ppeer.AddrInfoFromP2pAddr(m)
	return err == nil
}

// annotation of an Ack: `~` | `A <addr: ~ | u o s paOK> nid modeHex wlen`
func annAck(a *verifexport.HandshakeAck) []string {
	if a == nil {
		return []string{"~"}
	}
	t := []string{"A"}
	if a.Address == nil {
		t = append(t, "~")
	} else {
		_, err := aurora.ParseAddress(a.Address.Underlay, a.Address.Overlay, a.Address.Signature, networkID)
		t = append(t, "B", hx(a.Address.Underlay), hx(a.Address.Overlay), hx(a.Address.Signature), core.B(err == nil))
	}
	return append(t, itoa(int64(a.NetworkID)), hx(a.NodeMode), itoa(int64(len(a.WelcomeMessage))))
}

func hsAckShape(a *verifexport.HandshakeAck) string {
	switch {
	case a == nil:
		return "nil-ack"
	case a.Address == nil:
		return "nil-address"
	}
	return "other"
}

func (rn *runner) stepHs(ctx *core.Ctx, op []string) string {
	if len(op) != 2 {
		return "bad-op"
	}
	stream, err := core.UnHex(op[1])
	if err != nil {
		return "bad-op"
	}
	if rn.hs == nil {
		rn.hs = newHsEnv()
	}
	e := rn.hs
	fr := newFrameReader(stream)
	switch op[0] {
	case "hs.handle":
		// what the decoder makes of the stream: Syn, then Ack
		var syn verifexport.HandshakeSyn
		var ack verifexport.HandshakeAck
		shape := "other"
		if ok, _ := fr.next(&syn); !ok {
			ctx.Annotate("X")
		} else {
			ctx.Annotate("S", hx(syn.ObservedUnderlay), core.B(maOK(syn.ObservedUnderlay)))
			if ok, _ := fr.next(&ack); !ok {
				ctx.Annotate("X")
			} else {
				ctx.Annotate(annAck(&ack)...)
				shape = hsAckShape(&ack)
			}
		}
		var info *aurora.AddressInfo
		o := run(func() error {
			i, err := e.svc.Handle(context.Background(), newStream(stream), e.remoteMA, e.remoteID)
			info = i
			return err
		})
		report(ctx, o, "handshake-ack-"+shape, "handshake.Handle")
		return o.class + hsLater(ctx, o, info, "handle")
	case "hs.dial":
		var sa verifexport.HandshakeSynAck
		shape := "other"
		if ok, _ := fr.next(&sa); !ok {
			ctx.Annotate("X")
		} else {
			if sa.Syn == nil {
				ctx.Annotate("K", "~")
				shape = "nil-syn"
			} else {
				ctx.Annotate("K", hx(sa.Syn.ObservedUnderlay), core.B(maOK(sa.Syn.ObservedUnderlay)), core.B(p2pInfoOK(sa.Syn.ObservedUnderlay)))
			}
			ctx.Annotate(annAck(sa.Ack)...)
			if shape == "other" {
				shape = hsAckShape(sa.Ack)
			}
		}
		var info *aurora.AddressInfo
		o := run(func() error {
			i, err := e.svc.Handshake(context.Background(), newStream(stream), e.remoteMA, e.remoteID)
			info = i
			return err
		})
		report(ctx, o, "handshake-synack-"+shape, "handshake.Handshake")
		return o.class + hsLater(ctx, o, info, "dial")
	}
	return "bad-op"
}

// later local use of what a successful handshake returns: libp2p's Connect / handleIncoming read the
// overlay, the mode bits and the underlay of the AddressInfo.
func hsLater(ctx *core.Ctx, o outcome, info *aurora.AddressInfo, which string) string {
	if o.class != "ok" {
		return ""
	}
	l := run(func() error {
		_ = info.Address.Overlay.String()
		_ = info.NodeMode.IsFull()
		_ = info.NodeMode.IsBootNode()
		_ = info.NodeMode.Bv.Bytes()
		_ = info.Address.Underlay.String()
		_ = strings.ToLower(info.Address.ShortString())
		return nil
	})
	report(ctx, l, "handshake-"+which+"-later-use", "use of the returned AddressInfo")
	return " " + l.class
}
