import Aurora.Model.Flood
/-! Helper lemmas for C38 (flooding). -/
namespace Aurora.Flood
open Aurora.Group

/-! ### node level -/

theorem stamp_seenOn (n : Node) (m : Msg) : (stamp n m).1.seenOn = n.seenOn := by
  unfold stamp; split <;> rfl
theorem stamp_seenMc (n : Node) (m : Msg) : (stamp n m).1.seenMc = n.seenMc := by
  unfold stamp; split <;> rfl
theorem stamp_groups (n : Node) (m : Msg) : (stamp n m).1.groups = n.groups := by
  unfold stamp; split <;> rfl
theorem stamp_origin (n : Node) (m : Msg) : (stamp n m).2.origin ≠ none := by
  unfold stamp; split
  · simp
  · assumption
theorem stamp_of_origin {n : Node} {m : Msg} (h : m.origin ≠ none) : stamp n m = (n, m) := by
  simp [stamp, h]

/-- What a handler call guarantees about its result; `inKey` is the key of the incoming message
    (for `Multicast` it is irrelevant because `notified = false`). -/
structure OutOK (n : Node) (inKey : Key) (o : Out) : Prop where
  seenOn_mono : ∀ k, k ∈ n.seenOn → k ∈ o.node.seenOn
  seenMc_mono : ∀ k, k ∈ n.seenMc → k ∈ o.node.seenMc
  groups : o.node.groups = n.groups
  notif : o.notified = true → inKey ∉ n.seenOn ∧ inKey ∈ o.node.seenOn
  fwd : o.forwarded = true → o.key ∉ n.seenMc ∧ o.node.seenMc = o.key :: n.seenMc
  nofwd : o.forwarded = false → o.sends = [] ∧ o.node.seenMc = n.seenMc
  sends : ∀ s, s ∈ o.sends → s.2.key = o.key ∧ s.2.origin ≠ none

theorem getGroup_mem {n : Node} {gid : Nat} {ge : GroupEntry} (h : getGroup n gid = some ge) :
    ge ∈ n.groups := List.mem_of_find?_eq_some h

/-- destinations of the forwarding part: a group's targets, or the oracle list -/
def Targets (n : Node) (skip fb : List Nat) (tg : List Nat) : Prop :=
  tg = fb ∨ ∃ ge, ge ∈ n.groups ∧ tg = groupTargets ge.g skip

theorem core_cases (n : Node) (m : Msg) (skip fb : List Nat) :
    (m.key ∈ n.seenMc ∧ multicastCore n m skip fb =
        { node := n, sends := [], notified := false, forwarded := false, key := m.key }) ∨
    (m.key ∉ n.seenMc ∧ ∃ tg, Targets n skip fb tg ∧ multicastCore n m skip fb =
        { node := { n with seenMc := m.key :: n.seenMc }, sends := tg.map (fun p => (p, m)),
          notified := false, forwarded := true, key := m.key }) := by
  unfold multicastCore
  by_cases h : m.key ∈ n.seenMc
  · left; simp [h]
  · right
    refine ⟨h, ?_⟩
    simp only [h, if_false]
    cases hg : getGroup { n with seenMc := m.key :: n.seenMc } m.gid with
    | none => exact ⟨fb, Or.inl rfl, rfl⟩
    | some ge => exact ⟨groupTargets ge.g skip, Or.inr ⟨ge, getGroup_mem hg, rfl⟩, rfl⟩

theorem core_ok (n : Node) (m : Msg) (skip fb : List Nat) (inKey : Key) (hm : m.origin ≠ none) :
    OutOK n inKey (multicastCore n m skip fb) := by
  rcases core_cases n m skip fb with ⟨h, e⟩ | ⟨h, tg, _, e⟩ <;> rw [e]
  · constructor <;> simp
  · constructor <;> simp_all

/-- the node state with only `seq` changed -/
theorem outOK_of_stamp {n n1 : Node} {inKey : Key} {o : Out}
    (h1 : n1.seenOn = n.seenOn) (h2 : n1.seenMc = n.seenMc) (h3 : n1.groups = n.groups)
    (h : OutOK n1 inKey o) : OutOK n inKey o := by
  obtain ⟨a, b, c, d, e, f, g⟩ := h
  constructor
  · rw [← h1]; exact a
  · rw [← h2]; exact b
  · rw [← h3]; exact c
  · rw [← h1]; exact d
  · rw [← h2]; exact e
  · rw [← h2]; exact f
  · exact g

theorem multicast_ok (n : Node) (m : Msg) (skip fb : List Nat) (inKey : Key) :
    OutOK n inKey (multicast n m skip fb) :=
  outOK_of_stamp (stamp_seenOn n m) (stamp_seenMc n m) (stamp_groups n m)
    (core_ok _ _ skip fb inKey (stamp_origin n m))

theorem multicast_notified (n : Node) (m : Msg) (skip fb : List Nat) :
    (multicast n m skip fb).notified = false := by
  unfold multicast
  rcases core_cases (stamp n m).1 (stamp n m).2 skip fb with ⟨_, e⟩ | ⟨_, tg, _, e⟩ <;> rw [e]

theorem onMulticast_ok (n : Node) (m : Msg) (f : Nat) (fb : List Nat) :
    OutOK n m.key (onMulticast n m f fb) := by
  unfold onMulticast
  by_cases h : m.key ∈ n.seenOn
  · simp only [h, if_true]; constructor <;> simp
  · simp only [h, if_false]
    by_cases hs : m.origin = some n.self
    · simp only [hs, if_true]; constructor <;> simp <;> intro a b hab <;> exact Or.inr hab
    · simp only [hs, if_false]
      have hk := multicast_ok { n with seenOn := m.key :: n.seenOn } m [f] fb m.key
      obtain ⟨a, b, c, d, e, f', g⟩ := hk
      constructor
      · intro k hk; exact a k (List.mem_cons_of_mem _ hk)
      · exact b
      · exact c
      · intro _; exact ⟨h, a _ (List.mem_cons_self)⟩
      · exact e
      · exact f'
      · exact g

theorem onMulticast_marks (n : Node) (m : Msg) (f : Nat) (fb : List Nat) :
    m.key ∈ (onMulticast n m f fb).node.seenOn := by
  have ok := onMulticast_ok n m f fb
  unfold onMulticast at *
  by_cases h : m.key ∈ n.seenOn
  · simp only [h, if_true]
  · simp only [h, if_false] at *
    by_cases hs : m.origin = some n.self
    · simp [hs]
    · simp only [hs, if_false] at *
      exact (multicast_ok { n with seenOn := m.key :: n.seenOn } m [f] fb m.key).seenOn_mono _
        List.mem_cons_self

theorem onMulticast_seen {n : Node} {m : Msg} (h : m.key ∈ n.seenOn) (f : Nat) (fb : List Nat) :
    onMulticast n m f fb =
      { node := n, sends := [], notified := false, forwarded := false, key := m.key } := by
  simp [onMulticast, h]

/-! ### network level: the trace invariant behind both at-most-once theorems -/

def Event.node : Event → Nat
  | .notified i _ => i
  | .forwarded i _ => i

/-- the de-duplication entry that justifies an event -/
def seenEv (n : Node) : Event → Prop
  | .notified _ k => k ∈ n.seenOn
  | .forwarded _ k => k ∈ n.seenMc

/-- every event of the trace happened at most once and its key is (still) in the corresponding
    de-duplication set of its node -/
def TraceInv (s : Net) : Prop :=
  ∀ e, (e ∈ s.trace → ∃ n, s.nodes[e.node]? = some n ∧ seenEv n e) ∧ s.trace.count e ≤ 1

/-- node lists of equal shape whose de-duplication sets only grow -/
def Grow (a b : List Node) : Prop :=
  ∀ (i : Nat) (n : Node), a[i]? = some n → ∃ n' : Node, b[i]? = some n' ∧
    (∀ k, k ∈ n.seenOn → k ∈ n'.seenOn) ∧ (∀ k, k ∈ n.seenMc → k ∈ n'.seenMc)

theorem grow_refl (a : List Node) : Grow a a :=
  fun _ n h => ⟨n, h, fun _ h => h, fun _ h => h⟩

theorem grow_set {l : List Node} {i : Nat} {n n' : Node} (h : l[i]? = some n)
    (h1 : ∀ k, k ∈ n.seenOn → k ∈ n'.seenOn) (h2 : ∀ k, k ∈ n.seenMc → k ∈ n'.seenMc) :
    Grow l (l.set i n') := by
  intro j m hj
  by_cases e : i = j
  · subst e
    have hlt : i < l.length := (List.getElem?_eq_some_iff.mp h).1
    rw [h] at hj; cases hj
    exact ⟨n', List.getElem?_set_self hlt, h1, h2⟩
  · exact ⟨m, by rw [List.getElem?_set_ne e]; exact hj, fun _ h => h, fun _ h => h⟩

theorem seenEv_mono {n n' : Node} (h1 : ∀ k, k ∈ n.seenOn → k ∈ n'.seenOn)
    (h2 : ∀ k, k ∈ n.seenMc → k ∈ n'.seenMc) {e : Event} (h : seenEv n e) : seenEv n' e := by
  cases e with
  | notified i k => exact h1 k h
  | forwarded i k => exact h2 k h

theorem traceInv_extend {s s' : Net} (h : TraceInv s) (hg : Grow s.nodes s'.nodes)
    (evs : List Event) (htr : s'.trace = s.trace ++ evs) (hnd : evs.Nodup)
    (hfresh : ∀ e, e ∈ evs → e ∉ s.trace)
    (hjust : ∀ e, e ∈ evs → ∃ n', s'.nodes[e.node]? = some n' ∧ seenEv n' e) : TraceInv s' := by
  intro e
  constructor
  · intro he
    rw [htr, List.mem_append] at he
    rcases he with he | he
    · obtain ⟨n, hn, hs⟩ := (h e).1 he
      obtain ⟨n', hn', m1, m2⟩ := hg _ _ hn
      exact ⟨n', hn', seenEv_mono m1 m2 hs⟩
    · exact hjust e he
  · rw [htr, List.count_append]
    by_cases he : e ∈ evs
    · have := List.count_eq_zero.mpr (hfresh e he)
      have := List.nodup_iff_count.mp hnd e
      omega
    · have := List.count_eq_zero.mpr he
      have := (h e).2
      omega

theorem traceInv_same {s s' : Net} (h : TraceInv s) (hg : Grow s.nodes s'.nodes)
    (htr : s'.trace = s.trace) : TraceInv s' :=
  traceInv_extend h hg [] (by simp [htr]) (by simp) (by simp) (by simp)

/-- the events of one handler call at node `i` extend the invariant -/
theorem traceInv_call {s s' : Net} (h : TraceInv s) {i : Nat} {n : Node} {inKey : Key} {o : Out}
    (hn : s.nodes[i]? = some n) (ok : OutOK n inKey o)
    (hnodes : s'.nodes = s.nodes.set i o.node)
    (htr : s'.trace = s.trace ++ outEvents i inKey o) : TraceInv s' := by
  have hlt : i < s.nodes.length := (List.getElem?_eq_some_iff.mp hn).1
  have hnew : s'.nodes[i]? = some o.node := by rw [hnodes]; exact List.getElem?_set_self hlt
  apply traceInv_extend h (by rw [hnodes]; exact grow_set hn ok.seenOn_mono ok.seenMc_mono) _ htr
  · unfold outEvents
    cases o.notified <;> cases o.forwarded <;> simp
  · intro e he
    unfold outEvents at he
    intro hin
    obtain ⟨n0, hn0, hs⟩ := (h e).1 hin
    rcases List.mem_append.mp he with he | he
    · by_cases hb : o.notified = true
      · simp only [hb, if_true, List.mem_singleton] at he
        subst he
        simp only [Event.node] at hn0
        rw [hn] at hn0; cases hn0
        exact (ok.notif hb).1 hs
      · simp [hb] at he
    · by_cases hb : o.forwarded = true
      · simp only [hb, if_true, List.mem_singleton] at he
        subst he
        simp only [Event.node] at hn0
        rw [hn] at hn0; cases hn0
        exact (ok.fwd hb).1 hs
      · simp [hb] at he
  · intro e he
    unfold outEvents at he
    rcases List.mem_append.mp he with he | he
    · by_cases hb : o.notified = true
      · simp only [hb, if_true, List.mem_singleton] at he
        subst he
        exact ⟨o.node, hnew, (ok.notif hb).2⟩
      · simp [hb] at he
    · by_cases hb : o.forwarded = true
      · simp only [hb, if_true, List.mem_singleton] at he
        subst he
        refine ⟨o.node, hnew, ?_⟩
        simp only [seenEv, (ok.fwd hb).2, List.mem_cons, true_or]
      · simp [hb] at he

theorem traceInv_step {s s' : Net} (h : TraceInv s) (st : Step s s') : TraceInv s' := by
  cases st with
  | originate i gid fb e =>
    unfold originateAt at e
    cases hn : s.nodes[i]? with
    | none => simp [hn] at e
    | some n =>
      simp only [hn, Option.some.injEq] at e
      subst e
      exact traceInv_call h hn (multicast_ok n _ [] fb _) rfl rfl
  | deliver k fb e =>
    unfold deliverAt at e
    cases hp : s.inflight[k]? with
    | none => simp [hp] at e
    | some p =>
      cases hn : s.nodes[p.to]? with
      | none =>
        simp only [hp, hn, Option.some.injEq] at e
        subst e
        exact traceInv_same h (grow_refl _) rfl
      | some n =>
        simp only [hp, hn, Option.some.injEq] at e
        subst e
        exact traceInv_call h hn (onMulticast_ok n p.msg p.frm fb) rfl rfl
  | drop k e =>
    unfold dropAt at e
    split at e
    · cases e; exact traceInv_same h (grow_refl _) rfl
    · cases e
  | dup k e =>
    unfold dupAt at e
    cases hp : s.inflight[k]? with
    | none => simp [hp] at e
    | some p =>
      simp only [hp, Option.some.injEq] at e
      subst e
      exact traceInv_same h (grow_refl _) rfl
  | reconfig i gs e =>
    unfold reconfigAt at e
    cases hn : s.nodes[i]? with
    | none => simp [hn] at e
    | some n =>
      simp only [hn, Option.some.injEq] at e
      subst e
      exact traceInv_same h (grow_set hn (fun _ h => h) (fun _ h => h)) rfl

theorem traceInv_init {s : Net} (h : s.trace = []) : TraceInv s := by
  intro e; simp [h]

theorem traceInv_reach {s0 s : Net} (h0 : s0.trace = []) (r : Reach s0 s) : TraceInv s := by
  induction r with
  | refl => exact traceInv_init h0
  | step _ st ih => exact traceInv_step ih st

/-! ### termination of flooding -/

/-- keys of `K` that node `n` has not forwarded yet -/
def unfwdNode (K : List Key) (n : Node) : Nat := K.countP (fun k => !(n.seenMc.contains k))

def unfwd (K : List Key) (nodes : List Node) : Nat := (nodes.map (unfwdNode K)).sum

/-- the termination measure: in-flight packets + (fan-out bound + 1) × number of (node, key)
    pairs, key ∈ K, where the node has not yet executed the forwarding part for the key -/
def mu (F : Nat) (K : List Key) (s : Net) : Nat := s.inflight.length + (F + 1) * unfwd K s.nodes

/-- `F` bounds the fan-out of one forwarding: every group's connected+kept and the fallback limit -/
def Bounded (F : Nat) (s : Net) : Prop :=
  2 * forwardLimit ≤ F ∧
  ∀ n, n ∈ s.nodes → ∀ ge, ge ∈ n.groups → ge.g.connected.length + ge.g.kept.length ≤ F

/-- in-flight messages carry a non-empty origin and a key of `K` -/
def WFNet (K : List Key) (s : Net) : Prop :=
  ∀ p, p ∈ s.inflight → p.msg.origin ≠ none ∧ p.msg.key ∈ K

theorem sum_map_set {α : Type} (f : α → Nat) : ∀ (l : List α) (i : Nat) (a b : α), l[i]? = some a →
    ((l.set i b).map f).sum + f a = (l.map f).sum + f b := by
  intro l
  induction l with
  | nil => intro i a b h; simp at h
  | cons x xs ih =>
    intro i a b h
    cases i with
    | zero => simp at h; subst h; simp; omega
    | succ j =>
      simp at h
      have := ih j a b h
      simp only [List.set_cons_succ, List.map_cons, List.sum_cons]
      omega

theorem countP_strict {α : Type} (p q : α → Bool) (hpq : ∀ x, q x = true → p x = true) :
    ∀ (l : List α) (a : α), a ∈ l → p a = true → q a = false → l.countP q + 1 ≤ l.countP p := by
  intro l
  induction l with
  | nil => intro a h; simp at h
  | cons x xs ih =>
    intro a ha hp hq
    have hle : xs.countP q ≤ xs.countP p := List.countP_mono_left (fun y _ => hpq y)
    simp only [List.countP_cons]
    rcases List.mem_cons.mp ha with rfl | h
    · simp [hp, hq]; omega
    · have := ih a h hp hq
      by_cases hx : q x = true
      · simp [hx, hpq x hx]; omega
      · simp [hx]; split <;> omega

theorem unfwdNode_lt {K : List Key} {n n' : Node} {k : Key} (hk : k ∈ K) (hn : k ∉ n.seenMc)
    (h : n'.seenMc = k :: n.seenMc) : unfwdNode K n' + 1 ≤ unfwdNode K n := by
  unfold unfwdNode
  have hpq : ∀ x : Key, (!(n'.seenMc.contains x)) = true → (!(n.seenMc.contains x)) = true := by
    intro x; simp only [h]; simp
  have hp : (!(n.seenMc.contains k)) = true := by simpa using hn
  have hq : (!(n'.seenMc.contains k)) = false := by simp [h]
  exact countP_strict _ _ hpq K k hk hp hq

theorem unfwdNode_eq {K : List Key} {n n' : Node} (h : n'.seenMc = n.seenMc) :
    unfwdNode K n' = unfwdNode K n := by unfold unfwdNode; rw [h]

theorem length_groupTargets (g : Group) (skip : List Nat) :
    (groupTargets g skip).length ≤ g.connected.length + g.kept.length := by
  unfold groupTargets
  rw [List.length_append]
  have := List.length_filter_le (fun p => !(skip.contains p)) g.connected
  have := List.length_filter_le (fun p => !(skip.contains p)) g.kept
  omega

theorem length_targets {F : Nat} {n : Node} {skip fb tg : List Nat}
    (hF : 2 * forwardLimit ≤ F)
    (hb : ∀ ge, ge ∈ n.groups → ge.g.connected.length + ge.g.kept.length ≤ F)
    (hfb : fallbackOK n skip fb = true) (ht : Targets n skip fb tg) : tg.length ≤ F := by
  rcases ht with rfl | ⟨ge, hge, rfl⟩
  · unfold fallbackOK at hfb
    simp only [Bool.and_eq_true, decide_eq_true_eq] at hfb
    omega
  · have := length_groupTargets ge.g skip
    have := hb ge hge
    omega

/-- the sends of `onMulticast` for a message with non-empty origin: copies of the message itself
    to a target list, under the message's own key -/
theorem onMulticast_sends (n : Node) (m : Msg) (f : Nat) (fb : List Nat) (hm : m.origin ≠ none) :
    ((onMulticast n m f fb).forwarded = true → (onMulticast n m f fb).key = m.key) ∧
    ((onMulticast n m f fb).sends = [] ∨
      ∃ tg, Targets n [f] fb tg ∧ (onMulticast n m f fb).sends = tg.map (fun p => (p, m))) := by
  unfold onMulticast
  by_cases h : m.key ∈ n.seenOn
  · simp [h]
  · simp only [h, if_false]
    by_cases hs : m.origin = some n.self
    · simp [hs]
    · simp only [hs, if_false]
      unfold multicast
      rw [stamp_of_origin hm]
      rcases core_cases { n with seenOn := m.key :: n.seenOn } m [f] fb with ⟨_, e⟩ | ⟨_, tg, ht, e⟩
      · rw [e]; simp
      · rw [e]; exact ⟨fun _ => rfl, Or.inr ⟨tg, ht, rfl⟩⟩

theorem floodStep_decreases {F : Nat} {K : List Key} {s s' : Net}
    (hB : Bounded F s) (hW : WFNet K s) (st : FloodStep s s') :
    Bounded F s' ∧ WFNet K s' ∧ mu F K s' < mu F K s := by
  have erase_lt : ∀ k, k < s.inflight.length → (s.inflight.eraseIdx k).length + 1 = s.inflight.length := by
    intro k hk; rw [List.length_eraseIdx]; simp [hk]; omega
  cases st with
  | drop k e =>
    unfold dropAt at e
    split at e
    · rename_i hk
      cases e
      refine ⟨hB, fun p hp => hW p (List.mem_of_mem_eraseIdx hp), ?_⟩
      have := erase_lt k hk
      simp only [mu]; omega
    · cases e
  | lost k p hp hn e =>
    have hk : k < s.inflight.length := (List.getElem?_eq_some_iff.mp hp).1
    unfold deliverAt at e
    simp only [hp, hn, Option.some.injEq] at e
    subst e
    refine ⟨hB, fun p hp => hW p (List.mem_of_mem_eraseIdx hp), ?_⟩
    have := erase_lt k hk
    simp only [mu]; omega
  | deliver k fb p n hp hn hfb e =>
    have hk : k < s.inflight.length := (List.getElem?_eq_some_iff.mp hp).1
    have hpin : p ∈ s.inflight := List.mem_of_getElem? hp
    have hnin : n ∈ s.nodes := List.mem_of_getElem? hn
    obtain ⟨hpo, hpk⟩ := hW p hpin
    unfold deliverAt at e
    simp only [hp, hn, Option.some.injEq] at e
    subst e
    have ok := onMulticast_ok n p.msg p.frm fb
    obtain ⟨hkey, hsends⟩ := onMulticast_sends n p.msg p.frm fb hpo
    generalize onMulticast n p.msg p.frm fb = o at ok hkey hsends
    have hsum := sum_map_set (unfwdNode K) s.nodes p.to n o.node hn
    have hlen := erase_lt k hk
    refine ⟨⟨hB.1, ?_⟩, ?_, ?_⟩
    · intro n' hn' ge hge
      rcases List.mem_or_eq_of_mem_set hn' with h | h
      · exact hB.2 n' h ge hge
      · subst h; rw [ok.groups] at hge; exact hB.2 n hnin ge hge
    · intro q hq
      rcases List.mem_append.mp hq with hq | hq
      · exact hW q (List.mem_of_mem_eraseIdx hq)
      · unfold outPackets at hq
        obtain ⟨sd, hsd, rfl⟩ := List.mem_map.mp hq
        rcases hsends with h0 | ⟨tg, _, htg⟩
        · rw [h0] at hsd; cases hsd
        · rw [htg] at hsd
          obtain ⟨t, _, rfl⟩ := List.mem_map.mp hsd
          exact ⟨hpo, hpk⟩
    · simp only [mu, unfwd, List.length_append, outPackets, List.length_map]
      by_cases hf : o.forwarded = true
      · obtain ⟨hnot, hcons⟩ := ok.fwd hf
        rw [hkey hf] at hnot hcons
        have hdec := unfwdNode_lt hpk hnot hcons
        have hsl : o.sends.length ≤ F := by
          rcases hsends with h0 | ⟨tg, ht, htg⟩
          · rw [h0]; simp
          · rw [htg, List.length_map]
            exact length_targets hB.1 (hB.2 n hnin) hfb ht
        have hU : ((s.nodes.set p.to o.node).map (unfwdNode K)).sum + 1 ≤ (s.nodes.map (unfwdNode K)).sum := by omega
        have hmul := Nat.mul_le_mul_left (F + 1) hU
        rw [Nat.mul_add] at hmul
        omega
      · have hf' : o.forwarded = false := by simpa using hf
        obtain ⟨h0, hsame⟩ := ok.nofwd hf'
        have := unfwdNode_eq (K := K) hsame
        have hU : ((s.nodes.set p.to o.node).map (unfwdNode K)).sum = (s.nodes.map (unfwdNode K)).sum := by omega
        rw [h0, hU]; simp; omega

/-- `n` flooding steps lead from `s` to `s'` -/
inductive FloodRun : Net → Nat → Net → Prop where
  | nil (s) : FloodRun s 0 s
  | cons {s s' s'' n} : FloodStep s s' → FloodRun s' n s'' → FloodRun s (n + 1) s''

theorem floodRun_bound {F : Nat} {K : List Key} {s s' : Net} {n : Nat} (r : FloodRun s n s') :
    Bounded F s → WFNet K s → n + mu F K s' ≤ mu F K s := by
  induction r with
  | nil s => intro _ _; omega
  | cons st _ ih =>
    intro hB hW
    obtain ⟨hB', hW', hlt⟩ := floodStep_decreases hB hW st
    have := ih hB' hW'
    omega

theorem flood_acc {F : Nat} {K : List Key} : ∀ (m : Nat) (s : Net), mu F K s = m →
    Bounded F s → WFNet K s → Acc (fun a b => FloodStep b a) s := by
  intro m
  induction m using Nat.strongRecOn with
  | _ m ih =>
    intro s hm hB hW
    constructor
    intro s' st
    obtain ⟨hB', hW', hlt⟩ := floodStep_decreases hB hW st
    exact ih (mu F K s') (by omega) s' rfl hB' hW'

/-- a fan-out bound that exists for every finite network: the fallback limit plus the sizes of
    all member lists (a sum, hence ≥ every single group's connected+kept) -/
def fanout (s : Net) : Nat :=
  2 * forwardLimit +
    (s.nodes.map (fun n => (n.groups.map (fun ge => ge.g.connected.length + ge.g.kept.length)).sum)).sum

def keysOf (s : Net) : List Key := s.inflight.map (fun p => p.msg.key)

theorem le_sum_of_mem : ∀ (l : List Nat) (x : Nat), x ∈ l → x ≤ l.sum := by
  intro l
  induction l with
  | nil => intro x h; simp at h
  | cons y ys ih =>
    intro x h
    rcases List.mem_cons.mp h with rfl | h
    · simp
    · have := ih x h; simp only [List.sum_cons]; omega

theorem bounded_fanout (s : Net) : Bounded (fanout s) s := by
  refine ⟨by unfold fanout; omega, ?_⟩
  intro n hn ge hge
  have h1 : ge.g.connected.length + ge.g.kept.length ≤
      (n.groups.map (fun ge => ge.g.connected.length + ge.g.kept.length)).sum :=
    le_sum_of_mem _ _ (List.mem_map.mpr ⟨ge, hge, rfl⟩)
  have h2 : (n.groups.map (fun ge => ge.g.connected.length + ge.g.kept.length)).sum ≤
      (s.nodes.map (fun n => (n.groups.map (fun ge => ge.g.connected.length + ge.g.kept.length)).sum)).sum :=
    le_sum_of_mem _ _ (List.mem_map.mpr ⟨n, hn, rfl⟩)
  unfold fanout; omega

theorem wfNet_keysOf {s : Net} (h : ∀ p, p ∈ s.inflight → p.msg.origin ≠ none) : WFNet (keysOf s) s :=
  fun p hp => ⟨h p hp, List.mem_map.mpr ⟨p, hp, rfl⟩⟩

end Aurora.Flood
