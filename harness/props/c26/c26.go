// Package c26: correspondence + oracle for pkg/blocker (property C26).
package c26

import (
	"errors"
	"fmt"
	"io/ioutil"
	"sort"
	"strconv"
	"strings"
	"sync"
	"time"

	"github.com/gauss-project/aurorafs/pkg/blocker"
	"github.com/gauss-project/aurorafs/pkg/boson"
	"github.com/gauss-project/aurorafs/pkg/logging"
	"github.com/gauss-project/aurorafs/pkg/p2p"

	"verifharness/core"
)

type prop struct{}

func init() { core.Register(prop{}) }

func (prop) ID() string { return "C26" }
func (prop) Rule() string {
	return "cases: `new ft` (flag timeout = T resolutions + a fraction, T in 1..4; occasionally ft <= resolution, where New panics) then 8-45 ops over 1-4 addresses: " +
		"tick with network status available/unavailable/unknown (runs of T-1..T+2 available ticks are common), flag with a status, unflag, prune with a random seen-subset, " +
		"sweep (optionally with a failing Blocklister), dump. The sequencer resolution is pinned to 1 h so the background timers never fire; ticks and sweeps go through the hooks. " +
		"Non-trivial: a blocker exists, >=1 effective flag, >=1 available tick and >=1 sweep; distinct by op-list hash. `sweep race` (6 % of the sweeps, fixed case first): while the sweep is inside its first Blocklist call, Unflag is called for every other flagged peer from goroutines of their own (100 ms window); a Blocklist of a peer whose Unflag has returned is clause blocked-after-unflag-returned; model: sweep, then the unflags."
}

const resolution = int64(time.Hour)

var addrs = []string{"aa", "ab01", "c0ffee", "00"}

func (prop) Gen(r *core.Rand, tier string) []core.Case {
	n := 500
	if tier == "thorough" {
		n = 20000
	}
	h := strconv.FormatInt(resolution, 10)
	h1 := strconv.FormatInt(resolution+1, 10)
	h2 := strconv.FormatInt(2*resolution, 10)
	cs := []core.Case{
		{ID: "fix-exact-timeout", NT: true, Ops: []string{"new " + h2, "flag aa 1", "tick 1", "tick 1", "sweep", "dump", "tick 1", "sweep", "dump", "sweep"}},
		{ID: "fix-unavailable-ticks", NT: true, Ops: []string{"new " + h1, "flag aa 1", "tick 2", "tick 0", "tick 2", "sweep", "tick 1", "sweep", "tick 1", "sweep", "sweep"}},
		{ID: "fix-flag-unavailable", NT: true, Ops: []string{"new " + h1, "flag aa 2", "flag ab01 0", "tick 1", "tick 1", "tick 1", "sweep", "dump"}},
		{ID: "fix-no-refresh", NT: true, Ops: []string{"new " + h2, "flag aa 1", "tick 1", "tick 1", "flag aa 1", "tick 1", "sweep"}},
		{ID: "fix-unflag-prune", NT: true, Ops: []string{"new " + h1, "flag aa 1", "flag ab01 1", "flag 00 1", "tick 1", "tick 1", "unflag aa", "prune 00", "sweep", "dump", "flag aa 1", "sweep", "tick 1", "tick 1", "sweep"}},
		{ID: "fix-sweep-fail", NT: true, Ops: []string{"new " + h1, "flag aa 1", "tick 1", "tick 1", "sweep fail", "sweep", "dump"}},
		// Unflag calls trying to get in while the sweep is inside a Blocklist call: two expired peers and one that is not
		{ID: "fix-sweep-race", NT: true, Ops: []string{"new " + h1, "flag aa 1", "flag ab01 1", "tick 1", "flag 00 1", "tick 1", "sweep race", "dump", "flag aa 1", "flag ab01 1", "tick 1", "tick 1", "sweep race", "dump", "sweep race"}},
		{ID: "fix-new-panics", NT: false, Ops: []string{"tick 1", "new " + h, "flag aa 1", "new 5", "sweep", "new -1"}},
		{ID: "fix-bad", NT: false, Ops: []string{"new " + h2, "tick 3", "flag zz 1", "prune a", "sweep x", "unflag", "new x"}},
	}
	for i := 0; i < n; i++ {
		c := core.Case{ID: fmt.Sprintf("g%d", i)}
		T := int64(r.Range(1, 4))
		ft := T*resolution + []int64{1, resolution / 2, resolution - 1, 0}[r.Intn(4)]
		if ft <= resolution {
			ft = resolution + 1
		}
		made := true
		if r.Chance(4) {
			ft = []int64{resolution, resolution - 1, 0, 1}[r.Intn(4)]
			made = false
		}
		T = ft / resolution
		c.Ops = append(c.Ops, fmt.Sprintf("new %d", ft))
		na := r.Range(1, len(addrs))
		flags, avail, sweeps := 0, 0, 0
		nops := r.Range(8, 45)
		for k := 0; k < nops; k++ {
			a := addrs[r.Intn(na)]
			st := func(p int) int {
				if r.Chance(p) {
					return 1
				}
				return []int{0, 2}[r.Intn(2)]
			}
			switch x := r.Intn(20); {
			case x < 4:
				s := st(85)
				c.Ops = append(c.Ops, fmt.Sprintf("flag %s %d", a, s))
				if s == 1 {
					flags++
				}
			case x < 6: // a run of available ticks around the timeout
				m := int(T) + r.Range(-1, 2)
				for j := 0; j < m; j++ {
					c.Ops = append(c.Ops, "tick 1")
					avail++
				}
			case x < 10:
				s := st(70)
				c.Ops = append(c.Ops, fmt.Sprintf("tick %d", s))
				if s == 1 {
					avail++
				}
			case x < 12:
				c.Ops = append(c.Ops, "unflag "+a)
			case x < 14:
				var seen []string
				for j := 0; j < len(addrs); j++ {
					if r.Chance(60) {
						seen = append(seen, addrs[j])
					}
				}
				if len(seen) == 0 {
					c.Ops = append(c.Ops, "prune -")
				} else {
					c.Ops = append(c.Ops, "prune "+strings.Join(seen, ","))
				}
			case x < 18:
				if r.Chance(10) {
					c.Ops = append(c.Ops, "sweep fail")
				} else {
					c.Ops = append(c.Ops, "sweep")
				}
				if r.Chance(6) {
					c.Ops[len(c.Ops)-1] = "sweep race"
				}
				sweeps++
			default:
				c.Ops = append(c.Ops, "dump")
			}
		}
		c.Ops = append(c.Ops, "sweep", "dump")
		c.NT = made && flags > 0 && avail > 0 && sweeps > 0
		cs = append(cs, c)
	}
	return cs
}

// fake p2p.Blocklister
type fakeBL struct {
	mu     sync.Mutex
	status p2p.NetworkStatus
	fail   bool
	calls  []string            // hex addresses passed to Blocklist since the last reset
	onCall func(boson.Address) // called at the start of every Blocklist call (outside f.mu)
	durs   []time.Duration
}

func (f *fakeBL) NetworkStatus() p2p.NetworkStatus {
	f.mu.Lock()
	defer f.mu.Unlock()
	return f.status
}
func (f *fakeBL) Blocklist(a boson.Address, d time.Duration, reason string) error {
	if h := f.onCall; h != nil {
		h(a) // sweeprace: lets Unflag calls of the other flagged peers try to get in while this call is in progress
	}
	f.mu.Lock()
	defer f.mu.Unlock()
	f.calls = append(f.calls, a.String())
	f.durs = append(f.durs, d)
	if f.fail {
		return errors.New("scripted failure")
	}
	return nil
}

const blockDuration = 7 * time.Second

var once sync.Once

type runner struct {
	b   *blocker.Blocker
	bl  *fakeBL
	cbs []string
	// model-free oracle: history counters
	T        int64
	availCnt int64            // available ticks so far
	start    map[string]int64 // active flag period of an address -> availCnt when it started
}

func (prop) New() core.Runner {
	once.Do(func() { blocker.VerifSetResolution(time.Duration(resolution)) })
	return &runner{}
}
func (rn *runner) Close() {
	if rn.b != nil {
		rn.b.Close()
		rn.b = nil
	}
}

func validAddr(a string) bool {
	if len(a) == 0 || len(a)%2 != 0 {
		return false
	}
	for _, c := range a {
		if !(c >= '0' && c <= '9' || c >= 'a' && c <= 'f') {
			return false
		}
	}
	return true
}

func status(s string) (p2p.NetworkStatus, bool) {
	switch s {
	case "0":
		return p2p.NetworkStatusUnknown, true
	case "1":
		return p2p.NetworkStatusAvailable, true
	case "2":
		return p2p.NetworkStatusUnavailable, true
	}
	return 0, false
}

func (rn *runner) Step(ctx *core.Ctx, op []string) string {
	if len(op) == 2 && op[0] == "new" {
		ft, err := strconv.ParseInt(op[1], 10, 64)
		if err != nil {
			return "bad-op"
		}
		rn.Close()
		rn.bl = &fakeBL{status: p2p.NetworkStatusAvailable}
		rn.cbs = nil
		rn.T, rn.availCnt, rn.start = ft/resolution, 0, map[string]int64{}
		// panics (recovered by the framework -> "panic") unless ft > resolution
		rn.b = blocker.New(rn.bl, time.Duration(ft), blockDuration, time.Duration(resolution),
			func(a boson.Address) { rn.cbs = append(rn.cbs, a.String()) }, logging.New(ioutil.Discard, 0))
		return "ok"
	}
	if rn.b == nil {
		return "noblk"
	}
	switch {
	case len(op) == 2 && op[0] == "tick":
		st, ok := status(op[1])
		if !ok {
			return "bad-op"
		}
		rn.bl.status = st
		seq := rn.b.VerifAdvance()
		if st == p2p.NetworkStatusAvailable {
			rn.availCnt++
		}
		if int64(seq) != rn.availCnt {
			ctx.Fail("sequence-not-available-ticks", "sequence %d after %d available ticks", seq, rn.availCnt)
		}
		return fmt.Sprintf("seq %d", seq)
	case len(op) == 3 && op[0] == "flag":
		st, ok := status(op[2])
		if !ok || !validAddr(op[1]) {
			return "bad-op"
		}
		rn.bl.status = st
		rn.b.Flag(boson.MustParseHexAddress(op[1]))
		if _, active := rn.start[op[1]]; st == p2p.NetworkStatusAvailable && !active {
			rn.start[op[1]] = rn.availCnt
		}
		return "ok"
	case len(op) == 2 && op[0] == "unflag":
		if !validAddr(op[1]) {
			return "bad-op"
		}
		rn.b.Unflag(boson.MustParseHexAddress(op[1]))
		delete(rn.start, op[1])
		return "ok"
	case len(op) == 2 && op[0] == "prune":
		var seen []boson.Address
		keep := map[string]bool{}
		if op[1] != "-" {
			for _, a := range strings.Split(op[1], ",") {
				if !validAddr(a) {
					return "bad-op"
				}
				seen = append(seen, boson.MustParseHexAddress(a))
				keep[a] = true
			}
		}
		rn.b.PruneUnseen(seen)
		for a := range rn.start {
			if !keep[a] {
				delete(rn.start, a)
			}
		}
		return "ok"
	case op[0] == "sweep" && (len(op) == 1 || len(op) == 2 && (op[1] == "fail" || op[1] == "race")):
		rn.bl.fail = len(op) == 2 && op[1] == "fail"
		rn.bl.calls, rn.bl.durs, rn.cbs = nil, nil, nil
		race := len(op) == 2 && op[1] == "race"
		if race {
			// `sweep race`: while the sweep is inside its FIRST Blocklist call, Unflag is called for every other flagged
			// peer from goroutines of their own, and the call waits up to 100 ms for them to return.  With the sweep
			// running under `mu` they cannot (they return after the sweep, when those peers are either blocklisted
			// already or simply unflagged); if a peer's Unflag HAS returned, a later Blocklist of that peer in the same
			// sweep blocklists a peer that succeeded since it was flagged.
			var mu sync.Mutex
			returned := map[string]bool{}
			var wg sync.WaitGroup
			first := true
			rn.bl.onCall = func(a boson.Address) {
				mu.Lock()
				isFirst := first
				first = false
				if returned[a.String()] {
					ctx.Fail("blocked-after-unflag-returned", "%s blocklisted by a sweep although its Unflag had returned while the sweep was in progress", a.String())
				}
				mu.Unlock()
				if !isFirst {
					return
				}
				done := make(chan struct{}, len(rn.start))
				n := 0
				for o := range rn.start {
					if o == a.String() {
						continue
					}
					n++
					wg.Add(1)
					go func(o string) {
						defer wg.Done()
						rn.b.Unflag(boson.MustParseHexAddress(o))
						mu.Lock()
						returned[o] = true
						mu.Unlock()
						done <- struct{}{}
					}(o)
				}
				deadline := time.After(100 * time.Millisecond)
				for i := 0; i < n; i++ {
					select {
					case <-done:
					case <-deadline:
						i = n
					}
				}
			}
			rn.b.VerifSweep()
			rn.bl.onCall = nil
			wg.Wait()
		} else {
			rn.b.VerifSweep()
		}
		rn.bl.fail = false
		got := append([]string(nil), rn.bl.calls...)
		sort.Strings(got)
		cb := append([]string(nil), rn.cbs...)
		sort.Strings(cb)
		if strings.Join(got, ",") != strings.Join(cb, ",") {
			ctx.Fail("callback-mismatch", "Blocklist calls %v, callbacks %v", got, cb)
		}
		for _, d := range rn.bl.durs {
			if d != blockDuration {
				ctx.Fail("wrong-block-duration", "Blocklist called with %v", d)
			}
		}
		// the property, on the observed Blocklist calls
		seen := map[string]bool{}
		for _, a := range got {
			if seen[a] {
				ctx.Fail("blocked-twice-in-sweep", "%s blocklisted twice by one sweep", a)
			}
			seen[a] = true
			s, active := rn.start[a]
			switch {
			case !active:
				ctx.Fail("blocked-not-flagged", "%s blocklisted without an active flag period (unflagged, pruned, already blocklisted or never flagged)", a)
			case rn.availCnt-s <= rn.T:
				ctx.Fail("blocked-before-timeout", "%s blocklisted after %d available ticks, timeout %d", a, rn.availCnt-s, rn.T)
			}
			delete(rn.start, a)
		}
		for a, s := range rn.start {
			if rn.availCnt-s > rn.T {
				ctx.Fail("not-blocked-after-timeout", "%s flagged for %d available ticks (> timeout %d) but not blocklisted by the sweep", a, rn.availCnt-s, rn.T)
				delete(rn.start, a)
			}
		}
		if race && len(got) > 0 {
			// every other flagged peer was unflagged by the racing calls (they took effect after the sweep)
			for a := range rn.start {
				delete(rn.start, a)
			}
		}
		if len(got) == 0 {
			return "blocked -"
		}
		return "blocked " + strings.Join(got, ",")
	case len(op) == 1 && op[0] == "dump":
		seq, m := rn.b.VerifSnapshot()
		var fl []string
		for k, ba := range m {
			fl = append(fl, fmt.Sprintf("%s:%d", boson.NewAddress([]byte(k)).String(), ba))
		}
		sort.Strings(fl)
		s := "-"
		if len(fl) > 0 {
			s = strings.Join(fl, ",")
		}
		return fmt.Sprintf("seq=%d flags=%s", seq, s)
	}
	return "bad-op"
}
