import Driver.Util
import Aurora.Model.BitVector
/-! Driver for C39: runs the BitVector model on the op lines of the harness. -/
namespace Driver.C39
open Aurora.BitVector

def toBytes (l : List UInt8) : List Byte := l.map (fun b => BitVec.ofNat 8 b.toNat)
def ofBytes (l : List Byte) : List UInt8 := l.map (fun b => UInt8.ofNat b.toNat)

def step (st : Option BV) (op : List String) : Option BV × String :=
  match op, st with
  | ["new", l], _ =>
    match Driver.parseInt l with
    | some l => match new l with
      | some bv => (some bv, "ok")
      | none => (none, "err")
    | none => (st, "bad-op")
  | ["frombytes", h, l], _ =>
    match Driver.hexToBytes h, Driver.parseInt l with
    | some b, some l => match newFromBytes (toBytes b) l with
      | some bv => (some bv, "ok")
      | none => (none, "err")
    | _, _ => (st, "bad-op")
  | _, none => (none, "novec")
  | ["get", i], some bv =>
    match Driver.parseNat i with
    | some i => if i / 8 < bv.b.length then (st, Driver.boolStr (get bv i)) else (st, "panic")
    | none => (st, "bad-op")
  | ["set", i], some bv =>
    match Driver.parseNat i with
    | some i => if i / 8 < bv.b.length then (some (set bv i true), "ok") else (st, "panic")
    | none => (st, "bad-op")
  | ["unset", i], some bv =>
    match Driver.parseNat i with
    | some i => if i / 8 < bv.b.length then (some (set bv i false), "ok") else (st, "panic")
    | none => (st, "bad-op")
  | ["setbytes", h], some bv =>
    match Driver.hexToBytes h with
    | some b => match setBytes bv (toBytes b) with
      | some r => (some r, "ok")
      | none => (st, "err")
    | none => (st, "bad-op")
  | ["unsetbytes", h], some bv =>
    match Driver.hexToBytes h with
    | some b => match unsetBytes bv (toBytes b) with
      | some r => (some r, "ok")
      | none => (st, "err")
    | none => (st, "bad-op")
  | ["equals"], some bv => (st, Driver.boolStr (equals bv))
  | ["dump"], some bv => (st, s!"{bv.len} {Driver.bytesToHex (ofBytes bv.b)}")
  | _, _ => (st, "bad-op")

def handler : Driver.Handler := { σ := Option BV, init := none, step := step }

end Driver.C39
