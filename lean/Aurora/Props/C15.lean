import Aurora.Lemmas.Pinning
/-!
# C15 — Pin and unpin are idempotent inverses

Property theorems only (helper lemmas: `Aurora/Lemmas/Pinning.lean`).  The model is
`Aurora/Model/Pinning.lean`: the HTTP handlers of `pkg/api/pin.go` (with their `HasPin`
guard) over `pinning.CreatePin/DeletePin` and the pin index of `mode_set.go`
(`setPin`/`setUnpin`); the same steps are embedded in the node-lite model
(`Aurora/Model/NodeLite.lean`, `apiPin`/`apiUnpin` over lstore-a's literal `Localstore` model),
which the C15 correspondence run compares with the real API server, pin index dump included.

Parameters of every statement: `ms r` = the addresses the traversal of reference `r` reports, as
a list with repetitions (a chunk repeated inside a file, or shared by two references, occurs
several times); `stored a` = chunk `a` is in the local store.  "A stored reference" is
`∀ a ∈ ms r, stored a`.  No bound on the number of references, chunks or operations.
-/
namespace Aurora.Pinning

/-- references all of whose reported addresses are stored -/
def AllStored (stored : Addr → Bool) (ms : Addr → List Addr) : Prop := ∀ r, ∀ a ∈ ms r, stored a = true

/-! ### pin marks the reference and all its chunks -/

/-- Full statement of the first clause, for a reference whose chunk set is `chunks r`: after an
    effective pin the reference is listed and every chunk of it has a positive pin counter. -/
def C15_pin_marks_all_full : Prop :=
  ∀ (stored : Addr → Bool) (ms chunks : Addr → List Addr) (s : State) (r : Addr),
    r ∉ s.roots → (∀ c ∈ chunks r, stored c = true) →
    listed (apiPin stored ms s r).1 r = true ∧ ∀ c ∈ chunks r, 0 < cnt (apiPin stored ms s r).1.pin c

/-- Clause "pinning a stored reference marks it and all its chunks", under the guard that the
    traversal reports the addresses of the reference's chunks (`chunks r ⊆ ms r`; this is C09's
    statement, which the code violates for encrypted references — see the counterexample). -/
theorem C15_pin_marks_all_partial (stored : Addr → Bool) (ms chunks : Addr → List Addr)
    (s : State) (r : Addr) (hr : r ∉ s.roots) (hst : ∀ c ∈ chunks r, stored c = true)
    (hcov : ∀ c ∈ chunks r, c ∈ ms r) :
    (apiPin stored ms s r).2 = .created ∧ listed (apiPin stored ms s r).1 r = true ∧
      ∀ c ∈ chunks r, 0 < cnt (apiPin stored ms s r).1.pin c := by
  rw [apiPin_new stored ms s r hr]
  refine ⟨rfl, by simp [listed], ?_⟩
  intro c hcin
  simp only
  rw [cnt_pinAll]
  have : 0 < ((ms r).filter stored).count c :=
    List.count_pos_iff.mpr (List.mem_filter.mpr ⟨hcov c hcin, hst c hcin⟩)
  omega

/-- The unguarded statement is false of the code: for an encrypted reference the traversal
    reports the 64-byte reference (hash ‖ key, here address 100) instead of the chunk address
    (here 1); `ModeSetPin` of that address answers `ErrNotFound`, which `CreatePin` ignores — the
    reference is listed, its chunk is not pinned.  (Replayed on the real code by the regression
    cases `fix-encrypted-*` of the C15 check.) -/
theorem C15_pin_marks_all_counterexample : ¬ C15_pin_marks_all_full := by
  intro h
  have := (h (fun a => a == 1) (fun _ => [100]) (fun _ => [1]) {} 7 (by simp)
    (by simp)).2 1 (by simp)
  revert this
  decide

/-! ### repeating the pin has no further effect -/

/-- A second pin of a listed reference answers 200 and changes nothing — whatever the state,
    stored or not. -/
theorem C15_pin_idempotent (stored : Addr → Bool) (ms : Addr → List Addr) (s : State) (r : Addr) :
    apiPin stored ms (apiPin stored ms s r).1 r = ((apiPin stored ms s r).1, .ok) := by
  apply apiPin_listed
  by_cases h : r ∈ s.roots
  · rw [apiPin_listed stored ms s r h]; exact h
  · rw [apiPin_new stored ms s r h]; simp

/-! ### unpin restores every counter -/

/-- `pin r; unpin r` from ANY state in which `r` is not listed: the unpin succeeds, the list of
    pinned references is the old one and every pin counter (of every address, also of chunks
    shared with other pinned references or repeated inside `r`) has its pre-pin value. -/
theorem C15_unpin_restores (stored : Addr → Bool) (ms : Addr → List Addr) (s : State) (r : Addr)
    (hr : r ∉ s.roots) (hst : ∀ a ∈ ms r, stored a = true) :
    (apiUnpin ms (apiPin stored ms s r).1 r).2 = .ok ∧
    (apiUnpin ms (apiPin stored ms s r).1 r).1.roots = s.roots ∧
      ∀ b, cnt (apiUnpin ms (apiPin stored ms s r).1 r).1.pin b = cnt s.pin b := by
  have hf : (ms r).filter stored = ms r := List.filter_eq_self.mpr hst
  have henough : ∀ a, (ms r).count a ≤ cnt (pinAll stored s.pin (ms r)) a := by
    intro a; rw [cnt_pinAll, hf]; omega
  obtain ⟨hok, hcnt⟩ := unpinAll_ok (ms r) (pinAll stored s.pin (ms r)) henough
  rw [apiPin_new stored ms s r hr]
  have hc : ¬ (!(s.roots ++ [r]).contains r) = true := by simp
  unfold apiUnpin
  simp only
  rw [if_neg hc]
  cases hu : unpinAll (pinAll stored s.pin (ms r)) (ms r) with
  | mk m ok =>
    rw [hu] at hok hcnt
    simp only at hok hcnt
    subst hok
    refine ⟨rfl, ?_, ?_⟩
    · simp only [if_true, List.filter_append, filter_ne_of_not_mem s.roots r hr]
      simp
    · intro b
      simp only [if_true]
      rw [hcnt b, cnt_pinAll, hf]; omega

/-- The multiset argument: from a state in which no reference is listed (`base` = the counters
    then, e.g. those of pinned uploads), after ANY history of pins and unpins of stored
    references every counter equals `base` plus the number of occurrences of the address among
    the addresses of the currently listed references. -/
theorem C15_counter_invariant (stored : Addr → Bool) (ms : Addr → List Addr)
    (hst : AllStored stored ms) (s : State) (hroots : s.roots = []) (h : List Op) :
    ∀ b, cnt (run stored ms s h).pin b = cnt s.pin b + load ms (run stored ms s h).roots b := by
  have h0 : Inv ms (cnt s.pin) s := ⟨by simp [hroots], by intro b; simp [hroots, load]⟩
  exact (inv_run stored ms _ hst h s h0).2

/-- does the op act on reference `r`? -/
def Op.on (r : Addr) : Op → Bool
  | .pin x => x == r
  | .unpin x => x == r

/-- one step of the simulation used below: `t'` is `t` with `r` additionally listed -/
theorem C15_simulation_step (stored : Addr → Bool) (ms : Addr → List Addr) (hst : AllStored stored ms)
    (base : Addr → Nat) (r : Addr) (t t' : State) (op : Op) (hop : Op.on r op = false)
    (it : Inv ms base t) (it' : Inv ms base t') (hrt : r ∉ t.roots) (hrt' : r ∈ t'.roots)
    (hf : t'.roots.filter (· != r) = t.roots) :
    r ∉ (step stored ms t op).roots ∧ r ∈ (step stored ms t' op).roots ∧
      (step stored ms t' op).roots.filter (· != r) = (step stored ms t op).roots := by
  have mem_iff : ∀ x, x ≠ r → (x ∈ t'.roots ↔ x ∈ t.roots) := by
    intro x hx
    rw [← hf]
    constructor
    · intro hm; exact List.mem_filter.mpr ⟨hm, by simpa using hx⟩
    · intro hm; exact (List.mem_filter.mp hm).1
  cases op with
  | pin x =>
    have hx : x ≠ r := by simpa [Op.on] using hop
    have hxr : (x != r) = true := by simpa using hx
    simp only [step]
    by_cases hm : x ∈ t.roots
    · have hm' : x ∈ t'.roots := (mem_iff x hx).mpr hm
      rw [apiPin_listed stored ms t x hm, apiPin_listed stored ms t' x hm']
      exact ⟨hrt, hrt', hf⟩
    · have hm' : x ∉ t'.roots := fun h => hm ((mem_iff x hx).mp h)
      rw [apiPin_new stored ms t x hm, apiPin_new stored ms t' x hm']
      refine ⟨?_, ?_, ?_⟩
      · intro hmem
        rcases List.mem_append.mp hmem with h1 | h1
        · exact hrt h1
        · simp at h1; exact hx h1.symm
      · exact List.mem_append.mpr (Or.inl hrt')
      · simp [List.filter_append, hf, List.filter, hxr]
  | unpin x =>
    have hx : x ≠ r := by simpa [Op.on] using hop
    simp only [step]
    by_cases hm : x ∈ t.roots
    · have hm' : x ∈ t'.roots := (mem_iff x hx).mpr hm
      rw [apiUnpin_listed ms base t x it hm, apiUnpin_listed ms base t' x it' hm']
      refine ⟨?_, ?_, ?_⟩
      · intro hmem; exact hrt (List.mem_filter.mp hmem).1
      · exact List.mem_filter.mpr ⟨hrt', by simpa using fun h => hx h.symm⟩
      · simp only
        rw [← hf, List.filter_filter, List.filter_filter]
        congr 1; funext y; exact Bool.and_comm _ _
    · have hm' : x ∉ t'.roots := fun h => hm ((mem_iff x hx).mp h)
      rw [apiUnpin_not_listed ms t x hm, apiUnpin_not_listed ms t' x hm']
      exact ⟨hrt, hrt', hf⟩

/-- Overlapping references, arbitrary interleaving: `pin r; h; unpin r`, where `h` is any
    history of pins / unpins of OTHER stored references (sharing chunks with `r` or not), ends
    with exactly the counters and the list that `h` alone produces. -/
theorem C15_unpin_restores_interleaved (stored : Addr → Bool) (ms : Addr → List Addr)
    (hst : AllStored stored ms) (base : Addr → Nat) (s : State) (hi : Inv ms base s)
    (r : Addr) (hr : r ∉ s.roots) (h : List Op) (hh : ∀ op ∈ h, Op.on r op = false) :
    (run stored ms s (.pin r :: h ++ [.unpin r])).roots = (run stored ms s h).roots ∧
    ∀ b, cnt (run stored ms s (.pin r :: h ++ [.unpin r])).pin b = cnt (run stored ms s h).pin b := by
  have sim : ∀ (h : List Op) (t t' : State), (∀ op ∈ h, Op.on r op = false) →
      Inv ms base t → Inv ms base t' → r ∉ t.roots → r ∈ t'.roots →
      t'.roots.filter (· != r) = t.roots →
      Inv ms base (run stored ms t h) ∧ Inv ms base (run stored ms t' h) ∧
        r ∈ (run stored ms t' h).roots ∧
        (run stored ms t' h).roots.filter (· != r) = (run stored ms t h).roots := by
    intro h
    induction h with
    | nil => intro t t' _ a b _ d e; exact ⟨a, b, d, e⟩
    | cons op h ih =>
      intro t t' hops it it' hrt hrt' hf
      have hop := hops op (by simp)
      have hrest : ∀ o ∈ h, Op.on r o = false := fun o ho => hops o (by simp [ho])
      obtain ⟨s1, s2, s3⟩ := C15_simulation_step stored ms hst base r t t' op hop it it' hrt hrt' hf
      rw [run_cons, run_cons]
      have j1 : Inv ms base (step stored ms t op) := by
        have := inv_run stored ms base hst [op] t it
        simpa [run, List.foldl] using this
      have j2 : Inv ms base (step stored ms t' op) := by
        have := inv_run stored ms base hst [op] t' it'
        simpa [run, List.foldl] using this
      exact ih _ _ hrest j1 j2 s1 s2 s3
  have it' : Inv ms base (apiPin stored ms s r).1 := inv_pin ms base stored s r (hst r) hi
  have hr' : r ∈ (apiPin stored ms s r).1.roots := by rw [apiPin_new stored ms s r hr]; simp
  have hf0 : (apiPin stored ms s r).1.roots.filter (· != r) = s.roots := by
    rw [apiPin_new stored ms s r hr]
    simp [List.filter_append, filter_ne_of_not_mem s.roots r hr]
  obtain ⟨iu, iu', hru', hfu⟩ := sim h s (apiPin stored ms s r).1 hh hi it' hr hr' hf0
  have hrun : run stored ms s (.pin r :: h ++ [.unpin r]) =
      (apiUnpin ms (run stored ms (apiPin stored ms s r).1 h) r).1 := by
    have : (Op.pin r :: h ++ [Op.unpin r]) = (Op.pin r :: h) ++ [Op.unpin r] := rfl
    rw [this, run_append_single, run_cons]; rfl
  rw [hrun]
  have ifin := inv_unpin ms base _ r iu'
  have hroots : (apiUnpin ms (run stored ms (apiPin stored ms s r).1 h) r).1.roots = (run stored ms s h).roots := by
    rw [apiUnpin_listed ms base _ r iu' hru']; exact hfu
  refine ⟨hroots, ?_⟩
  intro b
  rw [ifin.2 b, iu.2 b, hroots]

/-! ### repeating the unpin changes nothing -/

/-- An unpin that succeeded removed the reference from the list, so a second unpin answers 404
    and changes nothing (no counter, not the list). -/
theorem C15_unpin_idempotent (ms : Addr → List Addr) (s : State) (r : Addr)
    (h1 : (apiUnpin ms s r).2 = .ok) :
    apiUnpin ms (apiUnpin ms s r).1 r = ((apiUnpin ms s r).1, .notFound) := by
  apply apiUnpin_not_listed
  by_cases hm : r ∈ s.roots
  · have hc : ¬ (!s.roots.contains r) = true := by simpa using hm
    unfold apiUnpin at h1 ⊢
    rw [if_neg hc] at h1 ⊢
    cases hu : unpinAll s.pin (ms r) with
    | mk m ok =>
      rw [hu] at h1
      cases ok with
      | false => simp at h1
      | true => simp [List.mem_filter]
  · rw [apiUnpin_not_listed ms s r hm] at h1; simp at h1

/-- With the counters in the invariant's shape (all listed references were pinned while stored)
    the unpin of a listed reference always succeeds. -/
theorem C15_unpin_succeeds (ms : Addr → List Addr) (base : Addr → Nat) (s : State) (r : Addr)
    (hi : Inv ms base s) (hr : r ∈ s.roots) : (apiUnpin ms s r).2 = .ok := by
  rw [apiUnpin_listed ms base s r hi hr]

/-! ### listed iff the last operation was a pin -/

/-- the last operation of the history that acts on `r` -/
def lastOn (r : Addr) (h : List Op) : Option Op := (h.reverse.find? (Op.on r))

/-- After any history of pins / unpins of stored references, starting with nothing listed, a
    reference is listed (`GET /pins`, `GET /pins/{ref}`) iff the last operation on it was a pin. -/
theorem C15_listed_iff_last_op_pin (stored : Addr → Bool) (ms : Addr → List Addr)
    (hst : AllStored stored ms) (s : State) (hroots : s.roots = []) (h : List Op) (r : Addr) :
    listed (run stored ms s h) r = true ↔ lastOn r h = some (.pin r) := by
  have gen : ∀ (h : List Op) (t : State), Inv ms (cnt s.pin) t →
      (r ∈ (run stored ms t h).roots ↔
        (lastOn r h = some (.pin r) ∨ (lastOn r h = none ∧ r ∈ t.roots))) := by
    intro h
    refine list_rev_induction (fun h => ∀ (t : State), Inv ms (cnt s.pin) t →
      (r ∈ (run stored ms t h).roots ↔
        (lastOn r h = some (.pin r) ∨ (lastOn r h = none ∧ r ∈ t.roots)))) ?_ ?_ h
    · intro t _; simp [run, lastOn]
    · intro h op ih t it
      have hinv : Inv ms (cnt s.pin) (run stored ms t h) := inv_run stored ms _ hst h t it
      rw [run_append_single]
      have ih' := ih t it
      cases op with
      | pin x =>
        by_cases hx : x = r
        · subst hx
          have hl : lastOn x (h ++ [Op.pin x]) = some (.pin x) := by simp [lastOn, Op.on]
          rw [hl]
          simp only [step]
          by_cases hm : x ∈ (run stored ms t h).roots
          · rw [apiPin_listed _ _ _ _ hm]; simp [hm]
          · rw [apiPin_new _ _ _ _ hm]; simp
        · have hxr : (x == r) = false := by simpa using hx
          have hl : lastOn r (h ++ [Op.pin x]) = lastOn r h := by simp [lastOn, Op.on, hxr]
          rw [hl, ← ih']
          simp only [step]
          by_cases hm : x ∈ (run stored ms t h).roots
          · rw [apiPin_listed _ _ _ _ hm]
          · rw [apiPin_new _ _ _ _ hm]
            have : ¬ r = x := fun h => hx h.symm
            simp [this]
      | unpin x =>
        by_cases hx : x = r
        · subst hx
          have hl : lastOn x (h ++ [Op.unpin x]) = some (.unpin x) := by simp [lastOn, Op.on]
          rw [hl]
          simp only [step]
          by_cases hm : x ∈ (run stored ms t h).roots
          · rw [apiUnpin_listed ms _ _ x hinv hm]; simp [List.mem_filter]
          · rw [apiUnpin_not_listed ms _ x hm]; simp [hm]
        · have hxr : (x == r) = false := by simpa using hx
          have hl : lastOn r (h ++ [Op.unpin x]) = lastOn r h := by simp [lastOn, Op.on, hxr]
          rw [hl, ← ih']
          simp only [step]
          by_cases hm : x ∈ (run stored ms t h).roots
          · rw [apiUnpin_listed ms _ _ x hinv hm]
            have : ¬ r = x := fun h => hx h.symm
            simp [List.mem_filter, this]
          · rw [apiUnpin_not_listed ms _ x hm]
  have h0 : Inv ms (cnt s.pin) s := ⟨by simp [hroots], by intro b; simp [hroots, load]⟩
  have := gen h s h0
  simp only [listed, List.contains_iff_mem] at *
  rw [this]
  simp [hroots]

/-! ### non-vacuity -/

/-- two references sharing chunk 2, reference 10 repeats chunk 1: all premises are satisfiable
    and the history exercises overlap and repetition -/
example : AllStored (fun _ => true) (fun r => if r = 10 then [10, 1, 2, 1] else [r, 2]) := by
  intro r a _; rfl

example :
    let ms : Addr → List Addr := fun r => if r = 10 then [10, 1, 2, 1] else [r, 2]
    let s := run (fun _ => true) ms {} [.pin 10, .pin 20, .unpin 10]
    (cnt s.pin 1, cnt s.pin 2, s.roots) = (0, 1, [20]) := by decide

end Aurora.Pinning
