import Aurora.Lemmas.Proximity
/-!
# C20 — Proximity and distance agree with the XOR metric

Property theorems only (helper lemmas: `Aurora/Lemmas/Proximity.lean`).  The model is
`Aurora/Model/Proximity.lean`, a transcription of `/repo/pkg/boson/proximity.go` and
`distance.go` *after* the two `fix:` commits (clamp in `ExtendedProximity`; `int` instead of
`uint8(len(..))` lengths).  The caps are the generated constants `Aurora.Generated.maxPO` /
`extendedPO`, re-extracted from /repo on every run; the only facts used about them are the
`decide`d side conditions `maxPO % 8 = 7`, `maxPO < 248`, `extendedPO < 248` (the `uint8`
expression `i*8 + j` cannot wrap, and scanning `maxPO/8 + 1` bytes cannot overshoot `maxPO`).

Vocabulary (`Lemmas/Proximity.lean`): `bitAt x k` = bit `k` of `x`, most significant bit of
byte 0 first; `CappedLcp cap x y p` = "`p ≤ cap`, bits `< p` agree, and if `p < cap` bit `p`
differs" (the bitwise definition of *leading equal bits capped at `cap`*); `lcpBits x y` = the
number of leading equal bits computed by a plain scan; `xorNat a x` = big-endian value of the
byte-wise XOR (positional weights `256 ^ i`).  All statements are for every byte string of every
length — no bound.
-/
namespace Aurora.Proximity
open Aurora.Generated

/-- Clause "proximity order is the number of leading equal bits capped at the maximum order"
    (standard cap), bitwise form, for any two equal-length addresses of any length. -/
theorem C20_proximity_spec (x y : List Byte) (hlen : x.length = y.length) :
    CappedLcp maxPO x y (proximity x y) := by
  have hc1 : maxPO < 248 := by decide
  have hc2 : maxPO % 8 = 7 := by decide
  unfold proximity
  cases h : scan x y 0 (scanBytes maxPO x y) with
  | some r =>
    obtain ⟨h1, h2, h3⟩ := scan_found maxPO hc1 x y r h
    simp only [Option.getD_some]
    exact ⟨by omega, h3, fun _ => h2⟩
  | none =>
    have hn := scan_notfound maxPO x y hlen h
    simp only [Option.getD_none]
    exact ⟨Nat.le_refl _, fun k hk => hn k (by omega), fun hh => absurd hh (Nat.lt_irrefl _)⟩

/-- Same clause for the extended cap (`ExtendedProximity`, repaired code). -/
theorem C20_extendedProximity_spec (x y : List Byte) (hlen : x.length = y.length) :
    CappedLcp extendedPO x y (extendedProximity x y) := by
  have hc1 : extendedPO < 248 := by decide
  unfold extendedProximity
  cases h : scan x y 0 (scanBytes extendedPO x y) with
  | some r =>
    obtain ⟨_, h2, h3⟩ := scan_found extendedPO hc1 x y r h
    simp only
    by_cases hr : r < extendedPO
    · rw [if_pos hr]; exact ⟨by omega, h3, fun _ => h2⟩
    · rw [if_neg hr]
      exact ⟨Nat.le_refl _, fun k hk => h3 k (by omega), fun hh => absurd hh (Nat.lt_irrefl _)⟩
  | none =>
    have hn := scan_notfound extendedPO x y hlen h
    simp only
    exact ⟨Nat.le_refl _, fun k hk => hn k (by omega), fun hh => absurd hh (Nat.lt_irrefl _)⟩

/-- The same two clauses in closed form: for different addresses the proximity is
    `min (number of leading equal bits) cap`; for equal addresses it is the cap. -/
theorem C20_proximity_eq_min (x y : List Byte) (hlen : x.length = y.length) :
    (x ≠ y → proximity x y = min (lcpBits x y) maxPO ∧
             extendedProximity x y = min (lcpBits x y) extendedPO) ∧
    (x = y → proximity x y = maxPO ∧ extendedProximity x y = extendedPO) := by
  have s1 := C20_proximity_spec x y hlen
  have s2 := C20_extendedProximity_spec x y hlen
  constructor
  · intro hne
    exact ⟨cappedLcp_eq_min _ x y hlen hne _ s1, cappedLcp_eq_min _ x y hlen hne _ s2⟩
  · intro he
    subst he
    constructor
    · apply Classical.byContradiction
      intro hn
      exact s1.2.2 (by have := s1.1; omega) rfl
    · apply Classical.byContradiction
      intro hn
      exact s2.2.2 (by have := s2.1; omega) rfl

/-- `lcpBits` really is "the number of leading equal bits": the first `lcpBits x y` bits agree and,
    unless all `8·len` bits agree, the next one differs. -/
theorem C20_lcpBits_spec (x y : List Byte) :
    lcpBits x y ≤ 8 * x.length ∧ (∀ k, k < lcpBits x y → bitAt x k = bitAt y k) ∧
    (lcpBits x y < 8 * x.length → bitAt x (lcpBits x y) ≠ bitAt y (lcpBits x y)) := by
  unfold lcpBits
  have gen : ∀ fuel k, (∀ j, j < k → bitAt x j = bitAt y j) →
      lcpFrom x y k fuel ≤ k + fuel ∧ (∀ j, j < lcpFrom x y k fuel → bitAt x j = bitAt y j) ∧
      (lcpFrom x y k fuel < k + fuel → bitAt x (lcpFrom x y k fuel) ≠ bitAt y (lcpFrom x y k fuel)) := by
    intro fuel
    induction fuel with
    | zero => intro k hk; simp only [lcpFrom]; exact ⟨by omega, hk, fun h => absurd h (by omega)⟩
    | succ f ih =>
      intro k hk
      unfold lcpFrom
      by_cases hb : bitAt x k = bitAt y k
      · rw [if_pos hb]
        have := ih (k + 1) (by
          intro j hj
          by_cases hjk : j = k
          · subst hjk; exact hb
          · exact hk j (by omega))
        refine ⟨by omega, this.2.1, fun h => this.2.2 (by omega)⟩
      · rw [if_neg hb]
        exact ⟨by omega, hk, fun _ => hb⟩
  have := gen (8 * x.length) 0 (fun j hj => absurd hj (Nat.not_lt_zero _))
  simpa using this

/-- Clause "it is symmetric" — for all inputs, also of different lengths. -/
theorem C20_proximity_symm (x y : List Byte) :
    proximity x y = proximity y x ∧ extendedProximity x y = extendedProximity y x := by
  unfold proximity extendedProximity
  have e := scan_comm x y
  simp only [e, scanBytes_comm maxPO x y, scanBytes_comm extendedPO x y, and_self]

/-- What the repair of `ExtendedProximity` changed: before it, a first difference at bit 38 gave
    38, above the cap (the statement `CappedLcp` fails for the old function). -/
theorem C20_extendedProximityOld_counterexample :
    ¬ CappedLcp extendedPO [0#8, 0#8, 0#8, 0#8, 0#8] [0#8, 0#8, 0#8, 0#8, 2#8]
        (extendedProximityOld [0#8, 0#8, 0#8, 0#8, 0#8] [0#8, 0#8, 0#8, 0#8, 2#8]) := by
  intro h
  have h1 := h.1
  revert h1
  decide

/-- What the repair of the `uint8(len(..))` truncation changed: two 256-byte strings that differ in
    their very first bit had proximity `maxPO` instead of 0. -/
theorem C20_proximityOld_counterexample (xs ys : List Byte) (hx : xs.length = 255) (hy : ys.length = 255) :
    proximityOld (0x80#8 :: xs) (0#8 :: ys) = maxPO ∧ proximity (0x80#8 :: xs) (0#8 :: ys) = 0 := by
  constructor
  · simp [proximityOld, hx, hy, scan]
  · have hb : bitScan (128#8) 0 8 = some 0 := by decide
    simp [proximity, scanBytes, hx, hy, maxPO, scan, hb]

/-- `Distance`: fails exactly on different lengths, otherwise the big-endian value of the XOR. -/
theorem C20_distance_spec (x y : List Byte) :
    distance x y = if x.length = y.length then some (xorNat x y) else none := by
  unfold distance distanceRaw xorNat
  by_cases h : x.length = y.length
  · simp [h, beNat_eq_beVal, xorBytes_eq_zipWith]
  · simp [h]

/-- Clause "ordering addresses by closeness to a target agrees with comparing their XOR distances
    as big integers": `DistanceCmp(a, x, y)` is `1` iff `x` is strictly closer to `a` than `y`,
    `0` iff equally far, `-1` iff farther; it fails exactly when the lengths differ. -/
theorem C20_distanceCmp_spec (a x y : List Byte) :
    distanceCmp a x y =
      if a.length = x.length ∧ a.length = y.length then
        some (if xorNat a x < xorNat a y then 1 else if xorNat a x = xorNat a y then 0 else -1)
      else none := by
  unfold distanceCmp
  by_cases h : a.length = x.length ∧ a.length = y.length
  · have : ¬ (a.length ≠ x.length ∨ a.length ≠ y.length) := by omega
    rw [if_neg this, if_pos h, distanceCmpLoop_spec a x y h.1 h.2]
  · have : a.length ≠ x.length ∨ a.length ≠ y.length := by omega
    rw [if_pos this, if_neg h]

/-- "equally far" means "same address" (the XOR metric is injective in each argument). -/
theorem C20_distanceCmp_zero_iff (a x y : List Byte) (hx : a.length = x.length) (hy : a.length = y.length) :
    distanceCmp a x y = some 0 ↔ x = y := by
  unfold distanceCmp
  have : ¬ (a.length ≠ x.length ∨ a.length ≠ y.length) := by omega
  rw [if_neg this]
  simp [distanceCmpLoop_zero_iff a x y hx hy]

/-- consequently equal XOR distances to `a` force equal addresses, so ordering by `xorNat a ·` is a
    strict total order on addresses of one length — "closest" is well defined. -/
theorem C20_xorNat_injective (a x y : List Byte) (hx : a.length = x.length) (hy : a.length = y.length)
    (h : xorNat a x = xorNat a y) : x = y := by
  have s := C20_distanceCmp_spec a x y
  rw [if_pos ⟨hx, hy⟩] at s
  have : distanceCmp a x y = some 0 := by
    rw [s]; simp [h]
  exact (C20_distanceCmp_zero_iff a x y hx hy).1 this

/-- antisymmetry of the comparison -/
theorem C20_distanceCmp_antisymm (a x y : List Byte) (r : Int) (h : distanceCmp a x y = some r) :
    distanceCmp a y x = some (-r) := by
  rw [C20_distanceCmp_spec] at h ⊢
  by_cases hl : a.length = x.length ∧ a.length = y.length
  · rw [if_pos hl] at h
    rw [if_pos ⟨hl.2, hl.1⟩]
    simp only [Option.some.injEq] at h ⊢
    subst h
    by_cases h1 : xorNat a x < xorNat a y
    · have n1 : ¬ xorNat a y < xorNat a x := by omega
      have n2 : ¬ xorNat a y = xorNat a x := by omega
      simp [h1, n1, n2]
    · by_cases h2 : xorNat a x = xorNat a y
      · simp [h2]
      · have : xorNat a y < xorNat a x := by omega
        simp [h1, h2, this]
  · rw [if_neg hl] at h; simp at h

/-- `Address.Closer`: `a.Closer(x, y)` is true iff `a` is strictly closer to `x` than `y` is. -/
theorem C20_closer_iff (a x y : List Byte) (hx : x.length = a.length) (hy : x.length = y.length) :
    closer a x y = some (decide (xorNat x a < xorNat x y)) := by
  unfold closer
  rw [C20_distanceCmp_spec, if_pos ⟨hx, hy⟩]
  by_cases h1 : xorNat x a < xorNat x y
  · simp [h1]
  · by_cases h2 : xorNat x a = xorNat x y <;> simp [h1, h2]

/-! Non-vacuity: the hypotheses are satisfiable and the statements discriminate. -/
example : proximity [0xff#8, 0x00#8] [0xff#8, 0x10#8] = 11 := by decide
example : lcpBits [0xff#8, 0x00#8] [0xff#8, 0x10#8] = 11 := by decide
example : extendedProximity [0#8, 0#8, 0#8, 0#8, 0#8] [0#8, 0#8, 0#8, 0#8, 2#8] = 36 := by decide
example : extendedProximity [0#8, 0#8, 0#8, 0#8, 0#8] [0#8, 0#8, 0#8, 0#8, 0x10#8] = 35 := by decide
example : distanceCmp [0#8] [1#8] [2#8] = some 1 := by decide
example : xorNat [1#8, 0#8] [0#8, 2#8] = 258 := by decide
example : ∃ xs ys : List Byte, xs.length = 255 ∧ ys.length = 255 :=
  ⟨List.replicate 255 0#8, List.replicate 255 0#8, List.length_replicate, List.length_replicate⟩

end Aurora.Proximity
