import Aurora.Props.C38
#print axioms Aurora.Group.C38_lists_disjoint
#print axioms Aurora.Group.C38_lists_disjoint_step
#print axioms Aurora.Group.C38_connected_was_neighbor
#print axioms Aurora.Group.C38_connected_enters
#print axioms Aurora.Group.C38_disconnect_removes
#print axioms Aurora.Group.C38_unseat_leaves
#print axioms Aurora.Group.C38_prune_spec
#print axioms Aurora.Flood.C38_deliver_at_most_once
#print axioms Aurora.Flood.C38_forward_at_most_once
#print axioms Aurora.Flood.C38_redelivery_is_noop
#print axioms Aurora.Flood.C38_flood_step_decreases
#print axioms Aurora.Flood.C38_flood_terminates
