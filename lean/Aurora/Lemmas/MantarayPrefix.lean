import Aurora.Lemmas.MantarayMem
/-! `HasPrefix` on loaded tries: pure version `hp`, its law under `Add`, and the map side. -/
namespace Aurora.Mantaray

theorem isPrefix_split (a s q : Bytes) :
    isPrefix q (a ++ s) = if isPrefix a q then isPrefix (q.drop a.length) s else isPrefix q a := by
  induction a generalizing q with
  | nil => simp [isPrefix]
  | cons x xs ih =>
    cases q with
    | nil => simp [isPrefix]
    | cons y ys =>
      simp only [List.cons_append, isPrefix, List.length_cons, List.drop_succ_cons]
      by_cases h : y = x
      · subst h; simp [ih]
      · have h' : ¬ x = y := fun e => h e.symm
        have hb : (y == x) = false := by simp [h]
        simp [hb, h']

/-- `HasPrefix` without the loading side effect -/
def hp : Nat → Node → Bytes → Bool
  | 0, _, _ => false
  | _ + 1, _, [] => true
  | f + 1, n, k :: t =>
    match findFork n.forks k with
    | none => false
    | some (pfx, child) =>
      if isPrefix pfx (k :: t) then hp f child ((k :: t).drop pfx.length) else isPrefix (k :: t) pfx

theorem hasPrefixN_eq_hp : ∀ (f : Nat) (n : Node) (p : Bytes), Mem n → hasPrefixN f n p = (n, hp f n p) := by
  intro f
  induction f with
  | zero => intro n p _; rfl
  | succ f ih =>
    intro n p hm
    have hl := load_stable n (Or.inl hm.loaded)
    cases p with
    | nil => simp [hasPrefixN, hp, hl]
    | cons k t =>
      simp only [hasPrefixN, hp, hl]
      cases hff : findFork n.forks k with
      | none => rfl
      | some pc =>
        obtain ⟨pfx, child⟩ := pc
        simp only
        by_cases hpre : isPrefix pfx (k :: t) = true
        · have hc := (common_len_iff pfx (k :: t)).2 hpre
          simp only [if_true, hpre, common_of_isPrefix _ _ hpre]
          rw [ih child _ (hm.child (findFork_mem hff))]
          simp [setFork_self hff, setForks_self]
        · have hc : ¬ (common pfx (k :: t)).length = pfx.length := fun h => hpre ((common_len_iff _ _).1 h)
          simp [hc, hpre]

theorem hp_fuel : ∀ (f1 f2 : Nat) (n : Node) (q : Bytes), q.length < f1 → q.length < f2 →
    hp f1 n q = hp f2 n q := by
  intro f1
  induction f1 with
  | zero => intro f2 n q h; omega
  | succ f1 ih =>
    intro f2 n q h1 h2
    cases f2 with
    | zero => omega
    | succ f2 =>
      cases q with
      | nil => rfl
      | cons k t =>
        simp only [hp]
        cases hff : findFork n.forks k with
        | none => rfl
        | some pc =>
          obtain ⟨pfx, child⟩ := pc
          simp only
          split
          · have hpos : 0 < pfx.length := by
              have := findFork_some_head hff
              cases pfx with
              | nil => simp at this
              | cons a b => simp
            apply ih <;> (simp only [List.length_drop, List.length_cons] at *; omega)
          · rfl

theorem hp_cons (f : Nat) (n : Node) (k : UInt8) (t : Bytes) :
    hp (f + 1) n (k :: t) =
      match findFork n.forks k with
      | none => false
      | some pc => if isPrefix pc.1 (k :: t) then hp f pc.2 ((k :: t).drop pc.1.length) else isPrefix (k :: t) pc.1 := by
  simp only [hp]
  cases findFork n.forks k with
  | none => rfl
  | some pc => rfl

theorem hp_noforks (f : Nat) (n : Node) (hn : n.forks = []) (q : Bytes) :
    hp (f + 1) n q = decide (q = []) := by
  cases q with
  | nil => simp [hp]
  | cons k t => rw [hp_cons, hn]; simp [findFork]

/-- the node an edge split inserts -/
theorem hp_mid (f : Nat) (v : Bool) (rest : Bytes) (child : Node) (hr : rest ≠ []) (q : Bytes) :
    hp (f + 1) (Node.mk v false none [] [] true [(rest, child)]) q =
      if isPrefix rest q then hp f child (q.drop rest.length) else isPrefix q rest := by
  cases q with
  | nil =>
    cases rest with
    | nil => exact absurd rfl hr
    | cons a b => simp [hp, isPrefix]
  | cons k t =>
    rw [hp_cons]
    simp only [Node.forks, findFork, List.find?_cons, List.find?_nil]
    by_cases hh : (rest.head? == some k) = true
    · simp [hh]
    · have h1 : isPrefix rest (k :: t) = false := by
        cases hpr : isPrefix rest (k :: t) with
        | false => rfl
        | true => exact absurd (by simpa using isPrefix_head hr hpr) (by simpa using hh)
      have h2 : isPrefix (k :: t) rest = false := by
        cases rest with
        | nil => exact absurd rfl hr
        | cons a b =>
          simp only [List.head?_cons, beq_iff_eq, Option.some.injEq] at hh
          simp [isPrefix]; intro e; exact absurd e.symm hh
      simp [hh, h1, h2]


theorem hp_setFork_other (f : Nat) (n : Node) (k k' : UInt8) (t : Bytes) (x : Bytes × Node)
    (hx : x.1.head? = some k) (hk : k' ≠ k) :
    hp (f + 1) (n.setForks (setFork n.forks k x)) (k' :: t) = hp (f + 1) n (k' :: t) := by
  rw [hp_cons, hp_cons, setForks_forks, findFork_setFork_other _ _ _ _ hx hk]

theorem hp_setFork_same (f : Nat) (n : Node) (k : UInt8) (t : Bytes) (x : Bytes × Node)
    (hx : x.1.head? = some k) :
    hp (f + 1) (n.setForks (setFork n.forks k x)) (k :: t) =
      if isPrefix x.1 (k :: t) then hp f x.2 ((k :: t).drop x.1.length) else isPrefix (k :: t) x.1 := by
  rw [hp_cons, setForks_forks, findFork_setFork_same _ _ _ hx]

/-- The law of `Add` for prefix queries on loaded tries: a prefix exists afterwards iff it existed
    before or is a prefix of the added path. -/
theorem hp_add (e : Bytes) (md : Meta) :
    ∀ (fa : Nat) (n : Node) (p : Bytes) (n' : Node), Mem n → p.length < fa →
      add fa n p e md = some n' →
      ∀ (fl : Nat) (q : Bytes), q.length < fl → hp fl n' q = (hp fl n q || isPrefix q p) := by
  intro fa
  induction fa with
  | zero => intro n p n' _ h; omega
  | succ fa ih =>
    intro n p n' hm hfa hadd
    cases p with
    | nil =>
      simp only [add, Option.some.injEq] at hadd
      subst hadd
      intro fl q hq
      cases fl with
      | zero => omega
      | succ f =>
        cases q with
        | nil => simp [hp]
        | cons k t => rw [hp_cons, hp_cons, setEntry_forks]; simp [isPrefix]
    | cons k t =>
      simp only [add, hm.loaded, if_true] at hadd
      have frame : ∀ (x : Bytes × Node), x.1.head? = some k →
          (∀ (f : Nat) (t' : Bytes), (k :: t').length < f + 1 →
            (if isPrefix x.1 (k :: t') then hp f x.2 ((k :: t').drop x.1.length) else isPrefix (k :: t') x.1) =
              (hp (f + 1) n (k :: t') || isPrefix (k :: t') (k :: t))) →
          ∀ (fl : Nat) (q : Bytes), q.length < fl →
            hp fl (n.setForks (setFork n.forks k x)) q = (hp fl n q || isPrefix q (k :: t)) := by
        intro x hx hsame fl q hq
        cases fl with
        | zero => omega
        | succ f =>
          cases q with
          | nil => simp [hp]
          | cons k' t' =>
            by_cases hk : k' = k
            · subst hk
              rw [hp_setFork_same _ _ _ _ _ hx]
              exact hsame f t' hq
            · rw [hp_setFork_other _ _ _ _ _ _ hx hk]
              simp [isPrefix, hk]
      cases hff : findFork n.forks k with
      | none =>
        simp only [hff, hm.loaded, Bool.not_true, Bool.false_eq_true, if_false] at hadd
        by_cases hlong : (k :: t).length > nodePrefixMaxSize
        · simp only [hlong, if_true] at hadd
          cases hnn : add fa Node.new ((k :: t).drop nodePrefixMaxSize) e md with
          | none => simp [hnn] at hadd
          | some nn =>
            simp only [hnn, Option.some.injEq] at hadd
            subst hadd
            have hlen : ((k :: t).drop nodePrefixMaxSize).length < fa := by
              simp only [List.length_drop, List.length_cons, nodePrefixMaxSize] at *; omega
            have lawnn := ih Node.new _ nn Mem.new hlen hnn
            have htl : ((k :: t).take nodePrefixMaxSize).length = nodePrefixMaxSize := by
              simp only [List.length_take, List.length_cons, nodePrefixMaxSize] at *; omega
            apply frame ((k :: t).take nodePrefixMaxSize, nn) (by simp [nodePrefixMaxSize])
            intro f t' hq
            simp only
            rw [hp_cons, hff]
            generalize k :: t' = q at hq ⊢
            have hs := isPrefix_split ((k :: t).take nodePrefixMaxSize) ((k :: t).drop nodePrefixMaxSize) q
            rw [List.take_append_drop, htl] at hs
            rw [htl, hs]
            by_cases hp1 : isPrefix ((k :: t).take nodePrefixMaxSize) q = true
            · have hq' : (q.drop nodePrefixMaxSize).length < f := by
                obtain ⟨s2, hs2⟩ := (isPrefix_iff _ _).1 hp1
                have := congrArg List.length hs2
                simp only [List.length_append, htl, List.length_drop, nodePrefixMaxSize] at *; omega
              rw [if_pos hp1, if_pos hp1, lawnn f _ hq']
              cases f with
              | zero => omega
              | succ f0 =>
                rw [hp_noforks f0 Node.new rfl]
                cases hqd : q.drop nodePrefixMaxSize with
                | nil => simp [isPrefix]
                | cons a b => simp
            · simp [hp1]
        · simp only [hlong, if_false, Option.some.injEq] at hadd
          subst hadd
          apply frame (k :: t, Node.new.setEntry e md) rfl
          intro f t' hq
          simp only
          rw [hp_cons, hff]
          generalize k :: t' = q at hq ⊢
          have hs := isPrefix_split (k :: t) [] q
          rw [List.append_nil] at hs
          by_cases hp1 : isPrefix (k :: t) q = true
          · have hq' : (q.drop (k :: t).length).length < f := by
              obtain ⟨s2, hs2⟩ := (isPrefix_iff _ _).1 hp1
              have := congrArg List.length hs2
              simp only [List.length_append, List.length_drop, List.length_cons] at *; omega
            rw [if_pos hp1, hs, if_pos hp1]
            cases f with
            | zero => omega
            | succ f0 =>
              rw [hp_noforks f0 _ (by rw [setEntry_forks]; rfl)]
              cases hqd : q.drop (k :: t).length with
              | nil => simp [isPrefix]
              | cons a b => simp [isPrefix]
          · simp [hp1]
      | some pc =>
        obtain ⟨pfx, child⟩ := pc
        simp only [hff] at hadd
        have hh := findFork_some_head hff
        simp only at hh
        have hmc : Mem child := hm.child (findFork_mem hff)
        obtain ⟨sp, hsp⟩ := common_prefix_right pfx (k :: t)
        obtain ⟨rest, hrest⟩ := common_prefix_left pfx (k :: t)
        have hrest' : pfx.drop (common pfx (k :: t)).length = rest := by
          have := congrArg (List.drop (common pfx (k :: t)).length) hrest
          rw [List.drop_left] at this; exact this
        have hsp' : (k :: t).drop (common pfx (k :: t)).length = sp := by
          have := congrArg (List.drop (common pfx (k :: t)).length) hsp
          rw [List.drop_left] at this; exact this
        rw [hrest', hsp'] at hadd
        have hch := common_head hh (show (k :: t).head? = some k from rfl)
        generalize hc : common pfx (k :: t) = c at *
        have hcpos : 0 < c.length := by
          cases c with
          | nil => simp at hch
          | cons a b => simp
        have hsplen : sp.length < fa := by
          have := congrArg List.length hsp
          simp only [List.length_append, List.length_cons] at this hfa; omega
        by_cases hre : rest = []
        · subst hre
          simp only [List.isEmpty_nil, if_true] at hadd
          rw [List.append_nil] at hrest
          subst hrest
          cases hnn : add fa child sp e md with
          | none => simp [hnn] at hadd
          | some nn =>
            simp only [hnn, Option.some.injEq] at hadd
            subst hadd
            have lawnn := ih child sp nn hmc hsplen hnn
            apply frame (pfx, nn) hh
            intro f t' hq
            simp only
            rw [hp_cons, hff]
            simp only
            generalize k :: t' = q at hq ⊢
            have hs := isPrefix_split pfx sp q
            rw [← hsp] at hs
            rw [hs]
            by_cases hp1 : isPrefix pfx q = true
            · have hq' : (q.drop pfx.length).length < f := by
                obtain ⟨s2, hs2⟩ := (isPrefix_iff _ _).1 hp1
                have := congrArg List.length hs2
                simp only [List.length_append, List.length_drop] at *; omega
              rw [if_pos hp1, if_pos hp1, if_pos hp1, lawnn f _ hq']
            · simp [hp1]
        · have hie : rest.isEmpty = false := by cases rest <;> simp_all
          simp only [hie, Bool.false_eq_true, if_false] at hadd
          cases hnn : add fa (Node.mk ((k :: t).length == c.length) false none [] [] true [(rest, child)]) sp e md with
          | none => rw [hnn] at hadd; exact absurd hadd (by simp)
          | some nn =>
            simp only [hnn, Option.some.injEq] at hadd
            subst hadd
            have hmmid : Mem (Node.mk ((k :: t).length == c.length) false none [] [] true [(rest, child)]) :=
              Mem.mk _ _ _ _ _ _ (by intro pc hpc; simp at hpc; subst hpc; exact hmc)
            have lawnn := ih _ sp nn hmmid hsplen hnn
            apply frame (c, nn) hch
            intro f t' hq
            simp only
            rw [hp_cons, hff]
            simp only
            generalize k :: t' = q at hq ⊢
            have hs := isPrefix_split c sp q
            rw [← hsp] at hs
            have hs2 := isPrefix_split c rest q
            rw [← hrest] at hs2
            have hpa := isPrefix_append c rest q
            rw [← hrest] at hpa
            rw [hs, hs2, hpa]
            by_cases hp1 : isPrefix c q = true
            · obtain ⟨s3, hs3⟩ := (isPrefix_iff _ _).1 hp1
              have hl3 := congrArg List.length hs3
              have hq' : (q.drop c.length).length < f := by
                simp only [List.length_append, List.length_drop] at *; omega
              simp only [hp1, if_true, Bool.true_and]
              rw [lawnn f _ hq']
              cases f with
              | zero => omega
              | succ f0 =>
                rw [hp_mid f0 _ rest child hre]
                by_cases hpr : isPrefix rest (q.drop c.length) = true
                · simp only [hpr, if_true]
                  have hdd : q.drop pfx.length = (q.drop c.length).drop rest.length := by
                    rw [List.drop_drop, hrest, List.length_append]
                  rw [hdd]
                  have hrl : 0 < rest.length := List.length_pos_iff.mpr hre
                  obtain ⟨s4, hs4⟩ := (isPrefix_iff _ _).1 hpr
                  have hxl : rest.length ≤ (q.drop c.length).length := by
                    rw [hs4, List.length_append]; omega
                  congr 1
                  apply hp_fuel
                  · rw [List.length_drop]; omega
                  · rw [List.length_drop]; omega
                · simp [hpr]
            · simp [hp1]


/-! ## specification side -/

theorem any_erase (m : PathMap) (p q : Bytes) :
    ((m.filter (fun x => !(x.1 == p))).any (fun x => isPrefix q x.1) || isPrefix q p) =
      (m.any (fun x => isPrefix q x.1) || isPrefix q p) := by
  induction m with
  | nil => rfl
  | cons x rest ih =>
    by_cases hx : x.1 = p
    · simp only [List.filter_cons, hx, beq_self_eq_true, Bool.not_true, Bool.false_eq_true, if_false,
        List.any_cons]
      rw [ih]
      cases isPrefix q p <;> simp
    · have : (x.1 == p) = false := by simp [hx]
      simp only [List.filter_cons, this, Bool.not_false, if_true, List.any_cons, Bool.or_assoc, ih]

theorem hasPrefix_insert (m : PathMap) (p q : Bytes) (v : Bytes × Meta) :
    (m.insert p v).hasPrefix q = (m.hasPrefix q || isPrefix q p) := by
  unfold PathMap.hasPrefix PathMap.insert PathMap.erase
  simp only [List.any_cons]
  rw [Bool.or_comm (isPrefix q p), any_erase, Bool.or_assoc]

/-- the wrapper's `hasPrefix` on a loaded trie -/
theorem hasPrefix_mem (n : Node) (hm : Mem n) (p : Bytes) :
    hasPrefix n p = (n, hp (p.length + 1) n p) := by
  unfold hasPrefix
  rw [hasPrefixN_eq_hp _ _ _ hm]

end Aurora.Mantaray
