import Aurora.Lemmas.Traffic
/-!
# C31 — Issued cheques never inflate the available balance

Property theorems only (helpers in `Aurora/Lemmas/Traffic.lean`).  The model
(`Aurora/Model/Traffic.lean`) transcribes the paying side of `traffic.Service` after the repair of
`issue` (fresh big.Int for the new cumulative payout) and is tied to the Go code by the C31
correspondence run.  `n` is the number of chain-address ids in play (the sums of
`AvailableBalance` range over the records of these addresses); statements hold for every `n`,
every state and every history — no bound.
-/
namespace Aurora.Traffic

/-- Clause 1 (`issue_preserves_cashed`): `Pay` — whether it delivers a cheque, fails to deliver it,
    is refused for insufficient funds, stays below the threshold or hits an unknown peer — leaves
    every peer's record of what it has cashed (`retrieveChainTraffic`) and the chain balance
    unchanged, pointwise. -/
theorem C31_issue_preserves_cashed (n : Nat) (st : St) (p : Nat) (thr : Int) (fail : Bool) :
    (pay n st p thr fail).1.chain = st.chain ∧ (pay n st p thr fail).1.bal = st.bal ∧
    (pay n st p thr fail).1.sChain = st.sChain := by
  rcases pay_cases n st p thr fail with ⟨_, he⟩ | ⟨a, _, _, _, _, _, he⟩ <;> rw [he] <;> exact ⟨rfl, rfl, rfl⟩

/-- Clause 1 over histories: along any history the cashed records and the chain balance can only
    change at refresh / restart / cash-out steps — never at credits, payments, registrations or
    when the chain itself moves without a refresh. -/
theorem C31_cashed_changes_only_on_refresh (n : Nat) (st : St) (ops : List Op)
    (h : ∀ op ∈ ops, op.isRefresh = false) :
    (run n st ops).chain = st.chain ∧ (run n st ops).bal = st.bal := by
  induction ops generalizing st with
  | nil => exact ⟨rfl, rfl⟩
  | cons op ops ih =>
    have h1 : (step n st op).chain = st.chain ∧ (step n st op).bal = st.bal := by
      have hop := h op (List.mem_cons_self ..)
      cases op with
      | reg p a => exact ⟨rfl, rfl⟩
      | credit p amt =>
        simp only [step, credit]
        cases st.fwd p <;> exact ⟨rfl, rfl⟩
      | pay p thr fail => exact ⟨(C31_issue_preserves_cashed n st p thr fail).1, (C31_issue_preserves_cashed n st p thr fail).2.1⟩
      | chainBal v => exact ⟨rfl, rfl⟩
      | chainCashed a v => exact ⟨rfl, rfl⟩
      | chainFail b => exact ⟨rfl, rfl⟩
      | refresh => simp [Op.isRefresh] at hop
      | restart => simp [Op.isRefresh] at hop
      | cashout p s => simp [Op.isRefresh] at hop
    have h2 := ih (step n st op) (fun o ho => h o (List.mem_cons_of_mem _ ho))
    simp only [run, List.foldl_cons] at h2 ⊢
    exact ⟨h2.1.trans h1.1, h2.2.trans h1.2⟩

/-- Clause 2 (`available_formula`): the reported available balance is the chain balance plus the
    cashed amounts minus the total traffic owed — and no payment outcome changes it (the cheque
    only moves traffic from "owed, unpaid" to "owed, paid"); a credit of `amt` to a known peer
    lowers it by exactly `amt`. -/
theorem C31_available_formula (n : Nat) (st : St) :
    avail n st = st.bal + (sumTo n st.chain - sumTo n st.tot) ∧
    (∀ p thr fail, avail n (pay n st p thr fail).1 = avail n st) ∧
    (∀ p a amt st', st.fwd p = some a → a < n → credit st p amt = some st' → avail n st' = avail n st - amt) := by
  refine ⟨rfl, ?_, ?_⟩
  · intro p thr fail
    rcases pay_cases n st p thr fail with ⟨_, he⟩ | ⟨a, _, _, _, _, _, he⟩
    · rw [he]
    · rw [he]; simp only [avail, sumTo_upd]; split <;> omega
  · intro p a amt st' hf ha hc
    simp only [credit, hf, Option.some.injEq] at hc
    subst hc
    simp only [avail, sumTo_upd, ha, if_true]; omega

/-- Clause 3 (`payout_monotone_bounded`): in every state reachable by a history whose payments use
    positive thresholds, a cheque handed to the protocol for peer `p` (delivered or not) has a
    cumulative payout strictly above the last cheque recorded as sent to that address — also right
    after a restart — and equal to (so never above) the total traffic owed to it, before and after. -/
theorem C31_payout_monotone_bounded (n : Nat) (ops : List Op) (hpos : ∀ op ∈ ops, PosThr op)
    (p : Nat) (thr : Int) (hthr : 0 < thr) (fail : Bool) (cum : Int) :
    let st := run n init ops
    (pay n st p thr fail).2.emit = some cum →
    ∃ a, st.fwd p = some a ∧ (∀ l, st.sLast a = some l → l < cum) ∧ cum = st.tot a ∧
         cum ≤ (pay n st p thr fail).1.tot a ∧ (fail = false → (pay n st p thr fail).1.sLast a = some cum) := by
  intro st hem
  have hinv : Inv st := by
    have : ∀ (ops : List Op) (s : St), Inv s → (∀ op ∈ ops, PosThr op) → Inv (run n s ops) := by
      intro ops
      induction ops with
      | nil => intro s hs _; exact hs
      | cons op ops ih =>
        intro s hs hp
        exact ih (step n s op) (inv_step n s op (hp op (List.mem_cons_self ..)) hs)
          (fun o ho => hp o (List.mem_cons_of_mem _ ho))
    exact this ops init inv_init hpos
  obtain ⟨a, hf, hge, hcum, htot⟩ := pay_emit n st p thr fail cum hem
  refine ⟨a, hf, ?_, hcum, by omega, ?_⟩
  · intro l hl
    have := ((hinv a).2.1 l hl).1
    omega
  · intro hfail
    subst hfail
    rcases pay_cases n st p thr false with ⟨hno, he⟩ | ⟨a', hf', _, _, _, _, he⟩
    · exfalso
      -- with delivery scripted to succeed an emitted cheque means status ok
      revert hno hem
      simp only [pay, hf]
      split
      · simp
      · split <;> simp
    · rw [hf] at hf'; cases hf'
      rw [he, hcum]; simp [upd]

/-- Clause 4 (`failed_delivery_no_state_change`): a `Pay` that does not end in a delivered and
    recorded cheque — failed delivery, insufficient funds, below threshold, unknown peer — leaves
    the complete state (memory and store) unchanged. -/
theorem C31_failed_delivery_no_state_change (n : Nat) (st : St) (p : Nat) (thr : Int) (fail : Bool)
    (h : (pay n st p thr fail).2.status ≠ .ok) : (pay n st p thr fail).1 = st := by
  rcases pay_cases n st p thr fail with ⟨_, he⟩ | ⟨a, _, _, _, _, ho, _⟩
  · exact he
  · rw [ho] at h; exact absurd rfl h

/-- in particular with the protocol scripted to fail -/
theorem C31_failed_delivery_inert (n : Nat) (st : St) (p : Nat) (thr : Int) :
    (pay n st p thr true).1 = st := by
  rcases pay_cases n st p thr true with ⟨_, he⟩ | ⟨a, _, hf, _⟩
  · exact he
  · cases hf

/-- non-vacuity: the regression history — refresh with 100 cashed, credit 50, pay — emits a cheque
    of 150 and the available balance stays 950 -/
example :
    let st := run 8 init [.reg 0 1, .chainBal 1000, .chainCashed 1 100, .refresh, .credit 0 50]
    avail 8 st = 950 ∧ (pay 8 st 0 1 false).2 = ⟨.ok, some 150, some 50⟩ ∧
    avail 8 (pay 8 st 0 1 false).1 = 950 ∧ (pay 8 st 0 1 false).1.chain 1 = 100 := by
  decide

/-- What the repair changed (heap-level twin of the old `issue`): after a refresh the cheque total
    and the cashed record are the same big.Int; the old in-place `Add` therefore raised the cashed
    record from 100 to 150 and the available balance from 950 to 1000. -/
theorem C31_issueOld_counterexample :
    let h := heapCredit (heapAfterRefresh 1000 100) 50
    heapAvail h = 950 ∧ heapAvail (heapIssueOld h) = 1000 ∧
    h.get h.pChain = 100 ∧ (heapIssueOld h).get (heapIssueOld h).pChain = 150 := by
  decide

end Aurora.Traffic
