// Package c23: correspondence + oracle for Kad.ClosestPeer / Kad.ClosestPeers (property C23).
package c23

import (
	"bytes"
	"fmt"
	"strconv"
	"strings"

	"github.com/gauss-project/aurorafs/pkg/boson"

	"verifharness/core"
	"verifharness/kadh"
)

type prop struct{}

func init() { core.Register(prop{}) }

func (prop) ID() string { return "C23" }
func (prop) Rule() string {
	return "cases: `init` (8-byte base, 1/6 32-byte) then 0-14 peers connected (inbound forced / outbound) over bins 0..5 (+ a few deep ones), " +
		"reachability 0/50/100 %, own status public/private/unknown, followed by 6-30 queries interleaved with disconnects and status changes: " +
		"`closest` with targets random / one bit off a connected peer / equal to a peer / equal to base / far from everything, includeSelf 0/1, " +
		"reachable-only 0/1, skip lists empty / subset / all connected / superset with strangers / with duplicates; `closestn` with limits " +
		"0..|connected|+2; a small malformed stream (target of another length, empty target). Non-trivial: at least 2 peers connected " +
		"(every case has 6-30 queries/events); distinct by op-list hash."
}

func hx(b []byte) string { return core.Hex(b) }

func (prop) Gen(r *core.Rand, tier string) []core.Case {
	n := 400
	if tier == "thorough" {
		n = 8000
	}
	var cs []core.Case
	cs = append(cs,
		core.Case{ID: "fix-empty", NT: false, Ops: []string{"init 5a3c99017710fe42 20 full -", "closest 0000000000000000 1 0 -", "self pub", "closest 0000000000000000 1 0 -", "closestn 0000000000000000 3 0 -"}},
		core.Case{ID: "fix-self", NT: true, Ops: []string{"init 5a3c99017710fe42 20 full -", "self pub", "conn da00000000000001 1", "conn 5a3c99017710fe43 1",
			"closest 5a3c99017710fe42 1 0 -", "closest 5a3c99017710fe42 0 0 -", "closest 5a3c99017710fe43 1 0 -", "closest da00000000000000 1 1 -",
			"closest 5a3c99017710fe42 1 0 5a3c99017710fe43,da00000000000001", "closest 5a3c99017710fe42 0 0 5a3c99017710fe43,da00000000000001",
			"closestn 5a3c99017710fe42 5 0 -", "closestn 5a3c99017710fe42 1 0 -", "self priv", "closest 5a3c99017710fe42 1 0 -"}},
		core.Case{ID: "fix-nokad", NT: false, Ops: []string{"closest 00 1 0 -", "closestn 00 1 0 -"}},
	)
	for i := 0; i < n; i++ {
		c := core.Case{ID: fmt.Sprintf("g%d", i)}
		alen := 8
		if r.Intn(6) == 0 {
			alen = 32
		}
		base := r.Bytes(alen)
		c.Ops = append(c.Ops, fmt.Sprintf("init %s 20 full -", hx(base)))
		bins := []int{0, 0, 1, 1, 2, 3, 4, 5}
		if r.Chance(30) {
			bins = append(bins, r.Range(6, 31), 31)
		}
		uni := kadh.Universe(r, base, bins, r.Pick([]int{0, 1, 2, 3, 5, 8, 11, 14}))
		strangers := kadh.Universe(r, base, bins, 3)
		reachPct := r.Pick([]int{0, 50, 100})
		var conn [][]byte
		if r.Chance(60) {
			c.Ops = append(c.Ops, "self "+[]string{"pub", "pub", "priv", "unk"}[r.Intn(4)])
		}
		for _, a := range uni {
			if r.Bool() {
				c.Ops = append(c.Ops, "conn "+hx(a)+" 1")
			} else {
				c.Ops = append(c.Ops, "out "+hx(a)+" full")
			}
			conn = append(conn, a)
			if r.Chance(reachPct) {
				c.Ops = append(c.Ops, "reach "+hx(a)+" pub")
			}
		}
		target := func() []byte {
			switch r.Intn(8) {
			case 0:
				if len(conn) > 0 {
					return append([]byte(nil), conn[r.Intn(len(conn))]...)
				}
			case 1, 2:
				if len(conn) > 0 {
					t := append([]byte(nil), conn[r.Intn(len(conn))]...)
					bit := r.Intn(8 * len(t))
					t[bit/8] ^= 1 << uint(7-bit%8)
					return t
				}
			case 3:
				return append([]byte(nil), base...)
			case 4:
				t := append([]byte(nil), base...)
				bit := r.Intn(8 * len(t))
				t[bit/8] ^= 1 << uint(7-bit%8)
				return t
			}
			return r.Bytes(alen)
		}
		skips := func() string {
			var s [][]byte
			switch r.Intn(7) {
			case 0, 1:
				return "-"
			case 2, 3:
				for _, a := range conn {
					if r.Bool() {
						s = append(s, a)
					}
				}
			case 4:
				s = append(s, conn...)
			case 5:
				s = append(s, strangers...)
				for _, a := range conn {
					if r.Chance(40) {
						s = append(s, a)
					}
				}
			default:
				for _, a := range conn {
					if r.Chance(40) {
						s = append(s, a, a)
					}
				}
				if r.Chance(20) {
					s = append(s, base)
				}
			}
			return kadh.HexList(s)
		}
		nq := r.Range(6, 30)
		for k := 0; k < nq; k++ {
			switch r.Intn(14) {
			case 0:
				if len(conn) > 0 {
					j := r.Intn(len(conn))
					c.Ops = append(c.Ops, "disc "+hx(conn[j]))
					conn = append(conn[:j:j], conn[j+1:]...)
				}
			case 1:
				c.Ops = append(c.Ops, "self "+[]string{"pub", "priv", "unk"}[r.Intn(3)])
			case 2:
				if len(conn) > 0 {
					c.Ops = append(c.Ops, "reach "+hx(conn[r.Intn(len(conn))])+" "+[]string{"pub", "priv"}[r.Intn(2)])
				}
			case 3, 4, 5, 6:
				c.Ops = append(c.Ops, fmt.Sprintf("closestn %s %d %d %s", hx(target()), r.Range(0, len(conn)+2), r.Intn(2), skips()))
			case 7:
				if r.Chance(25) { // malformed: other length / empty target
					t := r.Bytes(r.Pick([]int{0, 1, alen - 1, alen + 1}))
					c.Ops = append(c.Ops, fmt.Sprintf("closest %s %d %d %s", hx(t), r.Intn(2), r.Intn(2), skips()))
					continue
				}
				fallthrough
			default:
				c.Ops = append(c.Ops, fmt.Sprintf("closest %s %d %d %s", hx(target()), r.Intn(2), r.Intn(2), skips()))
			}
		}
		c.NT = len(uni) >= 2
		cs = append(cs, c)
	}
	return cs
}

func (prop) New() core.Runner { return kadh.NewRunner(oracle) }

func member(a []byte, as []boson.Address) bool {
	for _, x := range as {
		if bytes.Equal(x.Bytes(), a) {
			return true
		}
	}
	return false
}

// oracle: the statement of C23 evaluated on the real Kad's own peer list (EachPeer), the
// implementation's reachability view and an independent XOR comparison.
func oracle(ctx *core.Ctx, r *kadh.Runner, op []string, out string) {
	if out == "nokad" || out == "bad-op" || (op[0] != "closest" && op[0] != "closestn") || len(op) != 5 {
		return
	}
	t, _ := kadh.ParseAddr(op[1])
	skip, _ := kadh.ParseList(op[4])
	reachOnly := op[3] == "1"
	conn := r.Connected()
	base := r.Base.Bytes()
	tb := t.Bytes()
	if len(tb) == 0 || len(tb) != len(base) {
		return // premise of the property: addresses of one (non-zero) length
	}
	var E [][]byte
	for _, p := range conn {
		if len(p.Bytes()) != len(tb) || bytes.Equal(p.Bytes(), base) {
			return
		}
		if member(p.Bytes(), skip) || (reachOnly && !r.Reachable(p)) {
			continue
		}
		E = append(E, p.Bytes())
	}
	inE := func(a []byte) bool {
		for _, q := range E {
			if bytes.Equal(q, a) {
				return true
			}
		}
		return false
	}
	fail := func(clause, f string, a ...interface{}) {
		ctx.Fail(clause, "`%s` -> %s: %s", strings.Join(op, " "), out, fmt.Sprintf(f, a...))
	}
	if op[0] == "closest" {
		selfOk := op[2] == "1" && r.SelfPublic()
		switch out {
		case "notfound":
			if !(len(conn) == 0 || (len(E) == 0 && !selfOk)) {
				fail("notfound-wrong", "%d connected, %d eligible, selfOk=%v", len(conn), len(E), selfOk)
			}
		case "self":
			if len(conn) == 0 || !selfOk {
				fail("wantself-not-eligible", "%d connected, selfOk=%v", len(conn), selfOk)
			}
			for _, q := range E {
				if !kadh.XorLess(tb, base, q) {
					fail("wantself-not-nearest", "eligible peer %x is at least as near as self", q)
					break
				}
			}
		case "err":
			fail("closest-error", "unexpected error")
		default:
			p, ok := kadh.ParseAddr(out)
			if !ok {
				return
			}
			if !inE(p.Bytes()) {
				fail("closest-not-eligible", "result is not a connected, unskipped%s peer", map[bool]string{true: ", reachable", false: ""}[reachOnly])
				return
			}
			for _, q := range E {
				if kadh.XorLess(tb, q, p.Bytes()) {
					fail("closest-not-nearest", "eligible peer %x is nearer", q)
					break
				}
			}
			if selfOk && !kadh.XorLess(tb, p.Bytes(), base) {
				fail("closest-self-nearer", "self is eligible and at least as near")
			}
		}
		return
	}
	// closestn
	if out == "err" {
		fail("closestn-error", "unexpected error")
		return
	}
	res, _ := kadh.ParseList(out)
	limit, _ := strconv.Atoi(op[2])
	want := limit
	if len(E) < want {
		want = len(E)
	}
	if len(res) != want {
		fail("closestn-count", "%d peers returned, limit %d, %d eligible", len(res), limit, len(E))
	}
	for i, p := range res {
		if !inE(p.Bytes()) {
			fail("closestn-not-eligible", "%x", p.Bytes())
		}
		for j := 0; j < i; j++ {
			if bytes.Equal(res[j].Bytes(), p.Bytes()) {
				fail("closestn-duplicate", "%x twice", p.Bytes())
			}
		}
		if i > 0 && kadh.XorLess(tb, p.Bytes(), res[i-1].Bytes()) {
			fail("closestn-order", "position %d is nearer than position %d", i, i-1)
		}
	}
	if len(res) > 0 {
		last := res[len(res)-1].Bytes()
		for _, q := range E {
			if !member(q, res) && kadh.XorLess(tb, q, last) {
				fail("closestn-not-nearest", "eligible peer %x left out is nearer than the last one returned", q)
				break
			}
		}
	}
}
