import Aurora.Props.C28
#print axioms Aurora.RouteProto.C28_paths_wellformed
#print axioms Aurora.RouteProto.C28_returned_paths_wellformed
#print axioms Aurora.RouteProto.C28_wellformed_preserved
#print axioms Aurora.RouteProto.C28_discovery_terminates
#print axioms Aurora.RouteProto.C28_no_infinite_run
#print axioms Aurora.RouteProto.C28_delivery_lowers_rank
#print axioms Aurora.RouteProto.C28_relay_never_revisits
#print axioms Aurora.RouteProto.C28_request_never_revisits
#print axioms Aurora.RouteProto.C28_respForwardOld_counterexample
