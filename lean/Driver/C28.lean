import Driver.Util
import Driver.C27
import Aurora.Model.RouteProto
/-! Driver for C28: runs the route-protocol model's handlers on the op lines of the harness.
    Network-level ops (`net`, `nfind`, `nrun`, `nquiesce`, `nrelay`, `nlink`, `nunlink`) drive N real services on the Go
    side only (impl-side invariant oracle); here they answer `ok`. -/
namespace Driver.C28
open Aurora.RouteTable Aurora.RouteProto

/-! ### Kademlia's `randomSubset` over the pinned `crypto/rand` stream (script bytes, then zeros) -/

def bitLen (n : Nat) : Nat := if n = 0 then 0 else Nat.log2 n + 1

/-- `crypto/rand.Int(reader, max)` for `2 ≤ max ≤ 256`: one byte per attempt, masked to the bit
    length of `max-1`, rejected while `≥ max`; an exhausted script yields zeros (accepted). -/
def randInt (max : Nat) : List Nat → Nat × List Nat
  | [] => (0, [])
  | b :: bs =>
    let v := b % (2 ^ bitLen (max - 1))
    if v < max then (v, bs) else randInt max bs

def shuffle (l : List Nat) (script : List Nat) : List Nat :=
  let n := l.length
  let (arr, _) := (List.range n).foldl (fun (acc : Array Nat × List Nat) i =>
      let (j, rest) := randInt n acc.2
      (acc.1.swapIfInBounds i j, rest)) (l.toArray, script)
  arr.toList

def randomSubset (script : List Nat) (l : List Nat) (k : Nat) : List Nat :=
  if k ≥ l.length then l else (shuffle l script).take k

/-- runtime admissibility of an observed choice: a duplicate-free sub-multiset of the offer -/
def admissiblePick (l r : List Nat) : Bool := r.all (fun x => l.contains x) && r.eraseDups.length == r.length

/-! ### parsing / printing -/

def parsePath (s : String) : Option (List Nat) :=
  if s = "e" ∨ s = "-" then some [] else (s.splitOn ".").mapM (·.toNat?)
def parsePaths (s : String) : Option (List (List Nat)) :=
  if s = "-" then some [] else (s.splitOn "|").mapM parsePath
def parseList (s : String) : Option (List Nat) :=
  if s = "-" then some [] else (s.splitOn ",").mapM (·.toNat?)
def parsePairs (s : String) : Option (List (Nat × Nat)) :=
  if s = "-" then some [] else (s.splitOn ",").mapM (fun f =>
    match f.splitOn ":" with
    | [a, b] => match a.toNat?, b.toNat? with
      | some a, some b => some (a, b)
      | _, _ => none
    | _ => none)

def pathStr (p : List Nat) : String := if p.isEmpty then "e" else ".".intercalate (p.map toString)
def pathsStr (ps : List (List Nat)) : String := if ps.isEmpty then "-" else "|".intercalate (ps.map pathStr)
def listStr (l : List Nat) : String := if l.isEmpty then "-" else ",".intercalate (l.map toString)
def joinOr (l : List String) (sep : String) : String := if l.isEmpty then "-" else sep.intercalate l

def packetStr (p : Packet) : String :=
  match p.body with
  | .req r => s!"Q>{p.dst}:{r.dest}:{r.alpha}:{r.utype}:{pathsStr r.paths}:{listStr r.ulist}"
  | .resp r => s!"R>{p.dst}:{r.dest}:{r.utype}:{pathsStr r.paths}:{listStr r.ulist}"
def packetsStr (ps : List Packet) : String := joinOr (ps.map packetStr) ";"

def sortStr (l : List String) : List String := (l.toArray.qsort (· < ·)).toList

def dumpNode (st : NodeSt) : String :=
  let ps := sortStr (st.table.paths.map (fun kv => pathStr kv.1))
  let rs := (st.table.routes.toArray.qsort (fun a b => a.1 < b.1)).toList
  let rstr := rs.map (fun (tg, l) => s!"{tg}=[" ++ ";".intercalate (l.map (fun r => s!"{r.nbr}:{pathStr r.key}")) ++ "]")
  let ws := (st.presp.toArray.qsort (fun a b => a.1 < b.1)).toList
  let wstr := ws.map (fun (tg, l) => s!"{tg}=" ++ ",".intercalate (l.map (fun it => toString it.src ++ (if it.ch then "c" else ""))))
  let ls := sortStr (st.preq.map (fun (t, n) => s!"{t}>{n}"))
  let bk := ((st.book.toArray.qsort (· < ·)).toList)
  s!"P={joinOr ps ","} R={joinOr rstr ","} W={joinOr wstr ";"} L={joinOr ls ","} B={listStr bk}"

structure NodeCtx where
  self : Nat
  nbrs : List Nat
  env : Env
  st : NodeSt

structure St where
  node : Option NodeCtx := none
  hasNet : Bool := false

/-- split an op line at the annotation bar -/
def splitAnn (op : List String) : List String × List String :=
  (op.takeWhile (· ≠ "|"), (op.dropWhile (· ≠ "|")).drop 1)

def annVal (ann : List String) (key : String) : Option String :=
  (ann.find? (·.startsWith (key ++ "="))).map (fun s => (s.drop (key.length + 1)).toString)

def hexNats (s : String) : Option (List Nat) := (Driver.hexToBytes s).map (·.map (·.toNat))

def mkOracle (cands : List (Nat × Nat)) (script : List Nat) : Oracle :=
  { cands := cands, pick := randomSubset script }

/-- the environment handed over by the runner must itself be admissible: candidates are connected
    peers, each listed once -/
def candsOk (s : NodeCtx) (cands : List (Nat × Nat)) : Bool :=
  cands.all (fun c => s.nbrs.contains c.1) && (cands.map (·.1)).eraseDups.length == cands.length

def netAns (st : St) : String := if st.hasNet then "ok" else "nonet"

def step (st : St) (line : List String) : St × String :=
  let (op, ann) := splitAnn line
  match op with
  | ["node", self, nbrs, book, a, l] =>
    match self.toNat?, parsePairs nbrs, parseList book, a.toNat?, l.toNat? with
    | some self, some nb, some bk, some a, some l =>
      let ns := nb.map (·.1)
      if self ≥ 6 || a < 1 || ns.contains self || ns.eraseDups.length != ns.length || nb.any (·.1 ≥ 6) || bk.any (· ≥ 6) then (st, "bad-op")
      else
        ({ st with node := some { self := self, nbrs := ns,
                                  env := { alpha := a, ttl := l, nbr := fun x y => x == self && ns.contains y },
                                  st := { book := bk } } }, "ok")
    | _, _, _, _, _ => (st, "bad-op")
  | ["net", n, _, a, l, pub] =>
    match n.toNat?, a.toNat?, l.toNat?, parseList pub with
    | some n, some a, some _, some _ =>
      if n < 1 || n > 6 || a < 1 then (st, "bad-op") else ({ st with hasNet := true }, "ok")
    | _, _, _, _ => (st, "bad-op")
  | ["nfind", a, b, c] =>
    match a.toNat?, b.toNat?, hexNats c with
    | some _, some _, some _ => (st, netAns st)
    | _, _, _ => (st, "bad-op")
  | ["nrun", a, b, c] =>
    match a.toNat?, b.toNat?, c.toNat? with
    | some _, some _, some _ => (st, netAns st)
    | _, _, _ => (st, "bad-op")
  | ["nquiesce", a] =>
    match a.toNat? with
    | some _ => (st, netAns st)
    | none => (st, "bad-op")
  | ["nlink", a, b] =>
    match a.toNat?, b.toNat? with
    | some _, some _ => (st, netAns st)
    | _, _ => (st, "bad-op")
  | ["nunlink", a, b] =>
    match a.toNat?, b.toNat? with
    | some _, some _ => (st, netAns st)
    | _, _ => (st, "bad-op")
  | ["nrelay", a, b, c] =>
    match a.toNat?, b.toNat?, c.toNat? with
    | some _, some _, some _ => (st, netAns st)
    | _, _, _ => (st, "bad-op")
  | _ =>
  match st.node with
  | none => (st, "nonode")
  | some s =>
    let upd (ns : NodeSt) : St := { st with node := some { s with st := ns } }
    match op with
    | ["req", from_, dest, a, ut, paths, ul, rnd] =>
      match from_.toNat?, dest.toNat?, a.toInt?, ut.toInt?, parsePaths paths, parseList ul, hexNats rnd with
      | some from_, some dest, some a, some ut, some ps, some ul, some script =>
        if from_ ≥ 6 || dest ≥ 6 then (st, "bad-op") else
        match (annVal ann "c").bind parsePairs with
        | none => (st, "no-annotation")
        | some cands =>
          if !candsOk s cands then (st, "inadmissible-candidates") else
          let o := mkOracle cands script
          let (st', out) := onRouteReq s.env o s.self s.st from_ { dest := dest, alpha := a, paths := ps, utype := ut, ulist := ul } 0
          (upd st', packetsStr out)
      | _, _, _, _, _, _, _ => (st, "bad-op")
    | ["resp", from_, dest, ut, paths, ul] =>
      match from_.toNat?, dest.toNat?, ut.toInt?, parsePaths paths, parseList ul with
      | some from_, some dest, some ut, some ps, some ul =>
        if from_ ≥ 6 || dest ≥ 6 then (st, "bad-op") else
        let (st', out) := onRouteResp s.env s.self s.st from_ { dest := dest, paths := ps, utype := ut, ulist := ul } 0
        (upd st', packetsStr out)
      | _, _, _, _, _ => (st, "bad-op")
    | ["find", dest, rnd] =>
      match dest.toNat?, hexNats rnd with
      | some dest, some script =>
        if dest ≥ 6 then (st, "bad-op") else
        match (annVal ann "c").bind parsePairs with
        | none => (st, "no-annotation")
        | some cands =>
          if !candsOk s cands then (st, "inadmissible-candidates") else
          if dest = s.self then (st, "self") else
          match startFind s.env (mkOracle cands script) s.self s.st dest with
          | none => (st, "-")
          | some (st', out, fwd) => (upd (findTimeout st' dest fwd), packetsStr out)
      | _, _ => (st, "bad-op")
    | ["relay", kind, from_, dest, path, rnd] =>
      match from_.toNat?, dest.toNat?, parsePath path, hexNats rnd with
      | some from_, some dest, some path, some script =>
        if (kind != "c" && kind != "p") || from_ ≥ 6 || dest ≥ 6 then (st, "bad-op") else
        match (annVal ann "c").bind parsePairs, annVal ann "n" with
        | some cands, some nx =>
          if !candsOk s cands then (st, "inadmissible-candidates") else
          if dest = s.self then (st, "local") else
          let offer := relayNext s.env s.self s.st dest path
          if !offer.isEmpty then
            match nx.toNat? with
            | some nx => if offer.contains nx then (st, s!"next={nx} finds=-") else (st, s!"inadmissible-next offer={listStr offer}")
            | none => (st, s!"inadmissible-next offer={listStr offer}")
          else
            -- GetNextHopRandomOrFind: nothing to offer, so a route discovery is started (and times out)
            match startFind s.env (mkOracle cands script) s.self s.st dest with
            | none => (st, if nx = "-" then "next=- finds=-" else "inadmissible-next offer=-")
            | some (st', out, fwd) =>
              (upd (findTimeout st' dest fwd),
               if nx = "-" then s!"next=- finds={packetsStr out}" else "inadmissible-next offer=-")
        | _, _ => (st, "no-annotation")
      | _, _, _, _ => (st, "bad-op")
    | ["relayd", kind, from_, dest, path, rnd, rfrom, rdest, rut, rpaths, rul] =>
      match from_.toNat?, dest.toNat?, parsePath path, hexNats rnd with
      | some from_, some dest, some path, some script =>
        match rfrom.toNat?, rdest.toNat?, rut.toInt?, parsePaths rpaths, parseList rul with
        | some rfrom, some rdest, some rut, some rps, some rul =>
          if (kind != "c" && kind != "p") || from_ ≥ 6 || dest ≥ 6 || rfrom ≥ 6 || rdest ≥ 6 then (st, "bad-op") else
          match (annVal ann "c").bind parsePairs, annVal ann "n" with
          | some cands, some nx =>
            if !candsOk s cands then (st, "inadmissible-candidates") else
            if dest = s.self then (st, "local") else
            -- whether a discovery is started (then the response is delivered while FindRoute waits)
            let first := relayNext s.env s.self s.st dest path
            let o := mkOracle cands script
            let d := first.isEmpty && (startFind s.env o s.self s.st dest).isSome
            let c := relayOrFind s.env o s.self s.st dest path
              (some (rfrom, { dest := rdest, paths := rps, utype := rut, ulist := rul })) 0
            let dS := if d then "1" else "0"
            if c.offer.isEmpty then
              (upd c.st, if nx = "-" then s!"next=- d={dS} finds={packetsStr c.out}" else "inadmissible-next offer=-")
            else
              match nx.toNat? with
              | some nx =>
                if c.offer.contains nx then (upd c.st, s!"next={nx} d={dS} finds={packetsStr c.out}")
                else (upd c.st, s!"inadmissible-next offer={listStr c.offer}")
              | none => (upd c.st, s!"inadmissible-next offer={listStr c.offer}")
          | _, _ => (st, "no-annotation")
        | _, _, _, _, _ => (st, "bad-op")
      | _, _, _, _ => (st, "bad-op")
    | ["pgc"] => (upd (pendGcAll s.st), "ok")
    | ["dump"] => (st, dumpNode s.st)
    | _ => (st, "bad-op")

def handler : Driver.Handler := { σ := St, init := {}, step := step }

end Driver.C28
