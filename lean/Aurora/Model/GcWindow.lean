import Aurora.Model.Localstore
/-!
# `collectGarbage` candidate by candidate: the window in which other operations race with an eviction

`Localstore.gcEvict` models the second half of `collectGarbage` as ONE step: every racing access
happens between `gcSelect` and `gcEvict` (at `testHookGCIteratorDone`), the dirty-address list is
read once.  The real loop is finer.  For every candidate `collectGarbage` calls — holding no lock —

    db.discover.IsDiscover(addr) / DelDiscover(addr)
    db.discover.DelFile(addr, func() error {          // chunkinfo: syncLk, getPyramid, getPyramidHash …
        db.batchMu.Lock(); defer db.batchMu.Unlock()
        if addr.MemberOf(db.dirtyAddresses) { return dirtyGarbageNoHandle }   // (*)
        … pinIndex / retrievalDataIndex deletions of the file's non-shared chunks …
    })

so an operation can run to completion AFTER the run has picked the candidate and entered `DelFile`
but BEFORE the callback takes `batchMu`.  What protects the candidate then is the check (*): it reads
the dirty list **as it is when the callback runs**, under the same lock under which the deletions are
decided.  This file models exactly that:

* `GcRun` — a run in progress between two candidates: the state as every other operation sees it
  (direct `pinIndex.Put`s of the run applied, its batch not), the pending batch, the counters;
* `gcEvictOne r e pyr` — `DelFile` + callback for candidate `e`: `pyr = none` = chunkinfo does not
  know the file (`ErrNotFound` before the callback); otherwise the re-check (*) against
  `r.st.dirty` — the list at THIS moment, including everything racing operations logged since the
  previous candidate — and then `evictPyramid`;
* `gcFinish r` — the tail of `collectGarbage` (re-read `gcSize`, delete the recycled roots, forced
  clean-up when nothing was recycled, commit);
* racing operations are ordinary `put` / `set` / `get` on `r.st` (`gcRunning` is set, so they log
  dirty addresses) executed between two `gcEvictOne` steps.

`gcEvictOneHoisted` is the variant in which the dirty check is done with a list read EARLIER (before
the window) and not repeated in the callback; it exists only to state that this is a different
function (`Props/C12.lean`, `C12_hoisted_check_counterexample`).
Core Lean only.
-/
namespace Aurora.Localstore

/-- a collection run in progress -/
structure GcRun where
  /-- volatile + persisted state as other operations see it: the run's direct writes are applied,
      its batch is not; `gcRunning = true`, `dirty` grows with every racing operation -/
  st : State
  /-- pending batch of the run -/
  batch : List Write := []
  /-- direct writes of the run so far (in order) -/
  log : List DW := []
  /-- `currentCollectedCount` -/
  n : Nat := 0
  /-- `recycledItems` -/
  recycled : List (GcKey × Nat) := []
  visited : List Addr := []

/-- the run right after candidate selection -/
def GcRun.start (s : State) : GcRun := { st := s }

/-- the transaction view the deletion callback works on: reads see `r.st.db` -/
def GcRun.tx (r : GcRun) : Tx := { Tx.start r.st with batch := r.batch, log := r.log }

/-- the candidate is passed over (unknown to chunkinfo, or dirty) -/
def GcRun.skip (r : GcRun) (e : GcKey × Nat) : GcRun := { r with visited := r.visited ++ [e.1.addr] }

/-- the deletions of the callback: `evictPyramid` on the state as it is now -/
def GcRun.evict (r : GcRun) (e : GcKey × Nat) (chunks : List (Addr × Nat)) : GcRun :=
  let (tx, cnt) := evictPyramid r.tx chunks 0
  { st := { r.st with db := tx.db }, batch := tx.batch, log := tx.log, n := r.n + cnt,
    recycled := r.recycled ++ [e], visited := r.visited ++ [e.1.addr] }

/-- `DelFile(addr, callback)` for one candidate; the flag tells whether the file was evicted
    (callback returned nil, so chunkinfo goes on to drop its tables) -/
def gcEvictOne (r : GcRun) (e : GcKey × Nat) (pyr : Option (List (Addr × Nat))) : GcRun × Bool :=
  match pyr with
  | none => (r.skip e, false)
  | some chunks =>
    -- the re-check under batchMu: the dirty list as it is NOW
    if r.st.dirty.contains e.1.addr then (r.skip e, false) else (r.evict e chunks, true)

/-- NOT the code: the dirty check done with the list `dirtyAtCheck` read before the window, and no
    re-check in the callback -/
def gcEvictOneHoisted (dirtyAtCheck : List Addr) (r : GcRun) (e : GcKey × Nat)
    (pyr : Option (List (Addr × Nat))) : GcRun × Bool :=
  if dirtyAtCheck.contains e.1.addr then (r.skip e, false)
  else match pyr with
    | none => (r.skip e, false)
    | some chunks => (r.evict e chunks, true)

/-- the tail of `collectGarbage` after the candidate loop -/
def gcFinish (r : GcRun) : Res :=
  let s := r.st
  let target := s.runTarget
  let gcSize := s.db.gcSize
  let batch := r.recycled.foldl (fun (b : List Write) (e : GcKey × Nat) =>
    b ++ [.dataDel e.1.addr, .accDel e.1.addr, .gcDel e.1]) r.batch
  let n := r.n + r.recycled.length
  let n := if r.recycled.isEmpty then gcSize else n
  let cur := if n ≤ gcSize then gcSize - n else 0
  let done := !(decide (cur > target))
  let batch := batch ++ [.gcSizePut cur]
  { st := { s with db := applyBatch s.db batch, gcRunning := false, dirty := [], cands := [] },
    out := .gcDone n done r.visited, writes := r.log ++ [DW.batch batch] }

end Aurora.Localstore
