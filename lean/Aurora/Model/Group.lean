import Aurora.Generated.Consts
/-!
Model of the membership transitions of `/repo/pkg/multicast/group.go`
(`Group.add`, `Group.remove`, `Group.pruneKnown`) over the three peer lists
`connectedPeers`, `keepPeers`, `knownPeers`.

Each list is a `pslice.PSlice` with ONE bin (`pslice.New(1, self)`), i.e. a plain slice:
* `Add(p)`    appends `p` at the end unless it is already there (`psAdd`);
* `Remove(p)` deletes the first occurrence of `p` by overwriting it with the LAST element
  and shortening the slice by one (`psRemove`; the order is therefore *not* insertion
  order after a removal, and the model reproduces the real order);
* `BinPeers(0)` / `EachBin` enumerate the slice front to back.

`route.IsNeighbor(peer)` is an oracle: the answer is an argument of `add`.
Peers are natural numbers (the harness maps 32-byte overlay addresses to indices).
Core Lean only.
-/
namespace Aurora.Group

abbrev Peer := Nat

/-- `PSlice.Add` (single address, one bin). -/
def psAdd (p : Peer) (l : List Peer) : List Peer :=
  if p ∈ l then l else l ++ [p]

/-- `PSlice.Remove` (one bin): the first occurrence of `p` is replaced by the last element
    and the slice shrinks by one; no-op if `p` is absent.  (Written recursively: at the first
    `x = p` the rest `xs` either is empty — `p` was last — or its last element moves here.) -/
def psRemove (p : Peer) : List Peer → List Peer
  | [] => []
  | x :: xs =>
    if x = p then
      match xs.getLast? with
      | none => []
      | some z => z :: xs.dropLast
    else x :: psRemove p xs

/-- The three peer lists of a `Group`. -/
structure Group where
  connected : List Peer := []
  kept      : List Peer := []
  known     : List Peer := []
deriving Repr, DecidableEq

def Group.empty : Group := {}

/-- `Group.remove(peer, intoKnown)`.  The Go code guards every `Remove` with `Exists` and
    every `Add` with `!Exists`; those guards are no-ops on the lists (`psRemove` of an absent
    peer and `psAdd` of a present one are the identity) and only decide the `notify` flag,
    which is the second component (whether `notifyPeers()` is called). -/
def remove (g : Group) (peer : Peer) (intoKnown : Bool) : Group × Bool :=
  let inC := decide (peer ∈ g.connected)
  let c := if inC then psRemove peer g.connected else g.connected
  let inK := decide (peer ∈ g.kept)
  let k := if inK then psRemove peer g.kept else g.kept
  let notify := inC || inK
  let n :=
    if peer ∈ g.known then
      (if !intoKnown then psRemove peer g.known else g.known)
    else
      (if intoKnown && notify then psAdd peer g.known else g.known)
  ({ connected := c, kept := k, known := n }, notify)

/-- `Group.add(peer, keep)` with the answer `isNbr` of `route.IsNeighbor(peer)`
    (only consulted when `keep` is true, as in the code). -/
def add (g : Group) (peer : Peer) (keep : Bool) (isNbr : Bool) : Group × Bool :=
  let inC := decide (peer ∈ g.connected)
  let inK := decide (peer ∈ g.kept)
  if !keep then
    ({ connected := if inC then psRemove peer g.connected else g.connected,
       kept := if inK then psRemove peer g.kept else g.kept,
       known := if peer ∈ g.known then g.known else psAdd peer g.known }, inC || inK)
  else if isNbr then
    -- direct connect peer
    ({ connected := if inC then g.connected else psAdd peer g.connected,
       kept := if inK then psRemove peer g.kept else g.kept,
       known := if peer ∈ g.known then psRemove peer g.known else g.known }, !inC || inK)
  else
    -- not direct connect peer
    ({ connected := if inC then psRemove peer g.connected else g.connected,
       kept := if inK then g.kept else psAdd peer g.kept,
       known := if peer ∈ g.known then psRemove peer g.known else g.known }, inC || !inK)

/-- `maxKnownPeers` (extracted from discover.go at every run). -/
def maxKnown : Nat := Aurora.Generated.mcMaxKnownPeers

/-- `Group.pruneKnown()`: with `k = len(known) - maxKnownPeers > 0`, walk a snapshot of the
    known list from the front and `Remove` each peer until `k` removals were made. -/
def pruneKnown (g : Group) : Group :=
  let k := g.known.length - maxKnown
  if k > 0 then
    { g with known := (g.known.take k).foldl (fun acc p => psRemove p acc) g.known }
  else g

/-- Membership events, for statements over histories. -/
inductive Op where
  | add (peer : Peer) (keep : Bool) (isNbr : Bool)
  | remove (peer : Peer) (intoKnown : Bool)
  | prune
deriving Repr, DecidableEq

def apply (g : Group) : Op → Group
  | .add p keep nb => (add g p keep nb).1
  | .remove p into => (remove g p into).1
  | .prune => pruneKnown g

/-- State after a history of events, starting from the empty group (`newGroup`). -/
def run (ops : List Op) : Group := ops.foldl apply Group.empty

/-! ### Discovery (`Service.discover` → `doFindGroup`, discover.go)

One discovery round for a group with `option.KeepConnectedPeers = 0` and `option.KeepPingPeers = kp`
(the harness sets these for the duration of the round; with `KeepConnectedPeers = 0` the
`route.Connect` loop of `discover` does nothing).  `doFindGroup` asks the connected peers (snapshot
`BinPeers(0)` taken when the round starts), then the kept peers (snapshot taken after the connected
round) for members: before every request `limit()` is re-evaluated and the loop breaks when it is 0.
What the asked neighbour does while the request is in flight is the environment: a `Seg` says which
peers `hs` complete a handshake with us meanwhile (`updatePeerGroupsJoin` → `add x true`, with the
`IsNeighbor` answer of that moment) and which peers `ans` the answer names.  **Every peer of an answer
goes through `Group.add(addr, false)`** (discover.go:117; generated fact
`C38_lists_only_changed_by_group_ops`), i.e. the state changes only by `Op` events.  Finally, if the
known list is not empty, `HandshakeAllPeers(known)` (outgoing handshakes — they fail in the harness, no
event) and `pruneKnown()`.  The model returns the asks (neighbour, `Limit` of the request, events). -/

/-- what happens while the findGroup request to neighbour `v` is in flight, and its answer -/
structure Seg where
  v   : Peer
  hs  : List Peer
  ans : List Peer
deriving Repr, DecidableEq

/-- `limit()` of `doFindGroup` with `KeepConnectedPeers = 0` -/
def findLimit (kp : Nat) (g : Group) : Nat := kp - g.kept.length

def applyAll (g : Group) (ops : List Op) : Group := ops.foldl apply g

/-- events caused by asking `v`: in-flight handshakes, then `add a false` for every answered peer -/
def askEvents (script : List Seg) (nbr : Peer → Bool) (v : Peer) : List Op :=
  match script.find? (fun s => s.v == v) with
  | none => []
  | some s => s.hs.map (fun x => Op.add x true (nbr x)) ++ s.ans.map (fun a => Op.add a false false)

structure Ask where
  v   : Peer
  lim : Nat
  ev  : List Op
deriving Repr, DecidableEq

/-- `getNodes(list, tag)`: ask the peers of the snapshot in order while `limit() > 0` -/
def askAll (kp : Nat) (script : List Seg) (nbr : Peer → Bool) : List Peer → Group → List Ask
  | [], _ => []
  | v :: vs, g =>
    if findLimit kp g = 0 then [] else
      let ev := askEvents script nbr v
      { v := v, lim := findLimit kp g, ev := ev } :: askAll kp script nbr vs (applyAll g ev)

def asksEvents (as : List Ask) : List Op := as.flatMap (·.ev)

/-- one `doFindGroup`: the asks of the connected round, those of the kept round, and whether
    `pruneKnown` ran at the end -/
def doFind (kp : Nat) (script : List Seg) (nbr : Peer → Bool) (g : Group) : List Ask × List Op :=
  if findLimit kp g = 0 then ([], []) else
  let a1 := if g.connected.length > 0 then askAll kp script nbr g.connected g else []
  let g1 := applyAll g (asksEvents a1)
  if g.connected.length > 0 ∧ findLimit kp g1 = 0 then (a1, asksEvents a1) else
  let a2 := if g1.kept.length > 0 then askAll kp script nbr g1.kept g1 else []
  let g2 := applyAll g1 (asksEvents a2)
  if g1.kept.length > 0 ∧ findLimit kp g2 = 0 then (a1 ++ a2, asksEvents a1 ++ asksEvents a2) else
  (a1 ++ a2, asksEvents a1 ++ asksEvents a2 ++ (if g2.known.length > 0 then [Op.prune] else []))

/-- state after a discovery round -/
def discover (kp : Nat) (script : List Seg) (nbr : Peer → Bool) (g : Group) : Group :=
  applyAll g (doFind kp script nbr g).2

/-- histories that mix membership events with discovery rounds (any `KeepPingPeers`, any behaviour
    of the asked neighbours and of peers handshaking meanwhile, any `IsNeighbor` table) -/
inductive Step where
  | op (o : Op)
  | find (kp : Nat) (script : List Seg) (nbr : Peer → Bool)

def stepApply (g : Group) : Step → Group
  | .op o => apply g o
  | .find kp script nbr => discover kp script nbr g

def runSteps (l : List Step) : Group := l.foldl stepApply Group.empty

end Aurora.Group
