package lsharness

import (
	"bytes"
	"context"
	"errors"
	"fmt"
	"io"
	"strconv"
	"strings"

	"github.com/gauss-project/aurorafs/pkg/boson"
	"github.com/gauss-project/aurorafs/pkg/chunkinfo"
	"github.com/gauss-project/aurorafs/pkg/localstore"
	"github.com/gauss-project/aurorafs/pkg/logging"
	"github.com/gauss-project/aurorafs/pkg/sctx"
	"github.com/gauss-project/aurorafs/pkg/shed/driver"
	"github.com/gauss-project/aurorafs/pkg/storage"

	"verifharness/core"
)

// BaseKey is the node's overlay address used by every localstore instance of the harness
// (all zero: the proximity order of an address is its number of leading zero bits, max 31).
var BaseKey = make([]byte, 32)

// DefaultCapacity is the capacity every case starts with (garbage collection out of reach).
const DefaultCapacity = 1000000

// ---- addresses ---------------------------------------------------------------------------

// ParseAddr reads a hex prefix and right-pads it with zero bytes to 32 bytes.
func ParseAddr(s string) ([]byte, bool) {
	if s == "-" || len(s) == 0 || len(s)%2 != 0 || len(s) > 64 {
		return nil, false
	}
	b, err := core.UnHex(s)
	if err != nil {
		return nil, false
	}
	out := make([]byte, 32)
	copy(out, b)
	return out, true
}

// ShowAddr is the inverse: hex without trailing zero bytes ("00" for the all-zero address).
func ShowAddr(a []byte) string {
	b := bytes.TrimRight(a, "\x00")
	if len(b) == 0 {
		return "00"
	}
	return core.Hex(b)
}

// PO is the proximity order of an address relative to BaseKey.
func PO(a []byte) int { return int(boson.Proximity(BaseKey, a)) }

// ---- dumps -------------------------------------------------------------------------------

// GCEntry is one gc index entry.
type GCEntry = localstore.VerifGCEntry

// Dump is the persisted state plus the two volatile GC fields.
type Dump struct {
	localstore.VerifState
	GCRunning bool
	Dirty     [][]byte
}

// GCSum is Σ GCounter over the gc index.
func (d *Dump) GCSum() uint64 {
	var s uint64
	for _, g := range d.GC {
		s += g.GCounter
	}
	return s
}

// DataOf returns the data entry of an address.
func (d *Dump) DataOf(a []byte) (localstore.VerifDataEntry, bool) {
	for _, e := range d.Data {
		if bytes.Equal(e.Address, a) {
			return e, true
		}
	}
	return localstore.VerifDataEntry{}, false
}

// PinOf returns the pin counter of an address (0 = not pinned).
func (d *Dump) PinOf(a []byte) uint64 {
	for _, e := range d.Pin {
		if bytes.Equal(e.Address, a) {
			return e.PinCounter
		}
	}
	return 0
}

// AccessOf returns the access timestamp of an address.
func (d *Dump) AccessOf(a []byte) (int64, bool) {
	for _, e := range d.Access {
		if bytes.Equal(e.Address, a) {
			return e.AccessTimestamp, true
		}
	}
	return 0, false
}

// GCOf returns the gc entries whose key address is a.
func (d *Dump) GCOf(a []byte) []localstore.VerifGCEntry {
	var out []localstore.VerifGCEntry
	for _, e := range d.GC {
		if bytes.Equal(e.Address, a) {
			out = append(out, e)
		}
	}
	return out
}

// ShowDb prints the persisted part exactly as lean/Driver/Localstore.lean `showDb`.
func (d *Dump) ShowDb() string {
	var sb strings.Builder
	sb.WriteString("D[")
	for i, e := range d.Data {
		if i > 0 {
			sb.WriteByte(',')
		}
		fmt.Fprintf(&sb, "%s:%d:%d:%s", ShowAddr(e.Address), e.BinID, e.StoreTimestamp, ShowData(e.Data))
	}
	sb.WriteString("] A[")
	for i, e := range d.Access {
		if i > 0 {
			sb.WriteByte(',')
		}
		fmt.Fprintf(&sb, "%s:%d", ShowAddr(e.Address), e.AccessTimestamp)
	}
	sb.WriteString("] G[")
	for i, e := range d.GC {
		if i > 0 {
			sb.WriteByte(',')
		}
		fmt.Fprintf(&sb, "%d:%d:%s=%d", e.AccessTimestamp, e.BinID, ShowAddr(e.Address), e.GCounter)
	}
	sb.WriteString("] P[")
	for i, e := range d.Pin {
		if i > 0 {
			sb.WriteByte(',')
		}
		fmt.Fprintf(&sb, "%s=%d", ShowAddr(e.Address), e.PinCounter)
	}
	sb.WriteString("] B[")
	for i, e := range d.BinIDs {
		if i > 0 {
			sb.WriteByte(',')
		}
		fmt.Fprintf(&sb, "%d=%d", e.PO, e.ID)
	}
	fmt.Fprintf(&sb, "] S=%d", d.GCSize)
	return sb.String()
}

// Show prints the full state as `showState`.
func (d *Dump) Show() string {
	var x []string
	for _, a := range d.Dirty {
		x = append(x, ShowAddr(a))
	}
	return fmt.Sprintf("%s R=%s X[%s]", d.ShowDb(), core.B(d.GCRunning), strings.Join(x, ","))
}

// ---- scripted chunkinfo ------------------------------------------------------------------

// Cid is one entry of a scripted pyramid.
type Cid struct {
	Addr []byte
	Num  int
}

// FakeChunkInfo implements the part of chunkinfo.Interface that collectGarbage uses, from a
// script: root -> pyramid (nil entry / missing = file unknown to chunkinfo).  Any other method
// panics (nil embedded interface).
type FakeChunkInfo struct {
	chunkinfo.Interface
	Known   map[string][]Cid
	Visited [][]byte // roots DelFile was called for, in order
}

func NewFakeChunkInfo() *FakeChunkInfo { return &FakeChunkInfo{Known: map[string][]Cid{}} }

func (f *FakeChunkInfo) IsDiscover(boson.Address) bool { return false }
func (f *FakeChunkInfo) DelDiscover(boson.Address)     {}

// DelFile mirrors the real one: unknown pyramid -> storage.ErrNotFound without calling del;
// otherwise the result of del (table clean-up is not localstore's business).
func (f *FakeChunkInfo) DelFile(root boson.Address, del func() error) error {
	f.Visited = append(f.Visited, cpb(root.Bytes()))
	if _, ok := f.Known[string(root.Bytes())]; !ok {
		return storage.ErrNotFound
	}
	return del()
}

func (f *FakeChunkInfo) GetChunkPyramid(root boson.Address) []*chunkinfo.PyramidCidNum {
	var out []*chunkinfo.PyramidCidNum
	for _, c := range f.Known[string(root.Bytes())] {
		out = append(out, &chunkinfo.PyramidCidNum{Cid: boson.NewAddress(cpb(c.Addr)), Number: c.Num})
	}
	return out
}

// ---- events for the model-free oracles -----------------------------------------------------

// Event describes one executed operation to the property oracles.
type Event struct {
	Kind   string   // put get getm has hasm set cap now pyr gcsel gcevict reopen
	Mode   string   // protocol mode word
	Root   []byte   // nil = no root context
	Addrs  [][]byte // addresses of the call (put: chunk addresses)
	Datas  [][]byte // put: chunk data
	Before *Dump
	After  *Dump
	// results
	Result  string // canonical result word(s)
	Err     string // "" | notfound | invalid | err
	Exist   []bool
	Chunks  [][]byte // get / getm data
	Bools   []bool   // has / hasm
	GCDone  bool     // gcevict: done flag
	// gcevict: target and capacity of the run (gcTarget() is evaluated once, when the run starts)
	GCTarget, GCCapacity uint64
	GCCount uint64   // gcevict: collected count
	Visited [][]byte
	// gcevict: the pyramid script in force (root address string -> pyramid; missing = unknown file)
	Pyramids map[string][]Cid
	Trigger  bool
	// crash analysis (only with Options.CrashDumps): Crash[k] = state recovered from the first k
	// driver writes of this op
	Crash []*Dump
	// capacity / clock at the time of the op
	Capacity uint64
	// Runner gives oracles access to shadow executions
	Runner *Runner
	// log window of the op in the store
	LogFrom, LogTo int
	ClockBefore    int64
}

// Oracle is a model-free property check evaluated after every operation.
type Oracle interface {
	Check(ctx *core.Ctx, ev *Event)
}

// Options configures a Runner.
type Options struct {
	CrashDumps bool
	Oracles    []Oracle
}

type gcResult struct {
	collected uint64
	done      bool
	err       error
}

// Runner executes localstore protocol ops against the real code.
type Runner struct {
	opt      Options
	store    *Store
	dsn      string
	db       *localstore.DB
	ci       *FakeChunkInfo
	capacity uint64
	clock    int64
	step     int64
	restore  []func()
	logger   logging.Logger

	gcActive  bool
	gcTarget  uint64
	gcCap     uint64
	gcRelease chan struct{}
	gcDone    chan gcResult
	gcRestore func()
}

// NewRunner opens a fresh store.
func NewRunner(opt Options) *Runner {
	rn := &Runner{opt: opt, store: &Store{}, capacity: DefaultCapacity, clock: 1, step: 0,
		ci: NewFakeChunkInfo(), logger: logging.New(io.Discard, 0)}
	rn.restore = append(rn.restore, localstore.VerifSetNow(func() int64 {
		t := rn.clock
		rn.clock += rn.step
		return t
	}))
	rn.dsn = Bind(rn.store)
	db, err := rn.open(rn.dsn, rn.capacity)
	if err != nil {
		panic(err)
	}
	rn.db = db
	return rn
}

func (rn *Runner) open(dsn string, capacity uint64) (*localstore.DB, error) {
	db, err := localstore.New(dsn, BaseKey, &localstore.Options{Driver: DriverName, Capacity: capacity}, rn.logger)
	if err != nil {
		return nil, err
	}
	db.VerifStopGCWorker()
	db.VerifSetCapacity(capacity) // New replaces 0 by the default; the protocol's `cap 0` means 0
	db.SetChunkInfo(rn.ci)
	return db, nil
}

// DB gives oracles the live database.
func (rn *Runner) DB() *localstore.DB { return rn.db }

// Store gives oracles the write log.
func (rn *Runner) Store() *Store { return rn.store }

// Clock returns the pinned clock and its step.
func (rn *Runner) Clock() (int64, int64) { return rn.clock, rn.step }

// SetClock sets the pinned clock (used by shadow executions).
func (rn *Runner) SetClock(t int64) { rn.clock = t }

// OpenPrefix opens a throw-away localstore on the disk image consisting of the first n driver
// writes of this runner's store ("crash after write n, then restart"). The caller must call done.
func (rn *Runner) OpenPrefix(n int) (db *localstore.DB, done func(), err error) {
	st := rn.store.Prefix(n)
	dsn := Bind(st)
	db, err = rn.open(dsn, rn.capacity)
	if err != nil {
		Unbind(dsn)
		return nil, nil, err
	}
	return db, func() { _ = db.Close(); Unbind(dsn) }, nil
}

// DumpOf dumps any database opened by this runner.
func DumpOf(db *localstore.DB) *Dump {
	st, err := db.VerifDump()
	if err != nil {
		panic(err)
	}
	run, dirty := db.VerifGCState()
	d := &Dump{VerifState: st, GCRunning: run}
	for _, a := range dirty {
		d.Dirty = append(d.Dirty, cpb(a.Bytes()))
	}
	return d
}

func (rn *Runner) Close() {
	if rn.gcActive {
		close(rn.gcRelease)
		<-rn.gcDone
		rn.gcRestore()
		rn.gcActive = false
	}
	if rn.db != nil {
		_ = rn.db.Close()
	}
	Unbind(rn.dsn)
	for _, f := range rn.restore {
		f()
	}
}

func errWord(err error) string {
	switch {
	case err == nil:
		return ""
	case errors.Is(err, driver.ErrNotFound), errors.Is(err, storage.ErrNotFound):
		return "notfound"
	case errors.Is(err, localstore.ErrInvalidMode):
		return "invalid"
	default:
		return "err"
	}
}

func bits(l []bool) string {
	if len(l) == 0 {
		return "-"
	}
	var sb strings.Builder
	for _, b := range l {
		sb.WriteString(core.B(b))
	}
	return sb.String()
}

func parseList(s string) ([][]byte, bool) {
	if s == "-" {
		return nil, true
	}
	var out [][]byte
	for _, x := range strings.Split(s, ",") {
		a, ok := ParseAddr(x)
		if !ok {
			return nil, false
		}
		out = append(out, a)
	}
	return out, true
}

func parseRoot(s string) ([]byte, bool) {
	if s == "-" {
		return nil, true
	}
	return ParseAddr(s)
}

var putModes = map[string]storage.ModePut{"req": storage.ModePutRequest, "up": storage.ModePutUpload,
	"uppin": storage.ModePutUploadPin, "reqpin": storage.ModePutRequestPin, "bad": storage.ModePut(99)}
var getModes = map[string]storage.ModeGet{"req": storage.ModeGetRequest, "sync": storage.ModeGetSync,
	"lookup": storage.ModeGetLookup, "pin": storage.ModeGetPin, "bad": storage.ModeGet(99)}
var setModes = map[string]storage.ModeSet{"sync": storage.ModeSetSync, "remove": storage.ModeSetRemove,
	"pin": storage.ModeSetPin, "unpin": storage.ModeSetUnpin, "bad": storage.ModeSet(99)}
var hasModes = map[string]storage.ModeHas{"pin": storage.ModeHasPin, "chunk": storage.ModeHasChunk, "bad": storage.ModeHas(99)}

func ctxWithRoot(root []byte) context.Context {
	if root == nil {
		return context.Background()
	}
	return sctx.SetRootHash(context.Background(), boson.NewAddress(cpb(root)))
}

func addrsOf(l [][]byte) []boson.Address {
	out := make([]boson.Address, len(l))
	for i, a := range l {
		out[i] = boson.NewAddress(cpb(a))
	}
	return out
}

// PutOn performs a Put on any database (used for shadow executions by oracles).
func PutOn(db *localstore.DB, mode string, root []byte, addrs, datas [][]byte) ([]bool, error) {
	chs := make([]boson.Chunk, len(addrs))
	for i := range addrs {
		chs[i] = boson.NewChunk(boson.NewAddress(cpb(addrs[i])), cpb(datas[i]))
	}
	return db.Put(ctxWithRoot(root), putModes[mode], chs...)
}

// Step executes one protocol line.
func (rn *Runner) Step(ctx *core.Ctx, op []string) string {
	if len(op) == 0 {
		return "bad-op"
	}
	ev := &Event{Kind: op[0], Runner: rn, Capacity: rn.capacity, ClockBefore: rn.clock}
	// ---- parse
	switch {
	case op[0] == "pyr" && len(op) == 3:
		r, ok := ParseAddr(op[1])
		if !ok {
			return "bad-op"
		}
		if op[2] == "none" {
			delete(rn.ci.Known, string(r))
			return "ok"
		}
		var cids []Cid
		if op[2] != "-" {
			for _, x := range strings.Split(op[2], ",") {
				f := strings.Split(x, ":")
				if len(f) != 2 {
					return "bad-op"
				}
				a, ok := ParseAddr(f[0])
				n, err := strconv.ParseUint(f[1], 10, 31)
				if !ok || err != nil {
					return "bad-op"
				}
				cids = append(cids, Cid{Addr: a, Num: int(n)})
			}
		}
		rn.ci.Known[string(r)] = cids
		return "ok"
	case op[0] == "put" && len(op) == 4:
		if _, ok := putModes[op[1]]; !ok {
			return "bad-op"
		}
		r, ok := parseRoot(op[2])
		if !ok {
			return "bad-op"
		}
		ev.Mode, ev.Root = op[1], r
		if op[3] != "-" {
			for _, x := range strings.Split(op[3], ",") {
				f := strings.Split(x, ":")
				if len(f) != 2 {
					return "bad-op"
				}
				a, ok := ParseAddr(f[0])
				d, err := ParseData(f[1])
				if !ok || err != nil {
					return "bad-op"
				}
				ev.Addrs = append(ev.Addrs, a)
				ev.Datas = append(ev.Datas, d)
			}
		}
	case op[0] == "get" && len(op) == 4:
		if _, ok := getModes[op[1]]; !ok {
			return "bad-op"
		}
		r, ok := parseRoot(op[2])
		a, ok2 := ParseAddr(op[3])
		if !ok || !ok2 {
			return "bad-op"
		}
		ev.Mode, ev.Root, ev.Addrs = op[1], r, [][]byte{a}
	case op[0] == "getm" && len(op) == 3:
		if _, ok := getModes[op[1]]; !ok {
			return "bad-op"
		}
		l, ok := parseList(op[2])
		if !ok {
			return "bad-op"
		}
		ev.Mode, ev.Addrs = op[1], l
	case op[0] == "has" && len(op) == 3:
		if _, ok := hasModes[op[1]]; !ok {
			return "bad-op"
		}
		a, ok := ParseAddr(op[2])
		if !ok {
			return "bad-op"
		}
		ev.Mode, ev.Addrs = op[1], [][]byte{a}
	case op[0] == "hasm" && len(op) == 3:
		if _, ok := hasModes[op[1]]; !ok {
			return "bad-op"
		}
		l, ok := parseList(op[2])
		if !ok {
			return "bad-op"
		}
		ev.Mode, ev.Addrs = op[1], l
	case op[0] == "set" && len(op) == 4:
		if _, ok := setModes[op[1]]; !ok {
			return "bad-op"
		}
		r, ok := parseRoot(op[2])
		l, ok2 := parseList(op[3])
		if !ok || !ok2 {
			return "bad-op"
		}
		ev.Mode, ev.Root, ev.Addrs = op[1], r, l
	case op[0] == "cap" && len(op) == 2:
		if _, err := strconv.ParseUint(op[1], 10, 62); err != nil {
			return "bad-op"
		}
	case op[0] == "now" && len(op) == 3:
		t, err := strconv.ParseInt(op[1], 10, 62)
		st, err2 := strconv.ParseInt(op[2], 10, 62)
		if err != nil || err2 != nil || t <= 0 || st < 0 {
			return "bad-op"
		}
	case (op[0] == "gcsel" || op[0] == "gcevict" || op[0] == "reopen") && len(op) == 1:
	default:
		return "bad-op"
	}

	// ---- execute
	ev.Before = DumpOf(rn.db)
	ev.LogFrom = rn.store.Len()
	res := rn.exec(op, ev)
	rn.db.VerifWaitUpdateGC()
	ev.Trigger = rn.db.VerifTakeGCTrigger()
	ev.LogTo = rn.store.Len()
	ev.After = DumpOf(rn.db)
	ev.Result = res
	out := fmt.Sprintf("%s t=%s | %s", res, core.B(ev.Trigger), ev.After.Show())
	if rn.opt.CrashDumps {
		for k := 0; k <= ev.LogTo-ev.LogFrom; k++ {
			db, done, err := rn.OpenPrefix(ev.LogFrom + k)
			if err != nil {
				out += fmt.Sprintf(" || k=%d open-error", k)
				ev.Crash = append(ev.Crash, nil)
				continue
			}
			d := DumpOf(db)
			done()
			ev.Crash = append(ev.Crash, d)
			out += fmt.Sprintf(" || k=%d %s", k, d.ShowDb())
		}
	}
	for _, o := range rn.opt.Oracles {
		o.Check(ctx, ev)
	}
	return out
}

func (rn *Runner) exec(op []string, ev *Event) string {
	db := rn.db
	switch op[0] {
	case "put":
		exist, err := PutOn(db, ev.Mode, ev.Root, ev.Addrs, ev.Datas)
		if ev.Err = errWord(err); ev.Err != "" {
			return ev.Err
		}
		ev.Exist = exist
		return "exist " + bits(exist)
	case "get":
		ch, err := db.Get(ctxWithRoot(ev.Root), getModes[ev.Mode], boson.NewAddress(cpb(ev.Addrs[0])))
		if ev.Err = errWord(err); ev.Err != "" {
			return ev.Err
		}
		if !bytes.Equal(ch.Address().Bytes(), ev.Addrs[0]) {
			return "wrong-address"
		}
		ev.Chunks = [][]byte{ch.Data()}
		return "chunk " + ShowData(ch.Data())
	case "getm":
		chs, err := db.GetMulti(context.Background(), getModes[ev.Mode], addrsOf(ev.Addrs)...)
		if ev.Err = errWord(err); ev.Err != "" {
			return ev.Err
		}
		var parts []string
		for i, ch := range chs {
			if !bytes.Equal(ch.Address().Bytes(), ev.Addrs[i]) {
				return "wrong-address"
			}
			ev.Chunks = append(ev.Chunks, ch.Data())
			parts = append(parts, ShowData(ch.Data()))
		}
		return "chunks [" + strings.Join(parts, ",") + "]"
	case "has":
		b, err := db.Has(context.Background(), hasModes[ev.Mode], boson.NewAddress(cpb(ev.Addrs[0])))
		if ev.Err = errWord(err); ev.Err != "" {
			return ev.Err
		}
		ev.Bools = []bool{b}
		return core.B(b)
	case "hasm":
		bs, err := db.HasMulti(context.Background(), hasModes[ev.Mode], addrsOf(ev.Addrs)...)
		if ev.Err = errWord(err); ev.Err != "" {
			return ev.Err
		}
		ev.Bools = bs
		return "bools " + bits(bs)
	case "set":
		err := db.Set(ctxWithRoot(ev.Root), setModes[ev.Mode], addrsOf(ev.Addrs)...)
		if ev.Err = errWord(err); ev.Err != "" {
			return ev.Err
		}
		return "ok"
	case "cap":
		n, _ := strconv.ParseUint(op[1], 10, 62)
		rn.capacity = n
		db.VerifSetCapacity(n)
		return "ok"
	case "now":
		rn.clock, _ = strconv.ParseInt(op[1], 10, 62)
		rn.step, _ = strconv.ParseInt(op[2], 10, 62)
		return "ok"
	case "gcsel":
		if rn.gcActive {
			return "busy"
		}
		reached := make(chan struct{})
		rn.gcRelease = make(chan struct{})
		rn.gcDone = make(chan gcResult, 1)
		rn.ci.Visited = nil
		rn.gcTarget, rn.gcCap = db.VerifGCTarget(), rn.capacity
		release := rn.gcRelease
		rn.gcRestore = localstore.VerifSetHookGCIteratorDone(func() {
			close(reached)
			<-release
		})
		done := rn.gcDone
		go func() {
			c, d, err := db.VerifCollectGarbage()
			done <- gcResult{c, d, err}
		}()
		select {
		case <-reached:
			rn.gcActive = true
			return "sel"
		case <-rn.gcDone:
			rn.gcRestore()
			return "idle"
		}
	case "gcevict":
		if !rn.gcActive {
			return "nogc"
		}
		close(rn.gcRelease)
		r := <-rn.gcDone
		rn.gcRestore()
		rn.gcActive = false
		if r.err != nil {
			ev.Err = "err"
			return "err"
		}
		ev.GCDone, ev.GCCount, ev.Visited = r.done, r.collected, rn.ci.Visited
		ev.GCTarget, ev.GCCapacity = rn.gcTarget, rn.gcCap
		ev.Pyramids = map[string][]Cid{}
		for k, v := range rn.ci.Known {
			ev.Pyramids[k] = append([]Cid(nil), v...)
		}
		var v []string
		for _, a := range rn.ci.Visited {
			v = append(v, ShowAddr(a))
		}
		return fmt.Sprintf("done collected=%d done=%s visited=[%s]", r.collected, core.B(r.done), strings.Join(v, ","))
	case "reopen":
		if rn.gcActive {
			return "busy"
		}
		_ = db.Close()
		Unbind(rn.dsn)
		rn.dsn = Bind(rn.store)
		ndb, err := rn.open(rn.dsn, rn.capacity)
		if err != nil {
			panic(err)
		}
		rn.db = ndb
		return "ok"
	}
	return "bad-op"
}

// ParseData reads the data field of a put op: hex, or `@<seed>.<n>` = core.GenBytes(seed, n, 0) (large chunks
// without megabytes of hex in the op line; Driver/Localstore.lean `parseData` mirrors it).
func ParseData(t string) ([]byte, error) {
	if strings.HasPrefix(t, "@") {
		var seed uint64
		var n int
		if k, err := fmt.Sscanf(t, "@%d.%d", &seed, &n); k != 2 || err != nil || n < 0 || n > 1<<24 || t != fmt.Sprintf("@%d.%d", seed, n) {
			return nil, fmt.Errorf("bad data token")
		}
		return core.GenBytes(seed, n, 0), nil
	}
	return core.UnHex(t)
}

// ShowData prints chunk data in dumps and results: hex up to 256 bytes, beyond that `#<len>.<h>` with the
// 64-bit polynomial digest h = fold (h*31 + b) (wrapping), so that a dump line with many large chunks stays small.
func ShowData(d []byte) string {
	if len(d) <= 256 {
		return core.Hex(d)
	}
	var h uint64
	for _, b := range d {
		h = h*31 + uint64(b)
	}
	return fmt.Sprintf("#%d.%d", len(d), h)
}
