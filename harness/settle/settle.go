// Package settle is the shared fixture of the settlement properties (C30–C33): it builds
// the REAL traffic.Service of /repo from outside the repository with
//
//   - the production in-memory leveldb state store (optionally behind GateStore, which can
//     park chosen Put calls until the harness releases them — C33 schedules),
//   - the real address book, the real cheque store (recording wrapper around
//     chequePkg.NewChequeStore with the real RecoverCheque) and real secp256k1 EIP-712
//     signing through chequePkg.NewChequeSigner,
//   - scripted stubs for the chain (chain.Traffic), cash-out service, cheque protocol,
//     p2p service and pub/sub.
//
// It also contains the scripted settlement.Interface used by C32 (accounting).
package settle

import (
	"bytes"
	"context"
	"crypto/ecdsa"
	"crypto/sha256"
	"errors"
	"fmt"
	"io"
	"math/big"
	"regexp"
	"runtime"
	"sort"
	"strings"
	"sync"

	"github.com/ethereum/go-ethereum/common"
	"github.com/ethereum/go-ethereum/core/types"

	"github.com/gauss-project/aurorafs/pkg/boson"
	"github.com/gauss-project/aurorafs/pkg/crypto"
	"github.com/gauss-project/aurorafs/pkg/logging"
	"github.com/gauss-project/aurorafs/pkg/p2p"
	"github.com/gauss-project/aurorafs/pkg/settlement"
	"github.com/gauss-project/aurorafs/pkg/settlement/traffic"
	chequePkg "github.com/gauss-project/aurorafs/pkg/settlement/traffic/cheque"
	ldbstore "github.com/gauss-project/aurorafs/pkg/statestore/leveldb"
	"github.com/gauss-project/aurorafs/pkg/storage"
	"github.com/gauss-project/aurorafs/pkg/subscribe"
)

const ChainID = int64(9527)

// NKeys keys are available; key 0 is this node.
const NKeys = 8

var (
	keys  [NKeys]*ecdsa.PrivateKey
	addrs [NKeys]common.Address
)

func init() {
	for i := range keys {
		h := sha256.Sum256([]byte(fmt.Sprintf("aurora-verif-settle-key-%d", i)))
		keys[i] = crypto.Secp256k1PrivateKeyFromBytes(h[:])
		a, err := crypto.NewDefaultSigner(keys[i]).EthereumAddress()
		if err != nil {
			panic(err)
		}
		addrs[i] = a
	}
}

// Addr maps a small id of the line protocol to a chain address. ids < NKeys have a private key.
func Addr(id int) common.Address {
	if id >= 0 && id < NKeys {
		return addrs[id]
	}
	var a common.Address
	a[0], a[18], a[19] = 0xEE, byte(id>>8), byte(id)
	return a
}

// AddrID is the inverse of Addr on the ids in [0, max); -1 when the address is none of them.
func AddrID(a common.Address, max int) int {
	for i := 0; i < max; i++ {
		if Addr(i) == a {
			return i
		}
	}
	return -1
}

// Peer maps a small id to an overlay address.
func Peer(id int) boson.Address {
	b := make([]byte, 32)
	for i := range b {
		b[i] = byte(id + 1)
	}
	b[0] = 0xA0
	return boson.NewAddress(b)
}

func PeerID(p boson.Address, max int) int {
	for i := 0; i < max; i++ {
		if Peer(i).Equal(p) {
			return i
		}
	}
	return -1
}

// Signer returns the real EIP-712 cheque signer of key id.
func Signer(id int) chequePkg.ChequeSigner {
	return chequePkg.NewChequeSigner(crypto.NewDefaultSigner(keys[id]), ChainID)
}

// SignCheque builds a cheque and signs it with key `signer` (real secp256k1).
func SignCheque(ben, rcp common.Address, cum *big.Int, signer int) (*chequePkg.SignedCheque, error) {
	c := chequePkg.Cheque{Recipient: rcp, Beneficiary: ben, CumulativePayout: new(big.Int).Set(cum)}
	sig, err := Signer(signer).Sign(&c)
	if err != nil {
		return nil, err
	}
	return &chequePkg.SignedCheque{Cheque: c, Signature: sig}, nil
}

// ---------------------------------------------------------------- gate store

// Parked is one Put that is being held back.
type Parked struct {
	Key   string
	Value string // fmt.Sprint of the value at the time of the call (the *big.Int read by the caller)
	Tag   string // id of the goroutine that called Put / Get
	Read  bool   // a parked Get (the underlying read HAS been done; its result is handed over on release)
	rel   chan error
}

// GateStore wraps a state store; Puts whose key has one of the gated prefixes are parked
// until Release is called.  Everything else passes through.
type GateStore struct {
	storage.StateStorer
	mu       sync.Mutex
	prefixes []string
	rprefixes []string // keys whose Get is parked after the read was done
	parked   []*Parked
	event    chan struct{} // signalled on every park
}

func NewGateStore(s storage.StateStorer) *GateStore {
	return &GateStore{StateStorer: s, event: make(chan struct{}, 1024)}
}

// GatePrefixes sets which keys are parked (nil = none).
func (g *GateStore) GatePrefixes(p ...string) {
	g.mu.Lock()
	g.prefixes = p
	g.mu.Unlock()
}

// GateReads sets which keys have their Get parked (nil = none).  A gated Get performs the real
// read first and is then held until Release: the caller continues with the value that was in the
// store when it asked, however long ago that was (C30 parrecv, C33 refresh schedules).
func (g *GateStore) GateReads(p ...string) {
	g.mu.Lock()
	g.rprefixes = p
	g.mu.Unlock()
}

func (g *GateStore) Get(key string, i interface{}) error {
	err := g.StateStorer.Get(key, i)
	g.mu.Lock()
	gated := false
	for _, p := range g.rprefixes {
		if strings.HasPrefix(key, p) {
			gated = true
		}
	}
	if !gated {
		g.mu.Unlock()
		return err
	}
	pk := &Parked{Key: key, Tag: goroutineID(), Read: true, rel: make(chan error, 1)}
	g.parked = append(g.parked, pk)
	g.mu.Unlock()
	select {
	case g.event <- struct{}{}:
	default:
	}
	if rerr := <-pk.rel; rerr != nil {
		return rerr
	}
	return err
}

func (g *GateStore) Put(key string, i interface{}) error {
	g.mu.Lock()
	gated := false
	for _, p := range g.prefixes {
		if strings.HasPrefix(key, p) {
			gated = true
		}
	}
	if !gated {
		g.mu.Unlock()
		return g.StateStorer.Put(key, i)
	}
	pk := &Parked{Key: key, Value: fmt.Sprint(i), Tag: goroutineID(), rel: make(chan error, 1)}
	g.parked = append(g.parked, pk)
	g.mu.Unlock()
	select {
	case g.event <- struct{}{}:
	default:
	}
	if err := <-pk.rel; err != nil {
		return err
	}
	return g.StateStorer.Put(key, i)
}

// GoroutineID returns the id of the calling goroutine (from its stack header).
func GoroutineID() string { return goroutineID() }

var (
	stackMu  sync.Mutex
	stackBuf []byte
)

var reFrame = regexp.MustCompile(`(?m)^(\S+)\(`)

// LockWait reports whether goroutine g is waiting in sync.(*Mutex).Lock called directly from a
// function whose name ends in one of callers (e.g. ".PutRetrieveTraffic").
func LockWait(g string, callers ...string) bool {
	// runtime.Stack(all) formats every goroutine; each case leaks a few (the service's ticker and
	// receipt loops cannot be stopped), so the dump grows with the run: keep one buffer of the size
	// that was last needed instead of re-dumping with a doubled buffer every time.
	stackMu.Lock()
	defer stackMu.Unlock()
	if stackBuf == nil {
		stackBuf = make([]byte, 1<<20)
	}
	var buf []byte
	for {
		n := runtime.Stack(stackBuf, true)
		if n < len(stackBuf) {
			buf = stackBuf[:n]
			break
		}
		stackBuf = make([]byte, 2*len(stackBuf))
	}
	if len(buf) > len(stackBuf)*3/4 {
		defer func() { stackBuf = make([]byte, 2*len(stackBuf)) }()
	}
	i := bytes.Index(buf, []byte("goroutine "+g+" ["))
	if i < 0 {
		return false
	}
	sec := buf[i:]
	if j := bytes.Index(sec, []byte("\n\n")); j >= 0 {
		sec = sec[:j]
	}
	s := string(sec)
	frames := reFrame.FindAllStringSubmatch(s, -1)
	for k, f := range frames {
		if strings.HasSuffix(f[1], "sync.(*Mutex).Lock") && k+1 < len(frames) {
			c := frames[k+1][1]
			for _, w := range callers {
				if strings.HasSuffix(c, w) {
					return true
				}
			}
			return false
		}
	}
	return false
}

func goroutineID() string {
	b := make([]byte, 64)
	b = b[:runtime.Stack(b, false)]
	f := strings.Fields(string(b))
	if len(f) >= 2 {
		return f[1]
	}
	return "?"
}

// Events is signalled whenever a Put parks.
func (g *GateStore) Events() <-chan struct{} { return g.event }

// ParkedList returns a snapshot of the parked Puts in arrival order.
func (g *GateStore) ParkedList() []*Parked {
	g.mu.Lock()
	defer g.mu.Unlock()
	return append([]*Parked(nil), g.parked...)
}

// Release lets one parked Put proceed (err == nil) or fail without writing (err != nil).
func (g *GateStore) Release(p *Parked, err error) {
	g.mu.Lock()
	for k, x := range g.parked {
		if x == p {
			g.parked = append(g.parked[:k], g.parked[k+1:]...)
			break
		}
	}
	g.mu.Unlock()
	p.rel <- err
}

// AbortAll fails every parked Put (used at "crash": the writes are lost).
func (g *GateStore) AbortAll() {
	for _, p := range g.ParkedList() {
		g.Release(p, errors.New("store closed"))
	}
}

// ---------------------------------------------------------------- stubs

// ChainStub is a scripted chain.Traffic.
type ChainStub struct {
	mu       sync.Mutex
	Balances map[common.Address]*big.Int
	Amounts  map[[2]common.Address]*big.Int // TransAmount(beneficiary, recipient)
	Known    map[common.Address]bool        // addresses returned by Retrieved/TransferredAddress
	FailTransAmount bool
	FailBalance     bool
	Calls    []string
}

func NewChainStub() *ChainStub {
	return &ChainStub{Balances: map[common.Address]*big.Int{}, Amounts: map[[2]common.Address]*big.Int{}, Known: map[common.Address]bool{}}
}
func (c *ChainStub) SetBalance(a common.Address, v *big.Int) {
	c.mu.Lock()
	c.Balances[a] = new(big.Int).Set(v)
	c.mu.Unlock()
}
func (c *ChainStub) SetAmount(ben, rcp common.Address, v *big.Int, known common.Address) {
	c.mu.Lock()
	c.Amounts[[2]common.Address{ben, rcp}] = new(big.Int).Set(v)
	c.Known[known] = true
	c.mu.Unlock()
}
func (c *ChainStub) SetFail(transAmount, balance bool) {
	c.mu.Lock()
	c.FailTransAmount, c.FailBalance = transAmount, balance
	c.mu.Unlock()
}
func (c *ChainStub) knownList() []common.Address {
	var l []common.Address
	for a := range c.Known {
		l = append(l, a)
	}
	sort.Slice(l, func(i, j int) bool { return l[i].Hex() < l[j].Hex() })
	return l
}
func (c *ChainStub) TransferredAddress(common.Address) ([]common.Address, error) {
	c.mu.Lock()
	defer c.mu.Unlock()
	return c.knownList(), nil
}
func (c *ChainStub) RetrievedAddress(common.Address) ([]common.Address, error) {
	c.mu.Lock()
	defer c.mu.Unlock()
	return c.knownList(), nil
}
func (c *ChainStub) BalanceOf(a common.Address) (*big.Int, error) {
	c.mu.Lock()
	defer c.mu.Unlock()
	c.Calls = append(c.Calls, "BalanceOf")
	if c.FailBalance {
		return nil, errors.New("chain down")
	}
	if v, ok := c.Balances[a]; ok {
		return new(big.Int).Set(v), nil
	}
	return big.NewInt(0), nil
}
func (c *ChainStub) RetrievedTotal(common.Address) (*big.Int, error)   { return big.NewInt(0), nil }
func (c *ChainStub) TransferredTotal(common.Address) (*big.Int, error) { return big.NewInt(0), nil }
func (c *ChainStub) TransAmount(ben, rcp common.Address) (*big.Int, error) {
	c.mu.Lock()
	defer c.mu.Unlock()
	if c.FailTransAmount {
		return nil, errors.New("chain down")
	}
	if v, ok := c.Amounts[[2]common.Address{ben, rcp}]; ok {
		return new(big.Int).Set(v), nil
	}
	return big.NewInt(0), nil
}
func (c *ChainStub) CashChequeBeneficiary(context.Context, boson.Address, common.Address, common.Address, *big.Int, []byte) (*types.Transaction, error) {
	return nil, errors.New("not scripted")
}

// CashoutStub is a scripted chequePkg.CashoutService.
type CashoutStub struct {
	mu     sync.Mutex
	n      int
	Status uint64 // answer of WaitForReceipt
	Err    error  // error of WaitForReceipt
	CashErr error // error of CashCheque
}

func (c *CashoutStub) CashCheque(ctx context.Context, peer boson.Address, beneficiary, recipient common.Address) (common.Hash, error) {
	c.mu.Lock()
	defer c.mu.Unlock()
	if c.CashErr != nil {
		return common.Hash{}, c.CashErr
	}
	c.n++
	return common.BigToHash(big.NewInt(int64(c.n))), nil
}
func (c *CashoutStub) WaitForReceipt(ctx context.Context, h common.Hash) (uint64, error) {
	c.mu.Lock()
	defer c.mu.Unlock()
	return c.Status, c.Err
}
func (c *CashoutStub) Script(status uint64, err error) {
	c.mu.Lock()
	c.Status, c.Err = status, err
	c.mu.Unlock()
}

// ProtoStub is a scripted trafficprotocol.Interface (cheque delivery).
type ProtoStub struct {
	mu      sync.Mutex
	Fail    bool
	Emitted []Emitted
}
type Emitted struct {
	Peer      boson.Address
	Cheque    chequePkg.SignedCheque
	Delivered bool
}

func (p *ProtoStub) EmitCheque(ctx context.Context, peer boson.Address, c *chequePkg.SignedCheque) error {
	p.mu.Lock()
	defer p.mu.Unlock()
	cp := chequePkg.SignedCheque{Cheque: chequePkg.Cheque{Recipient: c.Recipient, Beneficiary: c.Beneficiary,
		CumulativePayout: new(big.Int).Set(c.CumulativePayout)}, Signature: append([]byte(nil), c.Signature...)}
	p.Emitted = append(p.Emitted, Emitted{Peer: peer, Cheque: cp, Delivered: !p.Fail})
	if p.Fail {
		return errors.New("delivery failed")
	}
	return nil
}
func (p *ProtoStub) SetFail(f bool) { p.mu.Lock(); p.Fail = f; p.mu.Unlock() }
func (p *ProtoStub) Take() []Emitted {
	p.mu.Lock()
	defer p.mu.Unlock()
	e := p.Emitted
	p.Emitted = nil
	return e
}

// PubStub is a subscribe.SubPub that only counts; CashOut() is signalled per "cashOut" message.
type PubStub struct {
	cash chan bool
}

func NewPubStub() *PubStub { return &PubStub{cash: make(chan bool, 64)} }
func (p *PubStub) Subscribe(subscribe.INotifier, string, string, string) error { return nil }
func (p *PubStub) Publish(ns, kind, param string, msg interface{}) error {
	if kind == "cashOut" {
		st := false
		if m, ok := msg.(traffic.CashOutStatus); ok {
			st = m.Status
		}
		p.cash <- st
	}
	return nil
}
func (p *PubStub) PublishArray(string, string, string, []interface{}) error { return nil }
func (p *PubStub) CashOut() <-chan bool                                     { return p.cash }

type p2pStub struct {
	p2p.Service
	mu           sync.Mutex
	Disconnected []boson.Address
}

func (s *p2pStub) Disconnect(a boson.Address, reason string) error {
	s.mu.Lock()
	s.Disconnected = append(s.Disconnected, a)
	s.mu.Unlock()
	return nil
}

// RecStore records what the real cheque store answered to ReceiveCheque.
type RecStore struct {
	chequePkg.ChequeStore
	mu   sync.Mutex
	Recv []RecvResult
}
type RecvResult struct {
	Amount *big.Int
	Err    error
	Cheque *chequePkg.SignedCheque // the very pointer that was delivered
}

func (r *RecStore) ReceiveCheque(ctx context.Context, c *chequePkg.SignedCheque) (*big.Int, error) {
	a, err := r.ChequeStore.ReceiveCheque(ctx, c)
	r.mu.Lock()
	r.Recv = append(r.Recv, RecvResult{a, err, c})
	r.mu.Unlock()
	return a, err
}
func (r *RecStore) Take() []RecvResult {
	r.mu.Lock()
	defer r.mu.Unlock()
	x := r.Recv
	r.Recv = nil
	return x
}

// ---------------------------------------------------------------- environment

type Notify struct {
	Peer   boson.Address
	Amount *big.Int
}

// Env is one node: persistent parts (store, chain) survive Restart.
type Env struct {
	Raw     storage.StateStorer
	Gate    *GateStore
	Chain   *ChainStub
	Cashout *CashoutStub
	Proto   *ProtoStub
	Pub     *PubStub
	P2P     *p2pStub
	Book    traffic.Addressbook
	CS      *RecStore
	Svc     *traffic.Service
	nmu     sync.Mutex
	Notes   []Notify
	log     logging.Logger
}

func Self() common.Address { return Addr(0) }

func NewEnv() *Env {
	l := logging.New(io.Discard, 0)
	raw, err := ldbstore.NewInMemoryStateStore(l)
	if err != nil {
		panic(err)
	}
	e := &Env{Raw: raw, Gate: NewGateStore(raw), Chain: NewChainStub(), log: l}
	e.Restart()
	return e
}

// Restart builds a fresh address book, cheque store and traffic service over the same store
// and chain (a process restart).  Init() is NOT called.
func (e *Env) Restart() {
	e.Cashout = &CashoutStub{Status: 1}
	e.Proto = &ProtoStub{}
	e.Pub = NewPubStub()
	e.P2P = &p2pStub{}
	e.Book = traffic.NewAddressBook(e.Gate)
	e.CS = &RecStore{ChequeStore: chequePkg.NewChequeStore(e.Gate, Self(), chequePkg.RecoverCheque, ChainID)}
	e.Svc = traffic.New(e.log, Self(), e.Gate, e.Chain, e.CS, e.Cashout, e.P2P, e.Book, Signer(0), e.Proto, ChainID, e.Pub)
	e.Svc.SetNotifyPaymentFunc(func(p boson.Address, a *big.Int) error {
		e.nmu.Lock()
		e.Notes = append(e.Notes, Notify{p, new(big.Int).Set(a)})
		e.nmu.Unlock()
		return nil
	})
}

func (e *Env) TakeNotes() []Notify {
	e.nmu.Lock()
	defer e.nmu.Unlock()
	n := e.Notes
	e.Notes = nil
	return n
}

func (e *Env) Close() { _ = e.Raw.Close() }

// ---------------------------------------------------------------- scripted settlement (C32)

// Script is a settlement.Interface whose answers are set by the harness before every call.
type Script struct {
	retrSeen, retrCopy *big.Int // value last handed out by RetrieveTraffic (the pointer itself) and a copy of it at that time
	mu        sync.Mutex
	Retrieve  *big.Int // RetrieveTraffic answer; nil = error
	Transfer  *big.Int // TransferTraffic answer; nil = error
	Available *big.Int // AvailableBalance answer; nil = error
	PutRetErr bool
	PutTraErr bool
	Calls     []Call
	payCh     chan boson.Address
	payGate   chan struct{} // non-nil: Pay waits for it to be closed
	// hold mode (C32 first-touch schedules): RetrieveTraffic calls are parked until ReleaseHeld
	hold bool
	held []*HeldCall
}

// HeldCall is one RetrieveTraffic call that is being held back.
type HeldCall struct {
	Tag string // goroutine id of the caller
	rel chan struct{}
}

// Hold switches the hold mode of RetrieveTraffic on or off.
func (s *Script) Hold(on bool) { s.mu.Lock(); s.hold = on; s.mu.Unlock() }

// Held returns a snapshot of the parked RetrieveTraffic calls.
func (s *Script) Held() []*HeldCall {
	s.mu.Lock()
	defer s.mu.Unlock()
	return append([]*HeldCall(nil), s.held...)
}

// ReleaseHeld lets every parked RetrieveTraffic call return; it reports how many there were.
func (s *Script) ReleaseHeld() int {
	s.mu.Lock()
	h := s.held
	s.held = nil
	s.mu.Unlock()
	for _, c := range h {
		close(c.rel)
	}
	return len(h)
}
type Call struct {
	Name   string
	Peer   boson.Address
	Amount *big.Int
}

// CheckShared reports whether the value handed out by RetrieveTraffic was changed behind the script's back.
func (s *Script) CheckShared() (was, is *big.Int, mutated bool) {
	s.mu.Lock()
	defer s.mu.Unlock()
	if s.retrSeen != nil && s.retrCopy != nil && s.retrSeen.Cmp(s.retrCopy) != 0 {
		return cp(s.retrCopy), cp(s.retrSeen), true
	}
	return nil, nil, false
}

func NewScript() *Script { return &Script{payCh: make(chan boson.Address, 4096)} }

var errScript = errors.New("scripted error")

func cp(x *big.Int) *big.Int {
	if x == nil {
		return nil
	}
	return new(big.Int).Set(x)
}
func (s *Script) rec(n string, p boson.Address, a *big.Int) {
	s.Calls = append(s.Calls, Call{n, p, cp(a)})
}
func (s *Script) Pay(ctx context.Context, peer boson.Address, thr *big.Int) error {
	s.mu.Lock()
	s.rec("Pay", peer, thr)
	g := s.payGate
	s.mu.Unlock()
	if g != nil {
		<-g // a slow settlement layer: Pay returns only when the gate is opened
	}
	s.payCh <- peer
	return nil
}

// GatePay makes Pay calls wait until the returned function is called (a slow settlement layer).
func (s *Script) GatePay() (open func()) {
	g := make(chan struct{})
	s.mu.Lock()
	s.payGate = g
	s.mu.Unlock()
	return func() {
		s.mu.Lock()
		s.payGate = nil
		s.mu.Unlock()
		close(g)
	}
}
func (s *Script) PayCh() <-chan boson.Address { return s.payCh }
func (s *Script) TransferTraffic(peer boson.Address) (*big.Int, error) {
	s.mu.Lock()
	defer s.mu.Unlock()
	s.rec("TransferTraffic", peer, nil)
	if s.Transfer == nil {
		return nil, errScript
	}
	return cp(s.Transfer), nil
}
func (s *Script) RetrieveTraffic(peer boson.Address) (*big.Int, error) {
	s.mu.Lock()
	s.rec("RetrieveTraffic", peer, nil)
	// the scripted value itself, not a copy: a settlement layer may hand out its own *big.Int (or one value to
	// several peers), so an accounting layer that updated its balances in place would corrupt the backend's value
	// and make the balances of different peers alias; CheckShared() notices the former, the model run the latter
	ans := s.Retrieve
	if ans != nil && (s.retrSeen == nil || s.retrSeen != ans) {
		s.retrSeen, s.retrCopy = ans, cp(ans)
	}
	var hc *HeldCall
	if s.hold {
		hc = &HeldCall{Tag: goroutineID(), rel: make(chan struct{})}
		s.held = append(s.held, hc)
	}
	s.mu.Unlock()
	if hc != nil {
		<-hc.rel
	}
	if ans == nil {
		return nil, errScript
	}
	return ans, nil
}
func (s *Script) PutRetrieveTraffic(peer boson.Address, t *big.Int) error {
	s.mu.Lock()
	defer s.mu.Unlock()
	s.rec("PutRetrieveTraffic", peer, t)
	if s.PutRetErr {
		return errScript
	}
	return nil
}
func (s *Script) PutTransferTraffic(peer boson.Address, t *big.Int) error {
	s.mu.Lock()
	defer s.mu.Unlock()
	s.rec("PutTransferTraffic", peer, t)
	if s.PutTraErr {
		return errScript
	}
	return nil
}
func (s *Script) AvailableBalance() (*big.Int, error) {
	s.mu.Lock()
	defer s.mu.Unlock()
	if s.Available == nil {
		return nil, errScript
	}
	return cp(s.Available), nil
}
func (s *Script) SetNotifyPaymentFunc(settlement.NotifyPaymentFunc)   {}
func (s *Script) GetPeerBalance(boson.Address) (*big.Int, error)      { return big.NewInt(0), nil }
func (s *Script) GetUnPaidBalance(boson.Address) (*big.Int, error)    { return big.NewInt(0), nil }
func (s *Script) Set(f func(*Script))                                 { s.mu.Lock(); f(s); s.mu.Unlock() }
func (s *Script) TakeCalls() []Call {
	s.mu.Lock()
	defer s.mu.Unlock()
	c := s.Calls
	s.Calls = nil
	return c
}

var _ settlement.Interface = (*Script)(nil)
