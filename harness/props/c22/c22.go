// Package c22: correspondence + oracle for the neighbourhood depth of pkg/topology/kademlia
// (property C22).  The real Kad is driven through the shared Kad harness (verifharness/kadh).
package c22

import (
	"fmt"
	"strconv"

	"github.com/gauss-project/aurorafs/pkg/boson"

	"verifharness/core"
	"verifharness/kadh"
)

type prop struct{}

func init() { core.Register(prop{}) }

func (prop) ID() string { return "C22" }
func (prop) Rule() string {
	return "cases: `init` (8- or 32-byte base, BinMaxPeers 20/10/5 i.e. quickSaturation 4/2/1) then 10-70 events over a universe of " +
		"6-40 peers placed in 1-8 leading bins (sometimes scattered up to bin 31, 0-7 peers per bin): inbound (forced or not) and " +
		"outbound connects, disconnects, Reachable(public/private/unknown) with per-case reachability 0/30/70/100 % (whole bins left " +
		"unreachable in 1/4 of cases), SetRadius 0..31 (rarely up to 40), each followed now and then by depth/state/bins/depthx " +
		"observations; fixed regression cases first (the DESIGN §7 layout 0:4r 1:1u 2:4r 3:3r and the stale-depth history). " +
		"Non-trivial: at least 4 connect events and at least one observation; distinct by op-list hash."
}

func hx(b []byte) string { return core.Hex(b) }

// layout builds `init` + connects + reachability for given per-bin (reachable, unreachable) counts.
func layout(r *core.Rand, base []byte, binMax int, spec [][2]int) []string {
	ops := []string{fmt.Sprintf("init %s %d full -", hx(base), binMax)}
	seen := map[string]bool{}
	for bin, c := range spec {
		for i := 0; i < c[0]+c[1]; i++ {
			var a []byte
			for {
				a = kadh.AddrInBin(r, base, bin)
				if !seen[string(a)] {
					seen[string(a)] = true
					break
				}
			}
			ops = append(ops, "conn "+hx(a)+" 1")
			if i < c[0] {
				ops = append(ops, "reach "+hx(a)+" pub")
			}
		}
	}
	return ops
}

func (prop) Gen(r *core.Rand, tier string) []core.Case {
	n := 300
	if tier == "thorough" {
		n = 4000
	}
	var cs []core.Case
	fr := core.NewRand(2222)
	base8 := []byte{0x5a, 0x3c, 0x99, 0x01, 0x77, 0x10, 0xfe, 0x42}
	// DESIGN §7: a bin whose peers are all unreachable must stop the depth
	ops := layout(fr, base8, 20, [][2]int{{4, 0}, {0, 1}, {4, 0}, {3, 0}})
	cs = append(cs, core.Case{ID: "fix-unreachable-bin", NT: true, Ops: append(ops, "depth", "state", "depthx 7", "bins")})
	ops = layout(fr, base8, 20, [][2]int{{4, 1}, {4, 0}, {0, 2}, {0, 1}, {5, 0}, {3, 0}})
	cs = append(cs, core.Case{ID: "fix-unreachable-bins-2", NT: true, Ops: append(ops, "depth", "radius 1", "depth", "radius 31", "state")})
	// a peer turning private/unknown must be reflected in the depth at once
	ops = layout(fr, base8, 20, [][2]int{{4, 0}, {4, 0}, {3, 0}})
	last := ops[len(ops)-1][6 : 6+16]
	cs = append(cs, core.Case{ID: "fix-stale-after-private", NT: true, Ops: append(ops, "depth", "reach "+last+" priv", "depth", "depthx 3", "state")})
	// small sets, empty bins, radius
	ops = layout(fr, base8, 20, [][2]int{{1, 0}, {1, 0}, {1, 0}})
	cs = append(cs, core.Case{ID: "fix-three-peers", NT: false, Ops: append(ops, "depth", "state")})
	ops = layout(fr, base8, 5, [][2]int{{1, 0}, {2, 0}, {0, 0}, {3, 0}, {3, 0}})
	cs = append(cs, core.Case{ID: "fix-empty-bin-quick1", NT: true, Ops: append(ops, "depth", "radius 0", "depth", "radius 1", "depth", "depthx 1")})
	cs = append(cs, core.Case{ID: "fix-nokad", NT: false, Ops: []string{"depth", "conn 0011223344556677 1", "radius 3", "state", "frobnicate"}})

	for i := 0; i < n; i++ {
		c := core.Case{ID: fmt.Sprintf("g%d", i)}
		alen := 8
		if r.Chance(15) {
			alen = 32
		}
		base := r.Bytes(alen)
		binMax := 20
		switch r.Intn(6) {
		case 0:
			binMax = 10
		case 1:
			binMax = 5
		case 2:
			binMax = r.Range(1, 23)
		}
		c.Ops = append(c.Ops, fmt.Sprintf("init %s %d full -", hx(base), binMax))
		quick := kadh.ThresholdsFor(binMax).Quick
		// bins in play
		nb := r.Range(1, 8)
		var bins []int
		for b := 0; b < nb; b++ {
			bins = append(bins, b)
		}
		if r.Chance(20) {
			for k := 0; k < 3; k++ {
				bins = append(bins, r.Range(0, 31))
			}
		}
		if r.Chance(10) {
			bins = append(bins, 31, 31, 30)
		}
		// per-bin target sizes: dense around the saturation threshold
		var uni [][]byte
		deadBin := -1
		if r.Chance(25) {
			deadBin = bins[r.Intn(len(bins))]
		}
		seen := map[string]bool{}
		binOf := map[string]int{}
		for _, b := range bins {
			k := r.Pick([]int{0, 1, quick - 1, quick, quick, quick + 1, quick + 2, 3, r.Range(0, 7)})
			if k < 0 {
				k = 0
			}
			for j := 0; j < k; j++ {
				a := kadh.AddrInBin(r, base, b)
				if !seen[string(a)] && string(a) != string(base) {
					seen[string(a)] = true
					binOf[string(a)] = b
					uni = append(uni, a)
				}
			}
		}
		if len(uni) == 0 {
			uni = append(uni, kadh.AddrInBin(r, base, 0))
			binOf[string(uni[0])] = 0
		}
		reachPct := r.Pick([]int{0, 30, 70, 100, 100})
		nev := r.Range(10, 70)
		conns, obs := 0, 0
		connected := map[string]bool{}
		observe := func() {
			switch r.Intn(8) {
			case 0, 1, 2:
				c.Ops = append(c.Ops, "depth")
			case 3, 4:
				c.Ops = append(c.Ops, "state")
			case 5:
				c.Ops = append(c.Ops, "bins")
			default:
				c.Ops = append(c.Ops, "depthx "+strconv.Itoa(r.Intn(1000)))
			}
			obs++
		}
		// phase 1: connect most of the universe in random order
		order := r.Fork()
		perm := make([]int, len(uni))
		for k := range perm {
			perm[k] = k
		}
		for k := len(perm) - 1; k > 0; k-- {
			j := order.Intn(k + 1)
			perm[k], perm[j] = perm[j], perm[k]
		}
		for _, k := range perm {
			a := uni[k]
			if r.Chance(10) {
				continue
			}
			switch r.Intn(4) {
			case 0:
				c.Ops = append(c.Ops, "out "+hx(a)+" full")
			case 1:
				c.Ops = append(c.Ops, "conn "+hx(a)+" 0")
			default:
				c.Ops = append(c.Ops, "conn "+hx(a)+" 1")
			}
			connected[string(a)] = true
			conns++
			if binOf[string(a)] != deadBin && r.Chance(reachPct) {
				c.Ops = append(c.Ops, "reach "+hx(a)+" pub")
			} else if r.Chance(20) {
				c.Ops = append(c.Ops, "reach "+hx(a)+" "+[]string{"priv", "unk"}[r.Intn(2)])
			}
			if r.Chance(15) {
				observe()
			}
		}
		observe()
		// phase 2: churn
		for k := 0; k < nev; k++ {
			a := uni[r.Intn(len(uni))]
			switch r.Intn(12) {
			case 0, 1:
				c.Ops = append(c.Ops, "disc "+hx(a))
			case 2:
				c.Ops = append(c.Ops, "force "+hx(a))
			case 3, 4:
				c.Ops = append(c.Ops, "conn "+hx(a)+" "+strconv.Itoa(r.Intn(2)))
				conns++
			case 5:
				c.Ops = append(c.Ops, "out "+hx(a)+" full")
				conns++
			case 6, 7:
				if binOf[string(a)] == deadBin && r.Chance(80) {
					c.Ops = append(c.Ops, "reach "+hx(a)+" priv")
				} else {
					c.Ops = append(c.Ops, "reach "+hx(a)+" pub")
				}
			case 8:
				c.Ops = append(c.Ops, "reach "+hx(a)+" "+[]string{"priv", "unk"}[r.Intn(2)])
			case 9, 10:
				rad := r.Range(0, 8)
				if r.Chance(30) {
					rad = r.Range(0, 31)
				}
				if r.Chance(3) {
					rad = r.Range(32, 40)
				}
				c.Ops = append(c.Ops, "radius "+strconv.Itoa(rad))
			default:
				if r.Chance(10) {
					c.Ops = append(c.Ops, "bogus "+hx(a))
				} else {
					c.Ops = append(c.Ops, "pick "+hx(a))
				}
			}
			if r.Chance(45) {
				observe()
			}
		}
		observe()
		c.NT = conns >= 4 && obs >= 1
		cs = append(cs, c)
	}
	return cs
}

func (prop) New() core.Runner { return kadh.NewRunner(oracle) }

// oracle evaluates the clauses of C22 directly on the implementation after every op.
// A failure seen while the only thing that happened since the last depth recomputation is a
// Reachable(non-public) call gets the prefix `stale-` (that is a different defect than a wrong
// recalcDepth).
func oracle(ctx *core.Ctx, r *kadh.Runner, op []string, out string) {
	if out == "nokad" {
		return
	}
	d := int(r.K.NeighborhoodDepth())
	reach, total := r.Counts(false)
	pre := ""
	if r.StaleReach {
		pre = "stale-"
	}
	quick := r.T.Quick
	n, failed := 0, false
	for _, t := range total {
		n += t
	}
	fail := func(clause, f string, a ...interface{}) {
		failed = true
		ctx.Fail(pre+clause, "after `%v`: depth %d radius %d reach %v total %v: %s", op, d, r.Radius, reach[:12], total[:12], fmt.Sprintf(f, a...))
	}
	if d > int(r.Radius) {
		fail("le-radius", "depth exceeds radius")
	}
	if n <= kadh.NNLowWatermark && d != 0 {
		fail("zero-small", "%d peers connected but depth is not 0", n)
	}
	if d > 0 {
		s := 0
		for b := d; b < 32; b++ {
			s += reach[b]
		}
		if s < kadh.NNLowWatermark {
			fail("leaves-nn", "only %d reachable peers at or beyond the depth", s)
		}
	}
	for b := 0; b < 32; b++ {
		if total[b] == 0 {
			if d > b {
				fail("le-shallowest-empty", "bin %d is empty", b)
			}
			break
		}
	}
	for b := 0; b < d && b < 32; b++ {
		if reach[b] < quick {
			if reach[b] == 0 && total[b] > 0 {
				fail("shallower-all-unreachable-bin", "bin %d < depth holds %d peers, none reachable", b, total[b])
			} else {
				fail("shallower-unsaturated", "bin %d < depth holds %d reachable peers < %d", b, reach[b], quick)
			}
			break
		}
	}
	if !failed {
		if sd := kadh.SpecDepth(reach, total, int(r.Radius), quick); sd != d {
			fail("depth-spec", "min(radius, first bin with < %d reachable, bin of the 3rd reachable peer from the deepest) = %d", quick, sd)
		}
	}
	if op[0] == "depthx" && len(op) == 2 {
		seed, _ := strconv.ParseUint(op[1], 10, 64)
		peers := r.Connected()
		pr := core.NewRand(seed)
		for k := len(peers) - 1; k > 0; k-- {
			j := pr.Intn(k + 1)
			peers[k], peers[j] = peers[j], peers[k]
		}
		k2, db2, err := kadh.NewKad(r.Base, r.BinMax, r.BootMode, nil, nil)
		if err != nil {
			return
		}
		defer func() { k2.VerifStop(); _ = db2.Close() }()
		k2.SetRadius(r.Radius)
		for i, a := range peers {
			if i%2 == 0 {
				k2.Outbound(kadh.FullPeer(a))
			} else {
				_ = k2.Connected(nil, kadh.FullPeer(a), true)
			}
			if r.Reachable(a) {
				k2.Reachable(a, 1) // p2p.ReachabilityStatusPublic
			}
		}
		k2.SetRadius(r.Radius ^ 1)
		k2.SetRadius(r.Radius)
		if d2 := int(k2.NeighborhoodDepth()); d2 != d {
			fail("order-dependent", "the same %d peers connected in another order give depth %d", len(peers), d2)
		}
	}
	_ = boson.MaxPO
}
