// Package c18: correspondence + oracle for the two state stores (property C18).
//
// The same op stream is applied to three stores: leveldb.NewStateStore(dir) (on disk, reopened by
// the `reopen` op), leveldb.NewInMemoryStateStore and mock.NewStateStore.  One output line per op
// holds the three results separated by " | " (disk | mem | mock).
//
// Values: the op line carries a payload (hex); the Go value type is a function of the key
// (len(key)%3: 0 string -> JSON, 1 struct -> JSON, 2 BinaryMarshaler -> raw), so put and get of a
// key always use the same type and every subsequence of a case is a valid case.  Iteration
// callbacks decode the raw stored bytes with the same rule and report `key:payload`.
// Both stores keep a private schema key; the callback wrapper ignores it (user keys only).
package c18

import (
	"bytes"
	"encoding/json"
	"errors"
	"fmt"
	"io"
	"os"
	"sort"
	"strconv"
	"strings"
	"unicode/utf8"

	"github.com/gauss-project/aurorafs/pkg/logging"
	ldbstore "github.com/gauss-project/aurorafs/pkg/statestore/leveldb"
	"github.com/gauss-project/aurorafs/pkg/statestore/mock"
	"github.com/gauss-project/aurorafs/pkg/storage"

	"verifharness/core"
)

type prop struct{}

func init() { core.Register(prop{}) }

func (prop) ID() string { return "C18" }
func (prop) Rule() string {
	return "cases: 6-45 ops over keys of length 0-5 from the prefix-rich alphabet {a,b,/,0x00,0xff} (a pool of 3-10 keys per case, so keys repeat and share prefixes): " +
		"put (payload 0-12 bytes of valid UTF-8; value type by len(key)%3 = string/struct/BinaryMarshaler), get, del, " +
		"iter <prefix> all|stop|err|both <n> (prefix = empty, a key, a proper prefix of a key, or an all-0xff prefix; n around the number of matches), reopen (disk store). " +
		"Fixed regression cases first (fix-iter-error, fix-mock-order, fix-reopen). Non-trivial: >=2 distinct keys put, >=1 iter with >=2 matches expected and >=1 get/del; distinct by op-list hash."
}

var alphabet = []byte{'a', 'b', '/', 0x00, 0xff}

func (prop) Gen(r *core.Rand, tier string) []core.Case {
	n := 200
	if tier == "thorough" {
		n = 1500
	}
	h := func(s string) string { return core.Hex([]byte(s)) }
	cs := []core.Case{
		{ID: "fix-iter-error", NT: true, Ops: []string{
			"put " + h("a") + " " + h("x"), "put " + h("ab") + " " + h("y"), "put " + h("b") + " " + h("z"),
			"iter " + h("a") + " err 1", "iter " + h("a") + " err 2", "iter - both 1", "iter " + h("a") + " stop 1", "iter " + h("a") + " all 0"}},
		{ID: "fix-mock-order", NT: true, Ops: []string{
			"put " + h("b/b") + " 31", "put " + h("b/a") + " 32", "put " + h("b") + " 33", "put " + h("b/") + " 34", "put " + h("a") + " 35",
			"put " + h("b/\xff") + " 36", "put " + h("b/\x00") + " 37", "put " + h("bb") + " 38", "put " + h("ba") + " 39",
			"iter " + h("b") + " all 0", "iter - all 0", "iter " + h("b/") + " stop 3", "get " + h("b/")}},
		{ID: "fix-reopen", NT: true, Ops: []string{
			"put " + h("k") + " 01", "put " + h("kk") + " 0203", "put " + h("kkk") + " -", "del " + h("kk"), "reopen",
			"get " + h("k"), "get " + h("kk"), "get " + h("kkk"), "iter " + h("k") + " all 0", "put " + h("kk") + " 04", "reopen", "iter - all 0"}},
		{ID: "fix-ff-prefix", NT: true, Ops: []string{
			"put ff 01", "put ffff 02", "put ffff00 03", "put fe 04", "iter ff all 0", "iter ffff all 0", "iter ffff stop 1", "iter fe err 1"}},
	}
	for i := 0; i < n; i++ {
		c := core.Case{ID: fmt.Sprintf("g%d", i)}
		// key pool
		np := r.Range(3, 10)
		pool := make([][]byte, 0, np)
		for len(pool) < np {
			var k []byte
			if len(pool) > 0 && r.Chance(60) { // extend / truncate an existing key -> shared prefixes
				b := pool[r.Intn(len(pool))]
				k = append([]byte(nil), b...)
				if r.Bool() && len(k) > 0 {
					k = k[:r.Intn(len(k))]
				}
				for len(k) < 5 && r.Chance(60) {
					k = append(k, alphabet[r.Intn(len(alphabet))])
				}
			} else {
				l := r.Range(0, 4)
				for j := 0; j < l; j++ {
					k = append(k, alphabet[r.Intn(len(alphabet))])
				}
			}
			pool = append(pool, k)
		}
		key := func() []byte { return pool[r.Intn(len(pool))] }
		payload := func() []byte {
			l := r.Pick([]int{0, 1, 1, 2, 3, 5, 8, 12})
			var b []byte
			for len(b) < l {
				switch r.Intn(6) {
				case 0:
					b = append(b, []byte("é")...)
				case 1:
					b = append(b, '"')
				case 2:
					b = append(b, 0x00+byte(r.Intn(3)))
				default:
					b = append(b, byte(r.Range(0x20, 0x7e)))
				}
			}
			return b
		}
		present := map[string]bool{}
		everPut := map[string]bool{}
		nops := r.Range(6, 45)
		bigIter, pointOps := false, 0
		for k := 0; k < nops; k++ {
			switch x := r.Intn(20); {
			case x < 8:
				kk := key()
				c.Ops = append(c.Ops, "put "+core.Hex(kk)+" "+core.Hex(payload()))
				present[string(kk)] = true
				everPut[string(kk)] = true
			case x < 11:
				c.Ops = append(c.Ops, "get "+core.Hex(key()))
				pointOps++
			case x < 13:
				kk := key()
				c.Ops = append(c.Ops, "del "+core.Hex(kk))
				delete(present, string(kk))
				pointOps++
			case x < 19:
				var p []byte
				switch r.Intn(6) {
				case 0: // empty prefix
				case 1:
					p = key()
				case 2:
					p = bytes.Repeat([]byte{0xff}, r.Range(1, 2))
				default:
					p = key()
					if len(p) > 0 {
						p = p[:r.Intn(len(p)+1)]
					}
				}
				m := 0
				for kk := range present {
					if strings.HasPrefix(kk, string(p)) {
						m++
					}
				}
				if m >= 2 {
					bigIter = true
				}
				mode := []string{"all", "stop", "err", "both", "stop", "err"}[r.Intn(6)]
				nn := r.Range(0, m+1)
				c.Ops = append(c.Ops, fmt.Sprintf("iter %s %s %d", core.Hex(p), mode, nn))
			default:
				c.Ops = append(c.Ops, "reopen")
			}
		}
		c.NT = len(everPut) >= 2 && bigIter && pointOps > 0
		cs = append(cs, c)
	}
	return cs
}

// ---- value types

type structVal struct {
	N uint64
	B []byte
	S string
}

func mkStruct(p []byte) structVal {
	return structVal{N: uint64(len(p))*1000003 + 7, B: append([]byte{}, p...), S: "s" + strconv.Itoa(len(p))}
}

type binVal struct{ b []byte }

func (v binVal) MarshalBinary() ([]byte, error) { return v.b, nil }
func (v *binVal) UnmarshalBinary(d []byte) error {
	v.b = append([]byte{}, d...)
	return nil
}

func kind(key []byte) int { return len(key) % 3 }

// decodeRaw maps stored bytes back to the payload with the rule of the key's type.
func decodeRaw(key, raw []byte) ([]byte, bool) {
	switch kind(key) {
	case 0:
		var s string
		if json.Unmarshal(raw, &s) != nil {
			return nil, false
		}
		return []byte(s), true
	case 1:
		var s structVal
		if json.Unmarshal(raw, &s) != nil {
			return nil, false
		}
		want := mkStruct(s.B)
		if s.N != want.N || s.S != want.S {
			return nil, false
		}
		return s.B, true
	default:
		return raw, true
	}
}

var errCallback = errors.New("c18 callback error")

type named struct {
	name string
	s    storage.StateStorer
}

type runner struct {
	dir    string
	stores []*named
	ref    map[string][]byte // model-free oracle: plain Go map, sorted on iteration
	broken bool
}

func (prop) New() core.Runner {
	rn := &runner{ref: map[string][]byte{}}
	dir, err := os.MkdirTemp(scratchBase(), "vh-c18-")
	if err != nil {
		rn.broken = true
		return rn
	}
	rn.dir = dir
	lg := logging.New(io.Discard, 0)
	disk, e1 := ldbstore.NewStateStore(dir, lg)
	mem, e2 := ldbstore.NewInMemoryStateStore(lg)
	if e1 != nil || e2 != nil {
		rn.broken = true
		return rn
	}
	rn.stores = []*named{{"disk", disk}, {"mem", mem}, {"mock", mock.NewStateStore()}}
	return rn
}

func (rn *runner) Close() {
	for _, s := range rn.stores {
		if s.s != nil {
			_ = s.s.Close()
		}
	}
	if rn.dir != "" {
		_ = os.RemoveAll(rn.dir)
	}
}

func isSchemaKey(k []byte) bool {
	return string(k) == "statestore_schema" || string(k) == "schema_name"
}

func (rn *runner) Step(ctx *core.Ctx, op []string) string {
	if rn.broken {
		return "broken"
	}
	if len(op) == 0 {
		return "bad-op"
	}
	var outs []string
	switch {
	case op[0] == "put" && len(op) == 3:
		k, e1 := core.UnHex(op[1])
		p, e2 := core.UnHex(op[2])
		if e1 != nil || e2 != nil || !utf8.Valid(p) {
			return "bad-op"
		}
		for _, st := range rn.stores {
			var err error
			switch kind(k) {
			case 0:
				err = st.s.Put(string(k), string(p))
			case 1:
				err = st.s.Put(string(k), mkStruct(p))
			default:
				err = st.s.Put(string(k), binVal{b: p})
			}
			if err != nil {
				ctx.Fail(st.name+"-put", "Put(%x) failed: %v", k, err)
				outs = append(outs, "err")
			} else {
				outs = append(outs, "ok")
			}
		}
		rn.ref[string(k)] = p
	case op[0] == "get" && len(op) == 2:
		k, e1 := core.UnHex(op[1])
		if e1 != nil {
			return "bad-op"
		}
		want, have := rn.ref[string(k)]
		for _, st := range rn.stores {
			var got []byte
			var err error
			switch kind(k) {
			case 0:
				var s string
				err = st.s.Get(string(k), &s)
				got = []byte(s)
			case 1:
				var s structVal
				err = st.s.Get(string(k), &s)
				got = s.B
				if err == nil {
					w := mkStruct(s.B)
					if w.N != s.N || w.S != s.S {
						ctx.Fail(st.name+"-get-value", "Get(%x): struct fields damaged: %+v", k, s)
					}
				}
			default:
				var s binVal
				err = st.s.Get(string(k), &s)
				got = s.b
			}
			switch {
			case errors.Is(err, storage.ErrNotFound):
				if have {
					ctx.Fail(st.name+"-get-missing", "Get(%x) not found but the key was written", k)
				}
				outs = append(outs, "notfound")
			case err != nil:
				ctx.Fail(st.name+"-get-error", "Get(%x): %v", k, err)
				outs = append(outs, "err")
			default:
				if !have {
					ctx.Fail(st.name+"-get-deleted", "Get(%x) = %x but the key is absent/deleted", k, got)
				} else if !bytes.Equal(got, want) {
					ctx.Fail(st.name+"-get-value", "Get(%x) = %x, written %x", k, got, want)
				}
				outs = append(outs, core.Hex(got))
			}
		}
	case op[0] == "del" && len(op) == 2:
		k, e1 := core.UnHex(op[1])
		if e1 != nil {
			return "bad-op"
		}
		for _, st := range rn.stores {
			if err := st.s.Delete(string(k)); err != nil {
				ctx.Fail(st.name+"-del", "Delete(%x): %v", k, err)
				outs = append(outs, "err")
			} else {
				outs = append(outs, "ok")
			}
		}
		delete(rn.ref, string(k))
	case op[0] == "iter" && len(op) == 4:
		p, e1 := core.UnHex(op[1])
		n, e2 := strconv.Atoi(op[3])
		mode := op[2]
		if e1 != nil || e2 != nil || n < 0 || (mode != "all" && mode != "stop" && mode != "err" && mode != "both") {
			return "bad-op"
		}
		// reference: matching keys ascending, cut after the n-th when the callback stops/errs there
		var keys []string
		for k := range rn.ref {
			if strings.HasPrefix(k, string(p)) {
				keys = append(keys, k)
			}
		}
		sort.Strings(keys)
		wantErr := false
		if mode != "all" && n >= 1 && n <= len(keys) {
			keys = keys[:n]
			wantErr = mode == "err" || mode == "both"
		}
		var want []string
		for _, k := range keys {
			want = append(want, core.Hex([]byte(k))+":"+core.Hex(rn.ref[k]))
		}
		for _, st := range rn.stores {
			var seen []string
			cnt := 0
			err := st.s.Iterate(string(p), func(key, value []byte) (bool, error) {
				if isSchemaKey(key) {
					return false, nil
				}
				cnt++
				pl, ok := decodeRaw(key, value)
				if !ok {
					seen = append(seen, core.Hex(key)+":undecodable")
				} else {
					seen = append(seen, core.Hex(key)+":"+core.Hex(pl))
				}
				if mode != "all" && cnt == n {
					switch mode {
					case "stop":
						return true, nil
					case "err":
						return false, errCallback
					default:
						return true, errCallback
					}
				}
				return false, nil
			})
			status := "ok"
			if errors.Is(err, errCallback) {
				status = "cberr"
			} else if err != nil {
				status = "err"
			}
			// oracle
			if strings.Join(seen, ",") != strings.Join(want, ",") {
				a := append([]string(nil), seen...)
				b := append([]string(nil), want...)
				sort.Strings(a)
				sort.Strings(b)
				if mode == "all" && strings.Join(a, ",") == strings.Join(b, ",") {
					ctx.Fail(st.name+"-iter-order", "Iterate(%x) visited %v, ascending order is %v", p, seen, want)
				} else if len(seen) > len(want) && mode != "all" {
					ctx.Fail(st.name+"-iter-stop", "Iterate(%x) %s@%d visited %v, expected %v", p, mode, n, seen, want)
				} else {
					ctx.Fail(st.name+"-iter-keys", "Iterate(%x) %s@%d visited %v, expected %v", p, mode, n, seen, want)
				}
			}
			if wantErr && status != "cberr" {
				ctx.Fail(st.name+"-iter-error-lost", "Iterate(%x): callback returned an error at item %d, Iterate returned %v", p, n, err)
			}
			if !wantErr && status != "ok" {
				ctx.Fail(st.name+"-iter-error-spurious", "Iterate(%x) returned %v", p, err)
			}
			vis := strings.Join(seen, ",")
			if vis == "" {
				vis = "-"
			}
			outs = append(outs, vis+" "+status)
		}
	case op[0] == "reopen" && len(op) == 1:
		st := rn.stores[0]
		if err := st.s.Close(); err != nil {
			ctx.Fail("disk-close", "Close: %v", err)
		}
		s2, err := ldbstore.NewStateStore(rn.dir, logging.New(io.Discard, 0))
		if err != nil {
			ctx.Fail("disk-reopen", "reopen: %v", err)
			rn.broken = true
			st.s = nil
			return "err"
		}
		st.s = s2
		return "ok | ok | ok"
	default:
		return "bad-op"
	}
	return strings.Join(outs, " | ")
}

// scratchBase prefers a memory-backed directory: the leveldb driver fsyncs every Put/Delete,
// which makes an on-disk scratch directory the bottleneck of the run ("" = os.TempDir()).
func scratchBase() string {
	if st, err := os.Stat("/dev/shm"); err == nil && st.IsDir() {
		if f, err := os.CreateTemp("/dev/shm", "vh-probe-"); err == nil {
			f.Close()
			os.Remove(f.Name())
			return "/dev/shm"
		}
	}
	return ""
}
