#!/bin/bash
# lib/seeded.sh <seed-id> <dir with patch.diff, demo/ (repo-relative paths), demo.cmd (run at repo root), README.md> <Cxx> [Cxx...]
# 1. confirm the seeded change in a scratch worktree: builds, touched packages' previously-passing tests still pass,
#    demonstration passes without and fails with the change;  2. apply it to /repo, run the checks, undo.
set -u
ID=$1; SRC=$2; shift 2; DEMO="$(cat $SRC/demo.cmd)"; GT="-tags leveldb -ldflags=-checklinkname=0"
export GOFLAGS=-mod=mod GOPROXY=off GOSUMDB=off GOTOOLCHAIN=local
W=/tmp/sv-$ID
OUT=/verif/seeded/$ID
mkdir -p $OUT; cp $SRC/patch.diff $SRC/demo.cmd $OUT/; rm -rf $OUT/demo; cp -r $SRC/demo $OUT/demo 2>/dev/null; cp $SRC/README.md $OUT/agent-README.md 2>/dev/null
git -C /repo worktree remove --force $W 2>/dev/null; git -C /repo worktree add -q $W HEAD || exit 2
LOG=$OUT/confirm.log; : > $LOG
# place demo files: README of the agent records intended paths; by convention demo/ mirrors repo-relative paths
(cd $SRC/demo 2>/dev/null && find . -type f | while read f; do mkdir -p $W/$(dirname $f); cp $f $W/$f; done)
cd $W
DEMOTESTS=$(grep -rhoE '^func (Test[A-Za-z0-9_]+)' $SRC/demo 2>/dev/null | sed 's/^func //' | tr '\n' '|' | sed 's/|$//'); [ -z "$DEMOTESTS" ] && DEMOTESTS=__none__
PKGS=$(grep '^+++ b/' $SRC/patch.diff | sed 's|+++ b/||' | xargs -n1 dirname | sort -u | sed 's|^|./|')
echo "touched packages: $PKGS" | tee -a $LOG
go build ./... 2>&1 | grep '^# ' | sort > /tmp/sv-$ID.build0; echo "baseline: $(wc -l < /tmp/sv-$ID.build0) packages fail to build (pre-existing)" | tee -a $LOG
for p in $PKGS; do go test $GT -count=1 -vet=off -json $p 2>/dev/null | grep '"Action":"pass"' | grep '"Test"' | sed 's/.*"Test":"\([^"]*\)".*/\1/' | sort -u > /tmp/sv-$ID.base.$(echo $p | tr '/.' '__'); done
echo "== demo on unchanged tree: $DEMO" | tee -a $LOG
if (eval "$DEMO") >>$LOG 2>&1; then echo "demo passes without the change: OK" | tee -a $LOG; D0=ok; else echo "demo FAILS without the change: BAD" | tee -a $LOG; D0=bad; fi
git apply $SRC/patch.diff || { echo "patch does not apply" | tee -a $LOG; exit 2; }
go build ./... 2>&1 | grep '^# ' | sort > /tmp/sv-$ID.build1
if diff -q /tmp/sv-$ID.build0 /tmp/sv-$ID.build1 >/dev/null; then echo "patched build: same result as baseline" | tee -a $LOG; B1=ok; else echo "patched build DIFFERS: $(diff /tmp/sv-$ID.build0 /tmp/sv-$ID.build1 | head -5)" | tee -a $LOG; B1=bad; fi
T1=ok
for p in $PKGS; do f=/tmp/sv-$ID.base.$(echo $p | tr '/.' '__'); go test $GT -count=1 -vet=off -json $p 2>/dev/null | grep '"Action":"pass"' | grep '"Test"' | sed 's/.*"Test":"\([^"]*\)".*/\1/' | sort -u > $f.new; L=$(comm -23 $f $f.new | grep -vE "^($DEMOTESTS)(/|\$)" | tr '\n' ' '); echo "$p: $(wc -l < $f) tests passed before, lost after patch: [$L]" | tee -a $LOG
  if [ -n "$L" ]; then # a test that is flaky on the unchanged tree too: retry the lost top-level tests alone, up to 4 times
    RX="^($(echo $L | tr ' ' '\n' | cut -d/ -f1 | sort -u | tr '\n' '|' | sed 's/|$//'))\$"; R=bad
    for k in 1 2 3 4; do if go test $GT -count=1 -vet=off -run "$RX" $p >>$LOG 2>&1; then R=ok; echo "$p: lost tests pass when re-run alone (attempt $k): flaky, not broken by the patch" | tee -a $LOG; break; fi; done
    [ $R = ok ] || T1=bad
  fi; done
echo "== demo on patched tree" | tee -a $LOG
if (eval "$DEMO") >>$LOG 2>&1; then echo "demo passes WITH the change: BAD" | tee -a $LOG; D1=bad; else echo "demo fails with the change: OK" | tee -a $LOG; D1=ok; fi
cd /verif; git -C /repo worktree remove --force $W; rm -f /tmp/sv-$ID.base.*
echo "confirm: demo_without=$D0 build=$B1 tests=$T1 demo_with=$D1" | tee -a $LOG
[ "$D0$B1$T1$D1" = "okokokok" ] || { echo "NOT CONFIRMED"; exit 3; }
# 2. run the checks against /repo with the change applied, then undo
# /repo is shared by integration (cherry-picks) and seeded runs (apply/undo): serialise them (phase 1 only uses its own worktree)
exec 9>/tmp/repo.lock; flock 9
git -C /repo status --short | grep -q . && { echo "/repo not clean"; exit 2; }
git -C /repo apply $SRC/patch.diff
RES=""
for p in "$@"; do ./check $p --tier quick > $OUT/check-$p.out 2>&1; rc=$?; tail -3 $OUT/check-$p.out; RES="$RES $p:rc=$rc"; for r in $(grep -o 'replay=[^ ]*' $OUT/check-$p.out | cut -d= -f2); do cp $r $OUT/ 2>/dev/null; done; done
git -C /repo checkout -- . ; git -C /repo status --short
echo "checks:$RES" | tee -a $LOG
# evidence files must describe the unchanged tree: re-run the same checks now that the change is undone
[ -n "${SKIP_RERUN:-}" ] || for p in "$@"; do ./check $p --tier quick | tail -1; done
