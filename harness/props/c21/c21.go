// Package c21: correspondence + oracle for pkg/topology/pslice (property C21).
package c21

import (
	"errors"
	"fmt"
	"sort"
	"strconv"
	"strings"
	"sync"
	"unsafe"

	"github.com/gauss-project/aurorafs/pkg/boson"
	"github.com/gauss-project/aurorafs/pkg/topology/pslice"

	"verifharness/core"
)

type prop struct{}

func init() { core.Register(prop{}) }

func (prop) ID() string { return "C21" }
func (prop) Rule() string {
	return "cases: `new maxBins base` (maxBins in {1..6,8,32}, base 4 or 32 bytes) then 8-60 ops over a 12-address universe built so that several addresses share a bin " +
		"(first differing bit 0..maxBins+2, or equal to the base): add with 0..5 addresses (batches with repeated and already-present addresses), remove (present/absent), exists, " +
		"sizes (Length, every BinSize, BinSize(maxBins), ShallowestEmpty), binpeers, each fwd|rev with stop/next/err schedules, each with an Add/Remove performed from inside the " +
		"callback (update interleaved with iteration: snapshot semantics), stress (concurrent writer of fresh addresses + two iterating readers). After every mutating op the " +
		"runner prints len/cap of every bin and whether its backing array changed (verif hook VerifBinMem), and annotates the capacities observed right after each Add " +
		"(the choice Go's append made) for the memory-level model. Regression cases first " +
		"(Add(a,a); Add(a,b,a) with a present). ~5% malformed (address length != base length, bin >= maxBins). " +
		"Non-trivial: a slice exists, >=2 mutations and >=1 observation; distinct by op-list hash."
}

func pickS(r *core.Rand, xs []string) string { return xs[r.Intn(len(xs))] }

func flipFrom(r *core.Rand, x []byte, k int) []byte {
	y := append([]byte(nil), x...)
	if k/8 >= len(y) {
		return y
	}
	for i := k/8 + 1; i < len(y); i++ {
		y[i] = byte(r.U64())
	}
	low := byte(0xff) >> uint(k%8+1)
	y[k/8] = (x[k/8] &^ low) | (byte(r.U64()) & low)
	y[k/8] ^= 0x80 >> uint(k%8)
	return y
}

func (prop) Gen(r *core.Rand, tier string) []core.Case {
	n := 400
	if tier == "thorough" {
		n = 20000
	}
	cs := []core.Case{
		{ID: "fix-batch-dup", NT: true, Ops: []string{"new 4 00000000", "add 80000001 80000001", "sizes", "binpeers 0", "each fwd 0 0 0 0 -", "remove 80000001", "sizes", "exists 80000001"}},
		{ID: "fix-batch-dup-present", NT: true, Ops: []string{"new 3 00000000", "add 40000000", "add 40000000 20000000 40000000 20000000 00000001", "sizes", "each rev 0 0 0 0 -", "binpeers 2"}},
		{ID: "fix-iter-update", NT: true, Ops: []string{"new 2 00000000", "add 80000001 80000002 80000003 40000001", "each rev 0 0 0 2 remove 80000001", "each rev 0 0 0 1 add 80000009 40000002", "sizes", "each fwd 0 0 0 2 remove 40000001"}},
		{ID: "fix-empty", NT: false, Ops: []string{"sizes", "add 00", "new 1 -", "add", "sizes", "add -", "sizes", "exists -", "remove -", "sizes", "each fwd 0 0 0 0 -"}},
	}
	for i := 0; i < n; i++ {
		c := core.Case{ID: fmt.Sprintf("g%d", i)}
		maxBins := r.Pick([]int{1, 2, 3, 3, 4, 4, 5, 6, 8, 32})
		blen := r.Pick([]int{4, 4, 4, 32})
		base := r.Bytes(blen)
		var uni [][]byte
		for k := 0; k < 12; k++ {
			switch r.Intn(12) {
			case 0:
				uni = append(uni, append([]byte(nil), base...))
			case 1: // malformed: other length
				uni = append(uni, r.Bytes(r.Pick([]int{0, 1, blen + 1})))
			default:
				uni = append(uni, flipFrom(r, base, r.Intn(maxBins+3)))
			}
		}
		pick := func() string { return core.Hex(uni[r.Intn(len(uni))]) }
		pickN := func(lo, hi int) string {
			k := r.Range(lo, hi)
			var xs []string
			for j := 0; j < k; j++ {
				if j > 0 && r.Chance(25) {
					xs = append(xs, xs[r.Intn(len(xs))]) // repeat inside the batch
				} else {
					xs = append(xs, pick())
				}
			}
			return strings.Join(xs, " ")
		}
		c.Ops = append(c.Ops, fmt.Sprintf("new %d %s", maxBins, core.Hex(base)))
		nops := r.Range(8, 60)
		mut, obs := 0, 0
		for k := 0; k < nops; k++ {
			switch r.Intn(20) {
			case 0, 1, 2, 3, 4:
				c.Ops = append(c.Ops, strings.TrimSpace("add "+pickN(0, 5)))
				mut++
			case 5, 6:
				c.Ops = append(c.Ops, "add "+pick())
				mut++
			case 7, 8, 9:
				c.Ops = append(c.Ops, "remove "+pick())
				mut++
			case 10:
				c.Ops = append(c.Ops, "exists "+pick())
				obs++
			case 11, 12:
				c.Ops = append(c.Ops, "sizes")
				obs++
			case 13:
				c.Ops = append(c.Ops, "binpeers "+strconv.Itoa(r.Intn(maxBins+2)))
				obs++
			case 14, 15:
				c.Ops = append(c.Ops, "each "+pickS(r, []string{"fwd", "rev"})+" 0 0 0 0 -")
				obs++
			case 16, 17:
				c.Ops = append(c.Ops, fmt.Sprintf("each %s %d %d %d 0 -", pickS(r, []string{"fwd", "rev"}), r.Intn(6), r.Intn(4), r.Pick([]int{0, 0, 0, r.Range(1, 6)})))
				obs++
			case 18:
				kind := pickS(r, []string{"add", "remove"})
				as := pickN(1, 3)
				if kind == "remove" {
					as = pickN(1, 2)
				}
				sched := "0 0 0"
				if r.Chance(25) {
					sched = fmt.Sprintf("%d %d 0", r.Intn(8), r.Intn(4))
				}
				c.Ops = append(c.Ops, fmt.Sprintf("each %s %s %d %s %s", pickS(r, []string{"fwd", "rev"}), sched, r.Range(1, 6), kind, as))
				obs++
				mut++
			default:
				if tier == "thorough" || r.Chance(20) {
					c.Ops = append(c.Ops, fmt.Sprintf("stress %d", r.Range(1, 1000)))
				} else {
					c.Ops = append(c.Ops, "sizes")
				}
				obs++
			}
		}
		c.Ops = append(c.Ops, "sizes", "each fwd 0 0 0 0 -")
		c.NT = mut >= 2 && obs >= 1
		cs = append(cs, c)
	}
	return cs
}

type runner struct {
	ps      *pslice.PSlice
	base    []byte
	maxBins int
	ref     map[string]bool  // model-free oracle: added \ removed
	prev    []unsafe.Pointer // backing array of every bin after the previous op (keeps them alive)
}

// capTokens: the capacity of every bin right now — the oracle the memory-level model gets for the
// choices Go's append makes when it has to grow (annotation of add / each+add / stress).
func (rn *runner) capTokens() []string {
	_, caps, _ := rn.ps.VerifBinMem()
	ts := make([]string, len(caps))
	for i, c := range caps {
		ts[i] = strconv.Itoa(c)
	}
	return ts
}

// memLine: `mem=len/cap[!],…` per bin; `!` = the bin's backing array is not the one it had after
// the previous op.  Compared with the memory-level model (PSliceMemOps) line by line.
func (rn *runner) memLine() string {
	lens, caps, arrs := rn.ps.VerifBinMem()
	xs := make([]string, len(lens))
	for i := range lens {
		xs[i] = fmt.Sprintf("%d/%d", lens[i], caps[i])
		if i < len(rn.prev) && rn.prev[i] != arrs[i] {
			xs[i] += "!"
		}
	}
	rn.prev = arrs
	return "mem=" + strings.Join(xs, ",")
}

func (prop) New() core.Runner { return &runner{} }
func (*runner) Close()        {}

func (rn *runner) binOf(a []byte) int {
	po := int(boson.Proximity(rn.base, a))
	if po >= rn.maxBins {
		po = rn.maxBins - 1
	}
	return po
}

func hexs(as []boson.Address) string {
	if len(as) == 0 {
		return "-"
	}
	xs := make([]string, len(as))
	for i, a := range as {
		xs[i] = core.Hex(a.Bytes())
	}
	return strings.Join(xs, ",")
}

// checkSet: the slice, read through BinPeers, is exactly the reference set, each address once and
// in its bin.
func (rn *runner) checkSet(ctx *core.Ctx, what string, batchRepeats bool) {
	seen := map[string]bool{}
	for i := 0; i < rn.maxBins; i++ {
		for _, p := range rn.ps.BinPeers(uint8(i)) {
			k := string(p.Bytes())
			if seen[k] {
				clause := "duplicate"
				if batchRepeats {
					clause = "duplicate-batch-add-same-address"
				}
				ctx.Fail(clause, "after %s address %x is stored twice", what, p.Bytes())
			}
			seen[k] = true
			if !rn.ref[k] {
				ctx.Fail("set-extra", "after %s address %x is stored but not in added\\removed", what, p.Bytes())
			}
			if rn.binOf(p.Bytes()) != i {
				ctx.Fail("wrong-bin", "after %s address %x is in bin %d, proximity says %d", what, p.Bytes(), i, rn.binOf(p.Bytes()))
			}
		}
	}
	for k := range rn.ref {
		if !seen[k] {
			ctx.Fail("set-missing", "after %s address %x is in added\\removed but not stored", what, []byte(k))
		}
	}
}

type visit struct {
	po uint8
	a  string
}

func (rn *runner) Step(ctx *core.Ctx, op []string) string {
	if len(op) == 3 && op[0] == "new" {
		m, err := strconv.Atoi(op[1])
		b, err2 := core.UnHex(op[2])
		if err != nil || err2 != nil || m < 1 || m > 64 {
			return "bad-op"
		}
		rn.ps = pslice.New(m, boson.NewAddress(b))
		rn.base, rn.maxBins, rn.ref = b, m, map[string]bool{}
		_, _, rn.prev = rn.ps.VerifBinMem()
		return "ok"
	}
	if rn.ps == nil {
		return "noslice"
	}
	parse := func(hs []string) ([]boson.Address, bool) {
		var as []boson.Address
		for _, h := range hs {
			b, err := core.UnHex(h)
			if err != nil {
				return nil, false
			}
			as = append(as, boson.NewAddress(b))
		}
		return as, true
	}
	repeats := func(as []boson.Address) bool {
		s := map[string]bool{}
		for _, a := range as {
			if s[string(a.Bytes())] {
				return true
			}
			s[string(a.Bytes())] = true
		}
		return false
	}
	switch {
	case len(op) >= 1 && op[0] == "add":
		as, ok := parse(op[1:])
		if !ok {
			return "bad-op"
		}
		rn.ps.Add(as...)
		ctx.Annotate(rn.capTokens()...)
		for _, a := range as {
			rn.ref[string(a.Bytes())] = true
		}
		rn.checkSet(ctx, "add", len(as) > 1 && repeats(as))
		return "ok " + rn.memLine()
	case len(op) == 2 && op[0] == "remove":
		as, ok := parse(op[1:])
		if !ok {
			return "bad-op"
		}
		rn.ps.Remove(as[0])
		delete(rn.ref, string(as[0].Bytes()))
		rn.checkSet(ctx, "remove", false)
		return "ok " + rn.memLine()
	case len(op) == 2 && op[0] == "exists":
		as, ok := parse(op[1:])
		if !ok {
			return "bad-op"
		}
		e := rn.ps.Exists(as[0])
		if e != rn.ref[string(as[0].Bytes())] {
			ctx.Fail("exists", "Exists(%x)=%v, set says %v", as[0].Bytes(), e, !e)
		}
		return core.B(e)
	case len(op) == 1 && op[0] == "sizes":
		cnt := make([]int, rn.maxBins)
		for k := range rn.ref {
			cnt[rn.binOf([]byte(k))]++
		}
		l := rn.ps.Length()
		if l != len(rn.ref) {
			ctx.Fail("length", "Length()=%d, set has %d", l, len(rn.ref))
		}
		var bs []string
		firstEmpty := -1
		for i := 0; i < rn.maxBins; i++ {
			s := rn.ps.BinSize(uint8(i))
			if s != cnt[i] {
				ctx.Fail("binsize", "BinSize(%d)=%d, set has %d there", i, s, cnt[i])
			}
			if cnt[i] == 0 && firstEmpty < 0 {
				firstEmpty = i
			}
			bs = append(bs, strconv.Itoa(s))
		}
		over := rn.ps.BinSize(uint8(rn.maxBins))
		if over != 0 {
			ctx.Fail("binsize-over", "BinSize(maxBins)=%d", over)
		}
		se, none := rn.ps.ShallowestEmpty()
		ses := "none"
		if !none {
			ses = strconv.Itoa(int(se))
		}
		if (firstEmpty < 0) != none || (!none && int(se) != firstEmpty) {
			ctx.Fail("shallowest-empty", "ShallowestEmpty()=(%d,%v), first empty bin of the set is %d", se, none, firstEmpty)
		}
		return fmt.Sprintf("len=%d bins=%s over=%d se=%s", l, strings.Join(bs, ","), over, ses)
	case len(op) == 2 && op[0] == "binpeers":
		b, err := strconv.Atoi(op[1])
		if err != nil || b < 0 || b > 255 {
			return "bad-op"
		}
		ps := rn.ps.BinPeers(uint8(b))
		if b >= rn.maxBins && len(ps) != 0 {
			ctx.Fail("binpeers-over", "BinPeers(%d) not empty", b)
		}
		return hexs(ps)
	case len(op) >= 7 && op[0] == "each":
		return rn.each(ctx, op, parse)
	case len(op) == 2 && op[0] == "stress":
		seed, err := strconv.Atoi(op[1])
		if err != nil {
			return "bad-op"
		}
		rn.stress(ctx, uint64(seed))
		rn.checkSet(ctx, "stress", false)
		return "ok " + rn.memLine()
	}
	return "bad-op"
}

func (rn *runner) each(ctx *core.Ctx, op []string, parse func([]string) ([]boson.Address, bool)) string {
	dir, kind := op[1], op[6]
	var nums [4]int
	for i := 0; i < 4; i++ {
		v, err := strconv.Atoi(op[2+i])
		if err != nil || v < 0 {
			return "bad-op"
		}
		nums[i] = v
	}
	stopAt, nextMod, errAt, mutAt := nums[0], nums[1], nums[2], nums[3]
	as, ok := parse(op[7:])
	if !ok || (dir != "fwd" && dir != "rev") || (kind != "add" && kind != "remove" && kind != "-") {
		return "bad-op"
	}
	// pre-state per bin (for the snapshot clause)
	pre := make([][]boson.Address, rn.maxBins)
	for i := range pre {
		pre[i] = rn.ps.BinPeers(uint8(i))
	}
	var post [][]boson.Address
	var visited []visit
	var ctlNext []bool
	n := 0
	mutBin := -1
	after := 0 // calls made after a stop/err was returned
	done := false
	cbErr := errors.New("callback error")
	pf := func(p boson.Address, po uint8) (bool, bool, error) {
		if done {
			after++
		}
		n++
		visited = append(visited, visit{po, string(p.Bytes())})
		if n == mutAt && kind != "-" {
			mutBin = int(po)
			if kind == "add" {
				rn.ps.Add(as...)
				ctx.Annotate(rn.capTokens()...)
				for _, a := range as {
					rn.ref[string(a.Bytes())] = true
				}
			} else {
				for _, a := range as {
					rn.ps.Remove(a)
					delete(rn.ref, string(a.Bytes()))
				}
			}
			post = make([][]boson.Address, rn.maxBins)
			for i := range post {
				post[i] = rn.ps.BinPeers(uint8(i))
			}
		}
		nx := nextMod > 0 && n%nextMod == 0
		ctlNext = append(ctlNext, nx)
		if n == errAt {
			done = true
			return n == stopAt, nx, cbErr
		}
		if n == stopAt {
			done = true
		}
		return n == stopAt, nx, nil
	}
	var err error
	if dir == "fwd" {
		err = rn.ps.EachBin(pf)
	} else {
		err = rn.ps.EachBinRev(pf)
	}
	// ---- oracle
	if after > 0 {
		ctx.Fail("each-stop", "%d callbacks after stop/err was returned", after)
	}
	if (err != nil) != (errAt > 0 && n >= errAt) {
		ctx.Fail("each-err", "EachBin returned %v, callback error was raised: %v", err, errAt > 0 && n >= errAt)
	}
	seen := map[string]bool{}
	for k, v := range visited {
		if k > 0 {
			p, q := int(visited[k-1].po), int(v.po)
			if (dir == "fwd" && q > p) || (dir == "rev" && q < p) {
				ctx.Fail("each-order", "bin %d visited after bin %d in %s iteration", q, p, dir)
			}
			if ctlNext[k-1] && p == q {
				ctx.Fail("each-next", "callback asked for the next bin at call %d but bin %d continued", k, p)
			}
		}
		if rn.binOf([]byte(v.a)) != int(v.po) {
			ctx.Fail("each-po", "callback got po %d for %x, proximity says %d", v.po, []byte(v.a), rn.binOf([]byte(v.a)))
		}
		if seen[v.a] && mutAt == 0 {
			ctx.Fail("each-twice", "address %x visited twice", []byte(v.a))
		}
		seen[v.a] = true
	}
	if stopAt == 0 && nextMod == 0 && errAt == 0 {
		// complete iteration: exact expected sequence from the bin contents
		var want []visit
		order := make([]int, rn.maxBins)
		for i := range order {
			if dir == "fwd" {
				order[i] = rn.maxBins - 1 - i
			} else {
				order[i] = i
			}
		}
		phase := 0 // 0: up to and including the bin in which the update happened; 1: later bins
		for _, i := range order {
			src := pre[i]
			if phase == 1 {
				src = post[i] // bins entered after the update see it
			}
			if i == mutBin {
				phase = 1 // this bin itself was read from the snapshot taken before the update
			}
			for _, p := range src {
				want = append(want, visit{uint8(i), string(p.Bytes())})
			}
		}
		same := len(want) == len(visited)
		for k := 0; same && k < len(want); k++ {
			same = want[k] == visited[k]
		}
		if !same {
			clause := "each-complete"
			if mutBin >= 0 {
				clause = "each-snapshot"
			}
			ctx.Fail(clause, "visited %d entries, expected %d (bins before the update point from the pre-state, the bin being iterated from its snapshot, later bins from the post-state)", len(visited), len(want))
		}
	}
	if mutBin >= 0 {
		rn.checkSet(ctx, "each+"+kind, false)
	}
	var vs []string
	for _, v := range visited {
		vs = append(vs, fmt.Sprintf("%d:%s", v.po, core.Hex([]byte(v.a))))
	}
	res := "ok"
	if err != nil {
		res = "err"
	}
	if len(vs) == 0 {
		return res + " - " + rn.memLine()
	}
	return res + " " + strings.Join(vs, ",") + " " + rn.memLine()
}

// stress: a writer adds and removes fresh addresses (never in the reference set) while two
// readers iterate.  Every snapshot of a bin is a consistent state of that bin, so each iteration
// must visit every address of the reference set exactly once, and nothing but reference or fresh
// addresses.  The writer leaves the slice exactly as it found it (fresh addresses sit at the tail).
func (rn *runner) stress(ctx *core.Ctx, seed uint64) {
	r := core.NewRand(seed)
	fresh := map[string]bool{}
	var fr []boson.Address
	for len(fr) < 6 {
		a := flipFrom(r, rn.base, r.Intn(rn.maxBins+2))
		a = append(a, 0xEE) // a length no generated address has
		if !fresh[string(a)] {
			fresh[string(a)] = true
			fr = append(fr, boson.NewAddress(a))
		}
	}
	stable := map[string]bool{}
	for k := range rn.ref {
		stable[k] = true
	}
	var wg sync.WaitGroup
	stop := make(chan struct{})
	var mu sync.Mutex
	var problems []string
	for rd := 0; rd < 2; rd++ {
		wg.Add(1)
		go func(rev bool) {
			defer wg.Done()
			for it := 0; ; it++ {
				select {
				case <-stop:
					return
				default:
				}
				cnt := map[string]int{}
				pf := func(p boson.Address, _ uint8) (bool, bool, error) {
					cnt[string(p.Bytes())]++
					return false, false, nil
				}
				if rev {
					_ = rn.ps.EachBinRev(pf)
				} else {
					_ = rn.ps.EachBin(pf)
				}
				for k, c := range cnt {
					if !stable[k] && !fresh[k] {
						mu.Lock()
						problems = append(problems, fmt.Sprintf("foreign address %x visited", []byte(k)))
						mu.Unlock()
					}
					if stable[k] && c != 1 {
						mu.Lock()
						problems = append(problems, fmt.Sprintf("stable address %x visited %d times in one iteration", []byte(k), c))
						mu.Unlock()
					}
				}
				for k := range stable {
					if cnt[k] == 0 {
						mu.Lock()
						problems = append(problems, fmt.Sprintf("stable address %x not visited", []byte(k)))
						mu.Unlock()
					}
				}
			}
		}(rd == 1)
	}
	var annot []string
	for _, a := range fr {
		annot = append(annot, core.Hex(a.Bytes()))
	}
	for round := 0; round < 30; round++ {
		rn.ps.Add(fr[0], fr[1], fr[2])
		rn.ps.Add(fr[3])
		// the only append that may have grown through the runtime: observe the capacity it chose
		annot = append(annot, rn.capTokens()[rn.binOf(fr[3].Bytes())])
		rn.ps.Remove(fr[1])
		rn.ps.Add(fr[4], fr[5], fr[4])
		for _, i := range []int{0, 5, 3, 2, 4} {
			rn.ps.Remove(fr[i])
		}
	}
	ctx.Annotate(annot...)
	close(stop)
	wg.Wait()
	sort.Strings(problems)
	if len(problems) > 0 {
		ctx.Fail("concurrent-iteration", "%d problems, first: %s", len(problems), problems[0])
	}
}
