package main

// Structural facts about pkg/multicast that the C38 models assume (Generated/MulticastFacts.lean).
//
// 1. WHO CHANGES THE THREE PEER LISTS.  Model/Group.lean has exactly three transitions on
//    (connectedPeers, keepPeers, knownPeers): `add`, `remove`, `pruneKnown` (group.go, each under
//    `g.mux`), and the discovery model (`Group.doFind`) lets findGroup answers go through `add`.
//    This pass lists every place of the package (non-test, non-verif files; function literals belong
//    to their function) that can change one of the lists:
//
//	add / remove        <x>.<list>.Add(…) / <x>.<list>.Remove(…)
//	assign-new          <x>.<list> = pslice.New(…)            (reset to empty)
//	assign-other        <x>.<list> = anything else
//	init-new            composite-literal key  <list>: pslice.New(…)
//	init-other          composite-literal key  <list>: anything else
//	indirect-add/remove v.Add(…) / v.Remove(…) where v is a *pslice.PSlice parameter / result / local
//	                    bound to one of the lists or to the result of a package function returning *pslice.PSlice
//	escape              one of the lists (or such a v) passed to a function not declared in the package
//
//    plus every call of the three group methods (`groupOpCalls`).  Props/C38.lean decides
//    `C38_lists_only_changed_by_group_ops`: add/remove rows only inside group.go add/remove/pruneKnown,
//    resets only in newGroup/gcGroup, nothing indirect/escaping, and doFindGroup calls `add`.
//
// 2. THE DE-DUPLICATION CACHE KEEPS ENTRIES FOR THE WHOLE WINDOW.  Model/Flood.lean's seenOn/seenMc sets
//    never lose an entry (statements are "within the window").  gcache.New() without arguments builds an
//    expiry-only cache; gcache.New(n) evicts least-recently-used entries beyond n regardless of expiry.
//    Listed: the constructor call of the package variable `cache` (callee, number of arguments), every
//    method called on it (function, method), every other assignment to it, the duration argument of
//    every `cacheSetIfNotExist` call and the initialiser of that duration.

import (
	"bytes"
	"fmt"
	"go/ast"
	"go/parser"
	"go/printer"
	"go/token"
	"os"
	"path/filepath"
	"sort"
	"strconv"
	"strings"
)

func init() { extraGenerators["MulticastFacts.lean"] = genMulticastFacts }

var mcLists = map[string]bool{"connectedPeers": true, "keepPeers": true, "knownPeers": true}
var mcGroupOps = map[string]bool{"add": true, "remove": true, "pruneKnown": true}

type mcMut struct {
	file, fn, field, kind string
	line                  int
}

type mcCall struct {
	file, fn, callee string
	line             int
}

func mcIsPSliceType(t ast.Expr) bool {
	if st, ok := t.(*ast.StarExpr); ok {
		t = st.X
	}
	sel, ok := t.(*ast.SelectorExpr)
	if !ok || sel.Sel.Name != "PSlice" {
		return false
	}
	id, ok := sel.X.(*ast.Ident)
	return ok && id.Name == "pslice"
}

func mcIsPSliceNew(e ast.Expr) bool {
	c, ok := e.(*ast.CallExpr)
	if !ok {
		return false
	}
	sel, ok := c.Fun.(*ast.SelectorExpr)
	if !ok || sel.Sel.Name != "New" {
		return false
	}
	id, ok := sel.X.(*ast.Ident)
	return ok && id.Name == "pslice"
}

func mcListField(e ast.Expr) (string, bool) {
	for {
		p, ok := e.(*ast.ParenExpr)
		if !ok {
			break
		}
		e = p.X
	}
	sel, ok := e.(*ast.SelectorExpr)
	if ok && mcLists[sel.Sel.Name] {
		return sel.Sel.Name, true
	}
	return "", false
}

func mcCalleeName(c *ast.CallExpr) string {
	switch f := c.Fun.(type) {
	case *ast.Ident:
		return f.Name
	case *ast.SelectorExpr:
		return f.Sel.Name
	}
	return ""
}

func genMulticastFacts(repo string) (string, error) {
	dir := filepath.Join(repo, "pkg/multicast")
	ents, err := os.ReadDir(dir)
	if err != nil {
		return "", err
	}
	fset := token.NewFileSet()
	type pf struct {
		name string
		f    *ast.File
	}
	var files []pf
	for _, e := range ents {
		name := e.Name()
		if e.IsDir() || !strings.HasSuffix(name, ".go") || strings.HasSuffix(name, "_test.go") {
			continue
		}
		src, err := os.ReadFile(filepath.Join(dir, name))
		if err != nil {
			return "", err
		}
		if bytes.Contains(src, []byte("//go:build verif")) {
			continue // hook files are not part of the shipped program
		}
		f, err := parser.ParseFile(fset, name, src, 0)
		if err != nil {
			return "", err
		}
		files = append(files, pf{name, f})
	}
	sort.Slice(files, func(i, j int) bool { return files[i].name < files[j].name })
	line := func(n ast.Node) int { return fset.Position(n.Pos()).Line }
	src := func(n ast.Node) string {
		var b bytes.Buffer
		_ = printer.Fprint(&b, fset, n)
		return b.String()
	}

	// functions declared in the package; those returning *pslice.PSlice
	declared := map[string]bool{}
	returnsPS := map[string]bool{}
	for _, p := range files {
		for _, d := range p.f.Decls {
			fd, ok := d.(*ast.FuncDecl)
			if !ok {
				continue
			}
			declared[fd.Name.Name] = true
			if fd.Type.Results != nil {
				for _, r := range fd.Type.Results.List {
					if mcIsPSliceType(r.Type) {
						returnsPS[fd.Name.Name] = true
					}
				}
			}
		}
	}
	for _, b := range []string{"len", "cap", "append", "copy", "make", "new", "panic", "print", "println", "delete", "close"} {
		declared[b] = true
	}

	var muts []mcMut
	var calls []mcCall
	// cache facts
	ctorCallee, ctorArgs, ctorLine := "", -1, 0
	type cuse struct {
		file, fn, method string
		line             int
	}
	var cacheUses []cuse
	var cacheAssigns []mcCall
	var dedupeDur []mcCall // callee field = source text of the duration argument
	durInit := map[string]string{}

	for _, p := range files {
		// package-level vars / consts
		for _, d := range p.f.Decls {
			gd, ok := d.(*ast.GenDecl)
			if !ok || (gd.Tok != token.VAR && gd.Tok != token.CONST) {
				continue
			}
			for _, sp := range gd.Specs {
				vs := sp.(*ast.ValueSpec)
				for i, n := range vs.Names {
					if i >= len(vs.Values) {
						continue
					}
					durInit[n.Name] = src(vs.Values[i])
					if n.Name == "cache" {
						ctorLine = line(vs.Values[i])
						if c, ok := vs.Values[i].(*ast.CallExpr); ok {
							ctorCallee, ctorArgs = src(c.Fun), len(c.Args)
						} else {
							ctorCallee, ctorArgs = src(vs.Values[i]), -1
						}
					}
				}
			}
		}
		for _, d := range p.f.Decls {
			fd, ok := d.(*ast.FuncDecl)
			if !ok || fd.Body == nil {
				continue
			}
			fn := fd.Name.Name
			// identifiers bound to a *pslice.PSlice inside this function
			ps := map[string]bool{}
			fields := []*ast.FieldList{fd.Type.Params, fd.Type.Results}
			localFns := map[string]bool{} // closures bound to a local: their bodies are part of this function
			ast.Inspect(fd.Body, func(n ast.Node) bool {
				if fl, ok := n.(*ast.FuncLit); ok {
					fields = append(fields, fl.Type.Params, fl.Type.Results)
				}
				if as, ok := n.(*ast.AssignStmt); ok && len(as.Lhs) == len(as.Rhs) {
					for i, r := range as.Rhs {
						if _, ok := r.(*ast.FuncLit); ok {
							if id, ok := as.Lhs[i].(*ast.Ident); ok {
								localFns[id.Name] = true
							}
						}
					}
				}
				return true
			})
			for _, fl := range fields {
				if fl == nil {
					continue
				}
				for _, f := range fl.List {
					if mcIsPSliceType(f.Type) {
						for _, n := range f.Names {
							ps[n.Name] = true
						}
					}
				}
			}
			isPS := func(e ast.Expr) bool {
				if _, ok := mcListField(e); ok {
					return true
				}
				if id, ok := e.(*ast.Ident); ok {
					return ps[id.Name]
				}
				if c, ok := e.(*ast.CallExpr); ok {
					return returnsPS[mcCalleeName(c)]
				}
				return false
			}
			for changed := true; changed; {
				changed = false
				ast.Inspect(fd.Body, func(n ast.Node) bool {
					as, ok := n.(*ast.AssignStmt)
					if !ok {
						return true
					}
					mark := func(l ast.Expr) {
						if id, ok := l.(*ast.Ident); ok && id.Name != "_" && !ps[id.Name] {
							ps[id.Name] = true
							changed = true
						}
					}
					if len(as.Lhs) == len(as.Rhs) {
						for i := range as.Lhs {
							if isPS(as.Rhs[i]) {
								mark(as.Lhs[i])
							}
						}
					} else if len(as.Rhs) == 1 && isPS(as.Rhs[0]) {
						for _, l := range as.Lhs {
							mark(l) // multi-value result of a function returning *pslice.PSlice: all of them, conservatively
						}
					}
					return true
				})
			}

			ast.Inspect(fd.Body, func(n ast.Node) bool {
				switch x := n.(type) {
				case *ast.CallExpr:
					callee := mcCalleeName(x)
					if sel, ok := x.Fun.(*ast.SelectorExpr); ok {
						if sel.Sel.Name == "Add" || sel.Sel.Name == "Remove" {
							kind := strings.ToLower(sel.Sel.Name)
							if f, ok := mcListField(sel.X); ok {
								muts = append(muts, mcMut{p.name, fn, f, kind, line(x)})
							} else if id, ok := sel.X.(*ast.Ident); ok && ps[id.Name] {
								muts = append(muts, mcMut{p.name, fn, id.Name, "indirect-" + kind, line(x)})
							} else if c, ok := sel.X.(*ast.CallExpr); ok && returnsPS[mcCalleeName(c)] {
								muts = append(muts, mcMut{p.name, fn, mcCalleeName(c) + "()", "indirect-" + kind, line(x)})
							}
						}
						if mcGroupOps[sel.Sel.Name] {
							calls = append(calls, mcCall{p.name, fn, sel.Sel.Name, line(x)})
						}
						if id, ok := sel.X.(*ast.Ident); ok && id.Name == "cache" {
							cacheUses = append(cacheUses, cuse{p.name, fn, sel.Sel.Name, line(x)})
						}
					}
					if callee == "cacheSetIfNotExist" && len(x.Args) == 2 {
						dedupeDur = append(dedupeDur, mcCall{p.name, fn, src(x.Args[1]), line(x)})
					}
					if _, isIdent := x.Fun.(*ast.Ident); !declared[callee] && !(isIdent && localFns[callee]) {
						for _, a := range x.Args {
							if f, ok := mcListField(a); ok {
								muts = append(muts, mcMut{p.name, fn, f, "escape", line(a)})
							} else if id, ok := a.(*ast.Ident); ok && ps[id.Name] {
								muts = append(muts, mcMut{p.name, fn, id.Name, "escape", line(a)})
							}
						}
					}
				case *ast.AssignStmt:
					for i, l := range x.Lhs {
						if f, ok := mcListField(l); ok {
							kind := "assign-other"
							if len(x.Lhs) == len(x.Rhs) && x.Tok == token.ASSIGN && mcIsPSliceNew(x.Rhs[i]) {
								kind = "assign-new"
							}
							muts = append(muts, mcMut{p.name, fn, f, kind, line(l)})
						}
						if id, ok := l.(*ast.Ident); ok && id.Name == "cache" && x.Tok == token.ASSIGN {
							cacheAssigns = append(cacheAssigns, mcCall{p.name, fn, "=", line(l)})
						}
					}
				case *ast.KeyValueExpr:
					if id, ok := x.Key.(*ast.Ident); ok && mcLists[id.Name] {
						kind := "init-other"
						if mcIsPSliceNew(x.Value) {
							kind = "init-new"
						}
						muts = append(muts, mcMut{p.name, fn, id.Name, kind, line(x)})
					}
				case *ast.UnaryExpr:
					if x.Op == token.AND {
						if f, ok := mcListField(x.X); ok {
							muts = append(muts, mcMut{p.name, fn, f, "escape", line(x)})
						}
						if id, ok := x.X.(*ast.Ident); ok && id.Name == "cache" {
							cacheAssigns = append(cacheAssigns, mcCall{p.name, fn, "&", line(x)})
						}
					}
				}
				return true
			})
		}
	}
	if ctorCallee == "" {
		return "", fmt.Errorf("pkg/multicast: package variable `cache` not found")
	}
	if len(muts) == 0 {
		return "", fmt.Errorf("pkg/multicast: no accesses to the group peer lists found")
	}

	q := strconv.Quote
	var sb strings.Builder
	sb.WriteString("-- GENERATED by harness/cmd/extract (multicast_facts.go) from /repo/pkg/multicast on every check run — do not edit\n")
	sb.WriteString("namespace Aurora.Generated.MulticastFacts\n\n")
	sb.WriteString("/-- a place that can change connectedPeers / keepPeers / knownPeers of a Group (kinds: see multicast_facts.go) -/\n")
	sb.WriteString("structure Mut where\n  file : String\n  fn : String\n  field : String\n  kind : String\n  line : Nat\nderiving Repr, DecidableEq\n\n")
	sb.WriteString("def mutations : List Mut := [")
	for i, m := range muts {
		if i > 0 {
			sb.WriteString(",")
		}
		fmt.Fprintf(&sb, "\n  ⟨%s, %s, %s, %s, %d⟩", q(m.file), q(m.fn), q(m.field), q(m.kind), m.line)
	}
	sb.WriteString("]\n\n/-- calls of Group.add / remove / pruneKnown: (file, function, callee, line) -/\n")
	sb.WriteString("def groupOpCalls : List (String × String × String × Nat) := [")
	for i, c := range calls {
		if i > 0 {
			sb.WriteString(",")
		}
		fmt.Fprintf(&sb, "\n  (%s, %s, %s, %d)", q(c.file), q(c.fn), q(c.callee), c.line)
	}
	sb.WriteString("]\n\n/-- initialiser of the package variable `cache`: callee and number of arguments (-1: not a call) -/\n")
	fmt.Fprintf(&sb, "def cacheCtor : String × Int := (%s, %d)\ndef cacheCtorLine : Nat := %d\n\n", q(ctorCallee), ctorArgs, ctorLine)
	sb.WriteString("/-- methods called on `cache`: (file, function, method, line) -/\n")
	sb.WriteString("def cacheUses : List (String × String × String × Nat) := [")
	for i, c := range cacheUses {
		if i > 0 {
			sb.WriteString(",")
		}
		fmt.Fprintf(&sb, "\n  (%s, %s, %s, %d)", q(c.file), q(c.fn), q(c.method), c.line)
	}
	sb.WriteString("]\n\n/-- re-assignments of `cache` / places its address is taken: (file, function, how, line) -/\n")
	sb.WriteString("def cacheRebinds : List (String × String × String × Nat) := [")
	for i, c := range cacheAssigns {
		if i > 0 {
			sb.WriteString(",")
		}
		fmt.Fprintf(&sb, "\n  (%s, %s, %s, %d)", q(c.file), q(c.fn), q(c.callee), c.line)
	}
	sb.WriteString("]\n\n/-- duration argument (source text) of every cacheSetIfNotExist call: (file, function, text, line) -/\n")
	sb.WriteString("def dedupeDurations : List (String × String × String × Nat) := [")
	for i, c := range dedupeDur {
		if i > 0 {
			sb.WriteString(",")
		}
		fmt.Fprintf(&sb, "\n  (%s, %s, %s, %d)", q(c.file), q(c.fn), q(c.callee), c.line)
	}
	sb.WriteString("]\n\n/-- initialiser (source text) of `multicastMsgCache` -/\n")
	fmt.Fprintf(&sb, "def multicastMsgCacheInit : String := %s\n", q(durInit["multicastMsgCache"]))
	sb.WriteString("\nend Aurora.Generated.MulticastFacts\n")
	return sb.String(), nil
}
