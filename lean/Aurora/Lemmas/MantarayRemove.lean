import Aurora.Lemmas.MantarayPrefix
/-! `Remove` on loaded tries: it succeeds whenever a node sits at the path, and it makes exactly the
    paths that extend the removed path unreachable (the whole fork goes). -/
namespace Aurora.Mantaray

theorem findFork_delFork_other (fs : List (Bytes × Node)) (k k' : UInt8) (hk : k' ≠ k) :
    findFork (delFork fs k) k' = findFork fs k' := by
  unfold findFork delFork
  induction fs with
  | nil => rfl
  | cons g rest ih =>
    by_cases hg : (g.1.head? == some k) = true
    · have hg' : (g.1.head? == some k') = false := by
        have : g.1.head? = some k := by simpa using hg
        rw [this]; simp; exact fun h => hk h.symm
      simp [List.filter_cons, hg, List.find?_cons, hg', ih]
    · simp only [List.filter_cons, hg, Bool.not_false, if_true, List.find?_cons, ih, Bool.false_eq_true]

theorem mem_delFork {fs : List (Bytes × Node)} {k : UInt8} {P : Bytes × Node → Prop}
    (hfs : ∀ pc ∈ fs, P pc) : ∀ pc ∈ delFork fs k, P pc :=
  fun pc hpc => hfs pc (List.mem_filter.mp hpc).1

/-- `Remove` on a loaded trie: result, loadedness, and the lookup law -/
theorem sem_remove :
    ∀ (fr : Nat) (n : Node) (p : Bytes), Mem n → p.length < fr → p ≠ [] →
      Mem (remove fr n p).1 ∧
      ((get fr n p).isSome → (remove fr n p).2 = RemoveRes.ok) ∧
      ((remove fr n p).2 = RemoveRes.ok → ∀ (fl : Nat) (q : Bytes), q.length < fl →
        sem fl (remove fr n p).1 q = if isPrefix p q then none else sem fl n q) ∧
      ((remove fr n p).2 ≠ RemoveRes.ok → (remove fr n p).1 = n) := by
  intro fr
  induction fr with
  | zero => intro n p _ h; omega
  | succ fr ih =>
    intro n p hm hfr hne
    cases p with
    | nil => exact absurd rfl hne
    | cons k t =>
      have hl := load_stable n (Or.inl hm.loaded)
      simp only [remove, hl, get]
      cases hff : findFork n.forks k with
      | none => exact ⟨hm, by simp, by simp, by simp⟩
      | some pc =>
        obtain ⟨pfx, child⟩ := pc
        have hh := findFork_some_head hff
        simp only at hh
        have hmc : Mem child := hm.child (findFork_mem hff)
        simp only
        by_cases hpre : isPrefix pfx (k :: t) = true
        · simp only [hpre, Bool.not_true, Bool.false_eq_true, if_false, if_true]
          obtain ⟨s, hs⟩ := (isPrefix_iff _ _).1 hpre
          have hdrop : (k :: t).drop pfx.length = s := by rw [hs, List.drop_left]
          have hppos : 0 < pfx.length := by
            cases pfx with
            | nil => simp at hh
            | cons a b => simp
          rw [hdrop]
          by_cases hse : s = []
          · -- the path ends at this fork: the fork is deleted
            subst hse
            rw [List.append_nil] at hs
            simp only [List.isEmpty_nil, if_true]
            refine ⟨hm.setForks _ (mem_delFork (P := fun pc => Mem pc.2) (fun pc hpc => hm.child hpc)), by simp, ?_, by simp⟩
            intro _ fl q hq
            cases fl with
            | zero => omega
            | succ f =>
              cases q with
              | nil => simp [sem_nil, semNode_setForks, isPrefix]
              | cons k' t' =>
                by_cases hk : k' = k
                · subst hk
                  rw [sem_cons, sem_cons, setForks_forks, findFork_delFork, hff]
                  simp only
                  rw [hs]
                  by_cases hq1 : isPrefix pfx (k' :: t') = true
                  · simp [hq1]
                  · simp [hq1]
                · rw [sem_cons, sem_cons, setForks_forks, findFork_delFork_other _ _ _ hk]
                  have : isPrefix (k :: t) (k' :: t') = false := by
                    simp [isPrefix]; intro e; exact absurd e.symm hk
                  simp [this]
          · have hie : s.isEmpty = false := by cases s <;> simp_all
            simp only [hie, Bool.false_eq_true, if_false]
            have hslen : s.length < fr := by
              have := congrArg List.length hs
              simp only [List.length_append, List.length_cons] at this hfr; omega
            obtain ⟨ih1, ih2, ih3, ih4⟩ := ih child s hmc hslen hse
            refine ⟨hm.setForks _ (mem_setFork (P := fun pc => Mem pc.2) (fun pc hpc => hm.child hpc) ih1), ih2, ?_, ?_⟩
            · intro hok fl q hq
              have law := ih3 hok
              cases fl with
              | zero => omega
              | succ f =>
                cases q with
                | nil => simp [sem_nil, semNode_setForks, isPrefix]
                | cons k' t' =>
                  by_cases hk : k' = k
                  · subst hk
                    rw [sem_setFork_same _ _ _ _ _ hh, sem_cons, hff]
                    simp only
                    rw [hs, isPrefix_append]
                    by_cases hq1 : isPrefix pfx (k' :: t') = true
                    · have hq' : ((k' :: t').drop pfx.length).length < f := by
                        simp only [List.length_drop, List.length_cons] at *; omega
                      simp only [hq1, if_true, Bool.true_and]
                      rw [law f _ hq']
                    · simp [hq1]
                  · rw [sem_setFork_other _ _ _ _ _ _ hh hk]
                    have : isPrefix (k :: t) (k' :: t') = false := by
                      simp [isPrefix]; intro e; exact absurd e.symm hk
                    simp [this]
            · intro hnok
              rw [ih4 hnok, setFork_self hff, setForks_self]
        · simp only [hpre, Bool.not_false, if_true, Bool.false_eq_true, if_false]
          exact ⟨hm, by simp, by simp, by simp⟩


/-! ## specification side -/

theorem find_erase (m : PathMap) (p q : Bytes) :
    (m.erase p).find q = if q = p then none else m.find q := by
  unfold PathMap.find PathMap.erase
  by_cases h : q = p
  · subst h
    have : List.find? (fun x => x.1 == q) (List.filter (fun x => !(x.1 == q)) m) = none := by
      rw [List.find?_eq_none]
      intro x hx
      have := (List.mem_filter.mp hx).2
      simpa using this
    simp [this]
  · rw [find?_erase_ne m p q h, if_neg h]

theorem find_some_mem (m : PathMap) (q : Bytes) (v : Bytes × Meta) (h : m.find q = some v) :
    ∃ x ∈ m, x.1 = q := by
  unfold PathMap.find at h
  cases hf : List.find? (fun x => x.1 == q) m with
  | none => simp [hf] at h
  | some x =>
    exact ⟨x, List.mem_of_find?_eq_some hf, by simpa using List.find?_some hf⟩

theorem get_isSome_of_sem {f : Nat} {n : Node} {q : Bytes} {v : Bytes × Meta} (h : sem f n q = some v) :
    (get f n q).isSome := by
  unfold sem at h
  cases hg : get f n q with
  | none => simp [hg] at h
  | some x => rfl

end Aurora.Mantaray
