import Aurora.Lemmas.Joiner
/-!
# C07 — File reads honour the reader contract

Model: `Model/Joiner.lean` (`ReadAt`, `readAtOffset`, `subtrieSection`, `Read`, `Seek`) — the code
after the repair `fix: joiner.ReadAt bounds the read by len(buffer), not cap(buffer)`.  A buffer is
`(len, mem)` with `mem` the backing array from the slice's start (`cap = mem.length ≥ len`).

The statements hold for every file tree `t` that is well formed (`Tree.WF`, the shape the writer
produces — `C01_upload_builds_tree`) of any height, stored in a chunk store that returns each of
its chunks (`Stored`), every chunk size `C ≥ 1`, reference length `R > 0` and branching
`B = C / R ≥ 2`, every offset, buffer length and capacity, and every recursion fuel ≥ height+1.
-/
namespace Aurora.Joiner
open Aurora.Bmt (Bytes)
open Aurora.Tree

variable (cref : Bytes → Bytes → Bytes) (get : Bytes → Except Err Bytes) (C B R : Nat)

/-- **ReadAt contract**: into a buffer of length `len` and capacity `mem.length ≥ len`, at any
    offset, `ReadAt` returns `n = min len (size - off)` bytes (`n ≤ len`), bytes `[0,n)` of the
    buffer equal `content[off, off+n)`, every byte from `n` up to the CAPACITY is untouched, the
    error is EOF iff `off ≥ size` (then `n = 0` and nothing is written), nil otherwise. -/
theorem C07_readAt_contract (h : Nat) (t : T) (S : Stored cref get C B R h t) (fuel : Nat) (hf : h + 1 ≤ fuel)
    (o len : Nat) (mem : Bytes) (off : Nat) (hcap : len ≤ mem.length) :
    let r := (jOf cref R t o).readAt get C fuel len mem off
    r.n = (if off ≥ t.size then 0 else min len (t.size - off)) ∧ r.n ≤ len ∧
    (r.err = some .eof ↔ off ≥ t.size) ∧ (r.err = none ↔ off < t.size) ∧
    r.mem.take r.n = (t.flat.drop off).take r.n ∧
    r.mem.drop r.n = mem.drop r.n ∧ r.mem.length = mem.length := by
  have hfl := (WF_flat_size C B (by have := S.b2; omega) h t S.wf).1
  simp only
  rw [readAt_spec cref get C B R h t S fuel hf o len mem off hcap]
  by_cases hoff : off ≥ t.size
  · simp only [hoff, ↓reduceIte]
    refine ⟨?_, ?_, ?_, ?_, ?_, ?_, ?_⟩ <;> first | trivial | rfl | (simp; done) | (simp; omega)
  · simp only [hoff, ↓reduceIte]
    have hlen : ((t.flat.drop off).take (min len (t.size - off))).length = min len (t.size - off) := by
      simp only [List.length_take, List.length_drop, hfl]; omega
    refine ⟨?_, ?_, ?_, ?_, ?_, ?_, ?_⟩
    · trivial
    · omega
    · simp
    · first | (simp; done) | (simp; omega)
    · simp only [splice, List.take_zero, List.nil_append, Nat.zero_add, hlen]
      rw [List.take_append_of_le_length (by rw [hlen]; omega), List.take_of_length_le (by rw [hlen]; omega)]
    · simp only [splice, List.take_zero, List.nil_append, Nat.zero_add, hlen]
      rw [List.drop_left' hlen]
    · exact splice_length _ _ _ (by rw [hlen]; omega)

/-- `Read(b)` = `ReadAt(b, off)` and the position advances by exactly the returned count -/
theorem read_spec (h : Nat) (t : T) (S : Stored cref get C B R h t) (fuel : Nat) (hf : h + 1 ≤ fuel)
    (o len : Nat) (mem : Bytes) (hcap : len ≤ mem.length) :
    (jOf cref R t o).read get C fuel len mem =
      (jOf cref R t (o + (if o ≥ t.size then 0 else min len (t.size - o))),
        (jOf cref R t o).readAt get C fuel len mem o) := by
  unfold J.read
  have hj : (jOf cref R t o).off = o := rfl
  rw [hj, readAt_spec cref get C B R h t S fuel hf o len mem o hcap]
  by_cases hoff : o ≥ t.size
  · simp [hoff, jOf]
  · simp [hoff, jOf]

/-- successive `Read`s: `(len, mem)` buffers in order; returns the joiner and the bytes returned, concatenated -/
def readMany (fuel : Nat) (j : J) : List (Nat × Bytes) → J × Bytes
  | [] => (j, [])
  | (len, mem) :: rest =>
    let (j1, r) := j.read get C fuel len mem
    let (j2, out) := readMany fuel j1 rest
    (j2, r.mem.take r.n ++ out)

/-- **Sequential reads neither skip nor repeat**: any sequence of `Read`s from position `o`
    returns, concatenated, exactly `content[o, o + Σ len)` cut at the end of the file, and leaves
    the position right behind the last byte returned. -/
theorem C07_read_no_skip_no_repeat (h : Nat) (t : T) (S : Stored cref get C B R h t) (fuel : Nat) (hf : h + 1 ≤ fuel)
    (bufs : List (Nat × Bytes)) (hcap : ∀ b ∈ bufs, b.1 ≤ b.2.length) : ∀ (o : Nat),
    (readMany get C fuel (jOf cref R t o) bufs).2 = (t.flat.drop o).take ((bufs.map Prod.fst).sum) ∧
    (readMany get C fuel (jOf cref R t o) bufs).1 =
      jOf cref R t (o + ((t.flat.drop o).take ((bufs.map Prod.fst).sum)).length) := by
  have hfl := (WF_flat_size C B (by have := S.b2; omega) h t S.wf).1
  induction bufs with
  | nil => intro o; simp [readMany]
  | cons b rest ih =>
    intro o
    obtain ⟨len, mem⟩ := b
    have hc : len ≤ mem.length := hcap (len, mem) (by simp)
    have ihr := ih (fun b hb => hcap b (by simp [hb]))
    have hread := C07_readAt_contract cref get C B R h t S fuel hf o len mem o hc
    simp only at hread
    obtain ⟨hn, _, heof, hnil, hcontent, _, _⟩ := hread
    simp only [readMany, read_spec cref get C B R h t S fuel hf o len mem hc]
    rw [← hn]
    generalize hr : (jOf cref R t o).readAt get C fuel len mem o = r at *
    have ih' := ihr (o + r.n)
    rw [ih'.1, ih'.2, hcontent]
    simp only [List.map_cons, List.sum_cons]
    -- list algebra on the content
    have key : (t.flat.drop o).take r.n ++ (t.flat.drop (o + r.n)).take ((rest.map Prod.fst).sum)
        = (t.flat.drop o).take (len + (rest.map Prod.fst).sum) := by
      by_cases hoff : o ≥ t.size
      · have e1 : t.flat.drop o = [] := List.drop_of_length_le (by omega)
        have e2 : t.flat.drop (o + r.n) = [] := List.drop_of_length_le (by omega)
        simp [e1, e2]
      · have hrn : r.n = min len (t.size - o) := by rw [hn]; simp [hoff]
        have hdl : (t.flat.drop o).length = t.size - o := by simp [hfl]
        by_cases hl : len ≤ t.size - o
        · have e : r.n = len := by omega
          rw [e, List.take_add, List.drop_drop]
        · have e : r.n = t.size - o := by omega
          have e2 : t.flat.drop (o + r.n) = [] := List.drop_of_length_le (by omega)
          rw [e2, List.take_of_length_le (by omega : (t.flat.drop o).length ≤ r.n),
            List.take_of_length_le (by omega : (t.flat.drop o).length ≤ len + (rest.map Prod.fst).sum)]
          simp
    refine ⟨key, ?_⟩
    rw [← key]
    simp only [List.length_append, jOf]
    have hl1 : ((t.flat.drop o).take r.n).length = r.n := by
      simp only [List.length_take, List.length_drop, hfl]
      by_cases hoff : o ≥ t.size
      · rw [hn]; simp [hoff]
      · rw [hn]; simp only [hoff, ↓reduceIte]; omega
    rw [hl1, Nat.add_assoc]

/-- reading on from the start until the lengths add up to the size returns the whole content -/
theorem C07_read_to_eof (h : Nat) (t : T) (S : Stored cref get C B R h t) (fuel : Nat) (hf : h + 1 ≤ fuel)
    (bufs : List (Nat × Bytes)) (hcap : ∀ b ∈ bufs, b.1 ≤ b.2.length) (hall : t.size ≤ (bufs.map Prod.fst).sum) :
    (readMany get C fuel (jOf cref R t 0) bufs).2 = t.flat := by
  have hfl := (WF_flat_size C B (by have := S.b2; omega) h t S.wf).1
  rw [(C07_read_no_skip_no_repeat cref get C B R h t S fuel hf bufs hcap 0).1]
  simp only [List.drop_zero]
  exact List.take_of_length_le (by omega)

/-- **Seek lands on the requested position or reports an error** — from the start (`whence 0`),
    the current position (`1`) or the end counted backwards (`2`, the project's definition
    `size - offset`): the result is `.pos p` exactly when that position `p` lies in `[0, size]`,
    then the joiner is positioned at `p`; otherwise an error is returned and the position is
    unchanged; any other `whence` is an error. -/
theorem C07_seek_lands (j : J) (offset whence : Int) :
    let target : Int := if whence = 0 then offset else if whence = 1 then offset + j.off else j.span - offset
    let r := j.seek offset whence
    ((whence = 0 ∨ whence = 1 ∨ whence = 2) ∧ 0 ≤ target ∧ target ≤ j.span →
        r.2 = .pos target.toNat ∧ r.1 = { j with off := target.toNat } ∧ (target.toNat : Int) = target) ∧
    (¬ ((whence = 0 ∨ whence = 1 ∨ whence = 2) ∧ 0 ≤ target ∧ target ≤ j.span) →
        r.1 = j ∧ (r.2 = .eof ∨ r.2 = .errWhence ∨ r.2 = .errOffset)) ∧
    (¬ (whence = 0 ∨ whence = 1 ∨ whence = 2) → r.2 = .errWhence) := by
  simp only [J.seek]
  by_cases h0 : whence = 0
  · subst h0
    simp only [true_or, true_and, ↓reduceIte]
    by_cases hneg : offset < 0
    · simp [hneg] <;> omega
    · by_cases hbig : offset > j.span
      · simp [hneg, hbig] <;> omega
      · simp [hneg, hbig] <;> omega
  · by_cases h1 : whence = 1
    · subst h1
      simp only [h0, ↓reduceIte, true_or, or_true, true_and]
      by_cases hneg : offset + j.off < 0
      · simp [hneg] <;> omega
      · by_cases hbig : offset + j.off > j.span
        · simp [hneg, hbig] <;> omega
        · simp [hneg, hbig] <;> omega
    · by_cases h2 : whence = 2
      · subst h2
        simp only [h0, h1, ↓reduceIte, or_true, true_and]
        by_cases hneg : (j.span : Int) - offset < 0
        · simp [hneg] <;> omega
        · by_cases hbig : (j.span : Int) - offset > j.span
          · simp [hneg, hbig] <;> omega
          · simp [hneg, hbig] <;> omega
      · simp [h0, h1, h2]

/-! Non-vacuity: `Stored` is satisfiable — a one-chunk file in a store holding that chunk, with a
    toy reference function of constant length 4, `C = 8`, `R = 4`, `B = 2`. -/
example : Stored (fun _ _ => [0, 0, 0, 0]) (fun _ => .ok (Aurora.Cac.le64 3 ++ [1, 2, 3])) 8 2 4 0 (.leaf [1, 2, 3]) where
  refLen := by intro _ _; rfl
  rpos := by decide
  branching := by decide
  b2 := by decide
  c1 := by decide
  wf := ⟨[1, 2, 3], rfl, by decide⟩
  small := by simp [T.size]
  holds := by
    intro x hx
    simp [T.chunks] at hx
    subst hx
    rfl

end Aurora.Joiner
