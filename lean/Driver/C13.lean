import Driver.Localstore
/-! Driver for C13: the shared localstore model driver (result + full index dump per op). -/
namespace Driver.C13
def handler : Driver.Handler := Driver.Localstore.handler false
end Driver.C13
