import Aurora.Lemmas.Handlers
/-!
# C37 — Malformed peer messages never crash the node

Property theorems about `Aurora/Model/Handlers.lean` (the hand model of every stream handler and
client read, tied to the Go code by `./check C37`).  For each handler `h`:
`C37_<h>_noPanic` — for every decoded message (every frame may also be undecodable = `none`), every
answer of the trusted-library oracles and every reachable local state, the handler body does not
reach a panic (and keeps the state invariant); `C37_<h>_later` — the local operations that later
read the state the message left do not panic either.  `…_counterexample` theorems show that the
handler bodies *before* the `fix:` commits do panic (so the model would have exposed the defects).
Partial by nature: the theorems speak about the model of the handlers, not about the protobuf /
JSON / multiaddr decoders, which are trusted and only fuzzed (DESIGN §8).
-/
namespace Aurora.Handlers

/-! ## handshake -/

/-- Listener (`Handle`): no Syn / Ack frame pair, however incomplete, panics the handler, and a
    successful handshake returns an `AddressInfo` whose later use (`IsFull`, `IsBootNode`) is safe. -/
theorem C37_hsHandle_noPanic (e : HsEnv) (syn : Option Syn) (ack : Option Ack) :
    ∃ o i, hsHandle e syn ack = .ok (o, i) ∧ (o = .ok → hsLater i = .ok ()) := by
  have err : ∀ i, ∃ o' i', (pure (Out.err, i) : M (Out × Option AddressInfo)) = .ok (o', i') ∧
      (o' = .ok → hsLater i' = .ok ()) := fun i => ⟨_, _, rfl, by intro h; cases h⟩
  unfold hsHandle
  repeat' split
  all_goals try exact err _
  rename_i ack hnone _ _ mode hm
  have hmode := bvFromBytes_some hm
  have hlen : 0 < mode.b.length := by rw [hmode.2.1]; omega
  obtain ⟨full, hfull⟩ := bvGet_ok mode 0 (by simpa using hlen)
  obtain ⟨boot, hboot⟩ := bvGet_ok mode 1 (by simpa using hlen)
  obtain ⟨a, ha⟩ : ∃ a, ack.address = some a := by
    cases h : ack.address with
    | none => simp [h] at hnone
    | some a => exact ⟨a, rfl⟩
  simp only [ha, deref, hfull, bind, Except.bind, pure, Except.pure]
  repeat' split
  all_goals try exact err _
  refine ⟨_, _, rfl, ?_⟩
  intro _
  simp only [hsLater, deref, hfull, hboot, bind, Except.bind, pure, Except.pure]
/-- Before fix d9382ea an Ack without Address made the listener dereference nil. -/
theorem C37_hsHandle_counterexample (e : HsEnv) (h : e.maOk [] = true) :
    hsHandleOld e (some ⟨[]⟩) (some ⟨none, e.networkID, [1], 0⟩) = .error .nilDeref := by
  simp [hsHandleOld, h, modeFromBytes, bvFromBytes, deref, bind, Except.bind, throw, throwThe, MonadExceptOf.throw]


/-- Dialer (`Handshake`): no SynAck, however incomplete, panics the client read; the returned info is safe to use. -/
theorem C37_hsDial_noPanic (e : HsEnv) (resp : Option SynAck) :
    ∃ o i, hsDial e resp = .ok (o, i) ∧ (o = .ok → hsLater i = .ok ()) := by
  have err : ∀ i, ∃ o' i', (pure (Out.err, i) : M (Out × Option AddressInfo)) = .ok (o', i') ∧
      (o' = .ok → hsLater i' = .ok ()) := fun i => ⟨_, _, rfl, by intro h; cases h⟩
  unfold hsDial
  repeat' split
  all_goals try exact err _
  rename_i resp hsyn hack
  obtain ⟨syn, ack⟩ := resp
  cases syn with
  | none => simp at hsyn
  | some syn =>
    cases ack with
    | none => simp at hack
    | some ack =>
      obtain ⟨addr, nid, mode, wl⟩ := ack
      cases addr with
      | none => simp at hack
      | some a =>
        simp only [deref, bind, Except.bind, pure, Except.pure]
        repeat' split
        all_goals try exact err _
        rename_i m hm
        refine ⟨_, _, rfl, ?_⟩
        intro _
        have hmode := bvFromBytes_some hm
        have hlen : 0 < m.b.length := by rw [hmode.2.1]; omega
        obtain ⟨full, hfull⟩ := bvGet_ok m 0 (by simpa using hlen)
        obtain ⟨boot, hboot⟩ := bvGet_ok m 1 (by simpa using hlen)
        simp only [hsLater, deref, hfull, hboot, bind, Except.bind, pure, Except.pure]

/-- Before fix e8611f0 an empty SynAck made the dialer dereference nil. -/
theorem C37_hsDial_counterexample (e : HsEnv) : hsDialOld e (some ⟨none, none⟩) = .error .nilDeref := rfl

/-! ## hive2 -/

/-- `onFindNode`: any target length, any limit, any position list. -/
theorem C37_hiveFindNode_noPanic (peers : List Bytes) (req : Option FindNodeReq) :
    NoPanic (hiveFindNode peers req) := by
  unfold hiveFindNode
  cases req with
  | none => exact ⟨_, rfl⟩
  | some req =>
    simp only [bind, Except.bind, pure, Except.pure]
    rw [each_ok]
    · exact ⟨_, rfl⟩
    · intro p _
      obtain ⟨r, hr⟩ := proximity_ok req.target p
      simp only [hr]

/-- `DoFindNode` + `checkAndAddPeers`, and the find-node request that later reads the entries it made. -/
theorem C37_hiveDoFind_noPanic (maOk : Bytes → Bool) (reply : Option (List AuroraAddress)) (peers : List Bytes) :
    NoPanic (hiveDoFind maOk reply) ∧ NoPanic (hiveFindNode peers (some ⟨[], [], 30⟩)) := by
  refine ⟨?_, C37_hiveFindNode_noPanic _ _⟩
  unfold hiveDoFind
  cases reply <;> exact ⟨_, rfl⟩

/-! ## retrieval, pingpong -/

theorem C37_retHandler_noPanic (req : Option RequestChunk) (inStore targetSelf : Bool) :
    NoPanic (retHandler req inStore targetSelf) := by
  unfold retHandler
  cases req <;> cases inStore <;> cases targetSelf <;> exact ⟨_, rfl⟩

theorem C37_retRetrieve_noPanic (delivery : Option Bytes) (valid : Bool) :
    NoPanic (retRetrieve delivery valid) := by
  unfold retRetrieve
  cases delivery <;> cases valid <;> exact ⟨_, rfl⟩

theorem C37_ping_noPanic (n : Nat) (b : Bool) : NoPanic (pingHandler n b) ∧ NoPanic (pingClient b) :=
  ⟨⟨_, rfl⟩, ⟨_, rfl⟩⟩

/-! ## multicast -/

theorem C37_mcSimple_noPanic (gids : Option (List Bytes)) (n : Option (Int × List Bytes)) (d : Bool)
    (f : Option (Bytes × Int × Int)) (a : Bool) (r : Option Nat) :
    NoPanic (mcHandshake gids) ∧ NoPanic (mcNotify n) ∧ NoPanic (mcMulticast d) ∧ NoPanic (mcFindGroup f a) ∧ NoPanic (mcSend r) :=
  ⟨⟨_, rfl⟩, ⟨_, rfl⟩, ⟨_, rfl⟩, ⟨_, rfl⟩, ⟨_, rfl⟩⟩

/-- `onMessage` with the session reader decoding into a `GroupMsg` (fix 59b36d3): whatever follows the first frame. -/
theorem C37_mcMessage_noPanic (decoded extra : Bool) : NoPanic (mcMessage decoded (some ()) extra) := by
  unfold mcMessage
  cases decoded <;> cases extra <;> exact ⟨_, rfl⟩

/-- Before the fix the session reader's target was a nil message: one more frame crashed the node. -/
theorem C37_mcMessage_counterexample : mcMessage true none true = .error .nilDeref := rfl

/-! ## routetab -/

/-- every stored path has at least two items (so `Items[len-1]` exists) -/
def RtWF (st : RtState) : Prop := ∀ p ∈ st.paths, 2 ≤ p.length

theorem rtWF_init : RtWF RtState.init := by intro p hp; cases hp

theorem savePath_ok (st : RtState) (p : Path) (h : RtWF st) : ∃ st', savePath st p = .ok st' ∧ RtWF st' := by
  unfold savePath
  by_cases hl : p.items.length < 2
  · simp only [hl, if_true]; exact ⟨_, rfl, h⟩
  · simp only [hl, if_false]
    rw [idx_ok p.items (p.items.length - 1) (by omega)]
    simp only [bind, Except.bind, pure, Except.pure]
    refine ⟨_, rfl, ?_⟩
    intro q hq
    simp only [List.mem_cons, List.mem_filter] at hq
    rcases hq with rfl | ⟨hq, _⟩
    · omega
    · exact h q hq

theorem savePaths_ok (ps : List Path) : ∀ st, RtWF st → ∃ st', savePaths st ps = .ok st' ∧ RtWF st' := by
  induction ps with
  | nil => intro st h; exact ⟨_, rfl, h⟩
  | cons p ps ih =>
    intro st h
    obtain ⟨st1, h1, w1⟩ := savePath_ok st p h
    obtain ⟨st2, h2, w2⟩ := ih st1 w1
    exact ⟨st2, by simp only [savePaths, h1, h2, bind, Except.bind], w2⟩

/-- `onRouteReq`: any path list (empty paths, one-item paths, over-long paths, paths through this node). -/
theorem C37_rtReq_noPanic (st : RtState) (self : Bytes) (req : Option RouteReq) (h : RtWF st) :
    ∃ o st', rtReq st self req = .ok (o, st') ∧ RtWF st' := by
  unfold rtReq
  cases req with
  | none => exact ⟨_, _, rfl, h⟩
  | some r =>
    simp only
    split
    · exact ⟨_, _, rfl, h⟩
    · obtain ⟨st', h1, w1⟩ := savePaths_ok r.paths st h
      simp only [h1, bind, Except.bind, pure, Except.pure]
      exact ⟨_, _, rfl, w1⟩

/-- `onRouteResp` -/
theorem C37_rtResp_noPanic (st : RtState) (self : Bytes) (resp : Option RouteResp) (h : RtWF st) :
    ∃ o st', rtResp st self resp = .ok (o, st') ∧ RtWF st' := by
  unfold rtResp
  cases resp with
  | none => exact ⟨_, _, rfl, h⟩
  | some r =>
    simp only
    split
    · exact ⟨_, _, rfl, h⟩
    · split
      · exact ⟨_, _, rfl, h⟩
      · obtain ⟨st', h1, w1⟩ := savePaths_ok (r.paths.filter (fun p => p.items.length ≤ maxTTL)) st h
        simp only [h1, bind, Except.bind, pure, Except.pure]
        exact ⟨_, _, rfl, w1⟩

/-- later use of stored routes (`getClosestNeighborLimit` reads `Items[len-1]`) in every reachable table -/
theorem C37_rtLater_noPanic (st : RtState) (h : RtWF st) : rtLater st = .ok () := by
  unfold rtLater
  apply each_ok
  intro items hi
  have := h items hi
  rw [idx_ok items (items.length - 1) (by omega)]
  rfl

theorem C37_rtOther_noPanic (r : Option Bytes) (b : Bool) (u : Option UnderlayResp) (q : Option RelayReq) (b1 b2 b3 b4 : Bool) :
    NoPanic (rtFindUnderlay r b) ∧ NoPanic (rtDoFindUnderlay u b) ∧ NoPanic (rtRelay q b1 b2 b3 b4) ∧ NoPanic (rtConnChain q b1 b2 b3 b4) := by
  refine ⟨⟨_, rfl⟩, ⟨_, rfl⟩, ?_, ?_⟩
  · unfold rtRelay
    cases q with
    | none => exact ⟨_, rfl⟩
    | some r => simp only; repeat' split
                all_goals exact ⟨_, rfl⟩
  · unfold rtConnChain
    cases q with
    | none => exact ⟨_, rfl⟩
    | some r => simp only; repeat' split
                all_goals exact ⟨_, rfl⟩

/-! ## trafficprotocol -/

/-- the `*big.Int`s that the balance queries subtract are never nil -/
def PeerOk (p : PeerTraffic) : Prop :=
  p.transferCheque.isSome ∧ ∀ c, p.lastReceived = some c → c.payout.isSome

def TrWF (st : TrState) : Prop := ∀ p ∈ st.peers, PeerOk p

theorem trWF_init (self : Bytes) (book : List (Bytes × Bytes)) : TrWF ⟨self, book, []⟩ := by
  intro p hp; cases hp

theorem trStore_wf {st : TrState} {p : PeerTraffic} (h : TrWF st) (hp : PeerOk p) : TrWF (trStore st p) := by
  intro q hq
  simp only [trStore, List.mem_cons, List.mem_filter] at hq
  rcases hq with rfl | ⟨hq, _⟩
  · exact hp
  · exact h q hq

theorem trLookup_wf {st : TrState} {k : Bytes} {p : PeerTraffic} (h : TrWF st) (hl : trLookup st k = some p) : PeerOk p :=
  h p (List.mem_of_find?_eq_some hl)

theorem recover_payout {e : TrEnv} {c : Cheque} {i : Bytes} (h : e.recover c = some i) : ∃ pay, c.payout = some pay := by
  unfold TrEnv.recover at h
  cases hp : c.payout with
  | none => simp [hp] at h
  | some pay => exact ⟨pay, rfl⟩

theorem counterOf_some {st : TrState} (h : TrWF st) (k : Bytes) : (counterOf st k).isSome := by
  unfold counterOf
  cases hl : trLookup st k with
  | none => rfl
  | some p => exact (trLookup_wf h hl).1

theorem storeTwo_wf {st : TrState} (h : TrWF st) (ch : Cheque) (chain : Bytes) (pay : Int) (hpay : ch.payout = some pay) :
    TrWF (trStore (trStore st ⟨ch.beneficiary, counterOf st ch.beneficiary, some ch⟩)
      ⟨chain, some pay, (trLookup (trStore st ⟨ch.beneficiary, counterOf st ch.beneficiary, some ch⟩) chain).bind (·.lastReceived)⟩) := by
  have w1 : TrWF (trStore st ⟨ch.beneficiary, counterOf st ch.beneficiary, some ch⟩) := by
    apply trStore_wf h
    refine ⟨counterOf_some h _, ?_⟩
    intro c hc
    cases hc
    simp [hpay]
  apply trStore_wf w1
  refine ⟨rfl, ?_⟩
  intro c hc
  cases hl : trLookup (trStore st ⟨ch.beneficiary, counterOf st ch.beneficiary, some ch⟩) chain with
  | none => simp [hl] at hc
  | some p =>
    simp only [hl, Option.bind_some] at hc
    exact (trLookup_wf w1 hl).2 c hc

theorem receiveCheque_ok (e : TrEnv) (st : TrState) (peer : Bytes) (ch : Cheque) (h : TrWF st) :
    ∃ o st', receiveCheque e st peer (some ch) = .ok (o, st') ∧ TrWF st' := by
  unfold receiveCheque
  split
  · exact ⟨_, _, rfl, h⟩
  · simp only [deref, bind, Except.bind, pure, Except.pure]
    split
    · exact ⟨_, _, rfl, h⟩
    · split
      · exact ⟨_, _, rfl, h⟩
      · split
        · exact ⟨_, _, rfl, h⟩
        · rename_i issuer hrec
          obtain ⟨pay, hpay⟩ := recover_payout hrec
          simp only [hpay]
          repeat' split
          all_goals try exact ⟨_, _, rfl, h⟩
          all_goals exact ⟨_, _, rfl, storeTwo_wf h ch _ pay hpay⟩

/-- `trafficprotocol.handler`: undecodable frame, bad JSON, `null`, cheques with missing fields, foreign
    or replayed cheques — no panic, and the stored counters stay non-nil. -/
theorem C37_trHandler_noPanic (e : TrEnv) (st : TrState) (peer : Bytes) (m : Option EmitCheque) (h : TrWF st) :
    ∃ o st', trHandler e st peer m = .ok (o, st') ∧ TrWF st' := by
  unfold trHandler
  repeat' split
  all_goals try exact ⟨_, _, rfl, h⟩
  exact receiveCheque_ok e st peer _ h

/-- Before fix 31e7181 the cheque JSON `null` from a registered peer made `ReceiveCheque` dereference nil. -/
theorem C37_trHandler_counterexample (e : TrEnv) (peer chain self : Bytes) :
    trHandlerOld e ⟨self, [(peer, chain)], []⟩ peer (some ⟨[], .null⟩) = .error .nilDeref := by
  simp [trHandlerOld, receiveCheque, List.lookup, deref, bind, Except.bind, throw, throwThe, MonadExceptOf.throw]

theorem trHandshake2_ok (e : TrEnv) (st : TrState) (c : Cheque) : ∃ o, trHandshake2 e st c = .ok (o, st) := by
  unfold trHandshake2
  split
  · exact ⟨_, rfl⟩
  · split
    · exact ⟨_, rfl⟩
    · split
      · exact ⟨_, rfl⟩
      · rename_i user hrec _
        obtain ⟨pay, hpay⟩ := recover_payout hrec
        simp only [hpay, deref, bind, Except.bind, pure, Except.pure]
        exact ⟨_, rfl⟩

/-- `initHandler` (`logErr = true`) and `init` (`logErr = false`): the peer's cheque is a value here, so
    `null` is the zero cheque; the stored counters are untouched. -/
theorem C37_trInit_noPanic (e : TrEnv) (st : TrState) (peer : Bytes) (m : Option EmitCheque) (logErr : Bool) (h : TrWF st) :
    ∃ o st', trInit e st peer m logErr = .ok (o, st') ∧ TrWF st' := by
  have hs : ∀ c r, ∃ o st', trHandshake e st peer r c = .ok (o, st') ∧ st'.peers = st.peers := by
    intro c r
    unfold trHandshake
    split
    · split
      · exact ⟨_, _, rfl, rfl⟩
      · obtain ⟨o, ho⟩ := trHandshake2_ok e { st with book := (peer, r) :: st.book } c
        exact ⟨_, _, ho, rfl⟩
    · split
      · exact ⟨_, _, rfl, rfl⟩
      · obtain ⟨o, ho⟩ := trHandshake2_ok e st c
        exact ⟨_, _, ho, rfl⟩
  unfold trInit
  cases m with
  | none => exact ⟨_, _, rfl, h⟩
  | some m =>
    simp only
    split
    · exact ⟨_, _, rfl, h⟩
    · rename_i c _
      obtain ⟨o, st', h1, h2⟩ := hs c (toAddr20 m.address)
      have w : TrWF st' := by intro p hp; rw [h2] at hp; exact h p hp
      simp only [h1, bind, Except.bind, pure, Except.pure]
      cases logErr <;> exact ⟨_, _, rfl, w⟩

/-- later local use (`TrafficCheques`, `TrafficInfo`, balances, the next init exchange) in every reachable state -/
theorem C37_trLater_noPanic (st : TrState) (h : TrWF st) : trLater st = .ok () := by
  unfold trLater
  apply each_ok
  intro p hp
  obtain ⟨h1, h2⟩ := h p hp
  cases ht : p.transferCheque with
  | none => simp [ht] at h1
  | some t =>
    simp only [deref, bind, Except.bind, pure, Except.pure]
    cases hl : p.lastReceived with
    | none => rfl
    | some c =>
      have := h2 c hl
      cases hp : c.payout with
      | none => simp [hp] at this
      | some v => simp only [hp]

/-! ## chunkinfo -/

/-- a stored presence vector is a real vector of the file's chunk count with enough backing bytes -/
def EntryOk (files : List (Bytes × Nat)) (e : (Bytes × Bytes) × Option BV) : Prop :=
  ∃ bv n, e.2 = some bv ∧ files.lookup e.1.1 = some n ∧ 1 ≤ n ∧ bv.len = n ∧ n ≤ bv.b.length * 8

def CiWF (st : CiState) : Prop := ∀ e ∈ st.disc, EntryOk st.files e

theorem ciWF_init : CiWF CiState.init := by intro e he; cases he

theorem mem_of_lookup {α β : Type} [BEq α] [LawfulBEq α] {k : α} {v : β} :
    ∀ {l : List (α × β)}, l.lookup k = some v → (k, v) ∈ l := by
  intro l
  induction l with
  | nil => intro h; cases h
  | cons a r ih =>
    intro h
    obtain ⟨a1, a2⟩ := a
    simp only [List.lookup] at h
    split at h
    · rename_i heq
      cases h
      have : k = a1 := by simpa using heq
      subst this
      simp
    · exact List.mem_cons_of_mem _ (ih h)

theorem discSet_wf {st : CiState} {k : Bytes × Bytes} {v : Option BV} (h : CiWF st) (hv : EntryOk st.files (k, v)) :
    CiWF (discSet st k v) := by
  intro e he
  simp only [discSet, List.mem_cons, List.mem_filter] at he
  rcases he with rfl | ⟨he, _⟩
  · exact hv
  · exact h e he

/-- `updateChunkInfo` with peer-supplied presence bytes of any length (fix 89b64e8) -/
theorem updateChunkInfo_ok (st : CiState) (root overlay bv : Bytes) (h : CiWF st) :
    ∃ st', updateChunkInfo st root overlay bv = .ok st' ∧ CiWF st' ∧ st'.files = st.files ∧
      st'.queues = st.queues ∧ st'.pending = st.pending := by
  unfold updateChunkInfo
  split
  · -- no vector yet
    dsimp only
    split
    · exact ⟨_, rfl, h, rfl, rfl, rfl⟩
    · rename_i hv
      split
      · exact ⟨_, rfl, h, rfl, rfl, rfl⟩
      · rename_i bit hb
        obtain ⟨h1, h2, h3, h4⟩ := bvFromBytes_some hb
        refine ⟨_, rfl, discSet_wf h ?_, rfl, rfl, rfl⟩
        refine ⟨bit, chunkSize st root, rfl, ?_, h3, h1, by rw [h2]; exact h4⟩
        unfold chunkSize at hv ⊢
        cases hl : st.files.lookup root with
        | none => simp [hl] at hv
        | some n => simp
  · rename_i ptr hl
    obtain ⟨cur, n, h1, h2, h3, h4, h5⟩ := h _ (mem_of_lookup hl)
    simp only at h1
    subst h1
    simp only [deref, bind, Except.bind, pure, Except.pure]
    rcases bvSetBytes_ok cur bv with ⟨_, e⟩ | ⟨_, nv, e, g1, g2⟩
    · rw [e]
      exact ⟨_, rfl, h, rfl, rfl, rfl⟩
    · rw [e]
      refine ⟨_, rfl, discSet_wf h ⟨nv, n, rfl, h2, h3, by rw [g1]; exact h4, by rw [g2]; exact h5⟩, rfl, rfl, rfl⟩

/-- The stored-vector branch of `updateChunkInfo`, one clause per length relation: a second
    `ChunkInfoResp` for a `(rootCid, overlay)` whose vector is already stored is merged by
    `SetBytes`, which rejects every length other than the stored one — **shorter, longer (by one byte
    or by many) and empty** presence bytes leave the state exactly as it was (the error is only
    logged) — and for the **equal** length runs the bit loop inside both slices and stores a vector
    with the same `len` and the same number of bytes.  No case panics (no hypothesis on the state
    beyond "the stored pointer is not nil", which `CiWF` gives). -/
theorem C37_updateChunkInfo_stored (st : CiState) (root overlay bv : Bytes) (cur : BV)
    (hl : st.disc.lookup (root, overlay) = some (some cur)) :
    (bv.length ≠ cur.b.length → updateChunkInfo st root overlay bv = .ok st) ∧
    (bv.length = cur.b.length → ∃ n, updateChunkInfo st root overlay bv = .ok (discSet st (root, overlay) (some n)) ∧
      n.len = cur.len ∧ n.b.length = cur.b.length) := by
  unfold updateChunkInfo
  simp only [hl, deref, bind, Except.bind, pure, Except.pure]
  rcases bvSetBytes_ok cur bv with ⟨hne, e⟩ | ⟨heq, nv, e, g1, g2⟩
  · rw [e]
    exact ⟨fun _ => rfl, fun h => absurd h hne⟩
  · rw [e]
    exact ⟨fun h => absurd heq h, fun _ => ⟨nv, rfl, g1, g2⟩⟩

/-- the length check of `SetBytes` is what keeps the merge inside the slices: its bit loop, run without
    the check on presence bytes SHORTER than the stored ones, indexes past the argument … -/
theorem C37_setBytesLoop_unchecked_counterexample :
    bvSetLoop [1] (2 * 8) 0 ⟨9, [255, 1]⟩ = .error .outOfRange := by rfl

/-- `for i := range bv { known[i] |= bv[i] }` — a byte-wise merge over the ARGUMENT's length, without
    the length check (not the code that exists: the shape of a plausible "optimisation" of `SetBytes`) -/
def bvOrLoopUnchecked : Bytes → Nat → BV → M BV
  | [], _, v => pure v
  | y :: r, i, v => do
    let x ← idx v.b i
    bvOrLoopUnchecked r (i + 1) { v with b := v.b.set i (x ||| y) }

/-- … and a byte-wise merge without the check indexes past the stored bytes when the peer's vector is
    LONGER than the stored one (stored `{0x0f,0x00}`, then `{0xff,0x07,0x01}`: index out of range [2]
    with length 2 — in the worker goroutine, so the process would die). -/
theorem C37_mergeUnchecked_longer_counterexample :
    bvOrLoopUnchecked [255, 7, 1] 0 ⟨11, [15, 0]⟩ = .error .outOfRange := by rfl

/-- Before fix 89b64e8: presence bytes shorter than the file's chunk count left a nil vector that the
    next statement dereferenced (in the worker goroutine: the process died). -/
theorem C37_updateChunkInfo_counterexample (root ov : Bytes) :
    updateChunkInfoOld ⟨[(root, 20)], [], [], []⟩ root ov [1] = .error .nilDeref := by
  simp [updateChunkInfoOld, chunkSize, List.lookup, bvFromBytes, deref, bind, Except.bind, throw, throwThe, MonadExceptOf.throw]

theorem pushKeys_ok (isSelf : Bytes → Bool) : ∀ (l : List (Bytes × Bytes)) (q : Queue), ∃ q', pushKeys false isSelf l q = .ok q' := by
  intro l
  induction l with
  | nil => intro q; exact ⟨_, rfl⟩
  | cons a r ih =>
    intro q
    obtain ⟨k, v⟩ := a
    unfold pushKeys
    repeat' split
    all_goals first | exact ih _ | exact ⟨_, rfl⟩ | (rename_i hf; cases hf)

/-- Before fix 7d81ec0 a presence key that is not a hex address made `MustParseHexAddress` panic. -/
theorem C37_pushKeys_counterexample (isSelf : Bytes → Bool) (q : Queue) :
    pushKeys true isSelf [([122, 122], [1])] q = .error .mustParse := by
  simp [pushKeys, parseHex, hexVal, throw, throwThe, MonadExceptOf.throw]

theorem popN_ok : ∀ (n : Nat) (q : Queue), n ≤ q.unPull.length → ∃ q', popN n q = .ok q' := by
  intro n
  induction n with
  | zero => intro q _; exact ⟨_, rfl⟩
  | succ n ih =>
    intro q hn
    unfold popN
    rw [idx_ok q.unPull 0 (by omega)]
    simp only [bind, Except.bind]
    apply ih
    simp only [List.length_drop]
    omega

theorem queueProcess_ok (q : Queue) (b : Bool) : ∃ q', queueProcess q b = .ok q' := by
  unfold queueProcess
  repeat' split
  all_goals try exact ⟨_, rfl⟩
  apply popN_ok
  exact Nat.min_le_right _ _

theorem updateQueueTail_ok (isSelf : Bytes → Bool) (st : CiState) (r : ChunkInfoResp) (h : CiWF st) :
    ∃ o st', updateQueueTail false isSelf st r = .ok (o, st') ∧ CiWF st' := by
  unfold updateQueueTail
  split
  · exact ⟨_, _, rfl, h⟩
  · rename_i q _
    obtain ⟨q1, hq1⟩ := pushKeys_ok isSelf r.presence q
    obtain ⟨q2, hq2⟩ := queueProcess_ok { q1 with pulling := q1.pulling.filter (· != r.target), pulled := q1.pulled ++ [r.target] } (st.pending.contains r.root)
    simp only [hq1, hq2, bind, Except.bind, pure, Except.pure]
    exact ⟨_, _, rfl, h⟩

/-- `handlerChunkInfoResp` → `updateQueue` (after both repairs): any presence map — missing, empty, short,
    long or inconsistent values, keys that are not hex, keys naming this node — leaves a good state. -/
theorem C37_ciResp_noPanic (st : CiState) (resp : Option ChunkInfoResp) (reqIsSelf : Bool) (targetKey : Bytes)
    (isSelf : Bytes → Bool) (h : CiWF st) :
    ∃ o st', ciRespNew st resp reqIsSelf targetKey isSelf = .ok (o, st') ∧ CiWF st' := by
  unfold ciRespNew ciResp
  cases resp with
  | none => exact ⟨_, _, rfl, h⟩
  | some r =>
    cases reqIsSelf with
    | false => exact ⟨_, _, rfl, h⟩
    | true =>
      simp only [Bool.not_true, Bool.false_eq_true, if_false]
      split
      · rename_i v _
        obtain ⟨st1, e1, w1, _⟩ := updateChunkInfo_ok st r.root r.target v h
        simp only [e1, bind, Except.bind]
        exact updateQueueTail_ok isSelf st1 r w1
      · exact updateQueueTail_ok isSelf st r h

/-- later local use in every reachable state: `GetChunkInfo(root, cid)` (bit `s` of every stored vector),
    `GetChunkInfoDiscoverOverlays`, and the reload of the persisted vectors after a restart. -/
theorem C37_ciLater_noPanic (st : CiState) (root : Bytes) (s : Nat) (h : CiWF st) : ciLater st root s = .ok () := by
  unfold ciLater
  apply each_ok
  intro e he
  obtain ⟨bv, n, h1, h2, h3, h4, h5⟩ := h e he
  split
  · rename_i heq
    have hr : e.1.1 = root := by simpa using heq
    have hn : chunkSize st root = n := by unfold chunkSize; rw [← hr, h2]; rfl
    rw [h1, hn]
    have hs : (if s < n then s else 0) / 8 < bv.b.length := by
      split <;> omega
    obtain ⟨r, hr'⟩ := bvGet_ok bv _ hs
    have hre : bvFromBytes bv.b bv.len = some ⟨bv.len, bv.b⟩ := bvFromBytes_ok (by omega) (by omega)
    simp only [deref, hr', hre, bind, Except.bind, pure, Except.pure]
  · rfl

theorem lookup_cons_ne {k a : Bytes} {n : Nat} {l : List (Bytes × Nat)} (h : k ≠ a) :
    List.lookup k ((a, n) :: l) = List.lookup k l := by
  have : (k == a) = false := by simpa using h
  simp [List.lookup, this]

/-- set-up steps and the pyramid exchange keep the invariant (a file's chunk count never changes) -/
theorem ciFile_wf (st : CiState) (root : Bytes) (n : Nat) (h : CiWF st) : CiWF (ciFile st root n) := by
  unfold ciFile
  split
  · exact h
  · rename_i hc
    intro e he
    obtain ⟨bv, m, h1, h2, h3, h4, h5⟩ := h e he
    refine ⟨bv, m, h1, ?_, h3, h4, h5⟩
    have hne : e.1.1 ≠ root := by
      intro heq
      rw [heq] at h2
      simp [h2] at hc
    show List.lookup e.1.1 ((root, n) :: st.files) = some m
    rw [lookup_cons_ne hne]
    exact h2

theorem C37_ciFind_noPanic (st : CiState) (root : Bytes) (ovs : List Bytes) (h : CiWF st) :
    ∃ st', ciFind st root ovs = .ok st' ∧ CiWF st' := by
  unfold ciFind
  split
  · exact ⟨_, rfl, h⟩
  · simp only
    obtain ⟨q, hq⟩ := queueProcess_ok (ovs.foldl (fun q o => if inQueue q o then q else { q with unPull := q.unPull ++ [o] }) ((st.queues.lookup root).getD ⟨[], [], []⟩)) true
    simp only [hq, bind, Except.bind, pure, Except.pure]
    exact ⟨_, rfl, h⟩

/-- `handlerPyramid` and the pyramid client read it forwards to -/
theorem C37_ciPyramid_noPanic (st : CiState) (req : Option (Bytes × Bytes)) (l hv t : Bool) (acc : Option Nat) (h : CiWF st) :
    ∃ o st', ciPyramid st req l hv t acc = .ok (o, st') ∧ CiWF st' := by
  unfold ciPyramid
  repeat' split
  all_goals first | exact ⟨_, _, rfl, h⟩ | exact ⟨_, _, rfl, ciFile_wf _ _ _ h⟩

theorem C37_ciReq_noPanic (req : Option (Bytes × Bytes × Bytes)) : NoPanic (ciReq req) := ⟨_, rfl⟩

/-! ## non-vacuity: the invariants hold initially, and a state with a stored vector satisfies them -/

example : CiWF CiState.init ∧ RtWF RtState.init ∧ TrWF ⟨[], [], []⟩ := ⟨ciWF_init, rtWF_init, trWF_init _ _⟩

example : CiWF ⟨[([1], 9)], [(([1], [2]), some ⟨9, [255, 1]⟩)], [], []⟩ := by
  intro e he
  simp only [List.mem_singleton] at he
  subst he
  exact ⟨⟨9, [255, 1]⟩, 9, rfl, by simp [List.lookup], by omega, rfl, by simp⟩

/-- the stored-vector clauses are about existing states: a stored 9-bit vector of 2 bytes, then equal /
    longer / shorter / empty presence bytes -/
example : ∃ cur, (⟨[([1], 9)], [(([1], [2]), some ⟨9, [255, 1]⟩)], [], []⟩ : CiState).disc.lookup ([1], [2]) = some (some cur) ∧
    ([0, 1] : Bytes).length = cur.b.length ∧ ([0, 1, 2] : Bytes).length ≠ cur.b.length ∧
    ([7] : Bytes).length ≠ cur.b.length ∧ ([] : Bytes).length ≠ cur.b.length :=
  ⟨⟨9, [255, 1]⟩, by decide, by decide, by decide, by decide, by decide⟩

example : TrWF ⟨[], [], [⟨[1], some 5, some ⟨[], [], some 5, none⟩⟩]⟩ := by
  intro p hp
  simp only [List.mem_singleton] at hp
  subst hp
  exact ⟨rfl, by intro c hc; cases hc; rfl⟩

end Aurora.Handlers
