module verifharness

go 1.17

require github.com/gauss-project/aurorafs v0.0.0

replace github.com/gauss-project/aurorafs => /repo
