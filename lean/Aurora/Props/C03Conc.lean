import Aurora.Lemmas.BmtConcOnce
import Aurora.Generated.BmtFacts
/-!
# C03 (schedules) — every interleaving of the BMT section workers computes the dataflow value

Model: `Aurora/Model/BmtConc.lean` — a small-step interleaving system of the goroutines
`processSection(i,false)` (`i < pos`, running `writeNode`) and `processSection(pos,true)` (running
`writeFinalNode`) over the shared tree nodes `(left, right, state)` of a tree with `d` section
levels, reused from the pool (arbitrary **even** toggle counters, arbitrary stale slot contents).
One step = one shared access (slot write / atomic toggle / read both slots + hash).

All theorems are for every base hash `H`, every `d`, every number of completed sections
`pos = leafs.length < 2^d`, all section digests, all stale slots / even initial counters and
**every schedule** (`sched : List Nat` is the sequence of thread ids chosen by the scheduler; a
thread that is never chosen has simply not started yet, so spawn order and spawn time are covered).

`C03_conc_result` + `C03_conc_hash_correct` close the `schedules` quantifier of C03 at the level of
the interleaving model; what ties the model to the Go text is `C03_conc_code_shape` (extracted
statement skeletons of the functions involved) — see `notes/C03Conc.md` for what is assumed
(sequentially consistent interleavings, justified by `C03_conc_no_race` + the Go memory model).
-/
namespace Aurora.BmtConc
open Aurora.Bmt

/-- configuration of one `Hash` call: `leafs` are the digests of the sections handed to
    `go processSection(i,false)`, `final` the digest of the open section `pos = leafs.length` -/
def cfgOf (H : Bytes → Bytes) (seg d : Nat) (leafs : List Bytes) (final : Bytes) : Cfg :=
  { H := H, seg := seg, d := d, vals := leafs ++ [final] }

theorem cfgOf_pos (H : Bytes → Bytes) (seg d : Nat) (leafs : List Bytes) (final : Bytes) :
    (cfgOf H seg d leafs final).pos = leafs.length := by
  simp [cfgOf, Cfg.pos]

theorem cfgOf_inv {H : Bytes → Bytes} {seg d : Nat} {leafs : List Bytes} {final : Bytes}
    (hpos : leafs.length < 2 ^ d) {s0 s : St} {sched : List Nat}
    (h0 : Init (cfgOf H seg d leafs final) s0) (hex : Exec (cfgOf H seg d leafs final) s0 sched s) :
    (cfgOf H seg d leafs final).vals ≠ [] ∧ (cfgOf H seg d leafs final).pos < 2 ^ (cfgOf H seg d leafs final).d ∧
    ∃ ph, Inv (cfgOf H seg d leafs final) s ph := by
  have hv : (cfgOf H seg d leafs final).vals ≠ [] := by simp [cfgOf]
  have hp : (cfgOf H seg d leafs final).pos < 2 ^ (cfgOf H seg d leafs final).d := by
    rw [cfgOf_pos]; exact hpos
  exact ⟨hv, hp, inv_exec hv hp hex ⟨_, inv_of_init h0⟩⟩

/-- **(a) schedule independence.**  Every maximal execution (any interleaving, ending in a state
    where no thread can move) has delivered exactly one value to the result channel, and it is the
    dataflow value `iterUp … (leafs ++ [final])` used by the sequential model `Hasher.hash`. -/
theorem C03_conc_result (H : Bytes → Bytes) (seg d : Nat) (leafs : List Bytes) (final : Bytes)
    (hpos : leafs.length < 2 ^ d) (s0 s : St) (sched : List Nat)
    (h0 : Init (cfgOf H seg d leafs final) s0)
    (hex : Exec (cfgOf H seg d leafs final) s0 sched s)
    (hterm : Terminal (cfgOf H seg d leafs final) s) :
    s.result = [(iterUp H seg d 1 (leafs ++ [final])).headD []] := by
  obtain ⟨hv, hp, ph, inv⟩ := cfgOf_inv hpos h0 hex
  rw [done_result inv (terminal_allDone hp inv hterm), val_root hv hp]
  rfl

/-- **(a′) composed with the sequential proof.**  For a hasher in the bookkeeping invariant of
    `Lemmas/Bmt.lean` (any writes, any stale buffer) with non-empty data, whatever the scheduler
    does, the value `r` received by `Hash` satisfies `H(span ‖ r) = bmtHash span data`. -/
theorem C03_conc_hash_correct (H : Bytes → Bytes) (seg d : Nat) (hs : 0 < seg) (h : Hasher) (data : Bytes)
    (hinv : Aurora.Bmt.Inv H seg d h data) (hsz : h.size ≠ 0) (s0 s : St) (sched : List Nat)
    (h0 : Init (cfgOf H seg d h.leafs (H (sect seg (copyAt h.buffer h.size (zeros (2 * seg))) h.pos))) s0)
    (hex : Exec (cfgOf H seg d h.leafs (H (sect seg (copyAt h.buffer h.size (zeros (2 * seg))) h.pos))) s0 sched s)
    (hterm : Terminal (cfgOf H seg d h.leafs (H (sect seg (copyAt h.buffer h.size (zeros (2 * seg))) h.pos))) s) :
    ∃ r, s.result = [r] ∧ H (h.span ++ r) = bmtHash H seg d h.span (data.take (maxSize seg d)) := by
  have hlen : h.leafs.length < 2 ^ d := by
    have := (Inv_pos_le H seg d h data hs hinv).2.1
    rw [hinv.leafs]; simp only [List.length_map, sects_length]; omega
  refine ⟨_, C03_conc_result H seg d _ _ hlen s0 s sched h0 hex hterm, ?_⟩
  have := hash_correct H seg d h data hs hinv
  unfold Hasher.hash at this
  rw [if_neg hsz] at this
  exact this

/-- **(b) reusability.**  At the end of every maximal execution every toggle counter is even
    again: the tree goes back to the pool in a state satisfying `Init.even`. -/
theorem C03_conc_quiescent (H : Bytes → Bytes) (seg d : Nat) (leafs : List Bytes) (final : Bytes)
    (hpos : leafs.length < 2 ^ d) (s0 s : St) (sched : List Nat)
    (h0 : Init (cfgOf H seg d leafs final) s0)
    (hex : Exec (cfgOf H seg d leafs final) s0 sched s)
    (hterm : Terminal (cfgOf H seg d leafs final) s) :
    ∀ c j, s.state c j % 2 = 0 := by
  obtain ⟨_, hp, ph, inv⟩ := cfgOf_inv hpos h0 hex
  exact done_even inv (terminal_allDone hp inv hterm)

/-- **(c) no deadlock.**  In every reachable state every thread that has not returned can take its
    next step; in particular no `h.result <- s` ever blocks (there is never a second sender). -/
theorem C03_conc_no_deadlock (H : Bytes → Bytes) (seg d : Nat) (leafs : List Bytes) (final : Bytes)
    (hpos : leafs.length < 2 ^ d) (s0 s : St) (sched : List Nat)
    (h0 : Init (cfgOf H seg d leafs final) s0)
    (hex : Exec (cfgOf H seg d leafs final) s0 sched s)
    (t : Nat) (ht : t ≤ leafs.length) (hnd : s.pc t ≠ .done) :
    ∃ s', step (cfgOf H seg d leafs final) s t = some s' := by
  obtain ⟨_, hp, ph, inv⟩ := cfgOf_inv hpos h0 hex
  exact progress hp inv (by rw [cfgOf_pos]; exact ht) hnd

/-- **(c) progress**: a reachable state is terminal exactly when all threads have returned. -/
theorem C03_conc_terminal_iff (H : Bytes → Bytes) (seg d : Nat) (leafs : List Bytes) (final : Bytes)
    (hpos : leafs.length < 2 ^ d) (s0 s : St) (sched : List Nat)
    (h0 : Init (cfgOf H seg d leafs final) s0)
    (hex : Exec (cfgOf H seg d leafs final) s0 sched s) :
    Terminal (cfgOf H seg d leafs final) s ↔ ∀ t, t ≤ leafs.length → s.pc t = .done := by
  obtain ⟨_, hp, ph, inv⟩ := cfgOf_inv hpos h0 hex
  constructor
  · intro hterm t ht
    exact terminal_allDone hp inv hterm t (by rw [cfgOf_pos]; exact ht)
  · intro hd t
    unfold step
    split
    · rfl
    · next hlt => rw [hd t (by rw [cfgOf_pos] at hlt; omega)]

/-- **(c) termination**: every execution is finite — a schedule can have at most
    `(pos+1)·(4(d+1)+1)` steps (each step strictly decreases `measure`). -/
theorem C03_conc_terminates (H : Bytes → Bytes) (seg d : Nat) (leafs : List Bytes) (final : Bytes)
    (hpos : leafs.length < 2 ^ d) (s0 s : St) (sched : List Nat)
    (h0 : Init (cfgOf H seg d leafs final) s0)
    (hex : Exec (cfgOf H seg d leafs final) s0 sched s) :
    sched.length ≤ (leafs.length + 1) * (4 * (d + 1) + 1) := by
  have hv : (cfgOf H seg d leafs final).vals ≠ [] := by simp [cfgOf]
  have hp : (cfgOf H seg d leafs final).pos < 2 ^ (cfgOf H seg d leafs final).d := by
    rw [cfgOf_pos]; exact hpos
  have := measure_exec hv hp hex ⟨_, inv_of_init h0⟩
  rw [measure_init h0, cfgOf_pos] at this
  exact Nat.le_trans (Nat.le_add_right _ _) this

/-- **(d) no data race on the slots.**  In no reachable state are two different threads about to
    access the same slot (`left`/`right` of the same node) when at least one of the accesses is a
    write: conflicting slot accesses are never adjacent in any interleaving, i.e. they are always
    separated by the atomic toggles.  (This is the premise of the DRF-SC guarantee of the Go
    memory model, which in turn justifies the interleaving semantics of the model.) -/
theorem C03_conc_no_race (H : Bytes → Bytes) (seg d : Nat) (leafs : List Bytes) (final : Bytes)
    (hpos : leafs.length < 2 ^ d) (s0 s : St) (sched : List Nat)
    (h0 : Init (cfgOf H seg d leafs final) s0)
    (hex : Exec (cfgOf H seg d leafs final) s0 sched s)
    (t t' : Nat) (ht : t ≤ leafs.length) (ht' : t' ≤ leafs.length) (hne : t ≠ t')
    (n j : Nat) (side w : Bool)
    (ha : (n, j, side, true) ∈ accesses (cfgOf H seg d leafs final) s t)
    (hb : (n, j, side, w) ∈ accesses (cfgOf H seg d leafs final) s t') : False := by
  obtain ⟨_, hp, ph, inv⟩ := cfgOf_inv hpos h0 hex
  exact no_race inv (by rw [cfgOf_pos]; exact ht) (by rw [cfgOf_pos]; exact ht') hne ha hb

/-- **(d) a slot is written at most once per round.**  In any execution, once some thread has
    written a slot (the step of `t` from `s1`), no thread — neither another one nor `t` itself — is
    ever again about to write that slot, however the execution continues.  Together with
    `C03_conc_no_race`/`C03_conc_read_sees_values`: each slot has at most one writer per round and
    is read only by the thread that saw both arrivals. -/
theorem C03_conc_write_once (H : Bytes → Bytes) (seg d : Nat) (leafs : List Bytes) (final : Bytes)
    (hpos : leafs.length < 2 ^ d) (s0 s1 s1' s2 : St) (sched1 sched2 : List Nat)
    (h0 : Init (cfgOf H seg d leafs final) s0)
    (hex1 : Exec (cfgOf H seg d leafs final) s0 sched1 s1)
    (t t' : Nat) (ht' : t' ≤ leafs.length)
    (hs : step (cfgOf H seg d leafs final) s1 t = some s1')
    (hex2 : Exec (cfgOf H seg d leafs final) s1' sched2 s2)
    (n j : Nat) (side : Bool)
    (ha : (n, j, side, true) ∈ accesses (cfgOf H seg d leafs final) s1 t)
    (hb : (n, j, side, true) ∈ accesses (cfgOf H seg d leafs final) s2 t') : False := by
  obtain ⟨hv, hp, ph, inv⟩ := cfgOf_inv hpos h0 hex1
  exact write_once hv hp inv (by rw [cfgOf_pos]; exact ht') hs hex2 ha hb

/-- **(c) maximal executions exist**: from every reachable state some schedule leads to a terminal
    state (so the hypotheses of `C03_conc_result` are satisfiable for every configuration, and
    with `C03_conc_no_deadlock` + `C03_conc_terminates` every fair scheduler reaches one). -/
theorem C03_conc_maximal_exists (H : Bytes → Bytes) (seg d : Nat) (leafs : List Bytes) (final : Bytes)
    (hpos : leafs.length < 2 ^ d) (s0 s : St) (sched : List Nat)
    (h0 : Init (cfgOf H seg d leafs final) s0)
    (hex : Exec (cfgOf H seg d leafs final) s0 sched s) :
    ∃ sched' s', Exec (cfgOf H seg d leafs final) s sched' s' ∧ Terminal (cfgOf H seg d leafs final) s' := by
  obtain ⟨hv, hp, ph, inv⟩ := cfgOf_inv hpos h0 hex
  exact exists_maximal hv hp _ s ph (Nat.le_refl _) inv

/-- **(d) reads come after both arrivals.**  A thread that is about to read the slots of node
    `(n, j)` (it toggled second there, or it is the final thread on the no-toggle branch) finds in
    both slots the dataflow values of the two children — never a stale value — and the node's
    toggle counter is even again (both toggles, or none, have happened). -/
theorem C03_conc_read_sees_values (H : Bytes → Bytes) (seg d : Nat) (leafs : List Bytes) (final : Bytes)
    (hpos : leafs.length < 2 ^ d) (s0 s : St) (sched : List Nat)
    (h0 : Init (cfgOf H seg d leafs final) s0)
    (hex : Exec (cfgOf H seg d leafs final) s0 sched s)
    (t : Nat) (ht : t ≤ leafs.length) (n j : Nat) (side : Bool)
    (ha : (n, j, side, false) ∈ accesses (cfgOf H seg d leafs final) s t) :
    s.pc t = .hash n j ∧
    s.left n j = some (val (cfgOf H seg d leafs final) (n - 1) (2 * j)) ∧
    s.right n j = some (val (cfgOf H seg d leafs final) (n - 1) (2 * j + 1)) ∧
    s.state n j % 2 = 0 := by
  obtain ⟨_, hp, ph, inv⟩ := cfgOf_inv hpos h0 hex
  have ht2 : t ≤ (cfgOf H seg d leafs final).pos := by rw [cfgOf_pos]; exact ht
  obtain ⟨c, rfl, hc, hpc, a1, a2⟩ := acc_read inv ht2 ha
  have hT := inv.thr t ht2
  rw [hpc] at hT
  have hN := inv.node c j hc hT.2.2.1
  unfold NodeAt NodeOK at hN
  rw [a1, a2] at hN
  exact ⟨hpc, hN.2.1 rfl, hN.2.2.1 rfl, hN.1⟩

/-- **(d) `accesses` is complete for writes**: a step changes no slot that is not listed as a
    write access of the stepping thread (so `C03_conc_no_race` speaks about all slot writes). -/
theorem C03_conc_writes_listed (cfg : Cfg) (s s' : St) (t : Nat) (h : step cfg s t = some s') (n j : Nat) :
    (s'.left n j ≠ s.left n j → (n, j, false, true) ∈ accesses cfg s t) ∧
    (s'.right n j ≠ s.right n j → (n, j, true, true) ∈ accesses cfg s t) :=
  step_writes h n j

/-- **Pool exclusivity.**  `Pool` as a buffered channel of trees, any number of goroutines doing
    `Get`/`Put` in any interleaving (each `Put` returns a tree obtained before): if the pool starts
    with distinct trees and nobody holds one, then at any time a tree is held by at most one
    goroutine, at most once, and is not simultaneously in the channel. -/
theorem C03_pool_exclusive (trees : List Nat) (hnd : trees.Nodup) (p : Pool)
    (h : PoolReach ⟨trees, fun _ => []⟩ p) :
    (∀ g g' tr, tr ∈ p.held g → tr ∈ p.held g' → g = g') ∧
    (∀ g, (p.held g).Nodup) ∧ (∀ g tr, tr ∈ p.held g → tr ∉ p.chan) := by
  have inv0 : PoolInv ⟨trees, fun _ => []⟩ :=
    ⟨hnd, fun _ => List.nodup_nil, (fun _ _ h => by cases h), (fun _ _ _ h => by cases h)⟩
  have inv := poolInv_reach h inv0
  exact ⟨inv.uniq, inv.held, inv.excl⟩

/-- **Tie to the code.**  The statement skeletons of the functions the model translates, extracted
    from `/repo/pkg/bmt/{bmt.go,pool.go}` by `harness/cmd/extract` on every check run, are exactly
    the ones the model was written against (order "assign slot → `n.toggle()` → `doHash(n.left,
    n.right)`" in `writeNode`, the four cases of `writeFinalNode`, `toggle` = atomic add mod 2,
    `isLeft = index%2 == 0`, `parent = prevlevel[i/2]`, one receive in `Hash`, channel `Get`/`Put`).
    Any edit of these functions makes this theorem fail to compile. -/
theorem C03_conc_code_shape :
    Generated.BmtFacts.toggle =
      ["return atomic.AddInt32(&n.state, 1)%2 == 1"] ∧
    Generated.BmtFacts.newNode =
      ["return &node{ parent: parent, isLeft: index%2 == 0, hasher: hasher, }"] ∧
    Generated.BmtFacts.newTree =
      ["n := newNode(0, nil, hashfunc())",
       "prevlevel := []*node{n}",
       "count := 2",
       "for level := depth - 2; level >= 0; level--",
       "nodes := make([]*node, count)",
       "for i := 0; i < count; i++",
       "parent := prevlevel[i/2]",
       "nodes[i] = newNode(i, parent, hashfunc())",
       "end",
       "prevlevel = nodes",
       "count *= 2",
       "end",
       "return &tree{ leaves: prevlevel, buffer: make([]byte, maxsize), }"] ∧
    Generated.BmtFacts.processSection =
      ["secsize := 2 * h.segmentSize",
       "offset := i * secsize",
       "level := 1",
       "n := h.bmt.leaves[i]",
       "isLeft := n.isLeft",
       "hasher := n.hasher",
       "n = n.parent",
       "section, err := doHash(hasher, h.bmt.buffer[offset:offset+secsize])",
       "iferr",
       "if final",
       "h.writeFinalNode(level, n, isLeft, section)",
       "else",
       "h.writeNode(n, isLeft, section)",
       "end"] ∧
    Generated.BmtFacts.writeNode =
      ["var err error",
       "level := 1",
       "for",
       "if n == nil",
       "h.result <- s",
       "return",
       "end",
       "if isLeft",
       "n.left = s",
       "else",
       "n.right = s",
       "end",
       "if n.toggle()",
       "return",
       "end",
       "s, err = doHash(n.hasher, n.left, n.right)",
       "iferr",
       "isLeft = n.isLeft",
       "n = n.parent",
       "level++",
       "end"] ∧
    Generated.BmtFacts.writeFinalNode =
      ["var err error",
       "for",
       "if n == nil",
       "if s != nil",
       "h.result <- s",
       "end",
       "return",
       "end",
       "var noHash bool",
       "if isLeft",
       "n.right = h.zerohashes[level]",
       "if s != nil",
       "n.left = s",
       "noHash = false",
       "else",
       "noHash = n.toggle()",
       "end",
       "else",
       "if s != nil",
       "n.right = s",
       "noHash = n.toggle()",
       "else",
       "noHash = true",
       "end",
       "end",
       "if noHash",
       "s = nil",
       "else",
       "s, err = doHash(n.hasher, n.left, n.right)",
       "iferr",
       "end",
       "isLeft = n.isLeft",
       "n = n.parent",
       "level++",
       "end"] ∧
    Generated.BmtFacts.hash =
      ["if h.size == 0",
       "return sha3hash(h.span, h.zerohashes[h.depth])",
       "end",
       "copy(h.bmt.buffer[h.size:], zerosection)",
       "go h.processSection(h.pos, true)",
       "select { case result := <-h.result: return sha3hash(h.span, result) case err := <-h.errc: return nil, err }"] ∧
    Generated.BmtFacts.newPool =
      ["p := &Pool{ Conf: c, c: make(chan *tree, c.capacity), }",
       "for i := 0; i < c.capacity; i++",
       "p.c <- newTree(p.segmentSize, p.maxSize, p.depth, p.hasher)",
       "end",
       "return p"] ∧
    Generated.BmtFacts.get =
      ["t := <-p.c",
       "return &Hasher{ Conf: p.Conf, result: make(chan []byte), errc: make(chan error, 1), span: make([]byte, SpanSize), bmt: t, }"] ∧
    Generated.BmtFacts.put =
      ["p.c <- h.bmt"] :=
  ⟨rfl, rfl, rfl, rfl, rfl, rfl, rfl, rfl, rfl, rfl⟩

/-! ## Non-vacuity: a concrete run -/

/-- a start state of the toy configuration `d = 1`, one completed section, stale slots, counters 2 -/
def demoS0 : St :=
  { left := fun _ _ => some [9], right := fun _ _ => none, state := fun _ _ => 2, result := [],
    pc := fun _ => .init }

example : Init (cfgOf (fun x => x) 1 1 [[1]] [2]) demoS0 :=
  ⟨fun _ _ => rfl, rfl, fun _ _ => by simp [demoS0]⟩

def runSched (cfg : Cfg) : St → List Nat → Option St
  | s, [] => some s
  | s, t :: ts => (step cfg s t).bind (fun s1 => runSched cfg s1 ts)

/-- two different schedules of the toy configuration deliver the same value `H(leaf0 ‖ final)` -/
example : ((runSched (cfgOf (fun x => x) 1 1 [[1]] [2]) demoS0 [0, 0, 0, 1, 1, 1, 1, 1]).map (·.result),
           (runSched (cfgOf (fun x => x) 1 1 [[1]] [2]) demoS0 [1, 0, 1, 1, 0, 0, 0, 0]).map (·.result))
    = (some [[1, 2]], some [[1, 2]]) := by decide

end Aurora.BmtConc
