import Aurora.Lemmas.Localstore
/-!
The chunk-set view of the localstore model (`Addr ↦ (bytes, pin count)`), used by C11:
what the batch built by every per-address step of `put`/`set` does to the data and pin indexes,
lifted to the loops, the completed calls and to histories.
-/
namespace Aurora.Localstore

set_option linter.unusedSectionVars false
set_option linter.unusedSimpArgs false
set_option linter.unusedVariables false

/-- bytes stored under `x` -/
def bget (x : Addr) (db : Db) : Option Bytes := (SMap.get x db.data).map (·.data)
/-- pin entry of `x` -/
def pget (x : Addr) (db : Db) : Option Nat := SMap.get x db.pin

theorem bget_applyW (x : Addr) (db : Db) (w : Write) :
    bget x (applyW db w) = match w with
      | .dataPut a v => if x = a then some v.data else bget x db
      | .dataDel a => if x = a then none else bget x db
      | _ => bget x db := by
  cases w <;> simp only [bget, applyW, SMap.get_put, SMap.get_erase] <;> split <;> simp_all

theorem pget_applyW (x : Addr) (db : Db) (w : Write) :
    pget x (applyW db w) = match w with
      | .pinPut a c => if x = a then some c else pget x db
      | .pinDel a => if x = a then none else pget x db
      | _ => pget x db := by
  cases w <;> simp only [pget, applyW, SMap.get_put, SMap.get_erase]

/-- an effect on one key: leave it (`none`) or overwrite it (`some v`) -/
def ovr {V : Type} : Option (Option V) → Option V → Option V
  | none, cur => cur
  | some v, _ => v

@[simp] theorem ovr_none {V : Type} (c : Option V) : ovr none c = c := rfl
@[simp] theorem ovr_some {V : Type} (v c : Option V) : ovr (some v) c = v := rfl
theorem ovr_idem {V : Type} (e : Option (Option V)) (c : Option V) : ovr e (ovr e c) = ovr e c := by
  cases e <;> rfl

/-- what the writes a step appended to the batch do to the data / pin entries: only those of `a`, by `eb` / `ep` -/
def TEff (a : Addr) (eb : Option (Option Bytes)) (ep : Option (Option Nat)) (tx tx' : Tx) : Prop :=
  ∀ (D : Db) (x : Addr),
    bget x (applyBatch D tx'.batch) =
      (if x = a then ovr eb (bget a (applyBatch D tx.batch)) else bget x (applyBatch D tx.batch)) ∧
    pget x (applyBatch D tx'.batch) =
      (if x = a then ovr ep (pget a (applyBatch D tx.batch)) else pget x (applyBatch D tx.batch))

theorem TEff.refl (a : Addr) (tx : Tx) : TEff a none none tx tx := by
  intro D x; by_cases h : x = a <;> simp [h]

/-- a step whose batch is unchanged -/
theorem TEff.of_batch_eq {a : Addr} {tx tx' : Tx} (h : tx'.batch = tx.batch) : TEff a none none tx tx' := by
  intro D x; rw [h]; by_cases h : x = a <;> simp [h]

/-- holds of the result of a successful step -/
def OkP (r : Except (Err × Tx) Tx) (P : Tx → Prop) : Prop :=
  match r with
  | .ok t => P t
  | .error _ => True

@[simp] theorem OkP_ok (t : Tx) (P : Tx → Prop) : OkP (.ok t) P = P t := rfl
@[simp] theorem OkP_error (e : Err × Tx) (P : Tx → Prop) : OkP (.error e) P = True := rfl

theorem OkP.elim {r : Except (Err × Tx) Tx} {P : Tx → Prop} {t : Tx} (h : OkP r P) (hr : r = .ok t) : P t := by
  subst hr; exact h

macro "eff_tac" : tactic =>
  `(tactic| (intro D x; by_cases hx : x = _ <;>
      simp_all [applyBatch_append, bget_applyW, pget_applyW, Tx.inBatch, Tx.addChange, Tx.now, Tx.direct]))

/-! ### per-address steps -/

theorem setGC_eff (tx : Tx) (a : Addr) (root : Option Addr) (b : Nat) :
    OkP (setGC tx root b) (fun tx' => TEff a none none tx tx') := by
  simp only [setGC, Tx.now, Tx.inBatch, Tx.addChange]
  repeat' split
  all_goals first
    | exact trivial
    | (simp only [OkP_ok]; intro D x; by_cases hx : x = a <;>
        simp_all [applyBatch_append, bget_applyW, pget_applyW])

theorem setPinRoot_eff (tx : Tx) (a : Addr) (root : Option Addr) :
    OkP (setPinRoot tx root) (fun tx' => TEff a none none tx tx') := by
  simp only [setPinRoot, Tx.inBatch, Tx.addChange, Tx.direct]
  repeat' split
  all_goals first
    | exact trivial
    | (simp only [OkP_ok]; intro D x; by_cases hx : x = a <;>
        simp_all [applyBatch_append, bget_applyW, pget_applyW])

theorem TEff.trans_none {a : Addr} {eb : Option (Option Bytes)} {ep : Option (Option Nat)} {t0 t1 t2 : Tx}
    (h1 : TEff a none none t0 t1) (h2 : TEff a eb ep t1 t2) : TEff a eb ep t0 t2 := by
  intro D x
  have g1 := h1 D
  have g2 := h2 D x
  by_cases hx : x = a
  · subst hx
    have := g1 x
    simp_all
  · have := g1 x
    simp_all

theorem TEff.none_trans {a : Addr} {eb : Option (Option Bytes)} {ep : Option (Option Nat)} {t0 t1 t2 : Tx}
    (h1 : TEff a eb ep t0 t1) (h2 : TEff a none none t1 t2) : TEff a eb ep t0 t2 := by
  intro D x
  have g1 := h1 D
  have g2 := h2 D x
  by_cases hx : x = a
  · subst hx
    have := g1 x
    simp_all
  · have := g1 x
    simp_all

theorem TEff.inBatch_pinPut (tx : Tx) (a : Addr) (c : Nat) : TEff a none (some (some c)) tx (tx.inBatch (.pinPut a c)) := by
  intro D x; by_cases hx : x = a <;> simp [hx, Tx.inBatch, applyBatch_append, bget_applyW, pget_applyW]

/-- `setPin`: the pin entry becomes (old entry as read from the database) + 1 -/
theorem setPin_eff (tx : Tx) (a : Addr) (root : Option Addr) :
    OkP (setPin tx a root)
      (fun tx' => TEff a none (some (some ((SMap.get a tx.db.pin).getD 0 + 1))) tx tx') := by
  have h := setPinRoot_eff tx a root
  simp only [setPin]
  cases hr : setPinRoot tx root with
  | error e => exact trivial
  | ok t =>
    rw [hr] at h
    simp only [OkP_ok] at h ⊢
    exact h.trans_none (TEff.inBatch_pinPut t a _)

def unpinEP (pin : Option Nat) : Option (Option Nat) :=
  match pin with
  | some pc => if pc > 1 then some (some (pc - 1)) else some none
  | none => none

theorem setUnpin_eff (tx : Tx) (a : Addr) (root : Option Addr) :
    OkP (setUnpin tx a root) (fun tx' => TEff a none (unpinEP (SMap.get a tx.db.pin)) tx tx') := by
  simp only [setUnpin, Tx.now, Tx.inBatch, Tx.addChange]
  cases hp : SMap.get a tx.db.pin with
  | none => exact trivial
  | some pc =>
    simp only [unpinEP]
    by_cases hc : pc > 1
    · simp only [hc, if_true, OkP_ok]
      intro D x; by_cases hx : x = a <;> simp_all [applyBatch_append, bget_applyW, pget_applyW]
    · simp only [hc, if_false]
      repeat' split
      all_goals first
        | exact trivial
        | (simp only [OkP_ok]; intro D x; by_cases hx : x = a <;>
            simp_all [applyBatch_append, bget_applyW, pget_applyW])

theorem setSync_eff (tx : Tx) (a : Addr) :
    OkP (setSync tx a) (fun tx' => TEff a none none tx tx') := by
  simp only [setSync, Tx.now, Tx.inBatch, Tx.addChange]
  cases hd : SMap.get a tx.db.data with
  | none => simp only [OkP_ok]; exact TEff.refl a tx
  | some d =>
    cases hacc : SMap.get a tx.db.access <;> by_cases hpin : SMap.has a tx.db.pin = true <;>
      simp only [hpin, if_true, Bool.false_eq_true, if_false, OkP_ok] <;>
      (intro D x; by_cases hx : x = a <;> simp_all [applyBatch_append, bget_applyW, pget_applyW])

def rmEB (pin : Option Nat) : Option (Option Bytes) :=
  match pin with
  | some c => if dec64 c > 0 then none else some none
  | none => some none

def rmEP (pin : Option Nat) : Option (Option Nat) :=
  match pin with
  | some c => if dec64 c > 0 then some (some (dec64 c)) else some none
  | none => none

theorem setRemove_eff (tx : Tx) (a : Addr) (root : Option Addr) :
    OkP (setRemove tx a root)
      (fun tx' => TEff a (rmEB (SMap.get a tx.db.pin)) (rmEP (SMap.get a tx.db.pin)) tx tx') := by
  simp only [setRemove, Tx.inBatch, Tx.addChange]
  cases hp : SMap.get a tx.db.pin with
  | none =>
    simp only [rmEB, rmEP]
    repeat' split
    all_goals first
      | exact trivial
      | (simp only [OkP_ok]; intro D x; by_cases hx : x = a <;>
          simp_all [applyBatch_append, bget_applyW, pget_applyW])
  | some c =>
    simp only [rmEB, rmEP]
    by_cases hc : dec64 c > 0
    · simp only [hc, if_true]
      repeat' split
      all_goals first
        | exact trivial
        | (simp only [OkP_ok]; intro D x; by_cases hx : x = a <;>
            simp_all [applyBatch_append, bget_applyW, pget_applyW])
    · simp only [hc, if_false]
      repeat' split
      all_goals first
        | exact trivial
        | (simp only [OkP_ok]; intro D x; by_cases hx : x = a <;>
            simp_all [applyBatch_append, bget_applyW, pget_applyW])

/-! ### the loop of `set` -/

def setStep (mode : SetMode) (root : Option Addr) (tx : Tx) (a : Addr) : Except (Err × Tx) Tx :=
  match mode with
  | .sync => setSync tx a
  | .remove => setRemove tx a root
  | .pin => if SMap.has a tx.db.data then setPin tx a root else .error (.notFound, tx)
  | .unpin => setUnpin tx a root
  | .invalid => .error (.invalidMode, tx)

theorem setLoop_cons (mode : SetMode) (root : Option Addr) (tx : Tx) (a : Addr) (rest : List Addr) :
    setLoop mode root tx (a :: rest) =
      match setStep mode root tx a with
      | .error e => .error e
      | .ok tx' => setLoop mode root tx' rest := by
  cases mode <;> rfl

def setEB (m : SetMode) (pin : Option Nat) : Option (Option Bytes) :=
  match m with
  | .remove => rmEB pin
  | _ => none

def setEP (m : SetMode) (pin : Option Nat) : Option (Option Nat) :=
  match m with
  | .remove => rmEP pin
  | .pin => some (some (pin.getD 0 + 1))
  | .unpin => unpinEP pin
  | _ => none

theorem setStep_eff (mode : SetMode) (root : Option Addr) (tx : Tx) (a : Addr) :
    OkP (setStep mode root tx a)
      (fun tx' => TEff a (setEB mode (SMap.get a tx.db.pin)) (setEP mode (SMap.get a tx.db.pin)) tx tx') := by
  cases mode <;> simp only [setStep, setEB, setEP]
  · exact setSync_eff tx a
  · exact setRemove_eff tx a root
  · split
    · exact setPin_eff tx a root
    · exact trivial
  · exact setUnpin_eff tx a root
  · exact trivial

theorem setStep_frame (mode : SetMode) (root : Option Addr) (tx : Tx) (a : Addr) :
    Frame tx (resTx (setStep mode root tx a)) := by
  cases mode <;> simp only [setStep]
  · exact setSync_frame tx a
  · exact setRemove_frame tx a root
  · split
    · exact setPin_frame tx a root
    · exact Frame.refl tx
  · exact setUnpin_frame tx a root
  · exact Frame.refl tx

/-- the batch of a successful `set` loop: every listed address gets the effect computed from the
database as it was before the call (reads never see the batch), once -/
theorem setLoop_eff (mode : SetMode) (root : Option Addr) (addrs : List Addr) :
    ∀ (tx tx' : Tx), setLoop mode root tx addrs = .ok tx' → ∀ (D : Db) (x : Addr),
      bget x (applyBatch D tx'.batch) =
        (if x ∈ addrs then ovr (setEB mode (SMap.get x tx.db.pin)) (bget x (applyBatch D tx.batch))
         else bget x (applyBatch D tx.batch)) ∧
      pget x (applyBatch D tx'.batch) =
        (if x ∈ addrs then ovr (setEP mode (SMap.get x tx.db.pin)) (pget x (applyBatch D tx.batch))
         else pget x (applyBatch D tx.batch)) := by
  induction addrs with
  | nil =>
    intro tx tx' h D x
    simp only [setLoop, Except.ok.injEq] at h
    subst h; simp
  | cons a rest ih =>
    intro tx tx' h D x
    rw [setLoop_cons] at h
    have he := setStep_eff mode root tx a
    have hf := setStep_frame mode root tx a
    cases hr : setStep mode root tx a with
    | error e => rw [hr] at h; simp at h
    | ok t =>
      rw [hr] at h he hf
      simp only [OkP_ok, resTx_ok] at h he hf
      have hpin : t.db.pin = tx.db.pin := hf.2.1
      obtain ⟨i1, i2⟩ := ih t tx' h D x
      obtain ⟨e1, e2⟩ := he D x
      rw [i1, i2, hpin]
      by_cases hx : x = a
      · subst hx
        have := he D x
        simp only [if_true] at this
        rw [this.1, this.2]
        by_cases hm : x ∈ rest <;> simp [hm, ovr_idem]
      · rw [e1, e2]
        simp [hx]

/-! ### the loop of `put` -/

/-- the per-chunk step of `putLoop` for a chunk not seen earlier in the call -/
def putStep (po : Addr → Nat) (mode : PutMode) (root : Option Addr) (tx : Tx) (a : Addr) (d : Bytes) :
    Except (Err × Tx) (Bool × Tx) :=
  match mode with
  | .request | .requestPin => putRequest po tx a d root (mode == .requestPin)
  | .upload => .ok (putUpload po tx a d)
  | .uploadPin =>
    match setPin (putUpload po tx a d).2 a root with
    | .error e => .error e
    | .ok tx'' => .ok ((putUpload po tx a d).1, { tx'' with change := (putUpload po tx a d).2.change })
  | .invalid => .error (.invalidMode, tx)

theorem putLoop_cons_seen (po : Addr → Nat) (mode : PutMode) (root : Option Addr) (tx : Tx) (seen : List Addr)
    (a : Addr) (d : Bytes) (rest : List (Addr × Bytes)) (acc : List Bool) (h : seen.contains a = true) :
    putLoop po mode root tx seen ((a, d) :: rest) acc = putLoop po mode root tx (seen ++ [a]) rest (true :: acc) := by
  conv => lhs; unfold putLoop
  simp only [h, if_true]

theorem putLoop_cons_new (po : Addr → Nat) (mode : PutMode) (root : Option Addr) (tx : Tx) (seen : List Addr)
    (a : Addr) (d : Bytes) (rest : List (Addr × Bytes)) (acc : List Bool) (h : seen.contains a = false) :
    putLoop po mode root tx seen ((a, d) :: rest) acc =
      match putStep po mode root tx a d with
      | .error e => .error e
      | .ok (ex, tx') => putLoop po mode root tx' (seen ++ [a]) rest (ex :: acc) := by
  conv => lhs; unfold putLoop
  simp only [h, Bool.false_eq_true, if_false]
  cases mode <;> simp only [putStep]
  all_goals first
    | rfl
    | (cases hr : setPin (putUpload po tx a d).2 a root <;> rfl)

def putEB (present : Bool) (d : Bytes) : Option (Option Bytes) := if present then none else some (some d)

def putEP (m : PutMode) (present : Bool) (pin : Option Nat) : Option (Option Nat) :=
  match m with
  | .requestPin => if present then none else some (some (pin.getD 0 + 1))
  | .uploadPin => some (some (pin.getD 0 + 1))
  | _ => none

/-- holds of the transaction of a successful chunk step -/
def OkP2 (r : Except (Err × Tx) (Bool × Tx)) (P : Tx → Prop) : Prop :=
  match r with
  | .ok (_, t) => P t
  | .error _ => True

@[simp] theorem OkP2_ok (b : Bool) (t : Tx) (P : Tx → Prop) : OkP2 (.ok (b, t)) P = P t := rfl
@[simp] theorem OkP2_error (e : Err × Tx) (P : Tx → Prop) : OkP2 (.error e) P = True := rfl

theorem TEff.comp {a : Addr} {eb : Option (Option Bytes)} {ep : Option (Option Nat)} {t0 t1 t2 : Tx}
    (h1 : TEff a eb none t0 t1) (h2 : TEff a none ep t1 t2) : TEff a eb ep t0 t2 := by
  intro D x
  have g1 := h1 D x
  have g2 := h2 D x
  by_cases hx : x = a
  · subst hx
    have := h1 D x
    simp_all
  · simp_all

theorem storeNew_eff (po : Addr → Nat) (tx : Tx) (a : Addr) (d : Bytes) :
    TEff a (some (some d)) none tx (storeNew po tx a d).2 := by
  intro D x
  by_cases hx : x = a <;>
    simp [hx, storeNew, incBinID, Tx.now, Tx.inBatch, applyBatch_append, bget_applyW, pget_applyW]

theorem storeNew_db (po : Addr → Nat) (tx : Tx) (a : Addr) (d : Bytes) : (storeNew po tx a d).2.db = tx.db := rfl

theorem putUpload_eff (po : Addr → Nat) (tx : Tx) (a : Addr) (d : Bytes) :
    TEff a (putEB (SMap.has a tx.db.data) d) none tx (putUpload po tx a d).2 := by
  simp only [putUpload, putEB]
  split
  · exact TEff.refl a tx
  · exact storeNew_eff po tx a d

theorem putUpload_db (po : Addr → Nat) (tx : Tx) (a : Addr) (d : Bytes) : (putUpload po tx a d).2.db = tx.db := by
  simp only [putUpload]; split <;> rfl

theorem putStep_eff (po : Addr → Nat) (mode : PutMode) (root : Option Addr) (tx : Tx) (a : Addr) (d : Bytes) :
    OkP2 (putStep po mode root tx a d)
      (fun tx' => TEff a (putEB (SMap.has a tx.db.data) d)
        (putEP mode (SMap.has a tx.db.data) (SMap.get a tx.db.pin)) tx tx') := by
  cases mode
  · -- request
    simp only [putStep, putRequest, putEP, putEB]
    by_cases hh : SMap.has a tx.db.data = true
    · simp only [hh, if_true, OkP2_ok]; exact TEff.refl a tx
    · simp only [hh, Bool.false_eq_true, if_false]
      have h0 := storeNew_eff po tx a d
      have h1 := setGC_eff (storeNew po tx a d).2 a root (if root = some a then (storeNew po tx a d).1 else 0)
      have : (PutMode.request == PutMode.requestPin) = false := by decide
      simp only [this, Bool.false_eq_true, if_false]
      cases hr : setGC (storeNew po tx a d).2 root (if root = some a then (storeNew po tx a d).1 else 0) with
      | error e => exact trivial
      | ok t =>
        rw [hr] at h1
        simp only [OkP_ok] at h1
        simp only [OkP2_ok]
        exact h0.comp h1
  · -- upload
    simp only [putStep, putEP, OkP2]
    exact putUpload_eff po tx a d
  · -- uploadPin
    simp only [putStep, putEP]
    have h0 := putUpload_eff po tx a d
    have h1 := setPin_eff (putUpload po tx a d).2 a root
    cases hr : setPin (putUpload po tx a d).2 a root with
    | error e => exact trivial
    | ok t =>
      rw [hr] at h1
      simp only [OkP_ok, putUpload_db] at h1
      simp only [OkP2_ok]
      have h2 : TEff a none (some (some ((SMap.get a tx.db.pin).getD 0 + 1))) (putUpload po tx a d).2
          { t with change := (putUpload po tx a d).2.change } := h1
      exact h0.comp h2
  · -- requestPin
    simp only [putStep, putRequest, putEP, putEB]
    by_cases hh : SMap.has a tx.db.data = true
    · simp only [hh, if_true, OkP2_ok]; exact TEff.refl a tx
    · simp only [hh, Bool.false_eq_true, if_false]
      have h0 := storeNew_eff po tx a d
      have h1 := setPin_eff (storeNew po tx a d).2 a root
      have : (PutMode.requestPin == PutMode.requestPin) = true := by decide
      simp only [this, if_true]
      cases hr : setPin (storeNew po tx a d).2 a root with
      | error e => exact trivial
      | ok t =>
        rw [hr] at h1
        simp only [OkP_ok, storeNew_db] at h1
        simp only [OkP2_ok]
        exact h0.comp h1
  · exact trivial

theorem putStep_frame (po : Addr → Nat) (mode : PutMode) (root : Option Addr) (tx : Tx) (a : Addr) (d : Bytes) :
    Frame tx (reqTx (putStep po mode root tx a d)) := by
  cases mode <;> simp only [putStep]
  · exact putRequest_frame po tx a d root _
  · exact putUpload_frame po tx a d
  · have h1 := putUpload_frame po tx a d
    have h2 := setPin_frame (putUpload po tx a d).2 a root
    cases hr : setPin (putUpload po tx a d).2 a root with
    | error e => obtain ⟨e1, t⟩ := e; rw [hr] at h2; exact h1.trans h2
    | ok t =>
      rw [hr] at h2
      exact (h1.trans h2).trans (Frame.of_eq ⟨rfl, rfl⟩)
  · exact putRequest_frame po tx a d root _
  · exact Frame.refl tx

/-- the batch of a successful `put` loop: every chunk address not seen before gets, once, the effect
computed from the database as it was before the call, with the bytes of its first occurrence -/
theorem putLoop_eff (po : Addr → Nat) (mode : PutMode) (root : Option Addr) (chs : List (Addr × Bytes)) :
    ∀ (tx : Tx) (seen : List Addr) (acc : List Bool) (tx' : Tx) (fl : List Bool),
      putLoop po mode root tx seen chs acc = .ok (tx', fl) → ∀ (D : Db) (x : Addr),
      bget x (applyBatch D tx'.batch) =
        (match (if x ∈ seen then none else SMap.get x chs) with
         | some d => ovr (putEB (SMap.has x tx.db.data) d) (bget x (applyBatch D tx.batch))
         | none => bget x (applyBatch D tx.batch)) ∧
      pget x (applyBatch D tx'.batch) =
        (match (if x ∈ seen then none else SMap.get x chs) with
         | some _ => ovr (putEP mode (SMap.has x tx.db.data) (SMap.get x tx.db.pin)) (pget x (applyBatch D tx.batch))
         | none => pget x (applyBatch D tx.batch)) := by
  induction chs with
  | nil =>
    intro tx seen acc tx' fl h D x
    simp only [putLoop, Except.ok.injEq, Prod.mk.injEq] at h
    obtain ⟨h, _⟩ := h
    subst h
    by_cases hs : x ∈ seen <;> simp [hs]
  | cons c rest ih =>
    intro tx seen acc tx' fl h D x
    obtain ⟨a, d⟩ := c
    by_cases hs : seen.contains a = true
    · rw [putLoop_cons_seen _ _ _ _ _ _ _ _ _ hs] at h
      obtain ⟨i1, i2⟩ := ih tx (seen ++ [a]) (true :: acc) tx' fl h D x
      have hm : a ∈ seen := by simpa using hs
      rw [i1, i2]
      by_cases hx : x = a
      · subst hx; simp [hm]
      · by_cases hxs : x ∈ seen <;> simp [hx, hxs]
    · have hs' : seen.contains a = false := by simpa using hs
      have hm : a ∉ seen := by simpa using hs
      rw [putLoop_cons_new _ _ _ _ _ _ _ _ _ hs'] at h
      have he := putStep_eff po mode root tx a d
      have hf := putStep_frame po mode root tx a d
      cases hr : putStep po mode root tx a d with
      | error e => rw [hr] at h; simp at h
      | ok r =>
        obtain ⟨ex, t⟩ := r
        rw [hr] at h he hf
        simp only [OkP2_ok, reqTx] at h he hf
        have hpin : t.db.pin = tx.db.pin := hf.2.1
        have hdat : t.db.data = tx.db.data := hf.1
        obtain ⟨i1, i2⟩ := ih t (seen ++ [a]) (ex :: acc) tx' fl h D x
        obtain ⟨e1, e2⟩ := he D x
        rw [i1, i2, hpin, hdat]
        by_cases hx : x = a
        · subst hx
          simp only [if_true] at e1 e2
          simp [hm, e1, e2]
        · rw [e1, e2]
          by_cases hxs : x ∈ seen <;> simp [hx, hxs]

/-! ### completed calls -/

/-- writes that touch neither the data nor the pin index -/
def Write.neutral : Write → Bool
  | .dataPut _ _ => false
  | .dataDel _ => false
  | .pinPut _ _ => false
  | .pinDel _ => false
  | _ => true

theorem applyW_neutral (db : Db) (w : Write) (h : w.neutral = true) :
    (applyW db w).data = db.data ∧ (applyW db w).pin = db.pin := by
  cases w <;> simp_all [Write.neutral, applyW]

theorem applyBatch_neutral (ws : List Write) (h : ∀ w ∈ ws, w.neutral = true) (db : Db) :
    (applyBatch db ws).data = db.data ∧ (applyBatch db ws).pin = db.pin := by
  induction ws generalizing db with
  | nil => simp
  | cons w ws ih =>
    have h1 := applyW_neutral db w (h w (by simp))
    have h2 := ih (fun x hx => h x (by simp [hx])) (applyW db w)
    simp only [applyBatch_cons]
    exact ⟨h2.1.trans h1.1, h2.2.trans h1.2⟩

theorem bget_congr {x : Addr} {d1 d2 : Db} (h : d1.data = d2.data) : bget x d1 = bget x d2 := by
  simp [bget, h]
theorem pget_congr {x : Addr} {d1 d2 : Db} (h : d1.pin = d2.pin) : pget x d1 = pget x d2 := by
  simp [pget, h]

theorem addBins_shape (tx : Tx) :
    (addBins tx).log = tx.log ∧ (addBins tx).db = tx.db ∧ (addBins tx).change = tx.change ∧
    ∃ ws, (addBins tx).batch = tx.batch ++ ws ∧ ∀ w ∈ ws, w.neutral = true := by
  unfold addBins
  generalize tx.bins = bins
  induction bins generalizing tx with
  | nil => exact ⟨rfl, rfl, rfl, [], by simp, by simp⟩
  | cons b bs ih =>
    simp only [List.foldl_cons]
    obtain ⟨h1, h2, h3, ws, h4, h5⟩ := ih (tx.inBatch (.binPut b.1 b.2))
    refine ⟨h1, h2, h3, Write.binPut b.1 b.2 :: ws, ?_, ?_⟩
    · rw [h4]; simp [Tx.inBatch]
    · intro w hw
      rcases List.mem_cons.1 hw with e | e
      · subst e; rfl
      · exact h5 w e

theorem commit_shape (cap : Nat) (tx : Tx) :
    ∃ ws, (commit cap tx).writes = tx.log ++ [DW.batch (tx.batch ++ ws)] ∧ ∀ w ∈ ws, w.neutral = true := by
  simp only [commit]
  by_cases h0 : tx.change = 0
  · exact ⟨[], by simp [h0], by simp⟩
  · by_cases h1 : tx.change > 0
    · exact ⟨[.gcSizePut ((tx.db.gcSize + tx.change.toNat) % two64)], by simp only [h0, h1, if_false, if_true], by simp [Write.neutral]⟩
    · by_cases h2 : (-tx.change).toNat > tx.db.gcSize
      · exact ⟨[], by simp [h0, h1, h2], by simp⟩
      · exact ⟨[.gcSizePut (tx.db.gcSize - (-tx.change).toNat)], by simp only [h0, h1, h2, if_false], by simp [Write.neutral]⟩

/-- the data and pin indexes after committing `tx` on `db`, when the direct writes `tx.log` are gc puts -/
theorem commit_view (cap : Nat) (tx : Tx) (db : Db) (l : List DW) (hl : tx.log = l) (ho : GcPutsOnly l) :
    ∃ D, D.data = db.data ∧ D.pin = db.pin ∧
      (applyLog db (commit cap tx).writes).data = (applyBatch D tx.batch).data ∧
      (applyLog db (commit cap tx).writes).pin = (applyBatch D tx.batch).pin := by
  obtain ⟨ws, hw, hn⟩ := commit_shape cap tx
  have hg := applyLog_gcPutsOnly l ho db
  refine ⟨applyLog db l, hg.1, hg.2.1, ?_, ?_⟩
  · rw [hw, hl, applyLog_append]
    simp only [applyLog_cons, applyLog_nil, applyDW, applyBatch_append]
    exact (applyBatch_neutral ws hn _).1
  · rw [hw, hl, applyLog_append]
    simp only [applyLog_cons, applyLog_nil, applyDW, applyBatch_append]
    exact (applyBatch_neutral ws hn _).2

theorem abort_view (tx : Tx) (db : Db) (l : List DW) (hl : tx.log = l) (ho : GcPutsOnly l) :
    (applyLog db (abort tx).writes).data = db.data ∧ (applyLog db (abort tx).writes).pin = db.pin := by
  have hg := applyLog_gcPutsOnly l ho db
  simp only [abort, hl]
  exact ⟨hg.1, hg.2.1⟩

def Out.isExist : Out → Bool
  | .exist _ => true
  | _ => false

/-- `Put`: what the data and pin indexes hold after the call -/
theorem put_view (po : Addr → Nat) (s : State) (mode : PutMode) (root : Option Addr) (chs : List (Addr × Bytes)) :
    ((put po s mode root chs).out.isExist = true → ∀ x,
      bget x (put po s mode root chs).st.db =
        (match SMap.get x chs with
         | some d => ovr (putEB (SMap.has x s.db.data) d) (bget x s.db)
         | none => bget x s.db) ∧
      pget x (put po s mode root chs).st.db =
        (match SMap.get x chs with
         | some _ => ovr (putEP mode (SMap.has x s.db.data) (SMap.get x s.db.pin)) (pget x s.db)
         | none => pget x s.db)) ∧
    ((put po s mode root chs).out.isExist = false →
      (put po s mode root chs).st.db.data = s.db.data ∧ (put po s mode root chs).st.db.pin = s.db.pin) := by
  unfold put
  by_cases hf : putFast s mode chs = true
  · simp only [hf, if_true, Out.isExist]
    refine ⟨fun _ x => ?_, fun h => by simp at h⟩
    unfold putFast at hf
    split at hf
    · rename_i a d
      simp only [Bool.and_eq_true, bne_iff_ne, ne_eq] at hf
      obtain ⟨⟨m1, m2⟩, hh⟩ := hf
      by_cases hx : x = a
      · subst hx
        cases mode <;> simp_all [putEB, putEP]
      · simp [hx]
    · simp at hf
  · simp only [hf, Bool.false_eq_true, if_false, finish, putBody]
    by_cases hinv : (mode == PutMode.invalid) = true
    · simp only [hinv, if_true, Out.isExist]
      refine ⟨fun h => by simp at h, fun _ => ?_⟩
      exact abort_view (Tx.start s) s.db [] rfl gcPutsOnly_nil
    · simp only [hinv, Bool.false_eq_true, if_false]
      have hfr := (putLoop_spec po mode root chs (Tx.start s) [] []).1
      cases hl : putLoop po mode root (Tx.start s) [] chs [] with
      | error e =>
        obtain ⟨e1, t⟩ := e
        rw [hl] at hfr
        obtain ⟨_, _, _, _, _, l, hlog, ho⟩ := hfr
        simp only [loopTx, Tx.start, List.nil_append] at hlog
        simp only [Out.isExist]
        exact ⟨fun h => by simp at h, fun _ => abort_view t s.db l hlog ho⟩
      | ok p =>
        obtain ⟨t, ex⟩ := p
        rw [hl] at hfr
        obtain ⟨_, _, _, _, _, l, hlog, ho⟩ := hfr
        simp only [loopTx, Tx.start, List.nil_append] at hlog
        simp only [Out.isExist]
        refine ⟨fun _ x => ?_, fun h => by simp at h⟩
        obtain ⟨hbl, _, _, ws, hbb, hbn⟩ := addBins_shape t
        obtain ⟨D, hD1, hD2, hv1, hv2⟩ := commit_view s.capacity (addBins t) s.db l (hbl.trans hlog) ho
        have he := putLoop_eff po mode root chs (Tx.start s) [] [] t ex hl D x
        simp only [Tx.start, applyBatch_nil, List.not_mem_nil, if_false] at he
        rw [bget_congr hv1, pget_congr hv2, hbb, applyBatch_append,
          bget_congr (applyBatch_neutral ws hbn _).1, pget_congr (applyBatch_neutral ws hbn _).2,
          he.1, he.2, bget_congr hD1, pget_congr hD2]
        exact ⟨rfl, rfl⟩

theorem put_volatile (po : Addr → Nat) (s : State) (mode : PutMode) (root : Option Addr) (chs : List (Addr × Bytes)) :
    (put po s mode root chs).st.gcRunning = s.gcRunning := by
  unfold put; split <;> rfl

/-- `Set`: what the data and pin indexes hold after the call -/
theorem set_view (s : State) (mode : SetMode) (root : Option Addr) (addrs : List Addr) :
    ((set s mode root addrs).out = .ok → ∀ x,
      bget x (set s mode root addrs).st.db =
        (if x ∈ addrs then ovr (setEB mode (SMap.get x s.db.pin)) (bget x s.db) else bget x s.db) ∧
      pget x (set s mode root addrs).st.db =
        (if x ∈ addrs then ovr (setEP mode (SMap.get x s.db.pin)) (pget x s.db) else pget x s.db)) ∧
    ((set s mode root addrs).out ≠ .ok →
      (set s mode root addrs).st.db.data = s.db.data ∧ (set s mode root addrs).st.db.pin = s.db.pin) := by
  simp only [set, finish, setBody]
  by_cases hinv : (mode == SetMode.invalid) = true
  · simp only [hinv, if_true]
    refine ⟨fun h => by simp at h, fun _ => ?_⟩
    exact abort_view (Tx.start s) s.db [] rfl gcPutsOnly_nil
  · simp only [hinv, Bool.false_eq_true, if_false]
    have hfr := setLoop_frame mode root addrs (Tx.start s)
    cases hl : setLoop mode root (Tx.start s) addrs with
    | error e =>
      obtain ⟨e1, t⟩ := e
      rw [hl] at hfr
      obtain ⟨_, _, _, _, _, l, hlog, ho⟩ := hfr
      simp only [resTx_error, Tx.start, List.nil_append] at hlog
      exact ⟨fun h => by simp at h, fun _ => abort_view t s.db l hlog ho⟩
    | ok t =>
      rw [hl] at hfr
      obtain ⟨_, _, _, _, _, l, hlog, ho⟩ := hfr
      simp only [resTx_ok, Tx.start, List.nil_append] at hlog
      refine ⟨fun _ x => ?_, fun h => by simp at h⟩
      obtain ⟨D, hD1, hD2, hv1, hv2⟩ := commit_view s.capacity t s.db l hlog ho
      have he := setLoop_eff mode root addrs (Tx.start s) t hl D x
      simp only [Tx.start, applyBatch_nil] at he
      rw [bget_congr hv1, pget_congr hv2, he.1, he.2, bget_congr hD1, pget_congr hD2]
      exact ⟨rfl, rfl⟩

/-! ### the reference chunk set -/

/-- the reference chunk set: address ↦ (bytes, pin count) -/
abbrev ChunkSet := Addr → Option (Bytes × Nat)

/-- the chunk set a database holds -/
def csOf (db : Db) : ChunkSet := fun a => (bget a db).map (fun d => (d, (pget a db).getD 0))

/-- a successful `Put`: every address of the call that is absent is stored with the bytes of its first
occurrence in the call (pin count 1 in the pinning modes); a present chunk keeps its bytes, and
`ModePutUploadPin` pins it once more -/
def specPut (cs : ChunkSet) (m : PutMode) (chs : List (Addr × Bytes)) : ChunkSet := fun x =>
  match SMap.get x chs with
  | none => cs x
  | some d =>
    match cs x with
    | some (d0, p) => some (d0, if m = .uploadPin then p + 1 else p)
    | none => some (d, if m = .requestPin ∨ m = .uploadPin then 1 else 0)

/-- a successful `Set`: remove deletes an unpinned (or once-pinned) chunk and otherwise only lowers the
pin count; pin / unpin raise / lower the pin count; sync changes nothing -/
def specSet (cs : ChunkSet) (m : SetMode) (addrs : List Addr) : ChunkSet := fun x =>
  if x ∈ addrs then
    match cs x with
    | none => none
    | some (d, p) =>
      match m with
      | .remove => if p > 1 then some (d, p - 1) else none
      | .pin => some (d, p + 1)
      | .unpin => some (d, p - 1)
      | _ => some (d, p)
  else cs x

def Out.isErr : Out → Bool
  | .err _ => true
  | _ => false

/-- one step of the reference: an operation that reported an error changes nothing -/
def specStep (cs : ChunkSet) (op : Op) (ok : Bool) : ChunkSet :=
  if ok then
    match op with
    | .put m _ chs => specPut cs m chs
    | .set m _ as => specSet cs m as
    | _ => cs
  else cs

/-- pin entries are positive and belong to stored chunks -/
def PinInv (db : Db) : Prop := ∀ a c, pget a db = some c → c ≥ 1 ∧ (bget a db).isSome = true

theorem has_eq_bget (x : Addr) (db : Db) : SMap.has x db.data = (bget x db).isSome := by
  simp [SMap.has, bget]

theorem put_out_shape (po : Addr → Nat) (s : State) (mode : PutMode) (root : Option Addr) (chs : List (Addr × Bytes)) :
    (put po s mode root chs).out.isExist = !(put po s mode root chs).out.isErr := by
  unfold put
  split
  · rfl
  · simp only [finish, putBody]
    split
    · rfl
    · split <;> rfl

theorem set_out_shape (s : State) (mode : SetMode) (root : Option Addr) (addrs : List Addr) :
    ((set s mode root addrs).out = .ok ∧ (set s mode root addrs).out.isErr = false) ∨
    ((set s mode root addrs).out ≠ .ok ∧ (set s mode root addrs).out.isErr = true) := by
  simp only [set, finish, setBody]
  split
  · right; simp [Out.isErr]
  · split
    · right; simp [Out.isErr]
    · left; simp [Out.isErr]

theorem put_refines (po : Addr → Nat) (s : State) (mode : PutMode) (root : Option Addr) (chs : List (Addr × Bytes))
    (hI : PinInv s.db) :
    PinInv (put po s mode root chs).st.db ∧
    ∀ x, csOf (put po s mode root chs).st.db x =
      specStep (csOf s.db) (.put mode root chs) (!(put po s mode root chs).out.isErr) x := by
  obtain ⟨hok, herr⟩ := put_view po s mode root chs
  rw [← put_out_shape]
  cases hex : (put po s mode root chs).out.isExist with
  | false =>
    obtain ⟨hd, hp⟩ := herr hex
    refine ⟨?_, ?_⟩
    · intro a c h
      rw [pget_congr hp] at h
      rw [bget_congr hd]
      exact hI a c h
    · intro x
      simp [specStep, csOf, bget_congr hd, pget_congr hp]
  | true =>
    have hv := hok hex
    refine ⟨?_, ?_⟩
    · intro a c h
      obtain ⟨vb, vp⟩ := hv a
      rw [vp] at h
      rw [vb]
      cases hg : SMap.get a chs with
      | none => rw [hg] at h; exact hI a c h
      | some d =>
        rw [hg] at h
        simp only [] at h ⊢
        rw [has_eq_bget] at h ⊢
        cases hb : bget a s.db with
        | none =>
          have hpn : pget a s.db = none := by
            cases hq : pget a s.db with
            | none => rfl
            | some c0 => have := (hI a c0 hq).2; simp [hb] at this
          have hpn' : SMap.get a s.db.pin = none := hpn
          cases mode <;> simp_all [putEB, putEP]
        | some d0 =>
          cases mode <;> simp_all [putEB, putEP]
          all_goals first
            | exact (hI a c h).1
            | omega
    · intro x
      obtain ⟨vb, vp⟩ := hv x
      simp only [specStep, if_true, csOf, specPut, vb, vp]
      cases hg : SMap.get x chs with
      | none => rfl
      | some d =>
        simp only []
        rw [has_eq_bget]
        cases hb : bget x s.db with
        | none =>
          have hpn : pget x s.db = none := by
            cases hq : pget x s.db with
            | none => rfl
            | some c0 => have := (hI x c0 hq).2; simp [hb] at this
          have hpn' : SMap.get x s.db.pin = none := hpn
          cases mode <;> simp_all [putEB, putEP]
        | some d0 =>
          have hpg : SMap.get x s.db.pin = pget x s.db := rfl
          cases mode <;> simp_all [putEB, putEP]

theorem setLoop_pin_present (root : Option Addr) (addrs : List Addr) :
    ∀ (tx tx' : Tx), setLoop .pin root tx addrs = .ok tx' → ∀ x ∈ addrs, SMap.has x tx.db.data = true := by
  induction addrs with
  | nil => intro tx tx' _ x hx; simp at hx
  | cons a rest ih =>
    intro tx tx' h x hx
    rw [setLoop_cons] at h
    have hf := setStep_frame .pin root tx a
    cases hr : setStep .pin root tx a with
    | error e => rw [hr] at h; simp at h
    | ok t =>
      rw [hr] at h hf
      simp only [resTx_ok] at h hf
      rcases List.mem_cons.1 hx with e | e
      · subst e
        simp only [setStep] at hr
        by_cases hh : SMap.has x tx.db.data = true
        · exact hh
        · simp [hh] at hr
      · have := ih t tx' h x e
        rw [hf.1] at this
        exact this

theorem set_pin_present (s : State) (root : Option Addr) (addrs : List Addr)
    (h : (set s .pin root addrs).out = .ok) : ∀ x ∈ addrs, SMap.has x s.db.data = true := by
  simp only [set, finish, setBody] at h
  have : (SetMode.pin == SetMode.invalid) = false := by decide
  simp only [this, Bool.false_eq_true, if_false] at h
  cases hl : setLoop .pin root (Tx.start s) addrs with
  | error e => rw [hl] at h; simp at h
  | ok t => exact setLoop_pin_present root addrs (Tx.start s) t hl

theorem dec64_pos (c : Nat) (h : c ≥ 1) : dec64 c = c - 1 := by
  simp [dec64]; omega

theorem set_refines (s : State) (mode : SetMode) (root : Option Addr) (addrs : List Addr) (hI : PinInv s.db) :
    PinInv (set s mode root addrs).st.db ∧
    ∀ x, csOf (set s mode root addrs).st.db x =
      specStep (csOf s.db) (.set mode root addrs) (!(set s mode root addrs).out.isErr) x := by
  obtain ⟨hok, herr⟩ := set_view s mode root addrs
  rcases set_out_shape s mode root addrs with ⟨ho, he⟩ | ⟨ho, he⟩
  · -- success
    have hv := hok ho
    rw [he]
    have key : ∀ x, (∀ c, pget x (set s mode root addrs).st.db = some c →
          c ≥ 1 ∧ (bget x (set s mode root addrs).st.db).isSome = true) ∧
        csOf (set s mode root addrs).st.db x = specSet (csOf s.db) mode addrs x := by
      intro x
      obtain ⟨vb, vp⟩ := hv x
      simp only [csOf, specSet, vb, vp]
      by_cases hx : x ∈ addrs
      · simp only [hx, if_true]
        have hpg : SMap.get x s.db.pin = pget x s.db := rfl
        rw [hpg]
        cases hb : bget x s.db with
        | none =>
          have hpn : pget x s.db = none := by
            cases hq : pget x s.db with
            | none => rfl
            | some c0 => have := (hI x c0 hq).2; simp [hb] at this
          cases mode
          · simp_all [setEB, setEP]
          · simp_all [setEB, setEP, rmEB, rmEP]
          · have := set_pin_present s root addrs ho x hx
            rw [has_eq_bget, hb] at this
            simp at this
          · simp_all [setEB, setEP, unpinEP]
          · simp_all [setEB, setEP]
        | some d0 =>
          cases hq : pget x s.db with
          | none =>
            cases mode <;> simp_all [setEB, setEP, rmEB, rmEP, unpinEP]
          | some c =>
            have hc := (hI x c hq).1
            have hd := dec64_pos c hc
            cases mode
            · simp_all [setEB, setEP]
            · simp only [setEB, setEP, rmEB, rmEP, hd]
              by_cases h1 : c > 1
              · have h2 : c - 1 > 0 := by omega
                simp [h1, h2]; omega
              · have h2 : ¬ c - 1 > 0 := by omega
                simp [h1, h2]
            · simp_all [setEB, setEP]
            · simp only [setEB, setEP, unpinEP]
              by_cases h1 : c > 1
              · simp [h1]; omega
              · have : c - 1 = 0 := by omega
                simp [h1, this]
            · simp_all [setEB, setEP]
      · simp only [hx, if_false]
        refine ⟨fun c h => ?_, trivial⟩
        exact hI x c h
    refine ⟨fun a c h => (key a).1 c h, fun x => ?_⟩
    simp only [specStep, Bool.not_false, if_true]
    exact (key x).2
  · obtain ⟨hd, hp⟩ := herr ho
    rw [he]
    refine ⟨?_, ?_⟩
    · intro a c h
      rw [pget_congr hp] at h
      rw [bget_congr hd]
      exact hI a c h
    · intro x
      simp [specStep, csOf, bget_congr hd, pget_congr hp]

/-! ### the other operations leave the chunk set alone -/

theorem updateGC_dp (s : State) (a : Addr) (b : Nat) :
    (updateGC s a b).1.db.data = s.db.data ∧ (updateGC s a b).1.db.pin = s.db.pin ∧
    (updateGC s a b).1.gcRunning = s.gcRunning := by
  simp only [updateGC]
  repeat' split
  all_goals simp [applyLog, applyDW, applyBatch, applyW]

theorem get_dp (s : State) (m : GetMode) (r : Option Addr) (a : Addr) :
    (get s m r a).st.db.data = s.db.data ∧ (get s m r a).st.db.pin = s.db.pin ∧
    (get s m r a).st.gcRunning = s.gcRunning := by
  simp only [get]
  cases hd : SMap.get a s.db.data with
  | none => simp
  | some d =>
    cases m <;> simp only []
    · cases r with
      | none => exact updateGC_dp s a d.binID
      | some r => exact updateGC_dp s r 0
    · simp
    · simp
    · split <;> simp
    · simp

theorem getMulti_fold_dp (items : List (Addr × DataVal)) : ∀ (acc : State × List DW),
    (items.foldl (fun (acc : State × List DW) it =>
        ((updateGC acc.1 it.1 it.2.binID).1, acc.2 ++ (updateGC acc.1 it.1 it.2.binID).2)) acc).1.db.data = acc.1.db.data ∧
    (items.foldl (fun (acc : State × List DW) it =>
        ((updateGC acc.1 it.1 it.2.binID).1, acc.2 ++ (updateGC acc.1 it.1 it.2.binID).2)) acc).1.db.pin = acc.1.db.pin ∧
    (items.foldl (fun (acc : State × List DW) it =>
        ((updateGC acc.1 it.1 it.2.binID).1, acc.2 ++ (updateGC acc.1 it.1 it.2.binID).2)) acc).1.gcRunning = acc.1.gcRunning := by
  induction items with
  | nil => intro acc; simp
  | cons it rest ih =>
    intro acc
    simp only [List.foldl_cons]
    obtain ⟨h1, h2, h3⟩ := ih ((updateGC acc.1 it.1 it.2.binID).1, acc.2 ++ (updateGC acc.1 it.1 it.2.binID).2)
    obtain ⟨g1, g2, g3⟩ := updateGC_dp acc.1 it.1 it.2.binID
    exact ⟨h1.trans g1, h2.trans g2, h3.trans g3⟩

theorem getMulti_dp (s : State) (m : GetMode) (addrs : List Addr) :
    (getMulti s m addrs).st.db.data = s.db.data ∧ (getMulti s m addrs).st.db.pin = s.db.pin ∧
    (getMulti s m addrs).st.gcRunning = s.gcRunning := by
  simp only [getMulti]
  split
  · simp
  · rename_i items _
    cases m <;> simp only []
    · exact getMulti_fold_dp items (s, [])
    · simp
    · simp
    · split <;> simp
    · simp

theorem openDb_dp (db : Db) (cap c st : Nat) :
    (openDb db cap c st).db.data = db.data ∧ (openDb db cap c st).db.pin = db.pin ∧
    (openDb db cap c st).gcRunning = false := by
  unfold openDb openWrites
  by_cases h1 : db.schema <;> by_cases h2 : db.gcSize < gcSum db.gc % two64 <;>
    simp [h1, h2, applyLog, applyDW, applyW]

/-- garbage collection out of reach at this step: a collection run is started only in a state whose
cached-chunk counter is within the target (so the run ends at once, without selecting candidates) -/
def gcQuiet (s : State) (op : Op) : Bool :=
  match op with
  | .gcSelect => decide (s.db.gcSize ≤ gcTarget s.capacity)
  | _ => true

theorem set_volatile (s : State) (mode : SetMode) (root : Option Addr) (addrs : List Addr) :
    (set s mode root addrs).st.gcRunning = s.gcRunning := rfl

theorem specStep_other (cs : ChunkSet) (op : Op) (ok : Bool) (h1 : ∀ m r c, op ≠ .put m r c)
    (h2 : ∀ m r a, op ≠ .set m r a) : specStep cs op ok = cs := by
  unfold specStep
  cases ok
  · rfl
  · cases op <;> simp_all

theorem step_refines (po : Addr → Nat) (s : State) (op : Op) (hr : s.gcRunning = false) (hI : PinInv s.db)
    (hq : gcQuiet s op = true) :
    PinInv (step po s op).db ∧ (step po s op).gcRunning = false ∧
    csOf (step po s op).db = specStep (csOf s.db) op (!(run po s op).out.isErr) := by
  have other : ∀ (s' : State), s'.db.data = s.db.data → s'.db.pin = s.db.pin →
      PinInv s'.db ∧ csOf s'.db = csOf s.db := by
    intro s' hd hp
    refine ⟨?_, ?_⟩
    · intro a c h
      rw [pget_congr hp] at h
      rw [bget_congr hd]
      exact hI a c h
    · funext x
      simp [csOf, bget_congr hd, pget_congr hp]
  cases op with
  | put m r chs =>
    obtain ⟨h1, h2⟩ := put_refines po s m r chs hI
    exact ⟨h1, by simp only [step, run]; rw [put_volatile]; exact hr, funext h2⟩
  | set m r as =>
    obtain ⟨h1, h2⟩ := set_refines s m r as hI
    exact ⟨h1, hr, funext h2⟩
  | get m r a =>
    obtain ⟨g1, g2, g3⟩ := get_dp s m r a
    obtain ⟨o1, o2⟩ := other (get s m r a).st g1 g2
    refine ⟨o1, g3.trans hr, ?_⟩
    rw [specStep_other _ _ _ (fun _ _ _ h => by cases h) (fun _ _ _ h => by cases h)]
    exact o2
  | getMulti m as =>
    obtain ⟨g1, g2, g3⟩ := getMulti_dp s m as
    obtain ⟨o1, o2⟩ := other (getMulti s m as).st g1 g2
    refine ⟨o1, g3.trans hr, ?_⟩
    rw [specStep_other _ _ _ (fun _ _ _ h => by cases h) (fun _ _ _ h => by cases h)]
    exact o2
  | has m a =>
    refine ⟨hI, hr, ?_⟩
    rw [specStep_other _ _ _ (fun _ _ _ h => by cases h) (fun _ _ _ h => by cases h)]
    rfl
  | hasMulti m as =>
    refine ⟨hI, hr, ?_⟩
    rw [specStep_other _ _ _ (fun _ _ _ h => by cases h) (fun _ _ _ h => by cases h)]
    rfl
  | gcSelect =>
    have hq' : s.db.gcSize ≤ gcTarget s.capacity := by simpa [gcQuiet] using hq
    have hst : step po s .gcSelect = { s with dirty := [] } := by
      simp only [step, run, gcSelect, hr, Bool.false_eq_true, if_false, hq', if_true]
    rw [hst, specStep_other _ _ _ (fun _ _ _ h => by cases h) (fun _ _ _ h => by cases h)]
    exact ⟨hI, hr, rfl⟩
  | gcEvict p =>
    have hst : step po s (.gcEvict p) = s := by
      simp only [step, run, gcEvict, hr, Bool.not_false, if_true]
    rw [hst, specStep_other _ _ _ (fun _ _ _ h => by cases h) (fun _ _ _ h => by cases h)]
    exact ⟨hI, hr, rfl⟩
  | reopen =>
    have hst : step po s .reopen = openDb s.db s.capacity s.clock s.clockStep := by
      simp only [step, run, reopen, hr, Bool.false_eq_true, if_false]
    obtain ⟨g1, g2, g3⟩ := openDb_dp s.db s.capacity s.clock s.clockStep
    obtain ⟨o1, o2⟩ := other (openDb s.db s.capacity s.clock s.clockStep) g1 g2
    rw [hst, specStep_other _ _ _ (fun _ _ _ h => by cases h) (fun _ _ _ h => by cases h)]
    exact ⟨o1, g3, o2⟩
  | setCapacity n =>
    refine ⟨hI, hr, ?_⟩
    rw [specStep_other _ _ _ (fun _ _ _ h => by cases h) (fun _ _ _ h => by cases h)]
    rfl
  | setClock t st =>
    refine ⟨hI, hr, ?_⟩
    rw [specStep_other _ _ _ (fun _ _ _ h => by cases h) (fun _ _ _ h => by cases h)]
    rfl

/-! ### histories -/

def runH (po : Addr → Nat) (s : State) (ops : List Op) : State := ops.foldl (step po) s

/-- the observed history: every operation with whether it succeeded -/
def traceH (po : Addr → Nat) : State → List Op → List (Op × Bool)
  | _, [] => []
  | s, op :: ops => (op, !(run po s op).out.isErr) :: traceH po (step po s op) ops

/-- the reference chunk set as a fold over the observed history -/
def specFrom (cs : ChunkSet) (h : List (Op × Bool)) : ChunkSet :=
  h.foldl (fun c e => specStep c e.1 e.2) cs

/-- garbage collection out of reach along the whole history -/
def gcQuietH (po : Addr → Nat) : State → List Op → Bool
  | _, [] => true
  | s, op :: ops => gcQuiet s op && gcQuietH po (step po s op) ops

theorem hist_refines (po : Addr → Nat) (ops : List Op) : ∀ (s : State), s.gcRunning = false → PinInv s.db →
    gcQuietH po s ops = true →
    PinInv (runH po s ops).db ∧ (runH po s ops).gcRunning = false ∧
    csOf (runH po s ops).db = specFrom (csOf s.db) (traceH po s ops) := by
  induction ops with
  | nil => intro s hr hI _; exact ⟨hI, hr, rfl⟩
  | cons op ops ih =>
    intro s hr hI hq
    simp only [gcQuietH, Bool.and_eq_true] at hq
    obtain ⟨h1, h2, h3⟩ := step_refines po s op hr hI hq.1
    obtain ⟨i1, i2, i3⟩ := ih (step po s op) h2 h1 hq.2
    refine ⟨i1, i2, ?_⟩
    simp only [runH, List.foldl_cons, traceH, specFrom] at i3 ⊢
    rw [i3, h3]

theorem pinInv_init (cap : Nat) : PinInv (init cap).db := by
  intro a c h
  obtain ⟨_, g2, _⟩ := openDb_dp {} cap 1 0
  have : pget a (init cap).db = none := by
    rw [show (init cap).db = (openDb {} cap 1 0).db from rfl, pget_congr g2]; rfl
  rw [this] at h; cases h

theorem csOf_init (cap : Nat) : csOf (init cap).db = fun _ => none := by
  funext x
  obtain ⟨g1, _, _⟩ := openDb_dp {} cap 1 0
  have : bget x (init cap).db = none := by
    rw [show (init cap).db = (openDb {} cap 1 0).db from rfl, bget_congr g1]; rfl
  simp [csOf, this]

end Aurora.Localstore
