import Aurora.Model.ChunkPipe
/-!
`ChunkPipe`: invariant "pieces handed on ++ buffer = bytes written so far, every piece handed on by a
`Write` has exactly `size` bytes, the buffer holds at most `size` bytes" for every sequence of writes;
`Close` hands on the rest.
-/
namespace Aurora.ChunkPipe
open Aurora.Bmt (Bytes)

/-- specification of the loop of `Write` -/
theorem writeLoop_spec (size : Nat) (hs : 0 < size) :
    ∀ (fuel : Nat) (buf rest : Bytes) (out : List Bytes),
      rest.length < fuel → buf.length ≤ size →
      (writeLoop size fuel buf rest out).2.flatten ++ (writeLoop size fuel buf rest out).1
          = out.flatten ++ buf ++ rest ∧
      (writeLoop size fuel buf rest out).1.length ≤ size ∧
      ∃ more, (writeLoop size fuel buf rest out).2 = out ++ more ∧ ∀ p ∈ more, p.length = size := by
  intro fuel
  induction fuel with
  | zero => intro buf rest out h; omega
  | succ fuel ih =>
    intro buf rest out hf hb
    simp only [writeLoop]
    by_cases hr : rest = []
    · subst hr
      simp only [↓reduceIte, List.append_nil]
      exact ⟨trivial, hb, [], by simp⟩
    · simp only [hr, ↓reduceIte]
      have hrl : 0 < rest.length := List.length_pos_iff.mpr hr
      generalize hn : min (2 * size - buf.length) rest.length = n
      have hn1 : 1 ≤ n := by omega
      have hn2 : n ≤ rest.length := by omega
      have hn3 : buf.length + n ≤ 2 * size := by omega
      have hlen1 : (buf ++ rest.take n).length = buf.length + n := by
        simp only [List.length_append, List.length_take]; omega
      have hfuel : (rest.drop n).length < fuel := by
        simp only [List.length_drop]; omega
      by_cases hge : (buf ++ rest.take n).length ≥ size
      · simp only [hge, ↓reduceIte]
        have hb' : ((buf ++ rest.take n).drop size).length ≤ size := by
          simp only [List.length_drop, hlen1]; omega
        obtain ⟨h1, h2, more, h3, h4⟩ :=
          ih ((buf ++ rest.take n).drop size) (rest.drop n) (out ++ [(buf ++ rest.take n).take size]) hfuel hb'
        refine ⟨?_, h2, (buf ++ rest.take n).take size :: more, ?_, ?_⟩
        · rw [h1]
          simp only [List.flatten_append, List.flatten_cons, List.flatten_nil, List.append_nil,
            List.append_assoc]
          rw [← List.append_assoc (List.take size _) (List.drop size _), List.take_append_drop,
            List.append_assoc, List.take_append_drop]
        · rw [h3]; simp
        · intro p hp
          rcases List.mem_cons.mp hp with h | h
          · subst h
            simp only [List.length_take, hlen1]; omega
          · exact h4 p h
      · simp only [hge, ↓reduceIte]
        obtain ⟨h1, h2, more, h3, h4⟩ := ih (buf ++ rest.take n) (rest.drop n) out hfuel (by omega)
        refine ⟨?_, h2, more, h3, h4⟩
        rw [h1]
        simp only [List.append_assoc, List.take_append_drop]

/-- invariant of the pipe between calls: `out` are the pieces handed on so far, `data` the bytes
    written so far -/
def Inv (size : Nat) (c : State) (out : List Bytes) (data : Bytes) : Prop :=
  out.flatten ++ c.buf = data ∧ c.buf.length ≤ size ∧ ∀ p ∈ out, p.length = size

theorem inv_init (size : Nat) : Inv size {} [] [] := by
  refine ⟨rfl, Nat.zero_le _, ?_⟩
  intro p hp; cases hp

/-- one `Write` keeps the invariant and reports all its bytes as written -/
theorem write_inv (size : Nat) (hs : 0 < size) (c : State) (out : List Bytes) (data b : Bytes)
    (h : Inv size c out data) :
    Inv size (write size c b).1 (out ++ (write size c b).2.1) (data ++ b) ∧ (write size c b).2.2 = b.length := by
  obtain ⟨h1, h2, h3⟩ := h
  obtain ⟨g1, g2, more, g3, g4⟩ := writeLoop_spec size hs (b.length + 1) c.buf b [] (Nat.lt_succ_self _) h2
  simp only [List.flatten_nil, List.nil_append] at g1 g3
  refine ⟨⟨?_, g2, ?_⟩, rfl⟩
  · show (out ++ (writeLoop size (b.length + 1) c.buf b []).2).flatten ++ (writeLoop size (b.length + 1) c.buf b []).1 = data ++ b
    rw [List.flatten_append, List.append_assoc, g1, ← List.append_assoc, h1]
  · intro p hp
    show p.length = size
    have hp' : p ∈ out ++ (writeLoop size (b.length + 1) c.buf b []).2 := hp
    rcases List.mem_append.mp hp' with hq | hq
    · exact h3 p hq
    · rw [g3] at hq; exact g4 p hq

/-- every sequence of `Write`s keeps the invariant -/
theorem runWrites_inv (size : Nat) (hs : 0 < size) :
    ∀ (ws : List Bytes) (c : State) (out : List Bytes) (data : Bytes), Inv size c out data →
      Inv size (runWrites size ws c out).1 (runWrites size ws c out).2 (data ++ ws.flatten) := by
  intro ws
  induction ws with
  | nil => intro c out data h; simpa [runWrites] using h
  | cons b rest ih =>
    intro c out data h
    simp only [runWrites, List.flatten_cons]
    have := ih (write size c b).1 (out ++ (write size c b).2.1) (data ++ b) (write_inv size hs c out data b h).1
    rwa [List.append_assoc] at this

/-- the pieces leaving the pipe (writes, then `Close`) concatenate to the bytes written; all but the
    last have exactly `size` bytes, the last has `1..size` bytes -/
theorem run_spec (size : Nat) (hs : 0 < size) (ws : List Bytes) :
    (run size ws).flatten = ws.flatten ∧
    (∀ p ∈ (run size ws).dropLast, p.length = size) ∧
    (∀ p ∈ run size ws, 0 < p.length ∧ p.length ≤ size) := by
  obtain ⟨h1, h2, h3⟩ := runWrites_inv size hs ws {} [] [] (inv_init size)
  simp only [List.nil_append] at h1
  unfold run close
  by_cases hb : (runWrites size ws {} []).1.buf.length > 0
  · simp only [hb, ↓reduceIte]
    refine ⟨?_, ?_, ?_⟩
    · rw [List.flatten_append]; simpa using h1
    · intro p hp
      rw [List.dropLast_concat] at hp
      exact h3 p hp
    · intro p hp
      rcases List.mem_append.mp hp with hq | hq
      · have := h3 p hq; omega
      · simp only [List.mem_singleton] at hq; subst hq; exact ⟨hb, h2⟩
  · simp only [hb, ↓reduceIte, List.append_nil]
    have hnil : (runWrites size ws {} []).1.buf = [] := List.eq_nil_of_length_eq_zero (by omega)
    refine ⟨?_, ?_, ?_⟩
    · rw [hnil, List.append_nil] at h1; exact h1
    · intro p hp; exact h3 p ((List.dropLast_sublist _).subset hp)
    · intro p hp; have := h3 p hp; omega

end Aurora.ChunkPipe
