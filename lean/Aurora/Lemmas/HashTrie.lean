import Aurora.Model.HashTrie
/-!
Hash-trie writer: closed form of the streaming state (`state`), and `Sum` = the bottom-up
definition (`rootG` over `levelUpG`).  Everything generic in the element type `α` and `wrap`.
-/
namespace Aurora.HashTrie
open Aurora.Tree

section Generic
variable {α : Type} (wrap : List α → α) (B : Nat)

/-- the wrapped complete `B`-groups of a level -/
def fullWraps (es : List α) : List α :=
  if B = 0 ∨ es.length < B then [] else wrap (es.take B) :: fullWraps (es.drop B)
termination_by es.length
decreasing_by simp only [List.length_drop]; omega

/-- what is left of a level after its complete `B`-groups were wrapped -/
def rem (es : List α) : List α :=
  if B = 0 ∨ es.length < B then es else rem (es.drop B)
termination_by es.length
decreasing_by simp only [List.length_drop]; omega

/-- closed form of the writer's levels after the level-1 entries `es` were written -/
def state : Nat → List α → List (List α)
  | 0, _ => []
  | L + 1, es => rem B es :: state L (fullWraps wrap B es)

theorem state_length (L : Nat) (es : List α) : (state wrap B L es).length = L := by
  induction L generalizing es with
  | zero => rfl
  | succ L ih => simp [state, ih]

theorem rem_short (es : List α) (h : es.length < B) : rem B es = es := by
  rw [rem]; simp [h]

theorem fullWraps_short (es : List α) (h : es.length < B) : fullWraps wrap B es = [] := by
  rw [fullWraps]; simp [h]

/-- measure-induction helper: properties proved by following the `take B / drop B` recursion -/
theorem groups_induction (hB : 0 < B) (P : List α → Prop)
    (short : ∀ es, es.length < B → P es)
    (step : ∀ es, B ≤ es.length → P (es.drop B) → P es) : ∀ es, P es := by
  intro es
  generalize hn : es.length = n
  induction n using Nat.strongRecOn generalizing es with
  | _ n ih =>
    by_cases h : es.length < B
    · exact short es h
    · apply step es (by omega)
      apply ih (es.drop B).length
      · rw [List.length_drop]; omega
      · rfl

theorem rem_length_lt (hB : 0 < B) (es : List α) : (rem B es).length < B := by
  apply groups_induction B hB (fun es => (rem B es).length < B)
  · intro es h; rw [rem_short B es h]; exact h
  · intro es h ih
    rw [rem]
    have h1 : ¬ B = 0 := by omega
    have h2 : ¬ es.length < B := by omega
    simpa [h1, h2] using ih

theorem fullWraps_step (hB : 0 < B) (es : List α) (h : B ≤ es.length) :
    fullWraps wrap B es = wrap (es.take B) :: fullWraps wrap B (es.drop B) := by
  rw [fullWraps]
  have h1 : ¬ B = 0 := by omega
  have h2 : ¬ es.length < B := by omega
  simp [h1, h2]

theorem rem_step (hB : 0 < B) (es : List α) (h : B ≤ es.length) : rem B es = rem B (es.drop B) := by
  rw [rem]
  have h1 : ¬ B = 0 := by omega
  have h2 : ¬ es.length < B := by omega
  simp [h1, h2]

theorem length_decomp (hB : 0 < B) (es : List α) :
    es.length = B * (fullWraps wrap B es).length + (rem B es).length := by
  apply groups_induction B hB (fun es => es.length = B * (fullWraps wrap B es).length + (rem B es).length)
  · intro es h; simp [rem_short B es h, fullWraps_short wrap B es h]
  · intro es h ih
    rw [fullWraps_step wrap B hB es h, rem_step B hB es h]
    simp only [List.length_cons, List.length_drop] at ih ⊢
    rw [Nat.mul_add]; omega

/-- appending to a level only affects its remainder -/
theorem append_decomp (hB : 0 < B) (c : List α) (es : List α) :
    fullWraps wrap B (es ++ c) = fullWraps wrap B es ++ fullWraps wrap B (rem B es ++ c) ∧
    rem B (es ++ c) = rem B (rem B es ++ c) := by
  apply groups_induction B hB (fun es =>
    fullWraps wrap B (es ++ c) = fullWraps wrap B es ++ fullWraps wrap B (rem B es ++ c) ∧
    rem B (es ++ c) = rem B (rem B es ++ c))
  · intro es h; simp [rem_short B es h, fullWraps_short wrap B es h]
  · intro es h ih
    have hl : B ≤ (es ++ c).length := by simp; omega
    rw [fullWraps_step wrap B hB (es ++ c) hl, rem_step B hB (es ++ c) hl,
      fullWraps_step wrap B hB es h, rem_step B hB es h]
    rw [List.take_append_of_le_length h, List.drop_append_of_le_length h]
    exact ⟨by rw [ih.1]; simp, ih.2⟩

theorem append_lt (hB : 0 < B) (c es : List α) (h : (rem B es ++ c).length < B) :
    fullWraps wrap B (es ++ c) = fullWraps wrap B es ∧ rem B (es ++ c) = rem B es ++ c := by
  have := append_decomp wrap B hB c es
  rw [this.1, this.2, fullWraps_short wrap B _ h, rem_short B _ h]
  simp

theorem append_eq (hB : 0 < B) (c es : List α) (h : (rem B es ++ c).length = B) :
    fullWraps wrap B (es ++ c) = fullWraps wrap B es ++ [wrap (rem B es ++ c)] ∧ rem B (es ++ c) = [] := by
  have := append_decomp wrap B hB c es
  rw [this.1, this.2]
  have h1 : fullWraps wrap B (rem B es ++ c) = [wrap (rem B es ++ c)] := by
    rw [fullWraps_step wrap B hB _ (by omega)]
    rw [List.take_of_length_le (by omega), List.drop_of_length_le (by omega)]
    rw [fullWraps_short wrap B [] (by simpa using hB)]
  have h2 : rem B (rem B es ++ c) = [] := by
    rw [rem_step B hB _ (by omega), List.drop_of_length_le (by omega)]
    exact rem_short B [] (by simpa using hB)
  rw [h1, h2]; exact ⟨rfl, rfl⟩

/-- streaming one more entry keeps the closed form -/
theorem push_state (hB : 0 < B) (L : Nat) : ∀ (es : List α) (e : α),
    (push wrap B (state wrap B L es) e).1 = state wrap B L (es ++ [e]) := by
  induction L with
  | zero => intro es e; rfl
  | succ L ih =>
    intro es e
    simp only [state, push]
    by_cases h : (rem B es ++ [e]).length = B
    · simp only [h, ↓reduceIte]
      have := append_eq wrap B hB [e] es h
      rw [this.1, this.2, ih]
    · simp only [h, ↓reduceIte]
      have hlt : (rem B es ++ [e]).length < B := by
        have := rem_length_lt B hB es
        simp only [List.length_append, List.length_cons, List.length_nil] at h ⊢
        omega
      have := append_lt wrap B hB [e] es hlt
      rw [this.1, this.2]

/-- below the level limit the `full` flag is not set -/
theorem push_flag (hB : 0 < B) (L : Nat) : ∀ (es : List α) (e : α), es.length + 1 < B ^ L →
    (push wrap B (state wrap B (L + 1) es) e).2.1 = false := by
  induction L with
  | zero => intro es e h; simp at h
  | succ L ih =>
    intro es e hlt
    rw [state]
    simp only [push, List.length_append, List.length_cons, List.length_nil, Nat.zero_add]
    by_cases h : (rem B es).length + 1 = B
    · simp only [h, ↓reduceIte, state_length]
      have hdec := length_decomp wrap B hB es
      have hp : B ^ (L + 1) = B * B ^ L := Nat.pow_succ'
      have hq : (fullWraps wrap B es).length + 1 < B ^ L := by
        have h1 : B * ((fullWraps wrap B es).length + 1) < B * B ^ L := by
          rw [Nat.mul_add, Nat.mul_one, ← hp]
          omega
        exact Nat.lt_of_mul_lt_mul_left h1
      rw [ih _ _ hq]
      have hL : ¬ (L = 0) := by
        intro h1
        subst h1
        simp at hq
      simp [hL]
    · simp [h]

/-- `levelUpG` in terms of the complete groups and the remainder -/
def tailOf (g : List α) : List α :=
  match g with
  | [] => []
  | [e] => [e]
  | g => [wrap g]

theorem tailOf_length_le (g : List α) : (tailOf wrap g).length ≤ g.length ∧ (tailOf wrap g).length ≤ 1 ∧
    (tailOf wrap g = [] → g = []) := by
  cases g with
  | nil => simp [tailOf]
  | cons a t =>
    cases t with
    | nil => simp [tailOf]
    | cons b r => simp [tailOf]

theorem levelUpG_le (es : List α) (h : es.length ≤ B) : levelUpG wrap B es = tailOf wrap es := by
  rw [levelUpG.eq_def, if_pos (Or.inr h)]
  cases es with
  | nil => rfl
  | cons a t =>
    cases t with
    | nil => rfl
    | cons b r => rfl

theorem levelUpG_gt (es : List α) (h0 : 0 < B) (h : B < es.length) :
    levelUpG wrap B es = wrap (es.take B) :: levelUpG wrap B (es.drop B) := by
  rw [levelUpG.eq_def, if_neg (by intro h'; rcases h' with h' | h' <;> omega)]

theorem levelUp_decomp (hB : 2 ≤ B) (es : List α) :
    levelUpG wrap B es = fullWraps wrap B es ++ tailOf wrap (rem B es) := by
  have hB0 : 0 < B := by omega
  apply groups_induction B hB0 (fun es => levelUpG wrap B es = fullWraps wrap B es ++ tailOf wrap (rem B es))
  · intro es h
    rw [rem_short B es h, fullWraps_short wrap B es h, levelUpG_le wrap B es (by omega)]
    rfl
  · intro es h ih
    rw [fullWraps_step wrap B hB0 es h, rem_step B hB0 es h]
    by_cases hle : es.length ≤ B
    · have heq : es.length = B := by omega
      rw [levelUpG_le wrap B es hle]
      rw [List.take_of_length_le (by omega), List.drop_of_length_le (by omega)]
      rw [fullWraps_short wrap B [] (by simpa using hB0), rem_short B [] (by simpa using hB0)]
      match es, heq with
      | [], heq => simp at heq; omega
      | [a], heq => simp at heq; omega
      | a :: b :: rest, _ => rfl
    · rw [levelUpG_gt wrap B es hB0 (by omega), ih]; simp

theorem rootG_stable : ∀ (f : Nat) (es : List α) (r : α), rootG wrap B f es = some r →
    ∀ f', f ≤ f' → rootG wrap B f' es = some r := by
  intro f
  induction f with
  | zero =>
    intro es r h f' _
    match es, h with
    | [e], h => simpa [rootG] using h
    | [], h => simp [rootG] at h
    | _ :: _ :: _, h => simp [rootG] at h
  | succ f ih =>
    intro es r h f' hf
    match es, h with
    | [e], h => simpa [rootG] using h
    | [], h =>
      obtain ⟨f'', rfl⟩ : ∃ k, f' = k + 1 := ⟨f' - 1, by omega⟩
      simp only [rootG] at h ⊢
      exact ih _ _ h _ (by omega)
    | a :: b :: rest, h =>
      obtain ⟨f'', rfl⟩ : ∃ k, f' = k + 1 := ⟨f' - 1, by omega⟩
      simp only [rootG] at h ⊢
      exact ih _ _ h _ (by omega)

theorem fullWraps_nonempty (hB : 0 < B) (es : List α) (h : B ≤ es.length) : fullWraps wrap B es ≠ [] := by
  rw [fullWraps_step wrap B hB es h]; simp

/-- **`Sum` computes the bottom-up root.**  The writer is at a level whose complete content is
    `X ++ c` (`X` streamed there, `c` = at most one element carried/wrapped up from below), the
    `L` levels above hold the closed form of `fullWraps X`; if the content fits
    (`|X ++ c| ≤ B^L`), `sumUp` returns `rootG` of it. -/
theorem sumUp_root (hB : 2 ≤ B) (L : Nat) : ∀ (X c : List α) (fuel : Nat),
    c.length ≤ 1 → X ++ c ≠ [] → (X ++ c).length ≤ B ^ L → L ≤ fuel →
    (sumUp wrap B ((rem B X ++ c) :: state wrap B L (fullWraps wrap B X))).1 = rootG wrap B fuel (X ++ c) := by
  have hB0 : 0 < B := by omega
  induction L with
  | zero =>
    intro X c fuel hc hne hlen _
    simp only [Nat.pow_zero] at hlen
    have hX : X.length < B := by simp at hlen; omega
    rw [rem_short B X hX]
    simp only [state]
    match hY : X ++ c, hne, hlen with
    | [e], _, _ => simp [sumUp, rootG]
    | _ :: _ :: _, _, hlen => simp at hlen
  | succ L ih =>
    intro X c fuel hc hne hlen hfuel
    obtain ⟨fuel', rfl⟩ : ∃ k, fuel = k + 1 := ⟨fuel - 1, by omega⟩
    have hf' : L ≤ fuel' := by omega
    rw [state]
    -- facts about the level content Y = X ++ c
    have hdecY := length_decomp wrap B hB0 (X ++ c)
    have hup := levelUp_decomp wrap B hB (X ++ c)
    have hremlt := rem_length_lt B hB0 X
    have hpow : B ^ (L + 1) = B * B ^ L := Nat.pow_succ'
    rw [sumUp]
    by_cases h0 : (rem B X ++ c).length = 0
    · -- level empty: continue
      simp only [h0, ↓reduceIte]
      have hl : rem B X ++ c = [] := List.eq_nil_of_length_eq_zero h0
      have hc0 : c = [] := (List.append_eq_nil_iff.mp hl).2
      have hr0 : rem B X = [] := (List.append_eq_nil_iff.mp hl).1
      subst hc0
      simp only [List.append_nil] at hne hlen hdecY hup ⊢
      have hXB : B ≤ X.length := by
        have h1 : ¬ X.length < B := by
          intro h; rw [rem_short B X h] at hr0; exact hne hr0
        omega
      have hX' := fullWraps_nonempty wrap B hB0 X hXB
      have hlen' : (fullWraps wrap B X).length ≤ B ^ L := by
        rw [hr0] at hdecY
        simp only [List.length_nil, Nat.add_zero] at hdecY
        rw [hdecY, hpow] at hlen
        exact Nat.le_of_mul_le_mul_left hlen hB0
      have := ih (fullWraps wrap B X) [] fuel' (by simp) (by simpa using hX') (by simpa using hlen') hf'
      simp only [List.append_nil] at this
      rw [this]
      have h2 : 2 ≤ X.length := by omega
      match X, h2, hup, hr0 with
      | a :: b :: rest, _, hup, hr0 =>
        simp only [rootG]
        rw [hup, hr0]; simp [tailOf]
    · simp only [h0, ↓reduceIte]
      have hwrapcase : ∀ (hl2 : 2 ≤ (rem B X ++ c).length),
          (sumUp wrap B (push wrap B (state wrap B (L + 1) (fullWraps wrap B X)) (wrap (rem B X ++ c))).1).1
            = rootG wrap B (fuel' + 1) (X ++ c) := by
        intro hl2
        rw [push_state wrap B hB0]
        -- the next level's content
        have hlevel : levelUpG wrap B (X ++ c) = fullWraps wrap B X ++ [wrap (rem B X ++ c)] := by
          rw [hup]
          by_cases hfull : (rem B X ++ c).length = B
          · have := append_eq wrap B hB0 c X hfull
            rw [this.1, this.2]; simp [tailOf]
          · have hlt : (rem B X ++ c).length < B := by
              simp only [List.length_append] at hfull ⊢; omega
            have := append_lt wrap B hB0 c X hlt
            rw [this.1, this.2]
            match hg : rem B X ++ c, hl2 with
            | a :: b :: rest, _ => simp [tailOf]
        have hY2 : 2 ≤ (X ++ c).length := by
          have := (append_decomp wrap B hB0 c X)
          have hd := length_decomp wrap B hB0 X
          simp only [List.length_append] at hl2 ⊢
          omega
        have hroot : rootG wrap B (fuel' + 1) (X ++ c) = rootG wrap B fuel' (levelUpG wrap B (X ++ c)) := by
          match hY : X ++ c, hY2 with
          | a :: b :: rest, _ => simp only [rootG]
        rw [hroot, hlevel]
        have hlen' : (fullWraps wrap B X ++ [wrap (rem B X ++ c)]).length ≤ B ^ L := by
          rw [← hlevel, hup]
          -- |levelUp Y| ≤ B^L from |Y| ≤ B * B^L
          rw [hpow] at hlen
          by_cases hr : rem B (X ++ c) = []
          · rw [hr] at hdecY ⊢
            simp only [List.length_nil, Nat.add_zero] at hdecY
            rw [hdecY] at hlen
            simpa [tailOf] using Nat.le_of_mul_le_mul_left hlen hB0
          · have hrl : 0 < (rem B (X ++ c)).length := List.length_pos_iff.mpr hr
            have hrlt := rem_length_lt B hB0 (X ++ c)
            have hq : (fullWraps wrap B (X ++ c)).length < B ^ L := by
              have : B * (fullWraps wrap B (X ++ c)).length < B * B ^ L := by omega
              exact Nat.lt_of_mul_lt_mul_left this
            have ht : (tailOf wrap (rem B (X ++ c))).length = 1 := by
              match hg : rem B (X ++ c), hr with
              | [e], _ => rfl
              | a :: b :: rest, _ => rfl
            simp only [List.length_append, ht]; omega
        have := ih (fullWraps wrap B X ++ [wrap (rem B X ++ c)]) [] fuel' (by simp) (by simp)
          (by simpa using hlen') hf'
        simpa [state] using this
      by_cases hfull : (rem B X ++ c).length = B
      · simp only [hfull, ↓reduceIte]
        exact hwrapcase (by omega)
      · simp only [hfull, ↓reduceIte]
        by_cases h1 : (rem B X ++ c).length = 1
        · -- exactly one reference: carry
          simp only [h1, ↓reduceIte]
          have hlt : (rem B X ++ c).length < B := by omega
          have happ := append_lt wrap B hB0 c X hlt
          obtain ⟨e, he⟩ : ∃ e, rem B X ++ c = [e] := by
            match hg : rem B X ++ c, h1 with
            | [e], _ => exact ⟨e, rfl⟩
          have hlevel : levelUpG wrap B (X ++ c) = fullWraps wrap B X ++ [e] := by
            rw [hup, happ.1, happ.2, he]; rfl
          have hlen' : (fullWraps wrap B X ++ [e]).length ≤ B ^ L := by
            rw [← hlevel, hup, happ.1, happ.2, he]
            rw [hpow] at hlen
            have hd := length_decomp wrap B hB0 (X ++ c)
            rw [happ.1, happ.2, he] at hd
            have hq : (fullWraps wrap B X).length < B ^ L := by
              have : B * (fullWraps wrap B X).length < B * B ^ L := by
                simp only [List.length_cons, List.length_nil] at hd; omega
              exact Nat.lt_of_mul_lt_mul_left this
            simp only [tailOf, List.length_append, List.length_cons, List.length_nil]; omega
          have := ih (fullWraps wrap B X) [e] fuel' (by simp) (by simp) hlen' hf'
          rw [he, this]
          by_cases hY1 : (X ++ c).length = 1
          · -- the whole level is that single reference
            have hXs : X.length < B := by simp at hY1; omega
            rw [fullWraps_short wrap B X hXs]
            rw [rem_short B X hXs] at he
            rw [he]
            simp [rootG]
          · have hY2 : 2 ≤ (X ++ c).length := by
              have : 0 < (X ++ c).length := List.length_pos_iff.mpr hne
              omega
            match hY : X ++ c, hY2 with
            | a :: b :: rest, _ =>
              simp only [rootG]
              rw [← hY, hlevel]
        · simp only [h1, ↓reduceIte]
          exact hwrapcase (by omega)

/-- `es.length` is always enough fuel for `rootG` -/
theorem rootG_enough (hB : 2 ≤ B) : ∀ (n : Nat) (es : List α), es.length ≤ n → es ≠ [] →
    ∃ r, rootG wrap B n es = some r := by
  have hB0 : 0 < B := by omega
  intro n
  induction n with
  | zero => intro es h hne; exact absurd (List.eq_nil_of_length_eq_zero (by omega)) hne
  | succ n ih =>
    intro es h hne
    match es, hne with
    | [e], _ => exact ⟨e, by simp [rootG]⟩
    | a :: b :: rest, _ =>
      simp only [rootG]
      apply ih
      · -- |levelUp es| < |es|
        have hup := levelUp_decomp wrap B hB (a :: b :: rest)
        have hd := length_decomp wrap B hB0 (a :: b :: rest)
        rw [hup]
        have ht := (tailOf_length_le wrap (rem B (a :: b :: rest))).1
        have ht1 := (tailOf_length_le wrap (rem B (a :: b :: rest))).2.1
        simp only [List.length_append]
        simp only [List.length_cons] at h hd
        generalize (fullWraps wrap B (a :: b :: rest)).length = q at *
        generalize (rem B (a :: b :: rest)).length = r at *
        generalize (tailOf wrap (rem B (a :: b :: rest))).length = t at *
        have hBq : 2 * q ≤ B * q := Nat.mul_le_mul_right q hB
        rcases Nat.eq_zero_or_pos q with hq | hq
        · subst hq; simp only [Nat.mul_zero, Nat.zero_add] at hd; omega
        · omega
      · have hup := levelUp_decomp wrap B hB (a :: b :: rest)
        rw [hup]
        intro hnil
        have h1 := (List.append_eq_nil_iff.mp hnil).1
        have h2 := (List.append_eq_nil_iff.mp hnil).2
        have hr : rem B (a :: b :: rest) = [] := (tailOf_length_le wrap _).2.2 h2
        have hd := length_decomp wrap B hB0 (a :: b :: rest)
        rw [h1, hr] at hd; simp at hd

end Generic

end Aurora.HashTrie
