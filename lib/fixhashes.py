#!/usr/bin/env python3
"""rewrite commit hashes in known-findings.txt / notes / checks from builders' branch commits to the
cherry-picked commits on /repo main (uses the `(cherry picked from commit …)` trailer of `cherry-pick -x`)."""
import subprocess, re, glob
log = subprocess.run(['git', '-C', '/repo', 'log', '--format=%H%n%B%n==END==', 'main'], capture_output=True, text=True).stdout
m = {}
for block in log.split('==END==\n'):
    lines = block.strip().splitlines()
    if not lines: continue
    new = lines[0]
    for l in lines[1:]:
        r = re.search(r'cherry picked from commit ([0-9a-f]{40})', l)
        if r: m[r.group(1)[:7]] = new[:7]
files = ['/verif/known-findings.txt'] + glob.glob('/verif/notes/*.md') + glob.glob('/verif/checks/*.json')
for f in files:
    s = open(f).read(); t = s
    for old, new in m.items():
        t = re.sub(r'\b' + old + r'\b', new, t)
    if t != s:
        open(f, 'w').write(t); print('rewrote hashes in', f)
