import Aurora.Lemmas.HashTrie
import Aurora.Lemmas.Tree
/-!
The bottom-up specification on trees (`specTree`): it is the tree whose reference `Spec.root`
computes, it is well formed, and its leaves concatenate to the data.
-/
namespace Aurora.HashTrie
open Aurora.Bmt (Bytes)
open Aurora.Cac (le64)
open Aurora.Tree

section Map
variable {α β : Type} (wa : List α → α) (wb : List β → β) (B : Nat) (f : α → β)
  (hw : ∀ g, f (wa g) = wb (g.map f))
include hw

theorem levelUpG_map (hB : 0 < B) (es : List α) :
    levelUpG wb B (es.map f) = (levelUpG wa B es).map f := by
  apply groups_induction B hB (fun es => levelUpG wb B (es.map f) = (levelUpG wa B es).map f)
  · intro es h
    rw [levelUpG_le wb B _ (by simp; omega), levelUpG_le wa B es (by omega)]
    match es with
    | [] => rfl
    | [a] => rfl
    | a :: b :: r => simp [tailOf, hw]
  · intro es h ih
    by_cases hle : es.length ≤ B
    · rw [levelUpG_le wb B _ (by simp; omega), levelUpG_le wa B es hle]
      match es with
      | [] => rfl
      | [a] => rfl
      | a :: b :: r => simp [tailOf, hw]
    · rw [levelUpG_gt wb B _ hB (by simp; omega), levelUpG_gt wa B es hB (by omega)]
      rw [← List.map_drop, ih, ← List.map_take]
      simp [hw]

theorem rootG_map (hB : 0 < B) : ∀ (fuel : Nat) (es : List α),
    rootG wb B fuel (es.map f) = (rootG wa B fuel es).map f := by
  intro fuel
  induction fuel with
  | zero =>
    intro es
    match es with
    | [] => rfl
    | [a] => rfl
    | a :: b :: r => rfl
  | succ n ih =>
    intro es
    match es with
    | [] => simp only [List.map_nil, rootG]; rw [← ih]; rw [← levelUpG_map wa wb B f hw hB]; rfl
    | [a] => rfl
    | a :: b :: r =>
      simp only [List.map_cons, rootG]
      rw [← ih, ← levelUpG_map wa wb B f hw hB]; rfl

end Map

section SpecTree
variable (cref : Bytes → Bytes → Bytes) (C B : Nat)

theorem flatMap_ref (g : List T) : (g.map (T.entry cref)).flatMap Entry.ref = refsL cref g := by
  induction g with
  | nil => rfl
  | cons t ts ih => simp only [List.map_cons, List.flatMap_cons, ih, refsL]; rfl

theorem entry_wrapT (g : List T) : (wrapT g).entry cref = wrapE cref (g.map (T.entry cref)) := by
  simp only [wrapT, T.entry, T.size, T.ref, wrapE, flatMap_ref, List.map_map]
  rfl

/-- **`Spec.root` is the reference of `specTree`** -/
theorem specRoot_eq_tree (hB : 0 < B) (data : Bytes) :
    Spec.root cref C B data = (specTree C B data).map (T.ref cref) := by
  unfold Spec.root specTree
  have hmap : (leafData C data).map (leafEntry cref) = ((leafData C data).map T.leaf).map (T.entry cref) := by
    simp only [List.map_map]; rfl
  simp only [hmap, List.length_map]
  rw [rootG_map wrapT (wrapE cref) B (T.entry cref) (entry_wrapT cref) hB]
  simp only [Option.map_map]
  rfl

/-- a level of the bottom-up construction: all elements but the last are full subtrees of height
    ≤ `k`, the last one is a non-empty well-formed subtree of height ≤ `k` -/
def Lev (k : Nat) (ts : List T) : Prop :=
  ∃ init last, ts = init ++ [last] ∧ (∀ x ∈ init, Full C B k x) ∧ WF C B k last ∧ 0 < last.size ∧
    last.size ≤ C * B ^ k

theorem wrapT_node (k : Nat) (hB : 2 ≤ B) (hC : 0 < C) (init : List T) (last : T) (h1 : 1 ≤ init.length)
    (h2 : init.length + 1 ≤ B) (hinit : ∀ x ∈ init, Full C B k x) (hl : WF C B k last) (hpos : 0 < last.size)
    (hle : last.size ≤ C * B ^ k) :
    WF C B (k + 1) (wrapT (init ++ [last])) ∧ 0 < (wrapT (init ++ [last])).size ∧
    (wrapT (init ++ [last])).size ≤ C * B ^ (k + 1) ∧
    (wrapT (init ++ [last])).size = init.length * (C * B ^ k) + last.size := by
  have hQ := node_span init last (C * B ^ k) (fun x hx => (hinit x hx).2)
  have hw : WF C B (k + 1) (wrapT (init ++ [last])) := by
    rw [WF]; right
    exact ⟨_, init, last, rfl, h1, h2, hinit, hl, hpos, hle, rfl⟩
  have hs : (wrapT (init ++ [last])).size = init.length * (C * B ^ k) + last.size := hQ
  refine ⟨hw, ?_, (WF_flat_size C B (by omega) (k + 1) _ hw).2, hs⟩
  rw [hs]; omega

theorem flatL_levelUp (hB : 0 < B) (ts : List T) : flatL (levelUpG wrapT B ts) = flatL ts := by
  apply groups_induction B hB (fun ts => flatL (levelUpG wrapT B ts) = flatL ts)
  · intro es h
    rw [levelUpG_le wrapT B es (by omega)]
    match es with
    | [] => rfl
    | [a] => rfl
    | a :: b :: r => simp [tailOf, wrapT, flatL, T.flat]
  · intro es h ih
    by_cases hle : es.length ≤ B
    · rw [levelUpG_le wrapT B es hle]
      match es with
      | [] => rfl
      | [a] => rfl
      | a :: b :: r => simp [tailOf, wrapT, flatL, T.flat]
    · rw [levelUpG_gt wrapT B es hB (by omega), flatL, ih]
      simp only [wrapT, T.flat]
      rw [← flatL_append, List.take_append_drop]

theorem lev_small (k : Nat) (hB : 2 ≤ B) (hC : 0 < C) (ts : List T) (hle : ts.length ≤ B) (hl : Lev C B k ts) :
    Lev C B (k + 1) (tailOf wrapT ts) := by
  obtain ⟨init, last, rfl, hinit, hlast, hpos, hsz⟩ := hl
  cases init with
  | nil =>
    exact ⟨[], last, rfl, by simp, WF_mono C B k last hlast, hpos,
      Nat.le_trans hsz (pow_mono C B k (by omega))⟩
  | cons a r =>
    have e : tailOf wrapT ((a :: r) ++ [last]) = [wrapT ((a :: r) ++ [last])] := by
      cases r <;> rfl
    rw [e]
    have := wrapT_node C B k hB hC (a :: r) last (by simp) (by simpa using hle) hinit hlast hpos hsz
    exact ⟨[], _, rfl, by simp, this.1, this.2.1, this.2.2.1⟩

theorem lev_levelUp (k : Nat) (hB : 2 ≤ B) (hC : 0 < C) (ts : List T) :
    Lev C B k ts → Lev C B (k + 1) (levelUpG wrapT B ts) := by
  have hB0 : 0 < B := by omega
  apply groups_induction B hB0 (fun ts => Lev C B k ts → Lev C B (k + 1) (levelUpG wrapT B ts))
  · intro es h hl
    rw [levelUpG_le wrapT B es (by omega)]
    exact lev_small C B k hB hC es (by omega) hl
  · intro es h ih hl
    by_cases hle : es.length ≤ B
    · rw [levelUpG_le wrapT B es hle]
      exact lev_small C B k hB hC es hle hl
    · rw [levelUpG_gt wrapT B es hB0 (by omega)]
      obtain ⟨init, last, rfl, hinit, hlast, hpos, hsz⟩ := hl
      have hil : B ≤ init.length := by simp at hle; omega
      -- the first group lies inside `init`
      have htake : (init ++ [last]).take B = init.take B := List.take_append_of_le_length hil
      have hdrop : (init ++ [last]).drop B = init.drop B ++ [last] := List.drop_append_of_le_length hil
      rw [htake, hdrop]
      have hrest : Lev C B k (init.drop B ++ [last]) :=
        ⟨init.drop B, last, rfl, fun x hx => hinit x (List.mem_of_mem_drop hx), hlast, hpos, hsz⟩
      rw [hdrop] at ih
      obtain ⟨init', last', e', hinit', hlast', hpos', hsz'⟩ := ih hrest
      -- the first group is a full node
      have hg : (init.take B).length = B := by simp; omega
      have hgfull : ∀ x ∈ init.take B, Full C B k x := fun x hx => hinit x (List.mem_of_mem_take hx)
      have hne : init.take B ≠ [] := by intro h0; rw [h0] at hg; simp at hg; omega
      have hsplit : init.take B = (init.take B).dropLast ++ [(init.take B).getLast hne] :=
        (List.dropLast_concat_getLast hne).symm
      have hlastfull : Full C B k ((init.take B).getLast hne) := hgfull _ (List.getLast_mem hne)
      have hQpos : 0 < C * B ^ k := Nat.mul_pos hC (Nat.pow_pos (by omega))
      have hnode := wrapT_node C B k hB hC (init.take B).dropLast ((init.take B).getLast hne)
        (by simp [hg]; omega) (by simp [hg]; omega)
        (fun x hx => hgfull x (List.dropLast_subset _ hx)) hlastfull.1 (by rw [hlastfull.2]; exact hQpos)
        (by rw [hlastfull.2]; exact Nat.le_refl _)
      rw [← hsplit] at hnode
      have hfull : Full C B (k + 1) (wrapT (init.take B)) := by
        refine ⟨hnode.1, ?_⟩
        rw [hnode.2.2.2, hlastfull.2]
        simp only [List.length_dropLast, hg]
        have hB' : B - 1 + 1 = B := by omega
        have e1 : (B - 1) * (C * B ^ k) + C * B ^ k = B * (C * B ^ k) := by
          calc (B - 1) * (C * B ^ k) + C * B ^ k = (B - 1 + 1) * (C * B ^ k) := by
                rw [Nat.add_mul, Nat.one_mul]
            _ = B * (C * B ^ k) := by rw [hB']
        rw [e1, Nat.pow_succ, Nat.mul_comm (B ^ k) B, Nat.mul_left_comm]
      refine ⟨wrapT (init.take B) :: init', last', by rw [e']; simp, ?_, hlast', hpos', hsz'⟩
      intro x hx
      rcases List.mem_cons.mp hx with h | h
      · subst h; exact hfull
      · exact hinit' x h

/-- the result of the bottom-up iteration on a level is a well-formed tree with the same leaves -/
theorem rootG_WF (hB : 2 ≤ B) (hC : 0 < C) : ∀ (fuel k : Nat) (ts : List T) (t : T),
    Lev C B k ts → rootG wrapT B fuel ts = some t → (∃ h, WF C B h t) ∧ t.flat = flatL ts := by
  intro fuel
  induction fuel with
  | zero =>
    intro k ts t hl hr
    match ts, hr with
    | [e], hr =>
      simp only [rootG, Option.some.injEq] at hr; subst hr
      obtain ⟨init, last, e1, _, hlast, _, _⟩ := hl
      have : init = [] ∧ last = e := by
        cases init with
        | nil => simp at e1; exact ⟨rfl, e1.symm⟩
        | cons a r => simp at e1
      rw [this.2] at hlast
      exact ⟨⟨k, hlast⟩, by simp [flatL]⟩
    | [], hr => simp [rootG] at hr
    | _ :: _ :: _, hr => simp [rootG] at hr
  | succ n ih =>
    intro k ts t hl hr
    match ts, hr, hl with
    | [e], hr, hl =>
      simp only [rootG, Option.some.injEq] at hr; subst hr
      obtain ⟨init, last, e1, _, hlast, _, _⟩ := hl
      have : init = [] ∧ last = e := by
        cases init with
        | nil => simp at e1; exact ⟨rfl, e1.symm⟩
        | cons a r => simp at e1
      rw [this.2] at hlast
      exact ⟨⟨k, hlast⟩, by simp [flatL]⟩
    | [], hr, hl =>
      obtain ⟨init, last, e1, _⟩ := hl
      simp at e1
    | a :: b :: r, hr, hl =>
      simp only [rootG] at hr
      have := ih (k + 1) _ t (lev_levelUp C B k hB hC _ hl) hr
      exact ⟨this.1, by rw [this.2, flatL_levelUp B (by omega)]⟩

/-- the data chunks of non-empty data form a level-0 row: all full but the last, which is non-empty -/
theorem pieces_lev (hC : 0 < C) (hB : 1 ≤ B) (data : Bytes) (hne : data ≠ []) :
    Lev C B 0 ((pieces C data).map T.leaf) ∧ flatL ((pieces C data).map T.leaf) = data := by
  generalize hn : data.length = n
  induction n using Nat.strongRecOn generalizing data with
  | _ n ih =>
    subst hn
    rw [pieces]
    have hC0 : ¬ C = 0 := by omega
    by_cases h : data.length ≤ C
    · simp only [h, or_true, ↓reduceIte, hne, List.map_cons, List.map_nil]
      have hpos : 0 < data.length := List.length_pos_iff.mpr hne
      exact ⟨⟨[], .leaf data, rfl, by simp, ⟨data, rfl, h⟩, hpos, by simpa [T.size] using h⟩,
        by simp [flatL, T.flat]⟩
    · simp only [hC0, h, or_self, ↓reduceIte, List.map_cons]
      have hdne : data.drop C ≠ [] := by
        intro h0
        have := congrArg List.length h0
        simp at this; omega
      have := ih (data.drop C).length (by rw [List.length_drop]; omega) (data.drop C) hdne rfl
      obtain ⟨⟨init, last, e, hinit, hlast, hpos, hsz⟩, hflat⟩ := this
      refine ⟨⟨.leaf (data.take C) :: init, last, by rw [e]; simp, ?_, hlast, hpos, hsz⟩, ?_⟩
      · intro x hx
        rcases List.mem_cons.mp hx with h1 | h1
        · subst h1
          have hl : (data.take C).length = C := by simp; omega
          exact ⟨⟨data.take C, rfl, by omega⟩, by simp [T.size, hl]⟩
        · exact hinit x h1
      · rw [flatL, hflat]; simp [T.flat]

/-- **The spec tree is well formed and its leaves are the data** (`levelUp_tree_is_WF`). -/
theorem specTree_WF (hC : 0 < C) (hB : 2 ≤ B) (data : Bytes) :
    ∃ t, specTree C B data = some t ∧ (∃ h, WF C B h t) ∧ t.flat = data := by
  unfold specTree leafData
  by_cases hd : data = []
  · subst hd
    refine ⟨.leaf [], by simp [rootG], ⟨0, ⟨[], rfl, by simp⟩⟩, rfl⟩
  · simp only [hd, ↓reduceIte]
    have hne : (pieces C data).map T.leaf ≠ [] := by
      obtain ⟨⟨init, last, e, _⟩, _⟩ := pieces_lev C B hC (by omega) data hd
      rw [e]; simp
    obtain ⟨t, ht⟩ := rootG_enough wrapT B hB _ _ (Nat.le_refl _) hne
    have hl := pieces_lev C B hC (by omega) data hd
    have := rootG_WF C B hB hC _ 0 _ t hl.1 ht
    exact ⟨t, ht, this.1, by rw [this.2, hl.2]⟩

end SpecTree

end Aurora.HashTrie
