package c37

import (
	"context"
	"sync"
	"time"

	"github.com/gauss-project/aurorafs/pkg/addressbook"
	"github.com/gauss-project/aurorafs/pkg/aurora"
	"github.com/gauss-project/aurorafs/pkg/boson"
	"github.com/gauss-project/aurorafs/pkg/discovery"
	"github.com/gauss-project/aurorafs/pkg/hive2"
	hivepb "github.com/gauss-project/aurorafs/pkg/hive2/pb"
	"github.com/gauss-project/aurorafs/pkg/p2p"
	p2pmock "github.com/gauss-project/aurorafs/pkg/p2p/mock"
	pingpongmock "github.com/gauss-project/aurorafs/pkg/pingpong/mock"
	"github.com/gauss-project/aurorafs/pkg/shed"
	sldb "github.com/gauss-project/aurorafs/pkg/shed/leveldb"
	mockstate "github.com/gauss-project/aurorafs/pkg/statestore/mock"
	"github.com/gauss-project/aurorafs/pkg/subscribe"
	"github.com/gauss-project/aurorafs/pkg/topology/kademlia"
	"github.com/gauss-project/aurorafs/pkg/topology/lightnode"

	"verifharness/core"
)

var regOnce sync.Once

type kadBox struct {
	kad *kademlia.Kad
	db  *shed.DB
}

// close releases the Kad in the background: Close of a never-started Kad waits 5 s for its manage loop.
func (k *kadBox) close() {
	go func() {
		if k.kad != nil {
			_ = k.kad.Close()
		}
		if k.db != nil {
			_ = k.db.Close()
		}
	}()
}

// newKad builds a real (never started) Kad with `conn` connected and `known` known peers.
func newKad(base boson.Address, ab addressbook.Interface, disc discovery.Driver, light *lightnode.Container, conn, known []boson.Address) *kadBox {
	regOnce.Do(func() {
		for _, d := range shed.Drivers() {
			if d == "leveldb" {
				return
			}
		}
		shed.Register("leveldb", sldb.Driver{})
	})
	db, err := shed.NewDB("", nil)
	if err != nil {
		panic(err)
	}
	ppm := pingpongmock.New(func(_ context.Context, _ boson.Address, _ ...string) (time.Duration, error) { return 0, nil })
	kad, err := kademlia.New(base, ab, disc, p2pmock.New(), ppm, light, nil, db, noLog, subscribe.NewSubPub(),
		kademlia.Options{BinMaxPeers: 100, NodeMode: fullMode})
	if err != nil {
		panic(err)
	}
	for _, a := range conn {
		_ = kad.Connected(context.Background(), p2p.Peer{Address: a, Mode: fullMode}, true)
	}
	kad.AddPeers(known...)
	return &kadBox{kad: kad, db: db}
}

func putBook(ab addressbook.Interface, name string, underlay string) boson.Address {
	o := overlayOf(name)
	_ = ab.Put(o, aurora.Address{Overlay: o, Underlay: mustMA(underlay), Signature: []byte("sig-" + name)})
	return o
}

// ---- hive2: onFindNode handler, DoFindNode client (+ the peer validation it hands the reply to)

type hiveEnv struct {
	svc  *hive2.Service
	kb   *kadBox
	st   *fakeStreamer
	peer boson.Address
	ab   addressbook.Interface
}

func newHiveEnv() *hiveEnv {
	base := overlayOf("hive-self")
	ab := addressbook.New(mockstate.NewStateStore())
	st := &fakeStreamer{pingErr: true}
	svc := hive2.New(st, ab, networkID, noLog)
	var conn, known []boson.Address
	for i, u := range []string{"/ip4/8.8.8.8/tcp/1634", "/ip4/10.0.0.1/tcp/1634", "/ip4/1.1.1.1/udp/7070", "/ip4/192.168.1.5/tcp/1634"} {
		conn = append(conn, putBook(ab, "hive-c"+itoa(int64(i)), u))
	}
	for i, u := range []string{"/ip4/9.9.9.9/tcp/1634", "/ip4/172.16.3.4/tcp/1", "/dns4/example.com/tcp/1634"} {
		known = append(known, putBook(ab, "hive-k"+itoa(int64(i)), u))
	}
	kb := newKad(base, ab, svc, nil, conn, known)
	svc.SetAddPeersHandler(kb.kad.AddPeers)
	svc.SetConfig(hive2.Config{Kad: kb.kad, Base: base})
	return &hiveEnv{svc: svc, kb: kb, st: st, peer: conn[0], ab: ab}
}

func (e *hiveEnv) close() {
	go func() { _ = e.svc.Close() }()
	e.kb.close()
}

func (rn *runner) stepHive(ctx *core.Ctx, op []string) string {
	if len(op) < 2 {
		return "bad-op"
	}
	stream, err := core.UnHex(op[1])
	if err != nil {
		return "bad-op"
	}
	if rn.hive == nil {
		rn.hive = newHiveEnv()
	}
	e := rn.hive
	fr := newFrameReader(stream)
	switch {
	case op[0] == "hive.findnode" && len(op) == 2:
		var req hivepb.FindNodeReq
		if ok, _ := fr.next(&req); !ok {
			ctx.Annotate("X")
		} else {
			t := []string{"F", hx(req.Target), itoa(int64(req.Limit)), itoa(int64(len(req.Pos)))}
			for _, p := range req.Pos {
				t = append(t, itoa(int64(p)))
			}
			ctx.Annotate(t...)
		}
		h := e.svc.Protocol().StreamSpecs[0].Handler
		s := newStream(stream)
		o := run(func() error { return h(context.Background(), p2p.Peer{Address: e.peer, Mode: fullMode}, s) })
		report(ctx, o, "hive2-findnode", "hive2.onFindNode")
		if o.class != "ok" {
			return o.class
		}
		// the reply must be a decodable Peers message
		var reply hivepb.Peers
		if ok, _ := newFrameReader(s.written()).next(&reply); !ok {
			ctx.Fail("hive2-findnode-reply", "reply is not a Peers frame")
		}
		return o.class
	case op[0] == "hive.dofind" && len(op) == 3 && (op[2] == "ping=0" || op[2] == "ping=1"):
		// client: DoFindNode parses the peer's Peers reply and hands it to checkAndAddPeers (background validation)
		var reply hivepb.Peers
		if ok, _ := fr.next(&reply); !ok {
			ctx.Annotate("X")
		} else {
			t := []string{"P", itoa(int64(len(reply.Peers)))}
			for _, p := range reply.Peers {
				t = append(t, hx(p.Underlay), hx(p.Signature), hx(p.Overlay), core.B(maOK(p.Underlay)))
			}
			ctx.Annotate(t...)
		}
		e.st.mu.Lock()
		e.st.pingErr = op[2] == "ping=0"
		e.st.mu.Unlock()
		e.st.setReply(stream)
		var added int
		o := run(func() error {
			c, cancel := context.WithTimeout(context.Background(), 10*time.Second)
			defer cancel()
			res, err := e.svc.DoFindNode(c, overlayOf("hive-target"), e.peer, []int32{0, 1, 2}, 5)
			if err != nil {
				return err
			}
			for range res { // closed when every reply peer has been validated
				added++
			}
			return nil
		})
		report(ctx, o, "hive2-dofindnode", "hive2.DoFindNode + checkAndAddPeers")
		if o.class != "ok" {
			return o.class
		}
		// later local use: the address book / Kad entries the reply created are read back by a find-node request
		l := run(func() error {
			h := e.svc.Protocol().StreamSpecs[0].Handler
			return h(context.Background(), p2p.Peer{Address: e.peer, Mode: fullMode}, newStream(frame(&hivepb.FindNodeReq{Target: overlayOf("hive-target").Bytes(), Pos: allPos(), Limit: 30})))
		})
		report(ctx, l, "hive2-dofindnode-later-use", "onFindNode over the entries a reply created")
		return o.class + " " + l.class
	}
	return "bad-op"
}

func allPos() []int32 {
	var p []int32
	for i := int32(0); i <= 32; i++ {
		p = append(p, i)
	}
	return p
}
