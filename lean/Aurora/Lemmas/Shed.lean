import Aurora.Lemmas.Kv
import Aurora.Model.Shed
/-! Helper lemmas for C19 (shed indexes, fields, vectors). Core Lean only. -/
namespace Aurora.Shed
open Aurora.Kv

/-! ### the reference answer of an iteration, phrased on the sorted store -/

/-- start / skip-start condition on a full (id-qualified) key -/
def bound (id : UInt8) (o : IterOpts) (e : Entry) : Bool :=
  match o.start with
  | none => true
  | some st =>
    (if o.reverse then !blt (id :: st) e.1 else !blt e.1 (id :: st)) && !(o.skip && e.1 == id :: st)

/-- reference: the entries of the sorted store that carry the index-qualified prefix and satisfy
    the start condition — ascending, or descending for `Reverse` — with the id byte stripped -/
def refItems (s : Store) (id : UInt8) (o : IterOpts) : List Entry :=
  let l := (s.filter (fun e => hasPrefix e.1 (id :: o.pfx) && bound id o e)).map strip
  if o.reverse then l.reverse else l

/-! ### splitting a sorted store at a key -/

theorem dropWhile_lt {s : Store} (hs : Sorted s) (K : Bytes) :
    s.dropWhile (fun e => blt e.1 K) = s.filter (fun e => !blt e.1 K) :=
  dropWhile_eq_filter (P := fun e => blt e.1 K) hs (fun _ _ _ _ hab hb => blt_trans hab hb)

theorem takeWhile_lt {s : Store} (hs : Sorted s) (K : Bytes) :
    s.takeWhile (fun e => blt e.1 K) = s.filter (fun e => blt e.1 K) :=
  takeWhile_eq_filter (P := fun e => blt e.1 K) hs (fun _ _ _ _ hab hb => blt_trans hab hb)

theorem sorted_filter {s : Store} (hs : Sorted s) (P : Entry → Bool) : Sorted (s.filter P) :=
  List.Pairwise.sublist List.filter_sublist hs

/-- descending version of a sorted list -/
theorem sorted_reverse {s : Store} (hs : Sorted s) :
    s.reverse.Pairwise (fun a b => blt b.1 a.1 = true) := List.pairwise_reverse.mpr hs

/-- forwards from the first key `≥ K`, while the prefix holds = all keys with the prefix `≥ K`,
    provided `K` itself carries the prefix -/
theorem fwd_items {s : Store} (hs : Sorted s) (K tp : Bytes) (hK : hasPrefix K tp = true)
    (Q : Entry → Bool) :
    ((s.dropWhile (fun e => blt e.1 K)).filter Q).takeWhile (fun e => hasPrefix e.1 tp) =
      s.filter (fun e => hasPrefix e.1 tp && (Q e && !blt e.1 K)) := by
  rw [dropWhile_lt hs, List.filter_filter]
  rw [takeWhile_eq_filter (P := fun e => hasPrefix e.1 tp) (sorted_filter hs _)]
  · rw [List.filter_filter]
  · intro a b ha hb hab hpb
    have haK := (List.mem_filter.mp ha).2
    simp only [Bool.and_eq_true, Bool.not_eq_true'] at haK
    exact hasPrefix_convex hK hpb haK.2 (blt_asymm hab)

/-- backwards from the last key `≤ K` (list `B`, descending, all `≤ K`), while the prefix holds -/
theorem bwd_items {B : List Entry} (hB : B.Pairwise (fun a b => blt b.1 a.1 = true))
    (K tp : Bytes) (hK : hasPrefix K tp = true) (hle : ∀ e ∈ B, blt K e.1 = false) :
    B.takeWhile (fun e => hasPrefix e.1 tp) = B.filter (fun e => hasPrefix e.1 tp) := by
  apply takeWhile_eq_filter (P := fun e => hasPrefix e.1 tp) hB
  intro a b ha _ hab hpb
  exact hasPrefix_convex hpb hK (blt_asymm hab) (hle a ha)

/-- backwards below the incremented prefix `q`: exactly the keys with the prefix, descending -/
theorem bwd_items_inc {s : Store} (hs : Sorted s) (tp q : Bytes) (hq : bytesIncrement tp = some q) :
    (s.filter (fun e => blt e.1 q)).reverse.takeWhile (fun e => hasPrefix e.1 tp) =
      (s.filter (fun e => hasPrefix e.1 tp)).reverse := by
  rw [takeWhile_eq_filter (P := fun e => hasPrefix e.1 tp) (sorted_reverse (sorted_filter hs _))]
  · rw [List.filter_reverse, List.filter_filter]
    congr 1
    apply List.filter_congr
    intro e _
    cases hp : hasPrefix e.1 tp
    · simp
    · have := (hasPrefix_iff_blt_increment hq (not_blt_of_hasPrefix hp)).mp hp
      simp [this]
  · intro a b ha hb hab hpb
    have haq := (List.mem_filter.mp (List.mem_reverse.mp ha)).2
    have hbtp := not_blt_of_hasPrefix hpb
    have hatp : blt a.1 tp = false := le_trans' hbtp (blt_asymm hab)
    exact (hasPrefix_iff_blt_increment hq hatp).mpr haq

theorem increment_cons_ne_none (id : UInt8) (p : Bytes) (h : id.toNat ≠ 255) :
    bytesIncrement (id :: p) ≠ none := by
  simp only [bytesIncrement]
  cases bytesIncrement p <;> simp [h]

/-- `s = (keys < K) ++ (keys ≥ K)` -/
theorem split_at {s : Store} (hs : Sorted s) (K : Bytes) :
    s = s.filter (fun e => blt e.1 K) ++ s.filter (fun e => !blt e.1 K) := by
  rw [← takeWhile_lt hs, ← dropWhile_lt hs, List.takeWhile_append_dropWhile]

/-- in a sorted list whose keys are all `≥ K`, only the head can have key `K` -/
theorem filter_ne_of_ge {e : Entry} {r : List Entry} (hD : Sorted (e :: r)) (K : Bytes)
    (hge : blt e.1 K = false) :
    (e :: r).filter (fun e => !(e.1 == K)) = if (e.1 == K) = true then r else e :: r := by
  have hr : ∀ x ∈ r, (x.1 == K) = false := by
    intro x hx
    have h1 := sorted_head_lt hD x hx
    have : blt K x.1 = true := blt_of_le_of_lt hge h1
    simp only [beq_eq_false_iff_ne, ne_eq]
    exact fun e => blt_ne this e.symm
  have hrf : r.filter (fun e => !(e.1 == K)) = r := by
    apply List.filter_eq_self.mpr
    intro x hx; simp [hr x hx]
  by_cases hk : (e.1 == K) = true
  · simp [List.filter, hk, hrf]
  · simp [List.filter, hk, hrf]

/-! ### forward iteration -/

/-- the `SkipStartFromItem` step after a forward seek: drop the head iff its key is `K` -/
theorem fwd_skip {s : Store} (hs : Sorted s) (K : Bytes) (b : Bool) :
    (if (b && (seek s K).key == K) = true then (seek s K).fwdList.tail else (seek s K).fwdList) =
      (s.dropWhile (fun e => blt e.1 K)).filter (fun e => !(b && e.1 == K)) := by
  cases b with
  | false =>
    simp only [Bool.false_and, Bool.false_eq_true, if_false, Bool.not_false, seek_fwdList]
    exact (List.filter_eq_self.mpr (fun _ _ => rfl)).symm
  | true =>
    simp only [Bool.true_and, seek_fwdList]
    have hD : Sorted (s.dropWhile (fun e => blt e.1 K)) := by
      rw [dropWhile_lt hs]; exact sorted_filter hs _
    have hge : ∀ e ∈ s.dropWhile (fun e => blt e.1 K), blt e.1 K = false := by
      rw [dropWhile_lt hs]
      intro e he
      simpa using (List.mem_filter.mp he).2
    have hkey : ∀ e r, s.dropWhile (fun e => blt e.1 K) = e :: r → (seek s K).key = e.1 :=
      fun e r h => (Cursor.key_of_fwd (c := seek s K) (by simpa using h)).1
    generalize s.dropWhile (fun e => blt e.1 K) = D at hD hge hkey
    cases D with
    | nil => simp
    | cons e r =>
      rw [filter_ne_of_ge hD K (hge e List.mem_cons_self), hkey e r rfl]
      by_cases h : (e.1 == K) = true <;> simp [h]

theorem iterItems_fwd {s : Store} (hs : Sorted s) (id : UInt8) (o : IterOpts)
    (hrev : o.reverse = false) (hg : ∀ st, o.start = some st → hasPrefix st o.pfx = true) :
    iterItems s id o = some (refItems s id o) := by
  obtain ⟨pfx, start, skip, rev⟩ := o
  simp only at hrev hg
  subst hrev
  have hK : hasPrefix (startKey id ⟨pfx, start, skip, false⟩) (id :: pfx) = true := by
    cases start with
    | none => exact hasPrefix_self _
    | some st => simpa [startKey, ikey] using hg st rfl
  simp only [iterItems, position, walk, refItems, totalPrefix, Bool.false_eq_true, if_false,
    Option.map_some]
  congr 2
  have := fwd_skip hs (startKey id ⟨pfx, start, skip, false⟩) (skip && start.isSome)
  rw [this, fwd_items hs _ _ hK]
  apply List.filter_congr
  intro e _
  cases start with
  | none =>
    simp only [bound, startKey, totalPrefix, Option.isSome_none, Bool.and_false, Bool.false_and,
      Bool.not_false, Bool.true_and, Bool.and_true]
    cases hp : hasPrefix e.1 (id :: pfx)
    · rfl
    · simp [not_blt_of_hasPrefix hp]
  | some st =>
    simp only [bound, startKey, ikey, Option.isSome_some, Bool.and_true, Bool.false_eq_true, if_false]
    cases hasPrefix e.1 (id :: pfx) <;> cases blt e.1 (id :: st) <;> simp

/-! ### reverse iteration from a start key -/

/-- positioning + skip step of a reverse iteration from `K`: the keys `≤ K` (without `K` itself
    when skipping), descending -/
theorem rev_start_list {s : Store} (hs : Sorted s) (K : Bytes) (hK : K ≠ []) (skip : Bool) :
    let c0 := seek s K
    let c := if c0.valid = false then c0.last else if c0.key ≠ K then c0.prev else c0
    (if (skip && c.key == K) = true then c.bwdList.tail else c.bwdList) =
      (s.filter (fun e => !blt K e.1 && !(skip && e.1 == K))).reverse := by
  intro c0 c
  have hc0 : c0 = ⟨(s.filter (fun e => blt e.1 K)).reverse, s.filter (fun e => !blt e.1 K), false⟩ := by
    simp only [c0, seek, takeWhile_lt hs, dropWhile_lt hs]
  have hsplit := split_at hs K
  have hT : ∀ x ∈ s.filter (fun e => blt e.1 K), blt x.1 K = true := fun x hx => (List.mem_filter.mp hx).2
  have hDge : ∀ x ∈ s.filter (fun e => !blt e.1 K), blt x.1 K = false := fun x hx => by
    simpa using (List.mem_filter.mp hx).2
  have hDs : Sorted (s.filter (fun e => !blt e.1 K)) := sorted_filter hs _
  generalize s.filter (fun e => blt e.1 K) = T at hc0 hsplit hT
  generalize s.filter (fun e => !blt e.1 K) = D at hc0 hsplit hDge hDs
  -- the filter on the two halves
  have hpT : T.filter (fun e => !blt K e.1 && !(skip && e.1 == K)) = T := by
    apply List.filter_eq_self.mpr
    intro x hx
    have h1 := hT x hx
    have h2 : (x.1 == K) = false := by simpa using blt_ne h1
    simp [blt_asymm h1, h2]
  have hpgt : ∀ l : List Entry, (∀ x ∈ l, blt K x.1 = true) →
      l.filter (fun e => !blt K e.1 && !(skip && e.1 == K)) = [] := by
    intro l hl
    apply List.filter_eq_nil_iff.mpr
    intro x hx; simp [hl x hx]
  -- a cursor sitting on (or before) the part `T` never shows key `K`
  have hkeyT : ∀ c' : Cursor, (∀ x ∈ c'.bwdList, x ∈ T) → (c'.key == K) = false := by
    intro c' hmem
    cases hB : c'.bwdList with
    | nil => rw [(Cursor.key_of_bwd_nil hB).1]; simpa using hK
    | cons x l =>
      rw [(Cursor.key_of_bwd hB).1]
      have := hT x (hmem x (by rw [hB]; exact List.mem_cons_self))
      simpa using blt_ne this
  subst hsplit
  cases D with
  | nil =>
    have hv : c0.valid = false := by rw [hc0]; rfl
    have hcl : c = c0.last := by simp only [c, hv, if_true]
    have hB : c.bwdList = T.reverse := by
      rw [hcl, Cursor.last_bwdList, hc0]; simp [Cursor.all]
    have hk := hkeyT c (by rw [hB]; intro x hx; exact List.mem_reverse.mp hx)
    rw [hk, hB]
    simp only [Bool.and_false, Bool.false_eq_true, if_false, List.append_nil]
    rw [hpT]
  | cons e r =>
    have hv : c0.valid = true := by rw [hc0]; rfl
    have hkey : c0.key = e.1 := by rw [hc0]; rfl
    have hrgt : ∀ x ∈ r, blt K x.1 = true := fun x hx =>
      blt_of_le_of_lt (hDge e List.mem_cons_self) (sorted_head_lt hDs x hx)
    by_cases hek : e.1 = K
    · have hcc : c = c0 := by simp only [c, hv, hkey, hek]; simp
      have hB : c.bwdList = e :: T.reverse := by rw [hcc, hc0]; rfl
      have hk : (c.key == K) = true := by rw [hcc, hkey, hek]; simp
      have he2 : (e.1 == K) = true := by simp [hek]
      have he1 : blt K e.1 = false := by rw [hek]; exact blt_irrefl _
      have hfe : (e :: r).filter (fun e => !blt K e.1 && !(skip && e.1 == K)) =
          if skip = true then [] else [e] := by
        rw [List.filter_cons, hpgt r hrgt]; cases skip <;> simp [he1, he2]
      rw [hk, hB, List.filter_append, hpT, hfe]
      cases skip <;> simp
    · have hcc : c = c0.prev := by simp only [c, hv, hkey]; simp [hek]
      have hB : c.bwdList = T.reverse := by
        rw [hcc, Cursor.prev_bwdList _ (by rw [hc0])]; rw [hc0]
      have hk := hkeyT c (by rw [hB]; intro x hx; exact List.mem_reverse.mp hx)
      have hegt : blt K e.1 = true := by
        rcases blt_trichotomy K e.1 with h | h | h
        · exact h
        · exact absurd h.symm hek
        · rw [hDge e List.mem_cons_self] at h; cases h
      have : ∀ x ∈ e :: r, blt K x.1 = true := by
        intro x hx
        rcases List.mem_cons.mp hx with h | h
        · rw [h]; exact hegt
        · exact hrgt x h
      rw [hk, hB, List.filter_append, hpT, hpgt _ this]
      simp

theorem iterItems_rev_start {s : Store} (hs : Sorted s) (id : UInt8) (pfx st : Bytes) (skip : Bool)
    (hg : hasPrefix st pfx = true) :
    iterItems s id ⟨pfx, some st, skip, true⟩ = some (refItems s id ⟨pfx, some st, skip, true⟩) := by
  have hlist := rev_start_list hs (id :: st) (by simp) skip
  simp only at hlist
  have hpos : position s id ⟨pfx, some st, skip, true⟩ =
      some (if (seek s (id :: st)).valid = false then (seek s (id :: st)).last
            else if (seek s (id :: st)).key ≠ id :: st then (seek s (id :: st)).prev
            else seek s (id :: st)) := by
    simp only [position, startKey, ikey, if_true]
    by_cases hv : (seek s (id :: st)).valid = true
    · by_cases hk : (seek s (id :: st)).key = id :: st <;> simp [hv, hk]
    · have hv' : (seek s (id :: st)).valid = false := by simpa using hv
      simp [hv']
  simp only [iterItems, hpos, Option.map_some, walk, if_true, Option.isSome_some, Bool.and_true,
    startKey, ikey, totalPrefix]
  rw [hlist]
  have hdesc := sorted_reverse (sorted_filter hs (fun e => !blt (id :: st) e.1 && !(skip && e.1 == id :: st)))
  rw [bwd_items hdesc (id :: st) (id :: pfx) (by simpa using hg)]
  · rw [List.filter_reverse, List.filter_filter]
    simp only [refItems, if_true, List.map_reverse]
    congr 3
  · intro e he
    have := (List.mem_filter.mp (List.mem_reverse.mp he)).2
    simp only [Bool.and_eq_true, Bool.not_eq_true'] at this
    exact this.1

/-! ### reverse iteration without a start key -/

theorem iterItems_rev_nostart {s : Store} (hs : Sorted s) (id : UInt8) (pfx : Bytes) (skip : Bool)
    (hinc : bytesIncrement (id :: pfx) ≠ none) :
    iterItems s id ⟨pfx, none, skip, true⟩ = some (refItems s id ⟨pfx, none, skip, true⟩) := by
  have href : refItems s id ⟨pfx, none, skip, true⟩ =
      ((s.filter (fun e => hasPrefix e.1 (id :: pfx))).reverse).map strip := by
    simp [refItems, bound, List.map_reverse]
  rw [href]
  have hall : ((seek s (id :: pfx)).last).all = s := by simp
  have hB : ((seek s (id :: pfx)).last).bwdList = s.reverse := by
    rw [Cursor.last_bwdList]; simp
  simp only [iterItems, position, startKey, totalPrefix, if_true, walk, Option.isSome_none,
    Bool.and_false, Bool.false_and, Bool.false_eq_true, if_false]
  cases hrev : s.reverse with
  | nil =>
    have hs0 : s = [] := by simpa using hrev
    subst hs0
    simp [seek, Cursor.last, Cursor.all, Cursor.valid, Cursor.bwdList]
  | cons e l =>
    have hv : (seek s (id :: pfx)).last.valid = true := by rw [Cursor.valid_eq_bwd, hB, hrev]; rfl
    have hkey : (seek s (id :: pfx)).last.key = e.1 := (Cursor.key_of_bwd (by rw [hB, hrev])).1
    have hdesc := sorted_reverse hs
    rw [hrev] at hdesc
    have hmax : ∀ x ∈ s, blt e.1 x.1 = false := by
      intro x hx
      have : x ∈ e :: l := by rw [← hrev]; exact List.mem_reverse.mpr hx
      rcases List.mem_cons.mp this with h | h
      · rw [h]; exact blt_irrefl _
      · exact blt_asymm ((List.pairwise_cons.mp hdesc).1 x h)
    simp only [hv, Bool.not_true, Bool.false_eq_true, if_false, hkey]
    by_cases hpe : hasPrefix e.1 (id :: pfx) = true
    · simp only [hpe, if_true, Option.map_some, hB]
      rw [bwd_items (sorted_reverse hs) e.1 (id :: pfx) hpe
        (fun x hx => hmax x (List.mem_reverse.mp hx)), List.filter_reverse]
    · simp only [hpe, if_false]
      cases hq : bytesIncrement (id :: pfx) with
      | none => exact absurd hq hinc
      | some q =>
        simp only [Cursor.seek, hall]
        have hpe' : hasPrefix e.1 (id :: pfx) = false := by simpa using hpe
        cases hv2 : (seek s q).valid
        · -- every key is below q, the largest lacks the prefix: nothing carries it
          simp only [Bool.not_false, if_true, Option.map_some, Bool.false_eq_true, if_false]
          have hb : (seek s q).bwdList = [] := by
            have := Cursor.valid_eq_bwd (seek s q); rw [hv2] at this
            simpa using this
          have hd : s.dropWhile (fun e => blt e.1 q) = [] := by
            have := Cursor.valid_eq_fwd (seek s q); rw [hv2] at this
            simpa using this
          have hem : e ∈ s := List.mem_reverse.mp (by rw [hrev]; exact List.mem_cons_self)
          have heq : blt e.1 q = true := by
            have hf : s.filter (fun e => !blt e.1 q) = [] := by rw [← dropWhile_lt hs]; exact hd
            have := List.filter_eq_nil_iff.mp hf e hem
            simpa using this
          have hnone : s.filter (fun e => hasPrefix e.1 (id :: pfx)) = [] := by
            apply List.filter_eq_nil_iff.mpr
            intro x hx hpx
            have h1 := not_blt_of_hasPrefix hpx
            have h2 : blt e.1 (id :: pfx) = false := le_trans' h1 (hmax x hx)
            have := (hasPrefix_iff_blt_increment hq h2).mpr heq
            rw [hpe'] at this; cases this
          rw [hb, hnone]; rfl
        · simp only [Bool.not_true, Bool.false_eq_true, if_false, Option.map_some]
          rw [Cursor.prev_bwdList _ (seek_soi s q), seek_left, takeWhile_lt hs,
            bwd_items_inc hs (id :: pfx) q hq]

/-! ### First / Last / Count / CountFrom -/

theorem fwd_items_true {s : Store} (hs : Sorted s) (K tp : Bytes) (hK : hasPrefix K tp = true) :
    (s.dropWhile (fun e => blt e.1 K)).takeWhile (fun e => hasPrefix e.1 tp) =
      s.filter (fun e => hasPrefix e.1 tp && !blt e.1 K) := by
  have := fwd_items hs K tp hK (fun _ => true)
  rw [List.filter_eq_self.mpr (fun _ _ => rfl)] at this
  rw [this]
  apply List.filter_congr
  intro e _; simp

theorem fwd_items_prefix {s : Store} (hs : Sorted s) (tp : Bytes) :
    (s.dropWhile (fun e => blt e.1 tp)).takeWhile (fun e => hasPrefix e.1 tp) =
      s.filter (fun e => hasPrefix e.1 tp) := by
  rw [fwd_items_true hs tp tp (hasPrefix_self tp)]
  apply List.filter_congr
  intro e _
  cases hp : hasPrefix e.1 tp
  · rfl
  · simp [not_blt_of_hasPrefix hp]

theorem itemAt_fwd (c : Cursor) (tp : Bytes) (htp : tp ≠ []) :
    itemAt c tp = ((c.fwdList.takeWhile (fun e => hasPrefix e.1 tp)).head?).map strip := by
  unfold itemAt
  cases h : c.fwdList with
  | nil =>
    rw [(Cursor.key_of_fwd_nil h).1]
    cases tp with
    | nil => exact absurd rfl htp
    | cons a t => simp [hasPrefix]
  | cons e r =>
    obtain ⟨h1, h2⟩ := Cursor.key_of_fwd h
    rw [h1, h2, List.takeWhile_cons]
    by_cases hp : hasPrefix e.1 tp = true <;> simp [hp, strip]

theorem itemAt_bwd (c : Cursor) (tp : Bytes) (htp : tp ≠ []) :
    itemAt c tp = ((c.bwdList.takeWhile (fun e => hasPrefix e.1 tp)).head?).map strip := by
  unfold itemAt
  cases h : c.bwdList with
  | nil =>
    rw [(Cursor.key_of_bwd_nil h).1]
    cases tp with
    | nil => exact absurd rfl htp
    | cons a t => simp [hasPrefix]
  | cons e r =>
    obtain ⟨h1, h2⟩ := Cursor.key_of_bwd h
    rw [h1, h2, List.takeWhile_cons]
    by_cases hp : hasPrefix e.1 tp = true <;> simp [hp, strip]

theorem first_spec {s : Store} (hs : Sorted s) (id : UInt8) (p : Bytes) :
    first s id p = ((s.filter (fun e => hasPrefix e.1 (id :: p))).head?).map strip := by
  unfold first
  rw [itemAt_fwd _ _ (by simp), seek_fwdList, fwd_items_prefix hs]

theorem last_spec {s : Store} (hs : Sorted s) (id : UInt8) (p : Bytes)
    (hinc : bytesIncrement (id :: p) ≠ none) :
    last s id p = ((s.filter (fun e => hasPrefix e.1 (id :: p))).getLast?).map strip := by
  unfold last
  cases hq : bytesIncrement (id :: p) with
  | none => exact absurd hq hinc
  | some q =>
    simp only [Cursor.seek, seek_all]
    rw [itemAt_bwd _ _ (by simp), Cursor.prev_bwdList _ (seek_soi s q), seek_left, takeWhile_lt hs,
      bwd_items_inc hs (id :: p) q hq, List.head?_reverse]

theorem head_eq_hasPrefix (id : UInt8) (k : Bytes) : (k.head? == some id) = hasPrefix k [id] := by
  cases k with
  | nil => rfl
  | cons a t => simp [hasPrefix]

theorem count_spec {s : Store} (hs : Sorted s) (id : UInt8) :
    count s id = (s.filter (fun e => hasPrefix e.1 [id])).length := by
  unfold count countLoop
  rw [seek_fwdList]
  rw [show (fun e : Entry => e.1.head? == some id) = (fun e : Entry => hasPrefix e.1 [id]) from
    funext fun e => head_eq_hasPrefix id e.1]
  rw [fwd_items_prefix hs]

theorem countFrom_spec {s : Store} (hs : Sorted s) (id : UInt8) (k : Bytes) :
    countFrom s id k = (s.filter (fun e => hasPrefix e.1 [id] && !blt e.1 (id :: k))).length := by
  unfold countFrom countLoop ikey
  rw [seek_fwdList]
  rw [show (fun e : Entry => e.1.head? == some id) = (fun e : Entry => hasPrefix e.1 [id]) from
    funext fun e => head_eq_hasPrefix id e.1]
  rw [fwd_items_true hs (id :: k) [id] (by simp)]

/-! ### the listing of one index, and isolation -/

/-- the part of the store that belongs to index `id` (full keys) -/
def idxPart (s : Store) (id : UInt8) : Store := s.filter (fun e => hasPrefix e.1 [id])

theorem get_filter_key (P : Bytes → Bool) (s : List Entry) (k : Bytes) :
    Kv.get (s.filter (fun e => P e.1)) k = if P k then Kv.get s k else none := by
  induction s with
  | nil => simp [Kv.get]
  | cons e r ih =>
    obtain ⟨k1, v1⟩ := e
    by_cases hp : P k1 = true
    · simp only [List.filter, hp, Kv.get, ih]
      by_cases hk : k1 = k
      · subst hk; simp [hp]
      · simp [hk]
    · have hp' : P k1 = false := by simpa using hp
      simp only [List.filter, hp', Kv.get, ih]
      by_cases hk : k1 = k
      · subst hk; simp [hp']
      · simp [hk]

/-- a write to a key outside index `id` leaves the index part of the sorted store untouched -/
theorem idxPart_write_other {s : Store} (hs : Sorted s) (id : UInt8) (w : Write)
    (hw : hasPrefix (match w with | .put k _ => k | .del k => k) [id] = false) :
    idxPart (applyWrite s w) id = idxPart s id := by
  apply ext (sorted_filter (sorted_applyWrite hs w) _) (sorted_filter hs _)
  intro k
  rw [get_filter_key (fun k => hasPrefix k [id]), get_filter_key (fun k => hasPrefix k [id])]
  by_cases hp : hasPrefix k [id] = true
  · simp only [hp, if_true]
    cases w with
    | put k' v =>
      simp only [applyWrite, get_put]
      have : k ≠ k' := by intro e; subst e; simp only at hw; rw [hw] at hp; cases hp
      simp [this]
    | del k' =>
      simp only [applyWrite, get_delete hs]
      have : k ≠ k' := by intro e; subst e; simp only at hw; rw [hw] at hp; cases hp
      simp [this]
  · simp [hp]

theorem filter_idxPart (s : Store) (id : UInt8) (p : Bytes) (Q : Entry → Bool) :
    s.filter (fun e => hasPrefix e.1 (id :: p) && Q e) =
      (idxPart s id).filter (fun e => hasPrefix e.1 (id :: p) && Q e) := by
  unfold idxPart
  rw [List.filter_filter]
  apply List.filter_congr
  intro e _
  cases hp : hasPrefix e.1 (id :: p)
  · simp
  · have : hasPrefix e.1 [id] = true := by
      obtain ⟨t, ht⟩ := hasPrefix_iff_append.mp hp
      rw [ht]; simp [hasPrefix]
    simp [this]

/-! ### uint64 encoding -/

theorem ofNat_toNat (x : Nat) : (UInt8.ofNat (x % 256)).toNat = x % 256 := by
  simp [UInt8.toNat_ofNat']

/-- `binary.BigEndian.Uint64(encodeUint64(n)) = n` (mod 2^64) -/
theorem fromBe_be8 (n : Nat) : fromBe (be8 n) = n % two64 := by
  simp only [be8, fromBe, List.map, List.foldl, ofNat_toNat, two64]
  omega

end Aurora.Shed
