/-!
Model of `/repo/pkg/aurora/address.go` (`NewAddress`, `ParseAddress`, `generateSignData`) and of
its two call sites `handshake.parseCheckAck` and `routetab.saveUnderlay` / `FindUnderlay` (thin
wrappers: same decision).  Hand translation, tied by the C34 correspondence run.

The signature scheme and the derived values are parameters (`SigScheme`):
`recover sig data` is `crypto.Recover` (EIP-191 hash + `btcec.RecoverCompact`, including the
65-byte length check), `overlayOf` is `crypto.NewOverlayAddress` (which ignores the network id),
`underlayOK` is "`ma.NewMultiaddrBytes` parses".  Laws are hypotheses of the theorems.
-/
namespace Aurora.Address

abbrev Bytes := List UInt8

structure SigScheme (PK : Type) where
  recover : Bytes → Bytes → Option PK
  overlayOf : PK → Bytes
  underlayOK : Bytes → Bool

/-- `"aurorafs-handshake-"` -/
def signPrefix : Bytes :=
  [97, 117, 114, 111, 114, 97, 102, 115, 45, 104, 97, 110, 100, 115, 104, 97, 107, 101, 45]

def byteAt (n k : Nat) : UInt8 := UInt8.ofNat (n / 2 ^ (8 * k) % 256)

/-- `binary.BigEndian.PutUint64` -/
def be64 (n : Nat) : Bytes :=
  [byteAt n 7, byteAt n 6, byteAt n 5, byteAt n 4, byteAt n 3, byteAt n 2, byteAt n 1, byteAt n 0]

/-- `generateSignData`: no length delimiters -/
def signData (underlay overlay : Bytes) (networkID : Nat) : Bytes :=
  signPrefix ++ underlay ++ overlay ++ be64 networkID

structure Record where
  underlay : Bytes
  overlay : Bytes
  signature : Bytes
deriving DecidableEq, Repr

/-- `aurora.ParseAddress(underlay, overlay, signature, networkID)`; `none` = `ErrInvalidAddress` -/
def parseAddress {PK : Type} (S : SigScheme PK) (u o sig : Bytes) (nid : Nat) : Option Record :=
  match S.recover sig (signData u o nid) with
  | none => none
  | some pk =>
    if S.overlayOf pk ≠ o then none
    else if !S.underlayOK u then none
    else some { underlay := u, overlay := o, signature := sig }

/-- `aurora.NewAddress(signer, underlay, overlay, networkID)` with `sign = signer.Sign` -/
def newAddress (sign : Bytes → Bytes) (u o : Bytes) (nid : Nat) : Record :=
  { underlay := u, overlay := o, signature := sign (signData u o nid) }

/-- `handshake.parseCheckAck`: `ErrInvalidAck` iff `ParseAddress` fails -/
def parseCheckAck {PK : Type} (S : SigScheme PK) (u o sig : Bytes) (nid : Nat) : Option Record :=
  parseAddress S u o sig nid

/-- `routetab.saveUnderlay`: the overlays put into the address book -/
def saveUnderlay {PK : Type} (S : SigScheme PK) (nid : Nat) (list : List Record) : List Record :=
  list.filterMap (fun r => parseAddress S r.underlay r.overlay r.signature nid)

end Aurora.Address
