import Aurora.Lemmas.ChunkInfo
import Aurora.Lemmas.RegionSerial
import Aurora.Generated.ChunkInfoRegions
/-!
# C17 — Chunk availability records never overclaim

Property theorems only (helper lemmas: `Aurora/Lemmas/ChunkInfo.lean`).  The model is
`Aurora/Model/ChunkInfo.lean` (+ `ChunkPyramid.lean` for the bit positions): the availability
(`chunkInfoTabNeighbor`), discovery and source tables of `pkg/chunkinfo`, each as an in-memory
and a persisted image, after the C17 `fix:` commit (`updateNeighborChunkInfo` sets a bit only
for a cid that is a data chunk of the file).  The same table functions are the chunkinfo part of
the node-lite model, which the C17 correspondence run compares with the real node (tables,
bit vectors and state-store keys after every operation).

The invariant is stated over an abstract event machine whose events are exactly the places
where the code touches the node's own availability record or the set of stored chunks:

* `create f` — `putChunkInfoNeighbor(root, self)` (upload registration, pyramid exchange);
* `localRead f cid` — `netstore.Get` found `cid` locally under `f`'s context and reports
  `OnChunkRetrieved(cid, root, self)` — for data, manifest and intermediate chunks alike;
* `retrieved f cid` — `retrieval.retrieveChunk`: `OnChunkRetrieved(cid, root, peer)` and then `Put`;
* `transferred f cid o` — the retrieval handler served `cid` to overlay `o ≠ self`:
  `OnChunkTransferred(cid, root, o, self)` creates / updates the record kept FOR `o`;
* `store c` — any other chunk stored;
* `remove f R` — `DelFile(root)` from the API or from garbage collection: the chunks `R` are
  removed and all tables of `f` cleared;
* `reinit` — `InitChunkInfo`: memory := persisted image.
-/
namespace Aurora.ChunkInfo
open Aurora.ChunkPyramid

structure M where
  ci : State := {}
  stored : Addr → Bool := fun _ => false

inductive Ev
  | create (f : FileS)
  | localRead (f : FileS) (cid : Addr)
  | retrieved (f : FileS) (cid : Addr)
  | transferred (f : FileS) (cid : Addr) (o : Ov)
  | store (c : Addr)
  | remove (f : FileS) (R : List Addr)
  | reinit

def step (m : M) : Ev → M
  | .create f => { m with ci := putNeighbor m.ci f.root self f.cids.length }
  | .localRead f cid => { m with ci := markPresent m.ci f self cid }
  | .retrieved f cid => { ci := markPresent m.ci f self cid, stored := fun c => c == cid || m.stored c }
  | .transferred f cid o => { m with ci := markPresent (putNeighbor m.ci f.root o f.cids.length) f o cid }
  | .store c => { m with stored := fun x => x == c || m.stored x }
  | .remove f R => { ci := delFile m.ci f.root, stored := fun x => m.stored x && !R.contains x }
  | .reinit => { m with ci := reinit m.ci }

/-- does image `t` hold a self record for root `r`? -/
def tracked (m : M) (r : Addr) : Prop := (selfBits m.ci.mem r).isSome ∨ (selfBits m.ci.disk r).isSome

/-- What the surrounding code guarantees about an event: a root determines its file; a local
    read happens only for a chunk that is stored (`netstore.Get` took the local branch); a
    removal never takes a data chunk of another tracked file (this is C16's
    `delete_preserves_others`). -/
def Ev.ok (file : Addr → FileS) (m : M) : Ev → Prop
  | .create f => file f.root = f
  | .localRead f cid => file f.root = f ∧ m.stored cid = true
  | .retrieved f _ => file f.root = f
  | .transferred f _ o => file f.root = f ∧ o ≠ self
  | .store _ => True
  | .remove f R => file f.root = f ∧ ∀ r, r ≠ f.root → tracked m r → ∀ c ∈ (file r).cids, c ∉ R
  | .reinit => True

/-- all events of a history are admissible in the state they are applied to -/
def Valid (file : Addr → FileS) : M → List Ev → Prop
  | _, [] => True
  | m, e :: es => e.ok file m ∧ Valid file (step m e) es

def run (m : M) (es : List Ev) : M := es.foldl step m

/-- The invariant: in both images every self record has the file's length and every set bit
    points at a stored data chunk. -/
def Inv (file : Addr → FileS) (m : M) : Prop :=
  ∀ r b, (selfBits m.ci.mem r = some b ∨ selfBits m.ci.disk r = some b) →
    b.length = (file r).cids.length ∧ NoOverclaim m.stored (file r) b

theorem C17_length_setBit (b : Bits) (i : Nat) : (setBit b i).length = b.length := by
  simp [setBit]

/-- one event preserves the invariant -/
theorem C17_step_invariant (file : Addr → FileS) (m : M) (e : Ev) (hi : Inv file m) (hok : e.ok file m) :
    Inv file (step m e) := by
  cases e with
  | create f =>
    have hf : file f.root = f := hok
    intro r b hb
    simp only [step, putNeighbor] at hb
    cases hp : m.ci.mem.pres f.root self with
    | some b0 => simp only [hp] at hb; exact hi r b hb
    | none =>
      simp only [hp, onBoth] at hb
      rw [selfBits_ins, selfBits_ins] at hb
      by_cases hr : r = f.root
      · simp only [hr, if_true, Option.some.injEq, or_self] at hb
        subst hb; subst hr
        rw [hf]
        exact ⟨by simp [zeros], noOverclaim_zeros _ _ _⟩
      · simp only [hr, if_false] at hb
        exact hi r b hb
  | localRead f cid =>
    obtain ⟨hf, hst⟩ := hok
    intro r b hb
    simp only [step, markPresent] at hb ⊢
    cases hp : m.ci.mem.pres f.root self with
    | none => simp only [hp] at hb; exact hi r b hb
    | some b0 =>
      simp only [hp, onBoth] at hb
      rw [selfBits_ins, selfBits_ins] at hb
      by_cases hr : r = f.root
      · simp only [hr, if_true, Option.some.injEq, or_self] at hb
        have h0 := hi f.root b0 (Or.inl hp)
        rw [hf] at h0
        subst hr
        rw [hf, ← hb]
        refine ⟨?_, noOverclaim_mark m.stored f b0 cid h0.2 hst⟩
        cases f.cidPos cid with
        | none => exact h0.1
        | some i => simp only [C17_length_setBit]; exact h0.1
      · simp only [hr, if_false] at hb
        exact hi r b hb
  | retrieved f cid =>
    have hf : file f.root = f := hok
    have mono : ∀ g b, NoOverclaim m.stored g b → NoOverclaim (fun c => c == cid || m.stored c) g b :=
      fun g b h => noOverclaim_mono _ _ g b h (fun c _ hc => by simp [hc])
    intro r b hb
    simp only [step, markPresent] at hb ⊢
    cases hp : m.ci.mem.pres f.root self with
    | none =>
      simp only [hp] at hb
      have := hi r b hb
      exact ⟨this.1, mono _ _ this.2⟩
    | some b0 =>
      simp only [hp, onBoth] at hb
      rw [selfBits_ins, selfBits_ins] at hb
      by_cases hr : r = f.root
      · simp only [hr, if_true, Option.some.injEq, or_self] at hb
        have h0 := hi f.root b0 (Or.inl hp)
        rw [hf] at h0
        subst hr
        rw [hf, ← hb]
        refine ⟨?_, noOverclaim_mark _ f b0 cid (mono _ _ h0.2) (by simp)⟩
        cases f.cidPos cid with
        | none => exact h0.1
        | some i => simp only [C17_length_setBit]; exact h0.1
      · simp only [hr, if_false] at hb
        have := hi r b hb
        exact ⟨this.1, mono _ _ this.2⟩
  | transferred f cid o =>
    obtain ⟨_, ho⟩ := hok
    intro r b hb
    simp only [step] at hb
    have h1 := selfBits_markPresent_other (putNeighbor m.ci f.root o f.cids.length) f r o cid ho
    have h2 := selfBits_putNeighbor_other m.ci f.root r o f.cids.length ho
    rw [h1.1, h1.2, h2.1, h2.2] at hb
    exact hi r b hb
  | store c =>
    intro r b hb
    have := hi r b hb
    exact ⟨this.1, noOverclaim_mono _ _ _ b this.2 (fun x _ hx => by simp [step, hx])⟩
  | remove f R =>
    obtain ⟨_, hdis⟩ := hok
    intro r b hb
    simp only [step, delFile, onBoth] at hb ⊢
    rw [selfBits_delFile, selfBits_delFile] at hb
    by_cases hr : r = f.root
    · simp [hr] at hb
    · simp only [hr, if_false] at hb
      have h0 := hi r b hb
      have htr : tracked m r := by
        rcases hb with h | h
        · exact Or.inl (by simp [h])
        · exact Or.inr (by simp [h])
      refine ⟨h0.1, ?_⟩
      intro i hbit
      obtain ⟨c, hc, hs⟩ := h0.2 i hbit
      refine ⟨c, hc, ?_⟩
      have : c ∉ R := hdis r hr htr c (List.mem_of_getElem? hc)
      simp [hs, this]
  | reinit =>
    intro r b hb
    simp only [step, reinit] at hb
    exact hi r b (Or.inr (by rcases hb with h | h <;> exact h))

/-- Clause 1 (`no_overclaim`): after ANY admissible history of uploads, local reads of file,
    directory and intermediate chunks under a file context, retrievals, restarts, deletions and
    evictions, a set bit `i` of the node's own availability record of a file — in memory and in
    the persisted image it advertises from after a restart — implies that data chunk `i` of
    that file is stored. -/
theorem C17_no_overclaim (file : Addr → FileS) (es : List Ev) (hv : Valid file {} es) :
    Inv file (run {} es) := by
  have gen : ∀ (es : List Ev) (m : M), Inv file m → Valid file m es → Inv file (run m es) := by
    intro es
    induction es with
    | nil => intro m hi _; exact hi
    | cons e es ih =>
      intro m hi hv
      simp only [run, List.foldl]
      exact ih (step m e) (C17_step_invariant file m e hi hv.1) hv.2
  apply gen es {} _ hv
  intro r b hb
  simp [selfBits, Tables.pres] at hb

/-- Clause 2 (`full_only_if_all`): if the file is reported fully downloaded (`isDownload` =
    `BitVector.Equals`, all bits set) then every data chunk of it is stored. -/
theorem C17_full_only_if_all (file : Addr → FileS) (m : M) (hi : Inv file m) (r : Addr)
    (hfull : isDownload m.ci r = true) : ∀ c ∈ (file r).cids, m.stored c = true := by
  unfold isDownload at hfull
  cases hp : m.ci.mem.pres r self with
  | none => simp [hp] at hfull
  | some b =>
    simp only [hp] at hfull
    obtain ⟨hlen, hno⟩ := hi r b (Or.inl hp)
    intro c hc
    obtain ⟨i, hi1, hi2⟩ := List.getElem_of_mem hc
    have hib : i < b.length := by omega
    have hbit : getBit b i = true := by
      unfold allSet at hfull
      have := List.all_eq_true.mp hfull (b[i]) (List.getElem_mem hib)
      simp only [id] at this
      simp [getBit, List.getD, hib, this]
    obtain ⟨c', hc', hs⟩ := hno i hbit
    have : (file r).cids[i]? = some c := by simp [hi1, hi2]
    rw [this] at hc'
    simp at hc'; subst hc'; exact hs

/-- Clause 3 (`delete_clears_all`): after `DelFile` no availability, discovery or source record
    of the file remains — neither in memory nor in the persisted image — and a restart does not
    bring one back. -/
theorem C17_delete_clears_all (s : State) (root : Addr) :
    (delFile s root).mem.mentions root = false ∧ (delFile s root).disk.mentions root = false ∧
    (reinit (delFile s root)).mem.mentions root = false := by
  simp [delFile, onBoth, reinit, Tables.mentions, lookup_del]

/-- Clause 3, extended to the records the node keeps for OTHER overlays (the peers it served,
    `chunk-<root>-<peer>`) and stated on the state-store keys themselves: after `DelFile` no key of
    any prefix and any overlay mentions the root — in the persisted image, in memory, and in memory
    after a restart from the persisted image — and the availability table has no record of the root
    for any overlay. -/
theorem C17_delete_clears_all_keys (s : State) (root : Addr) :
    (∀ k ∈ (delFile s root).disk.keys, k.root ≠ root) ∧
    (∀ k ∈ (delFile s root).mem.keys, k.root ≠ root) ∧
    (∀ k ∈ (reinit (delFile s root)).mem.keys, k.root ≠ root) ∧
    (∀ o, (delFile s root).disk.pres root o = none ∧ (delFile s root).mem.pres root o = none ∧
      (reinit (delFile s root)).mem.pres root o = none) := by
  have key : ∀ t : Tables,
      ∀ k ∈ Tables.keys ⟨del t.presence root, del t.discover root, del t.source root⟩, k.root ≠ root := by
    intro t k hk
    simp only [Tables.keys, del, List.mem_append, List.mem_flatMap, List.mem_filter, List.mem_map] at hk
    rcases hk with ((⟨e, ⟨_, he⟩, o, _, rfl⟩ | ⟨e, ⟨_, he⟩, o, _, rfl⟩) | ⟨e, ⟨_, he⟩, o, _, rfl⟩) | ⟨e, ⟨_, he⟩, hk⟩
    · simpa [Key.root] using he
    · simpa [Key.root] using he
    · simpa [Key.root] using he
    · cases hp : e.2.pyramid with
      | none => simp [hp] at hk
      | some o => simp [hp] at hk; subst hk; simpa [Key.root] using he
  refine ⟨key s.disk, key s.mem, key s.disk, ?_⟩
  intro o
  simp [delFile, onBoth, reinit, Tables.pres, lookup_del]

/-- `delPresence` must delete by the prefix `chunk-<root>`: deleting only the node's own persisted
    record (`chunk-<root>-<self>`, model `delFileSelfOnly`) leaves the record of a served peer in the
    state store — memory looks clean — and the restart loads it again. -/
theorem C17_self_only_delete_counterexample :
    let f : FileS := { root := 1, subs := [[5, 6]], hash := [1, 9] }
    let s := markPresent (putNeighbor (markPresent (putNeighbor {} 1 self 2) f self 5) 1 1 2) f 1 6
    s.disk.keys = [.chunk 1 0, .chunk 1 1] ∧
    (delFileSelfOnly s 1).mem.keys = [] ∧
    (delFileSelfOnly s 1).disk.keys = [.chunk 1 1] ∧
    (reinit (delFileSelfOnly s 1)).mem.pres 1 1 = some [false, true] ∧
    -- the code's function on the same state
    (delFile s 1).disk.keys = [] ∧ (reinit (delFile s 1)).mem.keys = [] := by
  decide

/-- The defect repaired by the C17 `fix:` commit: with `getCidSort` (position 0 for an address
    that is not a data chunk) a local read of a manifest / intermediate chunk (here 9) marks data
    chunk 0 (here 5), which is not stored; with `getCidSortOK` (the model) it does not. -/
theorem C17_unfixed_counterexample :
    let f : FileS := { root := 1, subs := [[5, 6]], hash := [1, 9] }
    -- unfixed: bit (cidSort 9) = bit 0 would be set
    f.cidSort 9 = 0 ∧ f.cidPos 9 = none ∧
    -- fixed model: the record stays empty after the read of chunk 9
    selfBits (step (step {} (.create f)) (.localRead f 9)).ci.mem 1 = some [false, false] := by
  decide

/-! ### non-vacuity -/

/-- a history in which the file is served to a peer (overlay 1): the peer's record exists in both
    images before the removal (so `C17_delete_clears_all_keys` deletes something for an overlay other
    than the node itself), the node's own record is untouched by the transfer -/
example :
    let f : FileS := { root := 1, subs := [[5, 6, 5]], hash := [1, 9] }
    let es := [Ev.create f, .store 5, .localRead f 5, .transferred f 5 1, .transferred f 9 1]
    Valid (fun _ => f) {} es ∧ (run {} es).ci.disk.keys = [.chunk 1 0, .chunk 1 1] ∧
    (run {} es).ci.disk.pres 1 1 = some [true, false] ∧ selfBits (run {} es).ci.mem 1 = some [true, false] ∧
    (run {} (es ++ [.remove f [5]])).ci.disk.keys = [] := by
  refine ⟨?_, by decide, by decide, by decide, by decide⟩
  simp [Valid, Ev.ok, step, self]

example :
    let f : FileS := { root := 1, subs := [[5, 6, 5]], hash := [1, 9] }
    let es := [Ev.create f, .store 9, .localRead f 9, .retrieved f 6, .reinit]
    Valid (fun _ => f) {} es ∧ selfBits (run {} es).ci.mem 1 = some [false, true] := by
  refine ⟨?_, by decide⟩
  simp [Valid, Ev.ok, step]

/-! ### concurrent calls: every call into chunkinfo that touches a file's records is ONE `syncLk` region

The theorems above are about sequences of whole calls.  The real node runs `OnChunkRetrieved`
(netstore / retrieval goroutines), `OnChunkTransferred` (retrieval handler), `DelFile` (API, garbage
collection) and `DelDiscover` concurrently; what makes the sequential theorems apply is that each of
them holds `ci.syncLk` from before its first to after its last access of the file's records.  The
extractor (harness/cmd/extract/regions.go) regenerates on every run the sequence of
`ci.syncLk.Lock()/Unlock()` events and of the calls that read (`ci.pyramidCheck`, `ci.getPyramid`,
`ci.getPyramidHash`) or write (`ci.chunkPutChanUpdate(…)` — every table update goes through it —,
`ci.DelChunkInfoSource`, `ci.queues.Delete`, `ci.CancelFindChunkInfo`) those records as instruction
lists (`Aurora/Generated/ChunkInfoRegions.lean`). -/

section Concurrent
open Aurora.Generated
open Aurora.RegionSerial (Reach eff serial)

/-- **static obligation** (by evaluation of the regenerated lists): for each of `OnChunkRetrieved`,
    `OnChunkTransferred`, `DelFile`, `DelDiscover` the locking pattern was recognised, every access to
    the file's records happens while `ci.syncLk` is held (`LockSetProg.bodyOk`), ALL accesses of the
    call lie in ONE critical section (`AtomicRegion.oneRegion`), and the expected reads / writes were
    really found (the check and the table updates of the two notification functions, the pyramid read
    and the table deletions of `DelFile`, the deletions of `DelDiscover`).  The seeded change C17-3
    (`Unlock()` right after `pyramidCheck`) generates
    `[.lock 0, .access 0 false, .unlock 0, .access 0 true, .access 0 true, .access 0 true]` for
    `OnChunkRetrieved` and this fails (`bodyOk` and `oneRegion`). -/
theorem C17_chunkinfo_calls_one_region :
    (ChunkInfoRegions.OnChunkRetrieved.1 = true ∧
      LockSetProg.bodyOk ChunkInfoRegions.lockOf ChunkInfoRegions.OnChunkRetrieved.2 = true ∧
      AtomicRegion.oneRegion ChunkInfoRegions.OnChunkRetrieved.2 = true ∧
      AtomicRegion.accesses ChunkInfoRegions.OnChunkRetrieved.2 0 false = true ∧
      AtomicRegion.accesses ChunkInfoRegions.OnChunkRetrieved.2 0 true = true) ∧
    (ChunkInfoRegions.OnChunkTransferred.1 = true ∧
      LockSetProg.bodyOk ChunkInfoRegions.lockOf ChunkInfoRegions.OnChunkTransferred.2 = true ∧
      AtomicRegion.oneRegion ChunkInfoRegions.OnChunkTransferred.2 = true ∧
      AtomicRegion.accesses ChunkInfoRegions.OnChunkTransferred.2 0 false = true ∧
      AtomicRegion.accesses ChunkInfoRegions.OnChunkTransferred.2 0 true = true) ∧
    (ChunkInfoRegions.DelFile.1 = true ∧
      LockSetProg.bodyOk ChunkInfoRegions.lockOf ChunkInfoRegions.DelFile.2 = true ∧
      AtomicRegion.oneRegion ChunkInfoRegions.DelFile.2 = true ∧
      AtomicRegion.accesses ChunkInfoRegions.DelFile.2 0 false = true ∧
      AtomicRegion.accesses ChunkInfoRegions.DelFile.2 0 true = true) ∧
    (ChunkInfoRegions.DelDiscover.1 = true ∧
      LockSetProg.bodyOk ChunkInfoRegions.lockOf ChunkInfoRegions.DelDiscover.2 = true ∧
      AtomicRegion.oneRegion ChunkInfoRegions.DelDiscover.2 = true ∧
      AtomicRegion.accesses ChunkInfoRegions.DelDiscover.2 0 true = true) := by
  decide

/-- the bodies a goroutine of the concurrent system may run (`[]` = a goroutine that does nothing) -/
def callBodies : List LockSetProg.Body :=
  [ChunkInfoRegions.OnChunkRetrieved.2, ChunkInfoRegions.OnChunkTransferred.2,
   ChunkInfoRegions.DelFile.2, ChunkInfoRegions.DelDiscover.2, []]

theorem C17_call_bodies_one_region : ∀ b ∈ callBodies, AtomicRegion.oneRegion b = true := by
  decide

/-- **Concurrent calls are serial.**  Any number of goroutines, goroutine `t` interpreting the
    instruction list extracted from one of the four functions (`prog t`), its `k`-th access applying
    an arbitrary operation `op t k` to the shared chunkinfo state, in any interleaving of their atomic
    lock / unlock / access steps: in every reachable state in which nobody holds `syncLk` (in
    particular when all calls have returned) the chunkinfo state is the result of running the WHOLE
    calls `eff t` one after the other, in the order `s.log` in which they left their critical section,
    each call at most once.  (Mutex semantics assumed: `Lock` is enabled only when the mutex is free.) -/
theorem C17_concurrent_calls_serial {σ : Type} (op : Nat → Nat → σ → σ) (prog : Nat → LockSetProg.Body)
    (hprog : ∀ t, prog t ∈ callBodies) (c0 : σ) (s : RegionSerial.St σ)
    (hr : Reach op prog c0 s) (hfree : s.holder = none) :
    s.sh = serial op prog s.log c0 ∧ s.log.Nodup :=
  RegionSerial.serial_of_oneRegion op prog (fun t => C17_call_bodies_one_region _ (hprog t)) c0 s hr hfree

/-- … and when all calls have returned: additionally every call that is not in the log had no effect. -/
theorem C17_concurrent_calls_finished {σ : Type} (op : Nat → Nat → σ → σ) (prog : Nat → LockSetProg.Body)
    (hprog : ∀ t, prog t ∈ callBodies) (c0 : σ) (s : RegionSerial.St σ)
    (hr : Reach op prog c0 s) (hdone : ∀ t, (s.thr t).rest = []) :
    s.sh = serial op prog s.log c0 ∧ s.log.Nodup ∧ ∀ t, t ∉ s.log → ∀ x, eff op prog t x = x := by
  have h := RegionSerial.serial_finished op prog (fun t => C17_call_bodies_one_region _ (hprog t)) c0 s hr
    (fun t => Or.inl (hdone t))
  exact ⟨h.1, h.2.1, fun t ht => h.2.2 t (hdone t) ht⟩

/-- Clause 3 on the concurrent node.  The shared state is the table model (`State`: memory + persisted
    image).  If goroutine `t` is a `DelFile(root)` — its composed accesses are the model's
    `delFile · root` (hypothesis `hdel`: the hand translation of the function, compared with the real
    node by the correspondence run) — and it is the last call to leave its critical section, then,
    whatever the other goroutines (reads racing with the deletion, transfers, other deletions) did
    and however their steps interleaved, no availability, discovery or source record of the root is
    left in memory or persisted, no state-store key of any overlay mentions it, and a restart does not
    bring one back.  With the split body of seed C17-3 this is false: `OnChunkRetrieved` re-creates the
    records after `DelFile` returned although it entered first (`C17_lost_lock_counterexample`). -/
theorem C17_concurrent_delete_clears (op : Nat → Nat → State → State) (prog : Nat → LockSetProg.Body)
    (hprog : ∀ t, prog t ∈ callBodies) (c0 : State) (s : RegionSerial.St State)
    (hr : Reach op prog c0 s) (hfree : s.holder = none)
    (t : Nat) (l : List Nat) (hlog : s.log = l ++ [t]) (root : Addr)
    (hdel : ∀ x, eff op prog t x = delFile x root) :
    s.sh.mem.mentions root = false ∧ s.sh.disk.mentions root = false ∧
    (reinit s.sh).mem.mentions root = false ∧
    (∀ k ∈ s.sh.disk.keys, k.root ≠ root) ∧ (∀ k ∈ s.sh.mem.keys, k.root ≠ root) ∧
    (∀ k ∈ (reinit s.sh).mem.keys, k.root ≠ root) := by
  have h := (C17_concurrent_calls_serial op prog hprog c0 s hr hfree).1
  rw [hlog, RegionSerial.serial_append, hdel] at h
  rw [h]
  have h1 := C17_delete_clears_all (serial op prog l c0) root
  have h2 := C17_delete_clears_all_keys (serial op prog l c0) root
  exact ⟨h1.1, h1.2.1, h1.2.2, h2.1, h2.2.1, h2.2.2.1⟩

/-- the shape of seed C17-3 is rejected by the static check … -/
theorem C17_lost_lock_rejected :
    AtomicRegion.oneRegion [.lock 0, .access 0 false, .unlock 0, .access 0 true, .access 0 true, .access 0 true] = false ∧
    LockSetProg.bodyOk (fun _ => 0) [.lock 0, .access 0 false, .unlock 0, .access 0 true, .access 0 true, .access 0 true] = false := by
  decide

/-- … and the discipline is needed: a goroutine running `[lock, read, unlock, write]` next to a whole
    call under the mutex reaches a final state (all returned, mutex free) in which the other call's
    access lies BETWEEN its read and its write — no serial order of whole calls produces that state. -/
theorem C17_lost_lock_counterexample :
    ∃ s : RegionSerial.St (List (Nat × Nat)),
      Reach RegionSerial.traceOp RegionSerial.splitProg [] s ∧ (∀ t, (s.thr t).rest = []) ∧
      s.holder = none ∧ s.sh = [(0, 0), (1, 0), (0, 1)] ∧
      ∀ l, s.sh ≠ serial RegionSerial.traceOp RegionSerial.splitProg l [] := by
  obtain ⟨s, h1, h2, h3, h4, _, _, h7⟩ := RegionSerial.split_not_serial
  exact ⟨s, h1, h2, h3, h4, h7⟩

/-! non-vacuity: a run of the extracted bodies that exists — goroutine 0 = `OnChunkRetrieved` (its
    second access marks chunk 5 of the file present), goroutine 1 = `DelFile` (its first access is the
    model's `delFile`); retrieval enters first, the deletion second; the hypotheses of
    `C17_concurrent_delete_clears` hold and before the deletion the record existed. -/
section NonVacuity
def exFile : FileS := { root := 1, subs := [[5, 6]], hash := [1, 9] }
def exOp : Nat → Nat → State → State
  | 0, 1, x => markPresent x exFile self 5
  | 1, 0, x => delFile x 1
  | _, _, x => x
def exProg : Nat → LockSetProg.Body
  | 0 => ChunkInfoRegions.OnChunkRetrieved.2
  | 1 => ChunkInfoRegions.DelFile.2
  | _ => []

example : (∀ t, exProg t ∈ callBodies) ∧ (∀ x, eff exOp exProg 1 x = delFile x 1) ∧
    selfBits (eff exOp exProg 0 (putNeighbor {} 1 self 2)).mem 1 = some [true, false] ∧
    (serial exOp exProg [0, 1] (putNeighbor {} 1 self 2)).mem.keys = [] := by
  refine ⟨?_, fun _ => rfl, by decide, by decide⟩
  intro t
  match t with
  | 0 => decide
  | 1 => decide
  | _ + 2 => simp [exProg, callBodies]
end NonVacuity

end Concurrent

end Aurora.ChunkInfo
