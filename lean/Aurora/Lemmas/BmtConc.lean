import Aurora.Model.BmtConc
import Aurora.Lemmas.Bmt
/-!
Helper lemmas for `Props/C03Conc.lean`: the dataflow value `val` of every tree position, the
ghost phase `Ph` of every position and the inductive invariant `Inv` of the interleaving system
`Model/BmtConc.lean`.
-/
namespace Aurora.BmtConc
open Aurora.Bmt

/-! ## `upd` -/

@[simp] theorem upd_same {α : Type} (f : Nat → α) (i : Nat) (v : α) : upd f i v i = v := by simp [upd]
theorem upd_ne {α : Type} (f : Nat → α) (i x : Nat) (v : α) (h : x ≠ i) : upd f i v x = f x := by simp [upd, h]
@[simp] theorem upd2_same {α : Type} (f : Nat → Nat → α) (i j : Nat) (v : α) : upd2 f i j v i j = v := by simp [upd2]
theorem upd2_ne {α : Type} (f : Nat → Nat → α) (i j x y : Nat) (v : α) (h : ¬(x = i ∧ y = j)) :
    upd2 f i j v x y = f x y := by simp [upd2, h]

/-! ## Dataflow: the final path, the value lists per level, the value of a position -/

/-- index of the final section's ancestor at level `c` -/
def path (pos : Nat) : Nat → Nat
  | 0 => pos
  | c + 1 => path pos c / 2

/-- values of level `c`, left to right, up to and including the final path -/
def lvl (cfg : Cfg) : Nat → List Bytes
  | 0 => cfg.vals
  | c + 1 => levelUp cfg.H (zerohash cfg.H cfg.seg (c + 1)) (lvl cfg c)

/-- dataflow value of position `(c, k)`; right of the final path it is the zero hash of the level -/
def val (cfg : Cfg) (c k : Nat) : Bytes := (lvl cfg c).getD k (zerohash cfg.H cfg.seg (c + 1))

theorem lvl_length (cfg : Cfg) (h : cfg.vals ≠ []) (c : Nat) : (lvl cfg c).length = path cfg.pos c + 1 := by
  induction c with
  | zero =>
    have : 0 < cfg.vals.length := List.length_pos_iff.mpr h
    simp only [lvl, path, Cfg.pos]; omega
  | succ c ih => simp only [lvl, path, levelUp_length, ih]; omega

theorem iterUp_lvl (cfg : Cfg) (n c : Nat) :
    iterUp cfg.H cfg.seg n (c + 1) (lvl cfg c) = lvl cfg (c + n) := by
  induction n generalizing c with
  | zero => rfl
  | succ n ih =>
    simp only [iterUp]
    have : levelUp cfg.H (zerohash cfg.H cfg.seg (c + 1)) (lvl cfg c) = lvl cfg (c + 1) := rfl
    rw [this, ih (c + 1)]
    congr 1; omega

theorem levelUp_getD (H : Bytes → Bytes) (zh x : Bytes) (l : List Bytes) (j : Nat) (h : 2 * j < l.length) :
    (levelUp H zh l).getD j x = H (l.getD (2 * j) zh ++ l.getD (2 * j + 1) zh) := by
  induction j generalizing l with
  | zero =>
    match l, h with
    | [a], _ => simp [levelUp]
    | a :: b :: rest, _ => simp [levelUp]
  | succ j ih =>
    match l, h with
    | [a], h => simp at h
    | a :: b :: rest, h =>
      have h' : 2 * j < rest.length := by simp at h; omega
      have e1 : 2 * (j + 1) = 2 * j + 1 + 1 := by omega
      have e2 : 2 * (j + 1) + 1 = 2 * j + 1 + 1 + 1 := by omega
      rw [e2, e1]
      simp only [levelUp, List.getD_cons_succ]
      exact ih rest h'

theorem val_succ (cfg : Cfg) (h : cfg.vals ≠ []) (c j : Nat) (hj : j ≤ path cfg.pos (c + 1)) :
    val cfg (c + 1) j = cfg.H (val cfg c (2 * j) ++ val cfg c (2 * j + 1)) := by
  unfold val
  show (levelUp cfg.H (zerohash cfg.H cfg.seg (c + 1)) (lvl cfg c)).getD j _ = _
  apply levelUp_getD
  rw [lvl_length cfg h]
  simp only [path] at hj; omega

theorem val_out (cfg : Cfg) (h : cfg.vals ≠ []) (c k : Nat) (hk : path cfg.pos c < k) :
    val cfg c k = zerohash cfg.H cfg.seg (c + 1) := by
  unfold val
  have hl := lvl_length cfg h c
  rw [List.getD_eq_getElem?_getD, List.getElem?_eq_none (by omega)]
  rfl

theorem val_zero (cfg : Cfg) (t : Nat) (ht : t ≤ cfg.pos) (h : cfg.vals ≠ []) : val cfg 0 t = cfg.vals.getD t [] := by
  have : 0 < cfg.vals.length := List.length_pos_iff.mpr h
  have ht' : t < cfg.vals.length := by unfold Cfg.pos at ht; omega
  simp [val, lvl, List.getD_eq_getElem?_getD, List.getElem?_eq_getElem ht']

theorem path_lt (pos c m : Nat) (h : pos < 2 ^ (c + m)) : path pos c < 2 ^ m := by
  induction c generalizing m with
  | zero => simpa [path] using h
  | succ c ih =>
    have := ih (m + 1) (by rw [show c + (m + 1) = c + 1 + m by omega]; exact h)
    simp only [path]
    rw [Nat.pow_succ] at this
    omega

theorem path_d (pos d : Nat) (h : pos < 2 ^ d) : path pos d = 0 := by
  have := path_lt pos d 0 (by simpa using h)
  simpa using this

theorem path_mono (pos c k : Nat) (h : k ≤ path pos c) : k / 2 ≤ path pos (c + 1) := by
  simp only [path]; exact Nat.div_le_div_right h

end Aurora.BmtConc
