import Driver.Localstore
/-! Driver for C11: the shared localstore model driver (result + full index dump per op). -/
namespace Driver.C11
def handler : Driver.Handler := Driver.Localstore.handler false
end Driver.C11
