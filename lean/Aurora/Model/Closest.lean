/-!
# Closest-peer selection (property C23) — executable model

Transcription of `Kad.ClosestPeer` / `Kad.ClosestPeers` (`pkg/topology/kademlia/kademlia.go`)
and of the comparison they use (`boson.Address.Closer` → `boson.DistanceCmp`).  Core Lean only.

The connected peers are given in the order `EachPeerRev` visits them (bins ascending, slice
order inside a bin), each with its reachability flag (`!k.peerFilter(addr)`).
-/
namespace Aurora.Topo

abbrev Addr := List UInt8

/-- the loop of `boson.DistanceCmp(a, x, y)`: `1` if `x` is nearer to `a`, `-1` if `y` is, else `0` -/
def distanceCmpGo : Addr → Addr → Addr → Int
  | ai :: as, xi :: xs, yi :: ys =>
    let dx := xi ^^^ ai
    let dy := yi ^^^ ai
    if dx == dy then distanceCmpGo as xs ys
    else if dx < dy then 1 else -1
  | _, _, _ => 0

/-- `boson.DistanceCmp`; `none` = "address length must match" -/
def distanceCmp (a x y : Addr) : Option Int :=
  if a.length != x.length || a.length != y.length then none else some (distanceCmpGo a x y)

/-- `peer.Closer(addr, closest)` with the error dropped, as `ClosestPeer` does (`closer, _ :=`) -/
def closer (peer addr closest : Addr) : Bool :=
  match distanceCmp addr peer closest with
  | some c => c == 1
  | none => false

/-- XOR distance as a natural number (big-endian), for addresses as long as the target -/
def xorNat : Addr → Addr → Nat
  | t :: ts, x :: xs => (x ^^^ t).toNat * 256 ^ ts.length + xorNat ts xs
  | _, _ => 0

inductive Closest where
  | found (a : Addr)
  | wantSelf
  | notFound
deriving Repr, DecidableEq

/-- the callback handed to `EachPeerRev` (including the `filter.Reachable` wrapper) -/
def closestStep (target : Addr) (reachOnly : Bool) (skip : List Addr) (closest : Addr) (p : Addr × Bool) : Addr :=
  if reachOnly && !p.2 then closest            -- EachPeerRev: filter.Reachable && k.peerFilter(addr)
  else if skip.contains p.1 then closest       -- for _, a := range skipPeers
  else if closest.isEmpty then p.1             -- closest.IsZero()
  else if closer p.1 target closest then p.1
  else closest

/-- `Kad.ClosestPeer(addr, includeSelf, filter, skipPeers...)`.
`selfPublic` is `k.reachability == p2p.ReachabilityStatusPublic`. -/
def closestPeer (base : Addr) (selfPublic : Bool) (conn : List (Addr × Bool))
    (target : Addr) (includeSelf reachOnly : Bool) (skip : List Addr) : Closest :=
  if conn.length == 0 then .notFound
  else
    let init : Addr := if includeSelf && selfPublic then base else []
    let closest := conn.foldl (closestStep target reachOnly skip) init
    if closest.isEmpty then .notFound
    else if closest == base then .wantSelf
    else .found closest

/-- `Kad.ClosestPeers`: `limit` rounds with a growing skip list (`out` is returned in order). -/
def closestPeers (base : Addr) (selfPublic : Bool) (conn : List (Addr × Bool))
    (target : Addr) (reachOnly : Bool) : Nat → List Addr → List Addr
  | 0, _ => []
  | n + 1, skip =>
    match closestPeer base selfPublic conn target false reachOnly skip with
    | .notFound => []                                                      -- break
    | .wantSelf => closestPeers base selfPublic conn target reachOnly n skip   -- continue
    | .found p => p :: closestPeers base selfPublic conn target reachOnly n (skip ++ [p])

end Aurora.Topo
