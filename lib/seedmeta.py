#!/usr/bin/env python3
"""lib/seedmeta.py — (re)write seeded/<id>/meta.json from confirm.log, check outputs and the short descriptions below;
prints the DESIGN §10.3 table rows."""
import json, os, re, glob
D = {  # id: (property, breaks, needs, strengthened-note)
 "C39-1": ("C39", "Equals reads the partial byte from the last backing byte", "backing slice longer than needed and len%8 != 0", ""),
 "C39-2": ("C39", "byte-wise UnsetBytes uses ^= (toggles already-clear bits)", "a mask bit on an already-clear bit", ""),
 "C03-1": ("C03", "Hash zero-pads only zerosection[h.offset:] of the open section", "multi-write whose last write starts mid-section, on a reused (dirty) pooled tree", ""),
 "C03-2": ("C03", "precomputed empty-data hash ignores the span header and is shared between callers", "length 0 with a non-zero span", ""),
 "C04-1": ("C04", "size limit moved into hasher while Valid discards the error: oversize payload + empty address is 'valid'", "payload > C+8 paired with the zero-length address", "missed at first; C04 generator now pairs every payload length class with empty/short/long addresses"),
 "C04-2": ("C04", "pooled BMT tree returned to the pool before Hash runs", ">32 concurrent New/Valid calls (more than pooled trees)", "missed at first; C04 now has a concurrent `par` op (96-128 workers) with a hang watchdog"),
 "C18-1": ("C18", "hand-built prefix range wraps for prefixes ending in 0xff: leveldb Iterate visits nothing", "iterate prefix ending in 0xff", ""),
 "C18-2": ("C18", "mock caches sorted keys, Delete does not invalidate the cache", "iterate; delete; iterate without a new key put in between", ""),
 "C19-1": ("C19", "reverse iteration / Last use the carrying increment for the upper bound", "prefix ending in 0xff and a stored key equal to the truncated bound", ""),
 "C19-2": ("C19", "DeleteInBatch deletes straight from the database", "read between DeleteInBatch and Commit, abandoned batch, or put+delete of one key in a batch", ""),
 "C20-1": ("C20", "ExtendedProximity keeps the 4-byte scan bound of Proximity", "first differing bit 32..35", ""),
 "C20-2": ("C20", "word-wise DistanceCmp never compares the last 8 bytes", "addresses equal in the first 24 bytes", ""),
 "C21-1": ("C21", "in-place swap-remove in PSlice.Remove (no copy-on-write)", "Remove of a non-last element while an iteration holds the bin's slice header", ""),
 "C21-2": ("C21", "Length() from a cached counter that over-counts in-batch duplicates", "batched Add naming one new address twice, then Length()", ""),
 "C22-1": ("C22", "depth recalculated outside depthMu (lost atomicity, stale write-back)", "a slow recalculation overlapped by SetRadius / Disconnected", "MISSED by the sequential C22 check — see §10.4"),
 "C22-2": ("C22", "Disconnected skips the recalculation while BinSize (all peers) stays saturated", "bin shallower than depth with exactly 4 reachable + >=1 unreachable peers, a reachable one disconnects", ""),
 "C23-1": ("C23", "ClosestPeer stops after the target's bin ignoring eligibility", "every peer of the target's bin skipped/unreachable, eligible peers deeper", ""),
 "C23-2": ("C23", "word-wise DistanceCmp compares only the first 8 bytes of 32-byte addresses", "candidates agreeing on their first 8 bytes", "C23 missed it at first (C20 caught it); C23 generator now adds long-common-prefix siblings"),
 "C24-1": ("C24", "PSlice.Add single-address path checks presence under RLock, then appends under Lock without re-check", "two overlapping Adds of one overlay (simultaneous dial), then one Remove", "C24's sequential check misses it; C21's generated lock table (decide) breaks and reports it"),
 "C24-2": ("C24", "binSaturated count jumps to the next bin at the first unreachable peer", "an unreachable peer stored first in an oversaturated bin", ""),
 "C25-1": ("C25", "Add returns early (no timestamp refresh) when the stored block is at least as long", "re-add during or after a block", ""),
 "C25-2": ("C25", "Add lost the `duration != 0` guard: a requested forever is replaced by the stored finite duration", "finite block, then Add(0)", ""),
 "C26-1": ("C26", "Unflag disarms (blockAfter=0) instead of deleting; Flag never re-arms", "flag, unflag, flag again", ""),
 "C26-2": ("C26", "sequencer catches up on wall time but not across a network outage", "outage longer than the flag timeout", ""),
 "C27-1": ("C27", "SavePath persists the route list before truncating it to NeighborAlpha", "alpha+1 saves to one target, then reload", ""),
 "C27-2": ("C27", "Gc bypasses Delete and leaves the expired path in the store", "Gc, then reload", ""),
 "C29-1": ("C29", "skip list rebuilt between the connected and known passes drops the requester", "requester whose proximity to the target is among the requested orders and target != requester", ""),
 "C29-2": ("C29", "limit clamp missed at one site: limitConn uses the unclamped request limit", "limit > 30 with >= 16 connected candidates", ""),
 "C35-1": ("C35", "RefreshKey assigns the new expiry before testing the old one: expired tokens are revived", "refresh of an expired token", ""),
 "C35-2": ("C35", "short-token guard moved from decoded bytes to the base64 string", "valid base64 of 12-16 chars decoding to < 12 bytes", ""),
 "C40-1": ("C40", "pending subscriptions drained only after the key lookup in process", "select picks an unsubscription while a subscription is still queued", ""),
 "C40-2": ("C40", "unsubscription edits the published subscriber slice in place", "Publish iterating the list while an unsubscription is processed", "MISSED — strengthening in progress (pubduring op)"),
 "C40-3": ("C40", "j-- lost in the removal loop", "duplicate subscriptions and a single error value", ""),
 "C02-1": ("C02", "feeder resets bufferIdx only after the flush loop: later chunks of one Write land behind a stale offset", "a Write that finds a non-empty buffer and completes >= 2 chunks", "C01's generator did not split writes that way (C02's does); see C01-1"),
 "C02-2": ("C02", "hashtrie Sum carries a lone reference only if the next level is empty (else wraps it in a single-child chunk)", "8192k+1 chunks with real constants; small-branching instances", ""),
 "C28-1": ("C28", "post-discovery getNextHopRandom call drops the skip list", "relay node without a usable route whose discovery learns a route through its predecessor", "MISSED — strengthening in progress"),
 "C28-2": ("C28", "response filter counts hops instead of nodes (len-1 <= MaxTTL)", "one discovery reaching a node over two branches", ""),
 "C30-1": ("C30", "cheque store takes its lock after the increasing check", "two overlapping deliveries for one issuer on the ChequeStore", "MISSED — strengthening in progress"),
 "C30-2": ("C30", "recovered issuer cached by signature bytes only", "genuine cheque, then a forgery reusing exactly that signature", "MISSED — strengthening in progress"),
 "C31-1": ("C31", "putSendCheque Sets the cheque total in place (aliases the cashed record after a refresh)", "peer settled at a refresh, then a delivered cheque", ""),
 "C31-2": ("C31", "cash-out receipt handler swaps the arguments of trafficPeerChainUpdate", "received cheque, CashCheque, asynchronous receipt", ""),
 "C32-1": ("C32", "getAccountingPeer drops the map lock during the settlement lookup and inserts without re-check", "two concurrent first-time operations on one peer", "MISSED — strengthening in progress"),
 "C32-2": ("C32", "Debit no longer takes the per-peer lock", "concurrent Debits just below the tolerance", ""),
 "C33-1": ("C33", "Put*Traffic accumulate in place (aliasing total and last-cheque amount after restore)", "settled peer, restart, update, restart", ""),
 "C33-2": ("C33", "refresh reads the persisted totals before taking the peer lock", "traffic update overlapping the 24h refresh / Init", "MISSED — strengthening in progress"),
}
rows = []
for d in sorted(glob.glob('/verif/seeded/*')):
    sid = os.path.basename(d)
    if sid not in D or not os.path.exists(d + '/confirm.log'):
        continue
    prop, breaks, needs, note = D[sid]
    log = open(d + '/confirm.log').read()
    conf = re.search(r'confirm: (.*)', log); chk = re.search(r'checks:(.*)', log)
    results = {}
    for f in glob.glob(d + '/check-*.out'):
        p = os.path.basename(f)[6:-4]; t = open(f).read()
        v = re.findall(r'^VIOLATION .*', t, re.M)
        results[p] = {"detected": bool(v), "violation_lines": [x.replace('/verif/replays/', 'seeded/' + sid + '/') for x in v][:4],
                      "summary": (t.strip().splitlines() or [''])[-1]}
    det = [p for p, r in results.items() if r["detected"]]
    meta = {"id": sid, "property": prop, "breaks": breaks, "needs_to_manifest": needs,
            "written_by": "independent sub-agent given only the property text and its own scratch worktree of /repo (lib/mutprompt.py)",
            "confirmed": conf.group(1) if conf else None,
            "what_i_ran": "lib/seeded.sh: scratch worktree — build result identical to baseline, previously passing tests of the touched packages still pass, demonstration (demo.cmd) passes without and fails with the change; then `git -C /repo apply patch.diff`, `./check <Cxx> --tier quick` for the listed properties, `git -C /repo checkout -- .`, checks re-run on the unchanged tree",
            "checks": results, "detected_by": det, "note": note}
    json.dump(meta, open(d + '/meta.json', 'w'), indent=1)
    rows.append(f"| {sid} | {prop} | {breaks}; needs: {needs} | {', '.join(det) if det else '—'} | {'VIOLATION' if det else 'MISSED'}{(' — ' + note) if note else ''} |")
table = "| seed | property | what it breaks; what it needs to manifest | caught by | result |\n|---|---|---|---|---|\n" + "\n".join(rows)
dp = '/verif/DESIGN.md'; ds = open(dp).read()
a = ds.index('<!-- SEEDTABLE-BEGIN -->') + len('<!-- SEEDTABLE-BEGIN -->'); b = ds.index('<!-- SEEDTABLE-END -->')
open(dp, 'w').write(ds[:a] + "\n" + table + "\n" + ds[b:])
print(len(rows), "seeds;", sum('MISSED' in r for r in rows), "currently missed")
