import Aurora.Lemmas.EncUpload
import Aurora.Props.C08
/-!
The decrypting getter on the encrypted trees the upload writes (repository constants: chunk and
padding size 262144, references of 64 bytes, branching 4096): every node's plain chunk comes back
from `encGet` when the store holds the node's encrypted chunk.  Uses C08's theorems
(`C08_encrypt_accepts`, `C08_encrypt_len`, `C08_decrypt_encrypt_prefix`, `C08_strip_leaf`,
`C08_strip_intermediate`); `chunk_roundtrip_len` is `C08_chunk_roundtrip` with the leaf-only premise
"span = |data|" generalised to "the length loop maps the span to |data|", which also covers
intermediate chunks (span = subtree size, data = 64 bytes per child).
-/
namespace Aurora.EncUpload
open Aurora.Bmt (Bytes)
open Aurora.Cac (le64)
open Aurora.Tree (fromLe64 le64_length fromLe64_le64)
open Aurora.Encryption Aurora.DecryptStore

variable (H : Bytes → Bytes) (addr : Bytes → Bytes → Bytes)

/-- `decryptChunkData (EncryptChunk (span ‖ data)) = span ‖ data` whenever the length loop of the
    decrypting store maps the span to `|data|` (C08's round trip, leaf premise generalised). -/
theorem chunk_roundtrip_len (key pad span data es ed : Bytes)
    (hk : key.length = 32) (hH : ∀ x, 32 ≤ (H x).length) (hspan : span.length = 8)
    (hlen : (lengthLoop 262144 64 (u64le span)).toNat = data.length)
    (henc : encryptChunk H 262144 64 key pad (span ++ data) = .ok (es, ed)) :
    decryptChunkData H 262144 64 (es ++ ed) key = .ok (span ++ data) := by
  unfold encryptChunk at henc
  rw [List.take_left' hspan, List.drop_left' hspan] at henc
  cases h1 : (spanEnc 262144 64 key).encrypt H span [] with
  | error e => simp [h1] at henc
  | ok r1 =>
    obtain ⟨es', e1⟩ := r1
    simp only [h1] at henc
    cases h2 : (dataEnc 262144 key).encrypt H data pad with
    | error e => simp [h2] at henc
    | ok r2 =>
      obtain ⟨ed', e2⟩ := r2
      simp only [h2] at henc
      obtain ⟨rfl, rfl⟩ := Prod.mk.inj (Except.ok.inj henc)
      have hw1 : 0 < (spanEnc 262144 64 key).key.length := by simp [spanEnc, hk]
      have hw2 : 0 < (dataEnc 262144 key).key.length := by simp [dataEnc, hk]
      have hH1 : ∀ x, (spanEnc 262144 64 key).key.length ≤ (H x).length := by
        intro x; simp only [spanEnc, hk]; exact hH x
      have hH2 : ∀ x, (dataEnc 262144 key).key.length ≤ (H x).length := by
        intro x; simp only [dataEnc, hk]; exact hH x
      have l1 := C08_encrypt_len H _ _ _ _ _ hw1 hH1 h1
      have l2 := C08_encrypt_len H _ _ _ _ _ hw2 hH2 h2
      simp only [spanEnc, dataEnc] at l1 l2
      simp only [Nat.lt_irrefl, if_false, hspan] at l1
      simp only [show (262144 : Nat) > 0 by omega, if_true] at l2
      obtain ⟨ds, _, hds, hdl, hdp⟩ := C08_decrypt_encrypt_prefix H _ _ _ _ _ hw1 hH1 h1
      obtain ⟨dd, _, hdd, hddl, hddp⟩ := C08_decrypt_encrypt_prefix H _ _ _ _ _ hw2 hH2 h2
      have hds' : ds = span := by
        rw [← hdp, hspan, ← l1, ← hdl]; exact (List.take_length).symm
      subst hds'
      unfold decryptChunkData
      rw [List.take_left' l1, List.drop_left' l1, hds, hdd]
      simp only []
      have : (lengthLoop (UInt64.ofNat 262144) (UInt64.ofNat 64) (u64le ds)).toNat = data.length := hlen
      rw [this, hddp]

/-- `EncryptChunk` succeeds for every admissible draw -/
theorem encryptChunk_ok (key pad span data : Bytes) (hspan : span.length = 8)
    (hd : data.length ≤ 262144) (hpad : pad.length = 262144 - data.length) :
    ∃ es ed, encryptChunk H 262144 64 key pad (span ++ data) = .ok (es, ed) := by
  unfold encryptChunk
  rw [List.take_left' hspan, List.drop_left' hspan]
  obtain ⟨o1, e1, h1⟩ := C08_encrypt_accepts H (spanEnc 262144 64 key) span [] (Or.inl rfl)
    (by simp [spanEnc])
  obtain ⟨o2, e2, h2⟩ := C08_encrypt_accepts H (dataEnc 262144 key) data pad (Or.inr hd)
    (by simp [dataEnc, hpad])
  rw [h1]
  simp only [h2]
  exact ⟨_, _, rfl⟩

theorem u64le_le64 (s : Nat) (hs : s < 2 ^ 64) : u64le (le64 s) = UInt64.ofNat s := by
  have h := fromLe64_le64 s hs
  unfold fromLe64 at h
  unfold u64le
  rw [h]

/-- a 32-byte version of any key (the identity on the keys `GenerateRandomKey(32)` returns) -/
def fit32 (k : Bytes) : Bytes := if k.length = 32 then k else List.replicate 32 0

theorem fit32_length (k : Bytes) : (fit32 k).length = 32 := by
  unfold fit32; split <;> simp [*]

theorem fit32_id (k : Bytes) (h : k.length = 32) : fit32 k = k := by simp [fit32, h]

/-- the pipeline's reference / stored chunk, with the key normalised to 32 bytes: a reference
    function of constant length 64 that agrees with `erefOf` on every tree the upload writes
    (`ref_fit`) -/
def erefN (k q s p : Bytes) : Bytes := erefOf H addr 262144 64 (fit32 k) q s p
def echunkN (k q s p : Bytes) : Bytes × Bytes := echunkOf H addr 262144 64 (fit32 k) q s p

theorem erefN_length (haddr : ∀ s p, (addr s p).length = 32) (k q s p : Bytes) :
    (erefN H addr k q s p).length = 64 := by
  simp [erefN, erefOf, echunkOf, haddr, fit32_length]

/-- all keys of the tree have 32 bytes -/
def Keys32 (orc : Nat → Nat → Bytes × Bytes) : Prop := ∀ o s, (orc o s).1.length = 32

mutual
theorem ref_fit (orc : Nat → Nat → Bytes × Bytes) (hk : Keys32 orc) : ∀ (e : ET), e.decBy orc →
    e.ref (erefN H addr) = e.ref (erefOf H addr 262144 64) ∧
    e.chunks (erefN H addr) = e.chunks (erefOf H addr 262144 64) ∧
    e.stored (erefN H addr) (echunkN H addr) = e.stored (erefOf H addr 262144 64) (echunkOf H addr 262144 64)
  | .leaf k p d, hd => by
    obtain ⟨o, ho⟩ := hd
    have hk32 : k.length = 32 := by
      have := hk o d.length; rw [← ho] at this; exact this
    simp [ET.ref, ET.chunks, ET.stored, erefN, echunkN, fit32_id k hk32]
  | .node k p s ks, hd => by
    obtain ⟨⟨o, ho⟩, hks⟩ := hd
    have hk32 : k.length = 32 := by
      have := hk o s; rw [← ho] at this; exact this
    obtain ⟨h1, h2, h3⟩ := refsL_fit orc hk ks hks
    simp [ET.ref, ET.chunks, ET.stored, erefN, echunkN, fit32_id k hk32, h1, h2, h3]
theorem refsL_fit (orc : Nat → Nat → Bytes × Bytes) (hk : Keys32 orc) : ∀ (ks : List ET), decByL orc ks →
    erefsL (erefN H addr) ks = erefsL (erefOf H addr 262144 64) ks ∧
    echunksL (erefN H addr) ks = echunksL (erefOf H addr 262144 64) ks ∧
    estoredL (erefN H addr) (echunkN H addr) ks = estoredL (erefOf H addr 262144 64) (echunkOf H addr 262144 64) ks
  | [], _ => by simp [erefsL, echunksL, estoredL]
  | t :: ts, hd => by
    obtain ⟨h1, h2, h3⟩ := ref_fit orc hk t hd.1
    obtain ⟨g1, g2, g3⟩ := refsL_fit orc hk ts hd.2
    simp [erefsL, echunksL, estoredL, h1, h2, h3, g1, g2, g3]
end

/-! ## the decrypting getter returns every plain chunk of the tree -/

/-- what `crypto/rand` can return for the chunk at a position whose span is `s`: a 32-byte key and
    as many padding bytes as are missing to `ChunkSize` — the payload length is the one the
    decrypting store recovers from the span (`|data|` for a data chunk, 64 bytes per reference for
    an intermediate chunk: `C08_strip_leaf`, `C08_strip_intermediate`) -/
def Admissible (orc : Nat → Nat → Bytes × Bytes) : Prop :=
  ∀ o s, (orc o s).1.length = 32 ∧
    (orc o s).2.length = 262144 - (lengthLoop 262144 64 (UInt64.ofNat s)).toNat

section Get
variable (lookup : Bytes → Option Bytes)

/-- one chunk: if the store holds what the pipeline `Put` for `span ‖ payload` under key `k`
    (32 bytes) and padding `q`, the decrypting getter returns `span ‖ payload` for `address ‖ k` -/
theorem node_get (hH : ∀ x, 32 ≤ (H x).length) (haddr : ∀ s p, (addr s p).length = 32)
    (k q payload : Bytes) (s : Nat) (hk : k.length = 32) (hs : s < 2 ^ 64)
    (hpl : (lengthLoop 262144 64 (UInt64.ofNat s)).toNat = payload.length)
    (hple : payload.length ≤ 262144) (hq : q.length = 262144 - payload.length)
    (hlook : lookup (echunkOf H addr 262144 64 k q (le64 s) payload).1 =
      some (echunkOf H addr 262144 64 k q (le64 s) payload).2) :
    encGet H 262144 64 32 lookup (erefOf H addr 262144 64 k q (le64 s) payload) = .ok (le64 s ++ payload) := by
  obtain ⟨es, ed, henc⟩ := encryptChunk_ok H k q (le64 s) payload (le64_length s) hple hq
  have hT : encT H 262144 64 k q (le64 s ++ payload) = (es, ed) := by simp [encT, henc]
  have hrt := chunk_roundtrip_len H k q (le64 s) payload es ed hk hH (le64_length s)
    (by rw [u64le_le64 s hs]; exact hpl) henc
  simp only [echunkOf, hT] at hlook
  unfold encGet DecryptStore.storeGet
  have hal : (addr es ed).length = 32 := haddr _ _
  have h1 : ¬ (erefOf H addr 262144 64 k q (le64 s) payload).length = 32 := by
    simp [erefOf, echunkOf, hT, hal, hk]
  have h2 : (erefOf H addr 262144 64 k q (le64 s) payload).length = 64 := by
    simp [erefOf, echunkOf, hT, hal, hk]
  have h3 : ¬ ((64 : Nat) = 32) := by decide
  simp only [h2, h3, ↓reduceIte]
  have e : erefOf H addr 262144 64 k q (le64 s) payload = addr es ed ++ k := by
    simp [erefOf, echunkOf, hT]
  rw [e, List.take_left' hal, List.drop_left' hal, hlook]
  simp only [hrt]

theorem echunksL_exists (eref : Bytes → Bytes → Bytes → Bytes → Bytes) (ks : List ET) (x : Bytes × Bytes)
    (hx : x ∈ echunksL eref ks) : ∃ k ∈ ks, x ∈ k.chunks eref := by
  induction ks with
  | nil => simp [echunksL] at hx
  | cons t ts ih =>
    rw [echunksL] at hx
    rcases List.mem_append.mp hx with h | h
    · exact ⟨t, by simp, h⟩
    · obtain ⟨k, hk, hxk⟩ := ih h
      exact ⟨k, by simp [hk], hxk⟩

theorem estoredL_of_mem (eref : Bytes → Bytes → Bytes → Bytes → Bytes)
    (echunk : Bytes → Bytes → Bytes → Bytes → Bytes × Bytes) (ks : List ET) (k : ET) (hk : k ∈ ks)
    (c : Bytes × Bytes) (hc : c ∈ k.stored eref echunk) : c ∈ estoredL eref echunk ks := by
  induction ks with
  | nil => simp at hk
  | cons t ts ih =>
    rw [estoredL]
    rcases List.mem_cons.mp hk with h | h
    · subst h; exact List.mem_append_left _ hc
    · exact List.mem_append_right _ (ih h)

/-- **every plain chunk of a well-formed tree comes back from the decrypting getter** when the
    store holds the tree's encrypted chunks and the decorations are admissible oracle values -/
theorem holdsN (orc : Nat → Nat → Bytes × Bytes) (hadm : Admissible orc)
    (hH : ∀ x, 32 ≤ (H x).length) (haddr : ∀ s p, (addr s p).length = 32) :
    ∀ (h : Nat) (e : ET), EWF 262144 4096 h e → e.decBy orc → e.size < 2 ^ 63 →
      (∀ c ∈ e.stored (erefN H addr) (echunkN H addr), lookup c.1 = some c.2) →
      EHolds (erefN H addr) (encGet H 262144 64 32 lookup) e := by
  intro h
  induction h with
  | zero =>
    intro e w hd hsz hst x hx
    rw [EWF] at w
    obtain ⟨k, p, d, rfl, hl⟩ := w
    obtain ⟨o, ho⟩ := hd
    have ha := hadm o d.length
    rw [← ho] at ha
    simp only [ET.size] at hsz
    have hL := C08_strip_leaf d.length hl
    simp only [ET.chunks, List.mem_singleton] at hx
    subst hx
    have hs := hst (echunkN H addr k p (le64 d.length) d) (by simp [ET.stored])
    simp only [erefN, echunkN] at hs ⊢
    exact node_get H addr lookup hH haddr (fit32 k) p d d.length (fit32_length k) (by omega) hL hl
      (by rw [ha.2, hL]) hs
  | succ h ih =>
    intro e w hd hsz hst
    rcases EWF_succ_cases 262144 4096 h e w with w' | ⟨k0, p0, span, init, last, rfl, h1, h2, hinit, hlast, hpos, hle, hspan⟩
    · exact ih e w' hd hsz hst
    · intro x hx
      obtain ⟨⟨o, ho⟩, hks⟩ := hd
      have ha := hadm o span
      rw [← ho] at ha
      simp only [ET.size] at hsz
      have hQ := node_span init last (262144 * 4096 ^ h) (fun k hk => (hinit k hk).2)
      have hplen : (erefsL (erefN H addr) (init ++ [last])).length = 64 * (init.length + 1) := by
        rw [refsL_length (erefN H addr) 64 (erefN_length H addr haddr)]; simp
      have hwf : WFNode 262144 4096 h (init.length + 1) span := by
        refine ⟨by omega, h2, ?_, ?_⟩
        · simp only [full, Nat.add_sub_cancel]; rw [hspan, hQ]; omega
        · simp only [full]; rw [hspan, hQ, Nat.add_mul]; omega
      have hL := C08_strip_intermediate h (init.length + 1) span hwf hsz
      simp only [ET.chunks] at hx
      rcases List.mem_cons.mp hx with hx | hx
      · subst hx
        have hs := hst (echunkN H addr k0 p0 (le64 span) (erefsL (erefN H addr) (init ++ [last]))) (by simp [ET.stored])
        simp only [erefN, echunkN] at hs ⊢
        exact node_get H addr lookup hH haddr (fit32 k0) p0 _ span (fit32_length k0) (by omega)
          (by rw [hL]; exact hplen.symm) (by rw [hplen]; omega) (by rw [ha.2, hL, hplen]) hs
      · obtain ⟨kid, hkid, hxk⟩ := echunksL_exists _ _ x hx
        have hkwf : EWF 262144 4096 h kid := by
          rcases List.mem_append.mp hkid with hk | hk
          · exact (hinit kid hk).1
          · simp at hk; subst hk; exact hlast
        have hksz : kid.size ≤ span := by rw [hspan]; exact size_le_sum _ kid hkid
        exact ih kid hkwf (decByL_mem orc _ hks kid hkid) (by omega)
          (fun c hc => hst c (by
            simp only [ET.stored]
            exact List.mem_cons_of_mem _ (estoredL_of_mem _ _ _ kid hkid c hc))) x hxk

end Get

end Aurora.EncUpload
