import Aurora.Model.Bmt
/-!
# Model of `builder.FeedPipeline` (`/repo/pkg/file/pipeline/builder/builder.go`)

`FeedPipeline(ctx, pipeline, r)` reads from `r` into a `ChunkSize` buffer until `io.EOF` and hands every
piece to `pipeline.Write`, then calls `pipeline.Sum()`.  A reader may deliver its last bytes *together
with* `io.EOF` (`n > 0, err == io.EOF` — allowed by the `io.Reader` contract; `iotest.DataErrReader`,
HTTP bodies of known length) — the loop writes those bytes before it leaves.

One `r.Read(data)` is represented by its result `(data[:c], err == io.EOF)`; the sequence of results is
the environment's choice (the reader's), the model says which `pipeline.Write` calls follow.  Other
reader errors, pipeline errors / short writes and context cancellation are not modelled.
-/
namespace Aurora.FeedPipeline
open Aurora.Bmt (Bytes)

/-- one `r.Read(data)`: the bytes delivered and whether the error was `io.EOF` -/
abbrev ReadRes := Bytes × Bool

/-- the arguments of the `pipeline.Write` calls for a sequence of read results (reads after the first
    `io.EOF` never happen) -/
def writes : List ReadRes → List Bytes
  | [] => []
  | (d, true) :: _ => if d.length > 0 then [d] else []       -- `if err == io.EOF { if c > 0 { Write } break }`
  | (d, false) :: rest => d :: writes rest                   -- `pipeline.Write(data[:c])`

/-- the read results a reader produced for a content: consecutive slices, exactly one `io.EOF`, at the end -/
def Admissible (content : Bytes) (rs : List ReadRes) : Prop :=
  (rs.map (·.1)).flatten = content ∧ ∃ init d, rs = init ++ [(d, true)] ∧ ∀ r ∈ init, r.2 = false

end Aurora.FeedPipeline
