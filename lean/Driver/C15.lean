import Driver.NodeLite
/-! Driver for C15: the shared node-lite model driver (status + full symbolic dump per op). -/
namespace Driver.C15
def handler : Driver.Handler := Driver.NodeLite.handler
end Driver.C15
