import Driver.FileCommon
/-! Driver for C01: the shared file-pipeline driver (see `Driver/FileCommon.lean` for the ops). -/
namespace Driver.C01
def handler : Driver.Handler := Driver.File.handler
end Driver.C01
