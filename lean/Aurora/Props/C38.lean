import Aurora.Model.Group
import Aurora.Model.Flood
namespace Aurora.Group
/-- placeholder while the correspondence is brought up -/
theorem C38_placeholder : (run []).connected = [] := rfl
end Aurora.Group
