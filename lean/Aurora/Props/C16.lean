import Aurora.Lemmas.ChunkPyramid
import Aurora.Model.NodeLite
import Aurora.Generated.DeleteFacts
/-!
# C16 — Deleting one file never breaks another

Property theorems only (helper lemmas: `Aurora/Lemmas/ChunkPyramid.lean`).  The model is
`Aurora/Model/ChunkPyramid.lean` (the pyramid reference counts of `pkg/chunkinfo`, after the
C16 `fix:` commit) and the deletion / eviction step of `Aurora/Model/NodeLite.lean`
(`apiDelete`, `gcRun`): both the API's delete closure (`pkg/api/dirs.go`) and the eviction
closure of `collectGarbage` (`pkg/localstore/gc.go`) remove exactly the chunks of
`GetChunkPyramid(root)` = `getUnRepeatChunk` (each `Number` times) and then the root chunk.
The C16 correspondence run compares stored set, pin index, gc index and the reference counts
with the real node after every operation.

`chunksOf f` = the distinct chunks of a file (data chunks and pyramid keys).  A *registry* `reg`
is the list of files whose pyramid is registered; `WF reg s` says the table `s` agrees with it
(every count = number of registered files containing the chunk; registered roots = roots of
`reg`).  No bound on the number of files, their overlap, or the history.
-/
namespace Aurora.ChunkPyramid

/-- addresses handed to `ModeSetRemove` / deleted by the eviction closure for file `f` -/
def removalSet (s : State) (f : FileS) : List Addr := (getUnRepeatChunk s f).map (·.1) ++ [f.root]

/-- register / release operations on the pyramid table -/
inductive Op
  | register (f : FileS)   -- `updateChunkPyramid` through `getChunkSize` / `onChunkPyramidResp`
  | release (f : FileS)    -- `delRootCid` at the end of `DelFile`

def applyOp (s : State) : Op → State
  | .register f => ensure s f
  | .release f => delRootCid s f

/-- the registry the operations describe -/
def regOp (reg : List FileS) : Op → List FileS
  | .register f => if reg.any (fun g => g.root == f.root) then reg else reg ++ [f]
  | .release f => reg.filter (fun g => g.root != f.root)

def Op.file : Op → FileS
  | .register f => f
  | .release f => f

/-- Key invariant: after ANY history of registrations (upload, pyramid exchange, lazy
    registration, restart) and releases (delete, eviction) — releases of unregistered roots
    included — every reference count equals the number of registered files containing the chunk.
    Premise: a root determines its file (`hfun`: the reference is a hash of the content). -/
theorem C16_refcount_invariant (ops : List Op)
    (hfun : ∀ o₁ ∈ ops, ∀ o₂ ∈ ops, o₁.file.root = o₂.file.root → o₁.file = o₂.file) :
    WF (ops.foldl regOp []) (ops.foldl applyOp {}) ∧
      ∀ g ∈ ops.foldl regOp [], ∃ o ∈ ops, o.file = g := by
  have gen : ∀ (ops : List Op) (reg : List FileS) (s : State),
      (∀ o₁ ∈ ops, ∀ o₂ ∈ ops, o₁.file.root = o₂.file.root → o₁.file = o₂.file) →
      (∀ o ∈ ops, ∀ g ∈ reg, o.file.root = g.root → o.file = g) →
      WF reg s →
      WF (ops.foldl regOp reg) (ops.foldl applyOp s) ∧
        ∀ g ∈ ops.foldl regOp reg, g ∈ reg ∨ ∃ o ∈ ops, o.file = g := by
    intro ops
    induction ops with
    | nil => intro reg s _ _ h; exact ⟨h, fun g hg => Or.inl hg⟩
    | cons o ops ih =>
      intro reg s h1 h2 hwf
      simp only [List.foldl]
      have h1' : ∀ o₁ ∈ ops, ∀ o₂ ∈ ops, o₁.file.root = o₂.file.root → o₁.file = o₂.file :=
        fun a ha b hb => h1 a (by simp [ha]) b (by simp [hb])
      -- one step
      have hstep : WF (regOp reg o) (applyOp s o) ∧ ∀ g ∈ regOp reg o, g ∈ reg ∨ g = o.file := by
        cases o with
        | register f =>
          by_cases hr : s.registered f.root = true
          · obtain ⟨g, hg, hgr⟩ := (hwf.regd f.root).mp hr
            have hany : reg.any (fun g => g.root == f.root) = true :=
              List.any_eq_true.mpr ⟨g, hg, by simpa using hgr⟩
            simp only [regOp, hany, if_true, applyOp, ensure, hr]
            exact ⟨hwf, fun g hg => Or.inl hg⟩
          · have hr' : s.registered f.root = false := by simpa using hr
            have hany : reg.any (fun g => g.root == f.root) = false := by
              apply Bool.eq_false_iff.mpr
              intro hc
              obtain ⟨g, hg, hgr⟩ := List.any_eq_true.mp hc
              have := (hwf.regd f.root).mpr ⟨g, hg, by simpa using hgr⟩
              rw [hr'] at this; simp at this
            simp only [regOp, hany, Bool.false_eq_true, if_false, applyOp]
            refine ⟨wf_register reg s f hwf hr', ?_⟩
            intro g hg
            rcases List.mem_append.mp hg with h | h
            · exact Or.inl h
            · simp at h; exact Or.inr h
        | release f =>
          simp only [regOp, applyOp]
          by_cases hr : s.registered f.root = true
          · obtain ⟨g, hg, hgr⟩ := (hwf.regd f.root).mp hr
            have hfg : f = g := h2 (.release f) (by simp) g hg hgr.symm
            subst hfg
            exact ⟨wf_release reg s f hwf hg, fun x hx => Or.inl (List.mem_filter.mp hx).1⟩
          · have hr' : s.registered f.root = false := by simpa using hr
            have hfil : reg.filter (fun g => g.root != f.root) = reg := by
              apply List.filter_eq_self.mpr
              intro g hg
              have : g.root ≠ f.root := by
                intro e
                have := (hwf.regd f.root).mpr ⟨g, hg, e⟩
                rw [hr'] at this; simp at this
              simpa using this
            simp only [delRootCid, hr', Bool.not_false, if_true, hfil]
            exact ⟨hwf, fun g hg => Or.inl hg⟩
      have h2' : ∀ o' ∈ ops, ∀ g ∈ regOp reg o, o'.file.root = g.root → o'.file = g := by
        intro o' ho' g hg hroot
        rcases hstep.2 g hg with hmem | heq
        · exact h2 o' (by simp [ho']) g hmem hroot
        · subst heq; exact h1 o' (by simp [ho']) o (by simp) hroot
      obtain ⟨w, m⟩ := ih (regOp reg o) (applyOp s o) h1' h2' hstep.1
      refine ⟨w, ?_⟩
      intro g hg
      rcases m g hg with hmem | ⟨o', ho', hfile⟩
      · rcases hstep.2 g hmem with h | h
        · exact Or.inl h
        · exact Or.inr ⟨o, by simp, h.symm⟩
      · exact Or.inr ⟨o', by simp [ho'], hfile⟩
  have h0 : WF [] ({} : State) := ⟨by intro c; simp [refc, uses], by intro r; simp [State.registered], by simp⟩
  obtain ⟨w, m⟩ := gen ops [] {} hfun (by intro _ _ g hg; simp at hg) h0
  refine ⟨w, ?_⟩
  intro g hg
  rcases m g hg with h | h
  · simp at h
  · exact h

/-- Clause 1 (`delete_preserves_others`), for deletion through the API and for eviction alike:
    with the table in agreement with the registry, removing file `f` — registered, or (after the
    `fix:`) not registered at all, e.g. a second DELETE of a file that stayed stored because it
    is pinned — hands no chunk of any OTHER registered file `g` to `ModeSetRemove`.  So every
    chunk of `g` stays stored and, by C01's reader theorem, `g` reads back.
    `hroot`: the root chunk of `f` is not a chunk of `g` (distinct manifests have distinct root
    chunks — collision freedom of the content hash). -/
theorem C16_delete_preserves_others (reg : List FileS) (s : State) (f g : FileS) (h : WF reg s)
    (hf : f ∈ reg ∨ s.registered f.root = false) (hg : g ∈ reg) (hne : g ≠ f)
    (hroot : f.root ∉ chunksOf g) :
    ∀ c ∈ chunksOf g, c ∉ removalSet s f := by
  intro c hc hmem
  unfold removalSet at hmem
  rcases List.mem_append.mp hmem with h1 | h1
  · -- c is listed as unshared although g uses it
    obtain ⟨e, he, hec⟩ := List.mem_map.mp h1
    unfold getUnRepeatChunk at he
    have hle : c ∈ chunksOf f ∧ refc s.chunk c ≤ own s f := by
      rcases List.mem_append.mp he with h2 | h2
      · obtain ⟨x, hx, hxe⟩ := List.mem_map.mp h2
        have := List.mem_filter.mp hx
        subst hxe; simp only at hec; subst hec
        exact ⟨(mem_chunksOf f x).mpr (Or.inl this.1), by simpa using this.2⟩
      · obtain ⟨x, hx, hxe⟩ := List.mem_map.mp h2
        have := List.mem_filter.mp hx
        subst hxe; simp only at hec; subst hec
        exact ⟨(mem_chunksOf f x).mpr (Or.inr this.1), by simpa using this.2⟩
    rw [h.refs c] at hle
    rcases hf with hfr | hfu
    · have hreg : s.registered f.root = true := (h.regd f.root).mpr ⟨f, hfr, rfl⟩
      have : 2 ≤ uses reg c := uses_ge_two reg f g c hfr hg (Ne.symm hne) hle.1 hc
      have hown : own s f = 1 := by simp [own, hreg]
      omega
    · have : 1 ≤ uses reg c := uses_pos reg g c hg hc
      have hown : own s f = 0 := by simp [own, hfu]
      omega
  · simp at h1; subst h1; exact hroot hc

/-- Clause 2 (`delete_leaves_no_orphans`): every chunk of a registered file `f` that no other
    registered file contains is handed to `ModeSetRemove` — data chunks `Number` = occurrences
    times, other chunks once — and so is the root.  (`setRemove` then deletes the chunk unless
    its pin counter stays positive: no unpinned orphan remains; that step is the localstore
    model's, tied by the correspondence run.) -/
theorem C16_delete_leaves_no_orphans (reg : List FileS) (s : State) (f : FileS) (h : WF reg s)
    (hf : f ∈ reg) (c : Addr) (hc : c ∈ chunksOf f)
    (honly : ∀ g ∈ reg, g ≠ f → c ∉ chunksOf g) :
    c ∈ removalSet s f ∧ f.root ∈ removalSet s f ∧
      (c ∈ f.cids → (c, f.number c) ∈ getUnRepeatChunk s f ∧ 0 < f.number c) := by
  have hnd : reg.Nodup := by
    exact nodup_of_nodup_map (·.root) reg h.uniq
  have hone : refc s.chunk c = 1 := by rw [h.refs c]; exact uses_eq_one reg f c hnd hf hc honly
  have hreg : s.registered f.root = true := (h.regd f.root).mpr ⟨f, hf, rfl⟩
  have hown : own s f = 1 := by simp [own, hreg]
  have hlist : c ∈ f.cids → (c, f.number c) ∈ getUnRepeatChunk s f := by
    intro h1
    unfold getUnRepeatChunk
    apply List.mem_append.mpr; left
    exact List.mem_map.mpr ⟨c, List.mem_filter.mpr ⟨h1, by simp [hone, hown]⟩, rfl⟩
  refine ⟨?_, by simp [removalSet], ?_⟩
  · unfold removalSet
    apply List.mem_append.mpr; left
    rcases (mem_chunksOf f c).mp hc with h1 | h1
    · exact List.mem_map.mpr ⟨_, hlist h1, rfl⟩
    · unfold getUnRepeatChunk
      exact List.mem_map.mpr ⟨(c, 1), List.mem_append.mpr (Or.inr
        (List.mem_map.mpr ⟨c, List.mem_filter.mpr ⟨h1, by simp [hone, hown]⟩, rfl⟩)), rfl⟩
  · intro h1
    refine ⟨hlist h1, ?_⟩
    unfold FileS.number
    apply List.count_pos_iff.mpr
    exact (mem_dedup f.data c).mp h1

/-- The defect repaired by the C16 `fix:` commit, on the model of the UNFIXED code
    (`own = 1` unconditionally): a release of an unregistered root lists other files' chunks. -/
theorem C16_unfixed_counterexample :
    let g : FileS := { root := 7, subs := [[2, 3]], hash := [7, 4] }
    let f : FileS := { root := 1, subs := [[2, 3]], hash := [1, 4] }
    let s := ensure {} g
    -- f is not registered, g is; the unfixed test `refcount ≤ 1` lists g's chunks 2, 3, 4 for f
    (f.cids.filter (fun c => refc s.chunk c ≤ 1)) = [2, 3] ∧
    -- the fixed test lists none of them (only f's own root, which nobody else uses)
    (getUnRepeatChunk s f).map (·.1) = [1] := by decide

/-! ### non-vacuity -/

example :
    let x : FileS := { root := 1, subs := [[2, 3]], hash := [1, 4, 5] }
    let y : FileS := { root := 6, subs := [[2, 3, 2]], hash := [6, 4, 7] }
    let s := [Op.register x, Op.register y].foldl applyOp {}
    (refc s.chunk 2, refc s.chunk 5, (getUnRepeatChunk s y).map (·.1), removalSet s x) =
      (2, 1, [6, 7], [1, 5, 1]) := by decide

end Aurora.ChunkPyramid

namespace Aurora.NodeLite
open Aurora.Generated.DeleteFacts

/-- **static obligation** (facts regenerated from pkg/api/dirs.go and pkg/chunkinfo/chunkinfo.go on every
    run, harness/cmd/extract/delete_facts.go): list-then-remove of the DELETE handler is ONE step under
    chunkinfo's lock.  `auroraDeleteHandler` calls `DelFile` exactly once, with a function literal of the
    handler as callback; every `GetChunkPyramid` call of the handler (there is one) and every
    `Set(ModeSetRemove)` sits inside that literal; `(*ChunkInfo).DelFile` starts with
    `ci.syncLk.Lock(); defer ci.syncLk.Unlock()` and calls the callback in its own body.  This is what
    `apiDelete` (list and removal from the same state) and `apiDeleteHeld` (an overlapping operation is
    ordered entirely before the list is computed) assume.  The seeded change C16-3 hoists the
    `GetChunkPyramid` call out of the callback: its row becomes `(line, false)` and this fails. -/
theorem C16_delete_list_computed_under_lock :
    handlerFound = true ∧
    delFileCalls.length = 1 ∧ delFileCalls.all (·.2) = true ∧
    getChunkPyramidCalls ≠ [] ∧ getChunkPyramidCalls.all (·.2) = true ∧
    removeCalls ≠ [] ∧ removeCalls.all (·.2) = true ∧
    delFileLocks = true ∧ delFileMutex = "syncLk" ∧ delFileCallsCallback = true := by
  decide

/-- **Overlapping delete = sequential composition in lock order.**  A DELETE of `f` that overlaps with
    another operation `during` (upload or DELETE of another file, completed while the handler waits at
    the entry of `DelFile`) is that operation followed by the whole delete: the list of chunks to remove
    is `getUnRepeatChunk` of the reference counts AFTER `during`.  Together with
    `C16_delete_preserves_others` / `C16_delete_leaves_no_orphans` (which hold in every well-formed
    state, in particular the one after `during`): a file registered meanwhile keeps its chunks, and a
    file deleted meanwhile no longer protects them.  The `delr` op of the correspondence run executes
    exactly this schedule on the real node. -/
theorem C16_overlapping_delete_is_sequential (s : State) (f : Aurora.ChunkPyramid.FileS)
    (during : State → State) :
    apiDeleteHeld s f during = apiDelete (during s) f := rfl

end Aurora.NodeLite
