package c37

import (
	"context"

	accmock "github.com/gauss-project/aurorafs/pkg/accounting/mock"
	"github.com/gauss-project/aurorafs/pkg/boson"
	"github.com/gauss-project/aurorafs/pkg/cac"
	"github.com/gauss-project/aurorafs/pkg/chunkinfo"
	"github.com/gauss-project/aurorafs/pkg/p2p"
	"github.com/gauss-project/aurorafs/pkg/pingpong"
	pingpb "github.com/gauss-project/aurorafs/pkg/pingpong/pb"
	"github.com/gauss-project/aurorafs/pkg/retrieval"
	"github.com/gauss-project/aurorafs/pkg/retrieval/aco"
	retpb "github.com/gauss-project/aurorafs/pkg/retrieval/pb"
	rtmock "github.com/gauss-project/aurorafs/pkg/routetab/mock"
	"github.com/gauss-project/aurorafs/pkg/soc"
	"github.com/gauss-project/aurorafs/pkg/storage"
	storemock "github.com/gauss-project/aurorafs/pkg/storage/mock"
	"github.com/gauss-project/aurorafs/pkg/subscribe"

	"verifharness/core"
)

// ---- retrieval: handler (RequestChunk) and the client read of retrieveChunk (Delivery)

type ciStub struct{ chunkinfo.Interface }

func (ciStub) OnChunkTransferred(cid, rootCid, overlays, target boson.Address) error { return nil }
func (ciStub) OnChunkRetrieved(cid, rootCid, sourceOverlay boson.Address) error      { return nil }
func (ciStub) GetChunkInfo(rootCid, cid boson.Address) []aco.Route                   { return nil }

type retEnv struct {
	svc   *retrieval.Service
	st    *fakeStreamer
	store *storemock.MockStorer
	self  boson.Address
	known boson.Chunk
}

// retKnownData is the payload of the one chunk the node's store holds.
var retKnownData = []byte("c37 known chunk payload")

func retKnownChunk() boson.Chunk {
	ch, err := cac.New(retKnownData)
	if err != nil {
		panic(err)
	}
	return ch
}

func newRetEnv() *retEnv {
	self := overlayOf("ret-self")
	st := &fakeStreamer{}
	store := storemock.NewStorer()
	ch := retKnownChunk()
	if _, err := store.Put(context.Background(), storage.ModePutUpload, ch); err != nil {
		panic(err)
	}
	rt := rtmock.NewMockRouteTable()
	svc := retrieval.New(self, st, &rt, store, true, noLog, nil, accmock.NewAccounting(), subscribe.NewSubPub())
	svc.Config(ciStub{})
	return &retEnv{svc: svc, st: st, store: store, self: self, known: ch}
}

func (rn *runner) stepRet(ctx *core.Ctx, op []string) string {
	if len(op) < 2 {
		return "bad-op"
	}
	stream, err := core.UnHex(op[1])
	if err != nil {
		return "bad-op"
	}
	if rn.ret == nil {
		rn.ret = newRetEnv()
	}
	e := rn.ret
	fr := newFrameReader(stream)
	peer := p2p.Peer{Address: overlayOf("ret-peer"), Mode: fullMode}
	switch {
	case op[0] == "ret.handler" && len(op) == 2:
		var req retpb.RequestChunk
		if ok, _ := fr.next(&req); !ok {
			ctx.Annotate("X")
		} else {
			_, gerr := e.store.Get(context.Background(), storage.ModeGetRequest, boson.NewAddress(req.ChunkAddr))
			ctx.Annotate("Q", hx(req.TargetAddr), hx(req.RootAddr), hx(req.ChunkAddr), core.B(gerr == nil), core.B(e.self.Equal(boson.NewAddress(req.TargetAddr))))
		}
		e.st.setReply(nil) // a forwarded request gets no answer (the next node closes the stream)
		h := e.svc.Protocol().StreamSpecs[0].Handler
		o := run(func() error { return h(context.Background(), peer, newStream(stream)) })
		report(ctx, o, "retrieval-handler", "retrieval.handler")
		return o.class
	case op[0] == "ret.retrieve" && len(op) == 3:
		// client: RetrieveChunkFromNode -> retrieveChunk reads the peer's Delivery for chunk address op[2]
		ab, err := core.UnHex(op[2])
		if err != nil {
			return "bad-op"
		}
		addr := boson.NewAddress(ab)
		var d retpb.Delivery
		if ok, _ := fr.next(&d); !ok {
			ctx.Annotate("X")
		} else {
			var cv, sv bool
			v := run(func() error {
				ch := boson.NewChunk(addr, d.Data)
				cv = cac.Valid(ch)
				if !cv {
					sv = soc.Valid(ch)
				}
				return nil
			})
			report(ctx, v, "retrieval-chunk-validation", "cac.Valid/soc.Valid on delivered data")
			ctx.Annotate("D", itoa(int64(len(d.Data))), core.B(cv || sv))
		}
		e.st.setReply(stream)
		var got boson.Chunk
		o := run(func() error {
			ch, err := e.svc.RetrieveChunkFromNode(context.Background(), overlayOf("ret-target"), overlayOf("ret-root"), addr)
			got = ch
			return err
		})
		report(ctx, o, "retrieval-client", "retrieval.retrieveChunk")
		if o.class != "ok" {
			return o.class
		}
		// later local use: the chunk was put into the store; serve it back to a peer
		l := run(func() error {
			_ = got.Data()
			h := e.svc.Protocol().StreamSpecs[0].Handler
			return h(context.Background(), peer, newStream(frame(&retpb.RequestChunk{TargetAddr: e.self.Bytes(), RootAddr: overlayOf("ret-root").Bytes(), ChunkAddr: addr.Bytes()})))
		})
		report(ctx, l, "retrieval-client-later-use", "serving the chunk a delivery stored")
		return o.class + " " + l.class
	}
	return "bad-op"
}

// ---- pingpong: handler (Ping frames until EOF) and Ping client (Pong frames)

type ppEnv struct {
	svc *pingpong.Service
	st  *fakeStreamer
}

func (rn *runner) stepPing(ctx *core.Ctx, op []string) string {
	if len(op) < 2 {
		return "bad-op"
	}
	stream, err := core.UnHex(op[1])
	if err != nil {
		return "bad-op"
	}
	if rn.pp == nil {
		st := &fakeStreamer{}
		rn.pp = &ppEnv{svc: pingpong.New(st, noLog, nil), st: st}
	}
	e := rn.pp
	fr := newFrameReader(stream)
	switch {
	case op[0] == "ping.handler" && len(op) == 2:
		// frames until the first failing read; E = clean end of stream, X = bad frame
		n := 0
		for {
			var p pingpb.Ping
			ok, eof := fr.next(&p)
			if ok {
				n++
				continue
			}
			if eof {
				ctx.Annotate("N", itoa(int64(n)), "E")
			} else {
				ctx.Annotate("N", itoa(int64(n)), "X")
			}
			break
		}
		h := e.svc.Protocol().StreamSpecs[0].Handler
		o := run(func() error {
			return h(context.Background(), p2p.Peer{Address: overlayOf("pp-peer"), Mode: fullMode}, newStream(stream))
		})
		report(ctx, o, "pingpong-handler", "pingpong.handler")
		return o.class
	case op[0] == "ping.ping" && len(op) == 3:
		k := 0
		for _, c := range op[2] {
			if c < '0' || c > '9' || k > 100 {
				return "bad-op"
			}
			k = k*10 + int(c-'0')
		}
		// the client reads one Pong per message; a clean EOF ends the exchange without error
		res := "A" // all pongs read
		n := 0
		for i := 0; i < k; i++ {
			var p pingpb.Pong
			ok, eof := fr.next(&p)
			if ok {
				n++
				continue
			}
			if eof {
				res = "E"
			} else {
				res = "X"
			}
			break
		}
		ctx.Annotate("N", itoa(int64(n)), res)
		msgs := make([]string, k)
		for i := range msgs {
			msgs[i] = "hey"
		}
		e.st.setReply(stream)
		o := run(func() error {
			_, err := e.svc.Ping(context.Background(), overlayOf("pp-peer"), msgs...)
			return err
		})
		report(ctx, o, "pingpong-client", "pingpong.Ping")
		return o.class
	}
	return "bad-op"
}
