// Package c27: correspondence + oracle for the routetab route table (property C27).
package c27

import (
	"crypto/sha256"
	"errors"
	"fmt"
	"io"
	"sort"
	"strconv"
	"strings"
	"sync/atomic"
	"time"

	"github.com/ethereum/go-ethereum/common"
	"github.com/gauss-project/aurorafs/pkg/boson"
	"github.com/gauss-project/aurorafs/pkg/logging"
	"github.com/gauss-project/aurorafs/pkg/routetab"
	"github.com/gauss-project/aurorafs/pkg/routetab/pb"
	ldb "github.com/gauss-project/aurorafs/pkg/statestore/leveldb"
	"github.com/gauss-project/aurorafs/pkg/storage"

	"verifharness/core"
)

const universe = 6

type prop struct{}

func init() { core.Register(prop{}) }

func (prop) ID() string { return "C27" }
func (prop) Rule() string {
	return "cases: `init alpha ttl` (alpha 2 = default mostly, also 1/3/4; ttl 10 mostly, also 3/4) then 8-45 ops over a 6-node universe: " +
		"save of random paths (length 0..7, walks with duplicates and loops, re-saves of earlier paths, paths sharing targets so the per-target list overflows alpha, paths longer than ttl), " +
		"delete (mostly of a stored path), gc with expire 0/1/2/5 at a non-decreasing clock, reload (new table on the same in-memory leveldb state store + ResumeRoutes/ResumePaths), " +
		"observations get / nexthop with random skip lists / dump; 7 fixed regression cases first (delete;reload;nexthop etc.). " +
		"Non-trivial: table initialised, >=2 saves of length>=2, >=1 of delete/gc/reload and >=1 observation after it; distinct by op-list hash."
}

func pathStr(p []int) string {
	if len(p) == 0 {
		return "-"
	}
	s := make([]string, len(p))
	for i, v := range p {
		s[i] = strconv.Itoa(v)
	}
	return strings.Join(s, ".")
}

func listStr(p []int) string {
	if len(p) == 0 {
		return "-"
	}
	s := make([]string, len(p))
	for i, v := range p {
		s[i] = strconv.Itoa(v)
	}
	return strings.Join(s, ",")
}

func (prop) Gen(r *core.Rand, tier string) []core.Case {
	n := 500
	if tier == "thorough" {
		n = 20000
	}
	cs := []core.Case{
		{ID: "fix-delete-reload-nexthop", NT: true, Ops: []string{"init 2 10", "save 1.2.3 0", "save 4.2.5 0", "delete 1.2.3", "nexthop 1 -", "reload", "nexthop 1 -", "nexthop 2 -", "get 1", "get 2", "dump"}},
		{ID: "fix-gc-reload-nexthop", NT: true, Ops: []string{"init 2 10", "save 0.1.2 0", "save 3.1 4", "gc 2 5", "nexthop 0 -", "get 1", "reload", "nexthop 0 -", "nexthop 1 -", "get 0", "dump"}},
		{ID: "fix-ttl-drop-reload", NT: true, Ops: []string{"init 2 3", "save 0.1.2.3.4 0", "save 0.5 0", "get 0", "reload", "nexthop 0 -", "nexthop 1 -", "get 0", "dump"}},
		{ID: "fix-alpha-trunc", NT: true, Ops: []string{"init 2 10", "save 0.1 0", "save 0.2 1", "save 0.3 2", "save 0.4.5 3", "get 0", "nexthop 0 -", "nexthop 0 5,3", "dump", "delete 0.3", "get 0", "reload", "get 0", "dump"}},
		{ID: "fix-dup-loop", NT: true, Ops: []string{"init 2 10", "save 1.1 0", "save 1.2.1.3 0", "save 2.2.2 1", "save 4 1", "save - 1", "get 1", "get 2", "nexthop 1 -", "nexthop 2 1", "delete 1.2.1.3", "dump", "reload", "dump"}},
		{ID: "fix-resave-after-delete", NT: true, Ops: []string{"init 1 10", "save 0.1.2 0", "delete 0.1.2", "get 0", "save 0.1.2 3", "get 0", "nexthop 1 -", "gc 0 4", "get 0", "reload", "nexthop 0 -", "dump"}},
		{ID: "fix-notable", NT: false, Ops: []string{"save 0.1 0", "get 0", "dump", "reload"}},
	}
	for i := 0; i < n; i++ {
		c := core.Case{ID: fmt.Sprintf("g%d", i)}
		alpha := 2
		switch r.Intn(6) {
		case 0:
			alpha = 1
		case 1:
			alpha = 3
		case 2:
			if r.Bool() {
				alpha = 4
			}
		}
		ttl := 10
		if r.Chance(35) {
			ttl = r.Range(3, 4)
		}
		if r.Chance(97) {
			c.Ops = append(c.Ops, fmt.Sprintf("init %d %d", alpha, ttl))
		}
		var saved [][]int
		now := 0
		nops := r.Range(8, 45)
		// a hot target keeps the per-target list overflowing
		hot := r.Intn(universe)
		randPath := func() []int {
			var l int
			switch r.Intn(10) {
			case 0:
				l = r.Intn(2) // 0 or 1: ignored by SavePath
			case 1:
				l = r.Range(ttl, ttl+2) // at / over the hop limit
				if l > 8 {
					l = r.Range(5, 7)
				}
			default:
				l = r.Range(2, 4)
			}
			p := make([]int, l)
			for k := range p {
				p[k] = r.Intn(universe)
			}
			if l >= 2 && r.Chance(60) { // mostly duplicate-free
				perm := []int{0, 1, 2, 3, 4, 5}
				for k := 5; k > 0; k-- {
					j := r.Intn(k + 1)
					perm[k], perm[j] = perm[j], perm[k]
				}
				for k := range p {
					p[k] = perm[k%universe]
				}
			}
			if l >= 2 && r.Chance(50) {
				p[r.Intn(l-1)] = hot
			}
			return p
		}
		saves, muts, obsAfter := 0, 0, 0
		for k := 0; k < nops; k++ {
			now += r.Pick([]int{0, 0, 1, 1, 2, 3})
			switch x := r.Intn(20); {
			case x < 8:
				var p []int
				if len(saved) > 0 && r.Chance(20) {
					p = saved[r.Intn(len(saved))]
				} else {
					p = randPath()
				}
				saved = append(saved, p)
				if len(p) >= 2 {
					saves++
				}
				c.Ops = append(c.Ops, fmt.Sprintf("save %s %d", pathStr(p), now))
			case x < 10:
				var p []int
				if len(saved) > 0 && r.Chance(85) {
					p = saved[r.Intn(len(saved))]
				} else {
					p = randPath()
				}
				c.Ops = append(c.Ops, "delete "+pathStr(p))
				muts++
			case x < 12:
				c.Ops = append(c.Ops, fmt.Sprintf("gc %d %d", r.Pick([]int{0, 1, 2, 5}), now))
				muts++
			case x < 14:
				c.Ops = append(c.Ops, "reload")
				muts++
			case x < 16:
				tg := r.Intn(universe)
				if r.Bool() {
					tg = hot
				}
				c.Ops = append(c.Ops, fmt.Sprintf("get %d", tg))
				if muts > 0 {
					obsAfter++
				}
			case x < 19:
				tg := r.Intn(universe)
				if r.Bool() {
					tg = hot
				}
				var sk []int
				for s := 0; s < universe; s++ {
					if r.Chance(20) {
						sk = append(sk, s)
					}
				}
				c.Ops = append(c.Ops, fmt.Sprintf("nexthop %d %s", tg, listStr(sk)))
				if muts > 0 {
					obsAfter++
				}
			default:
				c.Ops = append(c.Ops, "dump")
				if muts > 0 {
					obsAfter++
				}
			}
		}
		if r.Chance(50) {
			c.Ops = append(c.Ops, "reload", fmt.Sprintf("nexthop %d -", hot), fmt.Sprintf("get %d", hot), "dump")
			muts++
			obsAfter++
		}
		c.NT = strings.HasPrefix(c.Ops[0], "init") && saves >= 2 && muts >= 1 && obsAfter >= 1
		cs = append(cs, c)
	}
	return cs
}

var (
	addrs  [universe]boson.Address
	byHex  = map[string]int{}
	byHash = map[common.Hash]int{}
	logger = logging.New(io.Discard, 0)
	self   = boson.NewAddress(bytesOf(0xee))
)

func bytesOf(b byte) []byte {
	out := make([]byte, 32)
	for i := range out {
		out[i] = b
	}
	return out
}

func init() {
	for i := 0; i < universe; i++ {
		b := bytesOf(byte(0x11 * (i + 1)))
		b[31] = byte(i)
		addrs[i] = boson.NewAddress(b)
		byHex[addrs[i].String()] = i
		byHash[common.BytesToHash(b)] = i
	}
}

type runner struct {
	store storage.StateStorer
	tab   *routetab.Table
	alpha int
	ttl   int
	used  map[string]int         // dotted items -> model time of the last save
	dead  map[string]string      // dotted items -> why it must not be returned (deleted/expired/dropped)
	keys  map[common.Hash]string // path key -> dotted items
}

func (prop) New() core.Runner { return &runner{} }
func (rn *runner) Close() {
	if rn.store != nil {
		_ = rn.store.Close()
	}
}

func parsePath(s, sep string) ([]int, bool) {
	if s == "-" {
		return nil, true
	}
	var out []int
	for _, f := range strings.Split(s, sep) {
		v, err := strconv.Atoi(f)
		if err != nil || v < 0 || v >= universe {
			return nil, false
		}
		out = append(out, v)
	}
	return out, true
}

func toAddrs(p []int) []boson.Address {
	out := make([]boson.Address, len(p))
	for i, v := range p {
		out[i] = addrs[v]
	}
	return out
}

func itemsStr(items []boson.Address) string {
	p := make([]int, len(items))
	for i, a := range items {
		v, ok := byHex[a.String()]
		if !ok {
			v = 99
		}
		p[i] = v
	}
	return pathStr(p)
}

func pathKey(p []int) common.Hash {
	var s []byte
	for _, v := range p {
		s = append(s, addrs[v].Bytes()...)
	}
	return sha256.Sum256(s)
}

func contains(xs []int, x int) bool {
	for _, v := range xs {
		if v == x {
			return true
		}
	}
	return false
}

// livePaths: the paths currently held by the table (observed through the hook), as int slices.
func (rn *runner) livePaths() map[string][]int {
	out := map[string][]int{}
	rn.tab.VerifEachPath(func(_ common.Hash, p *routetab.Path) {
		s := itemsStr(p.Items)
		ip, _ := parsePath(s, ".")
		out[s] = ip
	})
	return out
}

// sweep is the model-free oracle: it evaluates C27's predicate on the table as it is now.
func (rn *runner) sweep(ctx *core.Ctx) {
	for tk, rs := range rn.tab.VerifRoutes() {
		if len(rs) > rn.alpha {
			ctx.Fail("routes-unbounded", "target %d has %d routes, alpha=%d", byHash[tk], len(rs), rn.alpha)
		}
	}
	for tg := 0; tg < universe; tg++ {
		rn.checkGet(ctx, tg)
		rn.checkNextHop(ctx, tg, nil, rn.tab.GetNextHop(addrs[tg]))
	}
}

func (rn *runner) checkGet(ctx *core.Ctx, tg int) (out []string, err error) {
	ps, err := rn.tab.Get(addrs[tg])
	if err != nil {
		return nil, err
	}
	if len(ps) > rn.alpha {
		ctx.Fail("get-unbounded", "Get(%d) returned %d paths, alpha=%d", tg, len(ps), rn.alpha)
	}
	for _, p := range ps {
		s := itemsStr(p.Items)
		out = append(out, s)
		ip, _ := parsePath(s, ".")
		if len(ip) < 2 || !contains(ip[:len(ip)-1], tg) {
			ctx.Fail("get-target-not-before-last", "Get(%d) returned %s", tg, s)
		}
		if why, bad := rn.dead[s]; bad {
			ctx.Fail("get-"+why+"-path", "Get(%d) returned the %s path %s", tg, why, s)
		}
	}
	return out, nil
}

func (rn *runner) checkNextHop(ctx *core.Ctx, tg int, skips []int, hops []boson.Address) []int {
	live := rn.livePaths()
	var out []int
	seen := map[int]bool{}
	for _, h := range hops {
		hi, ok := byHex[h.String()]
		if !ok {
			ctx.Fail("nexthop-unknown", "GetNextHop(%d) returned unknown address %s", tg, h)
			continue
		}
		out = append(out, hi)
		if seen[hi] {
			ctx.Fail("nexthop-duplicate", "GetNextHop(%d) returned %d twice", tg, hi)
		}
		seen[hi] = true
		if contains(skips, hi) {
			ctx.Fail("nexthop-in-skips", "GetNextHop(%d, skips %v) returned %d", tg, skips, hi)
		}
		justified := false
		for s, ip := range live {
			if _, bad := rn.dead[s]; bad {
				continue
			}
			if len(ip) >= 2 && ip[len(ip)-1] == hi && contains(ip[:len(ip)-1], tg) {
				justified = true
				break
			}
		}
		if !justified {
			ctx.Fail("nexthop-no-stored-path", "GetNextHop(%d) offers %d but no stored (non-deleted, non-expired) path with target %d ends in %d", tg, hi, tg, hi)
		}
	}
	sort.Ints(out)
	return out
}

func (rn *runner) Step(ctx *core.Ctx, op []string) string {
	if len(op) == 3 && op[0] == "init" {
		a, e1 := strconv.Atoi(op[1])
		l, e2 := strconv.Atoi(op[2])
		if e1 != nil || e2 != nil || a < 0 || l < 0 {
			return "bad-op"
		}
		if rn.store != nil {
			_ = rn.store.Close()
		}
		st, err := ldb.NewInMemoryStateStore(logger)
		if err != nil {
			panic(err)
		}
		rn.store = st
		rn.alpha, rn.ttl = a, l
		routetab.NeighborAlpha = int32(a)
		atomic.StoreInt32(&routetab.MaxTTL, int32(l))
		rn.tab = routetab.VerifNewRouteTable(self, st)
		rn.used = map[string]int{}
		rn.dead = map[string]string{}
		rn.keys = map[common.Hash]string{}
		return "ok"
	}
	if rn.tab == nil {
		return "notable"
	}
	switch {
	case len(op) == 3 && op[0] == "save":
		p, ok := parsePath(op[1], ".")
		now, err := strconv.Atoi(op[2])
		if !ok || err != nil || now < 0 {
			return "bad-op"
		}
		items := make([][]byte, len(p))
		for i, v := range p {
			items[i] = addrs[v].Bytes()
		}
		rn.tab.SavePath(&pb.Path{Items: items})
		if len(p) >= 2 {
			rn.used[pathStr(p)] = now
			delete(rn.dead, pathStr(p))
			rn.keys[pathKey(p)] = pathStr(p)
		}
		rn.sweep(ctx)
		return "ok"
	case len(op) == 2 && op[0] == "delete":
		p, ok := parsePath(op[1], ".")
		if !ok {
			return "bad-op"
		}
		rn.tab.Delete(&routetab.Path{Items: toAddrs(p)})
		rn.dead[pathStr(p)] = "deleted"
		rn.sweep(ctx)
		return "ok"
	case len(op) == 3 && op[0] == "gc":
		e, e1 := strconv.Atoi(op[1])
		now, e2 := strconv.Atoi(op[2])
		if e1 != nil || e2 != nil || e < 0 || now < 0 {
			return "bad-op"
		}
		// pin the clock: one model tick = 1 s; ages are shifted by half a tick so that the
		// few microseconds between here and Gc's time.Since cannot cross a boundary.
		real := time.Now()
		rn.tab.VerifEachPath(func(_ common.Hash, p *routetab.Path) {
			s := itemsStr(p.Items)
			age := now - rn.used[s]
			p.UsedTime = real.Add(-time.Duration(age)*time.Second + 500*time.Millisecond)
			if age > e {
				rn.dead[s] = "expired"
			}
		})
		rn.tab.Gc(time.Duration(e) * time.Second)
		rn.sweep(ctx)
		return "ok"
	case len(op) == 1 && op[0] == "reload":
		rn.tab = routetab.VerifNewRouteTable(self, rn.store)
		rn.tab.ResumeRoutes()
		rn.tab.ResumePaths()
		rn.sweep(ctx)
		return "ok"
	case len(op) == 2 && op[0] == "get":
		tg, err := strconv.Atoi(op[1])
		if err != nil || tg < 0 || tg >= universe {
			return "bad-op"
		}
		out, e := rn.checkGet(ctx, tg)
		if e != nil {
			if errors.Is(e, routetab.ErrNotFound) {
				return "notfound"
			}
			return "err"
		}
		return strings.Join(out, ",")
	case len(op) == 3 && op[0] == "nexthop":
		tg, err := strconv.Atoi(op[1])
		sk, ok := parsePath(op[2], ",")
		if err != nil || !ok || tg < 0 || tg >= universe {
			return "bad-op"
		}
		hops := rn.tab.GetNextHop(addrs[tg], toAddrs(sk)...)
		return listStr(rn.checkNextHop(ctx, tg, sk, hops))
	case len(op) == 1 && op[0] == "dump":
		var ps []string
		for s := range rn.livePaths() {
			ps = append(ps, s)
		}
		sort.Strings(ps)
		routes := rn.tab.VerifRoutes()
		var tks []int
		byT := map[int][]routetab.TargetRoute{}
		for tk, rs := range routes {
			ti, ok := byHash[tk]
			if !ok {
				ti = 99
			}
			tks = append(tks, ti)
			byT[ti] = rs
		}
		sort.Ints(tks)
		var rstr []string
		for _, ti := range tks {
			var l []string
			for _, r := range byT[ti] {
				ks, ok := rn.keys[r.PathKey]
				if !ok {
					ks = "?"
				}
				l = append(l, fmt.Sprintf("%d:%s", byHex[r.Neighbor.String()], ks))
			}
			rstr = append(rstr, fmt.Sprintf("%d=[%s]", ti, strings.Join(l, ";")))
		}
		j := func(l []string) string {
			if len(l) == 0 {
				return "-"
			}
			return strings.Join(l, ",")
		}
		rn.sweep(ctx)
		return fmt.Sprintf("P=%s R=%s", j(ps), j(rstr))
	}
	return "bad-op"
}
