package nodelite

import (
	"fmt"
	"strings"

	"verifharness/core"
)

// GenConfig selects the op mix of a generated history.
type GenConfig struct {
	MinOps, MaxOps int
	PinUploads     int  // % of uploads with the pin header
	Pins           int  // weight of pin/unpin/haspin/pins ops
	Deletes        int  // weight of del
	GC             int  // weight of gc
	Cache          int  // weight of pup/pyr/fetch groups
	Partial        bool // partial fetches
	Gets           int  // weight of get (chunk reads under a file context)
	Ask            int  // weight of ask (discovery record)
	Reinit         int  // weight of reinit
	Reads          int  // weight of read
	Enc            int  // weight of upenc (C15 only)
	Raw            int  // weight of raw (C12 only)
	Serve          int  // weight of serve (chunks of a file delivered to the peer; C17)
	GCRace         int  // weight of gcr (collection with an operation racing with the first eviction; C12)
	GetFault       int  // weight of getfault (read under a file context whose local read fails with a non-not-found error; C17)
	DelRace        int  // weight of delr (DELETE held at DelFile's entry while an overlapping upload / DELETE completes; C16)
	Dirs           bool
	Budget         int // full-chunk units a case may upload / transfer (cost bound)
}

// single-file specs: identical content under two names, chunk-aligned prefix, repeated chunk,
// files sharing one chunk, short files.
var singles = []string{
	"x/a", "y/a", "v/b", "w/c",
	"x/AB", "z/AB", "y/ABA", "u/BA", "w/Ab", "t/A", "s/AA", "r/Bc", "q/ABC",
}

// directory specs sharing whole files (a single-chunk file is its own data chunk) and chunks
var dirs = []string{"p/a+q/b", "p/a+r/c", "q/b+s/c", "m/AB+n/a", "m/A+k/Ab", "p/a+q/b+r/c"}

func cost(spec string) int {
	c := 0
	for _, ch := range spec {
		if ch >= 'A' && ch <= 'H' {
			c++
		}
	}
	return c
}

func entryMask(r *core.Rand, n int, partial bool) string {
	if !partial || r.Chance(45) {
		return strings.Repeat("1", n)
	}
	var sb strings.Builder
	any := false
	for i := 0; i < n; i++ {
		if r.Bool() {
			sb.WriteByte('1')
			any = true
		} else {
			sb.WriteByte('0')
		}
	}
	if !any {
		return strings.Repeat("0", n-1) + "1"
	}
	return sb.String()
}

func entries(spec string) []string { return strings.Split(spec, "+") }

func lettersOf(entry string) string { return strings.Split(entry, "/")[1] }

// GenHistory produces one op list.
func GenHistory(r *core.Rand, cfg GenConfig) []string {
	var ops []string
	budget := cfg.Budget
	if budget == 0 {
		budget = 8
	}
	pickSpec := func() string {
		for try := 0; try < 20; try++ {
			var s string
			if cfg.Dirs && r.Chance(30) {
				s = dirs[r.Intn(len(dirs))]
			} else if r.Chance(45) {
				s = singles[r.Intn(4)] // cheap ones
			} else {
				s = singles[r.Intn(len(singles))]
			}
			if cost(s) <= budget {
				return s
			}
		}
		return "x/a"
	}
	var atN, atP, all []string
	seen := map[string]bool{}
	note := func(s string) {
		if !seen[s] {
			seen[s] = true
			all = append(all, s)
		}
	}
	upload := func() {
		s := pickSpec()
		budget -= cost(s)
		pin := "0"
		if r.Chance(cfg.PinUploads) {
			pin = "1"
		}
		ops = append(ops, "up "+s+" "+pin)
		atN = append(atN, s)
		note(s)
	}
	cache := func() {
		s := pickSpec()
		budget -= 2 * cost(s)
		known := false
		for _, x := range atP {
			if x == s {
				known = true
			}
		}
		if !known {
			ops = append(ops, "pup "+s+" 0")
			atP = append(atP, s)
		}
		note(s)
		ops = append(ops, "pyr "+s)
		if r.Chance(85) {
			es := entries(s)
			for k, e := range es {
				if len(es) > 1 && r.Chance(30) {
					continue
				}
				ops = append(ops, fmt.Sprintf("fetch %s %d %s", s, k, entryMask(r, len(lettersOf(e)), cfg.Partial)))
			}
		}
	}
	anyOf := func() string {
		if len(all) == 0 || r.Chance(4) {
			return pickSpec() // possibly unknown -> nofile
		}
		return all[r.Intn(len(all))]
	}
	// prologue
	n0 := r.Range(1, 3)
	for i := 0; i < n0; i++ {
		if cfg.Cache > 0 && r.Chance(40) {
			cache()
		} else {
			upload()
		}
	}
	total := r.Range(cfg.MinOps, cfg.MaxOps)
	type w struct {
		n int
		f func()
	}
	table := []w{
		{12, upload},
		{cfg.Cache, cache},
		{cfg.Pins, func() {
			switch r.Intn(8) {
			case 0, 1, 2:
				ops = append(ops, "pin "+anyOf())
			case 3, 4, 5:
				ops = append(ops, "unpin "+anyOf())
			case 6:
				ops = append(ops, "haspin "+anyOf())
			default:
				ops = append(ops, "pins")
			}
		}},
		{cfg.Deletes, func() { ops = append(ops, "del "+anyOf()) }},
		{cfg.GC, func() { ops = append(ops, fmt.Sprintf("gc %d", r.Pick([]int{0, 1, 1, 2, 3, 5, 8}))) }},
		{cfg.Gets, func() {
			s := anyOf()
			if r.Chance(65) {
				ops = append(ops, fmt.Sprintf("get %s h%d", s, r.Intn(5)))
			} else {
				ops = append(ops, fmt.Sprintf("get %s d%d", s, r.Intn(3)))
			}
		}},
		{cfg.Ask, func() {
			if len(atP) > 0 {
				ops = append(ops, "ask "+atP[r.Intn(len(atP))])
			}
		}},
		{cfg.Reinit, func() { ops = append(ops, "reinit") }},
		{cfg.Reads, func() { ops = append(ops, "read "+anyOf()) }},
		{cfg.Enc, func() {
			s := singles[r.Intn(len(singles))]
			if cost(s) > budget {
				s = "x/a"
			}
			budget -= cost(s)
			e := "e" + s // distinct namespace for encrypted specs: name prefixed with e
			pin := "0"
			if r.Chance(cfg.PinUploads) {
				pin = "1"
			}
			ops = append(ops, "upenc "+e+" "+pin)
			note(e)
		}},
		{cfg.Serve, func() {
			s := anyOf()
			// mostly data chunks (they have a bit in the peer's record), sometimes a pyramid key
			if r.Chance(75) {
				ops = append(ops, fmt.Sprintf("serve %s d%d", s, r.Intn(3)))
			} else {
				ops = append(ops, fmt.Sprintf("serve %s h%d", s, r.Intn(4)))
			}
			if r.Chance(50) {
				ops = append(ops, fmt.Sprintf("serve %s d%d", s, r.Intn(3)))
			}
		}},
		{cfg.GCRace, func() {
			// trigger: a cached file, mostly the one cached first (the oldest gc entry is the first candidate)
			trig := anyOf()
			if len(atP) > 0 {
				if r.Chance(60) {
					trig = atP[0]
				} else {
					trig = atP[r.Intn(len(atP))]
				}
			}
			tgt := trig
			if r.Chance(35) {
				tgt = anyOf()
			}
			act, which := "pin", "-"
			switch r.Intn(10) {
			case 0, 1:
				act = "unpin"
			case 2, 3, 4:
				act = "get"
				if r.Bool() {
					which = fmt.Sprintf("d%d", r.Intn(3))
				} else {
					which = fmt.Sprintf("h%d", r.Intn(4))
				}
			}
			ops = append(ops, fmt.Sprintf("gcr %d %s %s %s %s", r.Pick([]int{0, 0, 1, 2, 3}), trig, act, tgt, which))
		}},
		{cfg.DelRace, func() {
			a := anyOf()
			if len(atN) > 0 && r.Chance(70) {
				a = atN[r.Intn(len(atN))]
			}
			if r.Chance(60) {
				b := pickSpec()
				if b == a {
					return
				}
				budget -= cost(b)
				pin := "0"
				if r.Chance(cfg.PinUploads) {
					pin = "1"
				}
				ops = append(ops, "delr "+a+" up "+b+" "+pin)
				atN = append(atN, b)
				note(b)
			} else {
				b := anyOf()
				if b == a {
					return
				}
				ops = append(ops, "delr "+a+" del "+b+" -")
			}
		}},
		{cfg.GetFault, func() {
			// mostly a data chunk of a cached (possibly partially fetched: the chunk may be missing) file
			s := anyOf()
			if len(atP) > 0 && r.Chance(70) {
				s = atP[r.Intn(len(atP))]
			}
			if r.Chance(80) {
				ops = append(ops, fmt.Sprintf("getfault %s d%d", s, r.Intn(3)))
			} else {
				ops = append(ops, fmt.Sprintf("getfault %s h%d", s, r.Intn(4)))
			}
		}},
		{cfg.Raw, func() {
			l := r.Pick([]int{0, 1, 2, 3})
			ls := []string{"A", "a", "AB", "b"}[l]
			if cost(ls) > budget {
				ls = "a"
			}
			budget -= cost(ls)
			pin := "1"
			if r.Chance(30) {
				pin = "0"
			}
			ops = append(ops, "raw "+ls+" "+pin)
		}},
	}
	sum := 0
	for _, t := range table {
		sum += t.n
	}
	for len(ops) < total {
		x := r.Intn(sum)
		for _, t := range table {
			if x < t.n {
				t.f()
				break
			}
			x -= t.n
		}
	}
	// epilogue: read every file back
	if cfg.Reads > 0 {
		for _, s := range all {
			if !strings.HasPrefix(s, "e") {
				ops = append(ops, "read "+s)
			}
		}
	}
	return ops
}
