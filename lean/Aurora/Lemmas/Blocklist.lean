import Aurora.Model.Blocklist
/-! Helper lemmas for C25 (blocklist): the association list behaves as a map, every
operation acts on one address only, the clock is monotone, keys stay distinct. -/
namespace Aurora.Blocklist

theorem lookup_erase_self (a : Addr) (s : State) : lookup a (erase a s) = none := by
  induction s with
  | nil => rfl
  | cons p s ih =>
    obtain ⟨b, e⟩ := p
    by_cases h : b = a
    · simp [erase, h, ih]
    · simp [erase, h, lookup, ih]

theorem lookup_erase_ne {a b : Addr} (h : b ≠ a) (s : State) :
    lookup a (erase b s) = lookup a s := by
  induction s with
  | nil => rfl
  | cons p s ih =>
    obtain ⟨c, e⟩ := p
    by_cases hc : c = b
    · have : c ≠ a := by rw [hc]; exact h
      simp [erase, hc, lookup, ih, h]
    · by_cases hca : c = a
      · subst hca; simp [erase, hc, lookup]
      · simp [erase, hc, lookup, hca, ih]

theorem lookup_put_self (a : Addr) (e : Entry) (s : State) : lookup a (put a e s) = some e := by
  simp [put, lookup]

theorem lookup_put_ne {a b : Addr} (h : b ≠ a) (e : Entry) (s : State) :
    lookup a (put b e s) = lookup a s := by
  simp [put, lookup, h, lookup_erase_ne h]

theorem expired_eq_false {now : Int} {e : Entry} :
    expired now e = false ↔ (now - e.ts ≤ e.dur ∨ e.dur = 0) := by
  unfold expired
  by_cases h1 : now - e.ts > e.dur <;> by_cases h2 : e.dur = 0 <;> simp [h1, h2] <;> omega

/-- the two outcomes of the merge in `Add` -/
theorem mergeDur_spec (d d0 : Int) :
    (((d < d0 ∧ d ≠ 0) ∨ d0 = 0) ∧ mergeDur d d0 = d0) ∨
    (¬ ((d < d0 ∧ d ≠ 0) ∨ d0 = 0) ∧ mergeDur d d0 = d) := by
  unfold mergeDur
  by_cases h : (d < d0 ∧ d ≠ 0) ∨ d0 = 0
  · exact Or.inl ⟨h, by simp [h]⟩
  · exact Or.inr ⟨h, by simp [h]⟩

/-- duration answered by `get` for a stored / missing entry -/
def durOf : Option Entry → Int
  | some e => e.dur
  | none => -1

theorem getDur_eq (s : State) (a : Addr) : getDur s a = durOf (lookup a s) := by
  unfold getDur durOf; cases lookup a s <;> rfl

/-- The per-address view of one step: what happens to `a`'s stored entry. -/
def stepEntry (now : Int) (a : Addr) (cur : Option Entry) : Op → Option Entry
  | .add b d => if b = a then some ⟨now, mergeDur d (durOf cur)⟩ else cur
  | .remove b => if b = a then none else cur
  | .exists_ b => if b = a then (match cur with
      | some e => if expired now e then none else some e
      | none => none) else cur
  | .peers => cur
  | .tick _ => cur

theorem lookup_step (σ : Sys) (a : Addr) (op : Op) :
    lookup a (step σ op).st = stepEntry σ.now a (lookup a σ.st) op := by
  cases op with
  | add b d =>
    by_cases h : b = a
    · subst h
      simp only [step, add, stepEntry, if_true, lookup_put_self, getDur_eq]
    · simp only [step, add, stepEntry, h, if_false, lookup_put_ne h]
  | remove b =>
    by_cases h : b = a
    · subst h; simp [step, remove, stepEntry, lookup_erase_self]
    · simp [step, remove, stepEntry, h, lookup_erase_ne h]
  | exists_ b =>
    by_cases h : b = a
    · subst h
      simp only [step, existsOp, stepEntry, if_true]
      cases hl : lookup b σ.st with
      | none => simp [hl]
      | some e =>
        by_cases hx : expired σ.now e = true
        · simp [hx, lookup_erase_self]
        · simp [hx, hl]
    · simp only [step, existsOp, stepEntry, h, if_false]
      cases hl : lookup b σ.st with
      | none => simp
      | some e =>
        by_cases hx : expired σ.now e = true
        · simp [hx, lookup_erase_ne h]
        · simp [hx]
  | peers => rfl
  | tick dt => rfl

theorem now_step (σ : Sys) (op : Op) : σ.now ≤ (step σ op).now := by
  cases op <;> simp [step]
  omega

theorem now_run (σ : Sys) (ops : List Op) : σ.now ≤ (run σ ops).now := by
  induction ops generalizing σ with
  | nil => simp [run]
  | cons op ops ih =>
    have h1 := now_step σ op
    have h2 := ih (step σ op)
    simp only [run, List.foldl_cons] at h2 ⊢
    omega

theorem run_cons (σ : Sys) (op : Op) (ops : List Op) : run σ (op :: ops) = run (step σ op) ops := rfl

theorem run_append (σ : Sys) (xs ys : List Op) : run σ (xs ++ ys) = run (run σ xs) ys := by
  simp [run, List.foldl_append]

theorem blocked_eq (σ : Sys) (a : Addr) :
    blocked σ a = (match lookup a σ.st with
      | some e => !expired σ.now e
      | none => false) := by
  unfold blocked existsOp
  cases lookup a σ.st with
  | none => rfl
  | some e => by_cases hx : expired σ.now e = true <;> simp [hx]

/-! ### distinct keys -/

def keys (s : State) : List Addr := s.map Prod.fst

theorem mem_erase {p : Addr × Entry} {a : Addr} {s : State} :
    p ∈ erase a s ↔ p ∈ s ∧ p.1 ≠ a := by
  induction s with
  | nil => simp [erase]
  | cons q s ih =>
    obtain ⟨b, e⟩ := q
    by_cases h : b = a
    · simp only [erase, h, if_true, ih, List.mem_cons]
      constructor
      · rintro ⟨h1, h2⟩; exact ⟨Or.inr h1, h2⟩
      · rintro ⟨h1 | h1, h2⟩
        · subst h1; exact absurd rfl h2
        · exact ⟨h1, h2⟩
    · simp only [erase, h, if_false, List.mem_cons, ih]
      constructor
      · rintro (h1 | ⟨h1, h2⟩)
        · subst h1; exact ⟨Or.inl rfl, h⟩
        · exact ⟨Or.inr h1, h2⟩
      · rintro ⟨h1 | h1, h2⟩
        · exact Or.inl h1
        · exact Or.inr ⟨h1, h2⟩

theorem keys_erase_nodup {a : Addr} {s : State} (h : (keys s).Nodup) : (keys (erase a s)).Nodup := by
  induction s with
  | nil => simp [erase, keys]
  | cons q s ih =>
    obtain ⟨b, e⟩ := q
    simp only [keys, List.map_cons, List.nodup_cons] at h
    by_cases hb : b = a
    · simp only [erase, hb, if_true]; exact ih h.2
    · simp only [erase, hb, if_false, keys, List.map_cons, List.nodup_cons]
      refine ⟨?_, ih h.2⟩
      intro hm
      apply h.1
      rw [List.mem_map] at hm ⊢
      obtain ⟨p, hp, hpe⟩ := hm
      exact ⟨p, (mem_erase.mp hp).1, hpe⟩

theorem not_mem_keys_erase (a : Addr) (s : State) : a ∉ keys (erase a s) := by
  intro hm
  simp only [keys, List.mem_map] at hm
  obtain ⟨p, hp, hpe⟩ := hm
  exact (mem_erase.mp hp).2 hpe

theorem keys_step_nodup (σ : Sys) (op : Op) (h : (keys σ.st).Nodup) : (keys (step σ op).st).Nodup := by
  cases op with
  | add b d =>
    simp only [step, add, put, keys, List.map_cons, List.nodup_cons]
    exact ⟨not_mem_keys_erase b σ.st, keys_erase_nodup h⟩
  | remove b => exact keys_erase_nodup h
  | exists_ b =>
    simp only [step, existsOp]
    cases lookup b σ.st with
    | none => exact h
    | some e =>
      by_cases hx : expired σ.now e = true
      · simp only [hx, if_true]; exact keys_erase_nodup h
      · simp only [hx]; exact h
  | peers => exact h
  | tick dt => exact h

theorem keys_run_nodup (σ : Sys) (ops : List Op) (h : (keys σ.st).Nodup) : (keys (run σ ops).st).Nodup := by
  induction ops generalizing σ with
  | nil => exact h
  | cons op ops ih => exact ih (step σ op) (keys_step_nodup σ op h)

theorem lookup_eq_some_iff {a : Addr} {e : Entry} {s : State} (h : (keys s).Nodup) :
    lookup a s = some e ↔ (a, e) ∈ s := by
  induction s with
  | nil => simp [lookup]
  | cons q s ih =>
    obtain ⟨b, e'⟩ := q
    simp only [keys, List.map_cons, List.nodup_cons] at h
    by_cases hb : b = a
    · subst hb
      simp only [lookup, if_true, Option.some.injEq, List.mem_cons, Prod.mk.injEq, true_and]
      constructor
      · intro h1; exact Or.inl h1.symm
      · rintro (h1 | h1)
        · exact h1.symm
        · exfalso; apply h.1
          exact List.mem_map.mpr ⟨(b, e), h1, rfl⟩
    · simp only [lookup, hb, if_false, List.mem_cons, Prod.mk.injEq]
      rw [ih h.2]
      constructor
      · intro h1; exact Or.inr h1
      · rintro (⟨h1, _⟩ | h1)
        · exact absurd h1.symm hb
        · exact h1

/-! ### invariants used by the C25 theorems -/

/-- entry invariant used by `blocked_during_request`: `a` is stored, its timestamp is not in the
    future, and its block is unlimited or lasts at least until `T`. -/
def Until (T : Int) (a : Addr) (σ : Sys) : Prop :=
  ∃ e, lookup a σ.st = some e ∧ e.ts ≤ σ.now ∧ (e.dur = 0 ∨ T ≤ e.ts + e.dur)

theorem until_step {T : Int} {a : Addr} {σ : Sys} {op : Op}
    (h : Until T a σ) (hop : op ≠ Op.remove a) (hT : (step σ op).now ≤ T) :
    Until T a (step σ op) := by
  obtain ⟨e, hl, hts, hend⟩ := h
  have hnow := now_step σ op
  unfold Until
  rw [lookup_step, hl]
  cases op with
  | add b d =>
    by_cases hb : b = a
    · refine ⟨⟨σ.now, mergeDur d e.dur⟩, by simp [stepEntry, hb, durOf], by simp [step], ?_⟩
      simp only [mergeDur]
      split <;> omega
    · exact ⟨e, by simp [stepEntry, hb], by simp [step]; omega, hend⟩
  | remove b =>
    have hb : b ≠ a := fun h' => hop (by rw [h'])
    exact ⟨e, by simp [stepEntry, hb], by simp [step]; omega, hend⟩
  | exists_ b =>
    by_cases hb : b = a
    · have hx : expired σ.now e = false := by
        simp only [step] at hT
        simp only [expired, Bool.and_eq_false_iff, decide_eq_false_iff_not]
        omega
      exact ⟨e, by simp [stepEntry, hb, hx], by simp [step]; omega, hend⟩
    · exact ⟨e, by simp [stepEntry, hb], by simp [step]; omega, hend⟩
  | peers => exact ⟨e, rfl, hts, hend⟩
  | tick dt => exact ⟨e, rfl, by simp [step]; omega, hend⟩

theorem until_run {T : Int} {a : Addr} (ops : List Op) :
    ∀ σ : Sys, Until T a σ → (∀ op ∈ ops, op ≠ Op.remove a) → (run σ ops).now ≤ T →
      blocked (run σ ops) a = true := by
  induction ops with
  | nil =>
    intro σ ⟨e, hl, hts, hend⟩ _ hT
    simp only [run, List.foldl_nil] at hT ⊢
    rw [blocked_eq, hl]
    simp only [expired, Bool.not_eq_true', Bool.and_eq_false_iff, decide_eq_false_iff_not]
    omega
  | cons op ops ih =>
    intro σ h hnr hT
    rw [run_cons] at hT ⊢
    have h1 := now_run (step σ op) ops
    exact ih (step σ op)
      (until_step h (hnr op (List.mem_cons_self ..)) (by omega))
      (fun o ho => hnr o (List.mem_cons_of_mem _ ho)) hT

/-- every stored timestamp of a state reached from the empty blocklist is ≤ the clock -/
theorem ts_le_now (t0 : Int) (ops : List Op) (a : Addr) (e : Entry)
    (hl : lookup a (run ⟨t0, []⟩ ops).st = some e) : e.ts ≤ (run ⟨t0, []⟩ ops).now := by
  suffices h : ∀ (ops : List Op) (σ : Sys), (∀ a e, lookup a σ.st = some e → e.ts ≤ σ.now) →
      ∀ a e, lookup a (run σ ops).st = some e → e.ts ≤ (run σ ops).now from
    h ops ⟨t0, []⟩ (by intro a e h; simp [lookup] at h) a e hl
  intro ops
  induction ops with
  | nil => intro σ h; exact h
  | cons op ops ih =>
    intro σ h
    rw [run_cons]
    apply ih
    intro a e hl
    rw [lookup_step] at hl
    have hnow := now_step σ op
    cases op with
    | add b d =>
      by_cases hb : b = a
      · simp only [stepEntry, hb, if_true, Option.some.injEq] at hl
        subst hl; simp [step]
      · simp only [stepEntry, hb, if_false] at hl
        have := h a e hl; omega
    | remove b =>
      by_cases hb : b = a
      · simp [stepEntry, hb] at hl
      · simp only [stepEntry, hb, if_false] at hl
        have := h a e hl; omega
    | exists_ b =>
      by_cases hb : b = a
      · simp only [stepEntry, hb, if_true] at hl
        cases hc : lookup a σ.st with
        | none => simp [hc] at hl
        | some e' =>
          rw [hc] at hl
          cases hx : expired σ.now e' with
          | true => simp [hx] at hl
          | false =>
            simp [hx] at hl
            subst hl
            have := h a e' hc; omega
      · simp only [stepEntry, hb, if_false] at hl
        have := h a e hl; omega
    | peers => exact h a e hl
    | tick dt => have := h a e hl; omega

/-- the larger of two durations -/
def imax (x y : Int) : Int := if x < y then y else x

theorem imax_spec (x y : Int) : (x < y ∧ imax x y = y) ∨ (¬ x < y ∧ imax x y = x) := by
  unfold imax; by_cases h : x < y <;> simp [h]

/-- Ghost bookkeeping of the property's bound for address `a`: time of the latest `Add`, the
    longest duration requested since the last `Remove`, and whether a zero duration was
    requested since then.  Pure history, independent of the blocklist state. -/
structure Ghost where
  lastAdd : Int
  maxDur  : Int
  forever : Bool
deriving DecidableEq

def ghostStep (now : Int) (a : Addr) (g : Option Ghost) : Op → Option Ghost
  | .add b d =>
    if b = a then
      match g with
      | some g => some ⟨now, imax g.maxDur d, g.forever || decide (d = 0)⟩
      | none => some ⟨now, d, decide (d = 0)⟩
    else g
  | .remove b => if b = a then none else g
  | _ => g

/-- the ghost record after the history `ops` started in `σ` with record `g` -/
def ghostRun (a : Addr) : Sys → Option Ghost → List Op → Option Ghost
  | _, g, [] => g
  | σ, g, op :: ops => ghostRun a (step σ op) (ghostStep σ.now a g op) ops

def Bound (a : Addr) (σ : Sys) (g : Option Ghost) : Prop :=
  ∀ e, lookup a σ.st = some e →
    ∃ gg, g = some gg ∧ e.ts = gg.lastAdd ∧ gg.lastAdd ≤ σ.now ∧
      (e.dur = 0 → gg.forever = true) ∧ (e.dur ≤ gg.maxDur ∨ e.dur ≤ -1)

theorem bound_step {a : Addr} {σ : Sys} {g : Option Ghost} (op : Op)
    (h : Bound a σ g) : Bound a (step σ op) (ghostStep σ.now a g op) := by
  intro e hl
  rw [lookup_step] at hl
  have hnow := now_step σ op
  cases op with
  | add b d =>
    by_cases hb : b = a
    · simp only [stepEntry, hb, if_true, Option.some.injEq] at hl
      subst hl
      simp only [ghostStep, hb, if_true]
      cases hc : lookup a σ.st with
      | none =>
        cases g with
        | none =>
          refine ⟨_, rfl, rfl, by simp [step], ?_, ?_⟩
          · simp only [durOf, decide_eq_true_eq]
            rcases mergeDur_spec d (-1) with ⟨hm1, hm2⟩ | ⟨hm1, hm2⟩ <;> rw [hm2] <;> omega
          · simp only [durOf]
            rcases mergeDur_spec d (-1) with ⟨hm1, hm2⟩ | ⟨hm1, hm2⟩ <;> rw [hm2] <;> omega
        | some gg =>
          refine ⟨_, rfl, rfl, by simp [step], ?_, ?_⟩
          · simp only [durOf, Bool.or_eq_true, decide_eq_true_eq]
            rcases mergeDur_spec d (-1) with ⟨hm1, hm2⟩ | ⟨hm1, hm2⟩ <;> rw [hm2] <;> omega
          · simp only [durOf]
            rcases mergeDur_spec d (-1) with ⟨hm1, hm2⟩ | ⟨hm1, hm2⟩ <;> rw [hm2] <;>
              rcases imax_spec gg.maxDur d with ⟨hi1, hi2⟩ | ⟨hi1, hi2⟩ <;> rw [hi2] <;> omega
      | some e0 =>
        obtain ⟨gg, hg, _, _, hf, hm⟩ := h e0 hc
        subst hg
        refine ⟨_, rfl, rfl, by simp [step], ?_, ?_⟩
        · simp only [durOf, Bool.or_eq_true, decide_eq_true_eq]
          rcases mergeDur_spec d e0.dur with ⟨hm1, hm2⟩ | ⟨hm1, hm2⟩ <;> rw [hm2]
          · intro h0; exact Or.inl (hf h0)
          · intro h0; exact Or.inr h0
        · simp only [durOf]
          rcases mergeDur_spec d e0.dur with ⟨hm1, hm2⟩ | ⟨hm1, hm2⟩ <;> rw [hm2] <;>
            rcases imax_spec gg.maxDur d with ⟨hi1, hi2⟩ | ⟨hi1, hi2⟩ <;> rw [hi2] <;> omega
    · simp only [stepEntry, hb, if_false] at hl
      simp only [ghostStep, hb, if_false]
      obtain ⟨gg, hg, h1, h2, h3, h4⟩ := h e hl
      exact ⟨gg, hg, h1, by simp [step]; omega, h3, h4⟩
  | remove b =>
    by_cases hb : b = a
    · simp [stepEntry, hb] at hl
    · simp only [stepEntry, hb, if_false] at hl
      simp only [ghostStep, hb, if_false]
      obtain ⟨gg, hg, h1, h2, h3, h4⟩ := h e hl
      exact ⟨gg, hg, h1, by simp [step]; omega, h3, h4⟩
  | exists_ b =>
    have hl' : lookup a σ.st = some e := by
      by_cases hb : b = a
      · simp only [stepEntry, hb, if_true] at hl
        cases hc : lookup a σ.st with
        | none => simp [hc] at hl
        | some e' =>
          rw [hc] at hl
          cases hx : expired σ.now e' with
          | true => simp [hx] at hl
          | false =>
            simp [hx] at hl
            rw [hl]
      · simpa [stepEntry, hb] using hl
    obtain ⟨gg, hg, h1, h2, h3, h4⟩ := h e hl'
    exact ⟨gg, hg, h1, by simp [step]; omega, h3, h4⟩
  | peers => exact h e hl
  | tick dt =>
    obtain ⟨gg, hg, h1, h2, h3, h4⟩ := h e hl
    exact ⟨gg, hg, h1, by simp [step]; omega, h3, h4⟩


end Aurora.Blocklist
