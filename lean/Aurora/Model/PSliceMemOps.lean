import Aurora.Model.PSliceMem
/-
Memory-level semantics of the *real* operations of /repo/pkg/topology/pslice/pslice.go on the
backing-array model `Aurora/Model/PSliceMem.lean` (slice headers `(arr, len, cap)` over a heap of
arrays).  Every operation is a function from the current memory to the list of primitive steps
(`Prim`) it performs, in program order; its effect is `run` of that list — nothing else touches
the memory.  Core Lean only (the C21 driver runs this next to the list model).

* Go `append(s.peers[i], a)` (`appendPrim`): if `len < cap` the element is stored in place at index
  `len` of the bin's current array (`.write`); otherwise the runtime allocates a fresh array with a
  capacity *it* chooses (`growslice`), copies the `len` old elements, stores `a` behind them and
  the bin header is redirected (`.realloc`).  The chosen capacity is an **oracle** argument
  `orc : Nat → Nat` (bin ↦ capacity chosen if that bin grows during this call); the only thing
  known about it is `≥ len + 1`, so the model uses `max (orc i) (len + 1)` and the theorems
  quantify over every `orc`.  The correspondence run observes the real choice (`cap()` through a
  `//go:build verif` hook) and compares every bin's `(len, cap)` after every operation.
* `Add` with one address (`addOnePrims`): `index`, then `append`.
* `Add` with a batch (`addPrims`): first loop = `exists[]` flags and `binChange[]` counts against
  the pre-state; second loop (`growPrims`) = for every bin `i` in `0 … maxBins-1` with
  `count > 0 && cap < len + count`: `make([]Address, len, len+count)` + `copy` — a fresh
  zero-filled array of exactly `len + count` cells holding the old elements; third loop
  (`addLoopPrims`) = skip flagged addresses, `index` again (the `fix:` commit), `append`.
* `Remove` (`removePrims`): `cpy := make([]Address, newLength)`, `copy(cpy, s.peers[po][:newLength])`,
  `cpy[i] = s.peers[po][newLength]` unless `i = newLength`, `s.peers[po] = cpy`: one fresh array
  of exactly `newLength` cells.  (The store `cpy[i] = …` happens before the array is published, so
  it is part of the fresh array's initial content.)  The old array is never written.
* Iteration (`eachBinsM`): the bin header is copied when the loop reaches the bin (`peers :=
  s.peers[i]` under `RLock`); then, for `k = 0 … len-1`, element `k` is loaded from the **current**
  heap (`peers[k]` without a lock) and the callback runs — whatever happened to the memory in
  between is visible to that load if it touched that cell.

The zero `boson.Address` (what `make` fills fresh cells with) is `[]`.
-/
namespace Aurora.PSliceMem
open Aurora.PSlice (Addr PS indexFrom Ctl BinOutcome)
open Aurora.Proximity

/-- the memory-level `PSlice`: `peers` is in `mem`, plus the two immutable fields -/
structure MS where
  mem : Mem
  base : Addr
  maxBins : Nat

/-- `New(maxBins, base)` -/
def newM (maxBins : Nat) (base : Addr) : MS := { mem := init maxBins, base := base, maxBins := maxBins }

/-- the elements of `s.peers[i]`: what a reader of the *current* header of bin `i` sees -/
def binM (ms : MS) (i : Nat) : List Addr := read ms.mem (hdr ms.mem i)

/-- abstraction function to the list model: read every bin header in the heap -/
def abs (ms : MS) : PS :=
  { bins := ms.mem.bins.map (read ms.mem), base := ms.base, maxBins := ms.maxBins }

/-- `s.po(peer)` -/
def poM (ms : MS) (a : Addr) : Nat :=
  let p := proximity ms.base a
  if p ≥ ms.maxBins then (ms.maxBins % 256 + 255) % 256 else p

/-- `s.index(addr, po)` -/
def indexM (ms : MS) (a : Addr) (po : Nat) : Option Nat := indexFrom a (binM ms po) 0

/-- the zero `boson.Address` -/
def zero : Addr := []

def stepM (ms : MS) (p : Prim) : MS := { ms with mem := step ms.mem p }
def runM (ms : MS) (ps : List Prim) : MS := ps.foldl stepM ms

/-- Go `append(s.peers[i], a)`; `orc i` = the capacity the runtime picks if it has to grow. -/
def appendPrim (m : Mem) (orc : Nat → Nat) (i : Nat) (a : Addr) : Prim :=
  let h := hdr m i
  if h.len < h.cap then .write i a
  else
    let c := max (orc i) (h.len + 1)
    .realloc i (read m h ++ a :: List.replicate (c - (h.len + 1)) zero) (h.len + 1) c

/-- the single-address path of `Add` -/
def addOnePrims (ms : MS) (orc : Nat → Nat) (a : Addr) : List Prim :=
  let po := poM ms a
  if (indexM ms a po).isSome then [] else [appendPrim ms.mem orc po a]

/-- first loop of the batch path: `exists[i]` -/
def existsFlagsM (ms : MS) (addrs : List Addr) : List Bool :=
  addrs.map (fun a => (indexM ms a (poM ms a)).isSome)

/-- first loop of the batch path: `binChange[i]` -/
def binChange (ms : MS) (l : List (Addr × Bool)) (i : Nat) : Nat :=
  (l.filter (fun p => !p.2 && poM ms p.1 == i)).length

/-- second loop of the batch path (`for i, count := range binChange`), over the bin indices `is` -/
def growPrims (l : List (Addr × Bool)) : List Nat → MS → List Prim
  | [], _ => []
  | i :: is, ms =>
    let h := hdr ms.mem i
    let count := binChange ms l i
    if count > 0 ∧ h.cap < h.len + count then
      let p := Prim.realloc i (read ms.mem h ++ List.replicate count zero) h.len (h.len + count)
      p :: growPrims l is (stepM ms p)
    else growPrims l is ms

/-- third loop of the batch path -/
def addLoopPrims (orc : Nat → Nat) : List (Addr × Bool) → MS → List Prim
  | [], _ => []
  | (a, e) :: rest, ms =>
    if e then addLoopPrims orc rest ms
    else
      let po := poM ms a
      if (indexM ms a po).isSome then addLoopPrims orc rest ms
      else
        let p := appendPrim ms.mem orc po a
        p :: addLoopPrims orc rest (stepM ms p)

/-- `Add(addrs...)` -/
def addPrims (ms : MS) (orc : Nat → Nat) (addrs : List Addr) : List Prim :=
  match addrs with
  | [a] => addOnePrims ms orc a
  | _ =>
    let l := addrs.zip (existsFlagsM ms addrs)
    let g := growPrims l (List.range ms.maxBins) ms
    g ++ addLoopPrims orc l (runM ms g)

/-- `Remove(addr)` -/
def removePrims (ms : MS) (a : Addr) : List Prim :=
  let po := poM ms a
  let b := binM ms po
  match indexM ms a po with
  | none => []
  | some i =>
    let newLength := (hdr ms.mem po).len - 1
    let cpy := b.take newLength
    if i = newLength then [.realloc po cpy newLength newLength]
    else [.realloc po (cpy.set i (b[newLength]?.getD zero)) newLength newLength]

/-- an operation of the real API; `Add` carries the runtime's capacity choices -/
inductive MOp
  | add (orc : Nat → Nat) (addrs : List Addr)
  | remove (a : Addr)

/-- the primitive steps an operation performs in state `ms` -/
def opPrims (ms : MS) : MOp → List Prim
  | .add orc as => addPrims ms orc as
  | .remove a => removePrims ms a

def applyMOp (ms : MS) (op : MOp) : MS := runM ms (opPrims ms op)

def runOps (ms : MS) (ops : List MOp) : MS := ops.foldl applyMOp ms

/-- all primitive steps of a history, in order -/
def opsPrims : MS → List MOp → List Prim
  | _, [] => []
  | ms, op :: rest => opPrims ms op ++ opsPrims (applyMOp ms op) rest

/-! ### Iteration over the memory -/

/-- `for _, peer := range peers { … }` where `peers` is the header copy `h`: `n` iterations remain,
    the next index is `k`; element `k` is loaded from the heap *as it is now*. -/
def iterPeersM {σ : Type} (get : σ → MS) (pf : σ → Addr → Nat → σ × Ctl) (po : Nat) (h : Hdr) :
    Nat → Nat → σ → σ × BinOutcome
  | 0, _, st => (st, .exhausted)
  | n + 1, k, st =>
    let p := (cells (get st).mem h.arr)[k]?.getD zero
    match pf st p po with
    | (st', .err) => (st', .failed)
    | (st', .stop) => (st', .stopped)
    | (st', .next) => (st', .exhausted)
    | (st', .go) => iterPeersM get pf po h n (k + 1) st'

/-- the outer loop over the bin indices `is`: the header of bin `i` is read when the loop gets
    there. -/
def eachBinsM {σ : Type} (get : σ → MS) (pf : σ → Addr → Nat → σ × Ctl) : List Nat → σ → σ × Bool
  | [], st => (st, true)
  | i :: is, st =>
    let h := hdr (get st).mem i
    match iterPeersM get pf i h h.len 0 st with
    | (st', .failed) => (st', false)
    | (st', .stopped) => (st', true)
    | (st', .exhausted) => eachBinsM get pf is st'

/-- `EachBin` -/
def eachBinM {σ : Type} (get : σ → MS) (pf : σ → Addr → Nat → σ × Ctl) (st : σ) : σ × Bool :=
  eachBinsM get pf (List.range (get st).maxBins).reverse st

/-- `EachBinRev` -/
def eachBinRevM {σ : Type} (get : σ → MS) (pf : σ → Addr → Nat → σ × Ctl) (st : σ) : σ × Bool :=
  eachBinsM get pf (List.range (get st).maxBins) st

end Aurora.PSliceMem
