import Aurora.Model.HashTrie
/-!
# Literal model of `/repo/pkg/file/pipeline/hashtrie/hashtrie.go`: ONE byte buffer + cursors

`Model/HashTrie.lean` keeps per-level *lists* of references.  This file transcribes the Go code as
it is written: the state is `(buffer, cursors, full)`, all levels live in the one `buffer`, level
`l` occupies `buffer[cursors[l+1]:cursors[l]]` (level 8: `buffer[0:cursors[8]]`), a higher level
lives at LOWER offsets, `writeToLevel` writes at `cursors[level]` (for `level > 1` that is over the
beginning of the region of the level below, which was read just before), `wrapFullLevel` truncates a
level by `cursors[level] = cursors[level+1]`, `Sum` carries a lone reference by
`cursors[i+1] = cursors[i]`.  `Lemmas/HashTrieBuf.lean` proves that this machine refines the list
machine (`C02_hashtrie_buffer_refines_lists` in `Props/C02.lean`).

Conventions of the transcription (all that is not syntax-for-syntax):

* `buffer : List UInt8` of fixed length (`make([]byte, boson.ChunkWithSpanSize*9*2)`; the length is
  a parameter of `State.new`), `cursors : List Nat` (`make([]int, 9)`; index 0 unused).
* **Every index expression of the Go code that can panic is guarded by the same bound here and
  yields `Err.panic`**: `h.buffer[a:b]` needs `a ≤ b ≤ len(buffer)` (`copyAt`, `wrapFullLevel`,
  `trieSum`); `data[i:i+8]`, `data[i+8:i+refSize+8]` are slices of a slice whose capacity reaches the end
  of the buffer, so they need `lo+i+refSize+8 ≤ len(buffer)` (`wrapLoop`); `cursors[level+1]` with
  `level = 8` is `cursors[9]` on a 9-element slice (`wrapFullLevel`, guard `maxLevel ≤ level`; the
  slice is never re-sliced, so its length is the constant `nCursors = 9` — `Inv` in the lemma file
  carries `cursors.length = 9`).  "The buffer never overflows" therefore *is* "no run returns
  `Err.panic`".
* `copy(h.buffer[a:a+len(src)], src)` = `copyAt` (replaces exactly `len(src)` bytes at offset `a`).
* `levelSize` is an `Int` (Go `int` subtraction of two cursors), `%` on it is `Int.tmod` (Go's
  truncated remainder); the span sum `sp` is a `uint64` (addition modulo `2^64`).
* The short pipeline `h.pipelineFn()` + `writer.ChainWrite(&args)` is the parameter
  `short : data ↦ (args.Span, args.Ref, args.Key)` (total: the bmt/store writers only fail on
  oversized data or a failing store); every `Data` handed to it is appended to the trace `sent`.
* Recursion `writeToLevel → wrapFullLevel → writeToLevel(level+1)` terminates because
  `wrapFullLevel` panics at `cursors[9]`: measure `nCursors - level`.
* `chunkSize` is stored by the constructor but never read; it is not modelled.
-/
namespace Aurora.HashTrieBuf
open Aurora.Bmt (Bytes)
open Aurora.Cac (le64)
open Aurora.Tree (fromLe64)

/-- `hashtrie.maxLevel` -/
def maxLevel : Nat := 8
/-- `len(h.cursors)` (`make([]int, 9)`) -/
def nCursors : Nat := 9

structure Params where
  /-- `h.branching` -/
  branching : Nat
  /-- `h.refSize` -/
  refSize : Nat
  /-- the short pipeline: the wrapped chunk `Data` ↦ `(args.Span, args.Ref, args.Key)` after `ChainWrite` -/
  short : Bytes → Bytes × Bytes × Bytes

/-- `h.refSize + boson.SpanSize` -/
def Params.oneRef (P : Params) : Nat := P.refSize + 8
/-- `h.fullChunk = (refLen + boson.SpanSize) * branching` -/
def Params.fullChunk (P : Params) : Nat := (P.refSize + 8) * P.branching

inductive Err
  | inconsistent   -- `errInconsistentRefs`
  | trieFull       -- `errTrieFull`
  | panic          -- a Go runtime panic (index / slice bounds out of range)
deriving Repr, DecidableEq

structure State where
  buffer : Bytes
  cursors : List Nat
  full : Bool := false
  /-- trace: every `Data` handed to the short pipeline, in order -/
  sent : List Bytes := []

/-- `NewHashTrieWriter` with a buffer of `bufLen` bytes (Go: `boson.ChunkWithSpanSize*9*2`) -/
def State.new (bufLen : Nat) : State :=
  { buffer := List.replicate bufLen 0, cursors := List.replicate nCursors 0 }

/-- `h.cursors[l]` -/
def State.cur (s : State) (l : Nat) : Nat := s.cursors.getD l 0
/-- `h.cursors[l] = v` -/
def State.setCur (s : State) (l v : Nat) : State := { s with cursors := s.cursors.set l v }

/-- `b[lo:hi]` (bounds are checked by the callers) -/
def slice (b : Bytes) (lo hi : Nat) : Bytes := (b.take hi).drop lo

/-- `k ≤ len(buf)` computed without walking the whole (multi-megabyte) buffer -/
def leLen : Nat → Bytes → Bool
  | 0, _ => true
  | _ + 1, [] => false
  | k + 1, _ :: t => leLen k t

theorem leLen_iff : ∀ (k : Nat) (buf : Bytes), leLen k buf = true ↔ k ≤ buf.length
  | 0, _ => by simp [leLen]
  | _ + 1, [] => by simp [leLen]
  | k + 1, _ :: t => by simp [leLen, leLen_iff k t]

/-- the bound check `k ≤ len(buf)` of a Go index/slice expression (decided by `leLen`) -/
def LeLen (k : Nat) (buf : Bytes) : Prop := k ≤ buf.length
instance (k : Nat) (buf : Bytes) : Decidable (LeLen k buf) := decidable_of_iff _ (leLen_iff k buf)

/-- `copy(buf[a:a+len(src)], src)`; `none` = slice bounds out of range -/
def copyAt (buf : Bytes) (a : Nat) (src : Bytes) : Option Bytes :=
  if LeLen (a + src.length) buf then some (buf.take a ++ src ++ buf.drop (a + src.length)) else none

/-- `copy(h.buffer[h.cursors[level]:h.cursors[level]+len(src)], src); h.cursors[level] += len(src)` -/
def State.put (s : State) (level : Nat) (src : Bytes) : Option State :=
  match copyAt s.buffer (s.cur level) src with
  | none => none
  | some b => some ({ s with buffer := b }.setCur level (s.cur level + src.length))

/-- `h.levelSize(level)` -/
def State.levelSize (s : State) (level : Nat) : Int :=
  if level = 8 then (s.cur level : Int) else (s.cur level : Int) - (s.cur (level + 1) : Int)

/-- the `for i := 0; i < len(data); i += h.refSize + 8` loop of `wrapFullLevel` over
    `data = buffer[lo:lo+len]`: returns `(sp, hashes)`; `none` = slice bounds out of range -/
def wrapLoop (buf : Bytes) (lo len refSize : Nat) (i sp : Nat) (hashes : Bytes) : Option (Nat × Bytes) :=
  if i < len then
    if LeLen (lo + i + refSize + 8) buf then
      wrapLoop buf lo len refSize (i + (refSize + 8))
        ((sp + fromLe64 (slice buf (lo + i) (lo + i + 8))) % 2 ^ 64)          -- `sp += Uint64(data[i:i+8])`
        (hashes ++ slice buf (lo + i + 8) (lo + i + refSize + 8))             -- `append(hashes, data[i+8:i+refSize+8]...)`
    else none
  else some (sp, hashes)
termination_by len - i

/-- the three `copy` + `cursors[level] +=` statements of `writeToLevel` (span, ref, key) -/
def State.put3 (s : State) (level : Nat) (span ref key : Bytes) : Option State :=
  match s.put level span with
  | none => none
  | some s =>
  match s.put level ref with
  | none => none
  | some s => s.put level key

mutual
/-- `h.writeToLevel(level, span, ref, key)` -/
def writeToLevel (P : Params) (s : State) (level : Nat) (span ref key : Bytes) : Except Err State :=
  if nCursors ≤ level then .error .panic else                  -- `h.cursors[level]`
  match s.put3 level span ref key with
  | none => .error .panic
  | some s =>
    let howLong : Int := ((P.refSize + 8) * P.branching : Nat)
    if s.levelSize level = howLong then wrapFullLevel P s level else .ok s
termination_by 2 * (nCursors - level) + 1
decreasing_by omega

/-- `h.wrapFullLevel(level)` -/
def wrapFullLevel (P : Params) (s : State) (level : Nat) : Except Err State :=
  if maxLevel ≤ level then .error .panic else                   -- `h.cursors[level+1]` with `level+1 = 9`
  let lo := s.cur (level + 1)
  let hi := s.cur level
  if ¬ (lo ≤ hi ∧ LeLen hi s.buffer) then .error .panic else    -- `data := h.buffer[lo:hi]`
  match wrapLoop s.buffer lo (hi - lo) P.refSize 0 0 [] with
  | none => .error .panic
  | some (sp, hashes) =>
    let spb := le64 sp                                          -- `PutUint64(spb, sp)`
    let data := spb ++ hashes                                   -- `hashes = append(spb, hashes...)`
    let args := P.short data                                    -- `writer.ChainWrite(&args)`
    let s := { s with sent := s.sent ++ [data] }
    match writeToLevel P s (level + 1) args.1 args.2.1 args.2.2 with
    | .error e => .error e
    | .ok s =>
      let s := s.setCur level (s.cur (level + 1))               -- `h.cursors[level] = h.cursors[level+1]`
      .ok (if level + 1 = 8 then { s with full := true } else s)
termination_by 2 * (nCursors - level)
decreasing_by
  all_goals simp only [maxLevel, nCursors] at *
  all_goals omega
end

/-- `h.ChainWrite(p)` with `p.Span, p.Ref, p.Key` -/
def chainWrite (P : Params) (s : State) (span ref key : Bytes) : Except Err State :=
  let oneRef := P.refSize + 8
  let l := span.length + ref.length + key.length
  if l % oneRef ≠ 0 then .error .inconsistent
  else if s.full then .error .trieFull
  else writeToLevel P s 1 span ref key

/-- the loop `for i := 1; i < maxLevel; i++` of `Sum`, from `i` on -/
def sumLoop (P : Params) (s : State) (i : Nat) : Except Err State :=
  if i < maxLevel then
    let oneRef : Int := (P.refSize + 8 : Nat)
    let l := s.levelSize i
    if l.tmod oneRef ≠ 0 then .error .inconsistent
    else if l = 0 then sumLoop P s (i + 1)                                   -- level empty, continue
    else if l = (P.fullChunk : Nat) then                                     -- `l == h.fullChunk`
      match wrapFullLevel P s i with
      | .error e => .error e
      | .ok s => sumLoop P s (i + 1)
    else if l = oneRef then                                                  -- `l == oneRef`: carry
      sumLoop P (s.setCur (i + 1) (s.cur i)) (i + 1)                          -- `h.cursors[i+1] = h.cursors[i]`
    else                                                                     -- default
      match wrapFullLevel P s i with
      | .error e => .error e
      | .ok s => sumLoop P s (i + 1)
  else .ok s
termination_by maxLevel - i

/-- `h.Sum()`: the returned reference and the final state -/
def trieSum (P : Params) (s : State) : Except Err (Bytes × State) :=
  match sumLoop P s 1 with
  | .error e => .error e
  | .ok s =>
    let oneRef : Int := (P.refSize + 8 : Nat)
    if s.levelSize 8 ≠ oneRef then .error .inconsistent
    else if ¬ LeLen (s.cur 8) s.buffer then .error .panic                 -- `h.buffer[0:h.cursors[8]]`
    else
      let data := slice s.buffer 0 (s.cur 8)
      if ¬ (8 ≤ data.length) then .error .panic                              -- `data[8:]`
      else .ok (data.drop 8, s)

/-! ## Reading the levels back out of the buffer (the abstraction function) -/

/-- cut a region into records of `R` bytes (a shorter rest is dropped) -/
def records (R : Nat) (b : Bytes) : List Bytes :=
  if R = 0 ∨ b.length < R then [] else b.take R :: records R (b.drop R)
termination_by b.length
decreasing_by simp only [List.length_drop]; omega

/-- the records of level `l`: `buffer[cursors[l+1]:cursors[l]]` (level 8: `cursors[9]` reads as 0,
    i.e. `buffer[0:cursors[8]]`) -/
def State.level (P : Params) (s : State) (l : Nat) : List Bytes :=
  records P.oneRef (slice s.buffer (s.cur (l + 1)) (s.cur l))

/-- **abstraction function**: the levels `1 … 8` as lists of `span ‖ ref (‖ key)` records -/
def State.levels (P : Params) (s : State) : List (List Bytes) :=
  (List.range maxLevel).map (fun k => s.level P (k + 1))

/-- `sp` of `wrapFullLevel`: the `uint64` sum of the records' spans -/
def spanSum (g : List Bytes) : Nat := g.foldl (fun acc r => (acc + fromLe64 r) % 2 ^ 64) 0

/-- the `Data` that `wrapFullLevel` hands to the short pipeline for a level holding the records `g` -/
def wrapData (g : List Bytes) : Bytes := le64 (spanSum g) ++ g.flatMap (fun r => r.drop 8)

/-- the record written one level up for a wrapped group: the list machine's `wrap` on raw records -/
def wrapRaw (P : Params) (g : List Bytes) : Bytes :=
  let a := P.short (wrapData g)
  a.1 ++ a.2.1 ++ a.2.2

/-! ## The plain pipeline over the literal writer: feeder → bmt → store → hashtrie -/

section Pipeline
variable (cref : Bytes → Bytes → Bytes) (C B refLen bufLen : Nat)

/-- the plain short pipeline (`bmt` → `store`): `args.Span` stays `spb` (= `Data[:8]`),
    `args.Ref = bmt(Data[:8], Data[8:])`, no key -/
def shortPlain (d : Bytes) : Bytes × Bytes × Bytes := (d.take 8, cref (d.take 8) (d.drop 8), [])

def plainParams : Params := { branching := B, refSize := refLen, short := shortPlain cref }

structure UploadLit where
  feeder : Aurora.Feeder.State := {}
  trie : State
  failed : Bool := false

/-- one data chunk through bmt → store → hashtrie (`p.Span = le64 len`, `p.Ref` = chunk address, no key) -/
def feedChunkLit (u : UploadLit) (payload : Bytes) : UploadLit :=
  if u.failed then u else
  let e := Aurora.Tree.leafEntry cref payload
  match chainWrite (plainParams cref B refLen) u.trie (le64 e.span) e.ref [] with
  | .error _ => { u with failed := true }
  | .ok t => { u with trie := t }

def UploadLit.write (u : UploadLit) (b : Bytes) : UploadLit × Option Int :=
  let (f, chunks, n) := Aurora.Feeder.write C u.feeder b
  let u := chunks.foldl (feedChunkLit cref B refLen) { u with feeder := f }
  (u, if u.failed then none else some n)

def UploadLit.sum (u : UploadLit) : UploadLit × Option Bytes :=
  let (f, chunks) := Aurora.Feeder.sum u.feeder
  let u := chunks.foldl (feedChunkLit cref B refLen) { u with feeder := f }
  if u.failed then (u, none) else
  match trieSum (plainParams cref B refLen) u.trie with
  | .error _ => (u, none)
  | .ok (r, t) => ({ u with trie := t }, some r)

/-- a whole upload through the literal writer: the writes in order, then `Sum` -/
def uploadLit (segs : List Bytes) : UploadLit × Option Bytes :=
  (segs.foldl (fun (u : UploadLit) b => (u.write cref C B refLen b).1) ({ trie := State.new bufLen } : UploadLit)).sum cref B refLen

end Pipeline

end Aurora.HashTrieBuf
