import Driver.Util
import Aurora.Model.Blocker
/-! Driver for C26: runs the blocker model on the op lines of the harness. -/
namespace Driver.C26
open Aurora.Blocker

/-- sequencer resolution pinned by the harness (1 h in ns) -/
def resolution : Int := 3600000000000

structure St where
  T : Option Nat
  s : State

def sortStr (l : List String) : List String := l.mergeSort (fun x y => decide (x ≤ y))
def joinOr (l : List String) : String := if l.isEmpty then "-" else ",".intercalate l

def validAddr (a : String) : Bool :=
  a.length > 0 && a.length % 2 == 0 && a.toList.all (fun c => ('0' ≤ c && c ≤ '9') || ('a' ≤ c && c ≤ 'f'))

def parseSeen (x : String) : Option (List String) :=
  if x = "-" then some [] else
    let l := x.splitOn ","
    if l.all validAddr then some l else none

def parseStatus (x : String) : Option Bool :=
  if x = "1" then some true else if x = "0" ∨ x = "2" then some false else none

def step (st : St) (op : List String) : St × String :=
  match op with
  | ["new", ft] =>
    match Driver.parseInt ft with
    | some ft =>
      if ft ≤ resolution then ({ T := none, s := init }, "panic")
      else ({ T := some (ft / resolution).toNat, s := init }, "ok")
    | none => (st, "bad-op")
  | _ =>
  match st.T with
  | none => (st, "noblk")
  | some T =>
    let s := st.s
    match op with
    | ["tick", a] =>
      match parseStatus a with
      | some av => let s' := Aurora.Blocker.step T s (.tick av); ({ st with s := s' }, s!"seq {s'.seq}")
      | none => (st, "bad-op")
    | ["flag", a, av] =>
      match parseStatus av with
      | some av => if validAddr a then ({ st with s := Aurora.Blocker.step T s (.flag a av) }, "ok") else (st, "bad-op")
      | none => (st, "bad-op")
    | ["unflag", a] => if validAddr a then ({ st with s := Aurora.Blocker.step T s (.unflag a) }, "ok") else (st, "bad-op")
    | ["prune", l] =>
      match parseSeen l with
      | some seen => ({ st with s := Aurora.Blocker.step T s (.prune seen) }, "ok")
      | none => (st, "bad-op")
    | ["sweep"] | ["sweep", "fail"] =>
      ({ st with s := Aurora.Blocker.step T s .sweep }, "blocked " ++ joinOr (sortStr (sweepOut s)))
    | ["sweep", "race"] =>
      -- the sweep with `Unflag` calls of all other flagged peers racing against it: the sweep runs under `mu`, so they
      -- take effect after it (only if the sweep blocklisted somebody: the race is started from its first Blocklist call)
      let s1 := Aurora.Blocker.step T s .sweep
      let s2 := if (sweepOut s).isEmpty then s1 else s1.flags.foldl (fun acc p => Aurora.Blocker.step T acc (.unflag p.1)) s1
      ({ st with s := s2 }, "blocked " ++ joinOr (sortStr (sweepOut s)))
    | ["dump"] =>
      (st, s!"seq={s.seq} flags=" ++ joinOr (sortStr (s.flags.map (fun p => s!"{p.1}:{p.2}"))))
    | _ => (st, "bad-op")

def handler : Driver.Handler := { σ := St, init := { T := none, s := init }, step := step }

end Driver.C26
