// Package filecommon: the runner shared by the file-pipeline properties C01, C02, C07 —
// real upload pipeline (feeder → [encryption] → bmt → store → hashtrie), real joiner, a copying
// in-memory store that logs every Put, and the model-free oracles of the three properties.
package filecommon

import (
	"bytes"
	"context"
	"encoding/binary"
	"encoding/hex"
	"errors"
	"fmt"
	"io"
	"strconv"
	"strings"
	"sync"
	"testing/iotest"
	"time"

	"github.com/gauss-project/aurorafs/pkg/boson"
	"github.com/gauss-project/aurorafs/pkg/cac"
	"github.com/gauss-project/aurorafs/pkg/encryption"
	"github.com/gauss-project/aurorafs/pkg/file"
	"github.com/gauss-project/aurorafs/pkg/file/joiner"
	"github.com/gauss-project/aurorafs/pkg/file/pipeline"
	"github.com/gauss-project/aurorafs/pkg/file/pipeline/bmt"
	"github.com/gauss-project/aurorafs/pkg/file/pipeline/builder"
	penc "github.com/gauss-project/aurorafs/pkg/file/pipeline/encryption"
	"github.com/gauss-project/aurorafs/pkg/file/pipeline/feeder"
	"github.com/gauss-project/aurorafs/pkg/file/pipeline/hashtrie"
	pstore "github.com/gauss-project/aurorafs/pkg/file/pipeline/store"
	"github.com/gauss-project/aurorafs/pkg/storage"
	"golang.org/x/crypto/sha3"

	"verifharness/core"
)

const C = boson.ChunkSize
const Sentinel = 0xEE

// ---------------------------------------------------------------- store

// Store is a copying chunk store (the feeder reuses one slice for all chunks of a Write call, so a
// Putter must copy what it keeps) that counts Puts and keeps an order-independent digest of them.
type Store struct {
	mu    sync.Mutex
	m     map[string][]byte
	NPuts int
	Dig   uint64
	Bad   int // plain mode: Puts that are not cac.Valid
	check bool
}

func NewStore(check bool) *Store { return &Store{m: map[string][]byte{}, check: check} }

func Fnv(b []byte) uint64 {
	h := uint64(0xcbf29ce484222325)
	for _, x := range b {
		h = (h ^ uint64(x)) * 0x100000001b3
	}
	return h
}

func (s *Store) Put(ctx context.Context, mode storage.ModePut, chs ...boson.Chunk) ([]bool, error) {
	s.mu.Lock()
	defer s.mu.Unlock()
	for _, c := range chs {
		a := c.Address().Bytes()
		d := append([]byte(nil), c.Data()...)
		s.m[string(a)] = d
		s.NPuts++
		var l [8]byte
		binary.LittleEndian.PutUint64(l[:], uint64(len(d)))
		s.Dig += Fnv(append(append([]byte(nil), a...), l[:]...))
		if s.check && !cac.Valid(boson.NewChunk(boson.NewAddress(append([]byte(nil), a...)), d)) {
			s.Bad++
		}
	}
	return make([]bool, len(chs)), nil
}

func (s *Store) Get(ctx context.Context, mode storage.ModeGet, a boson.Address) (boson.Chunk, error) {
	s.mu.Lock()
	defer s.mu.Unlock()
	d, ok := s.m[string(a.Bytes())]
	if !ok {
		return nil, storage.ErrNotFound
	}
	return boson.NewChunk(a, d), nil
}

// ---------------------------------------------------------------- independent format specification

func keccak(b ...[]byte) []byte {
	h := sha3.NewLegacyKeccak256()
	for _, x := range b {
		h.Write(x)
	}
	return h.Sum(nil)
}

var zh = map[int][]byte{}

func zeroHash(width int) []byte {
	if width == 32 {
		return make([]byte, 32)
	}
	if z, ok := zh[width]; ok {
		return z
	}
	z := keccak(zeroHash(width/2), zeroHash(width/2))
	zh[width] = z
	return z
}

// bmtRoot: binary Merkle root over `width` bytes (a power of two ≥ 64) of zero-padded d.
func bmtRoot(d []byte, width int) []byte {
	if len(d) == 0 {
		return zeroHash(width)
	}
	if width == 64 {
		var sec [64]byte
		copy(sec[:], d)
		return keccak(sec[:])
	}
	half := width / 2
	cut := len(d)
	if cut > half {
		cut = half
	}
	return keccak(bmtRoot(d[:cut], half), bmtRoot(d[cut:], half))
}

// SpecRef is the Aurora chunk reference: keccak(le64 span ‖ BMT root of the payload padded to 256 KiB).
func SpecRef(span uint64, payload []byte) []byte {
	var l [8]byte
	binary.LittleEndian.PutUint64(l[:], span)
	return keccak(l[:], bmtRoot(payload, C))
}

type entry struct {
	span uint64
	ref  []byte
}

// SpecRoot is the tree hash as the property states it (chunk bytes c, branching b): data chunks,
// then groups of b references per intermediate chunk with the subtree length as span, a lone
// reference carried up unchanged.  Independent of pkg/file and pkg/bmt.
func SpecRoot(data []byte, c, b int) []byte {
	memo := map[string][]byte{}
	leaf := func(p []byte) []byte {
		k := string(p)
		if r, ok := memo[k]; ok {
			return r
		}
		r := SpecRef(uint64(len(p)), p)
		memo[k] = r
		return r
	}
	var es []entry
	if len(data) == 0 {
		es = []entry{{0, leaf(nil)}}
	}
	for off := 0; off < len(data); off += c {
		end := off + c
		if end > len(data) {
			end = len(data)
		}
		es = append(es, entry{uint64(end - off), leaf(data[off:end])})
	}
	for len(es) > 1 {
		var up []entry
		for i := 0; i < len(es); i += b {
			j := i + b
			if j > len(es) {
				j = len(es)
			}
			g := es[i:j]
			if len(g) == 1 {
				up = append(up, g[0])
				continue
			}
			var sp uint64
			var pl []byte
			for _, e := range g {
				sp += e.span
				pl = append(pl, e.ref...)
			}
			up = append(up, entry{sp, SpecRef(sp, pl)})
		}
		es = up
	}
	return es[0].ref
}

// ---------------------------------------------------------------- runner

const (
	modeNone = iota
	modePlain
	modeEnc
	modeSmall
	modePipe // writes go through file.ChunkPipe and builder.FeedPipeline
	modeEncSmall
	modeSynth // synthetic encrypted file served chunk by chunk on demand (reader only)
	modeFeed  // the written bytes are handed to builder.FeedPipeline through a reader of a given shape at `sum`
)

type Runner struct {
	Prop    string // "C01" | "C02" | "C07": which oracle clauses are evaluated
	mode    int
	sc, sb  int
	st      *Store
	p       pipeline.Interface
	pipe    io.ReadWriteCloser
	pipeRes chan pipeResult
	written []byte
	root    []byte
	summed  bool
	failed  bool
	j       file.Joiner
	size    int64
	pos     int64 // the oracle's own cursor
	syn     *synthStore
	spy     *trieSpy // new small: observes the hash-trie writer (verif hook hashtrie.VerifPeek)
	pspy    *pipeSpy // new pipe: observes what FeedPipeline reads out of the ChunkPipe
	shape   string   // new feed: plain | dataerr | one | half | halfdataerr | chunk<k>
	leaves  bool     // new small: a `leaves` op wrote to the hash-trie writer directly; `sum` is then the trie's Sum
}

// total is the length of the content; slice its bytes [at, at+n).
func (rn *Runner) total() int64 {
	if rn.syn != nil {
		return rn.syn.size
	}
	return int64(len(rn.written))
}

func (rn *Runner) slice(at, n int64) []byte {
	if rn.syn != nil {
		return rn.syn.content(at, n)
	}
	return rn.written[at : at+n]
}

// synthStore serves the canonical encrypted tree of a periodic content of `size` bytes (4096
// references of 64 bytes per intermediate chunk) without materialising it: addresses
// keccak("A" ‖ le64 off ‖ le64 span) (the joiner never re-hashes), keys keccak("K" ‖ …), zero padding;
// a chunk is built from its position when it is requested (own keystream implementation).
type synthStore struct {
	pat   []byte
	size  int64
	index map[string][2]int64
}

func le64b(v int64) []byte {
	var l [8]byte
	binary.LittleEndian.PutUint64(l[:], uint64(v))
	return l[:]
}
func synthAddr(off, span int64) []byte { return keccak([]byte("A"), le64b(off), le64b(span)) }
func synthKey(off, span int64) []byte  { return keccak([]byte("K"), le64b(off), le64b(span)) }

func synthKids(span int64) (fl, k int64) {
	fl = C
	for fl*4096 < span {
		fl *= 4096
	}
	return fl, (span + fl - 1) / fl
}

func newSynth(seed uint64, size int64, period int) *synthStore {
	s := &synthStore{pat: core.GenBytes(seed, period, 0), size: size, index: map[string][2]int64{}}
	var walk func(off, span int64)
	walk = func(off, span int64) {
		s.index[string(synthAddr(off, span))] = [2]int64{off, span}
		if span <= C {
			return
		}
		fl, k := synthKids(span)
		for i := int64(0); i < k; i++ {
			sp := span - i*fl
			if sp > fl {
				sp = fl
			}
			walk(off+i*fl, sp)
		}
	}
	walk(0, size)
	return s
}

func (s *synthStore) content(at, n int64) []byte {
	out := make([]byte, n)
	for i := range out {
		out[i] = s.pat[(at+int64(i))%int64(len(s.pat))]
	}
	return out
}

func (s *synthStore) Get(ctx context.Context, mode storage.ModeGet, a boson.Address) (boson.Chunk, error) {
	pos, ok := s.index[string(a.Bytes())]
	if !ok {
		return nil, storage.ErrNotFound
	}
	off, span := pos[0], pos[1]
	var payload []byte
	if span <= C {
		payload = s.content(off, span)
	} else {
		fl, k := synthKids(span)
		for i := int64(0); i < k; i++ {
			sp := span - i*fl
			if sp > fl {
				sp = fl
			}
			payload = append(payload, synthAddr(off+i*fl, sp)...)
			payload = append(payload, synthKey(off+i*fl, sp)...)
		}
	}
	key := synthKey(off, span)
	data := make([]byte, 8+C) // zero padding
	copy(data, xorStream(le64b(span), key, uint32(C/64)))
	copy(data[8:], xorStream(payload, key, 0))
	return boson.NewChunk(a, data), nil
}

// pipeSpy is the reader FeedPipeline is given in `new pipe` mode: the ChunkPipe itself, with every
// Read recorded (bytes and piece lengths).  Only looked at after FeedPipeline has returned.
type pipeSpy struct {
	r    io.Reader
	out  []byte
	lens []int
	dig  uint64 // chained over (length, fnv) of every piece, as Driver/FileCommon.lean St.notePiece
}

func (p *pipeSpy) Read(b []byte) (int, error) {
	n, err := p.r.Read(b)
	if n > 0 {
		p.out = append(p.out, b[:n]...)
		p.lens = append(p.lens, n)
		var l [24]byte
		binary.LittleEndian.PutUint64(l[0:], p.dig)
		binary.LittleEndian.PutUint64(l[8:], uint64(n))
		binary.LittleEndian.PutUint64(l[16:], Fnv(b[:n]))
		p.dig = Fnv(l[:])
	}
	return n, err
}

// checkPipe: the direct ChunkPipe oracle (model-free) — the bytes that left the pipe are the bytes
// written into it, in order; only the last piece is shorter than a chunk.
func (rn *Runner) checkPipe(ctx *core.Ctx) {
	got, want := rn.pspy.out, rn.written
	if !bytes.Equal(got, want) {
		at := 0
		for at < len(got) && at < len(want) && got[at] == want[at] {
			at++
		}
		if len(got) == len(want) {
			ctx.Fail("chunkpipe-bytes-reordered", "the %d bytes leaving the chunk pipe differ from the bytes written (first difference at offset %d; piece lengths %v)", len(got), at, rn.pspy.lens)
		} else {
			ctx.Fail("chunkpipe-bytes-lost-or-added", "%d bytes left the chunk pipe, %d were written (first difference at offset %d; piece lengths %v)", len(got), len(want), at, rn.pspy.lens)
		}
	}
	for i, l := range rn.pspy.lens {
		if l > C || (l < C && i != len(rn.pspy.lens)-1) {
			ctx.Fail("chunkpipe-short-piece-not-last", "piece %d of %d has %d bytes (piece lengths %v)", i, len(rn.pspy.lens), l, rn.pspy.lens)
			break
		}
	}
}

// ---- `new feed <shape>`: builder.FeedPipeline over readers of different shapes

// lastWithEOF returns at most k bytes per Read and reports io.EOF together with the last bytes.
type lastWithEOF struct {
	b []byte
	k int
}

func (l *lastWithEOF) Read(p []byte) (int, error) {
	n := len(l.b)
	if n > l.k {
		n = l.k
	}
	if n > len(p) {
		n = len(p)
	}
	copy(p, l.b[:n])
	l.b = l.b[n:]
	if len(l.b) == 0 {
		return n, io.EOF
	}
	return n, nil
}

func feedReader(shape string, content []byte) (io.Reader, bool) {
	switch {
	case shape == "plain":
		return bytes.NewReader(content), true
	case shape == "dataerr": // the final error arrives WITH the final data (1 KiB pieces)
		return iotest.DataErrReader(bytes.NewReader(content)), true
	case shape == "one":
		return iotest.OneByteReader(bytes.NewReader(content)), true
	case shape == "half":
		return iotest.HalfReader(bytes.NewReader(content)), true
	case shape == "halfdataerr":
		return iotest.HalfReader(iotest.DataErrReader(bytes.NewReader(content))), true
	case strings.HasPrefix(shape, "chunk"):
		k, err := strconv.Atoi(shape[5:])
		if err != nil || k <= 0 {
			return nil, false
		}
		return &lastWithEOF{b: content, k: k}, true
	}
	return nil, false
}

// readSpy records every Read result (count, EOF flag) and the bytes delivered.
type readSpy struct {
	r    io.Reader
	toks []string
	out  []byte
}

func (s *readSpy) Read(p []byte) (int, error) {
	n, err := s.r.Read(p)
	if n > 0 {
		s.out = append(s.out, p[:n]...)
	}
	switch {
	case err == io.EOF:
		s.toks = append(s.toks, strconv.Itoa(n)+"e")
	case err == nil:
		s.toks = append(s.toks, strconv.Itoa(n))
	default:
		s.toks = append(s.toks, strconv.Itoa(n)+"x")
	}
	return n, err
}

// writeSpy records what FeedPipeline hands to the pipeline.
type writeSpy struct {
	pipeline.Interface
	got []byte
}

func (w *writeSpy) Write(b []byte) (int, error) {
	w.got = append(w.got, b...)
	return w.Interface.Write(b)
}

// sumFeed runs FeedPipeline over the written bytes; the read results are annotated for the model.
func (rn *Runner) sumFeed(ctx *core.Ctx) ([]byte, error) {
	rd, _ := feedReader(rn.shape, rn.written)
	rs := &readSpy{r: rd}
	ws := &writeSpy{Interface: rn.p}
	a, err := builder.FeedPipeline(context.Background(), ws, rs)
	ctx.Annotate(rs.toks...)
	if !bytes.Equal(rs.out, rn.written) {
		ctx.Fail("feed-reader-broken", "harness reader %s delivered %d bytes of %d", rn.shape, len(rs.out), len(rn.written))
	}
	if err == nil && !bytes.Equal(ws.got, rs.out) {
		ctx.Fail("feedpipeline-bytes-dropped", "reader %s delivered %d bytes (last reads %v), FeedPipeline wrote %d bytes to the pipeline", rn.shape, len(rs.out), tailToks(rs.toks), len(ws.got))
	}
	if err != nil {
		return nil, err
	}
	return a.Bytes(), nil
}

func tailToks(t []string) []string {
	if len(t) > 4 {
		return t[len(t)-4:]
	}
	return t
}

// ---- `parup`: concurrent uploads sharing the process-wide BMT pool

type nopPutter struct{}

func (nopPutter) Put(_ context.Context, _ storage.ModePut, chs ...boson.Chunk) ([]bool, error) {
	return make([]bool, len(chs)), nil
}

func uploadNop(data []byte) ([]byte, error) {
	p := builder.NewPipelineBuilder(context.Background(), nopPutter{}, storage.ModePutUpload, false)
	if _, err := p.Write(data); err != nil {
		return nil, err
	}
	return p.Sum()
}

// parup: one goroutine per source; the first uploads its content `reps` times, the others keep uploading
// theirs until the first is done (at least once each).  Every reference must be the format's tree hash of
// its content — whatever else is being uploaded at the same time.
func (rn *Runner) parup(ctx *core.Ctx, reps int, srcs [][]byte) string {
	want := make([][]byte, len(srcs))
	memo := map[string][]byte{}
	for i, d := range srcs {
		if w, ok := memo[string(d)]; ok {
			want[i] = w
			continue
		}
		want[i] = SpecRoot(d, C, boson.Branches)
		memo[string(d)] = want[i]
	}
	type result struct {
		first  []byte
		n, bad int
		mixed  bool
		err    error
		badRef []byte
	}
	res := make([]result, len(srcs))
	stop := make(chan struct{})
	var wg sync.WaitGroup
	one := func(i int) {
		got, err := uploadNop(srcs[i])
		r := &res[i]
		r.n++
		if err != nil {
			r.err = err
			return
		}
		if r.first == nil {
			r.first = got
		} else if !bytes.Equal(r.first, got) {
			r.mixed = true
		}
		if !bytes.Equal(got, want[i]) {
			r.bad++
			r.badRef = got
		}
	}
	for i := range srcs {
		wg.Add(1)
		go func(i int) {
			defer wg.Done()
			if i == 0 {
				defer close(stop)
				for k := 0; k < reps; k++ {
					one(0)
				}
				return
			}
			for {
				one(i)
				select {
				case <-stop:
					return
				default:
				}
			}
		}(i)
	}
	done := make(chan struct{})
	go func() { wg.Wait(); close(done) }()
	select {
	case <-done:
	case <-time.After(40 * time.Second):
		ctx.Fail("par-hang", "concurrent uploads did not finish within 40 s (%d uploaders)", len(srcs))
		return "hang"
	}
	out := "ok"
	for i, r := range res {
		switch {
		case r.err != nil:
			ctx.Fail("par-upload-error", "uploader %d (%d bytes): %v", i, len(srcs[i]), r.err)
			out += " err"
			continue
		case r.bad > 0:
			ctx.Fail("par-ref-not-format-hash", "uploader %d (%d bytes): %d of %d concurrent uploads returned a wrong reference, e.g. %x, format specification %x", i, len(srcs[i]), r.bad, r.n, r.badRef, want[i])
		}
		if r.mixed {
			out += " unstable"
		} else {
			out += " " + hex.EncodeToString(r.first)
		}
	}
	return out
}

type pipeResult struct {
	addr boson.Address
	err  error
}

func New(prop string) *Runner { return &Runner{Prop: prop} }
func (rn *Runner) Close() {
	if rn.pipe != nil && !rn.summed {
		rn.pipe.Close()
		<-rn.pipeRes
	}
}

// trieSpy sits between the store writer and the hash-trie writer of a small pipeline and reads the
// writer's cursors, full flag and live buffer prefix (verif hook hashtrie.VerifPeek) after EVERY
// ChainWrite and after Sum.  flush() reports the number of calls since the last flush, the last
// snapshot in clear and a chained digest of all of them; the literal Lean model
// (Aurora.HashTrieBuf) prints the same field.
type trieSpy struct {
	w    pipeline.ChainWriter
	n    int
	h    uint64
	last string
	buf  int
	// what the writer was given (for the span oracle): reference -> span of every accepted leaf,
	// the uint64 sum of the spans, and whether one reference came with two different spans
	leafSpan  map[string]uint64
	total     uint64
	ambiguous bool
}

func newTrieSpy(w pipeline.ChainWriter) *trieSpy {
	t := &trieSpy{w: w, leafSpan: map[string]uint64{}}
	t.snap()
	t.n, t.h = 0, 0
	return t
}

func (t *trieSpy) snap() {
	st, ok := hashtrie.VerifPeek(t.w)
	if !ok {
		t.last = "nopeek"
		return
	}
	parts := make([]string, 0, 8)
	for _, c := range st.Cursors[1:] {
		parts = append(parts, strconv.Itoa(c))
	}
	f := 0
	if st.Full {
		f = 1
	}
	t.buf = st.BufLen
	t.last = fmt.Sprintf("cur=%s f=%d live=%016x", strings.Join(parts, ","), f, Fnv(st.Live))
	t.n++
	var l [8]byte
	binary.LittleEndian.PutUint64(l[:], t.h)
	t.h = Fnv(append(l[:], []byte(t.last)...))
}

func (t *trieSpy) ChainWrite(p *pipeline.PipeWriteArgs) error {
	ref := string(append(append([]byte(nil), p.Ref...), p.Key...))
	var span uint64
	if len(p.Span) == 8 {
		span = binary.LittleEndian.Uint64(p.Span)
	}
	err := t.w.ChainWrite(p)
	if err == nil {
		if old, ok := t.leafSpan[ref]; ok && old != span {
			t.ambiguous = true
		}
		t.leafSpan[ref] = span
		t.total += span
	}
	t.snap()
	return err
}

func (t *trieSpy) Sum() ([]byte, error) {
	r, err := t.w.Sum()
	t.snap()
	return r, err
}

func (t *trieSpy) flush() string {
	s := fmt.Sprintf(" cw=%d %s h=%016x", t.n, t.last, t.h)
	t.n, t.h = 0, 0
	return s
}

// checkSpans: the span oracle of the hash-trie writer (model-free; plain 32-byte references).  The leaves are
// what the spy saw going into the writer; every other reference must be a stored intermediate chunk
// `le64 span ‖ child references`.  Clauses: the span header of every stored intermediate chunk is the uint64
// sum of its children's spans; the root's span is the uint64 sum of all leaf spans.
func (rn *Runner) checkSpans(ctx *core.Ctx, root []byte) {
	t := rn.spy
	if t == nil || t.ambiguous || len(root) != 32 {
		return
	}
	bad := false
	var spanOf func(ref []byte, depth int) (uint64, bool)
	spanOf = func(ref []byte, depth int) (uint64, bool) {
		if sp, ok := t.leafSpan[string(ref)]; ok {
			return sp, true
		}
		d, ok := rn.st.m[string(ref)]
		if !ok || len(d) < 8 || (len(d)-8)%32 != 0 || depth > 9 {
			if !bad {
				ctx.Fail("trie-chunk-missing", "reference %x is neither a leaf given to the hash-trie writer nor a stored intermediate chunk (stored=%v, %d bytes)", ref, ok, len(d))
			}
			bad = true
			return 0, false
		}
		hdr := binary.LittleEndian.Uint64(d[:8])
		var sum uint64
		for i := 8; i < len(d); i += 32 {
			sp, ok := spanOf(d[i:i+32], depth+1)
			if !ok {
				return 0, false
			}
			sum += sp
		}
		if hdr != sum && !bad {
			bad = true
			ctx.Fail("trie-intermediate-span-not-children-sum", "stored intermediate chunk %x (%d children, depth %d) has span %d, its children's spans add up to %d", ref, (len(d)-8)/32, depth, hdr, sum)
		}
		return hdr, true
	}
	sp, ok := spanOf(root, 0)
	if ok && sp != t.total {
		ctx.Fail("trie-root-span-not-leaf-sum", "the root %x carries span %d, the %d distinct leaves given to the writer add up to %d", root, sp, len(t.leafSpan), t.total)
	}
}

func smallPipeline(ctx context.Context, s storage.Putter, c, b int) (pipeline.Interface, *trieSpy) {
	short := func() pipeline.ChainWriter {
		return bmt.NewBmtWriter(pstore.NewStoreWriter(ctx, s, storage.ModePutUpload, nil))
	}
	tw := newTrieSpy(hashtrie.NewHashTrieWriter(c, b, boson.HashSize, short))
	lsw := pstore.NewStoreWriter(ctx, s, storage.ModePutUpload, tw)
	return feeder.NewChunkFeederWriter(c, bmt.NewBmtWriter(lsw)), tw
}

// smallEncPipeline assembles the writers of builder.newEncryptionPipeline with chunk size c and
// branching b (references stay 64 bytes, the padding of EncryptChunk stays boson.ChunkSize).
func smallEncPipeline(ctx context.Context, s storage.Putter, c, b int) pipeline.Interface {
	short := func() pipeline.ChainWriter {
		lsw := pstore.NewStoreWriter(ctx, s, storage.ModePutUpload, nil)
		return penc.NewEncryptionWriter(encryption.NewChunkEncrypter(), bmt.NewBmtWriter(lsw))
	}
	tw := hashtrie.NewHashTrieWriter(c, b, boson.HashSize+encryption.KeyLength, short)
	lsw := pstore.NewStoreWriter(ctx, s, storage.ModePutUpload, tw)
	e := penc.NewEncryptionWriter(encryption.NewChunkEncrypter(), bmt.NewBmtWriter(lsw))
	return feeder.NewChunkFeederWriter(c, e)
}

// segKey is the keystream segment of pkg/encryption (own implementation): H(H(key ‖ le32(ctr))).
func segKey(key []byte, ctr uint32) []byte {
	var c [4]byte
	binary.LittleEndian.PutUint32(c[:], ctr)
	return keccak(keccak(key, c[:]))
}

func xorStream(in, key []byte, initCtr uint32) []byte {
	out := make([]byte, len(in))
	for i := 0; i < len(in); i += 32 {
		sk := segKey(key, initCtr+uint32(i/32))
		for j := 0; j < 32 && i+j < len(in); j++ {
			out[i+j] = in[i+j] ^ sk[j]
		}
	}
	return out
}

// walkEnc reads the keys and padding bytes of an encrypted upload back from the references and the
// stored chunks, top-down from `ref` (the subtree starts at content offset off): one annotation
// token `<off>:<span>:<key>:<padding>` per chunk.  Model-free clauses on the way: every stored
// chunk has 8 + ChunkSize bytes, decrypted data chunks are the written bytes.
func (rn *Runner) walkEnc(ctx *core.Ctx, ref []byte, off int64, c, b int) bool {
	if len(ref) != 64 {
		ctx.Fail("enc-ref-length", "encrypted reference has %d bytes", len(ref))
		return false
	}
	addr, key := ref[:32], ref[32:]
	data, ok := rn.st.m[string(addr)]
	if !ok {
		ctx.Fail("enc-chunk-missing", "chunk %x of the encrypted tree was not Put", addr)
		return false
	}
	if len(data) != 8+C {
		ctx.Fail("enc-chunk-length", "stored encrypted chunk has %d bytes, want %d", len(data), 8+C)
		return false
	}
	span := int64(binary.LittleEndian.Uint64(xorStream(data[:8], key, uint32(C/64))))
	if span < 0 || off+span > int64(len(rn.written)) {
		ctx.Fail("enc-span", "chunk at offset %d has span %d, content has %d bytes", off, span, len(rn.written))
		return false
	}
	plen, fl, k := span, int64(c), int64(0)
	if span > int64(c) {
		for fl*int64(b) < span {
			fl *= int64(b)
		}
		k = (span + fl - 1) / fl
		plen = 64 * k
	}
	if plen > C {
		ctx.Fail("enc-span", "chunk at offset %d: span %d needs a payload of %d bytes", off, span, plen)
		return false
	}
	payload := xorStream(data[8:8+plen], key, 0)
	pad := "-"
	if int(plen) < C {
		pad = hex.EncodeToString(data[8+plen:])
	}
	ctx.Annotate(fmt.Sprintf("%d:%d:%s:%s", off, span, hex.EncodeToString(key), pad))
	if k == 0 {
		if !bytes.Equal(payload, rn.written[off:off+span]) {
			ctx.Fail("enc-leaf-content", "decrypted data chunk at offset %d differs from the written bytes", off)
		}
		return true
	}
	for i := int64(0); i < k; i++ {
		if !rn.walkEnc(ctx, payload[64*i:64*i+64], off+i*fl, c, b) {
			return false
		}
	}
	return true
}

func (rn *Runner) params() (int, int) {
	switch rn.mode {
	case modeSmall, modeEncSmall:
		return rn.sc, rn.sb
	case modeEnc:
		return C, boson.Branches / 2
	}
	return C, boson.Branches
}

func (rn *Runner) reset(mode int) {
	rn.Close()
	*rn = Runner{Prop: rn.Prop, mode: mode}
	ctx := context.Background()
	rn.st = NewStore(true)
	switch mode {
	case modePlain:
		rn.p = builder.NewPipelineBuilder(ctx, rn.st, storage.ModePutUpload, false)
	case modeEnc:
		rn.p = builder.NewPipelineBuilder(ctx, rn.st, storage.ModePutUpload, true)
	case modeFeed:
		rn.p = builder.NewPipelineBuilder(ctx, rn.st, storage.ModePutUpload, false)
	case modePipe:
		p := builder.NewPipelineBuilder(ctx, rn.st, storage.ModePutUpload, false)
		rn.pipe = file.NewChunkPipe()
		rn.pipeRes = make(chan pipeResult, 1)
		rn.pspy = &pipeSpy{r: rn.pipe}
		go func(pp io.Reader, res chan pipeResult) {
			a, err := builder.FeedPipeline(ctx, p, pp)
			res <- pipeResult{a, err}
		}(rn.pspy, rn.pipeRes)
	}
}

func (rn *Runner) write1(b []byte) (int, error) {
	rn.written = append(rn.written, b...)
	if rn.mode == modePipe {
		return rn.pipe.Write(b)
	}
	if rn.mode == modeFeed {
		return len(b), nil // handed to FeedPipeline at `sum`
	}
	return rn.p.Write(b)
}

func uploadOnce(data []byte, c, b int, small bool) ([]byte, error) {
	ctx := context.Background()
	st := NewStore(false)
	var p pipeline.Interface
	if small {
		p, _ = smallPipeline(ctx, st, c, b)
	} else {
		p = builder.NewPipelineBuilder(ctx, st, storage.ModePutUpload, false)
	}
	if _, err := p.Write(data); err != nil {
		return nil, err
	}
	return p.Sum()
}

func readDesc(n int, err error, mem []byte) string {
	e := "nil"
	if err == io.EOF {
		e = "eof"
	} else if err != nil {
		e = "err"
	}
	if n < 0 || n > len(mem) {
		return fmt.Sprintf("%d %s ? ?", n, e)
	}
	desc := "-"
	if n > 0 && n <= 24 {
		desc = hex.EncodeToString(mem[:n])
	} else if n > 24 {
		desc = fmt.Sprintf("f:%016x", Fnv(mem[:n]))
	}
	tail := "clean"
	for _, x := range mem[n:] {
		if x != Sentinel {
			tail = "dirty"
			break
		}
	}
	return fmt.Sprintf("%d %s %s %s", n, e, desc, tail)
}

func sentinelBuf(ln, cp int) (buf, mem []byte) {
	mem = make([]byte, cp)
	for i := range mem {
		mem[i] = Sentinel
	}
	return mem[:ln], mem
}

// checkRead evaluates the reader-contract clauses on one ReadAt/Read result.
// `at` is the offset the read was served from; kind is "readat" or "read".
func (rn *Runner) checkRead(ctx *core.Ctx, kind string, at int64, ln, cp, n int, err error, mem []byte) {
	size := rn.total()
	want := 0
	if at < size {
		want = ln
		if int64(want) > size-at {
			want = int(size - at)
		}
	}
	shape := "len-eq-cap"
	if cp > ln {
		shape = "cap-gt-len"
	}
	if n > ln {
		ctx.Fail(kind+"-count-exceeds-len-"+shape, "returned %d for a buffer of length %d (cap %d), off %d size %d", n, ln, cp, at, size)
	}
	for i := ln; i < cp; i++ {
		if mem[i] != Sentinel {
			ctx.Fail(kind+"-writes-beyond-len-"+shape, "byte %d beyond len %d (cap %d) was written, off %d size %d", i, ln, cp, at, size)
			break
		}
	}
	if err != nil && err != io.EOF {
		ctx.Fail(kind+"-error", "unexpected error %v (off %d len %d size %d)", err, at, ln, size)
		return
	}
	if (err == io.EOF) != (at >= size) {
		ctx.Fail(kind+"-eof", "EOF=%v but off %d size %d", err == io.EOF, at, size)
	}
	if n != want && n <= ln {
		ctx.Fail(kind+"-count", "returned %d, want min(len, size-off) = %d (off %d len %d size %d)", n, want, at, ln, size)
	}
	if n >= 0 && n <= cp && at >= 0 && at+int64(n) <= size && !bytes.Equal(mem[:n], rn.slice(at, int64(n))) {
		ctx.Fail(kind+"-content", "bytes differ from content[%d:%d]", at, at+int64(n))
	}
}

func atoi(s string) (int, bool) {
	v, err := strconv.Atoi(s)
	return v, err == nil
}

func (rn *Runner) Step(ctx *core.Ctx, op []string) string {
	if len(op) == 0 {
		return "bad-op"
	}
	switch {
	case len(op) == 1 && op[0] == "new":
		rn.reset(modePlain)
		return "ok"
	case len(op) == 2 && op[0] == "new" && op[1] == "enc":
		rn.reset(modeEnc)
		return "ok"
	case len(op) == 2 && op[0] == "new" && op[1] == "pipe":
		rn.reset(modePipe)
		return "ok"
	case len(op) == 3 && op[0] == "new" && op[1] == "feed":
		if _, ok := feedReader(op[2], nil); !ok {
			return "bad-op"
		}
		rn.reset(modeFeed)
		rn.shape = op[2]
		return "ok"
	case len(op) >= 3 && op[0] == "parup":
		reps, ok := atoi(op[1])
		if !ok || reps < 1 || reps > 50 || len(op) > 40 {
			return "bad-op"
		}
		var srcs [][]byte
		for _, t := range op[2:] {
			d, ok := core.ParseSrc(t)
			if !ok {
				return "bad-op"
			}
			srcs = append(srcs, d)
		}
		return rn.parup(ctx, reps, srcs)
	case len(op) == 4 && op[0] == "new" && op[1] == "small":
		c, ok1 := atoi(op[2])
		b, ok2 := atoi(op[3])
		if !ok1 || !ok2 || c <= 0 || c > C || b < 2 {
			return "bad-op"
		}
		rn.reset(modeSmall)
		rn.sc, rn.sb = c, b
		rn.p, rn.spy = smallPipeline(context.Background(), rn.st, c, b)
		return fmt.Sprintf("ok buf=%d %s", rn.spy.buf, rn.spy.last)
	case len(op) == 5 && op[0] == "new" && op[1] == "synth":
		seed, e1 := strconv.ParseUint(op[2], 10, 64)
		size, e2 := strconv.ParseInt(op[3], 10, 64)
		period, ok3 := atoi(op[4])
		if e1 != nil || e2 != nil || !ok3 || size < 0 || period <= 0 || period > C || size > 16*int64(C)*4096 {
			return "bad-op"
		}
		rn.reset(modeSynth)
		rn.syn = newSynth(seed, size, period)
		rn.summed = true
		rn.root = append(synthAddr(0, size), synthKey(0, size)...)
		return "ok"
	case len(op) == 4 && op[0] == "new" && op[1] == "encsmall":
		c, ok1 := atoi(op[2])
		b, ok2 := atoi(op[3])
		if !ok1 || !ok2 || c <= 0 || c > C || b < 2 || 64*b > C {
			return "bad-op"
		}
		rn.reset(modeEncSmall)
		rn.sc, rn.sb = c, b
		rn.p = smallEncPipeline(context.Background(), rn.st, c, b)
		return "ok"
	case len(op) == 2 && op[0] == "selftest":
		d, ok := core.ParseSrc(op[1])
		if !ok {
			return "bad-op"
		}
		ch, err := cac.New(d)
		if err != nil {
			// cac.New rejects the empty payload; the pipeline's bmt writer does not
			return "ok " + hex.EncodeToString(SpecRef(uint64(len(d)), d))
		}
		if !bytes.Equal(ch.Address().Bytes(), SpecRef(uint64(len(d)), d)) {
			ctx.Fail("spec-ref-vs-cac", "harness reference BMT differs from cac.New")
		}
		return "ok " + hex.EncodeToString(ch.Address().Bytes())
	}
	if rn.mode == modeNone {
		return "nofile"
	}
	switch {
	case len(op) == 4 && op[0] == "leaves":
		// n ChainWrite calls on the REAL hash-trie writer with a caller-chosen span and synthetic references
		n, ok1 := atoi(op[1])
		span, e2 := strconv.ParseUint(op[2], 10, 64)
		seed, e3 := strconv.ParseUint(op[3], 10, 32)
		if !ok1 || e2 != nil || e3 != nil || n < 1 || n > 20000 {
			return "bad-op"
		}
		if rn.mode != modeSmall {
			return "noleaves"
		}
		if rn.summed {
			return "summed"
		}
		if rn.failed {
			return "err"
		}
		rn.leaves = true
		refs := core.GenBytes(seed, 32*n, 0)
		var sp [8]byte
		binary.LittleEndian.PutUint64(sp[:], span)
		for i := 0; i < n; i++ {
			if err := rn.spy.ChainWrite(&pipeline.PipeWriteArgs{Span: append([]byte(nil), sp[:]...), Ref: append([]byte(nil), refs[32*i:32*i+32]...)}); err != nil {
				rn.failed = true
				return "err"
			}
		}
		return strconv.Itoa(n) + rn.spy.flush()
	case (len(op) == 2 && op[0] == "write") || (len(op) == 3 && op[0] == "writeseg"):
		if rn.summed {
			return "summed"
		}
		if rn.failed {
			return "err"
		}
		b, ok := core.ParseSrc(op[1])
		if !ok {
			return "bad-op"
		}
		k := len(b)
		if op[0] == "writeseg" {
			if k, ok = atoi(op[2]); !ok || k <= 0 {
				return "bad-op"
			}
		}
		tot := 0
		for first := true; first || len(b) > 0; first = false {
			seg := b
			if len(seg) > k {
				seg = seg[:k]
			}
			if op[0] == "writeseg" && len(seg) == 0 {
				break
			}
			n, err := rn.write1(seg)
			if err != nil {
				rn.failed = true
				return "err"
			}
			if n != len(seg) {
				ctx.Fail("write-count", "Write returned %d for %d bytes", n, len(seg))
			}
			tot += n
			b = b[len(seg):]
		}
		if rn.spy != nil {
			return strconv.Itoa(tot) + rn.spy.flush()
		}
		return strconv.Itoa(tot)
	case len(op) == 1 && op[0] == "sum":
		if rn.summed {
			return "summed"
		}
		if rn.failed {
			return "err"
		}
		var sum []byte
		var err error
		if rn.mode == modePipe {
			if err = rn.pipe.Close(); err == nil {
				r := <-rn.pipeRes
				sum, err = r.addr.Bytes(), r.err
			} else {
				<-rn.pipeRes
			}
		} else if rn.mode == modeFeed {
			sum, err = rn.sumFeed(ctx)
		} else if rn.leaves {
			sum, err = rn.spy.Sum() // the feeder is bypassed: the tree is what the trie writer was given
		} else {
			sum, err = rn.p.Sum()
		}
		rn.summed = true
		if rn.mode == modePipe {
			rn.checkPipe(ctx)
		}
		if err != nil {
			rn.failed = true
			return "err"
		}
		rn.root = append([]byte(nil), sum...)
		c, b := rn.params()
		if rn.st.Bad > 0 {
			ctx.Fail("put-invalid-chunk", "%d stored chunks fail cac.Valid", rn.st.Bad)
		}
		if rn.mode == modeEnc || rn.mode == modeEncSmall {
			// the random keys / padding bytes, read back for the model
			rn.walkEnc(ctx, sum, 0, c, b)
			return fmt.Sprintf("ok %s %d %016x", hex.EncodeToString(sum), rn.st.NPuts, rn.st.Dig)
		}
		if rn.spy != nil {
			rn.checkSpans(ctx, sum)
		}
		if rn.leaves {
			rs := "-"
			if d, ok := rn.st.m[string(sum)]; ok && len(d) >= 8 {
				rs = strconv.FormatUint(binary.LittleEndian.Uint64(d[:8]), 10)
			}
			return fmt.Sprintf("ok %s %d %016x", hex.EncodeToString(sum), rn.st.NPuts, rn.st.Dig) + rn.spy.flush() + " rs=" + rs
		}
		if rn.Prop == "C02" {
			// model-free: the reference is the format's tree hash of the bytes …
			if want := SpecRoot(rn.written, c, b); !bytes.Equal(want, sum) {
				ctx.Fail("ref-not-format-hash", "pipeline %x, format specification %x (%d bytes)", sum, want, len(rn.written))
			}
			// … and does not depend on the segmentation: same bytes in ONE write
			if other, err := uploadOnce(rn.written, c, b, rn.mode == modeSmall); err != nil || !bytes.Equal(other, sum) {
				ctx.Fail("segmentation-dependent-ref", "this segmentation %x, single write %x err=%v (%d bytes)", sum, other, err, len(rn.written))
			}
		}
		if rn.spy != nil {
			return fmt.Sprintf("ok %s %d %016x", hex.EncodeToString(sum), rn.st.NPuts, rn.st.Dig) + rn.spy.flush()
		}
		if rn.pspy != nil {
			return fmt.Sprintf("ok %s %d %016x pp=%d:%016x", hex.EncodeToString(sum), rn.st.NPuts, rn.st.Dig, len(rn.pspy.lens), rn.pspy.dig)
		}
		return fmt.Sprintf("ok %s %d %016x", hex.EncodeToString(sum), rn.st.NPuts, rn.st.Dig)
	case len(op) == 1 && op[0] == "open":
		if rn.root == nil {
			return "nosum"
		}
		if rn.mode == modeSmall || rn.mode == modeEncSmall {
			return "nojoin"
		}
		var getter storage.Getter = rn.st
		if rn.syn != nil {
			getter = rn.syn
		}
		j, size, err := joiner.New(context.Background(), getter, storage.ModeGetRequest, boson.NewAddress(rn.root))
		if err != nil {
			ctx.Fail("open-error", "%v", err)
			return "err"
		}
		rn.j, rn.size, rn.pos = j, size, 0
		if size != rn.total() {
			ctx.Fail("size-mismatch", "joiner.New reports %d, content has %d bytes", size, rn.total())
		}
		return fmt.Sprintf("ok %d", size)
	}
	if rn.j == nil {
		return "noopen"
	}
	switch {
	case len(op) == 1 && op[0] == "size":
		s := rn.j.Size()
		if s != rn.total() {
			ctx.Fail("size-mismatch", "Size() = %d, content has %d bytes", s, rn.total())
		}
		return strconv.FormatInt(s, 10)
	case len(op) == 4 && op[0] == "readat":
		off, ok1 := atoi(op[1])
		ln, ok2 := atoi(op[2])
		cp, ok3 := atoi(op[3])
		if !ok1 || !ok2 || !ok3 || off < 0 || ln < 0 || cp < ln {
			return "bad-op"
		}
		buf, mem := sentinelBuf(ln, cp)
		n, err := rn.j.ReadAt(buf, int64(off))
		rn.checkRead(ctx, "readat", int64(off), ln, cp, n, err, mem)
		return readDesc(n, err, mem)
	case len(op) == 3 && op[0] == "read":
		ln, ok2 := atoi(op[1])
		cp, ok3 := atoi(op[2])
		if !ok2 || !ok3 || ln < 0 || cp < ln {
			return "bad-op"
		}
		buf, mem := sentinelBuf(ln, cp)
		n, err := rn.j.Read(buf)
		// sequential reads neither skip nor repeat: served from the oracle's own cursor
		rn.checkRead(ctx, "read", rn.pos, ln, cp, n, err, mem)
		if err == nil || err == io.EOF {
			rn.pos += int64(n)
		}
		return readDesc(n, err, mem)
	case len(op) == 3 && op[0] == "seek":
		off, e1 := strconv.ParseInt(op[1], 10, 64)
		wh, e2 := strconv.Atoi(op[2])
		if e1 != nil || e2 != nil {
			return "bad-op"
		}
		p, err := rn.j.Seek(off, wh)
		size := rn.total()
		var target int64
		valid := true
		switch wh {
		case 0:
			target = off
		case 1:
			target = rn.pos + off
		case 2:
			target = size - off // the project counts end offsets backwards
		default:
			valid = false
		}
		if err == nil {
			if !valid {
				ctx.Fail("seek-accepts-bad-whence", "whence %d accepted", wh)
			} else if p != target {
				ctx.Fail("seek-lands-elsewhere", "Seek(%d,%d) = %d, requested position %d", off, wh, p, target)
			}
			if p < 0 || p > size {
				ctx.Fail("seek-out-of-range", "Seek(%d,%d) = %d outside [0,%d]", off, wh, p, size)
			}
			rn.pos = p
			return strconv.FormatInt(p, 10)
		}
		if valid && target >= 0 && target <= size {
			ctx.Fail("seek-rejects-valid", "Seek(%d,%d) to %d in [0,%d] failed: %v", off, wh, target, size, err)
		}
		switch {
		case err == io.EOF:
			return "eof"
		case err.Error() == "seek: invalid whence":
			return "errwhence"
		case err.Error() == "seek: invalid offset":
			return "erroffset"
		}
		return "err"
	case len(op) == 1 && op[0] == "readall" && rn.mode == modeSynth:
		return "noreadall"
	case len(op) == 1 && op[0] == "readall":
		var out bytes.Buffer
		n, err := file.JoinReadAll(context.Background(), rn.j, &out)
		if err != nil {
			if rn.pos == 0 {
				ctx.Fail("readall-error", "JoinReadAll from position 0: %v", err)
			}
			if n > 0 {
				rn.pos += n
			}
			return "err " + strconv.FormatInt(n, 10)
		}
		if rn.pos == 0 && !bytes.Equal(out.Bytes(), rn.written) {
			ctx.Fail("readall-content", "JoinReadAll returned %d bytes that differ from the %d written", out.Len(), len(rn.written))
		}
		rn.pos += n
		return fmt.Sprintf("%d %016x", n, Fnv(out.Bytes()))
	}
	return "bad-op"
}

var _ = errors.New
