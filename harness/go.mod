module verifharness

go 1.17

require (
	github.com/btcsuite/btcd v0.22.0-beta
	github.com/ethereum/go-ethereum v1.10.17
	github.com/gauss-project/aurorafs v0.0.0
	github.com/gogo/protobuf v1.3.2
	github.com/libp2p/go-libp2p-core v0.15.1
	github.com/multiformats/go-multiaddr v0.5.0
	github.com/sirupsen/logrus v1.8.1
	golang.org/x/crypto v0.0.0-20220411220226-7b82a4e95df4
)

require (
	github.com/Knetic/govaluate v3.0.1-0.20171022003610-9aa49832a739+incompatible // indirect
	github.com/beorn7/perks v1.0.1 // indirect
	github.com/btcsuite/btcd/btcec/v2 v2.1.2 // indirect
	github.com/casbin/casbin/v2 v2.35.0 // indirect
	github.com/cespare/xxhash/v2 v2.1.2 // indirect
	github.com/deckarep/golang-set v1.8.0 // indirect
	github.com/decred/dcrd/dcrec/secp256k1/v4 v4.0.1 // indirect
	github.com/dgryski/go-rendezvous v0.0.0-20200823014737-9f7001d12a5f // indirect
	github.com/ethersphere/langos v1.0.0 // indirect
	github.com/gauss-project/manifest v0.4.2 // indirect
	github.com/go-redis/redis/v8 v8.11.4 // indirect
	github.com/go-stack/stack v1.8.0 // indirect
	github.com/gogf/gf/v2 v2.0.3 // indirect
	github.com/golang/protobuf v1.5.2 // indirect
	github.com/golang/snappy v0.0.4 // indirect
	github.com/google/uuid v1.3.0 // indirect
	github.com/gorilla/handlers v1.4.2 // indirect
	github.com/gorilla/mux v1.8.0 // indirect
	github.com/gorilla/websocket v1.5.0 // indirect
	github.com/hashicorp/errwrap v1.0.0 // indirect
	github.com/hashicorp/go-multierror v1.1.1 // indirect
	github.com/hashicorp/golang-lru v0.5.5-0.20210104140557-80c98217689d // indirect
	github.com/ipfs/go-cid v0.1.0 // indirect
	github.com/kilic/bls12-381 v0.1.0 // indirect
	github.com/klauspost/cpuid/v2 v2.0.12 // indirect
	github.com/libp2p/go-buffer-pool v0.0.2 // indirect
	github.com/matttproud/golang_protobuf_extensions v1.0.1 // indirect
	github.com/miekg/dns v1.1.48 // indirect
	github.com/minio/blake2b-simd v0.0.0-20160723061019-3f5f724cb5b1 // indirect
	github.com/minio/sha256-simd v1.0.0 // indirect
	github.com/mr-tron/base58 v1.2.0 // indirect
	github.com/multiformats/go-base32 v0.0.4 // indirect
	github.com/multiformats/go-base36 v0.1.0 // indirect
	github.com/multiformats/go-multiaddr-dns v0.3.1 // indirect
	github.com/multiformats/go-multibase v0.0.3 // indirect
	github.com/multiformats/go-multicodec v0.4.1 // indirect
	github.com/multiformats/go-multihash v0.1.0 // indirect
	github.com/multiformats/go-varint v0.0.6 // indirect
	github.com/opentracing/opentracing-go v1.2.0 // indirect
	github.com/pkg/errors v0.9.1 // indirect
	github.com/prometheus/client_golang v1.12.1 // indirect
	github.com/prometheus/client_model v0.2.0 // indirect
	github.com/prometheus/common v0.33.0 // indirect
	github.com/prometheus/procfs v0.7.3 // indirect
	github.com/shirou/gopsutil v3.21.5+incompatible // indirect
	github.com/spaolacci/murmur3 v1.1.0 // indirect
	github.com/syndtr/goleveldb v1.0.1-0.20210819022825-2ae1ddf74ef7 // indirect
	github.com/tklauser/go-sysconf v0.3.6 // indirect
	github.com/tklauser/numcpus v0.2.2 // indirect
	github.com/uber/jaeger-client-go v2.30.0+incompatible // indirect
	github.com/uber/jaeger-lib v2.4.1+incompatible // indirect
	go.opentelemetry.io/otel v1.0.0 // indirect
	go.opentelemetry.io/otel/sdk v1.0.0 // indirect
	go.opentelemetry.io/otel/trace v1.0.0 // indirect
	go.uber.org/atomic v1.9.0 // indirect
	golang.org/x/net v0.0.0-20220418201149-a630d4f3e7a2 // indirect
	golang.org/x/sync v0.0.0-20210220032951-036812b2e83c // indirect
	golang.org/x/sys v0.0.0-20220412211240-33da011f77ad // indirect
	google.golang.org/protobuf v1.28.0 // indirect
	lukechampine.com/blake3 v1.1.7 // indirect
	resenje.org/singleflight v0.2.0 // indirect
	resenje.org/web v0.4.3 // indirect
)

replace github.com/gauss-project/aurorafs => /repo
