// Package c05: correspondence + oracle for pkg/soc and pkg/crypto signer (property C05).
package c05

import (
	"bytes"
	"crypto/elliptic"
	"fmt"
	"strconv"

	"github.com/btcsuite/btcd/btcec"
	"github.com/gauss-project/aurorafs/pkg/boson"
	"github.com/gauss-project/aurorafs/pkg/cac"
	"github.com/gauss-project/aurorafs/pkg/crypto"
	"github.com/gauss-project/aurorafs/pkg/soc"
	"verifharness/core"
	"verifharness/refimpl"
)

type prop struct{}

func init() { core.Register(prop{}) }

func (prop) ID() string { return "C05" }
func (prop) Rule() string {
	return "cases: sign a wrapped content chunk (payload lengths 1, 2..300, 100, 4096, C; or a caller-chosen span over 0..292 payload bytes, the smallest being the 105-byte SOC) with a real secp256k1 key (random 32-byte scalar) and a random id, then valid/parse; " +
		"then single-byte XOR mutations (with undo) of the serialised chunk: in thorough every byte of the 105-byte header id(32)|sig(65)|span(8), in quick a random 40-byte subset plus all boundaries (0,31,32,95,96,97,104), " +
		"64 (quick 8) random wrapped-payload positions, all 32 address bytes (quick: 8); truncation to 104/105/0, extension, re-addressing of a valid chunk, CreateAddress on random inputs; a malformed stream sets arbitrary (address,bytes) pairs incl. lengths 0,104,105,C+105,C+106. " +
		"The signature and the owner recovered by btcec independently of pkg/soc are passed to the model as annotations (with the digest, which the model re-computes and compares). " +
		"Non-trivial: a chunk was signed and >=1 mutation followed by valid; distinct by op-list hash."
}

const C = boson.ChunkSize
const hdr = soc.IdSize + soc.SignatureSize + boson.SpanSize

func (prop) Gen(r *core.Rand, tier string) []core.Case {
	n, big, hdrMut, payMut, addrMut := 8, 1, 10, 4, 4
	if tier == "thorough" {
		n, big, hdrMut, payMut, addrMut = 40, 4, 105, 64, 32
	}
	var cs []core.Case
	k1 := core.Hex(bytes.Repeat([]byte{0x11}, 32))
	id1 := core.Hex(bytes.Repeat([]byte{0x22}, 32))
	fix := core.Case{ID: "fix-roundtrip", NT: true, Ops: []string{"sign " + k1 + " " + id1 + " h:666f6f", "valid", "parse",
		"mutd 0 1", "valid", "mutd 0 1", "mutd 32 1", "valid", "mutd 32 1", "mutd 96 1", "valid", "mutd 96 1", "mutd 96 2", "valid", "mutd 96 2",
		"mutd 97 1", "valid", "mutd 97 1", "mutd 105 1", "valid", "mutd 105 1", "muta 0 1", "valid", "muta 0 1", "valid",
		"trunc 105", "valid", "trunc 104", "valid", "parse"}}
	cs = append(cs, fix)
	// regression (fix aca4d22): the recovery byte with btcec's compressed-key flag (27->31 = xor 4, 28->32 = xor 60)
	// recovered the same owner, so the mutated chunk was still valid
	cs = append(cs, core.Case{ID: "fix-recid-flag", NT: true, Ops: []string{"sign " + k1 + " " + id1 + " g:9:50", "valid",
		"mutd 96 4", "valid", "parse", "mutd 96 4", "mutd 96 60", "valid", "mutd 96 60", "mutd 96 7", "valid", "mutd 96 7", "valid",
		"sign " + core.Hex(bytes.Repeat([]byte{0x33}, 32)) + " " + id1 + " g:9:50", "mutd 96 4", "valid", "mutd 96 4", "mutd 96 60", "valid",
		"sign " + core.Hex(bytes.Repeat([]byte{0x44}, 32)) + " " + id1 + " g:10:50", "mutd 96 4", "valid", "mutd 96 4", "mutd 96 60", "valid",
		"sign " + core.Hex(bytes.Repeat([]byte{0x55}, 32)) + " " + id1 + " g:11:50", "mutd 96 4", "valid", "mutd 96 4", "mutd 96 60", "valid"}})
	// smallest possible SOC: 105 bytes (wrapped chunk = span only), and one byte more
	cs = append(cs, core.Case{ID: "fix-min-size", NT: true, Ops: []string{"signw " + k1 + " " + id1 + " h:0000000000000000", "valid", "parse", "info",
		"mutd 104 1", "valid", "mutd 104 1", "trunc 104", "valid", "signw " + k1 + " " + id1 + " h:010000000000000041", "valid", "parse",
		"signw " + k1 + " " + id1 + " h:01000000000000", "signw " + k1 + " " + id1 + " h:ffffffffffffff7f4142", "valid", "mutd 97 1", "valid"}})
	// every header byte once (always, both tiers): the property's "all single-byte mutations" of the header
	all := core.Case{ID: "fix-header-all", NT: true, Ops: []string{"sign " + core.Hex(r.Bytes(32)) + " " + core.Hex(r.Bytes(32)) + " g:5:100", "valid"}}
	for p := 0; p < hdr; p++ {
		x := 1 << uint(r.Intn(8))
		all.Ops = append(all.Ops, fmt.Sprintf("mutd %d %d", p, x), "valid", fmt.Sprintf("mutd %d %d", p, x))
	}
	for p := 0; p < 32; p++ {
		x := 1 << uint(r.Intn(8))
		all.Ops = append(all.Ops, fmt.Sprintf("muta %d %d", p, x), "valid", fmt.Sprintf("muta %d %d", p, x))
	}
	all.Ops = append(all.Ops, "valid")
	cs = append(cs, all)
	// the recovery byte (offset 96) takes EVERY other value once, for two keys (v = 27 and v = 28 both occur with
	// high probability): aliasings of the recovery id (27<->0, 27<->4, compressed-key flag ...) are single-byte
	// mutations that are not single-bit flips
	for k := 0; k < 2; k++ {
		rec := core.Case{ID: fmt.Sprintf("fix-recid-all-%d", k), NT: true, Ops: []string{"sign " + core.Hex(r.Bytes(32)) + " " + core.Hex(r.Bytes(32)) + " g:6:40", "valid"}}
		for x := 1; x < 256; x++ {
			rec.Ops = append(rec.Ops, fmt.Sprintf("mutd 96 %d", x), "valid", fmt.Sprintf("mutd 96 %d", x))
		}
		cs = append(cs, rec)
	}
	// keys whose public key has a coordinate with a leading zero byte (about 1 key in 128): the owner is
	// keccak(X32 || Y32)[12:] with both coordinates LEFT-PADDED to 32 bytes — an address derivation that
	// concatenates minimal big-endian encodings agrees on all other keys
	for k, key := range []string{"a297ff76f00f2c7e3395811f24dd0d39eea816b14662319adb65d7965f6018e9", "59cd2490b21bf8b0c02bd2c3e8d6862c82ded61039c1598a0b0f9ced42728543",
		"63189519a07bc13631bd78e7077feaaa9a777554db5777127e4f33e1ad7e930b", "0ca8dfd0a003989db05d2de178969fb3a0701b1ff498afab22c12d6b2a7ef833"} {
		cs = append(cs, core.Case{ID: fmt.Sprintf("fix-short-coordinate-%d", k), NT: true, Ops: []string{"sign " + key + " " + core.Hex(r.Bytes(32)) + " g:9:77", "valid", "parse",
			"mutd 110 1", "valid", "mutd 110 1", "valid"}})
	}
	cs = append(cs, core.Case{ID: "fix-malformed", Ops: []string{"valid", "set " + id1 + " h:-", "valid", "parse", "set " + id1 + " g:1:104", "valid", "set " + id1 + " g:1:105", "valid", "parse",
		fmt.Sprintf("set %s p:2:%d:700", id1, C+hdr), "valid", fmt.Sprintf("set %s p:2:%d:700", id1, C+hdr+1), "valid", "parse", "addr " + id1 + " " + core.Hex(bytes.Repeat([]byte{3}, 20)), "addr - -"}})
	bigUsed := 0
	for i := 0; i < n; i++ {
		c := core.Case{ID: fmt.Sprintf("g%d", i)}
		if r.Chance(12) { // malformed stream
			l := r.Pick([]int{0, 1, 104, 105, 106, 200, 4096})
			if r.Chance(50) {
				l = r.Range(0, 400)
			}
			c.Ops = append(c.Ops, "set "+core.Hex(r.Bytes(r.Pick([]int{32, 32, 32, 0, 20, 64})))+" g:"+strconv.Itoa(r.Intn(1000))+":"+strconv.Itoa(l), "valid", "parse",
				"addr "+core.Hex(r.Bytes(r.Pick([]int{32, 32, 0, 5})))+" "+core.Hex(r.Bytes(r.Pick([]int{20, 20, 0, 32}))))
			cs = append(cs, c)
			continue
		}
		var l int
		switch r.Intn(10) {
		case 0:
			l = 1
		case 1:
			l = 100
		case 2:
			if bigUsed < big {
				l = r.Pick([]int{C, C, C - 1, C / 2})
				bigUsed++
			} else {
				l = 4096
			}
		case 3:
			l = r.Pick([]int{0, C + 1}) // cac.New rejects
			if bigUsed >= big {
				l = 0
			}
		default:
			l = r.Range(2, 300)
		}
		src := fmt.Sprintf("g:%d:%d", r.Intn(1000), l)
		if l > 70000 {
			src = fmt.Sprintf("p:%d:%d:%d", r.Intn(1000), l, r.Range(100, 3000))
		}
		idLen := 32
		if r.Chance(8) {
			idLen = r.Pick([]int{0, 1, 31, 33, 64}) // Sign does not check the id length; FromChunk re-splits at 32
		}
		signOp := "sign "
		if l <= 300 && r.Chance(12) { // caller-chosen span, possibly no payload at all
			signOp = "signw "
			l = r.Pick([]int{8, 8, 9, 16, r.Range(8, 300)})
			src = "h:" + core.Hex(r.Bytes(l))
			if l > 40 {
				src = fmt.Sprintf("g:%d:%d", r.Intn(1000), l)
			}
		}
		c.Ops = append(c.Ops, signOp+core.Hex(r.Bytes(32))+" "+core.Hex(r.Bytes(idLen))+" "+src, "valid", "parse")
		ok := l >= 1 && l <= C
		if signOp == "signw " {
			l -= 8
		}
		muts := 0
		if ok {
			total := idLen + 65 + 8 + l
			big := l > 70000
			mut := func(kind string, pos int) {
				x := 1 << uint(r.Intn(8))
				if r.Chance(25) {
					x = r.Range(1, 255)
				}
				c.Ops = append(c.Ops, fmt.Sprintf("%s %d %d", kind, pos, x), "valid")
				muts++
				if r.Chance(85) {
					c.Ops = append(c.Ops, fmt.Sprintf("%s %d %d", kind, pos, x)) // undo
				} else if r.Chance(50) {
					c.Ops = append(c.Ops, "parse", fmt.Sprintf("%s %d %d", kind, pos, x))
				}
			}
			hm, pm, am := hdrMut, payMut, addrMut
			if big {
				hm, pm, am = 6, 2, 2
			}
			for _, p := range []int{0, 31, 32, 95, 96, 97, 104} {
				if !big || r.Chance(30) {
					mut("mutd", p)
				}
			}
			if !big {
				for _, x := range []int{4, 60, 32, 7} { // recovery byte: compressed-key flag, other recovery ids
					c.Ops = append(c.Ops, fmt.Sprintf("mutd 96 %d", x), "valid", fmt.Sprintf("mutd 96 %d", x))
					muts++
				}
			}
			if hm >= hdr {
				for p := 0; p < hdr; p++ {
					mut("mutd", p)
				}
			} else {
				for j := 0; j < hm; j++ {
					mut("mutd", r.Intn(hdr))
				}
			}
			for j := 0; j < pm; j++ {
				mut("mutd", hdr+r.Intn(total-hdr+1)) // may hit one past the end: "range"
			}
			if am >= 32 {
				for p := 0; p < 32; p++ {
					mut("muta", p)
				}
			} else {
				for j := 0; j < am; j++ {
					mut("muta", r.Intn(32))
				}
			}
			c.Ops = append(c.Ops, "valid")
			if !big {
				switch r.Intn(4) {
				case 0:
					c.Ops = append(c.Ops, fmt.Sprintf("trunc %d", r.Pick([]int{0, 104, 105, total - 1})), "valid", "parse")
				case 1:
					c.Ops = append(c.Ops, "extend h:"+core.Hex(r.Bytes(r.Range(1, 3))), "valid", "extend h:00", "valid")
				case 2:
					c.Ops = append(c.Ops, "extend h:00", "valid", "parse") // zero padding of the wrapped chunk keeps its BMT address
				}
			}
		}
		c.NT = ok && muts > 0
		cs = append(cs, c)
	}
	return cs
}

type chunk struct{ addr, data []byte }

type runner struct {
	cur    *chunk
	pristi *chunk // the chunk as signed
	key    []byte
	id     []byte
}

func (prop) New() core.Runner { return &runner{} }
func (*runner) Close()        {}

func keccak(b ...[]byte) []byte { return refimpl.Keccak(b...) }

// the reference predicates (written from the property statement, independent of pkg/soc and
// pkg/crypto) live in harness/refimpl
func refRecover(sig, digest []byte) []byte        { return refimpl.Recover(sig, digest) }
func refParse(data []byte) (digest, owner []byte) { return refimpl.SocParse(data) }
func refValid(addr, data []byte) bool             { return refimpl.SocValid(addr, data) }

func (rn *runner) annotate(ctx *core.Ctx) {
	dg, owner := refParse(rn.cur.data)
	switch {
	case dg == nil:
		ctx.Annotate("-", "fail")
	case owner == nil:
		ctx.Annotate(core.Hex(dg), "fail")
	default:
		ctx.Annotate(core.Hex(dg), core.Hex(owner))
	}
}

func region(pos, idLen int) string {
	switch {
	case pos < 32:
		return "id"
	case pos < 97:
		return "sig"
	case pos < 105:
		return "span"
	}
	return "payload"
}

func (rn *runner) Step(ctx *core.Ctx, op []string) string {
	switch {
	case len(op) == 4 && (op[0] == "sign" || op[0] == "signw"):
		key, e1 := core.UnHex(op[1])
		id, e2 := core.UnHex(op[2])
		data, ok := core.ParseSrc(op[3])
		if e1 != nil || e2 != nil || !ok {
			return "bad-op"
		}
		rn.cur, rn.pristi = nil, nil
		ch, err := cac.New(data)
		if op[0] == "signw" {
			ch, err = cac.NewWithDataSpan(data) // span chosen by the caller; 8 bytes = span only (smallest SOC, 105 bytes)
		}
		if err != nil {
			return "err-cac"
		}
		priv := crypto.Secp256k1PrivateKeyFromBytes(key)
		signer := crypto.NewDefaultSigner(priv)
		sch, err := soc.New(id, ch).Sign(signer)
		if err != nil {
			return "err"
		}
		d := sch.Data()
		if len(d) < len(id)+65 {
			ctx.Fail("sign-serialisation", "short chunk")
			return "err"
		}
		// owner computed without pkg/crypto: keccak(uncompressed pub)[12:]
		pub := elliptic.Marshal(btcec.S256(), priv.PublicKey.X, priv.PublicKey.Y)
		owner := keccak(pub[1:])[12:]
		sig := d[len(id) : len(id)+65]
		ctx.Annotate(core.Hex(sig), core.Hex(owner))
		rn.cur = &chunk{addr: append([]byte(nil), sch.Address().Bytes()...), data: append([]byte(nil), d...)}
		// oracle: address formula, serialisation, round trip
		if !bytes.Equal(rn.cur.addr, keccak(id, owner)) {
			ctx.Fail("address-formula", "address is not keccak(id||owner)")
		}
		if !bytes.Equal(d, append(append(append([]byte{}, id...), sig...), ch.Data()...)) {
			ctx.Fail("sign-serialisation", "chunk is not id||sig||span||payload")
		}
		if len(id) == 32 {
			rn.pristi = &chunk{addr: append([]byte(nil), rn.cur.addr...), data: append([]byte(nil), d...)}
			rn.key, rn.id = key, id
			if !soc.Valid(sch) {
				ctx.Fail("signed-not-valid", "freshly signed chunk fails Valid")
			}
			s, err := soc.FromChunk(sch)
			if err != nil {
				ctx.Fail("signed-not-parsed", "%v", err)
			} else {
				back, err := s.Chunk()
				if err != nil || !back.Address().Equal(sch.Address()) || !bytes.Equal(back.Data(), d) ||
					!s.WrappedChunk().Address().Equal(ch.Address()) || !bytes.Equal(s.WrappedChunk().Data(), ch.Data()) {
					ctx.Fail("roundtrip-fields", "FromChunk(sign(..)) differs in id/owner/wrapped chunk")
				}
			}
			if !bytes.Equal(refRecover(sig, keccak(id, ch.Address().Bytes())), owner) {
				ctx.Fail("signature-not-over-id-address", "signature does not recover the owner over keccak(id||wrapped address)")
			}
		}
		return fmt.Sprintf("ok %s %d %s", core.Hex(rn.cur.addr), len(d), core.Hex(keccak(d)))
	case len(op) == 3 && op[0] == "set":
		a, err := core.UnHex(op[1])
		p, ok := core.ParseSrc(op[2])
		if err != nil || !ok {
			return "bad-op"
		}
		rn.cur = &chunk{addr: a, data: p}
		rn.pristi = nil
		return "ok"
	case len(op) == 3 && op[0] == "addr":
		id, e1 := core.UnHex(op[1])
		ow, e2 := core.UnHex(op[2])
		if e1 != nil || e2 != nil {
			return "bad-op"
		}
		a, err := soc.CreateAddress(id, ow)
		if err != nil {
			return "err"
		}
		if !bytes.Equal(a.Bytes(), keccak(id, ow)) {
			ctx.Fail("create-address", "CreateAddress is not keccak(id||owner)")
		}
		return core.Hex(a.Bytes())
	}
	if rn.cur == nil {
		return "nochunk"
	}
	c := rn.cur
	switch {
	case len(op) == 1 && op[0] == "valid":
		rn.annotate(ctx)
		v := soc.Valid(boson.NewChunk(boson.NewAddress(c.addr), c.data))
		want := refValid(c.addr, c.data)
		if v != want {
			clause := "valid-accepts-invalid"
			if want {
				clause = "valid-rejects-valid"
			}
			ctx.Fail(clause, "Valid=%v reference=%v (%d bytes)", v, want, len(c.data))
		}
		if rn.pristi != nil && v && len(c.data) == len(rn.pristi.data) {
			if !bytes.Equal(c.addr, rn.pristi.addr) {
				ctx.Fail("mutation-still-valid-address", "address differs from the signed chunk's but Valid")
			} else if !bytes.Equal(c.data, rn.pristi.data) {
				pos := 0
				for pos < len(c.data) && c.data[pos] == rn.pristi.data[pos] {
					pos++
				}
				ctx.Fail("mutation-still-valid-"+region(pos, 32), "data differs from the signed chunk's at byte %d but Valid", pos)
			}
		}
		return core.B(v)
	case len(op) == 1 && op[0] == "parse":
		rn.annotate(ctx)
		s, err := soc.FromChunk(boson.NewChunk(boson.NewAddress(c.addr), c.data))
		if err != nil {
			return "err"
		}
		full, err := s.Chunk()
		if err != nil {
			return "err"
		}
		d := full.Data()
		// owner = what the address of the re-serialised chunk commits to; compare through the reference
		_, owner := refParse(c.data)
		if owner == nil || !bytes.Equal(full.Address().Bytes(), keccak(d[:32], owner)) {
			ctx.Fail("parse-owner", "FromChunk owner differs from the independently recovered owner")
		}
		w := s.WrappedChunk()
		return fmt.Sprintf("ok %s %s %s %d", core.Hex(d[:32]), core.Hex(owner), core.Hex(w.Address().Bytes()), len(w.Data()))
	case len(op) == 3 && (op[0] == "mutd" || op[0] == "muta"):
		pos, e1 := strconv.Atoi(op[1])
		x, e2 := strconv.Atoi(op[2])
		if e1 != nil || e2 != nil || pos < 0 || x < 0 {
			return "bad-op"
		}
		t := c.data
		if op[0] == "muta" {
			t = c.addr
		}
		if pos >= len(t) {
			return "range"
		}
		t[pos] ^= byte(x)
		return "ok"
	case len(op) == 2 && op[0] == "trunc":
		n, err := strconv.Atoi(op[1])
		if err != nil || n < 0 {
			return "bad-op"
		}
		if n < len(c.data) {
			c.data = c.data[:n]
		}
		return "ok"
	case len(op) == 2 && op[0] == "extend":
		b, ok := core.ParseSrc(op[1])
		if !ok {
			return "bad-op"
		}
		c.data = append(c.data, b...)
		return "ok"
	case len(op) == 1 && op[0] == "info":
		return fmt.Sprintf("%s %d", core.Hex(c.addr), len(c.data))
	}
	return "bad-op"
}
