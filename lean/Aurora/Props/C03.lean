import Aurora.Lemmas.Bmt
import Aurora.Props.C03Conc
/-!
# C03 — BMT chunk hash matches its recursive definition

Model: `Aurora/Model/Bmt.lean` (hand translation of `/repo/pkg/bmt/bmt.go`, `pool.go`), tied to
the Go code by the C03 correspondence run with real Keccak-256 on both sides.  All theorems are
for **every** base hash `H`, segment size `seg > 0`, tree depth `d` (the repository: `seg = 32`,
`d = 12`), every stale content of the reused tree buffer, every span and every split of the
writes — no bound.

What is abstracted: the per-section goroutines and the atomic node toggles are represented by
the dataflow they compute (`leafs`, `iterUp`); that every interleaving of those goroutines yields
this dataflow value is proved on the small-step model in `Props/C03Conc.lean` (imported here so
that `./check C03` builds and audits it: `C03_conc_result`, `C03_conc_hash_correct`, …), and
`C03_spawned_sections_stable` is the part of that argument which lives at this level (the bytes
a spawned section worker reads are never written again).
-/
namespace Aurora.Bmt

variable (H : Bytes → Bytes)

/-- The pool's zero-hash table is the table of roots of all-zero subtrees:
    `zerohashes[i] = bmtRoot(2^i zero segments)`. -/
theorem C03_zerohash_table (seg i : Nat) :
    zerohash H seg i = bmtRoot H seg i (zeros (seg * 2 ^ i)) := zerohash_eq H seg i

/-- run a list of `Write` calls -/
def writes (seg : Nat) (h : Hasher) (ws : List Bytes) : Hasher :=
  ws.foldl (fun h b => (h.write H seg b).1) h

theorem Inv_writes (seg d : Nat) (hs : 0 < seg) (ws : List Bytes) (h : Hasher) (data : Bytes)
    (inv : Inv H seg d h data) : Inv H seg d (writes H seg h ws) (data ++ ws.flatten) := by
  induction ws generalizing h data with
  | nil => simpa [writes] using inv
  | cons b ws ih =>
    have := ih (h.write H seg b).1 (data ++ b) (Inv_write H seg d h data b hs inv)
    simpa [writes, List.append_assoc] using this

theorem writes_span (seg : Nat) (ws : List Bytes) (h : Hasher) : (writes H seg h ws).span = h.span := by
  induction ws generalizing h with
  | nil => rfl
  | cons b ws ih => simp only [writes, List.foldl_cons] at ih ⊢; rw [ih]; rfl

/-- **Main theorem (sequential semantics).**  A hasher obtained from the pool over a tree whose
    buffer holds arbitrary stale bytes, given a span header and any sequence of writes (any
    split, including empty writes and writes overflowing the capacity, which are truncated),
    returns `H(span ‖ bmtRoot(zero-padded data))` — the recursive definition. -/
theorem C03_seq_correct (seg d : Nat) (hs : 0 < seg) (stale : Bytes) (hb : stale.length = maxSize seg d)
    (span : Bytes) (hspan : span.length = 8) (ws : List Bytes) :
    ((writes H seg ((Hasher.get stale).setHeader span) ws).hash H seg d).1
      = bmtHash H seg d span (ws.flatten.take (maxSize seg d)) := by
  have inv0 : Inv H seg d ((Hasher.get stale).setHeader span) [] := by
    have := Inv_get H seg d stale hb hs
    exact ⟨this.blen, this.size, this.pref, this.pos, this.leafs⟩
  have inv := Inv_writes H seg d hs ws _ _ inv0
  rw [hash_correct H seg d _ _ hs inv, writes_span]
  have : ((Hasher.get stale).setHeader span).span = span := by
    simp only [Hasher.setHeader, Hasher.get, zeros_length, hspan, Nat.min_self]
    rw [List.take_of_length_le (by omega), drop_zeros]
    simp [zeros]
  rw [this, List.nil_append]

/-- `Reset()` re-establishes the initial bookkeeping on the (dirty) tree: after a reset, a header
    and further writes, `Hash` returns the BMT hash of the new data only. -/
theorem C03_reset_correct (seg d : Nat) (hs : 0 < seg) (h : Hasher) (hb : h.buffer.length = maxSize seg d)
    (span : Bytes) (hspan : span.length = 8) (ws : List Bytes) :
    ((writes H seg (h.reset.setHeader span) ws).hash H seg d).1
      = bmtHash H seg d span (ws.flatten.take (maxSize seg d)) := by
  have := C03_seq_correct H seg d hs h.buffer hb span hspan ws
  exact this

/-- Reuse: `Write` and `Hash` keep the tree buffer at its fixed length, so a tree returned to
    the pool satisfies the premise of `C03_seq_correct` again, whatever was hashed before. -/
theorem C03_buffer_length_preserved (seg d : Nat) (h : Hasher) (hb : h.buffer.length = maxSize seg d)
    (hsz : h.size ≤ maxSize seg d) (b : Bytes) :
    (h.write H seg b).1.buffer.length = maxSize seg d ∧ (h.hash H seg d).2.buffer.length = maxSize seg d := by
  constructor
  · show (copyAt h.buffer h.size b).length = _
    rw [copyAt_length _ _ _ (by omega), hb]
  · unfold Hasher.hash
    split
    · exact hb
    · show (copyAt h.buffer h.size (zeros (2 * seg))).length = _
      rw [copyAt_length _ _ _ (by omega), hb]

/-- `Write` reports the number of bytes it accepted: everything that still fits. -/
theorem C03_write_count (seg : Nat) (h : Hasher) (b : Bytes) :
    (h.write H seg b).2 = min b.length (h.buffer.length - h.size) := rfl

/-- The bytes a spawned section worker reads (everything below the old `size`) are never
    written again, neither by later `Write`s nor by the zeroing in `Hash`: the workers' reads
    do not conflict with the writer's stores, and reading at spawn time or later is the same. -/
theorem C03_spawned_sections_stable (seg d : Nat) (h : Hasher) (hsz : h.size ≤ h.buffer.length) (b : Bytes) :
    (h.write H seg b).1.buffer.take h.size = h.buffer.take h.size ∧
    (h.hash H seg d).2.buffer.take h.size = h.buffer.take h.size := by
  constructor
  · exact copyAt_take_le _ _ _ hsz
  · unfold Hasher.hash
    split
    · rfl
    · exact copyAt_take_le _ _ _ hsz

/-- Non-vacuity: the premises of `C03_seq_correct` are satisfiable (toy parameters). -/
example : (0 < 1) ∧ (zeros 8).length = maxSize 1 2 ∧ ([1, 2, 3, 4, 5, 6, 7, 8] : Bytes).length = 8 := by decide

end Aurora.Bmt
