#!/bin/bash
# lib/runall.sh [-j N] [--tier quick|thorough] [--seeds "1 2 3"] [Cxx ...]  — run registered checks, summarise.
J=4; TIER=quick; SEEDS="${VERIF_SEED:-1}"; PIDS=()
while [ $# -gt 0 ]; do case $1 in -j) J=$2; shift 2;; --tier) TIER=$2; shift 2;; --seeds) SEEDS=$2; shift 2;; *) PIDS+=($1); shift;; esac; done
cd /verif
[ ${#PIDS[@]} -eq 0 ] && PIDS=($(python3 -c "import json;print(' '.join(c['property_id'] for c in json.load(open('MANIFEST.json'))['checks']))"))
mkdir -p .work/runall
for s in $SEEDS; do for p in "${PIDS[@]}"; do echo "$p $s"; done; done | xargs -P $J -L 1 bash -c './check $0 --tier '$TIER' --seed $1 > .work/runall/$0.$1.out 2>&1; echo "$0 seed=$1 rc=$? $(grep -c "^VIOLATION" .work/runall/$0.$1.out) violations, $(grep -c "^KNOWN-FINDING" .work/runall/$0.$1.out) known :: $(tail -1 .work/runall/$0.$1.out | cut -c1-160)"'
