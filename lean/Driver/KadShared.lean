import Driver.Util
import Aurora.Model.Kad
/-! Shared line-protocol driver of the Kad model (properties C22, C23, C24); the op lines are
documented in harness/kadh/kadh.go. -/
namespace Driver.KadShared
open Aurora.Topo

def parseAddr (s : String) : Option Addr := Driver.hexToBytes s

def parseList (s : String) : Option (List Addr) :=
  if s = "-" then some [] else
  (s.splitOn ",").foldr (fun x acc =>
    match acc with
    | none => none
    | some l => if x = "" || x = "-" then none else (parseAddr x).map (· :: l)) (some [])

def hex (a : Addr) : String := Driver.bytesToHex a

def joinAddrs (as : List Addr) : String :=
  if as.isEmpty then "-" else ",".intercalate (as.map hex)

def sortedHex (as : List Addr) : String :=
  if as.isEmpty then "-" else ",".intercalate ((as.map hex).mergeSort (fun a b => decide (a ≤ b)))

def parseStatus (s : String) : Option Nat :=
  if s = "pub" then some 1 else if s = "priv" then some 2 else if s = "unk" then some 0 else none

def parseBit (s : String) : Option Bool :=
  if s = "0" then some false else if s = "1" then some true else none

def binsStr (ps : PSlice) : String :=
  let parts := (ps.bins.zipIdx.filter (fun p => !p.1.isEmpty)).map (fun p => s!"{p.2}:{joinAddrs p.1}")
  if parts.isEmpty then "-" else ";".intercalate parts

def splitAnnot (ws : List String) : List String × List String :=
  (ws.takeWhile (· ≠ "|"), (ws.dropWhile (· ≠ "|")).drop 1)

def stepK (k : Kad) (op : List String) (annot : List String) : Kad × String :=
  match op with
  | ["add", l] =>
    match parseList l with
    | some as => if as.isEmpty then (k, "bad-op") else ((k.apply (.add as)).1, "ok")
    | none => (k, "bad-op")
  | ["conn", a, f] =>
    match parseAddr a, parseBit f with
    | some a, some f =>
      let kick := match annot with
        | ["kick", x] => parseAddr x
        | _ => none
      let (k', o) := k.apply (.conn a f kick)
      (k', match o.out with | .ok => "ok" | .oversat => "oversat" | .err => "err" | .badAnnot => "bad-annot")
    | _, _ => (k, "bad-op")
  | ["out", a, m] =>
    match parseAddr a with
    | some a => if m = "full" then ((k.apply (.out a false)).1, "ok") else if m = "boot" then ((k.apply (.out a true)).1, "ok") else (k, "bad-op")
    | none => (k, "bad-op")
  | ["disc", a] =>
    match parseAddr a with
    | some a => ((k.apply (.disc a)).1, "ok")
    | none => (k, "bad-op")
  | ["force", a] =>
    match parseAddr a with
    | some a => ((k.apply (.force a)).1, "ok")
    | none => (k, "bad-op")
  | ["pick", a] =>
    match parseAddr a with
    | some a => (k, Driver.boolStr (k.pick a))
    | none => (k, "bad-op")
  | ["protect", l] =>
    match parseList l with
    | some as => ((k.apply (.protect as)).1, "ok")
    | none => (k, "bad-op")
  | ["reach", a, s] =>
    match parseAddr a, parseStatus s with
    | some a, some s => ((k.apply (.reach a s)).1, "ok")
    | _, _ => (k, "bad-op")
  | ["self", s] =>
    match parseStatus s with
    | some s => ((k.apply (.self s)).1, "ok")
    | none => (k, "bad-op")
  | ["radius", r] =>
    match Driver.parseNat r with
    | some r => if r ≤ 255 then ((k.apply (.radius r)).1, "ok") else (k, "bad-op")
    | none => (k, "bad-op")
  | ["depth"] => (k, toString k.depth)
  | ["depthx", s] =>
    match Driver.parseNat s with
    | some s => if s < 2 ^ 64 then (k, toString k.depth) else (k, "bad-op")
    | none => (k, "bad-op")
  | ["state"] => (k, s!"d={k.depth} c={sortedHex k.connected.toList} k={sortedHex k.known.toList}")
  | ["bins"] => (k, binsStr k.connected)
  | ["closest", t, s, r, sk] =>
    match parseAddr t, parseBit s, parseBit r, parseList sk with
    | some t, some s, some r, some sk =>
      (k, match k.closest t s r sk with
          | .found a => hex a
          | .wantSelf => "self"
          | .notFound => "notfound")
    | _, _, _, _ => (k, "bad-op")
  | ["closestn", t, n, r, sk] =>
    match parseAddr t, Driver.parseNat n, parseBit r, parseList sk with
    | some t, some n, some r, some sk =>
      if n ≤ 1000 then (k, joinAddrs (k.closestN t n r sk)) else (k, "bad-op")
    | _, _, _, _ => (k, "bad-op")
  | _ => (k, "bad-op")

def step (st : Option Kad) (ws : List String) : Option Kad × String :=
  let (op, annot) := splitAnnot ws
  match op with
  | [] => (st, "bad-op")
  | "init" :: args =>
    match args with
    | [b, bm, m, stc] =>
      match parseAddr b, Driver.parseNat bm, parseList stc with
      | some b, some bm, some stc =>
        if bm > 0 && (m = "full" || m = "boot") then (some (Kad.new b bm (m = "boot") stc), "ok")
        else (st, "bad-op")
      | _, _, _ => (st, "bad-op")
    | _ => (st, "bad-op")
  | _ =>
    match st with
    | none => (none, "nokad")
    | some k => let (k', o) := stepK k op annot; (some k', o)

def handler : Driver.Handler := { σ := Option Kad, init := none, step := step }

end Driver.KadShared
