import Aurora.Lemmas.UploadPuts
import Aurora.Lemmas.EncTree
/-!
The encrypted upload pipeline (`EncUpload.upload`): for every segmentation and every oracle it
returns the reference of a decorated tree over `specTree data` whose encrypted chunks are all in
the Put log and whose decorations are oracle values.  Same structure as `Lemmas/Upload.lean` /
`Lemmas/UploadPuts.lean`: the record-valued run of the generic hash-trie is the image of a
tree-valued run (`OT` = offset × decorated tree), which in turn maps onto the plain tree-valued run.
-/
namespace Aurora.EncUpload
open Aurora.Bmt (Bytes)
open Aurora.Cac (le64)
open Aurora.Tree Aurora.HashTrie

/-! ## forgetting decorations -/

theorem plainL_eq_map (ks : List ET) : plainL ks = ks.map ET.plain := by
  induction ks with
  | nil => rfl
  | cons t ts ih => simp [plainL, ih]

theorem plain_size (e : ET) : e.plain.size = e.size := by
  cases e <;> rfl

mutual
theorem plain_flat : ∀ (e : ET), e.plain.flat = e.flat
  | .leaf _ _ _ => rfl
  | .node _ _ _ ks => by simp only [ET.plain, T.flat, ET.flat]; exact plainL_flat ks
theorem plainL_flat : ∀ (ks : List ET), flatL (plainL ks) = eflatL ks
  | [] => rfl
  | t :: ts => by simp only [plainL, flatL, eflatL]; rw [plain_flat t, plainL_flat ts]
end

theorem map_size_plain (ks : List ET) : (ks.map ET.plain).map T.size = ks.map ET.size := by
  induction ks with
  | nil => rfl
  | cons t ts ih => simp [plain_size]

/-- a decorated tree over a well-formed plain tree is well-formed -/
theorem ewf_of_plain (C B : Nat) : ∀ (h : Nat) (e : ET), WF C B h e.plain → EWF C B h e := by
  intro h
  induction h with
  | zero =>
    intro e w
    rw [WF] at w
    obtain ⟨d, hd, hl⟩ := w
    cases e with
    | leaf k p d' =>
      simp only [ET.plain] at hd
      injection hd with hd
      subst hd
      rw [EWF]; exact ⟨k, p, d', rfl, hl⟩
    | node k p s ks => simp [ET.plain] at hd
  | succ h ih =>
    intro e w
    rcases WF_succ_cases C B h _ w with w' | ⟨span, init, last, he, h1, h2, hinit, hlast, hpos, hle, hspan⟩
    · rw [EWF]; exact Or.inl (ih e w')
    · cases e with
      | leaf k p d => simp [ET.plain] at he
      | node k p s ks =>
        simp only [ET.plain] at he
        injection he with hs hks
        subst hs
        rw [plainL_eq_map] at hks
        obtain ⟨ini, lst, rfl, hi, hl⟩ := List.map_eq_append_iff.mp hks
        match lst, hl with
        | [], hl => simp at hl
        | [l], hl =>
          simp only [List.map_cons, List.map_nil, List.cons.injEq, and_true] at hl
          subst hi hl
          rw [EWF]
          refine Or.inr ⟨k, p, s, ini, l, rfl, by simpa using h1, by simpa using h2, ?_, ih l hlast,
            by rw [← plain_size]; exact hpos, by rw [← plain_size]; exact hle, ?_⟩
          · intro x hx
            have := hinit x.plain (List.mem_map_of_mem hx)
            exact ⟨ih x this.1, by rw [← plain_size]; exact this.2⟩
          · rw [hspan]
            simp only [List.map_append, List.map_cons, List.map_nil, map_size_plain, plain_size]
        | _ :: _ :: _, hl => simp at hl

section
variable (H : Bytes → Bytes) (addr : Bytes → Bytes → Bytes) (P R : Nat) (orc : Nat → Nat → Bytes × Bytes)
  (C B : Nat)

/-! ## decorations come from the oracle -/

mutual
/-- every `(key, padding)` of the tree is the oracle's value at some offset and the node's span -/
def ET.decBy : ET → Prop
  | .leaf k p d => ∃ o, (k, p) = orc o d.length
  | .node k p s ks => (∃ o, (k, p) = orc o s) ∧ decByL ks
def decByL : List ET → Prop
  | [] => True
  | t :: ts => t.decBy ∧ decByL ts
end

theorem decByL_of (ks : List ET) (h : ∀ k ∈ ks, k.decBy orc) : decByL orc ks := by
  induction ks with
  | nil => trivial
  | cons t ts ih => exact ⟨h t (by simp), ih (fun k hk => h k (by simp [hk]))⟩

theorem decByL_mem (ks : List ET) (h : decByL orc ks) : ∀ k ∈ ks, k.decBy orc := by
  induction ks with
  | nil => intro k hk; simp at hk
  | cons t ts ih =>
    intro k hk
    rcases List.mem_cons.mp hk with h1 | h1
    · subst h1; exact h.1
    · exact ih h.2 k h1

/-! ## the tree-valued run -/

/-- offset × decorated subtree -/
abbrev OT := Nat × ET

def OT.entry (x : OT) : EE := ⟨x.1, x.2.size, x.2.ref (erefOf H addr P R)⟩

def otOff : List OT → Nat
  | [] => 0
  | x :: _ => x.1

def wrapOT (g : List OT) : OT :=
  let s := (g.map (fun x => x.2.size)).sum
  let o := otOff g
  (o, .node (orc o s).1 (orc o s).2 s (g.map Prod.snd))

def leafOT (off : Nat) (p : Bytes) : OT := (off, .leaf (orc off p.length).1 (orc off p.length).2 p)

theorem flatMap_ref (g : List OT) :
    (g.map (OT.entry H addr P R)).flatMap EE.ref = erefsL (erefOf H addr P R) (g.map Prod.snd) := by
  induction g with
  | nil => rfl
  | cons t ts ih =>
    simp only [List.map_cons, List.flatMap_cons, erefsL, ih]
    rfl

theorem groupSpan_entry (g : List OT) :
    groupSpan (g.map (OT.entry H addr P R)) = (g.map (fun x => x.2.size)).sum := by
  simp [groupSpan, OT.entry, List.map_map, Function.comp_def]

theorem groupOff_entry (g : List OT) : groupOff (g.map (OT.entry H addr P R)) = otOff g := by
  cases g <;> rfl

theorem entry_wrapOT (g : List OT) :
    (wrapOT orc g).entry H addr P R = wrapEE H addr P R orc (g.map (OT.entry H addr P R)) := by
  simp only [wrapEE, groupSpan_entry, groupOff_entry, flatMap_ref]
  rfl

/-- the chunk stored for a wrapped group is the root chunk of the wrapped tree -/
theorem groupChunk_entry (g : List OT) :
    groupChunk H addr P R orc (g.map (OT.entry H addr P R)) =
      (wrapOT orc g).2.own (erefOf H addr P R) (echunkOf H addr P R) := by
  simp only [groupChunk, groupSpan_entry, groupOff_entry, flatMap_ref]
  rfl

theorem plain_wrapOT (g : List OT) :
    (wrapOT orc g).2.plain = wrapT (g.map (fun x => x.2.plain)) := by
  simp only [wrapOT, ET.plain, wrapT, plainL_eq_map, List.map_map, Function.comp_def, plain_size]

theorem stored_head (e : ET) :
    e.own (erefOf H addr P R) (echunkOf H addr P R) ∈ e.stored (erefOf H addr P R) (echunkOf H addr P R) := by
  cases e <;> simp [ET.stored, ET.own]

/-! ## the record-valued run is the image of the tree-valued run -/

def feedAll (u : Upload) (ps : List Bytes) : Upload := ps.foldl (feedChunk H addr P R orc B) u

theorem feedChunk_feeder (u : Upload) (f : Aurora.Feeder.State) (p : Bytes) :
    feedChunk H addr P R orc B { u with feeder := f } p = { feedChunk H addr P R orc B u p with feeder := f } := by
  unfold feedChunk
  by_cases hf : u.failed
  · simp [hf]
  · simp only [hf, Bool.false_eq_true, ↓reduceIte]
    split <;> rfl

theorem feedAll_feeder (ps : List Bytes) : ∀ (u : Upload) (f : Aurora.Feeder.State),
    feedAll H addr P R orc B { u with feeder := f } ps = { feedAll H addr P R orc B u ps with feeder := f } := by
  induction ps with
  | nil => intro u f; rfl
  | cons p t ih =>
    intro u f
    simp only [feedAll, List.foldl_cons] at ih ⊢
    rw [feedChunk_feeder, ih]

theorem feedAll_append (u : Upload) (a b : List Bytes) :
    feedAll H addr P R orc B u (a ++ b) = feedAll H addr P R orc B (feedAll H addr P R orc B u a) b := by
  simp [feedAll, List.foldl_append]

theorem writes_eq (segs : List Bytes) : ∀ (u : Upload),
    segs.foldl (fun (u : Upload) b => (u.write H addr P R orc C B b).1) u =
      { feedAll H addr P R orc B u (chunksOf C u.feeder segs) with feeder := finalF C u.feeder segs } := by
  induction segs with
  | nil => intro u; rfl
  | cons b t ih =>
    intro u
    simp only [List.foldl_cons]
    rw [ih]
    simp only [Upload.write, chunksOf, finalF]
    have h := feedAll_feeder H addr P R orc B (Aurora.Feeder.write C u.feeder b).2.1 u (Aurora.Feeder.write C u.feeder b).1
    simp only [feedAll] at h
    simp only [h, feedAll_append]
    have h2 := feedAll_feeder H addr P R orc B (chunksOf C (Aurora.Feeder.write C u.feeder b).1 t)
      (List.foldl (feedChunk H addr P R orc B) u (Aurora.Feeder.write C u.feeder b).2.1) (Aurora.Feeder.write C u.feeder b).1
    rw [h2]
    rfl

/-- what is known about a subtree held in a level: its encrypted chunks were `Put`, its
    decorations are oracle values -/
def Good (puts : List (Bytes × Bytes)) (x : OT) : Prop :=
  (∀ c ∈ x.2.stored (erefOf H addr P R) (echunkOf H addr P R), c ∈ puts) ∧ x.2.decBy orc

/-- the relation between the record-valued writer state and the tree-valued run -/
def Rel (u : Upload) (lvT : List (List OT)) : Prop :=
  u.trie.levels = lvT.map (List.map (OT.entry H addr P R)) ∧
  ∀ l ∈ lvT, ∀ x ∈ l, Good H addr P R orc u.puts x

theorem good_mono (p1 p2 : List (Bytes × Bytes)) (hsub : ∀ c ∈ p1, c ∈ p2) (x : OT)
    (h : Good H addr P R orc p1 x) : Good H addr P R orc p2 x :=
  ⟨fun c hc => hsub c (h.1 c hc), h.2⟩

theorem estoredL_mem (puts : List (Bytes × Bytes)) (ks : List ET)
    (hg : ∀ k ∈ ks, ∀ c ∈ k.stored (erefOf H addr P R) (echunkOf H addr P R), c ∈ puts) :
    ∀ c ∈ estoredL (erefOf H addr P R) (echunkOf H addr P R) ks, c ∈ puts := by
  induction ks with
  | nil => intro c hc; simp [estoredL] at hc
  | cons t ts ih =>
    intro c hc
    rw [estoredL] at hc
    rcases List.mem_append.mp hc with h1 | h1
    · exact hg t (by simp) c h1
    · exact ih (fun k hk => hg k (by simp [hk])) c h1

theorem wrapOT_good (g : List OT) (puts : List (Bytes × Bytes)) (hg : ∀ x ∈ g, Good H addr P R orc puts x)
    (hown : (wrapOT orc g).2.own (erefOf H addr P R) (echunkOf H addr P R) ∈ puts) :
    Good H addr P R orc puts (wrapOT orc g) := by
  constructor
  · intro c hc
    simp only [wrapOT, ET.stored] at hc
    rcases List.mem_cons.mp hc with h | h
    · rw [h]; exact hown
    · refine estoredL_mem H addr P R puts _ ?_ c h
      intro k hk
      obtain ⟨x, hx, rfl⟩ := List.mem_map.mp hk
      exact (hg x hx).1
  · simp only [wrapOT, ET.decBy]
    refine ⟨⟨_, rfl⟩, decByL_of orc _ ?_⟩
    intro k hk
    obtain ⟨x, hx, rfl⟩ := List.mem_map.mp hk
    exact (hg x hx).2

theorem feedChunk_failed (u : Upload) (p : Bytes) (h : u.failed = true) :
    (feedChunk H addr P R orc B u p).failed = true := by
  unfold feedChunk; simp [h]

/-- one data chunk: the related tree-valued step is `push` of the decorated leaf at offset `u.fed` -/
theorem feedChunk_rel (u : Upload) (lvT : List (List OT)) (p : Bytes) (hr : Rel H addr P R orc u lvT)
    (hu : u.failed = false) (hfull : u.trie.full = false)
    (hflag : (push (wrapOT orc) B lvT (leafOT orc u.fed p)).2.1 = false) :
    (feedChunk H addr P R orc B u p).failed = false ∧ (feedChunk H addr P R orc B u p).trie.full = false ∧
    (feedChunk H addr P R orc B u p).fed = u.fed + p.length ∧
    Rel H addr P R orc (feedChunk H addr P R orc B u p) (push (wrapOT orc) B lvT (leafOT orc u.fed p)).1 := by
  unfold feedChunk
  simp only [hu, Bool.false_eq_true, ↓reduceIte]
  unfold chainWrite
  simp only [hfull, Bool.false_eq_true, ↓reduceIte, Bool.false_or]
  have hleaf : (⟨u.fed, p.length, erefOf H addr P R (orc u.fed p.length).1 (orc u.fed p.length).2 (le64 p.length) p⟩ : EE)
      = (leafOT orc u.fed p).entry H addr P R := rfl
  have hpm := push_map (wrapOT orc) (wrapEE H addr P R orc) B (OT.entry H addr P R) (entry_wrapOT H addr P R orc)
    lvT (leafOT orc u.fed p)
  rw [hr.1, hleaf, hpm]
  simp only [hflag]
  refine ⟨by trivial, by trivial, by trivial, rfl, ?_⟩
  apply push_P (wrapOT orc) B
    (Good H addr P R orc ((u.puts ++ [echunkOf H addr P R (orc u.fed p.length).1 (orc u.fed p.length).2 (le64 p.length) p]) ++
      ((push (wrapOT orc) B lvT (leafOT orc u.fed p)).2.2.map (List.map (OT.entry H addr P R))).map (groupChunk H addr P R orc)))
    (fun g => (wrapOT orc g).2.own (erefOf H addr P R) (echunkOf H addr P R) ∈
      (u.puts ++ [echunkOf H addr P R (orc u.fed p.length).1 (orc u.fed p.length).2 (le64 p.length) p]) ++
      ((push (wrapOT orc) B lvT (leafOT orc u.fed p)).2.2.map (List.map (OT.entry H addr P R))).map (groupChunk H addr P R orc))
    (fun g hg hq => wrapOT_good H addr P R orc g _ hg hq)
  · intro l hl x hx
    exact good_mono H addr P R orc _ _ (fun c hc => List.mem_append_left _ (List.mem_append_left _ hc)) x (hr.2 l hl x hx)
  · constructor
    · intro c hc
      simp only [leafOT, ET.stored, List.mem_singleton] at hc
      subst hc
      exact List.mem_append_left _ (List.mem_append_right _ (by simp))
    · simp only [leafOT, ET.decBy]; exact ⟨_, rfl⟩
  · intro g hg
    apply List.mem_append_right
    rw [← groupChunk_entry]
    exact List.mem_map_of_mem (List.mem_map_of_mem hg)

/-- the decorated leaves of the data chunks `ps`, the first one at offset `off` -/
def leavesAt : Nat → List Bytes → List OT
  | _, [] => []
  | off, p :: t => leafOT orc off p :: leavesAt (off + p.length) t

theorem leavesAt_length (ps : List Bytes) : ∀ off, (leavesAt orc off ps).length = ps.length := by
  induction ps with
  | nil => intro off; rfl
  | cons p t ih => intro off; simp [leavesAt, ih]

theorem leavesAt_plain (ps : List Bytes) : ∀ off,
    (leavesAt orc off ps).map (fun x => x.2.plain) = ps.map T.leaf := by
  induction ps with
  | nil => intro off; rfl
  | cons p t ih => intro off; simp [leavesAt, ih, leafOT, ET.plain]

/-- feeding data chunks below the level limit: no failure, and the state is related to the closed
    form of the tree-valued run on the decorated leaves -/
theorem feedAll_rel (hB : 0 < B) (ps : List Bytes) : ∀ (u : Upload) (done : List OT),
    u.failed = false → u.trie.full = false → Rel H addr P R orc u (state (wrapOT orc) B 8 done) →
    done.length + ps.length < B ^ 7 →
    (feedAll H addr P R orc B u ps).failed = false ∧
    Rel H addr P R orc (feedAll H addr P R orc B u ps) (state (wrapOT orc) B 8 (done ++ leavesAt orc u.fed ps)) := by
  induction ps with
  | nil => intro u done h1 _ h3 _; simpa [feedAll, leavesAt] using ⟨h1, h3⟩
  | cons p t ih =>
    intro u done h1 h2 h3 hlen
    simp only [feedAll, List.foldl_cons]
    have hflag := push_flag (wrapOT orc) B hB 7 done (leafOT orc u.fed p) (by simp at hlen; omega)
    obtain ⟨s1, s2, s3, s4⟩ := feedChunk_rel H addr P R orc B u _ p h3 h1 h2 hflag
    rw [push_state (wrapOT orc) B hB 8] at s4
    have := ih (feedChunk H addr P R orc B u p) (done ++ [leafOT orc u.fed p]) s1 s2 s4 (by simp at hlen ⊢; omega)
    rw [s3] at this
    simpa [feedAll, leavesAt, List.append_assoc] using this

/-- `Sum` on related states -/
theorem sum_rel (u : Upload) (lvT : List (List OT)) (hr : Rel H addr P R orc u lvT) (e : EE) (gs : List (List EE))
    (hs : trieSum (wrapEE H addr P R orc) B u.trie = .ok (e, gs)) :
    ∃ t, (sumUp (wrapOT orc) B lvT).1 = some t ∧ e = t.entry H addr P R ∧
      Good H addr P R orc (u.puts ++ gs.map (groupChunk H addr P R orc)) t := by
  unfold trieSum at hs
  rw [hr.1, sumUp_map (wrapOT orc) (wrapEE H addr P R orc) B (OT.entry H addr P R) (entry_wrapOT H addr P R orc) _ lvT rfl] at hs
  cases hT : (sumUp (wrapOT orc) B lvT).1 with
  | none => simp [hT] at hs
  | some t =>
    simp only [hT, Option.map_some] at hs
    injection hs with hs
    injection hs with he hg
    refine ⟨t, rfl, he.symm, ?_⟩
    apply sumUp_P (wrapOT orc) B
      (Good H addr P R orc (u.puts ++ gs.map (groupChunk H addr P R orc)))
      (fun g => (wrapOT orc g).2.own (erefOf H addr P R) (echunkOf H addr P R) ∈ u.puts ++ gs.map (groupChunk H addr P R orc))
      (fun g hg hq => wrapOT_good H addr P R orc g _ hg hq) _ lvT rfl
    · intro l hl x hx
      exact good_mono H addr P R orc _ _ (fun c hc => List.mem_append_left _ hc) x (hr.2 l hl x hx)
    · intro g hgm
      apply List.mem_append_right
      rw [← groupChunk_entry, ← hg]
      exact List.mem_map_of_mem (List.mem_map_of_mem hgm)
    · exact hT

/-- the result of `Sum()` and the final Put log only depend on what the trie holds after the flush -/
def sumOf (u : Upload) : Option Bytes :=
  if u.failed then none else
  match trieSum (wrapEE H addr P R orc) B u.trie with
  | .error _ => none
  | .ok (e, _) => some e.ref

def putsOf (u : Upload) : List (Bytes × Bytes) :=
  if u.failed then u.puts else
  match trieSum (wrapEE H addr P R orc) B u.trie with
  | .error _ => u.puts
  | .ok (_, gs) => u.puts ++ gs.map (groupChunk H addr P R orc)

theorem sum_snd (u : Upload) :
    (u.sum H addr P R orc B).2 = sumOf H addr P R orc B (feedAll H addr P R orc B u (Aurora.Feeder.sum u.feeder).2) := by
  unfold Upload.sum sumOf
  have h := feedAll_feeder H addr P R orc B (Aurora.Feeder.sum u.feeder).2 u (Aurora.Feeder.sum u.feeder).1
  simp only [feedAll] at h ⊢
  rw [h]
  simp only []
  by_cases hf : (List.foldl (feedChunk H addr P R orc B) u (Aurora.Feeder.sum u.feeder).2).failed
  · simp [hf]
  · simp only [hf, Bool.false_eq_true, ↓reduceIte]
    split <;> simp_all

theorem sum_fst_puts (u : Upload) :
    (u.sum H addr P R orc B).1.puts = putsOf H addr P R orc B (feedAll H addr P R orc B u (Aurora.Feeder.sum u.feeder).2) := by
  unfold Upload.sum putsOf
  have h := feedAll_feeder H addr P R orc B (Aurora.Feeder.sum u.feeder).2 u (Aurora.Feeder.sum u.feeder).1
  simp only [feedAll] at h ⊢
  rw [h]
  simp only []
  by_cases hf : (List.foldl (feedChunk H addr P R orc B) u (Aurora.Feeder.sum u.feeder).2).failed
  · simp [hf]
  · simp only [hf, Bool.false_eq_true, ↓reduceIte]
    split <;> simp_all

/-- **The encrypted upload builds a decorated tree over `specTree data`, stores all its encrypted
    chunks and returns its reference**, for every segmentation and every oracle. -/
theorem enc_upload_tree (hC : 0 < C) (hB : 2 ≤ B) (segs : List Bytes)
    (hlim : (leafData C segs.flatten).length < B ^ 7) :
    ∃ (e : ET) (t : T), specTree C B segs.flatten = some t ∧ e.plain = t ∧
      (upload H addr P R orc C B segs).2 = some (e.ref (erefOf H addr P R)) ∧
      (∀ c ∈ e.stored (erefOf H addr P R) (echunkOf H addr P R), c ∈ (upload H addr P R orc C B segs).1.puts) ∧
      e.decBy orc := by
  have hB0 : 0 < B := by omega
  have hfeed := Aurora.Feeder.feeder_chunks C hC segs
  rw [runWrites_eq] at hfeed
  simp only [List.nil_append] at hfeed
  have hputs : (upload H addr P R orc C B segs).1.puts =
      putsOf H addr P R orc B (feedAll H addr P R orc B {} (leafData C segs.flatten)) := by
    unfold upload
    rw [writes_eq, sum_fst_puts, feedAll_feeder]
    show putsOf H addr P R orc B (feedAll H addr P R orc B _ _) = _
    rw [← feedAll_append, hfeed]
  have hres : (upload H addr P R orc C B segs).2 =
      sumOf H addr P R orc B (feedAll H addr P R orc B {} (leafData C segs.flatten)) := by
    unfold upload
    rw [writes_eq, sum_snd, feedAll_feeder]
    show sumOf H addr P R orc B (feedAll H addr P R orc B _ _) = _
    rw [← feedAll_append, hfeed]
  have hrel0 : Rel H addr P R orc ({} : Upload) (state (wrapOT orc) B 8 []) := by
    refine ⟨by simp [State.new, maxLevel, state_nil B hB0], ?_⟩
    intro l hl x hx
    rw [state_nil B hB0] at hl
    have : l = [] := List.eq_of_mem_replicate hl
    subst this; simp at hx
  obtain ⟨hf, hrel⟩ := feedAll_rel H addr P R orc B hB0 (leafData C segs.flatten) {} [] rfl rfl hrel0
    (by simpa using hlim)
  simp only [List.nil_append] at hrel
  generalize hts : leavesAt orc 0 (leafData C segs.flatten) = ts at hrel
  have hlents : ts.length = (leafData C segs.flatten).length := by rw [← hts, leavesAt_length]
  have hne : ts ≠ [] := by
    intro h; rw [h] at hlents
    exact leafData_ne_nil C segs.flatten (List.eq_nil_of_length_eq_zero hlents.symm)
  have hlen : ts.length < B ^ 7 := by rw [hlents]; exact hlim
  obtain ⟨r, hr⟩ := rootG_enough (wrapOT orc) B hB ts.length ts (Nat.le_refl _) hne
  have hr' := rootG_stable (wrapOT orc) B _ _ _ hr (max 7 ts.length) (by omega)
  have hsum := sumUp_root (wrapOT orc) B hB 7 ts [] (max 7 ts.length) (by simp) (by simpa using hne)
    (by simp; omega) (by omega)
  simp only [List.append_nil] at hsum
  have hstate : state (wrapOT orc) B 8 ts = rem B ts :: state (wrapOT orc) B 7 (fullWraps (wrapOT orc) B ts) := rfl
  rw [← hstate, hr'] at hsum
  -- the plain image is the specification tree
  have hspec : specTree C B segs.flatten = some r.2.plain := by
    unfold specTree
    have hm := rootG_map (wrapOT orc) wrapT B (fun x : OT => x.2.plain) (plain_wrapOT orc) hB0 ts.length ts
    rw [hr] at hm
    have hp : ts.map (fun x : OT => x.2.plain) = (leafData C segs.flatten).map T.leaf := by
      rw [← hts, leavesAt_plain]
    rw [hp] at hm
    simp only [List.length_map]
    rw [← hlents, hm]; rfl
  generalize hV : feedAll H addr P R orc B {} (leafData C segs.flatten) = V at *
  unfold sumOf at hres
  unfold putsOf at hputs
  simp only [hf, Bool.false_eq_true, ↓reduceIte] at hres hputs
  cases hs : trieSum (wrapEE H addr P R orc) B V.trie with
  | error e =>
    exfalso
    unfold trieSum at hs
    rw [hrel.1, sumUp_map (wrapOT orc) (wrapEE H addr P R orc) B (OT.entry H addr P R) (entry_wrapOT H addr P R orc) _ _ rfl, hsum] at hs
    simp at hs
  | ok q =>
    obtain ⟨e, gs⟩ := q
    simp only [hs] at hres hputs
    obtain ⟨t', ht1, he, hgood⟩ := sum_rel H addr P R orc B V _ hrel e gs hs
    rw [hsum] at ht1
    injection ht1 with ht1
    subst ht1
    refine ⟨r.2, r.2.plain, hspec, rfl, ?_, ?_, hgood.2⟩
    · rw [hres, he]; rfl
    · rw [hputs]; exact hgood.1

end

end Aurora.EncUpload
