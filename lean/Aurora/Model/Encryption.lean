import Aurora.Model.Bmt
/-!
Model of `/repo/pkg/encryption/{encryption.go,chunk_encryption.go}`.

Counter-mode keystream: segment `i` of an `Encryption` with key `key` and initial counter
`initCtr` is XOR-ed with `H(H(key ‖ le32(uint32(i) + initCtr)))` (`Transcrypt`), segments are
`len(key)` bytes long, the running segment index `index` persists across calls until `Reset`.
With `padding > 0`, `Encrypt` pads the output with `crypto/rand` bytes up to `padding`; the
padding is an *oracle list* (`pad`) whose length the model checks.  Generic in the hash `H`
(`sha3.NewLegacyKeccak256` in the repository).

Go panics if a segment is longer than the digest (`segmentKey[j]`, only when `len(key) > 32`) and
never terminates for an empty key with non-empty input; both are guarded in the driver
(`Driver/C08.lean`) and excluded by the premises of the theorems (`0 < key.length ≤ |H x|`).
-/
namespace Aurora.Encryption
open Aurora.Bmt

/-- `binary.LittleEndian.PutUint32` of `n mod 2^32` -/
def le32 (n : Nat) : Bytes := (List.range 4).map (fun i => UInt8.ofNat (n % 2 ^ 32 / 256 ^ i % 256))

def xorBytes (a b : Bytes) : Bytes := List.zipWith (· ^^^ ·) a b

/-- the key of segment `i`: `H(H(key ‖ le32(uint32(i) + initCtr)))` -/
def segmentKey (H : Bytes → Bytes) (key : Bytes) (initCtr i : Nat) : Bytes :=
  H (H (key ++ le32 (i + initCtr)))

structure Enc where
  key : Bytes
  padding : Nat
  index : Nat := 0
  initCtr : Nat
deriving Repr

inductive Err | tooLong | wrongLength | badOracle
deriving Repr, DecidableEq

/-- XOR consecutive `w`-byte segments (the last may be shorter) with the keystream starting at
    segment index `idx`; `n` bounds the number of segments. -/
def xorSegs (H : Bytes → Bytes) (key : Bytes) (initCtr w : Nat) : Nat → Nat → Bytes → Bytes
  | 0, _, _ => []
  | n + 1, idx, l =>
    xorBytes (l.take w) (segmentKey H key initCtr idx) ++ xorSegs H key initCtr w n (idx + 1) (l.drop w)

/-- number of `w`-byte segments of `n` bytes -/
def nsegs (w n : Nat) : Nat := (n + w - 1) / w

/-- `transform(in, out[:len(in)])` -/
def Enc.transform (H : Bytes → Bytes) (e : Enc) (inp : Bytes) : Bytes × Enc :=
  let w := e.key.length
  let n := nsegs w inp.length
  (xorSegs H e.key e.initCtr w n e.index inp, { e with index := e.index + n })

/-- `Encrypt(data)`; `pad` are the random bytes `pad(out[len(data):])` produced. -/
def Enc.encrypt (H : Bytes → Bytes) (e : Enc) (data pad : Bytes) : Except Err (Bytes × Enc) :=
  if e.padding > 0 ∧ data.length > e.padding then .error .tooLong
  else
    let outLength := if e.padding > 0 then e.padding else data.length
    if pad.length ≠ outLength - data.length then .error .badOracle
    else
      let (o, e') := e.transform H data
      .ok (o ++ pad, e')

/-- `Decrypt(data)` -/
def Enc.decrypt (H : Bytes → Bytes) (e : Enc) (data : Bytes) : Except Err (Bytes × Enc) :=
  if e.padding > 0 ∧ data.length ≠ e.padding then .error .wrongLength
  else .ok (e.transform H data)

/-- `Reset()` -/
def Enc.reset (e : Enc) : Enc := { e with index := 0 }

/-- `newSpanEncryption(key)`: no padding, counter `ChunkSize / refSize` -/
def spanEnc (C R : Nat) (key : Bytes) : Enc := { key := key, padding := 0, initCtr := C / R }
/-- `newDataEncryption(key)`: padding `ChunkSize`, counter 0 -/
def dataEnc (C : Nat) (key : Bytes) : Enc := { key := key, padding := C, initCtr := 0 }

/-- `EncryptChunk(chunkData)` with the random key and padding it drew: `(encryptedSpan, encryptedData)`.
    (`chunkData[:8]` panics below 8 bytes — guarded in the driver.) -/
def encryptChunk (H : Bytes → Bytes) (C R : Nat) (key pad : Bytes) (chunkData : Bytes) : Except Err (Bytes × Bytes) :=
  match (spanEnc C R key).encrypt H (chunkData.take 8) [] with
  | .error e => .error e
  | .ok (es, _) =>
    match (dataEnc C key).encrypt H (chunkData.drop 8) pad with
    | .error e => .error e
    | .ok (ed, _) => .ok (es, ed)

end Aurora.Encryption
