import Aurora.Lemmas.Localstore
import Aurora.Lemmas.LocalstoreAcct
/-!
C13 — Cache accounting keeps garbage collection bounded.

`Inv s := s.db.gcSize = Σ GCounter` (outside a collection run).  The unchanged code does NOT keep
this invariant for every operation: each failing trigger has its own `_counterexample` theorem
(a concrete reachable history, replayed on the real code by the harness' `fix-…` cases and reported
under its own oracle clause / known-findings line), and the invariant is proved `_partial` under
explicit decidable guards that exclude exactly those triggers.
-/
namespace Aurora.Localstore

/-- the accounting invariant: the persisted counter equals the recomputed total -/
def Inv (s : State) : Prop := s.db.gcSize = gcSum s.db.gc

instance (s : State) : Decidable (Inv s) := by unfold Inv; infer_instance

/-- the full statement of the invariant clause (false on the unchanged code, see the counterexamples) -/
def C13_inv_step_full : Prop :=
  ∀ (po : Addr → Nat) (s : State) (op : Op), Reachable po s → s.gcRunning = false → Inv s →
    (step po s op).gcRunning = false → Inv (step po s op)

/-- the full statement of the reopen clause -/
def C13_inv_reopen_full : Prop :=
  ∀ (s : State), s.gcRunning = false → Inv (reopen s).st

/-- the full statement of the boundedness clause -/
def C13_bounded_full : Prop :=
  ∀ (po : Addr → Nat) (s : State) (pyr : Addr → Option (List (Addr × Nat))) (n : Nat) (v : List Addr),
    Reachable po s → s.runTarget = gcTarget s.capacity → (gcEvict s pyr).out = .gcDone n true v →
    gcSum (gcEvict s pyr).st.db.gc ≤ s.capacity

/-! ## what holds -/

/-- `inv_init`: a fresh store satisfies the invariant. -/
theorem C13_inv_init (cap : Nat) : Inv (init cap) := by rfl

/-- reopening never touches the gc index … -/
theorem C13_reopen_gc (s : State) (h : s.gcRunning = false) : (reopen s).st.db.gc = s.db.gc := by
  unfold reopen openDb openWrites
  simp only [h]
  by_cases h1 : s.db.schema <;> by_cases h2 : s.db.gcSize < gcSum s.db.gc % two64 <;>
    simp [h1, h2, applyLog, applyDW, applyW]

/-- … and sets the counter to `max(gcSize, Σ mod 2^64)`: the startup repair only raises. -/
theorem C13_reopen_gcSize (s : State) (h : s.gcRunning = false) :
    (reopen s).st.db.gcSize = max s.db.gcSize (gcSum s.db.gc % two64) := by
  unfold reopen openDb openWrites
  simp only [h]
  by_cases h1 : s.db.schema <;> by_cases h2 : s.db.gcSize < gcSum s.db.gc % two64 <;>
    simp [h1, h2, applyLog, applyDW, applyW] <;> omega

/-- `inv_reopen` (partial): `reopen` yields exactly the recomputed total whenever the persisted
counter did not exceed it (missing for the full clause: an over-count is never repaired, see
`C13_inv_reopen_counterexample`) and the total fits a uint64. -/
theorem C13_inv_reopen_partial (s : State) (h : s.gcRunning = false)
    (hfit : gcSum s.db.gc < two64) (hle : s.db.gcSize ≤ gcSum s.db.gc) : Inv (reopen s).st := by
  unfold Inv
  rw [C13_reopen_gc s h, C13_reopen_gcSize s h, Nat.mod_eq_of_lt hfit]
  omega

example : ∃ s : State, s.gcRunning = false ∧ gcSum s.db.gc < two64 ∧ s.db.gcSize ≤ gcSum s.db.gc ∧ ¬ Inv s :=
  ⟨{ db := { gc := [(⟨1, 1, 1⟩, 3)], gcSize := 1 } }, by decide⟩

/-- the reopened counter is never below the recomputed total (the "at least" of C14). -/
theorem C13_reopen_ge (s : State) (h : s.gcRunning = false) (hfit : gcSum s.db.gc < two64) :
    gcSum (reopen s).st.db.gc ≤ (reopen s).st.db.gcSize := by
  rw [C13_reopen_gc s h, C13_reopen_gcSize s h, Nat.mod_eq_of_lt hfit]
  omega

theorem applyLog_gcSizePut_last (db : Db) (l : List DW) (b : List Write) (n : Nat) :
    (applyLog db (l ++ [DW.batch (b ++ [Write.gcSizePut n])])).gcSize = n := by
  rw [applyLog_append]
  simp [applyDW, applyBatch_append, applyW]

/-- `bounded_after_quiescence`, counter part (full): a collection run that reports `done` leaves
`gcSize ≤ gcTarget capacity ≤ capacity`, for every state, pyramid script and racing history (`ht`: the
capacity was not changed while the run was in progress — `gcSelect` stores `gcTarget capacity`). -/
theorem C13_bounded_gcSize (s : State) (pyr : Addr → Option (List (Addr × Nat))) (n : Nat) (v : List Addr)
    (h : (gcEvict s pyr).out = .gcDone n true v) (ht : s.runTarget = gcTarget s.capacity) :
    (gcEvict s pyr).st.db.gcSize ≤ gcTarget s.capacity ∧ gcTarget s.capacity ≤ s.capacity := by
  refine ⟨?_, by unfold gcTarget; omega⟩
  rw [← ht]
  unfold gcEvict at h ⊢
  by_cases hr : s.gcRunning
  · simp only [hr, Bool.not_true, Bool.false_eq_true, if_false] at h ⊢
    simp only [Tx.inBatch] at h ⊢
    rw [applyLog_gcSizePut_last]
    simp at h
    simp only [List.isEmpty_iff]
    omega
  · simp [hr] at h

/-- `bounded_after_quiescence` (partial): if the run re-establishes the invariant, the recorded
total Σ GCounter is within the capacity.  Missing for the full clause: the runs that break the
invariant (`C13_bounded_counterexample`). -/
theorem C13_bounded_after_quiescence_partial (s : State) (pyr : Addr → Option (List (Addr × Nat)))
    (n : Nat) (v : List Addr) (h : (gcEvict s pyr).out = .gcDone n true v) (ht : s.runTarget = gcTarget s.capacity)
    (hinv : Inv (gcEvict s pyr).st) : gcSum (gcEvict s pyr).st.db.gc ≤ s.capacity := by
  have := C13_bounded_gcSize s pyr n v h ht
  unfold Inv at hinv
  omega

/-! ## concrete histories (all addresses are small numbers; `po = 0` everywhere) -/

def po0 : Addr → Nat := fun _ => 0
def runOps (s : State) (ops : List Op) : State := ops.foldl (step po0) s
def s0 : State := init 1000000

theorem reachable_runOps (ops : List Op) (s : State) (h : Reachable po0 s) : Reachable po0 (runOps s ops) := by
  induction ops generalizing s with
  | nil => exact h
  | cons op ops ih => exact ih _ (Reachable.step op h)

/-- file with root 1 and chunk 2 cached one at a time: the invariant holds (non-vacuity of the guards) -/
def sFile : State := runOps s0 [.put .request (some 1) [(1, [])], .put .request (some 1) [(2, [])]]
example : Inv sFile ∧ sFile.db.gcSize = 2 := by decide

/-! ## counterexamples: one per trigger -/

/-- trigger `inv-batched-call-root`: a request put of two new chunks in ONE call under a root context
(each `setGC` reads `GCounter` from the database, not from the batch). -/
theorem C13_inv_step_batched_counterexample :
    Inv sFile ∧ ¬ Inv (step po0 sFile (.put .request (some 1) [(3, []), (4, [])])) := by decide

/-- trigger `inv-pin-no-gc-entry`: pins of a file with a repeated chunk — the third `setPin` under
root 1 finds no gc entry for the root but still subtracts 1 (another file keeps gcSize > 0). -/
theorem C13_inv_step_pin_repeated_counterexample :
    let s := runOps sFile [.put .request (some 5) [(5, [])], .set .pin (some 1) [1], .set .pin (some 1) [2]]
    Inv s ∧ ¬ Inv (step po0 s (.set .pin (some 1) [2])) := by decide

/-- trigger `inv-uppin-discards-change`: `ModePutUploadPin` under a root context lowers the root's
gc entry but drops the `gcSizeChange` returned by `setPin`. -/
theorem C13_inv_step_uppin_counterexample :
    Inv sFile ∧ ¬ Inv (step po0 sFile (.put .uploadPin (some 1) [(3, [])])) := by decide

/-- trigger `inv-sync-zero-counter`: `ModeSetSync` writes a gc entry with `GCounter = 0` and adds 1 to gcSize. -/
theorem C13_inv_step_sync_counterexample :
    let s := runOps s0 [.put .upload none [(1, [])]]
    Inv s ∧ ¬ Inv (step po0 s (.set .sync none [1])) := by decide

/-- trigger `inv-silent-skip`: with `gcSize` already below Σ (after an earlier defect) a decrement larger
than `gcSize` is silently skipped, so `gcSize − Σ` changes again. -/
theorem C13_silent_skip_counterexample :
    let s := runOps sFile [.put .request (some 5) [(5, [])], .set .pin (some 1) [1], .set .pin (some 1) [2],
                           .set .pin (some 1) [2]]
    let s' := step po0 s (.set .remove (some 5) [5])
    s.db.gcSize = 0 ∧ gcSum s.db.gc = 1 ∧ s'.db.gcSize = 0 ∧ gcSum s'.db.gc = 0 := by decide

/-- trigger `inv-failed-batch-keeps-direct-write`: a multi-address pin that fails on its second address
keeps the direct `gcIndex.Put` done for the first one, and drops the batch with the gcSize update. -/
theorem C13_inv_step_failed_batch_counterexample :
    Inv sFile ∧ (run po0 sFile (.set .pin (some 1) [1, 7])).out = .err .notFound ∧
    ¬ Inv (step po0 sFile (.set .pin (some 1) [1, 7])) := by decide

/-- the pyramid script used below: file 1 consists of root 1 and chunk 2 -/
def pyrTrue : List (Addr × Option (List (Addr × Nat))) := [(1, some [(2, 1)]), (5, some [])]

/-- a faithful collection run keeps the invariant (non-vacuity) … -/
example :
    let s := runOps sFile [.put .request (some 5) [(5, [])], .setCapacity 2, .gcSelect]
    Inv s ∧ Inv (step po0 s (.gcEvict pyrTrue)) ∧ (step po0 s (.gcEvict pyrTrue)).db.gcSize = 1 := by decide

/-- trigger `inv-gc-nothing-recycled-forces-zero`: every candidate is dirty (accessed between
selection and eviction) — nothing is recycled, yet `gcSize` is forced to 0 while the entries stay. -/
theorem C13_inv_gc_all_dirty_counterexample :
    let s := runOps sFile [.put .request (some 5) [(5, [])], .setCapacity 2, .gcSelect,
                           .get .request (some 1) 2, .get .request (some 5) 5]
    Inv s ∧ ¬ Inv (step po0 s (.gcEvict pyrTrue)) ∧ (step po0 s (.gcEvict pyrTrue)).db.gcSize = 0 := by decide

/-- trigger `inv-gc-pyramid-count-mismatch`: chunkinfo leaves a shared chunk out of the pyramid; the
evicted count is smaller than the recycled entry's `GCounter`. -/
theorem C13_inv_gc_shared_chunk_counterexample :
    let s := runOps sFile [.put .request (some 1) [(3, [])], .setCapacity 2, .gcSelect]
    Inv s ∧ ¬ Inv (step po0 s (.gcEvict pyrTrue)) := by decide

/-- `¬ C13_inv_step_full`, from the batched-put witness. -/
theorem C13_inv_step_counterexample : ¬ C13_inv_step_full := by
  intro h
  have hr : Reachable po0 sFile := reachable_runOps _ _ (Reachable.init _)
  exact C13_inv_step_batched_counterexample.2
    (h po0 sFile (.put .request (some 1) [(3, []), (4, [])]) hr (by decide)
      C13_inv_step_batched_counterexample.1 (by decide))

/-- trigger `reopen-keeps-overcount`: the startup repair only raises, an over-count survives reopening. -/
theorem C13_inv_reopen_counterexample : ¬ C13_inv_reopen_full := by
  intro h
  exact absurd (h { db := { gcSize := 1 } } rfl) (by decide)

/-- the over-count of the previous theorem is reachable (shared-chunk eviction), it is not an artefact. -/
theorem C13_overcount_reachable :
    let s := runOps sFile [.put .request (some 1) [(3, [])], .setCapacity 2, .gcSelect, .gcEvict pyrTrue]
    s.gcRunning = false ∧ gcSum s.db.gc < s.db.gcSize ∧ ¬ Inv (reopen s).st := by decide

/-- trigger `bounded-sum-forced-zero`: after the all-dirty run `done = true` is reported although
Σ GCounter = 3 exceeds the capacity 2. -/
theorem C13_bounded_counterexample : ¬ C13_bounded_full := by
  intro h
  have hr : Reachable po0 (runOps sFile [.put .request (some 5) [(5, [])], .setCapacity 2, .gcSelect,
      .get .request (some 1) 2, .get .request (some 5) 5]) := reachable_runOps _ _ (reachable_runOps _ _ (Reachable.init _))
  have := h po0 _ (pyrFun pyrTrue) 3 [1] hr (by decide) (by decide)
  revert this
  decide

/-! ## `inv_step` outside the triggers

`C13_guard s op` (= `guardOp`, `Lemmas/LocalstoreAcct.lean`) is a decidable predicate on (state, op).  It is
`true` for every lookup, `gcSelect`, `reopen`, capacity/clock change, every `Put` in the upload mode and every
call with an invalid mode, and otherwise reads:

* `Put`/`Set` — **either** every per-address step of the call is invisible to the accounting (`putQuiet` /
  `setQuiet`; then any number of addresses is allowed): no root context for `ModePutRequest`/`ModeSetUnpin`; for the
  pinning calls `ModePutRequestPin`/`ModeSetPin` the root has no access entry or is not stored (`rootQuiet`; the
  call then fails before writing); for `ModeSetRemove` additionally "the root's key has no gc entry"
  (`removeQuiet`); for `ModePutUploadPin` `rootQuiet` or "no gc entry" (the discarded change is then harmless);
  `ModeSetSync` only on addresses that are not stored;
  **or** the call carries at most ONE address, `gcSize + 1 < 2^64`, and (`putOne`/`setOne`) the mode is
  `ModePutRequest`, `ModeSetUnpin`, or a pin/remove whose root's gc entry exists with `GCounter ≥ 1` (`rootOne`).
  Excluded thereby, and only these: several addresses under an active root context (`inv-batched-call-root`,
  `inv-failed-batch-keeps-direct-write`), `setPin` under a root without gc entry (`inv-pin-no-gc-entry`),
  `ModePutUploadPin` under a root with a gc entry (`inv-uppin-discards-change`), `ModeSetSync` of a stored chunk and
  any pin/remove over a `GCounter = 0` entry it left (`inv-sync-zero-counter`, `inv-gc-zero-counter-entry`).
  `inv-silent-skip` needs a state that already violates `Inv` (premise `Inv s` excludes it: under `Inv` and the
  guard a decrement never exceeds `gcSize` — that is part of the proof).
* `Get`/`GetMulti` in request mode — `rekeyOk`: re-keying the root's entry to `(now, bin, root)` does not land on
  another existing entry (`C13_inv_step_rekey_counterexample`; such a stale entry exists only after
  `inv-batched-call-root` with an advancing clock, and `now` must step back onto its timestamp).
* `gcEvict` — `evictFaithful`: not inside a run, or something was recycled and the number of chunks the run
  deleted (+1 per recycled root) equals Σ GCounter of the recycled entries (excludes
  `inv-gc-nothing-recycled-forces-zero` and `inv-gc-pyramid-count-mismatch`). -/

/-- the guard of `C13_inv_step_partial` -/
def C13_guard (s : State) (op : Op) : Bool := guardOp s op

theorem C13_inv_iff (s : State) : Inv s ↔ InvDb s.db := Iff.rfl

/-- `inv_step` (partial — guard `C13_guard`, which excludes exactly the documented triggers): every
operation, in every state whose gc index has unique keys (all reachable states, `C13_reachable_gcWF`),
inside or outside a collection run, keeps `gcSize = Σ GCounter`.  Missing for the full clause: the
trigger shapes, each refuted by its `_counterexample` theorem. -/
theorem C13_inv_step_partial (po : Addr → Nat) (s : State) (op : Op) (hw : GcWF s.db) (hi : Inv s)
    (hg : C13_guard s op = true) : Inv (step po s op) :=
  step_inv po s op hw hi hg

/-- every reachable state has unique gc keys (so the premise `GcWF` of the step theorem is no restriction) -/
theorem C13_reachable_gcWF (po : Addr → Nat) (s : State) (h : Reachable po s) : GcWF s.db := by
  induction h with
  | init cap => exact gcWF_init cap
  | step op _ ih => exact step_gcWF po _ op ih

/-- the step theorem in the form of `C13_inv_step_full` (reachable states), with the guard added -/
theorem C13_inv_step_reachable_partial (po : Addr → Nat) (s : State) (op : Op) (hr : Reachable po s)
    (hi : Inv s) (hg : C13_guard s op = true) : Inv (step po s op) :=
  C13_inv_step_partial po s op (C13_reachable_gcWF po s hr) hi hg

/-- `inv` over histories (partial): every history from the empty store all of whose steps satisfy the
guard keeps the invariant — put/get/set in every mode, collection runs with racing accesses, reopen. -/
theorem C13_inv_histories_partial (po : Addr → Nat) (cap : Nat) (ops : List Op)
    (hg : guardH po (init cap) ops = true) : Inv (runH po (init cap) ops) :=
  hist_inv po ops (init cap) (gcWF_init cap) (C13_inv_init cap) hg

/-- non-vacuity: a guarded history with cached files, a root-context get (re-keying), pin and unpin under a
root, a batched upload, removals with and without root context, and a faithful collection run followed
by a reopen; it ends with one cached chunk accounted for. -/
example :
    let ops : List Op := [.put .request (some 1) [(1, [])], .put .request (some 1) [(2, [])],
      .put .request (some 5) [(5, [])], .get .request (some 1) 2, .set .pin (some 5) [5], .set .unpin (some 5) [5],
      .put .upload none [(6, []), (7, [])], .put .uploadPin none [(8, []), (9, [])], .set .remove none [6, 8],
      .put .request (some 5) [(4, [])], .set .remove (some 5) [4],
      .setCapacity 2, .gcSelect, .gcEvict pyrTrue, .reopen]
    guardH po0 s0 ops = true ∧ (runH po0 s0 ops).db.gcSize = 1 ∧ (runH po0 s0 ops).db.gc.length = 1 := by decide

/-! ### every excluded shape is covered by its counterexample: the guard is false exactly there -/

theorem C13_guard_excludes_batched : C13_guard sFile (.put .request (some 1) [(3, []), (4, [])]) = false := by decide
theorem C13_guard_excludes_pin_repeated :
    C13_guard (runOps sFile [.put .request (some 5) [(5, [])], .set .pin (some 1) [1], .set .pin (some 1) [2]])
      (.set .pin (some 1) [2]) = false := by decide
theorem C13_guard_excludes_uppin : C13_guard sFile (.put .uploadPin (some 1) [(3, [])]) = false := by decide
theorem C13_guard_excludes_sync :
    C13_guard (runOps s0 [.put .upload none [(1, [])]]) (.set .sync none [1]) = false := by decide
theorem C13_guard_excludes_failed_batch : C13_guard sFile (.set .pin (some 1) [1, 7]) = false := by decide
theorem C13_guard_excludes_gc_all_dirty :
    C13_guard (runOps sFile [.put .request (some 5) [(5, [])], .setCapacity 2, .gcSelect,
      .get .request (some 1) 2, .get .request (some 5) 5]) (.gcEvict pyrTrue) = false := by decide
theorem C13_guard_excludes_gc_shared_chunk :
    C13_guard (runOps sFile [.put .request (some 1) [(3, [])], .setCapacity 2, .gcSelect]) (.gcEvict pyrTrue) = false := by
  decide

/-- … and the single-address forms of the same calls pass the guard (it is the shape that is excluded) -/
example : C13_guard sFile (.put .request (some 1) [(3, [])]) = true ∧
    C13_guard sFile (.set .pin (some 1) [1]) = true ∧
    C13_guard sFile (.put .uploadPin none [(3, []), (4, [])]) = true ∧
    C13_guard (runOps sFile [.put .request (some 5) [(5, [])], .setCapacity 2, .gcSelect]) (.gcEvict pyrTrue) = true := by
  decide

/-- trigger of the `rekeyOk` clause: after a batched request put with an advancing clock the root has two
gc entries (ts 12 and 14, access entry 14, `Inv` still holds); when `now` steps back onto 12, a
`Get(ModeGetRequest)` re-keys the live entry onto the stale one and Σ drops while gcSize stays.
(Replayed on the real code: `now 16 1; put up - 80:aa; put req 80 81:bb,c0:cc; now 18 0; get req 80 81`
gives `G[18:1:80=1] S=2`.) -/
theorem C13_inv_step_rekey_counterexample :
    let s := runOps s0 [.setClock 10 1, .put .upload none [(1, [])], .put .request (some 1) [(2, []), (3, [])],
                        .setClock 12 0]
    Inv s ∧ ¬ Inv (step po0 s (.get .request (some 1) 2)) ∧ C13_guard s (.get .request (some 1) 2) = false := by
  decide

/-! ### the uint64 wrap of `GCounter++`

`setGC` (request put under a root context) and `setUnpin` (last pin released under a root context) do
`gcItem.GCounter++` on a uint64: the model writes `(c + 1) % 2^64`.  At `c = 2^64 − 1` the root's counter
falls to 0 (Σ drops by 2^64 − 1) while `gcSize` still grows by one.  The step/history theorems above need
**no further guard clause** for it: under `Inv s` every counter is at most Σ = gcSize, and the single-address
branch of the guard already demands `gcSize + 1 < 2^64` (`noWrap_of_inv`; the multi-address branch never
increments a counter).  A counter of `2^64 − 1` only arises by `GCounter--` on a `GCounter = 0` entry left by
`ModeSetSync` — the shapes `inv-sync-zero-counter` the guard excludes (`C13_guard_excludes_sync`,
`C13_guard_excludes_pin_zero_counter`). -/

/-- under the invariant no `GCounter++` can wrap while `gcSize + 1` fits a uint64: every counter `c` in the gc
index satisfies `c + 1 < 2^64` (indeed `c ≤ gcSize`). -/
theorem C13_inv_excludes_wrap (s : State) (hw : GcWF s.db) (hi : Inv s) (hfit : s.db.gcSize + 1 < two64) :
    ∀ (k : GcKey) (c : Nat), SMap.get k s.db.gc = some c → c + 1 < two64 :=
  noWrap_of_inv s.db hw hi hfit

/-- the wrapping increment is unreachable in guarded histories: at the end of every history from the empty
store all of whose steps satisfy the guard, every gc counter is at most `gcSize` — so a counter of `2^64 − 1`
(the only value whose `++` wraps) would need `gcSize = 2^64 − 1`, where the guard of the incrementing calls
(`gcSize + 1 < 2^64`) is false. -/
theorem C13_wrap_unreachable_histories (po : Addr → Nat) (cap : Nat) (ops : List Op)
    (hg : guardH po (init cap) ops = true) (k : GcKey) (c : Nat)
    (h : SMap.get k (runH po (init cap) ops).db.gc = some c) : c ≤ (runH po (init cap) ops).db.gcSize := by
  have hw : GcWF (runH po (init cap) ops).db := runH_gcWF po ops (init cap) (gcWF_init cap)
  have hi : Inv (runH po (init cap) ops) := C13_inv_histories_partial po cap ops hg
  unfold Inv at hi
  rw [hi]
  exact get_le_gcSum k _ c hw h

example : ∃ (s : State) (k : GcKey) (c : Nat), GcWF s.db ∧ Inv s ∧ s.db.gcSize + 1 < two64 ∧
    SMap.get k s.db.gc = some c :=
  ⟨sFile, ⟨1, 1, 1⟩, 2, C13_reachable_gcWF po0 sFile (reachable_runOps _ _ (Reachable.init _)),
    by decide, by decide, by decide⟩

/-- the state of the wrap witness: an uploaded chunk 1 is synced (`GCounter = 0` entry keyed by itself) and
then pinned under itself as root (`GCounter--` on 0, written directly: `2^64 − 1`).
Real code: `put up - 80:aa; set sync - 80; set pin 80 80` → `G[1:1:80=18446744073709551615] S=0`
(`corpus/C13/gcounter-wrap-minimal.ops`; found by seed case g8, `corpus/C13/gcounter-wrap-increment.ops`). -/
def sWrap : State := runOps s0 [.put .upload none [(1, [])], .set .sync none [1], .set .pin (some 1) [1]]

/-- the wrapping `GCounter++` (excluded from `C13_inv_step_partial` by its premise `Inv s`, not by the guard —
the call is an ordinary single-address request put and `C13_guard` is `true`): in `sWrap` the root's counter is
`2^64 − 1`; one more chunk cached under that root makes the counter 0 — Σ falls by `2^64 − 1` while `gcSize`
grows by 1, so the step does not even preserve the difference `gcSize − Σ`.  (A step theorem without the
premise `Inv s`, "guarded steps move gcSize and Σ by the same amount", is therefore false.)
Real code: `… ; put req 80 81:bb` → `G[1:1:80=0] S=1`. -/
theorem C13_inv_step_wrap_counterexample :
    Reachable po0 sWrap ∧
    (let op : Op := .put .request (some 1) [(2, [])]
     C13_guard sWrap op = true ∧ ¬ Inv sWrap ∧
     sWrap.db.gcSize = 0 ∧ gcSum sWrap.db.gc = two64 - 1 ∧
     (step po0 sWrap op).db.gcSize = 1 ∧ gcSum (step po0 sWrap op).db.gc = 0 ∧
     (step po0 sWrap op).db.gc = [(⟨1, 1, 1⟩, 0)]) :=
  ⟨reachable_runOps _ _ (Reachable.init _), by decide⟩

/-- … and the same wrap through `setUnpin` (the second `GCounter++` site): releasing the last pin of a chunk
under the root whose counter is `2^64 − 1`. -/
theorem C13_inv_step_wrap_unpin_counterexample :
    let op : Op := .set .unpin (some 1) [1]
    C13_guard sWrap op = true ∧ ¬ Inv sWrap ∧
    (step po0 sWrap op).db.gcSize = 1 ∧ gcSum (step po0 sWrap op).db.gc = 0 := by decide

/-- the history that produces the `2^64 − 1` counter is not a guarded one: both the sync of a stored chunk and
the pin over the `GCounter = 0` entry it left are excluded shapes. -/
theorem C13_guard_excludes_pin_zero_counter :
    C13_guard (runOps s0 [.put .upload none [(1, [])], .set .sync none [1]]) (.set .pin (some 1) [1]) = false ∧
    guardH po0 s0 [.put .upload none [(1, [])], .set .sync none [1], .set .pin (some 1) [1]] = false := by decide

/-- trigger `bounded-sum-wrapped-counter`: while the wrapped counter (`2^64 − 1`) sits in the index, a collection
run that recycles another file reports `done = true` with Σ GCounter = `2^64 − 1`, above every capacity.
Real code: `put up - 80:aa; set sync - 80; set pin 80 80; put req 40 40:01; cap 1; pyr 40 -; gcsel; gcevict`. -/
theorem C13_bounded_wrapped_counter_counterexample :
    let s := runOps s0 [.put .request (some 5) [(5, [])], .put .upload none [(6, [])], .set .sync none [6],
                        .set .pin (some 6) [6], .setCapacity 1, .gcSelect]
    let r := gcEvict s (pyrFun [(5, some [])])
    s.runTarget = gcTarget s.capacity ∧ r.out = .gcDone 1 true [5] ∧ r.st.db.gcSize = 0 ∧
    gcSum r.st.db.gc = two64 - 1 ∧ ¬ (gcSum r.st.db.gc ≤ s.capacity) := by decide

end Aurora.Localstore
