import Aurora.Lemmas.RouteProto
import Mathlib.Data.Multiset.DershowitzManna
/-! Termination of route discovery (C28): every message step replaces one packet in flight by
    finitely many packets of strictly smaller rank, so the multiset of ranks decreases in the
    Dershowitz–Manna order. -/
namespace Aurora.RouteProto
open Aurora.RouteTable

def maxLen (ps : List Path) : Nat := ps.foldr (fun p a => max p.length a) 0
def minLenCap (cap : Nat) (ps : List Path) : Nat := ps.foldr (fun p a => min p.length a) cap

/-- rank of a message: requests above all responses; a request's rank falls as its longest path
    grows, a response's rank falls as its shortest path grows; both are cut off by the hop limit -/
def rank (ttl : Nat) : Body → Nat
  | .req r => (ttl + 2) + (ttl + 1 - maxLen r.paths)
  | .resp r => (ttl + 1) - minLenCap (ttl + 1) r.paths

theorem maxLen_le (ps : List Path) (b : Nat) (h : ∀ q ∈ ps, q.length ≤ b) : maxLen ps ≤ b := by
  induction ps with
  | nil => simp [maxLen]
  | cons p ps ih =>
    have h1 := h p (List.mem_cons_self ..)
    have h2 := ih (fun q hq => h q (List.mem_cons_of_mem _ hq))
    simp only [maxLen, List.foldr_cons] at h2 ⊢
    omega

theorem maxLen_map_append (x : Node) (ps : List Path) (h : ps ≠ []) :
    maxLen (ps.map (· ++ [x])) = maxLen ps + 1 := by
  induction ps with
  | nil => exact absurd rfl h
  | cons p ps ih =>
    cases ps with
    | nil => simp [maxLen]
    | cons q qs =>
      have := ih (by simp)
      simp only [maxLen, List.map_cons, List.foldr_cons, List.length_append, List.length_cons,
        List.length_nil] at this ⊢
      omega

theorem maxLen_generatePaths (self : Node) (ps : List Path) :
    maxLen (generatePaths self ps) = maxLen ps + 1 := by
  unfold generatePaths
  split
  · rename_i h
    have : ps = [] := by simpa using h
    subst this; simp [maxLen]
  · rename_i h
    exact maxLen_map_append self ps (by intro h0; apply h; simp [h0])

theorem minLenCap_le_of_mem (cap : Nat) (ps : List Path) (q : Path) (h : q ∈ ps) :
    minLenCap cap ps ≤ q.length := by
  induction ps with
  | nil => simp at h
  | cons p ps ih =>
    simp only [minLenCap, List.foldr_cons]
    rcases List.mem_cons.1 h with rfl | h
    · omega
    · have := ih h
      simp only [minLenCap] at this
      omega

theorem le_minLenCap (cap b : Nat) (ps : List Path) (h : ∀ q ∈ ps, b ≤ q.length) (hc : b ≤ cap) :
    b ≤ minLenCap cap ps := by
  induction ps with
  | nil => simpa [minLenCap] using hc
  | cons p ps ih =>
    have h1 := h p (List.mem_cons_self ..)
    have h2 := ih (fun q hq => h q (List.mem_cons_of_mem _ hq))
    simp only [minLenCap, List.foldr_cons] at h2 ⊢
    omega

/-- every packet written by `forwardReq` is the request with its paths extended by self -/
theorem forwardReq_body (self : Node) (st : NodeSt) (next : List Node) (src target : Node) (req : Req) :
    ∀ p ∈ (forwardReq self st next src target req).2,
      ∃ r, p.body = .req r ∧ r.paths = generatePaths self req.paths := by
  intro p hp
  unfold forwardReq at hp
  exact ⟨_, (sendReqs_ok self st next src false _).2.2.2 p hp |>.2.2, rfl⟩

theorem onRouteReq_rank (e : Env) (o : Oracle) (self : Node) (st : NodeSt) (src : Node) (req : Req)
    (now : Nat) : ∀ p ∈ (onRouteReq e o self st src req now).2,
      rank e.ttl p.body < rank e.ttl (.req req) := by
  intro p hp
  unfold onRouteReq at hp
  dsimp only at hp
  split at hp
  · simp at hp
  · rename_i hdisc
    have hlen : maxLen req.paths ≤ e.ttl := by
      apply maxLen_le
      intro q hq
      have := hdisc
      simp only [List.any_eq_true, not_exists, not_and, Bool.or_eq_true, decide_eq_true_eq, not_or] at this
      have := (this q hq).1
      omega
    have hfwd : ∀ (r : Req), r.paths = generatePaths self req.paths →
        rank e.ttl (.req r) < rank e.ttl (.req req) := by
      intro r hr
      simp only [rank, hr, maxLen_generatePaths]
      omega
    have hresp : ∀ (r : Resp), rank e.ttl (.resp r) < rank e.ttl (.req req) := by
      intro r; simp only [rank]; omega
    split at hp
    · simp at hp; subst hp; exact hresp _
    · split at hp
      · obtain ⟨r, h1, h2⟩ := forwardReq_body _ _ _ _ _ _ p hp
        rw [h1]; exact hfwd r h2
      · split at hp
        · simp at hp; subst hp; exact hresp _
        · obtain ⟨r, h1, h2⟩ := forwardReq_body _ _ _ _ _ _ p hp
          rw [h1]; exact hfwd r h2

theorem onRouteResp_rank (e : Env) (self : Node) (st : NodeSt) (src : Node) (resp : Resp)
    (now : Nat) : ∀ p ∈ (onRouteResp e self st src resp now).2,
      rank e.ttl p.body < rank e.ttl (.resp resp) := by
  intro p hp
  unfold onRouteResp at hp
  dsimp only at hp
  split at hp
  · simp at hp
  · rename_i hne
    split at hp
    · simp at hp
    · obtain ⟨_, _, r, h1, h2⟩ := (respForward_spec self _ resp.dest src _).2 p hp
      rw [h1]
      simp only [rank, h2]
      -- some received path is within the hop limit
      have hex : ∃ q ∈ resp.paths, q.length ≤ e.ttl := by
        cases hf : resp.paths.filter (fun p => decide (p.length ≤ e.ttl)) with
        | nil => exact absurd (by simp [hf]) hne
        | cons q qs =>
          have : q ∈ resp.paths.filter (fun p => decide (p.length ≤ e.ttl)) := by rw [hf]; exact List.mem_cons_self ..
          obtain ⟨h3, h4⟩ := List.mem_filter.1 this
          exact ⟨q, h3, by simpa using h4⟩
      obtain ⟨q, hq, hql⟩ := hex
      have hm : minLenCap (e.ttl + 1) resp.paths ≤ e.ttl :=
        Nat.le_trans (minLenCap_le_of_mem _ _ q hq) hql
      have hm' : minLenCap (e.ttl + 1) resp.paths + 1 ≤
          minLenCap (e.ttl + 1) (generatePaths self (resp.paths.filter (fun p => decide (p.length ≤ e.ttl)))) := by
        apply le_minLenCap
        · intro x hx
          unfold generatePaths at hx
          split at hx
          · rename_i hemp; exact absurd hemp hne
          · obtain ⟨y, hy, rfl⟩ := List.mem_map.1 hx
            have := minLenCap_le_of_mem (e.ttl + 1) resp.paths y (List.mem_filter.1 hy).1
            simp only [List.length_append, List.length_cons, List.length_nil]
            omega
        · omega
      omega

theorem handle_rank (e : Env) (o : Oracle) (net : Net) (p : Packet) (now : Nat) :
    ∀ p' ∈ (handle e o net p now).2, rank e.ttl p'.body < rank e.ttl p.body := by
  intro p' hp'
  unfold handle at hp'
  cases hb : p.body with
  | req r => rw [hb] at hp'; exact onRouteReq_rank e o _ _ _ r now p' hp'
  | resp r => rw [hb] at hp'; exact onRouteResp_rank e _ _ _ r now p' hp'

/-- the multiset of ranks of the packets in flight -/
def measure (ttl : Nat) (net : Net) : Multiset Nat :=
  ((net.flight.map (fun p => rank ttl p.body) : List Nat) : Multiset Nat)

theorem measure_split (ttl : Nat) (pre post : List Packet) (p : Packet) :
    (((pre ++ p :: post).map (fun p => rank ttl p.body) : List Nat) : Multiset Nat) =
      (((pre ++ post).map (fun p => rank ttl p.body) : List Nat) : Multiset Nat) + {rank ttl p.body} := by
  have hperm : (pre ++ p :: post).Perm (p :: (pre ++ post)) := List.perm_middle
  rw [Multiset.coe_eq_coe.2 (hperm.map _)]
  simp only [List.map_cons]
  rw [← Multiset.cons_coe, ← Multiset.singleton_add, add_comm]

theorem msgStep_decreases {e : Env} {a b : Net} (h : MsgStep e a b) :
    Multiset.IsDershowitzMannaLT (measure e.ttl b) (measure e.ttl a) := by
  cases h with
  | deliver pre post p hf o now adm =>
    refine ⟨(((pre ++ post).map (fun p => rank e.ttl p.body) : List Nat) : Multiset Nat),
      ((((handle e o a p now).2).map (fun p => rank e.ttl p.body) : List Nat) : Multiset Nat),
      {rank e.ttl p.body}, by simp, ?_, ?_, ?_⟩
    · simp only [measure, List.map_append, Multiset.coe_add]
    · simp only [measure, hf]; exact measure_split e.ttl pre post p
    · intro y hy
      simp only [Multiset.mem_coe, List.mem_map] at hy
      obtain ⟨p', hp', rfl⟩ := hy
      exact ⟨_, Multiset.mem_singleton_self _, handle_rank e o a p now p' hp'⟩
  | drop pre post p hf =>
    refine ⟨(((pre ++ post).map (fun p => rank e.ttl p.body) : List Nat) : Multiset Nat), 0,
      {rank e.ttl p.body}, by simp, ?_, ?_, ?_⟩
    · simp [measure]
    · simp only [measure, hf]; exact measure_split e.ttl pre post p
    · intro y hy; simp at hy

theorem timeoutStep_flight {e : Env} {a b : Net} (h : TimeoutStep e a b) : b.flight = a.flight := by
  cases h; rfl

/-- any number of timeout steps -/
inductive TimeoutStar (e : Env) : Net → Net → Prop
  | refl (a : Net) : TimeoutStar e a a
  | step {a b c : Net} : TimeoutStar e a b → TimeoutStep e b c → TimeoutStar e a c

theorem timeoutStar_flight {e : Env} {a b : Net} (h : TimeoutStar e a b) : b.flight = a.flight := by
  induction h with
  | refl => rfl
  | step _ hs ih => rw [timeoutStep_flight hs, ih]

/-- one message step preceded by any number of timeouts -/
def Progress (e : Env) (b a : Net) : Prop := ∃ a', TimeoutStar e a a' ∧ MsgStep e a' b

theorem progress_wf (e : Env) : WellFounded (Progress e) := by
  apply Subrelation.wf (r := InvImage Multiset.IsDershowitzMannaLT (measure e.ttl))
  · intro b a h
    obtain ⟨a', ht, hm⟩ := h
    have := msgStep_decreases hm
    simp only [InvImage]
    have hfl : measure e.ttl a' = measure e.ttl a := by
      simp only [measure, timeoutStar_flight ht]
    rw [← hfl]; exact this
  · exact InvImage.wf _ Multiset.wellFounded_isDershowitzMannaLT

end Aurora.RouteProto
