import Aurora.Lemmas.Depth
import Aurora.Lemmas.DepthAtomic
import Aurora.Generated.KadDepthLocks
import Aurora.Model.Kad
/-!
# C22 — Neighbourhood depth is consistent with the peer set

Theorems about `Aurora.Topo.recalcDepth` (Model/Depth.lean), the transcription of
`kademlia.recalcDepth` after the two `fix:` commits.  `bins : List (List Bool)` is the connected
`PSlice` (bin by bin, slice order) with one reachability flag per peer; all statements hold for
every bin list (any number of bins, any sizes), every radius and every threshold record `p`.
-/
namespace Aurora.Props.C22
open Aurora.Topo

/-- clause "never exceeds the radius" -/
theorem C22_depth_le_radius (p : Params) (bins : Bins) (radius : Nat) :
    recalcDepth p bins radius ≤ radius :=
  recalcDepth_le_radius p bins radius

/-- clause "is zero when at most three (`nnLowWatermark`) peers are connected" -/
theorem C22_depth_zero_small (p : Params) (bins : Bins) (radius : Nat)
    (h : binsLength bins ≤ p.nnLow) : recalcDepth p bins radius = 0 := by
  unfold recalcDepth; simp [h]

/-- clause "when positive leaves at least three reachable peers at or beyond it":
`reachFrom bins d` counts the reachable peers in bins `≥ d`. -/
theorem C22_depth_leaves_nn (p : Params) (bins : Bins) (radius : Nat)
    (h : 0 < recalcDepth p bins radius) :
    p.nnLow ≤ reachFrom bins (recalcDepth p bins radius) := by
  have hc := recalcDepth_le_cand p bins radius
  have := candOf_spec p.nnLow bins (by omega)
  exact Nat.le_trans this (reachFrom_anti bins hc)

/-- clause "never exceeds the shallowest empty bin" (stated for every empty bin `e`) -/
theorem C22_depth_le_empty_bin (p : Params) (bins : Bins) (radius : Nat) (e : Nat)
    (he : e < bins.length) (hb : bins.getD e [] = []) : recalcDepth p bins radius ≤ e :=
  Nat.le_trans (recalcDepth_le_su p bins radius) (suOf_le_empty p.quick bins e he hb)

/-- clause "every shallower bin holds at least the quick-saturation number of reachable peers"
(this is the clause the unchanged code violated; `reachIn bins b` = reachable peers of bin `b`) -/
theorem C22_shallower_bins_saturated (p : Params) (bins : Bins) (radius : Nat) (b : Nat)
    (hb : b < recalcDepth p bins radius) : p.quick ≤ reachIn bins b :=
  suOf_saturated p.quick bins b (Nat.lt_of_lt_of_le hb (recalcDepth_le_su p bins radius))

/-- clause "depends only on the current set": the depth is a function of the per-bin
(reachable, total) counts -/
theorem C22_depth_depends_on_counts (p : Params) (bins bins' : Bins) (radius : Nat)
    (h : bins.map binSummary = bins'.map binSummary) :
    recalcDepth p bins radius = recalcDepth p bins' radius :=
  recalcDepth_congr p bins bins' radius h

/-- clause "not on the order of connections": connection / disconnection order only decides the
slice order inside each bin; any bin-wise permutation gives the same depth -/
theorem C22_depth_order_independent (p : Params) (bins bins' : Bins) (radius : Nat)
    (h : BinsPerm bins bins') : recalcDepth p bins radius = recalcDepth p bins' radius :=
  recalcDepth_congr p bins bins' radius (summary_of_perm bins bins' h)

/-- the thresholds the node really runs with (source initialisers regenerated from /repo, then
`kademlia.New`'s derivation from `Options.BinMaxPeers`): the watermark is the "three" of the
statement and the quick-saturation number is positive, so the saturation clause says something. -/
theorem C22_thresholds (binMax : Nat) :
    (Params.default.withBinMax binMax).nnLow = 3 ∧ 0 < (Params.default.withBinMax binMax).quick := by
  have hn : Params.default.nnLow = 3 := by decide
  have hq : 0 < Params.default.quick := by decide
  unfold Params.withBinMax
  split
  · refine ⟨hn, ?_⟩
    show 0 < _ / 5
    split <;> split <;> omega
  · exact ⟨hn, hq⟩

/-! ### histories: the stored depth is always the depth of the current set -/

/-- the stored depth is `recalcDepth` of the current connected set, reachability and radius -/
def DepthCurrent (k : Kad) : Prop := k.depth = recalcDepth k.params (k.flags k.connected) k.radius

/-- every event handler of the Kad model (Model/Kad.lean: `AddPeers`, `Connected` in all its
branches, `Outbound`, `Disconnected`, `DisconnectForce`, `RefreshProtectPeer`, `Reachable` — for
every status, this is the second `fix:` commit —, `UpdateReachability`, `SetRadius`) leaves the
stored depth equal to `recalcDepth` of the *current* peer set, reachability and radius -/
theorem C22_depth_current_step (k : Kad) (ev : Ev) (h : DepthCurrent k) : DepthCurrent (k.apply ev).1 := by
  have hr : ∀ k' : Kad, DepthCurrent k'.recalc := fun _ => rfl
  cases ev with
  | add as => exact h
  | conn a f kick =>
    simp only [Kad.apply]
    unfold Kad.connectedEv
    simp only []
    split
    · split
      · split
        · exact h
        · split
          · split
            · exact hr _
            · exact h
          · exact h
      · split
        · exact h
        · exact hr _
    · exact hr _
  | out a b =>
    cases b with
    | true => exact h
    | false => exact hr _
  | disc a => exact hr _
  | force a => exact hr _
  | protect as => exact h
  | reach a s => exact hr _
  | self s =>
    simp only [Kad.apply]; unfold Kad.updateReachability; split
    · exact h
    · exact h
  | radius r =>
    simp only [Kad.apply]; unfold Kad.setRadius; split
    · exact h
    · exact hr _

/-- a fresh Kad has depth 0 = `recalcDepth` of the empty set -/
theorem C22_depth_current_new (base : Addr) (binMax : Nat) (boot : Bool) (static : List Addr) :
    DepthCurrent (Kad.new base binMax boot static) := by
  have hz : ∀ k : Kad, binsLength (k.flags PSlice.new) = 0 := by
    intro k; simp [Kad.flags, PSlice.new, binsLength]
  unfold DepthCurrent
  show 0 = recalcDepth _ (Kad.flags _ PSlice.new) _
  unfold recalcDepth
  rw [hz]; simp

/-- clause "… not on the order of connections", history form: after *any* event history from a
fresh Kad, `NeighborhoodDepth()` is `recalcDepth` of the current connected set, reachability and
radius — so all clauses above hold for it, and two histories that end in the same set (whatever
the order) end with the same depth. -/
theorem C22_depth_current (base : Addr) (binMax : Nat) (boot : Bool) (static : List Addr) (evs : List Ev) :
    DepthCurrent (evs.foldl (fun k ev => (k.apply ev).1) (Kad.new base binMax boot static)) := by
  have gen : ∀ (evs : List Ev) (k : Kad), DepthCurrent k →
      DepthCurrent (evs.foldl (fun k ev => (k.apply ev).1) k) := by
    intro evs
    induction evs with
    | nil => intro k h; exact h
    | cons ev evs ih => intro k h; exact ih _ (C22_depth_current_step k ev h)
  exact gen evs _ (C22_depth_current_new base binMax boot static)

/-- `C22_depth_current` from any Kad whose stored depth is current -/
theorem C22_depth_current_from (k : Kad) (h : DepthCurrent k) (evs : List Ev) :
    DepthCurrent (evs.foldl (fun k ev => (k.apply ev).1) k) := by
  induction evs generalizing k with
  | nil => exact h
  | cons ev evs ih => exact ih _ (C22_depth_current_step k ev h)

/-! ### concurrent notifications: every depth update is an atomic compute-and-store

The event handlers run on different goroutines (connection handlers, the manage loop's workers,
the reachability prober, the storage-radius updater).  The sequential statements above lift to
concurrent executions because of ONE discipline, which the extractor reads off
`pkg/topology/kademlia/*.go` on every run (`Aurora/Generated/KadDepthLocks.lean`,
harness/cmd/extract/kad_depth_locks.go): every store to `Kad.depth` is
`depthMu.Lock(); k.depth = recalcDepth(k.connectedPeers, k.radius, k.peerFilter); depthMu.Unlock()`
— the recalculation is evaluated inside the same write-locked region as the store, from the live
peer set and a radius read in that region. -/

section Concurrent
open Aurora.Generated.KadDepthLocks
open Aurora.DepthAtomic (Shape Pc St Reach)

/-- a store row describes an atomic compute-and-store: it happens in a write-locked region, the
value stored is a `recalcDepth(x.connectedPeers, <radius>, x.peerFilter)` call evaluated in that same
region, and the radius passed was read in that same region -/
def atomicStore (s : Store) : Bool :=
  decide (s.lock.mode = .w) && decide (s.lock.region ≠ 0) && decide (s.rhs ≠ .other) &&
  decide (s.compute = s.lock) && decide (s.radius = s.lock) && s.peersLive && s.filterOk

/-- **static obligation** (by evaluation of the regenerated table): there is at least one depth
store; every depth store is a locked compute-and-store (`atomicStore`); every other write of
`depth` / `radius` is write-locked, every read is at least read-locked, no address of the two
fields is taken; and `depthMu` is used in no way the extractor does not understand.
The seeded change C22-1 (read the radius under `RLock`, recalculate with no lock held, `Lock` only to
store) produces a row `⟨"updateDepth", …, ⟨.w, _⟩, .local, ⟨.free, 0⟩, ⟨.r, _⟩, …⟩` and this fails. -/
theorem C22_depth_update_atomic :
    stores ≠ [] ∧
    (∀ s ∈ stores, atomicStore s = true) ∧
    (∀ a ∈ accesses, a.kind = .write → a.lock.mode = .w) ∧
    (∀ a ∈ accesses, a.kind = .read → a.lock.mode = .w ∨ a.lock.mode = .r) ∧
    (∀ a ∈ accesses, a.kind ≠ .other) ∧
    mutexOther = [] := by
  decide

/-- what `recalcDepth` is applied to when a handler recalculates: the current model state -/
def depthOf (k : Kad) : Nat := recalcDepth k.params (k.flags k.connected) k.radius

theorem depthCurrent_iff (k : Kad) (d : Nat) : DepthCurrent { k with depth := d } ↔ d = depthOf k :=
  Iff.rfl

/-- **interleaving lemma, instantiated.**  Threads = notifications; thread `i` runs the update site
`site i` of the extracted table and applies an arbitrary change `chg i` to the peer set /
reachability / radius (outside the mutex, or inside it — `Shape.atomicIn` — as `SetRadius` does).
A thread may behave like a split update (`Shape.split`: compute unlocked, lock only to store) only
if its site is not an atomic store.  Then, by `C22_depth_update_atomic`, no thread is split, and by
the quiescence theorem of `Lemmas/DepthAtomic.lean` every reachable state of every interleaving
in which all notifications have finished has the stored depth equal to `recalcDepth` of the current
set, reachability and radius: `C22_depth_current` holds for concurrent executions at quiescence.
(Mutex semantics assumed: `Lock` is enabled only when nobody holds the mutex; see the lemma file.) -/
theorem C22_concurrent_quiescent_depth_current
    (site : Nat → Store) (hsite : ∀ i, site i ∈ stores)
    (shape : Nat → Shape) (hshape : ∀ i, shape i = .split → atomicStore (site i) = false)
    (chg : Nat → Kad → Kad) (k0 : Kad) (pc0 : Nat → Pc) (h0 : ∀ i, pc0 i = .start ∨ pc0 i = .done)
    (s : St Kad) (hr : Reach depthOf chg shape k0 pc0 s) (hq : ∀ i, s.pc i = .done) :
    DepthCurrent { s.sh with depth := s.depth } := by
  have hs : ∀ i, shape i ≠ .split := by
    intro i hi
    have := C22_depth_update_atomic.2.1 (site i) (hsite i)
    rw [hshape i hi] at this
    cases this
  exact (depthCurrent_iff _ _).2 (Aurora.DepthAtomic.quiescent_current depthOf chg shape hs h0 hr hq)

/-- … and the quiescent outcome is the outcome of a *sequential* run: when thread `i` delivers the
model event `ev i`, the final peer set / reachability / radius are those of the sequential model run
over the events in the order `s.log` in which their changes were applied, `s.log` holds exactly
the notifications that took part, and the final stored depth is the depth the sequential model
(`C22_depth_current`) ends with for that order. -/
theorem C22_concurrent_equals_sequential
    (site : Nat → Store) (hsite : ∀ i, site i ∈ stores)
    (shape : Nat → Shape) (hshape : ∀ i, shape i = .split → atomicStore (site i) = false)
    (ev : Nat → Ev) (k0 : Kad) (hk0 : DepthCurrent k0)
    (pc0 : Nat → Pc) (h0 : ∀ i, pc0 i = .start ∨ pc0 i = .done)
    (s : St Kad) (hr : Reach depthOf (fun i k => (k.apply (ev i)).1) shape k0 pc0 s)
    (hq : ∀ i, s.pc i = .done) :
    (∀ i, i ∈ s.log ↔ pc0 i = .start) ∧
    s.sh = (s.log.map ev).foldl (fun k e => (k.apply e).1) k0 ∧
    s.depth = ((s.log.map ev).foldl (fun k e => (k.apply e).1) k0).depth := by
  have hsh : s.sh = (s.log.map ev).foldl (fun k e => (k.apply e).1) k0 := by
    rw [Aurora.DepthAtomic.sh_eq_fold_log _ _ _ hr, List.foldl_map]
  refine ⟨Aurora.DepthAtomic.log_exact _ _ _ h0 hr hq, hsh, ?_⟩
  have hc := C22_concurrent_quiescent_depth_current site hsite shape hshape _ k0 pc0 h0 s hr hq
  have hseq := C22_depth_current_from k0 hk0 (s.log.map ev)
  rw [depthCurrent_iff] at hc
  rw [hc, hsh]
  exact hseq.symm

/-- the hypothesis "no split update" is needed: `Lemmas/DepthAtomic.split_breaks` is a concrete
interleaving of one split and one atomic event that ends, at quiescence, with a stale depth -/
example : ∃ s : St Nat, Reach id (fun i _ => i + 1) (fun i => if i = 0 then .split else .atomic) 0
    (fun i => if i < 2 then .start else .done) s ∧ (∀ i, s.pc i = .done) ∧ s.depth ≠ id s.sh :=
  Aurora.DepthAtomic.split_breaks

/-- hypotheses of the two theorems are satisfiable: the table is not empty and every row can be a
thread's site -/
example : ∃ site : Nat → Store, ∀ i, site i ∈ stores :=
  match h : stores with
  | [] => absurd h C22_depth_update_atomic.1
  | x :: _ => ⟨fun _ => x, fun _ => by simp⟩

end Concurrent

/-! ### non-vacuity / regression examples (thresholds 3 / 4) -/

private def r (n : Nat) : List Bool := List.replicate n true
private def u (n : Nat) : List Bool := List.replicate n false

/-- DESIGN §7: bins 0:4 reachable, 1:1 unreachable, 2:4 reachable, 3:3 reachable.  The unchanged
code answered 3; bin 1 holds no reachable peer, so the depth is 1. -/
example : recalcDepth Params.default [r 4, u 1, r 4, r 3] 31 = 1 := by decide
example : recalcDepth Params.default [r 4, r 4, r 4, r 3] 31 = 3 := by decide
example : recalcDepth Params.default [r 4, r 4, r 4, r 3] 2 = 2 := by decide
example : recalcDepth Params.default [r 4, r 4, [], r 3] 31 = 2 := by decide
example : recalcDepth Params.default [r 1, r 1, r 1] 31 = 0 := by decide
/-- hypotheses of `C22_depth_leaves_nn` / `C22_shallower_bins_saturated` are satisfiable -/
example : 0 < recalcDepth Params.default [r 4, r 4 ++ u 2, r 2 ++ u 1 ++ r 1] 31 := by decide
/-- hypothesis of `C22_depth_le_empty_bin` -/
example : (2 : Nat) < [r 4, r 4, [], r 3].length ∧ [r 4, r 4, [], r 3].getD 2 [] = [] := by decide
/-- hypothesis of `C22_depth_order_independent` -/
example : BinsPerm [[true, false], [false, true, true]] [[false, true], [true, true, false]] :=
  .cons (List.Perm.swap _ _ _) (.cons (by decide) .nil)

end Aurora.Props.C22
