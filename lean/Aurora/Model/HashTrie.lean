import Aurora.Model.Tree
import Aurora.Model.Feeder
/-!
# Model of `/repo/pkg/file/pipeline/hashtrie/hashtrie.go` and of the plain upload pipeline

**Level of abstraction (said as BUILDING.md asks).**  The Go writer keeps all levels in ONE byte
buffer with `cursors[1..8]` (level `l` occupies `buffer[cursors[l+1]:cursors[l]]`, level 8
`buffer[0:cursors[8]]`; higher level = lower offset).  This model keeps, per level, the *list of
references* of that level (`levels = [L1, …, L8]`, each an ordered list of elements), i.e. the
decoded content of those buffer regions; `span ‖ ref (‖ key)` records become elements of a type `α`
and `wrap : List α → α` is the short pipeline (`sum the spans, concatenate the references, hash,
store`).  The cursor arithmetic itself (overwriting consumed records, `cursors[l] = cursors[l+1]`
to empty a level, stale bytes below the level being summed) is NOT represented HERE — it is
transcribed literally in `Model/HashTrieBuf.lean` and proved to refine this list machine in
`Lemmas/HashTrieBuf.lean` (`C02_hashtrie_buffer_refines_lists`); what is kept
literally in this file is the control flow: when a level is wrapped, the cascade, the `full` flag, and the case
order of `Sum` (empty → full → exactly one → default).

* `push`   = `writeToLevel(level, …)` with its call of `wrapFullLevel` when the level holds
             `branching` references (recursion over the list of levels from `level` upwards;
             beyond level 8 the Go code would index `cursors[9]` — unreachable because `full`
             blocks further writes; the model drops the element there).
* `sumUp`  = the loop of `Sum()` from level `i` upwards and the final check on level 8.
* `chainWrite` = `ChainWrite` (`errTrieFull` once level 8 was written by a wrap).

`α := Tree.Entry`, `wrap := Tree.wrapE cref` gives the executable writer; the theorems
instantiate `α := Tree.T` as well.
-/
namespace Aurora.HashTrie
open Aurora.Bmt (Bytes)
open Aurora.Cac (le64)
open Aurora.Tree

section Generic
variable {α : Type} (wrap : List α → α) (B : Nat)

/-- `writeToLevel` on the levels from the written one upwards.  Returns the new levels, whether
    `h.full` was set (`level+1 == 8` in `wrapFullLevel`), and the groups that were wrapped into
    intermediate chunks (lowest level first). -/
def push : List (List α) → α → List (List α) × Bool × List (List α)
  | [], _ => ([], false, [])
  | l :: up, e =>
    let l1 := l ++ [e]
    if l1.length = B then                       -- `h.levelSize(level) == howLong` → wrapFullLevel(level)
      let r := push up (wrap l1)                -- `h.writeToLevel(level+1, …)` (may cascade)
      ([] :: r.1, r.2.1 || up.length == 1, l1 :: r.2.2)   -- `cursors[level] = cursors[level+1]`; `if level+1 == 8 { full = true }`
    else (l1 :: up, false, [])

theorem push_length (lv : List (List α)) (e : α) : (push wrap B lv e).1.length = lv.length := by
  induction lv generalizing e with
  | nil => rfl
  | cons l up ih =>
    simp only [push]
    split
    · simp [ih]
    · simp

/-- The loop of `Sum()` on the levels `i, i+1, …, 8` (argument = those levels, lowest first).
    Returns the element left alone in level 8 (`none` = `errInconsistentRefs`) and the groups wrapped. -/
def sumUp : List (List α) → Option α × List (List α)
  | [] => (none, [])
  | [top] =>
    match top with
    | [e] => (some e, [])                      -- `levelLen == oneRef`
    | _ => (none, [])
  | l :: l' :: up =>
    if l.length = 0 then sumUp (l' :: up)                            -- level empty: continue
    else if l.length = B then                                         -- `l == h.fullChunk`: wrapFullLevel(i)
      let r := push wrap B (l' :: up) (wrap l)
      let s := sumUp r.1
      (s.1, l :: r.2.2 ++ s.2)
    else if l.length = 1 then sumUp ((l' ++ l) :: up)                -- `h.cursors[i+1] = h.cursors[i]`: carry
    else                                                              -- default: wrapFullLevel(i)
      let r := push wrap B (l' :: up) (wrap l)
      let s := sumUp r.1
      (s.1, l :: r.2.2 ++ s.2)
termination_by lv => lv.length
decreasing_by all_goals (simp only [push_length, List.length_cons]; omega)

structure State (α : Type) where
  levels : List (List α)
  full : Bool := false

/-- `NewHashTrieWriter`: eight empty levels -/
def State.new : State α := { levels := List.replicate maxLevel [] }

inductive Err | trieFull | inconsistent
deriving Repr, DecidableEq

/-- `ChainWrite` (the length check `l % oneRef` is a property of the element encoding and always
    passes for the pipeline's writers) -/
def chainWrite (h : State α) (e : α) : Except Err (State α × List (List α)) :=
  if h.full then .error .trieFull
  else
    let r := push wrap B h.levels e
    .ok ({ levels := r.1, full := h.full || r.2.1 }, r.2.2)

def trieSum (h : State α) : Except Err (α × List (List α)) :=
  match sumUp wrap B h.levels with
  | (some e, gs) => .ok (e, gs)
  | (none, _) => .error .inconsistent

end Generic

/-! ## The plain pipeline: feeder → bmt → store → hashtrie (`builder.newPipeline`) -/

section Pipeline
variable (cref : Bytes → Bytes → Bytes) (C B : Nat)

structure Upload where
  feeder : Aurora.Feeder.State := {}
  trie : State Entry := State.new
  puts : List (Bytes × Bytes) := []          -- every `Put(address, data)` in order
  failed : Bool := false                       -- a ChainWrite returned an error (Write returns `0, err`)

/-- the chunk the short pipeline stores for a wrapped group -/
def groupChunk (g : List Entry) : Bytes × Bytes :=
  let e := wrapE cref g
  (e.ref, le64 e.span ++ g.flatMap Entry.ref)

/-- one data chunk through bmt → store → hashtrie -/
def feedChunk (u : Upload) (payload : Bytes) : Upload :=
  if u.failed then u else
  let e := leafEntry cref payload
  let u := { u with puts := u.puts ++ [(e.ref, le64 payload.length ++ payload)] }
  match chainWrite (wrapE cref) B u.trie e with
  | .error _ => { u with failed := true }
  | .ok (t, gs) => { u with trie := t, puts := u.puts ++ gs.map (groupChunk cref) }

/-- one `ChainWrite(span, ref)` on the hash-trie writer itself with a caller-chosen leaf entry (the `leaves`
    op of the file drivers: the leaf's data never reaches the writer, so nothing is stored for the leaf);
    `feedChunk` is this after the leaf's own `Put`.  Spans are unbounded `Nat`s here; only `le64 span`
    (= the 8 little-endian bytes of `span mod 2^64`, what Go's `uint64` sum holds) enters chunks and hashes. -/
def feedEntry (u : Upload) (e : Entry) : Upload :=
  if u.failed then u else
  match chainWrite (wrapE cref) B u.trie e with
  | .error _ => { u with failed := true }
  | .ok (t, gs) => { u with trie := t, puts := u.puts ++ gs.map (groupChunk cref) }

/-- `Sum()` of the hash-trie writer alone (no feeder flush): the root entry, or `none` on error -/
def Upload.sumTrie (u : Upload) : Upload × Option Entry :=
  if u.failed then (u, none) else
  match trieSum (wrapE cref) B u.trie with
  | .error _ => (u, none)
  | .ok (e, gs) => ({ u with puts := u.puts ++ gs.map (groupChunk cref) }, some e)

/-- `pipeline.Write(b)`; the second component is the returned count (`none` = error) -/
def Upload.write (u : Upload) (b : Bytes) : Upload × Option Int :=
  let (f, chunks, n) := Aurora.Feeder.write C u.feeder b
  let u := chunks.foldl (feedChunk cref B) { u with feeder := f }
  (u, if u.failed then none else some n)

/-- `pipeline.Sum()`: the reference, or `none` on error -/
def Upload.sum (u : Upload) : Upload × Option Bytes :=
  let (f, chunks) := Aurora.Feeder.sum u.feeder
  let u := chunks.foldl (feedChunk cref B) { u with feeder := f }
  if u.failed then (u, none) else
  match trieSum (wrapE cref) B u.trie with
  | .error _ => (u, none)
  | .ok (e, gs) => ({ u with puts := u.puts ++ gs.map (groupChunk cref) }, some e.ref)

/-- a whole upload: the writes in order, then `Sum` -/
def upload (segs : List Bytes) : Upload × Option Bytes :=
  (segs.foldl (fun (u : Upload) b => (u.write cref C B b).1) ({} : Upload)).sum cref B

end Pipeline

end Aurora.HashTrie
