import Aurora.Model.Cac
import Aurora.Props.C03
/-! Helper lemmas for Props/C04: hash inputs of a BMT computation and injectivity of the BMT
    hash under collision-freedom on exactly those inputs. -/
namespace Aurora.Cac
open Aurora.Bmt

variable (H : Bytes → Bytes)

/-- `hashWith` is the specified BMT hash (consequence of `C03_seq_correct`). -/
theorem hashWith_eq (seg d : Nat) (hs : 0 < seg) (stale : Bytes) (hb : stale.length = maxSize seg d)
    (span data : Bytes) (hspan : span.length = 8) (hd : data.length ≤ maxSize seg d) :
    hashWith H seg d stale span data = bmtHash H seg d span data := by
  have := C03_seq_correct H seg d hs stale hb span hspan [data]
  simp only [writes, List.foldl_cons, List.foldl_nil, List.flatten_cons, List.flatten_nil,
    List.append_nil] at this
  rw [List.take_of_length_le hd] at this
  exact this

/-- all inputs on which `H` is evaluated while computing `bmtRoot H seg k x` -/
def rootInputs (seg : Nat) : Nat → Bytes → List Bytes
  | 0, _ => []
  | k + 1, x =>
    (bmtRoot H seg k (x.take (seg * 2 ^ k)) ++ bmtRoot H seg k (x.drop (seg * 2 ^ k)))
      :: (rootInputs seg k (x.take (seg * 2 ^ k)) ++ rootInputs seg k (x.drop (seg * 2 ^ k)))

/-- all inputs on which `H` is evaluated while computing `bmtHash H seg d span data` -/
def hashInputs (seg d : Nat) (span data : Bytes) : List Bytes :=
  (span ++ bmtRoot H seg (d + 1) (pad (maxSize seg d) data)) :: rootInputs H seg (d + 1) (pad (maxSize seg d) data)

/-- no two distinct inputs in `L` collide under `H` -/
def CollisionFree (L : List Bytes) : Prop := ∀ a ∈ L, ∀ b ∈ L, H a = H b → a = b

theorem bmtRoot_length (seg : Nat) (hlen : ∀ x, (H x).length = seg) (k : Nat) (x : Bytes)
    (hx : x.length = seg * 2 ^ k) : (bmtRoot H seg k x).length = seg := by
  cases k with
  | zero => simpa [bmtRoot] using hx
  | succ k => simp [bmtRoot, hlen]

theorem half_lengths (seg k : Nat) (x : Bytes) (hx : x.length = seg * 2 ^ (k + 1)) :
    (x.take (seg * 2 ^ k)).length = seg * 2 ^ k ∧ (x.drop (seg * 2 ^ k)).length = seg * 2 ^ k := by
  have : seg * 2 ^ (k + 1) = seg * 2 ^ k + seg * 2 ^ k := by
    rw [Nat.pow_succ, ← Nat.mul_assoc, Nat.mul_two]
  rw [List.length_take, List.length_drop]; omega

theorem bmtRoot_inj (seg : Nat) (hlen : ∀ x, (H x).length = seg) (k : Nat) (x y : Bytes)
    (hx : x.length = seg * 2 ^ k) (hy : y.length = seg * 2 ^ k)
    (cf : CollisionFree H (rootInputs H seg k x ++ rootInputs H seg k y))
    (h : bmtRoot H seg k x = bmtRoot H seg k y) : x = y := by
  induction k generalizing x y with
  | zero => simpa [bmtRoot] using h
  | succ k ih =>
    obtain ⟨hx1, hx2⟩ := half_lengths seg k x hx
    obtain ⟨hy1, hy2⟩ := half_lengths seg k y hy
    simp only [bmtRoot] at h
    have hin := cf _ (by simp [rootInputs]) _ (by simp [rootInputs]) h
    have hl1 := bmtRoot_length H seg hlen k _ hx1
    have hl2 := bmtRoot_length H seg hlen k _ hy1
    have hsplit := List.append_inj hin (by rw [hl1, hl2])
    have cfL : CollisionFree H (rootInputs H seg k (x.take (seg * 2 ^ k)) ++ rootInputs H seg k (y.take (seg * 2 ^ k))) := by
      intro a ha b hb
      apply cf <;> simp only [rootInputs, List.mem_append, List.mem_cons] at * <;> grind
    have cfR : CollisionFree H (rootInputs H seg k (x.drop (seg * 2 ^ k)) ++ rootInputs H seg k (y.drop (seg * 2 ^ k))) := by
      intro a ha b hb
      apply cf <;> simp only [rootInputs, List.mem_append, List.mem_cons] at * <;> grind
    have e1 := ih _ _ hx1 hy1 cfL hsplit.1
    have e2 := ih _ _ hx2 hy2 cfR hsplit.2
    rw [← List.take_append_drop (seg * 2 ^ k) x, ← List.take_append_drop (seg * 2 ^ k) y, e1, e2]

theorem pad_inj (n : Nat) (a b : Bytes) (hl : a.length = b.length) (h : pad n a = pad n b) : a = b := by
  unfold pad at h
  exact (List.append_inj h hl).1

theorem pad_length (n : Nat) (a : Bytes) (h : a.length ≤ n) : (pad n a).length = n := by
  simp [pad]; omega

/-- The BMT hash is injective on (span, data) pairs of equal lengths, given that `H` has no
    collision among the inputs it is evaluated on in the two computations. -/
theorem bmtHash_inj (seg d : Nat) (hlen : ∀ x, (H x).length = seg)
    (s1 d1 s2 d2 : Bytes) (hs : s1.length = s2.length) (hd : d1.length = d2.length)
    (hd1 : d1.length ≤ maxSize seg d)
    (cf : CollisionFree H (hashInputs H seg d s1 d1 ++ hashInputs H seg d s2 d2))
    (h : bmtHash H seg d s1 d1 = bmtHash H seg d s2 d2) : s1 = s2 ∧ d1 = d2 := by
  unfold bmtHash at h
  have hM : maxSize seg d = seg * 2 ^ (d + 1) := by
    unfold maxSize; rw [Nat.pow_succ, Nat.mul_comm (2 ^ d) 2, ← Nat.mul_assoc, Nat.mul_comm seg 2]
  have hin := cf _ (by simp [hashInputs]) _ (by simp [hashInputs]) h
  have hsplit := List.append_inj hin hs
  have cfR : CollisionFree H (rootInputs H seg (d + 1) (pad (maxSize seg d) d1)
      ++ rootInputs H seg (d + 1) (pad (maxSize seg d) d2)) := by
    intro a ha b hb
    apply cf <;> simp only [hashInputs, List.mem_append, List.mem_cons] at * <;> grind
  have hp := bmtRoot_inj H seg hlen (d + 1) _ _
    (by rw [pad_length _ _ hd1, hM]) (by rw [pad_length _ _ (by omega), hM]) cfR hsplit.2
  exact ⟨hsplit.1, pad_inj _ _ _ hd hp⟩

end Aurora.Cac
