// Package c38: correspondence + oracle for pkg/multicast group membership and flooding (property C38).
package c38

import (
	"bytes"
	"context"
	"fmt"
	"io"
	"strconv"
	"strings"
	"sync"
	"time"

	"github.com/gauss-project/aurorafs/pkg/aurora"
	"github.com/gauss-project/aurorafs/pkg/boson"
	"github.com/gauss-project/aurorafs/pkg/logging"
	"github.com/gauss-project/aurorafs/pkg/multicast"
	"github.com/gauss-project/aurorafs/pkg/multicast/model"
	"github.com/gauss-project/aurorafs/pkg/multicast/pb"
	"github.com/gauss-project/aurorafs/pkg/p2p"
	"github.com/gauss-project/aurorafs/pkg/p2p/protobuf"
	mockRoute "github.com/gauss-project/aurorafs/pkg/routetab/mock"
	"github.com/gauss-project/aurorafs/pkg/subscribe"
	kadMock "github.com/gauss-project/aurorafs/pkg/topology/kademlia/mock"

	"verifharness/core"
)

type prop struct{}

func init() { core.Register(prop{}) }

func (prop) ID() string { return "C38" }
func (prop) Rule() string {
	return "cases run on ONE real multicast.Service (self = peer 0) with a fake IsNeighbor table, capturing streamer and recording SubPub; " +
		"fixed fix-* regressions first; then four families: (m) membership histories over 1-2 groups and 6 peers (nbr toggles, add keep/known, remove into/out of known, prune, lists), " +
		"(p) pruneKnown histories with 21-30 known peers, (f) flooding: groups of every GType, sub flag, then on/mc ops with ids 1..3 and origins {-,0..3} from several neighbours so that " +
		"duplicates and re-deliveries dominate, with seen queries, (b) fallback: messages for a gid without group object while other groups have connected peers, (r) concurrent duplicates: " +
		"the same wire message handed to 12 parallel handler goroutines. " +
		"Non-trivial: m/p: >=1 add and >=1 lists; f/b: a group exists and some (origin,id) occurs in >=2 on/mc ops; r: a race op on a joined, subscribed group."
}

/* ---------- fixed addresses ---------- */

const maxPeers = 40

// raceWidth handler goroutines receive the same message at once in a `race` op.
const raceWidth = 12

func peerAddr(i int) boson.Address {
	b := make([]byte, 32)
	for k := range b {
		b[k] = byte(0x11 * (k % 7))
	}
	b[0] = byte(i) + 1
	b[31] = byte(i)
	return boson.NewAddress(b)
}

func gidAddr(g int) boson.Address {
	b := make([]byte, 32)
	for k := range b {
		b[k] = 0xa0 + byte(g)
	}
	return boson.NewAddress(b)
}

var addrIdx = func() map[string]int {
	m := map[string]int{}
	for i := 0; i < maxPeers; i++ {
		m[peerAddr(i).String()] = i
	}
	return m
}()

func idxOf(a boson.Address) int {
	if i, ok := addrIdx[a.String()]; ok {
		return i
	}
	return -1
}

/* ---------- fakes ---------- */

type route struct {
	mockRoute.MockRouteTable
	nbr map[int]bool
}

func (r *route) IsNeighbor(dest boson.Address) bool { return r.nbr[idxOf(dest)] }

type sent struct {
	to    int
	relay bool
	buf   *bytes.Buffer
}

type stream struct {
	r io.Reader
	w *bytes.Buffer
}

func (s *stream) Read(p []byte) (int, error) {
	if s.r == nil {
		return 0, io.EOF
	}
	return s.r.Read(p)
}
func (s *stream) Write(p []byte) (int, error)  { return s.w.Write(p) }
func (s *stream) Close() error                 { return nil }
func (s *stream) FullClose() error             { return nil }
func (s *stream) Reset() error                 { return nil }
func (s *stream) Headers() p2p.Headers         { return nil }
func (s *stream) ResponseHeaders() p2p.Headers { return nil }

type streamer struct {
	mu   sync.Mutex
	sent []sent
	find func(to int) p2p.Stream // scripted findGroup neighbour (set by the `find` op)
}

func (s *streamer) open(to boson.Address, relay bool, name string) (p2p.Stream, error) {
	if name == "findGroup" {
		s.mu.Lock()
		f := s.find
		s.mu.Unlock()
		if f != nil {
			return f(idxOf(to)), nil
		}
	}
	if name != "multicast" {
		return nil, fmt.Errorf("unexpected stream %s", name)
	}
	b := &bytes.Buffer{}
	s.mu.Lock()
	s.sent = append(s.sent, sent{to: idxOf(to), relay: relay, buf: b})
	s.mu.Unlock()
	return &stream{w: b}, nil
}
func (s *streamer) NewStream(_ context.Context, a boson.Address, _ p2p.Headers, _, _, name string) (p2p.Stream, error) {
	return s.open(a, false, name)
}
func (s *streamer) NewRelayStream(_ context.Context, a boson.Address, _ p2p.Headers, _, _, name string, _ bool) (p2p.Stream, error) {
	return s.open(a, true, name)
}
func (s *streamer) NewConnChainRelayStream(_ context.Context, a boson.Address, _ p2p.Headers, _, _, name string) (p2p.Stream, error) {
	return s.open(a, true, name)
}

type pubEvent struct {
	kind, param string
	msg         interface{}
}

var (
	theKad = kadMock.NewMockKademlia()
	theLog = logging.New(io.Discard, 0)
)

/* ---------- scripted findGroup neighbour ---------- */

// seg: while the findGroup request to neighbour v is in flight, the peers hs complete a handshake
// with us (Group.add(x, true), what updatePeerGroupsJoin does); then v answers with the peers ans.
type seg struct {
	v       int
	hs, ans []int
}

func parseList(s string) ([]int, bool) {
	if s == "-" {
		return nil, true
	}
	var r []int
	for _, t := range strings.Split(s, ",") {
		v, ok := atoi(t)
		if !ok || v >= maxPeers {
			return nil, false
		}
		r = append(r, v)
	}
	return r, true
}

func parseSeg(s string) (seg, bool) {
	f := strings.Split(s, "/")
	if len(f) != 3 {
		return seg{}, false
	}
	v, ok := atoi(f[0])
	h, ok1 := parseList(f[1])
	a, ok2 := parseList(f[2])
	return seg{v, h, a}, ok && ok1 && ok2 && v < maxPeers
}

// findStream is the client side of one findGroup stream: the request is collected; the first Read
// runs the neighbour (the rendezvous: everything it does happens while the request is in flight).
type findStream struct {
	to     int
	req    bytes.Buffer
	answer func(to int, req []byte) []byte
	resp   *bytes.Reader
}

func (s *findStream) Write(p []byte) (int, error) { return s.req.Write(p) }
func (s *findStream) Read(p []byte) (int, error) {
	if s.resp == nil {
		s.resp = bytes.NewReader(s.answer(s.to, s.req.Bytes()))
	}
	return s.resp.Read(p)
}
func (s *findStream) Close() error                 { return nil }
func (s *findStream) FullClose() error             { return nil }
func (s *findStream) Reset() error                 { return nil }
func (s *findStream) Headers() p2p.Headers         { return nil }
func (s *findStream) ResponseHeaders() p2p.Headers { return nil }

/* ---------- runner ---------- */

type key struct {
	origin string
	id     uint64
}

type runner struct {
	svc   *multicast.Service
	rt    *route
	st    *streamer
	sp    *recPub
	hnd   p2p.HandlerFunc
	notif map[key]int // oracle: subscriber notifications per (origin,id)
	fwd   map[key]int // oracle: executions of the forwarding part per (origin,id)
}

func (prop) New() core.Runner {
	multicast.VerifResetCache()
	rn := &runner{rt: &route{nbr: map[int]bool{}}, st: &streamer{}, sp: &recPub{}, notif: map[key]int{}, fwd: map[key]int{}}
	rn.svc = multicast.NewService(peerAddr(0), aurora.NewModel(), nil, rn.st, theKad, rn.rt, theLog, rn.sp, multicast.Option{Dev: true})
	for _, s := range rn.svc.Protocol().StreamSpecs {
		if s.Name == "multicast" {
			rn.hnd = s.Handler
		}
	}
	return rn
}
func (*runner) Close() {}

func atoi(s string) (int, bool) {
	v, err := strconv.Atoi(s)
	return v, err == nil && v >= 0
}
func abool(s string) (bool, bool) { return s == "1", s == "0" || s == "1" }

func peersStr(l []boson.Address) string {
	if len(l) == 0 {
		return "-"
	}
	var s []string
	for _, a := range l {
		s = append(s, strconv.Itoa(idxOf(a)))
	}
	return strings.Join(s, ",")
}

func idxs(l []boson.Address) []int {
	var r []int
	for _, a := range l {
		r = append(r, idxOf(a))
	}
	return r
}

func has(l []int, x int) bool {
	for _, y := range l {
		if y == x {
			return true
		}
	}
	return false
}

// checkLists is the model-free partition oracle on the three real lists.
func (rn *runner) checkLists(ctx *core.Ctx, g *multicast.VerifGroup, what string) (c, k, n []int) {
	ca, ka, na := g.Lists()
	c, k, n = idxs(ca), idxs(ka), idxs(na)
	names := []string{"connected", "kept", "known"}
	ls := [][]int{c, k, n}
	for li, l := range ls {
		seen := map[int]bool{}
		for _, p := range l {
			if seen[p] {
				ctx.Fail("list-duplicate", "after %s: peer %d twice in %s", what, p, names[li])
			}
			seen[p] = true
		}
	}
	for i := 0; i < 3; i++ {
		for j := i + 1; j < 3; j++ {
			for _, p := range ls[i] {
				if has(ls[j], p) {
					ctx.Fail("lists-overlap", "after %s: peer %d in %s and %s", what, p, names[i], names[j])
				}
			}
		}
	}
	return
}

func (rn *runner) originAddr(s string) ([]byte, bool) {
	if s == "-" {
		return nil, true
	}
	i, ok := atoi(s)
	if !ok || i >= maxPeers {
		return nil, false
	}
	return peerAddr(i).Bytes(), true
}

// observe decodes what the call sent and what it published, and runs the flooding oracle.
func (rn *runner) observe(ctx *core.Ctx, what string, gidx int, inOrigin []byte, inID uint64, skip []int, data []byte, isOn bool) string {
	g := rn.svc.VerifGetGroup(gidAddr(gidx))
	// published events
	notified, fwd := 0, 0
	var fkey key
	for _, e := range rn.sp.drain() {
		switch e.kind {
		case "multicastMsg":
			notified++
			m, ok := e.msg.(multicast.Message)
			if !ok || e.param != gidAddr(gidx).String() || !bytes.Equal(m.Origin.Bytes(), inOrigin) || m.ID != inID {
				ctx.Fail("notify-wrong-message", "%s: subscribers got %v under %s", what, e.msg, e.param)
			}
			k := key{boson.NewAddress(inOrigin).String(), inID}
			rn.notif[k]++
			if rn.notif[k] > 1 {
				ctx.Fail("deliver-twice", "%s: subscribers notified %d times for origin=%d id=%d", what, rn.notif[k], idxOf(boson.NewAddress(inOrigin)), inID)
			}
		case "logContent":
			lc, ok := e.msg.(multicast.LogContent)
			if ok && lc.Event == "multicast_deliver" {
				fwd++
				m := lc.Data
				fkey = key{m.Origin.String(), m.ID}
				rn.fwd[fkey]++
				if rn.fwd[fkey] > 1 {
					ctx.Fail("forward-twice", "%s: forwarding part ran %d times for origin=%d id=%d", what, rn.fwd[fkey], idxOf(m.Origin), m.ID)
				}
			}
		}
	}
	if notified > 1 {
		ctx.Fail("deliver-twice", "%s: %d notifications in one call", what, notified)
	}
	if notified > 0 && (g == nil || g.Option().GType != model.GTypeJoin) {
		ctx.Fail("notified-not-joined", "%s: subscribers notified although the node has not joined gid %d", what, gidx)
	}
	// sends
	rn.st.mu.Lock()
	sends := rn.st.sent
	rn.st.sent = nil
	rn.st.mu.Unlock()
	if len(sends) > 0 && fwd == 0 {
		ctx.Fail("send-without-forward", "%s: %d sends but the message was de-duplicated", what, len(sends))
	}
	var outs []string
	var tos []int
	var stampedID uint64 = inID
	if fwd > 0 {
		stampedID = fkey.id
	}
	for _, s := range sends {
		m := &pb.MulticastMsg{}
		if err := protobuf.NewReader(bytes.NewReader(s.buf.Bytes())).ReadMsg(m); err != nil {
			ctx.Fail("send-undecodable", "%s: copy to %d: %v", what, s.to, err)
			outs = append(outs, "?")
			continue
		}
		wantOrigin := inOrigin
		if len(inOrigin) == 0 {
			wantOrigin = peerAddr(0).Bytes()
		}
		if !bytes.Equal(m.Origin, wantOrigin) || m.Id != stampedID || !bytes.Equal(m.Gid, gidAddr(gidx).Bytes()) || !bytes.Equal(m.Data, data) {
			ctx.Fail("copy-mismatch", "%s: copy to %d differs from the message (id %d)", what, s.to, m.Id)
		}
		if has(skip, s.to) {
			if isOn {
				ctx.Fail("sent-back-to-sender", "%s: forwarded to the peer it came from (%d)", what, s.to)
			} else {
				ctx.Fail("sent-to-skip", "%s: sent to skipped peer %d", what, s.to)
			}
		}
		if s.relay == rn.rt.nbr[s.to] {
			ctx.Fail("stream-kind", "%s: peer %d neighbour=%v but relay=%v", what, s.to, rn.rt.nbr[s.to], s.relay)
		}
		tos = append(tos, s.to)
		o := strconv.Itoa(s.to)
		if s.relay {
			o += "r"
		}
		outs = append(outs, o)
	}
	if g != nil {
		ca, ka, _ := g.Lists()
		members := append(idxs(ca), idxs(ka)...)
		for _, t := range tos {
			if !has(members, t) {
				ctx.Fail("send-outside-group", "%s: sent to %d which is neither connected nor kept in gid %d", what, t, gidx)
			}
		}
		if fwd > 0 {
			for _, m := range members {
				if !has(skip, m) && !has(tos, m) {
					ctx.Fail("send-missing-member", "%s: member %d of gid %d got no copy", what, m, gidx)
				}
			}
		}
		seen := map[int]bool{}
		for _, t := range tos {
			if seen[t] {
				ctx.Fail("send-duplicate", "%s: two copies to %d", what, t)
			}
			seen[t] = true
		}
	} else {
		fb := []string{"fb"}
		for _, t := range tos {
			fb = append(fb, strconv.Itoa(t))
		}
		ctx.Annotate(fb...)
	}
	so := "-"
	if len(outs) > 0 {
		so = strings.Join(outs, ",")
	}
	nf := 0
	if notified > 0 {
		nf = 1
	}
	ff := 0
	if fwd > 0 {
		ff = 1
	}
	ids := "-" // the id under which the forwarding part ran (stamped when the origin was empty)
	if fwd > 0 {
		ids = strconv.FormatUint(stampedID, 10)
	}
	return fmt.Sprintf("notified=%d fwd=%d id=%s sends=%s", nf, ff, ids, so)
}

func wire(m *pb.MulticastMsg) []byte {
	b := &bytes.Buffer{}
	_ = protobuf.NewWriter(b).WriteMsg(m)
	return b.Bytes()
}

func (rn *runner) Step(ctx *core.Ctx, op []string) string {
	if len(op) == 0 {
		return "bad-op"
	}
	switch {
	case op[0] == "group" && len(op) == 3:
		g, ok := atoi(op[1])
		var t model.GType
		switch op[2] {
		case "join":
			t = model.GTypeJoin
		case "observe":
			t = model.GTypeObserve
		case "known":
			t = model.GTypeKnown
		default:
			ok = false
		}
		if !ok {
			return "bad-op"
		}
		if vg := rn.svc.VerifGetGroup(gidAddr(g)); vg != nil {
			vg.SetOption(model.ConfigNodeGroup{Name: "g", GType: t})
		} else {
			rn.svc.VerifNewGroup(gidAddr(g), model.ConfigNodeGroup{Name: "g", GType: t})
		}
		return "ok"
	case op[0] == "sub" && len(op) == 3:
		g, ok := atoi(op[1])
		b, ok2 := abool(op[2])
		if !ok || !ok2 {
			return "bad-op"
		}
		vg := rn.svc.VerifGetGroup(gidAddr(g))
		if vg == nil {
			return "nogroup"
		}
		vg.SetMulticastSub(b)
		return "ok"
	case op[0] == "nbr" && len(op) == 3:
		p, ok := atoi(op[1])
		b, ok2 := abool(op[2])
		if !ok || !ok2 {
			return "bad-op"
		}
		rn.rt.nbr[p] = b
		return "ok"
	case (op[0] == "add" || op[0] == "remove") && len(op) == 4:
		g, ok := atoi(op[1])
		p, ok1 := atoi(op[2])
		b, ok2 := abool(op[3])
		if !ok || !ok1 || !ok2 || p >= maxPeers {
			return "bad-op"
		}
		vg := rn.svc.VerifGetGroup(gidAddr(g))
		if vg == nil {
			return "nogroup"
		}
		c0, k0, n0 := rn.checkLists(ctx, vg, "before "+op[0])
		what := strings.Join(op, " ")
		if op[0] == "add" {
			vg.Add(peerAddr(p), b)
		} else {
			vg.Remove(peerAddr(p), b)
		}
		c1, k1, n1 := rn.checkLists(ctx, vg, what)
		// a peer enters `connected` only through add(p, keep=true) with IsNeighbor(p)
		for _, x := range c1 {
			if !has(c0, x) && !(op[0] == "add" && b && x == p && rn.rt.nbr[p]) {
				ctx.Fail("connected-not-neighbor", "%s: peer %d entered connected (neighbour=%v)", what, x, rn.rt.nbr[x])
			}
		}
		if op[0] == "remove" {
			if has(c1, p) || has(k1, p) {
				ctx.Fail("disconnect-keeps-peer", "%s: peer still connected/kept", what)
			}
			if !b && has(n1, p) {
				ctx.Fail("remove-keeps-known", "%s: peer still known", what)
			}
			if b && (has(c0, p) || has(k0, p) || has(n0, p)) && !has(n1, p) {
				ctx.Fail("remove-into-known-lost", "%s: peer not known afterwards", what)
			}
		} else {
			switch {
			case !b && !(has(n1, p) && !has(c1, p) && !has(k1, p)):
				ctx.Fail("add-known-placement", "%s: peer not (only) in known", what)
			case b && rn.rt.nbr[p] && !has(c1, p):
				ctx.Fail("add-connected-placement", "%s: neighbour not in connected", what)
			case b && !rn.rt.nbr[p] && !has(k1, p):
				ctx.Fail("add-kept-placement", "%s: non-neighbour not in kept", what)
			}
		}
		// nobody else moves between lists or disappears
		for _, x := range append(append(append([]int{}, c0...), k0...), n0...) {
			if x != p && (has(c0, x) != has(c1, x) || has(k0, x) != has(k1, x) || has(n0, x) != has(n1, x)) {
				ctx.Fail("bystander-moved", "%s: peer %d changed lists", what, x)
			}
		}
		rn.sp.drain()
		return "ok"
	case op[0] == "prune" && len(op) == 2:
		g, ok := atoi(op[1])
		if !ok {
			return "bad-op"
		}
		vg := rn.svc.VerifGetGroup(gidAddr(g))
		if vg == nil {
			return "nogroup"
		}
		c0, k0, n0 := rn.checkLists(ctx, vg, "before prune")
		vg.PruneKnown()
		c1, k1, n1 := rn.checkLists(ctx, vg, "prune")
		max := multicast.VerifMaxKnownPeers
		want := n0
		if len(n0) > max {
			want = n0[len(n0)-max:]
		}
		if len(n1) != len(want) {
			ctx.Fail("prune-bound", "prune: %d known peers left of %d (max %d)", len(n1), len(n0), max)
		}
		for _, x := range want {
			if !has(n1, x) {
				ctx.Fail("prune-wrong-peers", "prune: peer %d is not among the oldest %d but was removed", x, len(n0)-len(want))
			}
		}
		if len(c0) != len(c1) || len(k0) != len(k1) {
			ctx.Fail("prune-touches-members", "prune changed connected/kept")
		}
		return "ok"
	case op[0] == "lists" && len(op) == 2:
		g, ok := atoi(op[1])
		if !ok {
			return "bad-op"
		}
		vg := rn.svc.VerifGetGroup(gidAddr(g))
		if vg == nil {
			return "nogroup"
		}
		rn.checkLists(ctx, vg, "lists")
		c, k, n := vg.Lists()
		return fmt.Sprintf("c=%s k=%s n=%s", peersStr(c), peersStr(k), peersStr(n))
	case op[0] == "seen" && len(op) == 3:
		o, ok := rn.originAddr(op[1])
		id, ok2 := atoi(op[2])
		if !ok || !ok2 {
			return "bad-op"
		}
		os := boson.NewAddress(o).String()
		return fmt.Sprintf("on=%s mc=%s", core.B(multicast.VerifSeen(fmt.Sprintf("onMulticast_%s_%d", os, id))),
			core.B(multicast.VerifSeen(fmt.Sprintf("Multicast_%s_%d", os, id))))
	case op[0] == "on" && len(op) == 5:
		f, ok := atoi(op[1])
		o, ok1 := rn.originAddr(op[2])
		id, ok2 := atoi(op[3])
		g, ok3 := atoi(op[4])
		if !ok || !ok1 || !ok2 || !ok3 || f >= maxPeers {
			return "bad-op"
		}
		data := []byte{byte(id), 0xda}
		w := wire(&pb.MulticastMsg{Id: uint64(id), CreateTime: 7, Origin: o, Gid: gidAddr(g).Bytes(), Data: data})
		rn.sp.drain()
		rn.st.sent = nil
		err := rn.hnd(context.Background(), p2p.Peer{Address: peerAddr(f)}, &stream{r: bytes.NewReader(w), w: &bytes.Buffer{}})
		if err != nil {
			ctx.Fail("handler-error", "onMulticast returned %v", err)
		}
		return rn.observe(ctx, strings.Join(op, " "), g, o, uint64(id), []int{f}, data, true)
	case op[0] == "mc" && len(op) >= 4:
		o, ok1 := rn.originAddr(op[1])
		id, ok2 := atoi(op[2])
		g, ok3 := atoi(op[3])
		if !ok1 || !ok2 || !ok3 {
			return "bad-op"
		}
		var skip []int
		var skipA []boson.Address
		for _, s := range op[4:] {
			p, ok := atoi(s)
			if !ok || p >= maxPeers {
				return "bad-op"
			}
			skip = append(skip, p)
			skipA = append(skipA, peerAddr(p))
		}
		data := []byte{byte(id), 0xdb}
		rn.sp.drain()
		rn.st.sent = nil
		if err := rn.svc.Multicast(&pb.MulticastMsg{Id: uint64(id), Origin: o, Gid: gidAddr(g).Bytes(), Data: data}, skipA...); err != nil {
			ctx.Fail("multicast-error", "Multicast returned %v", err)
		}
		return rn.observe(ctx, strings.Join(op, " "), g, o, uint64(id), skip, data, false)
	case op[0] == "race" && len(op) == 5:
		// the same wire message handed to raceWidth handler goroutines at once (two neighbours forwarding
		// the same multicast simultaneously); output is schedule-independent, the oracle counts.
		f, ok := atoi(op[1])
		o, ok1 := rn.originAddr(op[2])
		id, ok2 := atoi(op[3])
		g, ok3 := atoi(op[4])
		if !ok || !ok1 || !ok2 || !ok3 || f >= maxPeers {
			return "bad-op"
		}
		w := wire(&pb.MulticastMsg{Id: uint64(id), CreateTime: 7, Origin: o, Gid: gidAddr(g).Bytes(), Data: []byte{1}})
		rn.sp.drain()
		rn.st.sent = nil
		var wg sync.WaitGroup
		start := make(chan struct{})
		for i := 0; i < raceWidth; i++ {
			wg.Add(1)
			go func(i int) {
				defer wg.Done()
				st := &stream{r: bytes.NewReader(w), w: &bytes.Buffer{}}
				<-start
				_ = rn.hnd(context.Background(), p2p.Peer{Address: peerAddr((f + i) % 6)}, st)
			}(i)
		}
		close(start)
		wg.Wait()
		notified, fwd := 0, 0
		for _, e := range rn.sp.drain() {
			if e.kind == "multicastMsg" {
				notified++
			}
			if lc, ok := e.msg.(multicast.LogContent); ok && lc.Event == "multicast_deliver" {
				fwd++
			}
		}
		rn.st.mu.Lock()
		rn.st.sent = nil
		rn.st.mu.Unlock()
		k := key{boson.NewAddress(o).String(), uint64(id)}
		if notified+rn.notif[k] > 1 {
			ctx.Fail("deliver-twice-concurrent", "race: subscribers notified %d times for one (origin,id)", notified+rn.notif[k])
		}
		if fwd+rn.fwd[k] > 1 {
			ctx.Fail("forward-twice-concurrent", "race: forwarding part ran %d times for one (origin,id)", fwd+rn.fwd[k])
		}
		rn.notif[k] += notified
		rn.fwd[k] += fwd
		return "ok"
	case op[0] == "find" && len(op) >= 3:
		return rn.find(ctx, op)
	case op[0] == "burst" && len(op) == 7:
		return rn.burst(ctx, op)
	}
	return "bad-op"
}

// find: one real discovery round (Service.discover → doFindGroup) against scripted neighbours.
// `find g kp v/h,…/a,… …`: option.KeepPingPeers = kp for the round; neighbour v, when asked, lets the
// peers h handshake with us first (while the request is in flight) and answers with the peers a;
// neighbours without a segment answer with no peers.
func (rn *runner) find(ctx *core.Ctx, op []string) string {
	g, ok := atoi(op[1])
	kp, ok1 := atoi(op[2])
	if !ok || !ok1 {
		return "bad-op"
	}
	script := map[int]seg{}
	for _, t := range op[3:] {
		sg, ok := parseSeg(t)
		if !ok {
			return "bad-op"
		}
		if _, dup := script[sg.v]; !dup { // the first segment for a neighbour counts (List.find?)
			script[sg.v] = sg
		}
	}
	vg := rn.svc.VerifGetGroup(gidAddr(g))
	if vg == nil {
		return "nogroup"
	}
	what := strings.Join(op, " ")
	rn.checkLists(ctx, vg, "before find")
	var asked []string
	var fails [][2]string // (clause, message) — reported from the Step goroutine
	answer := func(to int, reqb []byte) []byte {
		req := &pb.FindGroupReq{}
		if err := protobuf.NewReader(bytes.NewReader(reqb)).ReadMsg(req); err != nil {
			fails = append(fails, [2]string{"find-request-undecodable", fmt.Sprintf("%s: request to %d: %v", what, to, err)})
		}
		asked = append(asked, fmt.Sprintf("%d:%d", to, req.Limit))
		// model-free: the request names self and all current members as already known (Paths).
		// (The asked peer itself need not be a member any more: the loops run over BinPeers snapshots.)
		ca, ka, _ := vg.Lists()
		members := append(idxs(ca), idxs(ka)...)
		var paths []int
		for _, p := range req.Paths {
			paths = append(paths, idxOf(boson.NewAddress(p)))
		}
		for _, m := range append([]int{0}, members...) {
			if !has(paths, m) {
				fails = append(fails, [2]string{"find-paths", fmt.Sprintf("%s: request to %d does not list %d in Paths", what, to, m)})
			}
		}
		if !bytes.Equal(req.Gid, gidAddr(g).Bytes()) {
			fails = append(fails, [2]string{"find-gid", fmt.Sprintf("%s: request to %d for another gid", what, to)})
		}
		sg := script[to]
		for _, x := range sg.hs {
			vg.Add(peerAddr(x), true) // handshake completes while our request is in flight
		}
		resp := &pb.FindGroupResp{}
		if sc, scripted := script[to]; scripted {
			for _, a := range sc.ans {
				resp.Addresses = append(resp.Addresses, peerAddr(a).Bytes())
			}
		}
		return wire2(resp)
	}
	rn.st.mu.Lock()
	rn.st.find = func(to int) p2p.Stream { return &findStream{to: to, answer: answer} }
	rn.st.mu.Unlock()
	rn.svc.VerifDiscover(gidAddr(g), 0, kp)
	rn.st.mu.Lock()
	rn.st.find = nil
	rn.st.sent = nil
	rn.st.mu.Unlock()
	rn.sp.drain()
	for _, f := range fails {
		ctx.Fail(f[0], "%s", f[1])
	}
	rn.checkLists(ctx, vg, what)
	c, k, n := vg.Lists()
	as := "-"
	if len(asked) > 0 {
		as = strings.Join(asked, ",")
	}
	return fmt.Sprintf("asked=%s c=%s k=%s n=%s", as, peersStr(c), peersStr(k), peersStr(n))
}

func wire2(m *pb.FindGroupResp) []byte {
	b := &bytes.Buffer{}
	_ = protobuf.NewWriter(b).WriteMsg(m)
	return b.Bytes()
}

// burstGap: pause between the burst and the late duplicate (gcache applies capacity evictions from
// its 1 s timer; the de-duplication window is one minute).
const burstGap = 2200 * time.Millisecond

// burst: `burst f o base n g f2` — n distinct messages (origin o, ids base…base+n-1, gid g) through the
// real stream handler from neighbour f, a pause well inside the one-minute window, then a duplicate of
// the FIRST message from neighbour f2.
func (rn *runner) burst(ctx *core.Ctx, op []string) string {
	f, ok := atoi(op[1])
	o, ok1 := rn.originAddr(op[2])
	base, ok2 := atoi(op[3])
	n, ok3 := atoi(op[4])
	g, ok4 := atoi(op[5])
	f2, ok5 := atoi(op[6])
	if !ok || !ok1 || !ok2 || !ok3 || !ok4 || !ok5 || f >= maxPeers || f2 >= maxPeers || len(o) == 0 || n == 0 || n > 5000 {
		return "bad-op"
	}
	if rn.svc.VerifGetGroup(gidAddr(g)) == nil {
		return "nogroup"
	}
	what := strings.Join(op, " ")
	os := boson.NewAddress(o).String()
	deliver := func(from, id int, late bool) (int, int) {
		w := wire(&pb.MulticastMsg{Id: uint64(id), CreateTime: 7, Origin: o, Gid: gidAddr(g).Bytes(), Data: []byte{0xb5}})
		if err := rn.hnd(context.Background(), p2p.Peer{Address: peerAddr(from)}, &stream{r: bytes.NewReader(w), w: &bytes.Buffer{}}); err != nil {
			ctx.Fail("handler-error", "onMulticast returned %v", err)
		}
		notified, fwd := 0, 0
		for _, e := range rn.sp.drain() {
			if e.kind == "multicastMsg" {
				notified++
			}
			if lc, ok := e.msg.(multicast.LogContent); ok && lc.Event == "multicast_deliver" {
				fwd++
			}
		}
		rn.st.mu.Lock()
		rn.st.sent = nil
		rn.st.mu.Unlock()
		k := key{os, uint64(id)}
		rn.notif[k] += notified
		rn.fwd[k] += fwd
		sfx := ""
		if late {
			sfx = "-window"
		}
		if rn.notif[k] > 1 {
			ctx.Fail("deliver-twice"+sfx, "%s: subscribers notified %d times for origin=%d id=%d (duplicate from %d, inside the window)", what, rn.notif[k], idxOf(boson.NewAddress(o)), id, from)
		}
		if rn.fwd[k] > 1 {
			ctx.Fail("forward-twice"+sfx, "%s: forwarding part ran %d times for origin=%d id=%d (duplicate from %d, inside the window)", what, rn.fwd[k], idxOf(boson.NewAddress(o)), id, from)
		}
		return notified, fwd
	}
	rn.sp.drain()
	tn, tf := 0, 0
	for i := 0; i < n; i++ {
		a, b := deliver(f, base+i, false)
		tn += a
		tf += b
	}
	time.Sleep(burstGap)
	dn, df := deliver(f2, base, true)
	return fmt.Sprintf("notified=%d fwd=%d dup=%s%s", tn, tf, core.B(dn > 0), core.B(df > 0))
}

/* ---------- recording SubPub ---------- */

type recPub struct {
	mu  sync.Mutex
	evs []pubEvent
}

func (s *recPub) drain() []pubEvent {
	s.mu.Lock()
	defer s.mu.Unlock()
	e := s.evs
	s.evs = nil
	return e
}

func (s *recPub) Subscribe(subscribe.INotifier, string, string, string) error { return nil }
func (s *recPub) Publish(_ string, kind string, param string, message interface{}) error {
	s.mu.Lock()
	s.evs = append(s.evs, pubEvent{kind: kind, param: param, msg: message})
	s.mu.Unlock()
	return nil
}
func (s *recPub) PublishArray(_ string, kind string, param string, l []interface{}) error {
	for _, m := range l {
		_ = s.Publish("", kind, param, m)
	}
	return nil
}

var _ subscribe.SubPub = (*recPub)(nil)

/* ---------- generator ---------- */

func (prop) Gen(r *core.Rand, tier string) []core.Case {
	n := 700
	if tier == "thorough" {
		n = 25000
	}
	cs := []core.Case{
		// PSlice.Remove moves the last element into the hole: order after removal
		{ID: "fix-swap-remove", NT: true, Ops: []string{"group 0 join", "add 0 1 0", "add 0 2 0", "add 0 3 0", "add 0 4 0", "remove 0 2 0", "lists 0",
			"nbr 3 1", "add 0 3 1", "add 0 1 1", "lists 0", "remove 0 3 1", "remove 0 1 1", "remove 0 5 1", "lists 0"}},
		// neighbour answer changes between adds: connected <-> kept, disconnect event
		{ID: "fix-nbr-flip", NT: true, Ops: []string{"group 1 observe", "nbr 2 1", "add 1 2 1", "lists 1", "nbr 2 0", "add 1 2 1", "lists 1", "nbr 2 1", "add 1 2 1", "lists 1",
			"add 1 2 0", "lists 1", "add 1 2 1", "remove 1 2 1", "lists 1", "remove 1 2 1", "remove 1 2 0", "lists 1"}},
		pruneCase("fix-prune-21", 21, nil),
		pruneCase("fix-prune-27", 27, nil),
		// duplicate and re-delivery from another neighbour, then the API call with the same key
		{ID: "fix-dup-delivery", NT: true, Ops: []string{"group 0 join", "sub 0 1", "nbr 1 1", "nbr 2 1", "add 0 1 1", "add 0 2 1", "add 0 3 1",
			"on 1 4 9 0", "on 1 4 9 0", "on 2 4 9 0", "mc 4 9 0", "seen 4 9", "on 2 4 10 0", "mc 4 11 0 3", "on 1 4 11 0", "seen 4 11"}},
		// own message comes back; empty origin on the wire is re-stamped by the receiver
		{ID: "fix-origin-self", NT: true, Ops: []string{"group 0 join", "sub 0 1", "nbr 1 1", "add 0 1 1", "add 0 2 1", "mc - 0 0", "on 1 0 1 0", "on 2 0 1 0", "seen 0 1",
			"mc - 0 0 1", "on 1 - 5 0", "on 2 - 5 0", "seen - 5", "seen 0 3"}},
		// not joined / not subscribed: no notification but still forwarded
		{ID: "fix-not-joined", NT: true, Ops: []string{"group 0 observe", "sub 0 1", "add 0 1 1", "on 2 3 1 0", "group 0 join", "on 2 3 2 0", "sub 0 0", "on 2 3 3 0", "group 0 known", "sub 0 1", "on 2 3 4 0", "on 2 3 1 0"}},
		// no group object for the gid: getForwardNodes through another group's connected peers
		{ID: "fix-fallback", NT: true, Ops: []string{"group 1 known", "nbr 1 1", "nbr 2 1", "nbr 3 1", "add 1 1 1", "add 1 2 1", "add 1 3 1", "add 1 4 1", "on 1 5 1 0", "on 2 5 1 0", "mc 5 2 0", "mc 5 2 0",
			"group 2 join", "add 2 5 1", "nbr 5 1", "add 2 5 1", "on 3 4 7 0", "lists 0", "add 0 1 1", "sub 0 1"}},
		{ID: "fix-race", NT: true, Ops: []string{"group 0 join", "sub 0 1", "nbr 1 1", "add 0 1 1", "add 0 2 1", "race 1 4 1 0", "race 2 4 2 0", "race 1 4 3 0", "race 3 4 1 0", "seen 4 1", "on 1 4 1 0"}},
		{ID: "fix-malformed", NT: false, Ops: []string{"lists 0", "add 0 1 1", "prune 0", "sub 0 1", "group 0 bogus", "add x 1 1", "on 1 2 3", "mc 1", "frob", "nbr 1 2", "seen 1 1", "on 1 2 3 0", "race 1 2 3 0",
			"find 0 3 1/-/2", "find 0", "find 0 x", "find 0 3 1/2", "find 0 3 1/a/2", "burst 1 - 5 3 0 2", "burst 1 2 5 0 0 2", "burst 1 2 5 3 0"}},
		// a member handshakes while the findGroup request is in flight and the answer names it
		// (seeded change C38-3: doFindGroup wrote answers straight into knownPeers): non-neighbour -> kept, neighbour -> connected
		{ID: "fix-find-inflight", NT: true, Ops: []string{"group 0 join", "nbr 1 1", "add 0 1 1", "find 0 1000 1/2/2,3", "lists 0",
			"nbr 4 1", "find 0 1000 1/4/4,5", "lists 0", "add 0 6 1", "find 0 1000 6/7/7 1/-/6,1", "lists 0", "find 0 1000 1/3,2/-", "find 0 1000", "lists 0"}},
		// limit(): KeepPingPeers small — the round stops as soon as enough peers are kept; kept peers are asked after the connected ones
		{ID: "fix-find-limit", NT: true, Ops: []string{"group 1 observe", "nbr 1 1", "nbr 2 1", "add 1 1 1", "add 1 2 1", "add 1 3 1", "find 1 1 1/4/4", "find 1 2 1/4/5 2/6/6", "lists 1",
			"find 1 3 1/-/7 2/8/8 3/9/9,1", "lists 1", "find 1 0 1/-/9", "find 2 3 1/-/9"}},
		// findGroup answers fill the known list beyond maxKnownPeers: pruneKnown at the end of the round
		{ID: "fix-find-prune", NT: true, Ops: []string{"group 0 known", "nbr 1 1", "add 0 1 1", "find 0 1000 1/30/10,11,12,13,14,15,16,17,18,19,20,21", "find 0 1000 1/-/22,23,24,25,26,27,28,29,30,31,32,33", "lists 0"}},
		// de-duplication entries live for the whole window: > 2 x 1024 cache entries, then a late duplicate of the first message
		// (seeded change C38-4: gcache.New(1024) evicts least-recently-used entries regardless of expiry)
		{ID: "fix-burst-window", NT: true, Ops: []string{"group 0 join", "sub 0 1", "nbr 1 1", "nbr 2 1", "add 0 1 1", "add 0 2 1", "add 0 3 1",
			"burst 1 4 1000 1100 0 2", "seen 4 1000", "mc 4 1000 0"}},
	}
	// regression for the non-atomic de-duplication check (fixed: property=C38): before the repair about
	// 1 in 250 of these concurrent duplicates was delivered twice, so 4000 of them expose it with high probability (a stress test: detection is probabilistic)
	cd := core.Case{ID: "fix-concurrent-dup", NT: true, Ops: []string{"group 0 join", "sub 0 1", "nbr 1 1", "add 0 1 1", "add 0 2 1"}}
	for i := 1; i <= 4000; i++ {
		cd.Ops = append(cd.Ops, fmt.Sprintf("race %d 4 %d 0", 1+i%5, i))
	}
	cd.Ops = append(cd.Ops, "seen 4 1", "seen 4 4000", "on 3 4 77 0")
	cs = append(cs, cd)
	for i := 0; i < n; i++ {
		rr := r.Fork()
		var c core.Case
		switch d := rr.Intn(23); {
		case d < 7:
			c = memberCase(rr)
		case d < 9:
			c = pruneCase("", rr.Range(18, 30), rr)
		case d < 16:
			c = floodCase(rr, false)
		case d < 19:
			c = floodCase(rr, true)
		case d < 20:
			c = raceCase(rr)
		default:
			c = discCase(rr)
		}
		c.ID = fmt.Sprintf("g%d%s", i, c.ID)
		cs = append(cs, c)
	}
	return cs
}

func b01(b bool) string { return core.B(b) }

func memberOp(r *core.Rand, g int, np int) string {
	p := r.Range(0, np)
	switch r.Intn(12) {
	case 0, 1:
		return fmt.Sprintf("nbr %d %s", p, b01(r.Bool()))
	case 2, 3, 4:
		return fmt.Sprintf("add %d %d 1", g, p)
	case 5, 6:
		return fmt.Sprintf("add %d %d 0", g, p)
	case 7, 8:
		return fmt.Sprintf("remove %d %d 1", g, p)
	case 9:
		return fmt.Sprintf("remove %d %d 0", g, p)
	case 10:
		return fmt.Sprintf("prune %d", g)
	default:
		return fmt.Sprintf("lists %d", g)
	}
}

func memberCase(r *core.Rand) core.Case {
	c := core.Case{ID: "m"}
	ng := r.Range(1, 2)
	gt := []string{"join", "observe", "known"}
	for g := 0; g < ng; g++ {
		if r.Chance(90) {
			c.Ops = append(c.Ops, fmt.Sprintf("group %d %s", g, gt[r.Intn(3)]))
		}
	}
	for p := 1; p <= 6; p++ {
		if r.Bool() {
			c.Ops = append(c.Ops, fmt.Sprintf("nbr %d 1", p))
		}
	}
	adds, lists := 0, 0
	for k, n := 0, r.Range(6, 40); k < n; k++ {
		op := memberOp(r, r.Intn(ng), 6)
		if strings.HasPrefix(op, "add") {
			adds++
		}
		c.Ops = append(c.Ops, op)
		if r.Chance(25) {
			c.Ops = append(c.Ops, fmt.Sprintf("lists %d", r.Intn(ng)))
			lists++
		}
	}
	for g := 0; g < ng; g++ {
		c.Ops = append(c.Ops, fmt.Sprintf("lists %d", g))
		lists++
	}
	c.NT = adds > 0 && lists > 0
	return c
}

// pruneCase fills the known list of group 0 with `cnt` peers (some moved around first) and prunes.
func pruneCase(id string, cnt int, r *core.Rand) core.Case {
	c := core.Case{ID: "p", NT: true}
	if id != "" {
		c.ID = id
	}
	c.Ops = append(c.Ops, "group 0 known")
	for p := 1; p <= cnt; p++ {
		c.Ops = append(c.Ops, fmt.Sprintf("add 0 %d 0", p))
		if r != nil && r.Chance(15) {
			q := r.Range(1, p)
			switch r.Intn(4) {
			case 0:
				c.Ops = append(c.Ops, fmt.Sprintf("remove 0 %d 0", q))
			case 1:
				c.Ops = append(c.Ops, fmt.Sprintf("nbr %d %s", q, b01(r.Bool())), fmt.Sprintf("add 0 %d 1", q))
			case 2:
				c.Ops = append(c.Ops, fmt.Sprintf("remove 0 %d 1", q))
			default:
				c.Ops = append(c.Ops, "prune 0")
			}
		}
	}
	c.Ops = append(c.Ops, "lists 0", "prune 0", "lists 0", "prune 0", "lists 0")
	if r != nil {
		for k := 0; k < 4; k++ {
			c.Ops = append(c.Ops, fmt.Sprintf("add 0 %d 0", r.Range(1, 35)))
		}
		c.Ops = append(c.Ops, "prune 0", "lists 0")
	} else {
		c.Ops = append(c.Ops, "add 0 31 0", "add 0 32 0", "remove 0 30 1", "prune 0", "lists 0")
	}
	return c
}

func floodCase(r *core.Rand, fallback bool) core.Case {
	c := core.Case{ID: "f"}
	if fallback {
		c.ID = "b"
	}
	gt := []string{"join", "join", "join", "observe", "known"}
	groups := []int{}
	for g := 0; g < 3; g++ {
		if fallback && g == 0 {
			continue // gid 0 has no group object (mostly)
		}
		if r.Chance(70) || (fallback && g == 1) {
			c.Ops = append(c.Ops, fmt.Sprintf("group %d %s", g, gt[r.Intn(len(gt))]))
			if r.Chance(80) {
				c.Ops = append(c.Ops, fmt.Sprintf("sub %d 1", g))
			}
			groups = append(groups, g)
		}
	}
	for p := 1; p <= 6; p++ {
		if r.Chance(60) {
			c.Ops = append(c.Ops, fmt.Sprintf("nbr %d 1", p))
		}
	}
	for _, g := range groups {
		for k, n := 0, r.Range(0, 6); k < n; k++ {
			c.Ops = append(c.Ops, fmt.Sprintf("add %d %d %s", g, r.Range(0, 6), b01(r.Chance(85))))
		}
	}
	anyG := func() int {
		if fallback && r.Chance(70) {
			return 0
		}
		return r.Intn(3)
	}
	type k2 struct {
		o  string
		id int
	}
	seen := map[k2]int{}
	rep := false
	origins := []string{"-", "0", "1", "2", "3"}
	for k, n := 0, r.Range(4, 30); k < n; k++ {
		o := origins[r.Intn(len(origins))]
		id := r.Range(1, 3)
		switch d := r.Intn(20); {
		case d < 11:
			c.Ops = append(c.Ops, fmt.Sprintf("on %d %s %d %d", r.Range(1, 6), o, id, anyG()))
			seen[k2{o, id}]++
		case d < 15:
			op := fmt.Sprintf("mc %s %d %d", o, id, anyG())
			for s, ns := 0, r.Intn(3); s < ns; s++ {
				op += fmt.Sprintf(" %d", r.Range(0, 6))
			}
			c.Ops = append(c.Ops, op)
			seen[k2{o, id}]++
		case d < 17:
			c.Ops = append(c.Ops, fmt.Sprintf("seen %s %d", o, id))
		case d == 17 && len(groups) > 0:
			c.Ops = append(c.Ops, memberOp(r, groups[r.Intn(len(groups))], 6))
		case d == 18:
			g := r.Intn(3)
			c.Ops = append(c.Ops, fmt.Sprintf("group %d %s", g, gt[r.Intn(len(gt))]), fmt.Sprintf("sub %d %s", g, b01(r.Chance(70))))
		default:
			c.Ops = append(c.Ops, fmt.Sprintf("lists %d", r.Intn(3)))
		}
		if seen[k2{o, id}] > 1 && o != "-" {
			rep = true
		}
	}
	c.NT = len(groups) > 0 && rep
	return c
}

// discCase: membership over peers 1..8, then discovery rounds with scripted neighbours interleaved with membership ops.
func discCase(r *core.Rand) core.Case {
	c := core.Case{ID: "d"}
	gt := []string{"join", "observe", "known"}
	g := r.Intn(2)
	c.Ops = append(c.Ops, fmt.Sprintf("group %d %s", g, gt[r.Intn(3)]))
	for p := 1; p <= 8; p++ {
		if r.Chance(55) {
			c.Ops = append(c.Ops, fmt.Sprintf("nbr %d 1", p))
		}
	}
	for k, n := 0, r.Range(1, 7); k < n; k++ {
		c.Ops = append(c.Ops, fmt.Sprintf("add %d %d %s", g, r.Range(1, 8), b01(r.Chance(80))))
	}
	list := func(l []int) string {
		if len(l) == 0 {
			return "-"
		}
		var s []string
		for _, x := range l {
			s = append(s, strconv.Itoa(x))
		}
		return strings.Join(s, ",")
	}
	for k, n := 0, r.Range(1, 4); k < n; k++ {
		kps := []int{1, 2, 3, 1000, 1000, 1000}
		op := fmt.Sprintf("find %d %d", g, kps[r.Intn(len(kps))])
		for sgs, ns := 0, r.Range(1, 3); sgs < ns; sgs++ {
			v := r.Range(1, 8)
			var hs, ans []int
			for h, nh := 0, r.Intn(3); h < nh; h++ {
				hs = append(hs, r.Range(1, 10))
			}
			for _, x := range hs {
				if r.Chance(75) {
					ans = append(ans, x) // the answer names the peer that just handshook
					c.NT = true
				}
			}
			for a, na := 0, r.Intn(4); a < na; a++ {
				ans = append(ans, r.Range(1, 12))
			}
			op += fmt.Sprintf(" %d/%s/%s", v, list(hs), list(ans))
		}
		c.Ops = append(c.Ops, op)
		if r.Chance(50) {
			c.Ops = append(c.Ops, memberOp(r, g, 8))
		}
		if r.Chance(40) {
			c.Ops = append(c.Ops, fmt.Sprintf("lists %d", g))
		}
	}
	c.Ops = append(c.Ops, fmt.Sprintf("lists %d", g))
	return c
}

func raceCase(r *core.Rand) core.Case {
	c := core.Case{ID: "r", NT: true, Ops: []string{"group 0 join", "sub 0 1"}}
	for p := 1; p <= 4; p++ {
		if r.Bool() {
			c.Ops = append(c.Ops, fmt.Sprintf("nbr %d 1", p))
		}
		c.Ops = append(c.Ops, fmt.Sprintf("add 0 %d 1", p))
	}
	for k, n := 0, r.Range(3, 12); k < n; k++ {
		c.Ops = append(c.Ops, fmt.Sprintf("race %d %d %d 0", r.Range(1, 6), r.Range(1, 3), r.Range(1, 4)))
	}
	c.Ops = append(c.Ops, "seen 1 1", "seen 2 2")
	return c
}
