import Aurora.Lemmas.Blocklist
/-!
# C25 — Blocklisting never shortens a block

Property theorems only (helper lemmas: `Aurora/Lemmas/Blocklist.lean`).  The model is
`Aurora/Model/Blocklist.lean`, a transcription of
`/repo/pkg/p2p/libp2p/internal/blocklist/blocklist.go`, tied to the Go code by the C25
correspondence run.  Histories are arbitrary lists of `add` (any `Int` duration, also zero
and negative) / `remove` / `exists` / `peers` / `tick` from any start time; the clock is
monotone (`tick` takes a `Nat`).  No bound on length, addresses or values.

`Ghost` / `ghostStep` / `ghostRun` (used by `C25_upper_bound`) are the pure history
bookkeeping of the property's bound — time of the latest `Add(a,·)`, longest duration requested
since the last `Remove(a)`, "a zero duration was requested since then" — defined in the Lemmas
file next to the invariant that relates them to the stored entry.
-/
namespace Aurora.Blocklist

/-- **Blocked during every requested period.**  After `Add(a, d)` with `0 ≤ d` at time `t`,
    for every continuation of the history that does not `Remove(a)` and ends at a time
    `t' ≤ t + d` (any `t'` when `d = 0`), `Exists(a)` answers true — whatever other adds
    (shorter, longer, negative), queries, listings and clock ticks happen in between.
    (`t ≤ t'` holds by itself: the clock is monotone.) -/
theorem C25_blocked_during_request (σ : Sys) (a : Addr) (d : Int) (ops : List Op)
    (hd : 0 ≤ d) (hnr : ∀ op ∈ ops, op ≠ Op.remove a)
    (ht : d = 0 ∨ (run (step σ (.add a d)) ops).now ≤ σ.now + d) :
    blocked (run (step σ (.add a d)) ops) a = true := by
  -- the end of the requested period; for d = 0 any bound ≥ the final time will do
  let T : Int := if d = 0 then (run (step σ (.add a d)) ops).now else σ.now + d
  have hT : (run (step σ (.add a d)) ops).now ≤ T := by
    simp only [T]; split
    · omega
    · rcases ht with h | h
      · contradiction
      · exact h
  apply until_run (T := T) ops _ _ hnr hT
  unfold Until
  rw [lookup_step]
  refine ⟨⟨σ.now, mergeDur d (durOf (lookup a σ.st))⟩, by simp [stepEntry], by simp [step], ?_⟩
  simp only [mergeDur, T]
  split <;> split <;> omega

/-- **A zero duration blocks forever**: after `Add(a, 0)`, `Exists(a)` answers true after any
    continuation without `Remove(a)`, at any later time. -/
theorem C25_zero_forever (σ : Sys) (a : Addr) (ops : List Op)
    (hnr : ∀ op ∈ ops, op ≠ Op.remove a) :
    blocked (run (step σ (.add a 0)) ops) a = true :=
  C25_blocked_during_request σ a 0 ops (Int.le_refl 0) hnr (Or.inl rfl)

/-- **Adding never shortens a block.**  In any state reached from the empty blocklist: if `a`
    would still be reported blocked `n` ns from now, then after an `Add(a, d)` now — for *any*
    duration `d`, shorter, zero or negative — it is still reported blocked `n` ns from now.
    (The end of the block is monotone under `add`.) -/
theorem C25_never_shortens (t0 : Int) (hist : List Op) (a : Addr) (d : Int) (n : Nat)
    (hb : blocked (run (run ⟨t0, []⟩ hist) [.tick n]) a = true) :
    blocked (run (run ⟨t0, []⟩ hist) [.add a d, .tick n]) a = true := by
  generalize hσ : run ⟨t0, []⟩ hist = σ at hb ⊢
  rw [blocked_eq] at hb ⊢
  simp only [run, List.foldl_cons, List.foldl_nil] at hb ⊢
  have hl2 : lookup a (step (step σ (.add a d)) (.tick n)).st = lookup a (step σ (.add a d)).st := by
    rw [lookup_step]; rfl
  have hl1 : lookup a (step σ (.tick n)).st = lookup a σ.st := by rw [lookup_step]; rfl
  rw [hl1] at hb
  rw [hl2, lookup_step]
  cases hc : lookup a σ.st with
  | none => simp [hc] at hb
  | some e =>
    have hts : e.ts ≤ σ.now := by
      have := ts_le_now t0 hist a e (by rw [hσ]; exact hc)
      rw [hσ] at this; exact this
    rw [hc] at hb
    simp only [stepEntry, if_true, durOf, step, Bool.not_eq_true', expired_eq_false] at hb ⊢
    rcases mergeDur_spec d e.dur with ⟨hm1, hm2⟩ | ⟨hm1, hm2⟩ <;> rw [hm2] <;> omega

/-- **Never blocked beyond the bound.**  For every history from the empty blocklist: if
    `Exists(a)` answers true at the end, then `a` was added since its last removal and either a
    zero duration was requested since the last removal, or the current time is at most the time
    of the latest request plus the longest duration requested since the last removal.
    No premise on the durations (negative ones included). -/
theorem C25_upper_bound (t0 : Int) (ops : List Op) (a : Addr)
    (hb : blocked (run ⟨t0, []⟩ ops) a = true) :
    ∃ g, ghostRun a ⟨t0, []⟩ none ops = some g ∧
      (g.forever = true ∨ (run ⟨t0, []⟩ ops).now ≤ g.lastAdd + g.maxDur) := by
  suffices h : ∀ (ops : List Op) (σ : Sys) (g : Option Ghost), Bound a σ g →
      blocked (run σ ops) a = true →
      ∃ gg, ghostRun a σ g ops = some gg ∧
        (gg.forever = true ∨ (run σ ops).now ≤ gg.lastAdd + gg.maxDur) from
    h ops ⟨t0, []⟩ none (by intro e h; simp [lookup] at h) hb
  intro ops
  induction ops with
  | nil =>
    intro σ g hB hb
    rw [blocked_eq] at hb
    simp only [run, List.foldl_nil] at hb ⊢
    cases hc : lookup a σ.st with
    | none => simp [hc] at hb
    | some e =>
      obtain ⟨gg, hg, h1, h2, h3, h4⟩ := hB e hc
      rw [hc] at hb
      simp only [expired, Bool.not_eq_true', Bool.and_eq_false_iff, decide_eq_false_iff_not] at hb
      refine ⟨gg, by simp [ghostRun, hg], ?_⟩
      by_cases h0 : e.dur = 0
      · exact Or.inl (h3 h0)
      · right; omega
  | cons op ops ih =>
    intro σ g hB hb
    rw [run_cons] at hb ⊢
    exact ih (step σ op) (ghostStep σ.now a g op) (bound_step op hB) hb

/-- **Unblocked as soon as it is removed**: after `Remove(a)`, `Exists(a)` answers false — at
    once and after any continuation that does not add `a` again. -/
theorem C25_remove_unblocks (σ : Sys) (a : Addr) (ops : List Op)
    (hna : ∀ op ∈ ops, ∀ d, op ≠ Op.add a d) :
    blocked (run (step σ (.remove a)) ops) a = false := by
  suffices h : ∀ (ops : List Op) (σ : Sys), lookup a σ.st = none →
      (∀ op ∈ ops, ∀ d, op ≠ Op.add a d) → blocked (run σ ops) a = false from
    h ops _ (by rw [lookup_step]; simp [stepEntry]) hna
  intro ops
  induction ops with
  | nil => intro σ hl _; rw [blocked_eq]; simp [run, hl]
  | cons op ops ih =>
    intro σ hl hna
    rw [run_cons]
    apply ih _ _ (fun o ho => hna o (List.mem_cons_of_mem _ ho))
    rw [lookup_step, hl]
    have := hna op (List.mem_cons_self ..)
    cases op with
    | add b d =>
      have hb : b ≠ a := fun h' => this d (by rw [h'])
      simp [stepEntry, hb]
    | remove b => by_cases hb : b = a <;> simp [stepEntry, hb]
    | exists_ b => by_cases hb : b = a <;> simp [stepEntry, hb]
    | peers => rfl
    | tick dt => rfl

/-- **The listing agrees with the per-peer answer**: in every state reached from the empty
    blocklist, `Peers()` lists `a` iff `Exists(a)` answers true (at the same clock time), and it
    lists no address twice. -/
theorem C25_peers_agrees_exists (t0 : Int) (ops : List Op) (a : Addr) :
    (a ∈ listed (run ⟨t0, []⟩ ops) ↔ blocked (run ⟨t0, []⟩ ops) a = true) ∧
    (listed (run ⟨t0, []⟩ ops)).Nodup := by
  have hnd : (keys (run ⟨t0, []⟩ ops).st).Nodup :=
    keys_run_nodup ⟨t0, []⟩ ops (by simp [keys])
  generalize run ⟨t0, []⟩ ops = σ at hnd ⊢
  constructor
  · rw [blocked_eq]
    simp only [listed, peers, List.mem_map, List.mem_filter]
    constructor
    · rintro ⟨⟨b, e⟩, ⟨hm, hx⟩, hba⟩
      simp only at hba; subst hba
      rw [(lookup_eq_some_iff hnd).mpr hm]
      exact hx
    · intro h
      cases hc : lookup a σ.st with
      | none => simp [hc] at h
      | some e =>
        rw [hc] at h
        exact ⟨(a, e), ⟨(lookup_eq_some_iff hnd).mp hc, h⟩, rfl⟩
  · unfold listed peers
    unfold keys at hnd
    exact (List.filter_sublist.map Prod.fst).nodup hnd

/-! ### non-vacuity: the hypotheses are satisfiable, and the boundary is where the code puts it -/

/-- blocked at exactly `t + d`, unblocked 1 ns later (the requested period is closed) -/
example : blocked (run ⟨0, []⟩ [.add "aa" 5, .tick 5]) "aa" = true ∧
          blocked (run ⟨0, []⟩ [.add "aa" 5, .tick 6]) "aa" = false := by decide

/-- a later shorter add keeps the longer duration and restarts it -/
example : blocked (run ⟨0, []⟩ [.add "aa" 100, .tick 50, .add "aa" 1, .tick 100]) "aa" = true := by decide

/-- negative duration on a fresh address: stored as the sentinel −1 ns, never reported -/
example : blocked (run ⟨0, []⟩ [.add "aa" (-5)]) "aa" = false ∧
          (run ⟨0, []⟩ [.add "aa" (-5)]).st = [("aa", ⟨0, -1⟩)] := by decide

example : ghostRun "aa" ⟨0, []⟩ none [.add "aa" 100, .tick 50, .add "aa" 1] = some ⟨50, 100, false⟩ := by
  decide

end Aurora.Blocklist
