// Package c40: correspondence + oracle for pkg/subscribe (property C40).
package c40

import (
	"fmt"
	"runtime"
	"sort"
	"strings"
	"sync"
	"time"

	"github.com/gauss-project/aurorafs/pkg/subscribe"

	"verifharness/core"
)

type prop struct{}

func init() { core.Register(prop{}) }

func (prop) ID() string { return "C40" }
func (prop) Rule() string {
	return "cases: 8-40 ops over 2-4 notifiers, 1-2 namespaces/kinds and params {-,p,q} (also the aliasing names kind=k_p / param=p): " +
		"sub (duplicates on the same key are common), err (closes the notifier's error channel; every waiting goroutine fires), errone (one error value: only the first parked goroutine of the notifier fires), sub on a notifier whose error already fired " +
		"(the subscribe/unsubscribe race: the runner floods the subscribe channel first so that the select sees both channels non-empty), pub, dump, " +
		"pubduring (a Publish parked inside a slow consumer's Notify while 0-3 events - error-channel close, single error, subscribe - are processed, followed by a plain pub). " +
		"After every op the runner waits for quiescence (goroutine count, channel lengths, a sentinel subscription seen in the hook snapshot). " +
		"The schedule-bit strings on sub/err lines are used by the model only. Non-trivial: >=2 subs, >=1 err and >=2 pubs; distinct by op-list hash."
}

var (
	notifiers = []string{"n0", "n1", "n2", "n3"}
	nss       = []string{"a", "b"}
	kinds     = []string{"k", "k_p"}
	params    = []string{"-", "p", "q", "-"}
)

func (prop) Gen(r *core.Rand, tier string) []core.Case {
	n := 400
	if tier == "thorough" {
		n = 4000
	}
	cs := []core.Case{
		{ID: "fix-zombie", NT: true, Ops: []string{"err z", "sub z a k - 1", "dump", "pub a k - m1", "sub n0 a k -", "err n0", "sub n0 a k p 11", "dump", "pub a k p m2"}},
		{ID: "fix-duplicates", NT: true, Ops: []string{"sub n0 a k -", "sub n0 a k -", "sub n1 a k -", "sub n0 a k -", "dump", "pub a k - m1", "err n0 0101", "dump", "pub a k - m2", "pub a k p m3"}},
		{ID: "fix-dup-nonadjacent", NT: true, Ops: []string{"sub n0 a k p", "sub n1 a k p", "sub n0 a k p", "sub n0 a k p", "sub n1 a k p", "err n0 1", "dump", "pub a k p m1", "err n1", "dump", "pub a k p m2"}},
		{ID: "fix-one-error-duplicates", NT: true, Ops: []string{"sub n0 a k -", "sub n0 a k -", "sub n1 a k -", "sub n0 a k -", "sub n0 a k p", "errone n0", "dump", "pub a k p m1", "errone n0", "errone n0", "errone n0 1", "errone n0", "dump", "pub a k p m2"}},
		{ID: "fix-namespace-key", NT: true, Ops: []string{"sub n0 a k -", "sub n1 a k p", "sub n2 a k q", "pub a k p m1", "pub a k q m2", "pub a k - m3", "pub a k_p - m4", "sub n3 a k_p -", "pub a k p m5", "pub b k p m6", "err n1", "pub a k p m7"}},
		// a subscriber leaves while a Publish is parked in the middle of the list: the parked publish must go on
		// over the list it loaded (copy-on-write), nobody is skipped, nobody is notified twice
		{ID: "fix-leave-during-publish", NT: true, Ops: []string{"sub n0 a k p", "sub n1 a k p", "sub n2 a k p", "pubduring n0 a k p m1 e.n0", "dump", "pub a k p m2"}},
		{ID: "fix-leave-during-publish-mid", NT: true, Ops: []string{"sub n0 a k -", "sub n1 a k -", "sub n1 a k -", "sub n2 a k -", "sub n3 a k p", "pubduring n1 a k p m1 o.n0,s.n0.a.k.p,e.n3 01", "dump", "pub a k p m2"}},
		{ID: "fix-join-during-publish", NT: true, Ops: []string{"sub n0 a k -", "sub n1 a k -", "pubduring n0 a k p m1 s.n2.a.k.-,s.n3.a.k.p,s.n1.a.k.p", "pub a k p m2", "pubduring n3 a k - m3 e.n0", "pubduring n0 b k - m4 e.n1,o.n2", "pub a k p m5"}},
		{ID: "fix-bad", NT: false, Ops: []string{"sub n0 a", "pub a k", "err", "sub N0 a k -", "pub a k - M", "sub n0 a k - 2", "dump x", "pubduring n0 a k - m x.n0", "pubduring n0 a k - m e.N0", "pubduring n0 a k", "pubduring n0 a k - m s.n0.a.k"}},
	}
	for i := 0; i < n; i++ {
		c := core.Case{ID: fmt.Sprintf("g%d", i)}
		nn := r.Range(2, 4)
		nns := r.Range(1, 2)
		nk := r.Range(1, 2)
		subs, errs, pubs, races := 0, 0, 0, 0
		dead := map[string]bool{}
		sched := func() string {
			if r.Chance(40) {
				return ""
			}
			b := make([]byte, r.Range(1, 6))
			for j := range b {
				b[j] = '0' + byte(r.Intn(2))
			}
			return " " + string(b)
		}
		nops := r.Range(8, 40)
		for k := 0; k < nops; k++ {
			nt := notifiers[r.Intn(nn)]
			ns, kd, pa := nss[r.Intn(nns)], kinds[r.Intn(nk)], params[r.Intn(len(params))]
			switch x := r.Intn(23); {
			case x >= 20:
				// a publish parked in a slow consumer while subscribers leave / join; then publish again
				var evs []string
				for j := r.Range(1, 3); j > 0; j-- {
					en := notifiers[r.Intn(nn)]
					if r.Chance(40) {
						en = nt
					}
					switch y := r.Intn(10); {
					case y < 5:
						if dead[en] && r.Chance(70) {
							continue
						}
						evs = append(evs, "e."+en)
						dead[en] = true
						errs++
					case y < 7:
						evs = append(evs, "o."+en)
						errs++
					default:
						if dead[en] {
							if races >= 3 {
								continue
							}
							races++
						}
						evs = append(evs, fmt.Sprintf("s.%s.%s.%s.%s", en, ns, kd, params[r.Intn(len(params))]))
						subs++
					}
				}
				ev := "-"
				if len(evs) > 0 {
					ev = strings.Join(evs, ",")
				}
				c.Ops = append(c.Ops, fmt.Sprintf("pubduring %s %s %s %s m%d %s%s", nt, ns, kd, pa, k, ev, sched()))
				c.Ops = append(c.Ops, fmt.Sprintf("pub %s %s %s m%dx", ns, kd, pa, k))
				pubs += 2
			case x < 8:
				if dead[nt] {
					if races >= 3 && r.Chance(80) {
						continue
					}
					races++
				}
				c.Ops = append(c.Ops, fmt.Sprintf("sub %s %s %s %s%s", nt, ns, kd, pa, sched()))
				subs++
				if r.Chance(30) { // duplicate right away
					c.Ops = append(c.Ops, fmt.Sprintf("sub %s %s %s %s", nt, ns, kd, pa))
				}
			case x < 10:
				if r.Chance(40) {
					c.Ops = append(c.Ops, "errone "+nt+sched())
					errs++
					continue
				}
				c.Ops = append(c.Ops, "err "+nt+sched())
				dead[nt] = true
				errs++
			case x < 17:
				c.Ops = append(c.Ops, fmt.Sprintf("pub %s %s %s m%d", ns, kd, pa, k))
				pubs++
			default:
				c.Ops = append(c.Ops, "dump")
			}
		}
		c.Ops = append(c.Ops, "dump", "pub a k p mz", "pub a k_p - my")
		c.NT = subs >= 2 && errs >= 1 && pubs >= 2
		cs = append(cs, c)
	}
	return cs
}

// ---- fake notifier

type delivery struct{ n, key, msg string }

type fakeN struct {
	id   string
	errc chan error
	rn   *runner
}

func (f *fakeN) Notify(key string, data interface{}) error {
	f.rn.mu.Lock()
	f.rn.log = append(f.rn.log, delivery{f.id, key, fmt.Sprint(data)})
	g := f.rn.gate
	if g != nil && g.id == f.id && !g.used {
		g.used = true
	} else {
		g = nil
	}
	f.rn.mu.Unlock()
	if g != nil {
		// slow consumer: the publisher is parked inside this Notify call until the runner opens the gate
		g.entered <- struct{}{}
		<-g.release
	}
	return nil
}

// gate makes the first Notify call to notifier `id` block (a slow consumer: NotifierWithMsgChan with a
// full channel, an rpc notifier on a stalled connection).
type gate struct {
	id      string
	used    bool
	entered chan struct{}
	release chan struct{}
}
func (f *fakeN) Err() <-chan error { return f.errc }

type spT interface {
	subscribe.SubPub
	VerifSnapshot() map[string][]subscribe.INotifier
	VerifPending() (int, int)
}

type nstate struct {
	f      *fakeN
	dead   bool
	order  []string        // keys of the Subscribe calls whose goroutine is still parked on Err(), in blocking order
	calls  int             // Subscribe calls made with this notifier while alive (goroutines waiting on Err)
	subs   map[string]int  // oracle: key -> subscriptions made while alive
	zombie map[string]int  // oracle: key -> subscriptions made after the error fired
	oneErr map[string]bool // oracle: an unsubscription of this key was triggered by a single error value
}

type runner struct {
	sp      spT
	mu      sync.Mutex
	log     []delivery
	ns      map[string]*nstate
	base    int // goroutines when nothing of this case is waiting
	alive   int // goroutines expected to be parked on Err() of live notifiers
	sent    *fakeN
	nsent   int
	dummies []*fakeN
	broken  bool
	gate    *gate
	// oracle
	expect map[string][]string // notifier -> messages it must have received, in order
	got    map[string][]string
}

var once sync.Once

const (
	sentNS   = "~sentinel"
	junkNS   = "~junk"
	floodLen = 44
)

func (prop) New() core.Runner {
	once.Do(func() { runtime.GOMAXPROCS(1) })
	rn := &runner{ns: map[string]*nstate{}, expect: map[string][]string{}, got: map[string][]string{}}
	rn.base = runtime.NumGoroutine() + 1 // + the process goroutine started by NewSubPub
	rn.sp = subscribe.NewSubPub()
	rn.sent = &fakeN{id: "~s", errc: make(chan error), rn: rn}
	return rn
}

func (rn *runner) Close() {
	// let every goroutine of this case finish (the process goroutine itself has no stop API)
	for _, st := range rn.ns {
		if !st.dead {
			close(st.f.errc)
			st.dead = true
		}
	}
	close(rn.sent.errc)
	for _, d := range rn.dummies {
		close(d.errc)
	}
	rn.alive = 0
	rn.waitGoroutines()
}

func poll(cond func() bool) bool {
	for i := 0; i < 20000; i++ {
		if cond() {
			return true
		}
		runtime.Gosched()
	}
	dl := time.Now().Add(3 * time.Second)
	for time.Now().Before(dl) {
		if cond() {
			return true
		}
		time.Sleep(200 * time.Microsecond)
	}
	return cond()
}

func (rn *runner) waitGoroutines() bool {
	return poll(func() bool { return runtime.NumGoroutine() <= rn.base+rn.alive })
}

// settle waits until process has applied everything that was enqueued:
// (1) every goroutine of a dead notifier has sent its event and exited, (2) both channels are empty,
// (3) a sentinel subscription sent after that is visible in the snapshot (process is sequential).
func (rn *runner) settle() bool {
	if !rn.waitGoroutines() {
		return false
	}
	if !poll(func() bool { a, b := rn.sp.VerifPending(); return a == 0 && b == 0 }) {
		return false
	}
	rn.nsent++
	rn.alive++
	_ = rn.sp.Subscribe(rn.sent, sentNS, "s", "")
	want := rn.nsent
	return poll(func() bool { return len(rn.sp.VerifSnapshot()[sentNS+"_s"]) >= want })
}

func validName(a string) bool {
	if len(a) == 0 {
		return false
	}
	for _, c := range a {
		if !(c >= '0' && c <= '9' || c >= 'a' && c <= 'z' || c == '_') {
			return false
		}
	}
	return true
}
func validSched(a string) bool { return strings.Trim(a, "01") == "" }
func param(a string) (string, bool) {
	if a == "-" {
		return "", true
	}
	return a, validName(a)
}

func (rn *runner) notifier(id string) *nstate {
	st := rn.ns[id]
	if st == nil {
		st = &nstate{f: &fakeN{id: id, errc: make(chan error), rn: rn}, subs: map[string]int{}, zombie: map[string]int{}, oneErr: map[string]bool{}}
		rn.ns[id] = st
	}
	return st
}

// subEv / errEv / erroneEv: one subscribe / error-channel close / single error value, followed by the
// wait for quiescence.  Used by the plain ops and by the events of `pubduring`.
func (rn *runner) subEv(id, ns, kind, p string) string {
	st := rn.notifier(id)
	key := ns + "_" + kind
	if p != "" {
		key += "_" + p
	}
	if st.dead {
		// the race: make process busy with a burst of junk subscriptions, so that this subscription and
		// its immediate unsubscription are both pending when the select runs
		d := &fakeN{id: "~d", errc: make(chan error), rn: rn}
		for i := 0; i < floodLen; i++ {
			_ = rn.sp.Subscribe(d, junkNS, "j", "")
		}
		_ = rn.sp.Subscribe(st.f, ns, kind, p)
		rn.dummies = append(rn.dummies, d) // their goroutines stay parked until Close
		rn.alive += floodLen
		st.zombie[key]++
	} else {
		_ = rn.sp.Subscribe(st.f, ns, kind, p)
		st.calls++
		rn.alive++
		st.subs[key]++
		st.oneErr[key] = false
		st.order = append(st.order, key)
	}
	if !rn.settle() {
		rn.broken = true
		return "sched-fail"
	}
	return "ok"
}

func (rn *runner) errEv(id string) string {
	st := rn.notifier(id)
	if !st.dead {
		st.dead = true
		rn.alive -= st.calls
		st.calls, st.order = 0, nil
		close(st.f.errc)
	}
	if !rn.settle() {
		rn.broken = true
		return "sched-fail"
	}
	return "ok"
}

func (rn *runner) erroneEv(id string) string {
	st := rn.notifier(id)
	if st.dead || len(st.order) == 0 {
		return "nowait"
	}
	// one error value: exactly one parked goroutine (the one that blocked first) receives it
	st.f.errc <- fmt.Errorf("one error")
	key := st.order[0]
	st.order = st.order[1:]
	st.calls--
	rn.alive--
	st.subs[key] = 0 // oracle: one unsubscription must remove every entry of the notifier on that key
	st.oneErr[key] = true
	if !rn.settle() {
		rn.broken = true
		return "sched-fail"
	}
	return "ok"
}

// event of a `pubduring` line: e.<n> | o.<n> | s.<n>.<ns>.<kind>.<param>
type event struct {
	kind             byte
	n, ns, kd, param string
}

func parseEvents(a string) ([]event, bool) {
	if a == "-" {
		return nil, true
	}
	var out []event
	for _, f := range strings.Split(a, ",") {
		x := strings.Split(f, ".")
		switch {
		case len(x) == 2 && (x[0] == "e" || x[0] == "o") && validName(x[1]):
			out = append(out, event{kind: x[0][0], n: x[1]})
		case len(x) == 5 && x[0] == "s" && validName(x[1]) && validName(x[2]) && validName(x[3]):
			p, ok := param(x[4])
			if !ok {
				return nil, false
			}
			out = append(out, event{kind: 's', n: x[1], ns: x[2], kd: x[3], param: p})
		default:
			return nil, false
		}
	}
	return out, true
}

func (rn *runner) Step(ctx *core.Ctx, op []string) string {
	if rn.broken {
		return "sched-fail"
	}
	switch {
	case (len(op) == 5 || len(op) == 6 && validSched(op[5])) && op[0] == "sub":
		p, ok := param(op[4])
		if !ok || !validName(op[1]) || !validName(op[2]) || !validName(op[3]) {
			return "bad-op"
		}
		return rn.subEv(op[1], op[2], op[3], p)
	case (len(op) == 2 || len(op) == 3 && validSched(op[2])) && op[0] == "err":
		if !validName(op[1]) {
			return "bad-op"
		}
		return rn.errEv(op[1])
	case (len(op) == 2 || len(op) == 3 && validSched(op[2])) && op[0] == "errone":
		if !validName(op[1]) {
			return "bad-op"
		}
		return rn.erroneEv(op[1])
	case (len(op) == 7 || len(op) == 8 && validSched(op[7])) && op[0] == "pubduring":
		// pubduring <slow> <ns> <kind> <param> <msg> <events> [bits]: Publish runs on its own goroutine and
		// parks inside the first Notify call to <slow> (a slow consumer); while it is parked the events are
		// applied one by one, each followed by the wait for quiescence (process has applied it: hook
		// snapshot); then the gate opens and the publish finishes.  If the publish never reaches <slow> it
		// simply completes and the events are applied afterwards.
		p, ok := param(op[4])
		evs, ok2 := parseEvents(op[6])
		if !ok || !ok2 || !validName(op[1]) || !validName(op[2]) || !validName(op[3]) || !validName(op[5]) {
			return "bad-op"
		}
		return rn.pubDuring(ctx, op[1], op[2], op[3], p, op[5], evs)
	case len(op) == 5 && op[0] == "pub":
		p, ok := param(op[3])
		if !ok || !validName(op[1]) || !validName(op[2]) || !validName(op[4]) {
			return "bad-op"
		}
		rn.log = nil
		_ = rn.sp.Publish(op[1], op[2], p, op[4])
		keys := []string{op[1] + "_" + op[2]}
		if p != "" {
			keys = append(keys, keys[0]+"_"+p)
		}
		rn.oracle(ctx, keys, op[4])
		var out []string
		for _, d := range rn.log {
			out = append(out, d.n+":"+d.key+":"+d.msg)
		}
		if len(out) == 0 {
			return "-"
		}
		return strings.Join(out, ",")
	case len(op) == 1 && op[0] == "dump":
		snap := rn.sp.VerifSnapshot()
		var out []string
		for k, l := range snap {
			if strings.HasPrefix(k, "~") {
				continue
			}
			var ids []string
			for _, n := range l {
				ids = append(ids, n.(*fakeN).id)
			}
			out = append(out, k+"="+strings.Join(ids, "+"))
		}
		if len(out) == 0 {
			return "-"
		}
		sort.Strings(out)
		return strings.Join(out, ";")
	}
	return "bad-op"
}

// tally: per notifier and key, how many Notify calls the log holds; wrong message / key / key order.
func (rn *runner) tally(ctx *core.Ctx, keys []string, msg string) map[string]map[string]int {
	got := map[string]map[string]int{} // notifier -> key -> count
	for _, d := range rn.log {
		if d.msg != msg {
			ctx.Fail("wrong-message", "%s got %q while %q was published", d.n, d.msg, msg)
		}
		if got[d.n] == nil {
			got[d.n] = map[string]int{}
		}
		got[d.n][d.key]++
		in := false
		for _, k := range keys {
			in = in || k == d.key
		}
		if !in {
			ctx.Fail("wrong-key", "%s notified for key %s, published keys %v", d.n, d.key, keys)
		}
	}
	// order: the namespace-wide key is served before the specific key
	seenSpecific := false
	for _, d := range rn.log {
		if len(keys) == 2 && d.key == keys[1] {
			seenSpecific = true
		}
		if len(keys) == 2 && d.key == keys[0] && seenSpecific {
			ctx.Fail("key-order", "namespace-wide key notified after the specific key")
		}
	}
	return got
}

// oracle: the property on the Notify calls of one Publish (all earlier ops are quiescent).
func (rn *runner) oracle(ctx *core.Ctx, keys []string, msg string) {
	got := rn.tally(ctx, keys, msg)
	for id, st := range rn.ns {
		for _, k := range keys {
			g := got[id][k]
			switch {
			case st.dead && g > 0 && st.zombie[k] > 0:
				ctx.Fail("delivery-after-error/subscribed-after-error", "%s got %d message(s) on %s although its error channel fired before it subscribed", id, g, k)
			case st.dead && g > 0 && st.subs[k] > 1:
				ctx.Fail("delivery-after-error/duplicate-subscription", "%s got %d message(s) on %s after its error channel fired (%d subscriptions)", id, g, k, st.subs[k])
			case st.dead && g > 0:
				ctx.Fail("delivery-after-error/single", "%s got %d message(s) on %s after its error channel fired", id, g, k)
			case !st.dead && g < st.subs[k]:
				ctx.Fail("missed-delivery", "%s has %d subscription(s) on %s but got %d message(s)", id, st.subs[k], k, g)
			case !st.dead && g > 0 && st.subs[k] == 0 && st.oneErr[k]:
				ctx.Fail("delivery-after-error/one-unsubscription-left-duplicate", "%s got %d message(s) on %s after an unsubscription of that key was processed", id, g, k)
			case !st.dead && g > st.subs[k]:
				ctx.Fail("extra-delivery", "%s has %d subscription(s) on %s but got %d message(s)", id, st.subs[k], k, g)
			}
		}
	}
}

// pubDuring: a Publish that is parked inside a slow consumer's Notify while subscriptions and
// unsubscriptions are processed.  Oracle (model-free, on the observed Notify calls of this publish):
// a notifier that was subscribed when the publish started and is still subscribed when it ends got the
// message once per subscription it had at the start — no entry is skipped — and nobody got it more often
// than it had subscriptions (at the start or at the end, whichever is larger); a notifier whose error
// had fired (and been processed) before the publish started got nothing.
func (rn *runner) pubDuring(ctx *core.Ctx, slow, ns, kind, p, msg string, evs []event) string {
	keys := []string{ns + "_" + kind}
	if p != "" {
		keys = append(keys, keys[0]+"_"+p)
	}
	type pre struct {
		dead bool
		subs map[string]int
	}
	before := map[string]pre{}
	for id, st := range rn.ns {
		m := map[string]int{}
		for _, k := range keys {
			m[k] = st.subs[k]
		}
		before[id] = pre{st.dead, m}
	}
	g := &gate{id: slow, entered: make(chan struct{}, 1), release: make(chan struct{})}
	rn.mu.Lock()
	rn.log = nil
	rn.gate = g
	rn.mu.Unlock()
	done := make(chan struct{})
	rn.alive++
	go func() {
		defer close(done)
		_ = rn.sp.Publish(ns, kind, p, msg)
	}()
	parked := false
	select {
	case <-g.entered:
		parked = true
	case <-done:
		rn.alive--
	case <-time.After(5 * time.Second):
		rn.broken = true
	}
	if !rn.broken {
		for _, e := range evs {
			r := ""
			switch e.kind {
			case 'e':
				r = rn.errEv(e.n)
			case 'o':
				r = rn.erroneEv(e.n)
			case 's':
				r = rn.subEv(e.n, e.ns, e.kd, e.param)
			}
			if r == "sched-fail" {
				break
			}
		}
	}
	close(g.release)
	if parked {
		select {
		case <-done:
		case <-time.After(5 * time.Second):
			rn.broken = true
		}
		rn.alive--
	}
	rn.mu.Lock()
	rn.gate = nil
	rn.mu.Unlock()
	if rn.broken {
		return "sched-fail"
	}
	got := rn.tally(ctx, keys, msg)
	for id, st := range rn.ns {
		b := before[id]
		for _, k := range keys {
			n, b0, b1 := got[id][k], b.subs[k], st.subs[k]
			upper := b0
			if b1 > upper {
				upper = b1
			}
			switch {
			case b.dead && n > 0:
				ctx.Fail("delivery-after-error/during-publish", "%s got %d message(s) on %s although its error channel had fired before the publish started", id, n, k)
			case !b.dead && !st.dead && b1 >= b0 && n < b0:
				ctx.Fail("missed-delivery/during-publish", "%s had %d subscription(s) on %s when the publish started and never left, but got %d message(s): an entry was skipped while another subscriber left", id, b0, k, n)
			case !b.dead && n > upper:
				ctx.Fail("extra-delivery/during-publish", "%s got %d message(s) on %s from one publish with at most %d subscription(s)", id, n, k, upper)
			}
		}
	}
	var out []string
	for _, d := range rn.log {
		out = append(out, d.n+":"+d.key+":"+d.msg)
	}
	pk := "p=0 "
	if parked {
		pk = "p=1 "
	}
	if len(out) == 0 {
		return pk + "-"
	}
	return pk + strings.Join(out, ",")
}
