// vh — correspondence harness driver.
//
//	vh list
//	vh <Cxx> gen  --seed N --tier quick|thorough     > cases
//	vh <Cxx> exec [--fails file] [--annot file] < cases > impl-output
//	vh <Cxx> rule
package main

import (
	"flag"
	"fmt"
	"os"

	"verifharness/core"
)

func main() {
	if len(os.Args) >= 2 && os.Args[1] == "list" {
		for _, id := range core.IDs() {
			fmt.Println(id)
		}
		return
	}
	if len(os.Args) < 3 {
		fmt.Fprintln(os.Stderr, "usage: vh <Cxx> gen|exec|rule [flags]")
		os.Exit(2)
	}
	p := core.Lookup(os.Args[1])
	if p == nil {
		fmt.Fprintf(os.Stderr, "unknown property %s\n", os.Args[1])
		os.Exit(2)
	}
	fs := flag.NewFlagSet("vh", flag.ExitOnError)
	seed := fs.Uint64("seed", 1, "PRNG seed")
	tier := fs.String("tier", "quick", "quick|thorough")
	failsPath := fs.String("fails", "", "write oracle failures (jsonl) here")
	annotPath := fs.String("annot", "", "write the annotated case file (input of the model driver) here")
	_ = fs.Parse(os.Args[3:])
	switch os.Args[2] {
	case "gen":
		core.WriteCases(os.Stdout, p.Gen(core.NewRand(*seed), *tier))
	case "exec":
		cs := core.ReadCases(os.Stdin)
		var aw *os.File
		if *annotPath != "" {
			var err error
			if aw, err = os.Create(*annotPath); err != nil {
				fmt.Fprintln(os.Stderr, err)
				os.Exit(2)
			}
		}
		var fails []core.Fail
		if aw != nil {
			fails = core.Exec(p, cs, os.Stdout, aw)
			aw.Close()
		} else {
			fails = core.Exec(p, cs, os.Stdout, nil)
		}
		if *failsPath != "" {
			if err := core.WriteFails(*failsPath, fails); err != nil {
				fmt.Fprintln(os.Stderr, err)
				os.Exit(2)
			}
		}
	case "rule":
		fmt.Println(p.Rule())
	default:
		fmt.Fprintln(os.Stderr, "unknown subcommand")
		os.Exit(2)
	}
}
