import Aurora.Model.Blocker
namespace Aurora.Blocker
theorem C26_placeholder : True := trivial
end Aurora.Blocker
