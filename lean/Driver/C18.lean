import Driver.Util
import Aurora.Model.StateStore
/-! Driver for C18: the same op goes to two `Level` stores (on disk, in memory) and the `Mock`
    store; one output line `disk | mem | mock`. -/
namespace Driver.C18
open Aurora.Kv Aurora.StateStore

structure St where
  disk : Level := []
  mem : Level := []
  mock : Mock := []

def three (a b c : String) : String := s!"{a} | {b} | {c}"

def getStr : Option Bytes → String
  | some v => Driver.bytesToHex v
  | none => "notfound"

def entryStr (e : Entry) : String := s!"{Driver.bytesToHex e.1}:{Driver.bytesToHex e.2}"

def resStr : Res → String
  | .ok => "ok"
  | .cberr => "cberr"
  | .err => "err"

def iterStr (r : List Entry × Res) : String :=
  let vis := if r.1.isEmpty then "-" else ",".intercalate (r.1.map entryStr)
  s!"{vis} {resStr r.2}"

/-- callback of the harness: act at the n-th visited entry -/
def mkCb (mode : String) (n : Nat) : Option Callback :=
  let act : Option Act :=
    if mode = "all" then some .cont else if mode = "stop" then some .stop
    else if mode = "err" then some .err else if mode = "both" then some .stopErr else none
  act.map fun a => fun vis _ => if mode ≠ "all" && vis.length + 1 == n then a else .cont

def step (st : St) (op : List String) : St × String :=
  match op with
  | ["put", k, v] =>
    match Driver.hexToBytes k, Driver.hexToBytes v with
    | some k, some v =>
      ({ disk := st.disk.put k v, mem := st.mem.put k v, mock := st.mock.put k v }, three "ok" "ok" "ok")
    | _, _ => (st, "bad-op")
  | ["get", k] =>
    match Driver.hexToBytes k with
    | some k => (st, three (getStr (st.disk.get k)) (getStr (st.mem.get k)) (getStr (st.mock.get k)))
    | none => (st, "bad-op")
  | ["del", k] =>
    match Driver.hexToBytes k with
    | some k =>
      ({ disk := st.disk.delete k, mem := st.mem.delete k, mock := st.mock.delete k }, three "ok" "ok" "ok")
    | none => (st, "bad-op")
  | ["iter", p, mode, n] =>
    match Driver.hexToBytes p, Driver.parseNat n with
    | some p, some n =>
      match mkCb mode n with
      | some cb =>
        (st, three (iterStr (st.disk.iterate p cb)) (iterStr (st.mem.iterate p cb)) (iterStr (st.mock.iterate p cb)))
      | none => (st, "bad-op")
    | _, _ => (st, "bad-op")
  | ["reopen"] => ({ st with disk := st.disk.reopen }, three "ok" "ok" "ok")
  | _ => (st, "bad-op")

def handler : Driver.Handler := { σ := St, init := {}, step := step }

end Driver.C18
