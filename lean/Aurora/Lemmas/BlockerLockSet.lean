import Aurora.Generated.BlockerLocks
/-! Lock-set argument for the blocker's flag table (C26).

Abstract program: any number of threads; each thread either holds `mu` or not and is either
outside or inside one of the syntactic accesses `x` of the generated table.  The meaning of a
table row is the precondition of `enter`: a thread starts executing access `x` only in the lock
state the extractor recorded for it (`x.locked`).  `acquire` needs the mutex to be free;
`release` and `acquire` do not happen in the middle of an access (an access is one statement).

Theorem `no_race`: if every `peers` row of the table is locked, no reachable configuration has two
different threads inside `peers` accesses at the same time — i.e. the critical sections on the
flag table are mutually exclusive, which is what makes each method one atomic step. -/
namespace Aurora.Blocker.LockSet
open Aurora.Generated.BlockerLocks

structure Th where
  holds : Bool
  acc   : Option Access

abbrev Cfg := Nat → Th

def upd (c : Cfg) (i : Nat) (t : Th) : Cfg := fun j => if j = i then t else c j

inductive Step (tbl : List Access) : Cfg → Cfg → Prop
  | acquire (c : Cfg) (i : Nat) : (∀ j, (c j).holds = false) → (c i).acc = none →
      Step tbl c (upd c i ⟨true, none⟩)
  | release (c : Cfg) (i : Nat) : (c i).holds = true → (c i).acc = none →
      Step tbl c (upd c i ⟨false, none⟩)
  | enter (c : Cfg) (i : Nat) (x : Access) : x ∈ tbl → (c i).acc = none → (c i).holds = x.locked →
      Step tbl c (upd c i ⟨(c i).holds, some x⟩)
  | leave (c : Cfg) (i : Nat) : Step tbl c (upd c i ⟨(c i).holds, none⟩)

inductive Reach (tbl : List Access) : Cfg → Prop
  | init : Reach tbl (fun _ => ⟨false, none⟩)
  | step {c c' : Cfg} : Reach tbl c → Step tbl c c' → Reach tbl c'

/-- two different threads are inside accesses to the flag table at the same time -/
def Race (c : Cfg) : Prop :=
  ∃ i j x y, i ≠ j ∧ (c i).acc = some x ∧ (c j).acc = some y ∧ x.field = "peers" ∧ y.field = "peers"

def Inv (c : Cfg) : Prop :=
  (∀ i j, (c i).holds = true → (c j).holds = true → i = j) ∧
  (∀ i x, (c i).acc = some x → x.field = "peers" → (c i).holds = true)

theorem inv_step {tbl : List Access} (hl : ∀ x ∈ tbl, x.field = "peers" → x.locked = true)
    {c c' : Cfg} (h : Inv c) (st : Step tbl c c') : Inv c' := by
  obtain ⟨h1, h2⟩ := h
  cases st with
  | acquire i hfree hacc =>
    constructor
    · intro a b ha hb
      by_cases hai : a = i
      · by_cases hbi : b = i
        · rw [hai, hbi]
        · simp [upd, hbi, hfree b] at hb
      · simp [upd, hai, hfree a] at ha
    · intro a x ha hx
      by_cases hai : a = i
      · simp [upd, hai] at ha
      · simp only [upd, hai, if_false] at ha ⊢
        exact h2 a x ha hx
  | release i hh hacc =>
    constructor
    · intro a b ha hb
      by_cases hai : a = i
      · simp [upd, hai] at ha
      · by_cases hbi : b = i
        · simp [upd, hbi] at hb
        · simp only [upd, hai, hbi, if_false] at ha hb
          exact h1 a b ha hb
    · intro a x ha hx
      by_cases hai : a = i
      · simp [upd, hai] at ha
      · simp only [upd, hai, if_false] at ha ⊢
        exact h2 a x ha hx
  | enter i x hx hacc hlk =>
    constructor
    · intro a b ha hb
      have ha' : (c a).holds = true := by
        by_cases hai : a = i
        · simp only [upd, hai, if_true] at ha; rw [hai]; exact ha
        · simpa [upd, hai] using ha
      have hb' : (c b).holds = true := by
        by_cases hbi : b = i
        · simp only [upd, hbi, if_true] at hb; rw [hbi]; exact hb
        · simpa [upd, hbi] using hb
      exact h1 a b ha' hb'
    · intro a y ha hy
      by_cases hai : a = i
      · simp only [upd, hai, if_true, Option.some.injEq] at ha ⊢
        subst ha
        rw [hlk]; exact hl x hx hy
      · simp only [upd, hai, if_false] at ha ⊢
        exact h2 a y ha hy
  | leave i =>
    constructor
    · intro a b ha hb
      have ha' : (c a).holds = true := by
        by_cases hai : a = i
        · simp only [upd, hai, if_true] at ha; rw [hai]; exact ha
        · simpa [upd, hai] using ha
      have hb' : (c b).holds = true := by
        by_cases hbi : b = i
        · simp only [upd, hbi, if_true] at hb; rw [hbi]; exact hb
        · simpa [upd, hbi] using hb
      exact h1 a b ha' hb'
    · intro a y ha hy
      by_cases hai : a = i
      · simp [upd, hai] at ha
      · simp only [upd, hai, if_false] at ha ⊢
        exact h2 a y ha hy

theorem inv_reach {tbl : List Access} (hl : ∀ x ∈ tbl, x.field = "peers" → x.locked = true)
    {c : Cfg} (h : Reach tbl c) : Inv c := by
  induction h with
  | init => exact ⟨by intro i j hi; simp at hi, by intro i x hi; simp at hi⟩
  | step _ st ih => exact inv_step hl ih st

theorem no_race {tbl : List Access} (hl : ∀ x ∈ tbl, x.field = "peers" → x.locked = true)
    {c : Cfg} (h : Reach tbl c) : ¬ Race c := by
  obtain ⟨h1, h2⟩ := inv_reach hl h
  rintro ⟨i, j, x, y, hij, hx, hy, hxf, hyf⟩
  exact hij (h1 i j (h2 i x hx hxf) (h2 j y hy hyf))

end Aurora.Blocker.LockSet
