import Aurora.Model.HashTrieBuf
import Aurora.Lemmas.HashTrie
import Aurora.Lemmas.Tree
/-!
Refinement: the literal cursor machine of `Model/HashTrieBuf.lean` implements the list machine of
`Model/HashTrie.lean` (instantiated at raw records `α := Bytes`, `wrap := wrapRaw P`).

* `Rep R buf c ℓ lv` — the representation relation: `lv` = the levels `ℓ, ℓ+1, …, 8` (lowest
  first); level `j` is the region `buf[c (j+1) : c j]`, which is the concatenation of its records,
  all `R` bytes long; `c (j+1) ≤ c j` (cursors monotone; `c 9 = 0`).  Nothing is said about the
  buffer above `c ℓ` nor about cursors below `ℓ` (dead while level `ℓ` is being wrapped / summed).
* `write_sim`, `wrap_sim` — `writeToLevel` / `wrapFullLevel` = `push`.
* `sumLoop_sim`, `trieSum_sim` — the loop of `Sum` = `sumUp`, all four cases.
* `chainWrite_sim`, `run_refines` — whole runs; `Good` is the invariant of the list machine that
  bounds the buffer use (every level below `B` records; level 8 empty until `full`).
-/
namespace Aurora.HashTrieBuf
open Aurora.Bmt (Bytes)
open Aurora.Cac (le64)
open Aurora.Tree (fromLe64 le64_length)
open Aurora.HashTrie (push sumUp push_length)

/-! ## slices and copies -/

theorem slice_length (b : Bytes) (lo hi : Nat) (h : hi ≤ b.length) : (slice b lo hi).length = hi - lo := by
  simp [slice]; omega

theorem slice_self (b : Bytes) (a : Nat) : slice b a a = [] := by
  simp [slice]

theorem slice_split (b : Bytes) (a n c : Nat) (x y : Bytes) (h : slice b a c = x ++ y)
    (hx : x.length = n) (hc : a + n ≤ c) : slice b a (a + n) = x ∧ slice b (a + n) c = y := by
  unfold slice at *
  constructor
  · have h1 : List.take (a + n) b = List.take (a + n) (List.take c b) := by
      rw [List.take_take]; congr 1; omega
    rw [h1, ← List.take_drop, h, List.take_left' hx]
  · rw [← List.drop_drop, h, List.drop_left' hx]

theorem slice_append (b : Bytes) (lo mid hi : Nat) (h1 : lo ≤ mid) (h2 : mid ≤ hi) :
    slice b lo hi = slice b lo mid ++ slice b mid hi := by
  unfold slice
  have e1 : List.take mid b = List.take mid (List.take hi b) := by
    rw [List.take_take]; congr 1; omega
  rw [e1]
  generalize List.take hi b = t
  obtain ⟨k, rfl⟩ : ∃ k, mid = lo + k := ⟨mid - lo, by omega⟩
  rw [← List.take_drop, ← List.drop_drop, List.take_append_drop]

theorem flatten_length_const (R : Nat) (l : List Bytes) (h : ∀ r ∈ l, r.length = R) :
    l.flatten.length = l.length * R := by
  induction l with
  | nil => simp
  | cons a t ih =>
    simp only [List.flatten_cons, List.length_append, List.length_cons]
    rw [h a (by simp), ih (fun r hr => h r (by simp [hr])), Nat.add_mul]; omega

/-- the buffer after `copy(buf[a:a+|rec|], rec)` -/
def patched (b : Bytes) (a : Nat) (rec : Bytes) : Bytes := b.take a ++ rec ++ b.drop (a + rec.length)

theorem patched_length (b : Bytes) (a : Nat) (rec : Bytes) (h : a + rec.length ≤ b.length) :
    (patched b a rec).length = b.length := by
  simp [patched]; omega

theorem patched_take (b : Bytes) (a k : Nat) (rec : Bytes) (h : a + rec.length ≤ b.length) (hk : k ≤ a) :
    (patched b a rec).take k = b.take k := by
  unfold patched
  rw [List.append_assoc, List.take_append_of_le_length (by simp; omega), List.take_take]
  congr 1; omega

theorem patched_slice (b : Bytes) (a lo : Nat) (rec : Bytes) (h : a + rec.length ≤ b.length) (hlo : lo ≤ a) :
    slice (patched b a rec) lo (a + rec.length) = slice b lo a ++ rec := by
  unfold patched slice
  have hl : (List.take a b ++ rec).length = a + rec.length := by simp; omega
  rw [List.take_left' hl, List.drop_append_of_le_length (by simp; omega)]

theorem patched_patched (b : Bytes) (a : Nat) (x y : Bytes) (h : a + (x.length + y.length) ≤ b.length) :
    patched (patched b a x) (a + x.length) y = patched b a (x ++ y) := by
  unfold patched
  have hl : (List.take a b ++ x).length = a + x.length := by simp; omega
  rw [List.take_left' hl]
  have hd : List.drop (a + x.length + y.length) (List.take a b ++ x ++ List.drop (a + x.length) b)
      = List.drop (a + (x ++ y).length) b := by
    rw [← List.drop_drop, List.drop_left' hl, List.drop_drop]
    simp [Nat.add_assoc]
  rw [hd]; simp

theorem copyAt_eq (b : Bytes) (a : Nat) (src : Bytes) (h : a + src.length ≤ b.length) :
    copyAt b a src = some (patched b a src) := by
  simp [copyAt, LeLen, h, patched]

/-! ## cursors -/

theorem cur_setCur_same (s : State) (l v : Nat) (h : l < s.cursors.length) : (s.setCur l v).cur l = v := by
  simp [State.cur, State.setCur, List.getD_eq_getElem?_getD, h]

theorem cur_setCur_ne (s : State) (l j v : Nat) (h : l ≠ j) : (s.setCur l v).cur j = s.cur j := by
  simp [State.cur, State.setCur, List.getD_eq_getElem?_getD, List.getElem?_set_ne h]

theorem cur_ge_length (s : State) (j : Nat) (h : s.cursors.length ≤ j) : s.cur j = 0 := by
  simp [State.cur, List.getD_eq_getElem?_getD, h]

theorem put_eq (s : State) (l : Nat) (src : Bytes) (h : s.cur l + src.length ≤ s.buffer.length) :
    s.put l src = some { s with buffer := patched s.buffer (s.cur l) src,
                                cursors := s.cursors.set l (s.cur l + src.length) } := by
  simp [State.put, copyAt_eq _ _ _ h, State.setCur]

/-- the three copies of `writeToLevel` are one copy of `span ‖ ref ‖ key` -/
theorem put3_eq (s : State) (l : Nat) (x y z : Bytes) (hl : l < s.cursors.length)
    (h : s.cur l + (x ++ y ++ z).length ≤ s.buffer.length) :
    s.put3 l x y z = some { s with buffer := patched s.buffer (s.cur l) (x ++ y ++ z),
                                   cursors := s.cursors.set l (s.cur l + (x ++ y ++ z).length) } := by
  simp only [List.length_append] at h
  unfold State.put3
  rw [put_eq s l x (by omega)]
  simp only
  have c1 : ({ s with buffer := patched s.buffer (s.cur l) x, cursors := s.cursors.set l (s.cur l + x.length) } : State).cur l
      = s.cur l + x.length := cur_setCur_same s l _ hl
  have b1 := patched_length s.buffer (s.cur l) x (by omega)
  rw [put_eq _ l y (by rw [c1]; simp only; rw [b1]; omega)]
  simp only [c1]
  have c2 : ({ s with buffer := patched (patched s.buffer (s.cur l) x) (s.cur l + x.length) y,
                      cursors := (s.cursors.set l (s.cur l + x.length)).set l (s.cur l + x.length + y.length) } : State).cur l
      = s.cur l + x.length + y.length := by
    simp [State.cur, List.getD_eq_getElem?_getD, hl]
  have b2 := patched_length (patched s.buffer (s.cur l) x) (s.cur l + x.length) y (by rw [b1]; omega)
  rw [put_eq _ l z (by rw [c2]; simp only; rw [b2, b1]; omega)]
  simp only [c2]
  rw [patched_patched _ _ x y (by omega)]
  have := patched_patched s.buffer (s.cur l) (x ++ y) z (by simp; omega)
  simp only [List.length_append, ← Nat.add_assoc] at this
  rw [this]
  simp [List.set_set, Nat.add_assoc]

theorem cur_of_set (s1 s : State) (l v : Nat) (h : s1.cursors = s.cursors.set l v) :
    (l < s.cursors.length → s1.cur l = v) ∧ (∀ j, l ≠ j → s1.cur j = s.cur j) ∧
    s1.cursors.length = s.cursors.length := by
  refine ⟨fun hl => ?_, fun j hj => ?_, by rw [h]; simp⟩
  · simp [State.cur, h, List.getD_eq_getElem?_getD, hl]
  · simp [State.cur, h, List.getD_eq_getElem?_getD, List.getElem?_set_ne hj]

/-! ## the representation relation -/

/-- `lv` = the levels `ℓ, ℓ+1, …, 8` (lowest first) as laid out in `buf` by the cursors `c` -/
def Rep (R : Nat) (buf : Bytes) (c : Nat → Nat) : Nat → List (List Bytes) → Prop
  | ℓ, [] => ℓ = nCursors
  | ℓ, l :: up => c (ℓ + 1) ≤ c ℓ ∧ slice buf (c (ℓ + 1)) (c ℓ) = l.flatten ∧ (∀ r ∈ l, r.length = R) ∧
      Rep R buf c (ℓ + 1) up

theorem Rep_length {R : Nat} {buf : Bytes} {c : Nat → Nat} : ∀ (lv : List (List Bytes)) (ℓ : Nat),
    Rep R buf c ℓ lv → ℓ + lv.length = nCursors := by
  intro lv
  induction lv with
  | nil => intro ℓ h; simpa [Rep] using h
  | cons l up ih =>
    intro ℓ h
    have := ih _ h.2.2.2
    simp only [List.length_cons]; omega

/-- `Rep` at level `ℓ` only depends on the cursors `≥ ℓ` and on the buffer below `c ℓ` -/
theorem Rep_frame {R : Nat} {buf buf' : Bytes} {c c' : Nat → Nat} : ∀ (lv : List (List Bytes)) (ℓ : Nat),
    (∀ j, ℓ ≤ j → c' j = c j) → buf'.take (c ℓ) = buf.take (c ℓ) → Rep R buf c ℓ lv → Rep R buf' c' ℓ lv := by
  intro lv
  induction lv with
  | nil => intro ℓ _ _ h; exact h
  | cons l up ih =>
    intro ℓ hc hb h
    obtain ⟨h1, h2, h3, h4⟩ := h
    refine ⟨by rw [hc _ (by omega), hc _ (by omega)]; exact h1, ?_, h3, ?_⟩
    · rw [hc _ (by omega), hc _ (Nat.le_refl _)]
      unfold slice at *
      rw [hb]; exact h2
    · apply ih (ℓ + 1) (fun j hj => hc j (by omega)) ?_ h4
      have ht : ∀ b : Bytes, b.take (c (ℓ + 1)) = (b.take (c ℓ)).take (c (ℓ + 1)) := by
        intro b; rw [List.take_take]; congr 1; omega
      rw [ht buf', ht buf, hb]

/-- the region of one level has `|l| * R` bytes -/
theorem Rep_size {R : Nat} {buf : Bytes} {c : Nat → Nat} {ℓ : Nat} {l : List Bytes} {up : List (List Bytes)}
    (h : Rep R buf c ℓ (l :: up)) (hb : c ℓ ≤ buf.length) : c ℓ = c (ℓ + 1) + l.length * R := by
  obtain ⟨h1, h2, h3, _⟩ := h
  have := slice_length buf (c (ℓ + 1)) (c ℓ) hb
  rw [h2, flatten_length_const R l h3] at this
  omega

/-- the cursor of level `ℓ` = the number of bytes of all levels `≥ ℓ` -/
theorem Rep_cur {R : Nat} {buf : Bytes} {c : Nat → Nat} (h9 : c nCursors = 0) : ∀ (lv : List (List Bytes)) (ℓ : Nat),
    Rep R buf c ℓ lv → c ℓ ≤ buf.length → c ℓ = (lv.map List.length).sum * R := by
  intro lv
  induction lv with
  | nil => intro ℓ h _; simp only [Rep] at h; subst h; simpa using h9
  | cons l up ih =>
    intro ℓ h hb
    have hs := Rep_size h hb
    have := ih _ h.2.2.2 (by have := h.1; omega)
    simp only [List.map_cons, List.sum_cons, Nat.add_mul]
    omega

/-! ## the loop of `wrapFullLevel` -/

theorem fromLe64_take8 (r : Bytes) : fromLe64 (r.take 8) = fromLe64 r := by
  simp [fromLe64, List.take_take]

theorem wrapLoop_spec (buf : Bytes) (lo len refSize : Nat) :
    ∀ (todo : List Bytes) (i sp : Nat) (hs : Bytes),
      (∀ r ∈ todo, r.length = refSize + 8) → slice buf (lo + i) (lo + len) = todo.flatten →
      lo + len ≤ buf.length → i + todo.length * (refSize + 8) = len →
      wrapLoop buf lo len refSize i sp hs =
        some (todo.foldl (fun acc r => (acc + fromLe64 r) % 2 ^ 64) sp, hs ++ todo.flatMap (fun r => r.drop 8)) := by
  intro todo
  induction todo with
  | nil =>
    intro i sp hs _ _ _ hlen
    rw [wrapLoop]
    simp at hlen
    simp [hlen]
  | cons r rest ih =>
    intro i sp hs hR hsl hb hlen
    have hr : r.length = refSize + 8 := hR r (by simp)
    simp only [List.length_cons, Nat.add_mul, Nat.one_mul] at hlen
    rw [wrapLoop]
    have h1 : i < len := by omega
    have h2 : LeLen (lo + i + refSize + 8) buf := by show _ ≤ _; omega
    simp only [h1, h2, ↓reduceIte]
    have hs1 := slice_split buf (lo + i) (refSize + 8) (lo + len) r rest.flatten (by simpa using hsl) hr (by omega)
    have hs2 := slice_split buf (lo + i) 8 (lo + i + (refSize + 8)) (r.take 8) (r.drop 8)
      (by rw [hs1.1]; simp) (by simp; omega) (by omega)
    have e : lo + i + refSize + 8 = lo + i + (refSize + 8) := by omega
    rw [hs2.1, fromLe64_take8, e, hs2.2]
    have := ih (i + (refSize + 8)) ((sp + fromLe64 r) % 2 ^ 64) (hs ++ r.drop 8)
      (fun x hx => hR x (by simp [hx])) (by rw [← Nat.add_assoc]; exact hs1.2) hb (by omega)
    rw [this]; simp

/-! ## `writeToLevel` / `wrapFullLevel` = `push` -/

/-- the short pipeline returns one record (`span ‖ ref ‖ key` of `oneRef` bytes) -/
def ShortOK (P : Params) : Prop :=
  ∀ d : Bytes, 8 ≤ d.length → ((P.short d).1 ++ (P.short d).2.1 ++ (P.short d).2.2).length = P.oneRef

/-- simulation statement for `writeToLevel(ℓ, …)` on the levels `lv` (= levels `ℓ … 8`) -/
def WriteSim (P : Params) (lv : List (List Bytes)) (ℓ : Nat) : Prop :=
  ∀ (s : State) (span ref key : Bytes),
    Rep P.oneRef s.buffer s.cur ℓ lv → s.cursors.length = nCursors →
    (span ++ ref ++ key).length = P.oneRef → s.cur ℓ + P.oneRef ≤ s.buffer.length →
    ∃ s', writeToLevel P s ℓ span ref key = .ok s' ∧
      Rep P.oneRef s'.buffer s'.cur ℓ (push (wrapRaw P) P.branching lv (span ++ ref ++ key)).1 ∧
      s'.cursors.length = nCursors ∧ s'.buffer.length = s.buffer.length ∧
      s'.full = (s.full || (push (wrapRaw P) P.branching lv (span ++ ref ++ key)).2.1) ∧
      s'.sent = s.sent ++ (push (wrapRaw P) P.branching lv (span ++ ref ++ key)).2.2.map wrapData ∧
      s'.cur ℓ ≤ s.cur ℓ + P.oneRef

theorem le_mul_of_one_le (n R : Nat) (h : 1 ≤ n) : R ≤ n * R := Nat.le_mul_of_pos_left R h

/-- `wrapFullLevel(ℓ)` on a non-empty level `l` with the levels `up` above it, given the
    simulation of `writeToLevel(ℓ+1, …)` -/
theorem wrap_step (P : Params) (hs : ShortOK P) (l : List Bytes) (up : List (List Bytes)) (ℓ : Nat)
    (hup : WriteSim P up (ℓ + 1)) (hne : up ≠ []) (s : State)
    (hRep : Rep P.oneRef s.buffer s.cur ℓ (l :: up)) (hl : l ≠ []) (hcl : s.cursors.length = nCursors)
    (hb : s.cur ℓ ≤ s.buffer.length) :
    ∃ s', wrapFullLevel P s ℓ = .ok s' ∧
      Rep P.oneRef s'.buffer s'.cur ℓ ([] :: (push (wrapRaw P) P.branching up (wrapRaw P l)).1) ∧
      s'.cursors.length = nCursors ∧ s'.buffer.length = s.buffer.length ∧
      s'.full = (s.full || ((push (wrapRaw P) P.branching up (wrapRaw P l)).2.1 || up.length == 1)) ∧
      s'.sent = s.sent ++ (l :: (push (wrapRaw P) P.branching up (wrapRaw P l)).2.2).map wrapData ∧
      (s'.cur ℓ = s'.cur (ℓ + 1) ∧ s'.cur (ℓ + 1) ≤ s.cur (ℓ + 1) + P.oneRef) := by
  have hlen := Rep_length _ _ hRep
  have hup1 : 1 ≤ up.length := List.length_pos_iff.mpr hne
  simp only [List.length_cons, nCursors] at hlen
  have hsz := Rep_size hRep hb
  obtain ⟨h1, h2, h3, h4⟩ := hRep
  have hl1 : 1 ≤ l.length := List.length_pos_iff.mpr hl
  have hR := le_mul_of_one_le l.length P.oneRef hl1
  rw [wrapFullLevel]
  have hm : ¬ maxLevel ≤ ℓ := by simp only [maxLevel]; omega
  have hbd : s.cur (ℓ + 1) ≤ s.cur ℓ ∧ LeLen (s.cur ℓ) s.buffer := ⟨h1, hb⟩
  simp only [hm, ↓reduceIte, hbd, and_self, not_true_eq_false]
  have hloop := wrapLoop_spec s.buffer (s.cur (ℓ + 1)) (s.cur ℓ - s.cur (ℓ + 1)) P.refSize l 0 0 []
    h3 (by rw [Nat.add_zero, show s.cur (ℓ + 1) + (s.cur ℓ - s.cur (ℓ + 1)) = s.cur ℓ by omega]; exact h2)
    (by omega) (by simp only [Params.oneRef] at hsz; omega)
  rw [hloop]
  simp only [List.nil_append]
  have hdata : le64 (List.foldl (fun acc r => (acc + fromLe64 r) % 2 ^ 64) 0 l) ++ List.flatMap (fun r => List.drop 8 r) l
      = wrapData l := rfl
  rw [hdata]
  have hargs := hs (wrapData l) (by simp [wrapData, le64_length])
  obtain ⟨s3, hw, hRep3, hcl3, hbl3, hf3, hsent3, hcur3⟩ :=
    hup { s with sent := s.sent ++ [wrapData l] } (P.short (wrapData l)).1 (P.short (wrapData l)).2.1
      (P.short (wrapData l)).2.2 h4 hcl hargs (by show s.cur (ℓ + 1) + P.oneRef ≤ s.buffer.length; omega)
  rw [hw]
  simp only
  have hW : (P.short (wrapData l)).1 ++ (P.short (wrapData l)).2.1 ++ (P.short (wrapData l)).2.2 = wrapRaw P l := rfl
  rw [hW] at hRep3 hf3 hsent3
  -- the state after `cursors[level] = cursors[level+1]`
  have hc4 := cur_of_set (s3.setCur ℓ (s3.cur (ℓ + 1))) s3 ℓ (s3.cur (ℓ + 1)) rfl
  have hRep4 : Rep P.oneRef s3.buffer (s3.setCur ℓ (s3.cur (ℓ + 1))).cur ℓ
      ([] :: (push (wrapRaw P) P.branching up (wrapRaw P l)).1) := by
    refine ⟨?_, ?_, by simp, ?_⟩
    · rw [hc4.1 (by rw [hcl3, nCursors]; omega), hc4.2.1 (ℓ + 1) (by omega)]; exact Nat.le_refl _
    · rw [hc4.1 (by rw [hcl3, nCursors]; omega), hc4.2.1 (ℓ + 1) (by omega)]; simp [slice_self]
    · exact Rep_frame _ _ (fun j hj => hc4.2.1 j (by omega)) rfl hRep3
  have hfl : (up.length == 1) = decide (ℓ + 1 = 8) := by
    by_cases h8 : ℓ + 1 = 8
    · have : up.length = 1 := by omega
      simp [h8, this]
    · have : up.length ≠ 1 := by omega
      simp [h8, this]
  by_cases h8 : ℓ + 1 = 8
  · rw [if_pos h8]
    refine ⟨_, rfl, hRep4, by simpa [State.setCur] using hcl3, hbl3, ?_, ?_, ?_⟩
    · simp [hfl, h8]
    · show s3.sent = _
      rw [hsent3]; simp
    · show (s3.setCur ℓ (s3.cur (ℓ + 1))).cur ℓ = (s3.setCur ℓ (s3.cur (ℓ + 1))).cur (ℓ + 1) ∧
        (s3.setCur ℓ (s3.cur (ℓ + 1))).cur (ℓ + 1) ≤ _
      rw [hc4.2.1 (ℓ + 1) (by omega), hc4.1 (by rw [hcl3, nCursors]; omega)]; exact ⟨rfl, hcur3⟩
  · rw [if_neg h8]
    refine ⟨_, rfl, hRep4, by simpa [State.setCur] using hcl3, hbl3, ?_, ?_, ?_⟩
    · show s3.full = _
      rw [hf3]; simp [hfl, h8]
    · show s3.sent = _
      rw [hsent3]; simp
    · rw [hc4.2.1 (ℓ + 1) (by omega), hc4.1 (by rw [hcl3, nCursors]; omega)]; exact ⟨rfl, hcur3⟩

section PushEq
variable {α : Type} (wrap : List α → α) (B : Nat)
theorem push_wrap (l : List α) (up : List (List α)) (e : α) (h : (l ++ [e]).length = B) :
    push wrap B (l :: up) e = ([] :: (push wrap B up (wrap (l ++ [e]))).1,
      (push wrap B up (wrap (l ++ [e]))).2.1 || up.length == 1, (l ++ [e]) :: (push wrap B up (wrap (l ++ [e]))).2.2) := by
  simp only [push, h, ↓reduceIte]

theorem push_nowrap (l : List α) (up : List (List α)) (e : α) (h : (l ++ [e]).length ≠ B) :
    push wrap B (l :: up) e = ((l ++ [e]) :: up, false, []) := by
  simp only [push, h, ↓reduceIte]
end PushEq

theorem oneRef_pos (P : Params) : 0 < P.oneRef := by simp [Params.oneRef]

/-- **`writeToLevel` = `push`**, as long as level 8 is empty (so the cascade cannot reach
    `cursors[9]`; the `full` flag guarantees that for `ChainWrite`, `TopFree` for `Sum`). -/
theorem write_sim (P : Params) (hB : 2 ≤ P.branching) (hs : ShortOK P) :
    ∀ (lv : List (List Bytes)) (ℓ : Nat), lv ≠ [] → lv.getLast? = some [] → WriteSim P lv ℓ := by
  intro lv
  induction lv with
  | nil => intro ℓ h; exact absurd rfl h
  | cons l up ih =>
    intro ℓ _ hlast s span ref key hRep hcl hrec hbound
    have hlen := Rep_length _ _ hRep
    simp only [List.length_cons, nCursors] at hlen
    have hsz := Rep_size hRep (by omega)
    obtain ⟨h1, h2, h3, h4⟩ := hRep
    have hRpos := oneRef_pos P
    rw [writeToLevel]
    have hn : ¬ nCursors ≤ ℓ := by simp only [nCursors]; omega
    simp only [hn, ↓reduceIte]
    obtain ⟨s1, hp3, hb1, hc1, hf1, hsent1⟩ : ∃ s1, s.put3 ℓ span ref key = some s1 ∧
        s1.buffer = patched s.buffer (s.cur ℓ) (span ++ ref ++ key) ∧
        s1.cursors = s.cursors.set ℓ (s.cur ℓ + (span ++ ref ++ key).length) ∧ s1.full = s.full ∧ s1.sent = s.sent :=
      ⟨_, put3_eq s ℓ span ref key (by rw [hcl, nCursors]; omega) (by omega), rfl, rfl, rfl, rfl⟩
    rw [hp3]
    simp only
    have hcs := cur_of_set s1 s ℓ _ hc1
    have hcℓ : s1.cur ℓ = s.cur ℓ + P.oneRef := by rw [hcs.1 (by rw [hcl, nCursors]; omega), hrec]
    have hcj : ∀ j, ℓ ≠ j → s1.cur j = s.cur j := hcs.2.1
    have hcl1 : s1.cursors.length = nCursors := by rw [hcs.2.2, hcl]
    have hbl1 : s1.buffer.length = s.buffer.length := by
      rw [hb1, patched_length _ _ _ (by omega)]
    -- level ℓ now holds `l ++ [rec]`
    have hRep1 : Rep P.oneRef s1.buffer s1.cur ℓ ((l ++ [span ++ ref ++ key]) :: up) := by
      refine ⟨by rw [hcℓ, hcj _ (by omega)]; omega, ?_, ?_, ?_⟩
      · rw [hcℓ, hcj _ (by omega), hb1, ← hrec, patched_slice _ _ _ _ (by omega) h1, h2]; simp
      · intro r hr
        rcases List.mem_append.mp hr with hr | hr
        · exact h3 r hr
        · simp only [List.mem_singleton] at hr; rw [hr]; exact hrec
      · apply Rep_frame _ _ (fun j hj => hcj j (by omega)) ?_ h4
        rw [hb1, patched_take _ _ _ _ (by omega) h1]
    -- `levelSize(level)` after the write
    have hc9 : up = [] → s.cur (ℓ + 1) = 0 := by
      intro hu; subst hu
      simp only [List.length_nil] at hlen
      exact cur_ge_length s _ (by rw [hcl, nCursors]; omega)
    have hls : s1.levelSize ℓ = (((l ++ [span ++ ref ++ key]).length * P.oneRef : Nat) : Int) := by
      simp only [State.levelSize, List.length_append, List.length_cons, List.length_nil, Nat.add_mul, Nat.one_mul,
        Nat.zero_add]
      by_cases h8 : ℓ = 8
      · have hu : up = [] := List.eq_nil_of_length_eq_zero (by omega)
        have := hc9 hu
        rw [if_pos h8, hcℓ]; omega
      · rw [if_neg h8, hcℓ, hcj _ (by omega)]; omega
    have hcond : (s1.levelSize ℓ = (((P.refSize + 8) * P.branching : Nat) : Int)) ↔
        (l ++ [span ++ ref ++ key]).length = P.branching := by
      rw [hls]
      constructor
      · intro h
        have h' : (l ++ [span ++ ref ++ key]).length * P.oneRef = (P.refSize + 8) * P.branching := by exact_mod_cast h
        rw [show (P.refSize + 8) = P.oneRef from rfl, Nat.mul_comm] at h'
        exact Nat.eq_of_mul_eq_mul_left hRpos h'
      · intro h; rw [h, Nat.mul_comm]; rfl
    by_cases hw : (l ++ [span ++ ref ++ key]).length = P.branching
    · -- the level is full: `wrapFullLevel(level)`
      rw [if_pos (hcond.mpr hw)]
      cases up with
      | nil =>
        simp only [List.getLast?_singleton, Option.some.injEq] at hlast
        subst hlast
        simp at hw; omega
      | cons l' up' =>
        have hlast' : (l' :: up').getLast? = some [] := by
          rw [List.getLast?_cons_cons] at hlast; exact hlast
        obtain ⟨s', hw', hRep', hcl', hbl', hf', hsent', hcur'⟩ :=
          wrap_step P hs (l ++ [span ++ ref ++ key]) (l' :: up') ℓ (ih (ℓ + 1) (by simp) hlast') (by simp) s1
            hRep1 (by simp) hcl1 (by rw [hcℓ, hbl1]; exact hbound)
        refine ⟨s', hw', ?_, hcl', by rw [hbl', hbl1], ?_, ?_, ?_⟩
        · rw [push_wrap _ _ _ _ _ hw]; exact hRep'
        · rw [push_wrap _ _ _ _ _ hw, hf', hf1]
        · rw [push_wrap _ _ _ _ _ hw, hsent', hsent1]
        · rw [hcj _ (by omega)] at hcur'
          omega
    · rw [if_neg (fun h => hw (hcond.mp h))]
      refine ⟨s1, rfl, ?_, hcl1, hbl1, ?_, ?_, by omega⟩
      · rw [push_nowrap _ _ _ _ _ hw]; exact hRep1
      · rw [push_nowrap _ _ _ _ _ hw]; simp [hf1]
      · rw [push_nowrap _ _ _ _ _ hw]; simp [hsent1]

/-- **`wrapFullLevel` = wrap + `push` one level up** -/
theorem wrap_sim (P : Params) (hB : 2 ≤ P.branching) (hs : ShortOK P) (l : List Bytes) (up : List (List Bytes))
    (ℓ : Nat) (hne : up ≠ []) (hlast : up.getLast? = some []) (s : State)
    (hRep : Rep P.oneRef s.buffer s.cur ℓ (l :: up)) (hl : l ≠ []) (hcl : s.cursors.length = nCursors)
    (hb : s.cur ℓ ≤ s.buffer.length) :
    ∃ s', wrapFullLevel P s ℓ = .ok s' ∧
      Rep P.oneRef s'.buffer s'.cur ℓ ([] :: (push (wrapRaw P) P.branching up (wrapRaw P l)).1) ∧
      s'.cursors.length = nCursors ∧ s'.buffer.length = s.buffer.length ∧
      s'.full = (s.full || ((push (wrapRaw P) P.branching up (wrapRaw P l)).2.1 || up.length == 1)) ∧
      s'.sent = s.sent ++ (l :: (push (wrapRaw P) P.branching up (wrapRaw P l)).2.2).map wrapData ∧
      (s'.cur ℓ = s'.cur (ℓ + 1) ∧ s'.cur (ℓ + 1) ≤ s.cur (ℓ + 1) + P.oneRef) :=
  wrap_step P hs l up ℓ (write_sim P hB hs up (ℓ + 1) hne hlast) hne s hRep hl hcl hb

/-! ## the list machine: level 8 stays free until the cascade reaches it -/

section Top
variable {α : Type} (wrap : List α → α) (B : Nat)

/-- level 8 is empty, or everything below it is -/
def TopFree (lv : List (List α)) : Prop := lv.getLast? = some [] ∨ ∀ l ∈ lv.dropLast, l = []

/-- pushing below an empty top level: flag not set → the top is still empty; flag set → all
    levels below the top were emptied by the cascade -/
theorem push_top (hB : 2 ≤ B) : ∀ (lv : List (List α)) (e : α), 2 ≤ lv.length → lv.getLast? = some [] →
    ((push wrap B lv e).2.1 = false → (push wrap B lv e).1.getLast? = some []) ∧
    ((push wrap B lv e).2.1 = true → ∀ l ∈ (push wrap B lv e).1.dropLast, l = []) := by
  intro lv
  induction lv with
  | nil => intro e h; simp at h
  | cons l up ih =>
    intro e hlen hlast
    by_cases hw : (l ++ [e]).length = B
    · rw [push_wrap wrap B l up e hw]
      match up, hlen, hlast, ih with
      | [top], _, hlast, _ =>
        simp only [List.getLast?_cons_cons, List.getLast?_singleton, Option.some.injEq] at hlast
        subst hlast
        rw [push_nowrap wrap B [] [] _ (by simp; omega)]
        simp
      | l' :: l'' :: up'', _, hlast, ih =>
        rw [List.getLast?_cons_cons] at hlast
        have ih' := ih (wrap (l ++ [e])) (by simp) hlast
        have hl := push_length wrap B (l' :: l'' :: up'') (wrap (l ++ [e]))
        generalize push wrap B (l' :: l'' :: up'') (wrap (l ++ [e])) = r at *
        obtain ⟨r1, rf, rg⟩ := r
        simp only at ih' hl ⊢
        match r1, hl with
        | a :: b :: t, _ =>
          have hbeq : ((l' :: l'' :: up'').length == 1) = false := by simp
          rw [hbeq, Bool.or_false]
          simp only [List.getLast?_cons_cons, List.dropLast_cons_cons, List.mem_cons] at ih' ⊢
          refine ⟨ih'.1, fun hf x hx => ?_⟩
          rcases hx with hx | hx
          · exact hx
          · exact ih'.2 hf x hx
    · rw [push_nowrap wrap B l up e hw]
      match up, hlen, hlast with
      | b :: t, _, hlast =>
        rw [List.getLast?_cons_cons] at hlast
        simp [hlast]

theorem push_topFree (hB : 2 ≤ B) (lv : List (List α)) (e : α) (hne : lv ≠ []) (hlast : lv.getLast? = some []) :
    TopFree (push wrap B lv e).1 := by
  match lv, hne, hlast with
  | [l], _, hlast =>
    simp only [List.getLast?_singleton, Option.some.injEq] at hlast
    subst hlast
    rw [push_nowrap wrap B [] [] _ (by simp; omega)]
    right; simp
  | a :: b :: t, _, hlast =>
    have := push_top wrap B hB (a :: b :: t) e (by simp) hlast
    cases hf : (push wrap B (a :: b :: t) e).2.1
    · left; exact this.1 hf
    · right; exact this.2 hf

theorem sumUp_single (top : List α) : (sumUp wrap B [top]).2 = [] := by
  unfold sumUp
  split <;> rfl

end Top

/-! ## the loop of `Sum` = `sumUp` -/

theorem levelSize_of_Rep (P : Params) (s : State) (ℓ : Nat) (l : List Bytes) (up : List (List Bytes))
    (hRep : Rep P.oneRef s.buffer s.cur ℓ (l :: up)) (hcl : s.cursors.length = nCursors)
    (hb : s.cur ℓ ≤ s.buffer.length) : s.levelSize ℓ = ((l.length * P.oneRef : Nat) : Int) := by
  have hlen := Rep_length _ _ hRep
  simp only [List.length_cons, nCursors] at hlen
  have hsz := Rep_size hRep hb
  unfold State.levelSize
  by_cases h8 : ℓ = 8
  · have := cur_ge_length s (ℓ + 1) (by rw [hcl, nCursors]; omega)
    rw [if_pos h8]; omega
  · rw [if_neg h8]; omega

theorem size_conds (n R B : Nat) (hR : 0 < R) :
    (((n * R : Nat) : Int).tmod ((R : Nat) : Int) = 0) ∧
    ((((n * R : Nat) : Int) = 0) ↔ n = 0) ∧
    ((((n * R : Nat) : Int) = ((R * B : Nat) : Int)) ↔ n = B) ∧
    ((((n * R : Nat) : Int) = ((R : Nat) : Int)) ↔ n = 1) := by
  refine ⟨?_, ?_, ?_, ?_⟩
  · show ((n * R % R : Nat) : Int) = 0
    simp
  · rw [show (0 : Int) = ((0 : Nat) : Int) from rfl, Int.ofNat_inj]
    constructor
    · intro h; rcases Nat.mul_eq_zero.mp h with h | h <;> omega
    · intro h; simp [h]
  · rw [Int.ofNat_inj]
    constructor
    · intro h; rw [Nat.mul_comm] at h; exact Nat.eq_of_mul_eq_mul_left hR h
    · intro h; rw [h, Nat.mul_comm]
  · rw [Int.ofNat_inj]
    constructor
    · intro h
      have : R * n = R * 1 := by rw [Nat.mul_comm, h, Nat.mul_one]
      exact Nat.eq_of_mul_eq_mul_left hR this
    · intro h; simp [h]

section SumUpEq
variable {α : Type} (wrap : List α → α) (B : Nat)
theorem sumUp_empty (l l' : List α) (up : List (List α)) (h0 : l.length = 0) :
    sumUp wrap B (l :: l' :: up) = sumUp wrap B (l' :: up) := by
  rw [sumUp, if_pos h0]

theorem sumUp_carry (l l' : List α) (up : List (List α)) (h0 : l.length ≠ 0) (hB : l.length ≠ B) (h1 : l.length = 1) :
    sumUp wrap B (l :: l' :: up) = sumUp wrap B ((l' ++ l) :: up) := by
  rw [sumUp, if_neg h0, if_neg hB, if_pos h1]

theorem sumUp_wrapcase (l l' : List α) (up : List (List α)) (h0 : l.length ≠ 0) (hc : l.length = B ∨ l.length ≠ 1) :
    sumUp wrap B (l :: l' :: up) =
      ((sumUp wrap B (push wrap B (l' :: up) (wrap l)).1).1,
       l :: (push wrap B (l' :: up) (wrap l)).2.2 ++ (sumUp wrap B (push wrap B (l' :: up) (wrap l)).1).2) := by
  rw [sumUp]
  by_cases hB : l.length = B
  · rw [if_neg h0, if_pos hB]
  · have h1 : l.length ≠ 1 := by rcases hc with h | h; exact absurd h hB; exact h
    rw [if_neg h0, if_neg hB, if_neg h1]
end SumUpEq

/-- **the loop of `Sum` = `sumUp`** (empty / full / carry / default), from level `i` with the
    levels `lv = i … 8`; nothing is assumed about cursors and buffer below level `i`. -/
theorem sumLoop_sim (P : Params) (hB : 2 ≤ P.branching) (hs : ShortOK P) :
    ∀ (n : Nat) (lv : List (List Bytes)) (i : Nat) (s : State), lv.length = n →
      TopFree lv → Rep P.oneRef s.buffer s.cur i lv → lv ≠ [] → s.cursors.length = nCursors →
      s.cur i ≤ s.buffer.length →
      ∃ s' top, sumLoop P s i = .ok s' ∧ Rep P.oneRef s'.buffer s'.cur 8 [top] ∧
        s'.cursors.length = nCursors ∧ s'.buffer.length = s.buffer.length ∧ s'.cur 8 ≤ s'.buffer.length ∧
        (sumUp (wrapRaw P) P.branching lv).1 = (sumUp (wrapRaw P) P.branching [top]).1 ∧
        s'.sent = s.sent ++ (sumUp (wrapRaw P) P.branching lv).2.map wrapData := by
  intro n
  induction n using Nat.strongRecOn with
  | _ n ih =>
    intro lv i s hn hTop hRep hne hcl hb
    match lv, hne, hn, hTop, hRep with
    | [top], _, _, _, hRep =>
      have hlen := Rep_length _ _ hRep
      simp only [List.length_cons, List.length_nil, nCursors] at hlen
      have hi : i = 8 := by omega
      subst hi
      refine ⟨s, top, ?_, hRep, hcl, rfl, hb, rfl, ?_⟩
      · rw [sumLoop]; simp [maxLevel]
      · rw [sumUp_single]; simp
    | l :: l' :: up, _, hn, hTop, hRep =>
      have hlen := Rep_length _ _ hRep
      simp only [List.length_cons, nCursors] at hlen
      have hls : s.levelSize i = ((l.length * (P.refSize + 8) : Nat) : Int) :=
        levelSize_of_Rep P s i l (l' :: up) hRep hcl hb
      have hsz := Rep_size hRep hb
      obtain ⟨hc0, hc1, hc2, hc3⟩ := size_conds l.length (P.refSize + 8) P.branching (by omega)
      have hRep0 := hRep
      obtain ⟨h1, h2, h3, h4⟩ := hRep
      have hwrapcont : l.length ≠ 0 → (l.length = P.branching ∨ l.length ≠ 1) →
          ∃ s' top, (match wrapFullLevel P s i with
              | .error e => .error e
              | .ok s => sumLoop P s (i + 1)) = Except.ok s' ∧
            Rep P.oneRef s'.buffer s'.cur 8 [top] ∧
            s'.cursors.length = nCursors ∧ s'.buffer.length = s.buffer.length ∧ s'.cur 8 ≤ s'.buffer.length ∧
            (sumUp (wrapRaw P) P.branching (l :: l' :: up)).1 = (sumUp (wrapRaw P) P.branching [top]).1 ∧
            s'.sent = s.sent ++ (sumUp (wrapRaw P) P.branching (l :: l' :: up)).2.map wrapData := by
        intro h0 hc
        have hl : l ≠ [] := fun hl => h0 (by simp [hl])
        have hlast : (l' :: up).getLast? = some [] := by
          rcases hTop with ht | ht
          · rw [List.getLast?_cons_cons] at ht; exact ht
          · exact absurd (ht l (by simp)) hl
        obtain ⟨s1, hw, hRep1, hcl1, hbl1, hf1, hsent1, hceq, hcle⟩ :=
          wrap_sim P hB hs l (l' :: up) i (by simp) hlast s hRep0 hl hcl hb
        rw [hw]
        simp only
        have hpl := push_length (wrapRaw P) P.branching (l' :: up) (wrapRaw P l)
        have hR := le_mul_of_one_le l.length P.oneRef (by omega)
        obtain ⟨s', top, hsl, hRep', hcl', hbl', hb', hroot, hsent'⟩ :=
          ih (l' :: up).length (by rw [← hn]; simp) _ (i + 1) s1 hpl
            (push_topFree _ _ hB _ _ (by simp) hlast) hRep1.2.2.2
            (by intro h; rw [h] at hpl; simp at hpl) hcl1 (by rw [hbl1]; omega)
        refine ⟨s', top, hsl, hRep', hcl', by rw [hbl', hbl1], hb', ?_, ?_⟩
        · rw [sumUp_wrapcase _ _ _ _ _ h0 hc]; exact hroot
        · rw [sumUp_wrapcase _ _ _ _ _ h0 hc, hsent', hsent1]; simp
      rw [sumLoop]
      have hi : i < maxLevel := by simp only [maxLevel]; omega
      simp only [hi, ↓reduceIte, hls, hc0, ne_eq, not_true_eq_false, Params.fullChunk]
      by_cases h0 : l.length = 0
      · -- level empty: continue
        rw [if_pos (hc1.mpr h0)]
        have hTop' : TopFree (l' :: up) := by
          rcases hTop with ht | ht
          · left; rw [List.getLast?_cons_cons] at ht; exact ht
          · right; intro x hx; exact ht x (by simp [hx])
        obtain ⟨s', top, hsl, hRep', hcl', hbl', hb', hroot, hsent'⟩ :=
          ih (l' :: up).length (by rw [← hn]; simp) _ (i + 1) s rfl hTop' h4 (by simp) hcl (by omega)
        refine ⟨s', top, hsl, hRep', hcl', hbl', hb', ?_, ?_⟩
        · rw [sumUp_empty _ _ _ _ _ h0]; exact hroot
        · rw [sumUp_empty _ _ _ _ _ h0]; exact hsent'
      · rw [if_neg (fun h => h0 (hc1.mp h))]
        by_cases hfull : l.length = P.branching
        · rw [if_pos (hc2.mpr hfull)]
          exact hwrapcont h0 (Or.inl hfull)
        · rw [if_neg (fun h => hfull (hc2.mp h))]
          by_cases hone : l.length = 1
          · -- exactly one reference: `cursors[i+1] = cursors[i]`
            rw [if_pos (hc3.mpr hone)]
            have hl : l ≠ [] := fun hl => h0 (by simp [hl])
            have hcs := cur_of_set (s.setCur (i + 1) (s.cur i)) s (i + 1) (s.cur i) rfl
            have hci : (s.setCur (i + 1) (s.cur i)).cur (i + 1) = s.cur i :=
              hcs.1 (by rw [hcl, nCursors]; omega)
            obtain ⟨g1, g2, g3, g4⟩ := h4
            have hRep2 : Rep P.oneRef s.buffer (s.setCur (i + 1) (s.cur i)).cur (i + 1) ((l' ++ l) :: up) := by
              refine ⟨by rw [hci, hcs.2.1 _ (by omega)]; omega, ?_, ?_, ?_⟩
              · rw [hci, hcs.2.1 _ (by omega), slice_append _ _ _ _ g1 h1, g2, h2]; simp
              · intro r hr
                rcases List.mem_append.mp hr with hr | hr
                · exact g3 r hr
                · exact h3 r hr
              · exact Rep_frame _ _ (fun j hj => hcs.2.1 j (by omega)) rfl g4
            have hTop' : TopFree ((l' ++ l) :: up) := by
              match up, hTop with
              | [], _ => right; simp
              | u :: us, hTop =>
                rcases hTop with ht | ht
                · left; rw [List.getLast?_cons_cons, List.getLast?_cons_cons] at ht
                  rw [List.getLast?_cons_cons]; exact ht
                · exact absurd (ht l (by simp)) hl
            obtain ⟨s', top, hsl, hRep', hcl', hbl', hb', hroot, hsent'⟩ :=
              ih ((l' ++ l) :: up).length (by rw [← hn]; simp) _ (i + 1) (s.setCur (i + 1) (s.cur i)) rfl hTop'
                hRep2 (by simp) (by rw [hcs.2.2, hcl]) (by rw [hci]; exact hb)
            refine ⟨s', top, hsl, hRep', hcl', hbl', hb', ?_, ?_⟩
            · rw [sumUp_carry _ _ _ _ _ h0 hfull hone]; exact hroot
            · rw [sumUp_carry _ _ _ _ _ h0 hfull hone]; exact hsent'
          · rw [if_neg (fun h => hone (hc3.mp h))]
            exact hwrapcont h0 (Or.inr hone)

/-! ## whole steps: `ChainWrite` and `Sum` under the invariant -/

section Small
variable {α : Type} (wrap : List α → α) (B : Nat)

theorem push_small (hB : 0 < B) : ∀ (lv : List (List α)) (e : α), (∀ l ∈ lv, l.length < B) →
    ∀ l ∈ (push wrap B lv e).1, l.length < B := by
  intro lv
  induction lv with
  | nil => intro e _ l hl; simp [push] at hl
  | cons a up ih =>
    intro e h l hl
    by_cases hw : (a ++ [e]).length = B
    · rw [push_wrap wrap B a up e hw] at hl
      rcases List.mem_cons.mp hl with hl | hl
      · subst hl; simpa using hB
      · exact ih _ (fun x hx => h x (by simp [hx])) l hl
    · rw [push_nowrap wrap B a up e hw] at hl
      rcases List.mem_cons.mp hl with hl | hl
      · subst hl
        have := h a (by simp)
        simp only [List.length_append, List.length_cons, List.length_nil] at hw ⊢
        omega
      · exact h l (by simp [hl])

theorem sum_lengths_le (k : Nat) : ∀ (lv : List (List α)), (∀ l ∈ lv, l.length ≤ k) →
    (lv.map List.length).sum ≤ lv.length * k := by
  intro lv
  induction lv with
  | nil => intro _; simp
  | cons a t ih =>
    intro h
    have h1 := h a (by simp)
    have h2 := ih (fun l hl => h l (by simp [hl]))
    simp only [List.map_cons, List.sum_cons, List.length_cons, Nat.add_mul, Nat.one_mul]
    omega
end Small

/-- **the invariant**: the literal state `s` lays out the list-machine state `h` (raw records);
    every level holds fewer than `B` records and level 8 is empty until the trie is `full` (then
    everything below it is empty) — which bounds the buffer use by `8·B·oneRef`. -/
structure Sim (P : Params) (s : State) (h : Aurora.HashTrie.State Bytes) : Prop where
  rep : Rep P.oneRef s.buffer s.cur 1 h.levels
  ncur : s.cursors.length = nCursors
  full : s.full = h.full
  small : ∀ l ∈ h.levels, l.length < P.branching
  top : if h.full then (∀ l ∈ h.levels.dropLast, l = []) else h.levels.getLast? = some []
  bound : s.cur 1 ≤ s.buffer.length
  fits : P.oneRef * P.branching * 8 ≤ s.buffer.length

theorem Sim_new (P : Params) (hB : 2 ≤ P.branching) (bufLen : Nat) (hfit : P.oneRef * P.branching * 8 ≤ bufLen) :
    Sim P (State.new bufLen) Aurora.HashTrie.State.new := by
  have hc : ∀ j, (State.new bufLen).cur j = 0 := by
    intro j
    simp only [State.cur, State.new, List.getD_eq_getElem?_getD, List.getElem?_replicate]
    split <;> rfl
  refine ⟨?_, by simp [State.new], rfl, ?_, ?_, by rw [hc]; exact Nat.zero_le _, by simpa [State.new] using hfit⟩
  · simp only [Aurora.HashTrie.State.new, Aurora.Tree.maxLevel, List.replicate, Rep, hc, slice_self, List.flatten_nil,
      Nat.le_refl, List.not_mem_nil, false_imp_iff, implies_true, and_self, nCursors]
  · intro l hl
    simp only [Aurora.HashTrie.State.new, List.mem_replicate] at hl
    rw [hl.2]; simp; omega
  · simp [Aurora.HashTrie.State.new, Aurora.Tree.maxLevel, List.replicate]

/-- **`ChainWrite` refines the list machine's `chainWrite`** (including `errTrieFull`), and the
    invariant is kept; the wrapped chunks handed to the short pipeline are those of the list machine. -/
theorem chainWrite_sim (P : Params) (hB : 2 ≤ P.branching) (hs : ShortOK P) (s : State)
    (h : Aurora.HashTrie.State Bytes) (hsim : Sim P s h) (span ref key : Bytes)
    (hrec : (span ++ ref ++ key).length = P.oneRef) :
    match Aurora.HashTrie.chainWrite (wrapRaw P) P.branching h (span ++ ref ++ key) with
    | .error e => e = .trieFull ∧ chainWrite P s span ref key = .error .trieFull
    | .ok (h', gs) => ∃ s', chainWrite P s span ref key = .ok s' ∧ Sim P s' h' ∧
        s'.sent = s.sent ++ gs.map wrapData := by
  obtain ⟨hrep, hncur, hfull, hsmall, htop, hbound, hfits⟩ := hsim
  have hmod : (span.length + ref.length + key.length) % (P.refSize + 8) = 0 := by
    simp only [List.length_append, Params.oneRef] at hrec
    rw [hrec]; exact Nat.mod_self _
  unfold Aurora.HashTrie.chainWrite chainWrite
  simp only [hmod, ne_eq, not_true_eq_false, ↓reduceIte, hfull]
  by_cases hf : h.full
  · simp [hf]
  · simp only [hf, Bool.false_eq_true, ↓reduceIte, Bool.false_or] at htop ⊢
    have hne : h.levels ≠ [] := by intro h0; rw [h0] at htop; simp at htop
    have hlen := Rep_length _ _ hrep
    simp only [nCursors] at hlen
    -- the write fits: all levels together hold at most 8·(B-1) records
    have hcur := Rep_cur (cur_ge_length s nCursors (by rw [hncur]; exact Nat.le_refl _)) _ _ hrep hbound
    have hsum := sum_lengths_le (P.branching - 1) h.levels (fun l hl => by have := hsmall l hl; omega)
    have hfit : s.cur 1 + P.oneRef ≤ s.buffer.length := by
      have h8 : h.levels.length = 8 := by omega
      rw [h8] at hsum
      have h1 : (h.levels.map List.length).sum * P.oneRef ≤ 8 * (P.branching - 1) * P.oneRef :=
        Nat.mul_le_mul_right _ hsum
      have h2 : 8 * (P.branching - 1) * P.oneRef + P.oneRef ≤ P.oneRef * P.branching * 8 := by
        obtain ⟨b, hb⟩ : ∃ b, P.branching = b + 1 := ⟨P.branching - 1, by omega⟩
        rw [hb, Nat.add_sub_cancel, Nat.mul_add, Nat.add_mul, Nat.mul_one, Nat.mul_comm P.oneRef b,
          Nat.mul_comm 8 b, Nat.mul_assoc, Nat.mul_assoc, Nat.mul_comm 8 P.oneRef]
        omega
      omega
    obtain ⟨s', hw, hrep', hncur', hbl', hf', hsent', hcur'⟩ :=
      write_sim P hB hs h.levels 1 hne htop s span ref key hrep hncur hrec hfit
    refine ⟨s', hw, ⟨hrep', hncur', ?_, ?_, ?_, by omega, by rw [hbl']; exact hfits⟩, hsent'⟩
    · rw [hf', hfull]; simp [hf]
    · exact push_small _ _ (by omega) _ _ hsmall
    · have ht := push_top (wrapRaw P) P.branching hB h.levels (span ++ ref ++ key) (by omega) htop
      cases hfl : (push (wrapRaw P) P.branching h.levels (span ++ ref ++ key)).2.1
      · simpa using ht.1 hfl
      · simpa using ht.2 hfl

/-- **`Sum` refines the list machine's `trieSum`**: same error, or the reference is the record
    left alone in level 8 without its 8 span bytes; same wrapped chunks in the same order. -/
theorem trieSum_sim (P : Params) (hB : 2 ≤ P.branching) (hs : ShortOK P) (s : State)
    (h : Aurora.HashTrie.State Bytes) (hsim : Sim P s h) :
    match Aurora.HashTrie.trieSum (wrapRaw P) P.branching h with
    | .error _ => trieSum P s = .error .inconsistent
    | .ok (e, gs) => ∃ s', trieSum P s = .ok (e.drop 8, s') ∧ s'.sent = s.sent ++ gs.map wrapData := by
  obtain ⟨hrep, hncur, hfull, hsmall, htop, hbound, hfits⟩ := hsim
  have hne : h.levels ≠ [] := by
    have := Rep_length _ _ hrep
    intro h0; rw [h0] at this; simp [nCursors] at this
  have hTF : TopFree h.levels := by
    by_cases hf : h.full
    · right; simpa [hf] using htop
    · left; simpa [hf] using htop
  obtain ⟨s', top, hsl, hRep', hcl', hbl', hb', hroot, hsent'⟩ :=
    sumLoop_sim P hB hs _ h.levels 1 s rfl hTF hrep hne hncur hbound
  have hls : s'.levelSize 8 = ((top.length * (P.refSize + 8) : Nat) : Int) :=
    levelSize_of_Rep P s' 8 top [] hRep' hcl' hb'
  obtain ⟨_, _, _, hc3⟩ := size_conds top.length (P.refSize + 8) P.branching (by omega)
  have hc9 : s'.cur 9 = 0 := cur_ge_length s' 9 (by rw [hcl', nCursors]; exact Nat.le_refl _)
  unfold Aurora.HashTrie.trieSum trieSum
  rw [hsl]
  simp only [hls]
  generalize hsu : sumUp (wrapRaw P) P.branching h.levels = su at hroot hsent'
  obtain ⟨o, gs⟩ := su
  simp only at hroot hsent' ⊢
  match top, hRep', hc3, hroot with
  | [e], hRep', hc3, hroot =>
    have ho : o = some e := by rw [hroot]; simp [sumUp]
    subst ho
    have h1 : ((([e] : List Bytes).length * (P.refSize + 8) : Nat) : Int) = ((P.refSize + 8 : Nat) : Int) := hc3.mpr rfl
    obtain ⟨_, g2, g3, _⟩ := hRep'
    rw [hc9] at g2
    simp only [List.flatten_cons, List.flatten_nil, List.append_nil] at g2
    have he : e.length = P.refSize + 8 := g3 e (by simp)
    have hb'' : LeLen (s'.cur 8) s'.buffer := hb'
    simp only [h1, ne_eq, not_true_eq_false, ↓reduceIte, hb'', g2, he, Nat.le_add_left]
    exact ⟨s', rfl, hsent'⟩
  | [], _, hc3, hroot =>
    have ho : o = none := by rw [hroot]; simp [sumUp]
    subst ho
    have h1 : ¬ (((([] : List Bytes).length * (P.refSize + 8) : Nat) : Int) = ((P.refSize + 8 : Nat) : Int)) :=
      fun hx => by have := hc3.mp hx; simp at this
    simp only [ne_eq, h1, not_false_eq_true, ↓reduceIte]
  | a :: b :: t, _, hc3, hroot =>
    have ho : o = none := by rw [hroot]; simp [sumUp]
    subst ho
    have h1 : ¬ ((((a :: b :: t : List Bytes).length * (P.refSize + 8) : Nat) : Int) = ((P.refSize + 8 : Nat) : Int)) :=
      fun hx => by have := hc3.mp hx; simp at this
    simp only [ne_eq, h1, not_false_eq_true, ↓reduceIte]

/-! ## the list machine commutes with a homomorphism of its element type -/

section Hom
variable {α β : Type} (w : List α → α) (W : List β → β) (f : α → β) (B : Nat)

theorem push_map (hom : ∀ g, f (w g) = W (g.map f)) : ∀ (lv : List (List α)) (e : α),
    push W B (lv.map (List.map f)) (f e) =
      ((push w B lv e).1.map (List.map f), (push w B lv e).2.1, (push w B lv e).2.2.map (List.map f)) := by
  intro lv
  induction lv with
  | nil => intro e; rfl
  | cons l up ih =>
    intro e
    by_cases hw : (l ++ [e]).length = B
    · have hw' : (l.map f ++ [f e]).length = B := by simpa using hw
      rw [List.map_cons, push_wrap W B _ _ _ hw', push_wrap w B l up e hw]
      have hW : W (l.map f ++ [f e]) = f (w (l ++ [e])) := by rw [hom]; simp
      rw [hW, ih]; simp
    · have hw' : (l.map f ++ [f e]).length ≠ B := by simpa using hw
      rw [List.map_cons, push_nowrap W B _ _ _ hw', push_nowrap w B l up e hw]; simp

theorem sumUp_map (hom : ∀ g, f (w g) = W (g.map f)) : ∀ (n : Nat) (lv : List (List α)), lv.length = n →
    sumUp W B (lv.map (List.map f)) = ((sumUp w B lv).1.map f, (sumUp w B lv).2.map (List.map f)) := by
  intro n
  induction n using Nat.strongRecOn with
  | _ n ih =>
    intro lv hn
    match lv, hn with
    | [], _ => simp [sumUp]
    | [top], _ =>
      match top with
      | [] => simp [sumUp]
      | [e] => simp [sumUp]
      | a :: b :: t => simp [sumUp]
    | l :: l' :: up, hn =>
      simp only [List.map_cons]
      by_cases h0 : l.length = 0
      · rw [sumUp_empty W B _ _ _ (by simpa using h0), sumUp_empty w B _ _ _ h0]
        exact ih (l' :: up).length (by rw [← hn]; simp) (l' :: up) rfl
      · have hwrap : (l.length = B ∨ l.length ≠ 1) →
            sumUp W B (List.map f l :: List.map f l' :: List.map (List.map f) up) =
              (Option.map f (sumUp w B (l :: l' :: up)).1, List.map (List.map f) (sumUp w B (l :: l' :: up)).2) := by
          intro hc
          rw [sumUp_wrapcase W B _ _ _ (by simpa using h0) (by simpa using hc), sumUp_wrapcase w B _ _ _ h0 hc]
          have hW : W (l.map f) = f (w l) := (hom l).symm
          have hm : List.map f l' :: List.map (List.map f) up = (l' :: up).map (List.map f) := rfl
          rw [hW, hm, push_map w W f B hom]
          have := ih (push w B (l' :: up) (w l)).1.length (by rw [push_length, ← hn]; simp) _ rfl
          simp only [this]
          simp
        by_cases hB : l.length = B
        · exact hwrap (Or.inl hB)
        · by_cases h1 : l.length = 1
          · rw [sumUp_carry W B _ _ _ (by simpa using h0) (by simpa using hB) (by simpa using h1),
              sumUp_carry w B _ _ _ h0 hB h1]
            have := ih ((l' ++ l) :: up).length (by rw [← hn]; simp) ((l' ++ l) :: up) rfl
            simpa using this
          · exact hwrap (Or.inr h1)

/-- the image of a list-machine state -/
def mapState (h : Aurora.HashTrie.State α) : Aurora.HashTrie.State β :=
  { levels := h.levels.map (List.map f), full := h.full }

theorem chainWrite_map (hom : ∀ g, f (w g) = W (g.map f)) (h : Aurora.HashTrie.State α) (e : α) :
    Aurora.HashTrie.chainWrite W B (mapState f h) (f e) =
      match Aurora.HashTrie.chainWrite w B h e with
      | .error x => .error x
      | .ok (h', gs) => .ok (mapState f h', gs.map (List.map f)) := by
  unfold Aurora.HashTrie.chainWrite
  by_cases hf : h.full
  · simp [mapState, hf]
  · simp only [mapState, hf, Bool.false_eq_true, ↓reduceIte, Bool.false_or]
    rw [push_map w W f B hom]

theorem trieSum_map (hom : ∀ g, f (w g) = W (g.map f)) (h : Aurora.HashTrie.State α) :
    Aurora.HashTrie.trieSum W B (mapState f h) =
      match Aurora.HashTrie.trieSum w B h with
      | .error x => .error x
      | .ok (e, gs) => .ok (f e, gs.map (List.map f)) := by
  unfold Aurora.HashTrie.trieSum
  simp only [mapState]
  rw [sumUp_map w W f B hom _ h.levels rfl]
  generalize sumUp w B h.levels = su
  obtain ⟨o, gs⟩ := su
  cases o <;> rfl
end Hom

/-! ## the plain pipeline's records: `le64 span ‖ ref` -/

theorem le64_mod (n : Nat) : le64 (n % 2 ^ 64) = le64 n := by
  simp only [le64, List.range, List.range.loop, List.map_cons, List.map_nil]
  have h : ∀ i, i < 8 → n % 2 ^ 64 / 256 ^ i % 256 = n / 256 ^ i % 256 := by
    intro i hi
    have : i = 0 ∨ i = 1 ∨ i = 2 ∨ i = 3 ∨ i = 4 ∨ i = 5 ∨ i = 6 ∨ i = 7 := by omega
    rcases this with h | h | h | h | h | h | h | h <;> subst h <;> omega
  rw [h 0 (by omega), h 1 (by omega), h 2 (by omega), h 3 (by omega), h 4 (by omega), h 5 (by omega),
    h 6 (by omega), h 7 (by omega)]

theorem fromLe64_le64_mod (n : Nat) : fromLe64 (le64 n) = n % 2 ^ 64 := by
  rw [← le64_mod, Aurora.Tree.fromLe64_le64 _ (Nat.mod_lt _ (by decide))]

/-- the record of an entry: `p.Span ‖ p.Ref` (no key in the plain pipeline) -/
def encode (e : Aurora.Tree.Entry) : Bytes := le64 e.span ++ e.ref

theorem fromLe64_encode (e : Aurora.Tree.Entry) : fromLe64 (encode e) = e.span % 2 ^ 64 := by
  rw [← fromLe64_le64_mod]
  unfold fromLe64 encode
  rw [List.take_append_of_le_length (by rw [le64_length]; exact Nat.le_refl _)]

theorem spanSum_encode (g : List Aurora.Tree.Entry) :
    spanSum (g.map encode) = (g.map Aurora.Tree.Entry.span).sum % 2 ^ 64 := by
  have : ∀ (g : List Aurora.Tree.Entry) (acc : Nat), acc < 2 ^ 64 →
      List.foldl (fun acc r => (acc + fromLe64 r) % 2 ^ 64) acc (g.map encode)
        = (acc + (g.map Aurora.Tree.Entry.span).sum) % 2 ^ 64 := by
    intro g
    induction g with
    | nil => intro acc h; simp [Nat.mod_eq_of_lt h]
    | cons e t ih =>
      intro acc h
      simp only [List.map_cons, List.foldl_cons, List.sum_cons]
      rw [ih _ (Nat.mod_lt _ (by decide)), fromLe64_encode]
      omega
  have h0 := this g 0 (by decide)
  simpa [spanSum] using h0

theorem wrapData_encode (g : List Aurora.Tree.Entry) :
    wrapData (g.map encode) = le64 (g.map Aurora.Tree.Entry.span).sum ++ g.flatMap Aurora.Tree.Entry.ref := by
  unfold wrapData
  rw [spanSum_encode, le64_mod]
  congr 1
  induction g with
  | nil => rfl
  | cons e t ih =>
    simp only [List.map_cons, List.flatMap_cons, ih]
    congr 1

/-- `encode` is a homomorphism from the entry machine (`wrapE cref`) to the record machine -/
theorem encode_hom (cref : Bytes → Bytes → Bytes) (B refLen : Nat) (g : List Aurora.Tree.Entry) :
    encode (Aurora.Tree.wrapE cref g) = wrapRaw (plainParams cref B refLen) (g.map encode) := by
  unfold wrapRaw
  simp only [plainParams, shortPlain]
  rw [wrapData_encode]
  rw [List.take_left' (le64_length _), List.drop_left' (le64_length _)]
  simp [encode, Aurora.Tree.wrapE]

theorem shortOK_plain (cref : Bytes → Bytes → Bytes) (B refLen : Nat) (hcref : ∀ sp p, (cref sp p).length = refLen) :
    ShortOK (plainParams cref B refLen) := by
  intro d hd
  simp only [plainParams, shortPlain, Params.oneRef, List.length_append, List.length_take, hcref, List.length_nil]
  omega

/-! ## the abstraction function reads the list-machine state back -/

theorem records_flatten (R : Nat) (hR : 0 < R) : ∀ (l : List Bytes), (∀ r ∈ l, r.length = R) →
    records R l.flatten = l := by
  intro l
  induction l with
  | nil => intro _; rw [records]; simp
  | cons r t ih =>
    intro h
    have hr := h r (by simp)
    rw [records]
    have h1 : ¬ (R = 0 ∨ (r :: t).flatten.length < R) := by
      simp only [List.flatten_cons, List.length_append]; omega
    rw [if_neg h1]
    simp only [List.flatten_cons]
    rw [List.take_left' hr, List.drop_left' hr, ih (fun x hx => h x (by simp [hx]))]

theorem Rep_levels {R : Nat} (hR : 0 < R) {buf : Bytes} {c : Nat → Nat} : ∀ (lv : List (List Bytes)) (ℓ : Nat),
    Rep R buf c ℓ lv →
    lv = (List.range lv.length).map (fun k => records R (slice buf (c (ℓ + k + 1)) (c (ℓ + k)))) := by
  intro lv
  induction lv with
  | nil => intro ℓ _; rfl
  | cons l up ih =>
    intro ℓ h
    obtain ⟨_, h2, h3, h4⟩ := h
    rw [List.length_cons, List.range_succ_eq_map, List.map_cons, List.map_map]
    congr 1
    · show l = records R (slice buf (c (ℓ + 1)) (c ℓ))
      rw [h2, records_flatten R hR l h3]
    · have := ih (ℓ + 1) h4
      rw [this]
      simp only [List.length_map, List.length_range]
      apply List.map_congr_left
      intro k _
      simp only [Function.comp, Nat.succ_eq_add_one]
      rw [show ℓ + (k + 1) + 1 = ℓ + 1 + k + 1 by omega, show ℓ + (k + 1) = ℓ + 1 + k by omega]

/-- under the invariant the abstraction function `State.levels` returns the list-machine levels -/
theorem Sim_levels (P : Params) (s : State) (h : Aurora.HashTrie.State Bytes) (hsim : Sim P s h) :
    s.levels P = h.levels := by
  have hl := Rep_length _ _ hsim.rep
  simp only [nCursors] at hl
  have h8 : h.levels.length = 8 := by omega
  have := Rep_levels (oneRef_pos P) _ _ hsim.rep
  rw [this, h8]
  unfold State.levels State.level maxLevel
  apply List.map_congr_left
  intro k _
  rw [show 1 + k + 1 = k + 1 + 1 by omega, show 1 + k = k + 1 by omega]

/-! ## entries (`Model/HashTrie.lean` as the upload pipeline uses it) vs the literal writer -/

section Plain
open Aurora.Tree (Entry wrapE leafEntry)
open Aurora.HashTrie (groupChunk)
variable (cref : Bytes → Bytes → Bytes) (B refLen : Nat)

/-- the invariant between the literal writer and the entry-level list machine -/
def SimE (s : State) (h : Aurora.HashTrie.State Entry) : Prop :=
  Sim (plainParams cref B refLen) s (mapState encode h)

/-- the chunk data stored for a wrapped group = the `Data` the literal writer sends to the short pipeline -/
theorem groupChunk_data (g : List Entry) : (groupChunk cref g).2 = wrapData (g.map encode) := by
  rw [wrapData_encode]; rfl

theorem chainWriteE_sim (hB : 2 ≤ B) (hcref : ∀ sp p, (cref sp p).length = refLen) (s : State)
    (h : Aurora.HashTrie.State Entry) (hsim : SimE cref B refLen s h) (e : Entry) (he : e.ref.length = refLen) :
    match Aurora.HashTrie.chainWrite (wrapE cref) B h e with
    | .error x => x = .trieFull ∧ chainWrite (plainParams cref B refLen) s (le64 e.span) e.ref [] = .error .trieFull
    | .ok (h', gs) => ∃ s', chainWrite (plainParams cref B refLen) s (le64 e.span) e.ref [] = .ok s' ∧
        SimE cref B refLen s' h' ∧ s'.sent = s.sent ++ gs.map (fun g => (groupChunk cref g).2) := by
  have h1 := chainWrite_sim (plainParams cref B refLen) hB (shortOK_plain cref B refLen hcref) s _ hsim
    (le64 e.span) e.ref [] (by simp [le64_length, he, Params.oneRef, plainParams]; omega)
  have he2 : le64 e.span ++ e.ref ++ [] = encode e := by simp [encode]
  rw [he2, show (plainParams cref B refLen).branching = B from rfl,
    chainWrite_map (wrapE cref) (wrapRaw (plainParams cref B refLen)) encode B (encode_hom cref B refLen) h e] at h1
  cases hc : Aurora.HashTrie.chainWrite (wrapE cref) B h e with
  | error x => rw [hc] at h1; exact h1
  | ok r =>
    obtain ⟨h', gs⟩ := r
    rw [hc] at h1
    obtain ⟨s', hw, hs', hsent⟩ := h1
    refine ⟨s', hw, hs', ?_⟩
    rw [hsent, List.map_map]
    congr 1
    apply List.map_congr_left
    intro g _
    exact (groupChunk_data cref g).symm

theorem trieSumE_sim (hB : 2 ≤ B) (hcref : ∀ sp p, (cref sp p).length = refLen) (s : State)
    (h : Aurora.HashTrie.State Entry) (hsim : SimE cref B refLen s h) :
    match Aurora.HashTrie.trieSum (wrapE cref) B h with
    | .error _ => trieSum (plainParams cref B refLen) s = .error .inconsistent
    | .ok (e, gs) => ∃ s', trieSum (plainParams cref B refLen) s = .ok (e.ref, s') ∧
        s'.sent = s.sent ++ gs.map (fun g => (groupChunk cref g).2) := by
  have h1 := trieSum_sim (plainParams cref B refLen) hB (shortOK_plain cref B refLen hcref) s _ hsim
  rw [show (plainParams cref B refLen).branching = B from rfl,
    trieSum_map (wrapE cref) (wrapRaw (plainParams cref B refLen)) encode B (encode_hom cref B refLen) h] at h1
  cases hc : Aurora.HashTrie.trieSum (wrapE cref) B h with
  | error x => rw [hc] at h1; exact h1
  | ok r =>
    obtain ⟨e, gs⟩ := r
    rw [hc] at h1
    obtain ⟨s', hw, hsent⟩ := h1
    have hd : (encode e).drop 8 = e.ref := List.drop_left' (le64_length _)
    rw [hd] at hw
    refine ⟨s', hw, ?_⟩
    rw [hsent, List.map_map]
    congr 1
    apply List.map_congr_left
    intro g _
    exact (groupChunk_data cref g).symm

theorem SimE_new (hB : 2 ≤ B) (bufLen : Nat) (hfit : (refLen + 8) * B * 8 ≤ bufLen) :
    SimE cref B refLen (State.new bufLen) Aurora.HashTrie.State.new := by
  have := Sim_new (plainParams cref B refLen) hB bufLen hfit
  simpa [SimE, mapState, Aurora.HashTrie.State.new] using this

/-! ### whole runs on a sequence of leaf entries -/

/-- `ChainWrite` for every leaf record in order (stops at the first error) -/
def writesLit (P : Params) : State → List (Bytes × Bytes × Bytes) → Except Err State
  | s, [] => .ok s
  | s, r :: rs =>
    match chainWrite P s r.1 r.2.1 r.2.2 with
    | .error e => .error e
    | .ok s' => writesLit P s' rs

/-- a whole run of the literal writer: all `ChainWrite`s, then `Sum`; result = the returned
    reference and the trace of wrapped chunks handed to the short pipeline -/
def runLit (P : Params) (bufLen : Nat) (recs : List (Bytes × Bytes × Bytes)) : Except Err (Bytes × List Bytes) :=
  match writesLit P (State.new bufLen) recs with
  | .error e => .error e
  | .ok s =>
    match trieSum P s with
    | .error e => .error e
    | .ok (r, s') => .ok (r, s'.sent)

section ListRun
variable {α : Type} (wrap : List α → α)
/-- the same on the list machine; the wrapped groups are collected in order -/
def writesList : Aurora.HashTrie.State α → List α → Except Aurora.HashTrie.Err (Aurora.HashTrie.State α × List (List α))
  | h, [] => .ok (h, [])
  | h, e :: es =>
    match Aurora.HashTrie.chainWrite wrap B h e with
    | .error x => .error x
    | .ok (h', gs) =>
      match writesList h' es with
      | .error x => .error x
      | .ok (h'', gs') => .ok (h'', gs ++ gs')

def runList (es : List α) : Except Aurora.HashTrie.Err (α × List (List α)) :=
  match writesList B wrap Aurora.HashTrie.State.new es with
  | .error x => .error x
  | .ok (h, gs) =>
    match Aurora.HashTrie.trieSum wrap B h with
    | .error x => .error x
    | .ok (e, gs') => .ok (e, gs ++ gs')
end ListRun

/-- the leaf record of an entry as the pipeline passes it to `ChainWrite`: `(p.Span, p.Ref, p.Key = nil)` -/
def rec3 (e : Entry) : Bytes × Bytes × Bytes := (le64 e.span, e.ref, [])

theorem writes_sim (hB : 2 ≤ B) (hcref : ∀ sp p, (cref sp p).length = refLen) :
    ∀ (es : List Entry) (s : State) (h : Aurora.HashTrie.State Entry), (∀ e ∈ es, e.ref.length = refLen) →
      SimE cref B refLen s h →
      match writesList B (wrapE cref) h es with
      | .error x => x = .trieFull ∧ writesLit (plainParams cref B refLen) s (es.map rec3) = .error .trieFull
      | .ok (h', gs) => ∃ s', writesLit (plainParams cref B refLen) s (es.map rec3) = .ok s' ∧
          SimE cref B refLen s' h' ∧ s'.sent = s.sent ++ gs.map (fun g => (groupChunk cref g).2) := by
  intro es
  induction es with
  | nil => intro s h _ hsim; exact ⟨s, rfl, hsim, by simp⟩
  | cons e t ih =>
    intro s h hlen hsim
    have h1 := chainWriteE_sim cref B refLen hB hcref s h hsim e (hlen e (by simp))
    simp only [writesList, List.map_cons, writesLit, rec3]
    cases hc : Aurora.HashTrie.chainWrite (wrapE cref) B h e with
    | error x =>
      rw [hc] at h1
      rw [h1.2]
      exact ⟨h1.1, rfl⟩
    | ok r =>
      obtain ⟨h', gs⟩ := r
      rw [hc] at h1
      obtain ⟨s', hw, hs', hsent⟩ := h1
      simp only [hw]
      have h2 := ih s' h' (fun x hx => hlen x (by simp [hx])) hs'
      cases hc2 : writesList B (wrapE cref) h' t with
      | error x =>
        rw [hc2] at h2
        exact h2
      | ok r2 =>
        obtain ⟨h'', gs'⟩ := r2
        rw [hc2] at h2
        obtain ⟨s'', hw2, hs'', hsent2⟩ := h2
        exact ⟨s'', hw2, hs'', by rw [hsent2, hsent]; simp⟩

/-- the list machine's result seen through the literal writer's interface -/
def toLit : Except Aurora.HashTrie.Err (Entry × List (List Entry)) → Except Err (Bytes × List Bytes)
  | .error .trieFull => .error .trieFull
  | .error .inconsistent => .error .inconsistent
  | .ok (e, gs) => .ok (e.ref, gs.map (fun g => (groupChunk cref g).2))

/-- **Whole-run refinement**: for every sequence of leaf entries (with `refLen`-byte references)
    the literal cursor machine returns what the list machine returns — the same reference, the same
    wrapped chunks to the short pipeline in the same order, or the same error (`errTrieFull` after
    `B^7` records, `errInconsistentRefs` for the empty run); in particular never a panic. -/
theorem run_refines (hB : 2 ≤ B) (hcref : ∀ sp p, (cref sp p).length = refLen) (bufLen : Nat)
    (hfit : (refLen + 8) * B * 8 ≤ bufLen) (es : List Entry) (hlen : ∀ e ∈ es, e.ref.length = refLen) :
    runLit (plainParams cref B refLen) bufLen (es.map rec3) = toLit cref (runList B (wrapE cref) es) := by
  have h1 := writes_sim cref B refLen hB hcref es _ _ hlen (SimE_new cref B refLen hB bufLen hfit)
  unfold runLit runList
  cases hc : writesList B (wrapE cref) Aurora.HashTrie.State.new es with
  | error x =>
    rw [hc] at h1
    simp only [h1.2, h1.1, toLit]
  | ok r =>
    obtain ⟨h', gs⟩ := r
    rw [hc] at h1
    obtain ⟨s', hw, hs', hsent⟩ := h1
    simp only [hw]
    have h2 := trieSumE_sim cref B refLen hB hcref s' h' hs'
    cases hc2 : Aurora.HashTrie.trieSum (wrapE cref) B h' with
    | error x =>
      rw [hc2] at h2
      simp only [h2]
      cases x <;> simp only [toLit]
      -- `trieSum` only fails with `inconsistent`
      exfalso
      unfold Aurora.HashTrie.trieSum at hc2
      split at hc2 <;> simp at hc2
    | ok r2 =>
      obtain ⟨e, gs'⟩ := r2
      rw [hc2] at h2
      obtain ⟨s'', hw2, hsent2⟩ := h2
      simp only [hw2, toLit, hsent2, hsent]
      simp [State.new]
end Plain

/-! ## the upload pipeline over the literal writer = the upload pipeline over the list writer -/

section UploadSim
open Aurora.Tree (Entry wrapE leafEntry)
open Aurora.HashTrie (Upload feedChunk upload)
variable (cref : Bytes → Bytes → Bytes) (C B refLen : Nat)

def USim (ul : UploadLit) (u : Upload) : Prop :=
  ul.feeder = u.feeder ∧ ul.failed = u.failed ∧ SimE cref B refLen ul.trie u.trie

theorem feedChunk_sim (hB : 2 ≤ B) (hcref : ∀ sp p, (cref sp p).length = refLen) (ul : UploadLit) (u : Upload)
    (h : USim cref B refLen ul u) (p : Bytes) :
    USim cref B refLen (feedChunkLit cref B refLen ul p) (feedChunk cref B u p) := by
  obtain ⟨h1, h2, h3⟩ := h
  unfold feedChunkLit feedChunk
  rw [h2]
  by_cases hf : u.failed
  · simp only [hf, ↓reduceIte]; exact ⟨h1, h2, h3⟩
  · simp only [hf, Bool.false_eq_true, ↓reduceIte]
    have hs := chainWriteE_sim cref B refLen hB hcref ul.trie u.trie h3 (leafEntry cref p) (hcref _ _)
    cases hc : Aurora.HashTrie.chainWrite (wrapE cref) B u.trie (leafEntry cref p) with
    | error x =>
      rw [hc] at hs
      rw [hs.2]
      exact ⟨h1, rfl, h3⟩
    | ok r =>
      obtain ⟨h', gs⟩ := r
      rw [hc] at hs
      obtain ⟨s', hw, hs', _⟩ := hs
      rw [hw]
      exact ⟨h1, rfl, hs'⟩

theorem feedAll_sim (hB : 2 ≤ B) (hcref : ∀ sp p, (cref sp p).length = refLen) : ∀ (ps : List Bytes)
    (ul : UploadLit) (u : Upload), USim cref B refLen ul u →
    USim cref B refLen (ps.foldl (feedChunkLit cref B refLen) ul) (ps.foldl (feedChunk cref B) u) := by
  intro ps
  induction ps with
  | nil => intro ul u h; exact h
  | cons p t ih =>
    intro ul u h
    simp only [List.foldl_cons]
    exact ih _ _ (feedChunk_sim cref B refLen hB hcref ul u h p)

theorem write_usim (hB : 2 ≤ B) (hcref : ∀ sp p, (cref sp p).length = refLen) (ul : UploadLit) (u : Upload)
    (h : USim cref B refLen ul u) (b : Bytes) :
    USim cref B refLen (ul.write cref C B refLen b).1 (u.write cref C B b).1 := by
  unfold UploadLit.write Upload.write
  simp only
  rw [h.1]
  apply feedAll_sim cref B refLen hB hcref
  exact ⟨rfl, h.2.1, h.2.2⟩

theorem writes_usim (hB : 2 ≤ B) (hcref : ∀ sp p, (cref sp p).length = refLen) : ∀ (segs : List Bytes)
    (ul : UploadLit) (u : Upload), USim cref B refLen ul u →
    USim cref B refLen (segs.foldl (fun (u : UploadLit) b => (u.write cref C B refLen b).1) ul)
      (segs.foldl (fun (u : Upload) b => (u.write cref C B b).1) u) := by
  intro segs
  induction segs with
  | nil => intro ul u h; exact h
  | cons b t ih =>
    intro ul u h
    simp only [List.foldl_cons]
    exact ih _ _ (write_usim cref C B refLen hB hcref ul u h b)

theorem sum_usim (hB : 2 ≤ B) (hcref : ∀ sp p, (cref sp p).length = refLen) (ul : UploadLit) (u : Upload)
    (h : USim cref B refLen ul u) : (ul.sum cref B refLen).2 = (u.sum cref B).2 := by
  unfold UploadLit.sum Upload.sum
  simp only
  rw [h.1]
  have hsim := feedAll_sim cref B refLen hB hcref (Aurora.Feeder.sum u.feeder).2
    { ul with feeder := (Aurora.Feeder.sum u.feeder).1 } { u with feeder := (Aurora.Feeder.sum u.feeder).1 }
    ⟨rfl, h.2.1, h.2.2⟩
  obtain ⟨_, g2, g3⟩ := hsim
  rw [g2]
  by_cases hf : (List.foldl (feedChunk cref B) { u with feeder := (Aurora.Feeder.sum u.feeder).1 }
      (Aurora.Feeder.sum u.feeder).2).failed
  · simp only [hf, ↓reduceIte]
  · simp only [hf, Bool.false_eq_true, ↓reduceIte]
    have hs := trieSumE_sim cref B refLen hB hcref _ _ g3
    cases hc : Aurora.HashTrie.trieSum (wrapE cref) B (List.foldl (feedChunk cref B)
        { u with feeder := (Aurora.Feeder.sum u.feeder).1 } (Aurora.Feeder.sum u.feeder).2).trie with
    | error x => rw [hc] at hs; rw [hs]
    | ok r =>
      obtain ⟨e, gs⟩ := r
      rw [hc] at hs
      obtain ⟨s', hw, _⟩ := hs
      rw [hw]

/-- **the upload through the literal cursor writer returns the reference of the upload through the
    list writer**, for every segmentation — no size premise: `errTrieFull` and the empty-trie error
    coincide too -/
theorem uploadLit_eq (hB : 2 ≤ B) (hcref : ∀ sp p, (cref sp p).length = refLen) (bufLen : Nat)
    (hfit : (refLen + 8) * B * 8 ≤ bufLen) (segs : List Bytes) :
    (uploadLit cref C B refLen bufLen segs).2 = (upload cref C B segs).2 := by
  unfold uploadLit upload
  apply sum_usim cref B refLen hB hcref
  apply writes_usim cref C B refLen hB hcref
  exact ⟨rfl, rfl, SimE_new cref B refLen hB bufLen hfit⟩
end UploadSim

/-! ## no run panics (any short pipeline that returns one record) -/

theorem writes_no_panic (P : Params) (hB : 2 ≤ P.branching) (hs : ShortOK P) :
    ∀ (recs : List (Bytes × Bytes × Bytes)) (s : State) (h : Aurora.HashTrie.State Bytes), Sim P s h →
      (∀ r ∈ recs, (r.1 ++ r.2.1 ++ r.2.2).length = P.oneRef) →
      (∃ s' h', writesLit P s recs = .ok s' ∧ Sim P s' h') ∨ writesLit P s recs = .error .trieFull := by
  intro recs
  induction recs with
  | nil => intro s h hsim _; exact Or.inl ⟨s, h, rfl, hsim⟩
  | cons r t ih =>
    intro s h hsim hlen
    have h1 := chainWrite_sim P hB hs s h hsim r.1 r.2.1 r.2.2 (hlen r (by simp))
    simp only [writesLit]
    cases hc : Aurora.HashTrie.chainWrite (wrapRaw P) P.branching h (r.1 ++ r.2.1 ++ r.2.2) with
    | error x => rw [hc] at h1; rw [h1.2]; exact Or.inr rfl
    | ok q =>
      obtain ⟨h', gs⟩ := q
      rw [hc] at h1
      obtain ⟨s', hw, hs', _⟩ := h1
      rw [hw]
      exact ih s' h' hs' (fun x hx => hlen x (by simp [hx]))

/-- **no index of the literal writer ever leaves the buffer (or the cursor slice)**: a whole run
    (`ChainWrite`s of well-sized records, then `Sum`) never returns `Err.panic`, for every short
    pipeline returning one record, provided `oneRef·B·8 ≤ len(buffer)` -/
theorem run_no_panic (P : Params) (hB : 2 ≤ P.branching) (hs : ShortOK P) (bufLen : Nat)
    (hfit : P.oneRef * P.branching * 8 ≤ bufLen) (recs : List (Bytes × Bytes × Bytes))
    (hlen : ∀ r ∈ recs, (r.1 ++ r.2.1 ++ r.2.2).length = P.oneRef) :
    runLit P bufLen recs ≠ .error .panic := by
  unfold runLit
  rcases writes_no_panic P hB hs recs _ _ (Sim_new P hB bufLen hfit) hlen with ⟨s', h', hw, hsim⟩ | hw
  · rw [hw]
    simp only
    have h2 := trieSum_sim P hB hs s' h' hsim
    cases hc : Aurora.HashTrie.trieSum (wrapRaw P) P.branching h' with
    | error x => rw [hc] at h2; rw [h2]; simp
    | ok q =>
      obtain ⟨e, gs⟩ := q
      rw [hc] at h2
      obtain ⟨s'', hw2, _⟩ := h2
      rw [hw2]; simp
  · rw [hw]; simp

end Aurora.HashTrieBuf
