import Aurora.Model.AtomicRegion
/-!
Serialisability of disciplined check-then-act bodies (`Model/AtomicRegion.lean`):
`atomic_serial` — if every thread's body passes `bodyOk`, then in every reachable state of every
interleaving the cell and the results are those of the sequential run of the operations in the
order of their writes.  `split_breaks` — a body that reads before taking the mutex (the shape of
the seeded change C30-1) reaches a state that no sequential run produces.
-/
namespace Aurora.AtomicRegion
open Aurora.LockSetProg (Instr Body)

section
variable {α β : Type} (op : Nat → α → α × β)

theorem seqRun_append (c : α) (l : List Nat) (t : Nat) :
    seqRun op c (l ++ [t]) =
      ((op t (seqRun op c l).1).1, (seqRun op c l).2 ++ [(t, (op t (seqRun op c l).1).2)]) := by
  induction l generalizing c with
  | nil => simp [seqRun]
  | cons u l ih => simp [seqRun, ih]

/-- per thread: the rest of its body passes the static check from its current (held, fresh) state;
    a thread that holds the mutex is its holder; a fresh local equals the cell.  Globally: cell and
    results are the sequential run over the log. -/
def Inv (c0 : α) (s : St α β) : Prop :=
  (∀ t, okFrom (s.thr t).held (s.thr t).fresh (s.thr t).rest = true ∧
        ((s.thr t).held = true → s.holder = some t) ∧
        ((s.thr t).fresh = true → (s.thr t).held = true ∧ (s.thr t).loc = s.cell)) ∧
  (s.cell, s.outs) = seqRun op c0 s.log

theorem inv_init (prog : Nat → Body) (hp : ∀ t, bodyOk (prog t) = true) (c0 d : α) :
    Inv op c0 (init (β := β) prog c0 d) := by
  refine ⟨fun t => ⟨hp t, ?_, ?_⟩, rfl⟩ <;> simp [init]

theorem inv_step (c0 : α) (s s' : St α β) (h : Inv op c0 s) (st : Step op s s') : Inv op c0 s' := by
  obtain ⟨hthr, hser⟩ := h
  cases st with
  | lock t l r hr hfree =>
    refine ⟨fun u => ?_, hser⟩
    have ht := hthr t
    rw [hr] at ht
    by_cases hu : u = t
    · subst hu
      simp only [St.setThr, if_true]
      have h1 := ht.1
      simp only [okFrom, Bool.and_eq_true] at h1
      refine ⟨h1.2, ?_, ?_⟩ <;> simp
    · have h0 := hthr u
      simp only [St.setThr, hu, if_false]
      refine ⟨h0.1, fun hh => ?_, h0.2.2⟩
      have := h0.2.1 hh
      rw [hfree] at this; cases this
  | unlock t l r hr =>
    have ht := hthr t
    rw [hr] at ht
    have h1 := ht.1
    simp only [okFrom, Bool.and_eq_true] at h1
    have hhold : s.holder = some t := ht.2.1 h1.1.1
    refine ⟨fun u => ?_, hser⟩
    by_cases hu : u = t
    · subst hu
      simp only [St.setThr, if_true]
      refine ⟨h1.2, ?_, ?_⟩ <;> simp
    · have h0 := hthr u
      simp only [St.setThr, hu, if_false]
      refine ⟨h0.1, fun hh => ?_, h0.2.2⟩
      have := h0.2.1 hh
      rw [hhold] at this
      exact absurd (Option.some.inj this).symm hu
  | read t loc r hr =>
    have ht := hthr t
    rw [hr] at ht
    have h1 := ht.1
    simp only [okFrom, Bool.and_eq_true] at h1
    have hheld : (s.thr t).held = true := h1.1.1
    refine ⟨fun u => ?_, hser⟩
    by_cases hu : u = t
    · subst hu
      simp only [St.setThr, if_true]
      refine ⟨?_, ?_, ?_⟩
      · simpa [hheld] using h1.2
      · simp [ht.2.1 hheld]
      · simp [hheld]
    · have h0 := hthr u
      simp only [St.setThr, hu, if_false]
      exact h0
  | write t loc r hr =>
    have ht := hthr t
    rw [hr] at ht
    have h1 := ht.1
    simp only [okFrom, Bool.and_eq_true] at h1
    have hheld : (s.thr t).held = true := h1.1.1.1
    have hfresh : (s.thr t).fresh = true := h1.1.1.2
    have hloc : (s.thr t).loc = s.cell := (ht.2.2 hfresh).2
    have hhold : s.holder = some t := ht.2.1 hheld
    refine ⟨fun u => ?_, ?_⟩
    · by_cases hu : u = t
      · subst hu
        simp only [St.setThr, if_true]
        refine ⟨h1.2, ?_, ?_⟩ <;> simp [hhold]
      · have h0 := hthr u
        simp only [St.setThr, hu, if_false]
        refine ⟨h0.1, h0.2.1, fun hf => ?_⟩
        have := h0.2.1 (h0.2.2 hf).1
        rw [hhold] at this
        exact absurd (Option.some.inj this).symm hu
    · simp only
      rw [seqRun_append, ← hser, hloc]

/-- **Serialisability.**  Every thread's body keeps its accesses inside the mutex and decides every
    write on a value read in the same critical section ⇒ in every reachable state of every
    interleaving of any number of threads, the shared cell and the results handed out are exactly
    those of running the threads' operations one after the other in the order `s.log` of their
    writes. -/
theorem atomic_serial (prog : Nat → Body) (hp : ∀ t, bodyOk (prog t) = true) (c0 d : α)
    (s : St α β) (hr : Reach op prog c0 d s) : (s.cell, s.outs) = seqRun op c0 s.log := by
  have : Inv op c0 s := by
    induction hr with
    | init => exact inv_init op prog hp c0 d
    | step _ st ih => exact inv_step op c0 _ _ ih st
  exact this.2

end

/-! ### the discipline is needed: read before `Lock()`, decide, then lock only to store -/

/-- receiving a cheque with cumulative payout `c`: `last ↦ (max last c, credited amount)` -/
def recvOp (c : Nat) : Nat → Nat × Nat := fun last => if last < c then (c, c - last) else (last, 0)

/-- the shape of the seeded change C30-1 -/
def splitBody : Body := [.access 0 false, .lock 0, .access 0 true, .unlock 0]

example : bodyOk splitBody = false := by decide

/-- Two deliveries of the same cheque for 10 run `splitBody`: both read "last = 0", both store and both
    are credited 10 — 20 in total for a highest payout of 10 — which is not the outcome of the
    sequential run in the order of their writes (nor in any other order). -/
theorem split_breaks :
    ∃ s : St Nat Nat, Reach (fun _ => recvOp 10) (fun _ => splitBody) 0 0 s ∧
      s.cell = 10 ∧ s.outs = [(0, 10), (1, 10)] ∧
      (s.cell, s.outs) ≠ seqRun (fun _ => recvOp 10) 0 s.log := by
  let op : Nat → Nat → Nat × Nat := fun _ => recvOp 10
  let prog : Nat → Body := fun _ => splitBody
  have r0 : Reach op prog 0 0 (init prog 0 0) := .init
  have r1 := Reach.step r0 (Step.read _ 0 0 _ rfl)
  have r2 := Reach.step r1 (Step.read _ 1 0 _ rfl)
  have r3 := Reach.step r2 (Step.lock _ 0 0 _ rfl rfl)
  have r4 := Reach.step r3 (Step.write _ 0 0 _ rfl)
  have r5 := Reach.step r4 (Step.unlock _ 0 0 _ rfl)
  have r6 := Reach.step r5 (Step.lock _ 1 0 _ rfl rfl)
  have r7 := Reach.step r6 (Step.write _ 1 0 _ rfl)
  exact ⟨_, r7, rfl, rfl, by decide⟩

end Aurora.AtomicRegion
