import Aurora.Lemmas.Localstore
/-!
Helper lemmas for C12 (`Aurora/Props/C12.lean`) about lstore-a's `gcEvict`
(`Aurora/Model/Localstore.lean`): which driver writes an eviction run produces.
-/
namespace Aurora.Localstore

set_option linter.unusedSimpArgs false

/-- a write that is neither a data insertion nor a deletion of a chunk outside `D` -/
def DataSafe (D : List Addr) : Write → Prop
  | .dataPut _ _ => False
  | .dataDel a => a ∈ D
  | _ => True

/-- a write that does not touch the pin index -/
def NoPin : Write → Prop
  | .pinPut _ _ => False
  | .pinDel _ => False
  | _ => True

theorem DataSafe.mono {D D' : List Addr} (h : ∀ a ∈ D, a ∈ D') {w : Write} (hw : DataSafe D w) : DataSafe D' w := by
  cases w <;> simp_all [DataSafe]

/-! ### effect of safe writes on the data and pin indexes -/

theorem has_data_applyW (db : Db) (w : Write) (D : List Addr) (a : Addr) (hw : DataSafe D w) (ha : a ∉ D) :
    SMap.has a (applyW db w).data = SMap.has a db.data := by
  cases w with
  | dataPut x v => simp [DataSafe] at hw
  | dataDel x =>
    have : a ≠ x := fun e => ha (e ▸ hw)
    simp [applyW, SMap.has_erase, this]
  | _ => rfl

theorem has_data_applyBatch (ws : List Write) (db : Db) (D : List Addr) (a : Addr)
    (hw : ∀ w ∈ ws, DataSafe D w) (ha : a ∉ D) :
    SMap.has a (applyBatch db ws).data = SMap.has a db.data := by
  induction ws generalizing db with
  | nil => rfl
  | cons w ws ih =>
    simp only [applyBatch, List.foldl] at ih ⊢
    rw [ih (applyW db w) (fun x hx => hw x (by simp [hx]))]
    exact has_data_applyW db w D a (hw w (by simp)) ha

theorem pin_applyW (db : Db) (w : Write) (hw : NoPin w) : (applyW db w).pin = db.pin := by
  cases w <;> first | rfl | (simp [NoPin] at hw)

theorem pin_applyBatch (ws : List Write) (db : Db) (hw : ∀ w ∈ ws, NoPin w) : (applyBatch db ws).pin = db.pin := by
  induction ws generalizing db with
  | nil => rfl
  | cons w ws ih =>
    simp only [applyBatch, List.foldl] at ih ⊢
    rw [ih (applyW db w) (fun x hx => hw x (by simp [hx]))]
    exact pin_applyW db w (hw w (by simp))

/-- all writes of a log, batches flattened -/
def flat : List DW → List Write
  | [] => []
  | .direct w :: l => w :: flat l
  | .batch ws :: l => ws ++ flat l

theorem flat_append (l1 l2 : List DW) : flat (l1 ++ l2) = flat l1 ++ flat l2 := by
  induction l1 with
  | nil => rfl
  | cons d l ih => cases d <;> simp [flat, ih]

theorem applyLog_eq_applyBatch_flat (log : List DW) (db : Db) : applyLog db log = applyBatch db (flat log) := by
  induction log generalizing db with
  | nil => rfl
  | cons d l ih =>
    cases d with
    | direct w => simp only [applyLog, List.foldl, applyDW, flat, applyBatch] at ih ⊢; exact ih _
    | batch ws =>
      simp only [applyLog, List.foldl, applyDW, flat] at ih ⊢
      rw [ih]; simp [applyBatch, List.foldl_append]

/-! ### the eviction loops -/

/-- `evictPyramid` in general: the data index seen by the transaction is unchanged, new direct
    writes are pin updates, new batch writes delete only listed chunks (or pin entries). -/
theorem evictPyramid_general (l : List (Addr × Nat)) (tx : Tx) (n : Nat) :
    (evictPyramid tx l n).1.db.data = tx.db.data ∧
    ∃ ds dl, (evictPyramid tx l n).1.batch = tx.batch ++ ds ∧ (evictPyramid tx l n).1.log = tx.log ++ dl ∧
      (∀ w ∈ ds, DataSafe (l.map (·.1)) w) ∧ (∀ w ∈ flat dl, DataSafe [] w) := by
  induction l generalizing tx n with
  | nil => exact ⟨rfl, [], [], by simp [evictPyramid], by simp [evictPyramid], by simp, by simp [flat]⟩
  | cons e l ih =>
    obtain ⟨cid, num⟩ := e
    have lift : ∀ (tx' : Tx) (n' : Nat) (d0 : List Write) (l0 : List DW),
        tx'.db.data = tx.db.data → tx'.batch = tx.batch ++ d0 → tx'.log = tx.log ++ l0 →
        (∀ w ∈ d0, DataSafe ((cid :: l.map (·.1))) w) → (∀ w ∈ flat l0, DataSafe [] w) →
        (evictPyramid tx' l n').1.db.data = tx.db.data ∧
        ∃ ds dl, (evictPyramid tx' l n').1.batch = tx.batch ++ ds ∧ (evictPyramid tx' l n').1.log = tx.log ++ dl ∧
          (∀ w ∈ ds, DataSafe (cid :: l.map (·.1)) w) ∧ (∀ w ∈ flat dl, DataSafe [] w) := by
      intro tx' n' d0 l0 hd hb hl hs0 hs1
      obtain ⟨h1, ds, dl, h2, h3, h4, h5⟩ := ih tx' n'
      refine ⟨h1.trans hd, d0 ++ ds, l0 ++ dl, by rw [h2, hb, List.append_assoc], by rw [h3, hl, List.append_assoc], ?_, ?_⟩
      · intro w hw
        rcases List.mem_append.mp hw with h | h
        · exact hs0 w h
        · exact DataSafe.mono (fun a ha => by simp [ha]) (h4 w h)
      · intro w hw
        rw [flat_append] at hw
        rcases List.mem_append.mp hw with h | h
        · exact hs1 w h
        · exact h5 w h
    simp only [List.map_cons]
    unfold evictPyramid
    cases hp : SMap.get cid tx.db.pin with
    | some p =>
      simp only
      by_cases hgt : p > num
      · simp only [hgt, if_true]
        exact lift (tx.direct (.pinPut cid (p - num))) n [] [DW.direct (.pinPut cid (p - num))]
          (by simp [Tx.direct, applyW]) (by simp [Tx.direct]) (by simp [Tx.direct])
          (by simp) (by simp [flat, DataSafe])
      · simp only [hgt, if_false]
        by_cases hh : SMap.has cid (tx.inBatch (.pinDel cid)).db.data = true
        · simp only [hh, if_true]
          exact lift ((tx.inBatch (.pinDel cid)).inBatch (.dataDel cid)) (n + 1) [.pinDel cid, .dataDel cid] []
            (by simp [Tx.inBatch]) (by simp [Tx.inBatch]) (by simp [Tx.inBatch])
            (by intro w hw; simp at hw; rcases hw with h | h <;> subst h <;> simp [DataSafe]) (by simp [flat])
        · simp only [hh, if_false]
          exact lift (tx.inBatch (.pinDel cid)) n [.pinDel cid] []
            (by simp [Tx.inBatch]) (by simp [Tx.inBatch]) (by simp [Tx.inBatch])
            (by intro w hw; simp at hw; subst hw; simp [DataSafe]) (by simp [flat])
    | none =>
      simp only
      by_cases hh : SMap.has cid tx.db.data = true
      · simp only [hh, if_true]
        exact lift (tx.inBatch (.dataDel cid)) (n + 1) [.dataDel cid] []
          (by simp [Tx.inBatch]) (by simp [Tx.inBatch]) (by simp [Tx.inBatch])
          (by intro w hw; simp at hw; subst hw; simp [DataSafe]) (by simp [flat])
      · simp only [hh, if_false]
        exact lift tx n [] [] rfl (by simp) (by simp) (by simp) (by simp [flat])

/-- `evictPyramid` when no listed chunk has a pin entry: no direct write, no pin write -/
theorem evictPyramid_unpinned (l : List (Addr × Nat)) (tx : Tx) (n : Nat)
    (hp : ∀ e ∈ l, SMap.get e.1 tx.db.pin = none) :
    (evictPyramid tx l n).1.db = tx.db ∧ (evictPyramid tx l n).1.log = tx.log ∧
    ∃ ds, (evictPyramid tx l n).1.batch = tx.batch ++ ds ∧ ∀ w ∈ ds, NoPin w := by
  induction l generalizing tx n with
  | nil => exact ⟨rfl, rfl, [], by simp [evictPyramid], by simp⟩
  | cons e l ih =>
    obtain ⟨cid, num⟩ := e
    have hcid : SMap.get cid tx.db.pin = none := hp (cid, num) (by simp)
    unfold evictPyramid
    simp only [hcid]
    by_cases hh : SMap.has cid tx.db.data = true
    · simp only [hh, if_true]
      obtain ⟨h1, h2, ds, h3, h4⟩ := ih (tx.inBatch (.dataDel cid)) (n + 1)
        (fun e he => by simpa [Tx.inBatch] using hp e (by simp [he]))
      refine ⟨by simpa [Tx.inBatch] using h1, by simpa [Tx.inBatch] using h2, .dataDel cid :: ds, ?_, ?_⟩
      · rw [h3]; simp [Tx.inBatch]
      · intro w hw; simp at hw; rcases hw with h | h
        · subst h; simp [NoPin]
        · exact h4 w h
    · simp only [hh, if_false]
      exact ih tx n (fun e he => hp e (by simp [he]))

/-- chunks listed for some candidate -/
def listed (pyr : Addr → Option (List (Addr × Nat))) (cands : List (GcKey × Nat)) : List Addr :=
  cands.flatMap (fun e => ((pyr e.1.addr).getD []).map (·.1))

theorem evictLoop_general (pyr : Addr → Option (List (Addr × Nat))) (dirty : List Addr)
    (cands : List (GcKey × Nat)) (tx : Tx) (n : Nat) (rec : List (GcKey × Nat)) (vis : List Addr) :
    (evictLoop pyr dirty tx cands n rec vis).1.db.data = tx.db.data ∧
    (∃ ds dl, (evictLoop pyr dirty tx cands n rec vis).1.batch = tx.batch ++ ds ∧ (evictLoop pyr dirty tx cands n rec vis).1.log = tx.log ++ dl ∧
      (∀ w ∈ ds, DataSafe (listed pyr cands) w) ∧ (∀ w ∈ flat dl, DataSafe [] w)) ∧
    (∀ e ∈ (evictLoop pyr dirty tx cands n rec vis).2.2.1, e ∈ rec ∨ e ∈ cands) := by
  induction cands generalizing tx n rec vis with
  | nil =>
    exact ⟨rfl, ⟨[], [], by simp [evictLoop], by simp [evictLoop], by simp, by simp [flat]⟩,
      fun e he => Or.inl (by simpa [evictLoop] using he)⟩
  | cons c cands ih =>
    obtain ⟨k, cnt⟩ := c
    have hsub : ∀ a ∈ listed pyr cands, a ∈ listed pyr ((k, cnt) :: cands) := by
      intro a ha; simp only [listed, List.flatMap_cons]; exact List.mem_append.mpr (Or.inr ha)
    have skip : ∀ vis', ((evictLoop pyr dirty tx cands n rec vis').1.db.data = tx.db.data ∧
        (∃ ds dl, (evictLoop pyr dirty tx cands n rec vis').1.batch = tx.batch ++ ds ∧ (evictLoop pyr dirty tx cands n rec vis').1.log = tx.log ++ dl ∧
          (∀ w ∈ ds, DataSafe (listed pyr ((k, cnt) :: cands)) w) ∧ (∀ w ∈ flat dl, DataSafe [] w)) ∧
        (∀ e ∈ (evictLoop pyr dirty tx cands n rec vis').2.2.1, e ∈ rec ∨ e ∈ (k, cnt) :: cands)) := by
      intro vis'
      obtain ⟨h1, ⟨ds, dl, h2, h3, h4, h5⟩, h6⟩ := ih tx n rec vis'
      refine ⟨h1, ⟨ds, dl, h2, h3, fun w hw => DataSafe.mono hsub (h4 w hw), h5⟩, ?_⟩
      intro e he
      rcases h6 e he with h | h
      · exact Or.inl h
      · exact Or.inr (by simp [h])
    unfold evictLoop
    cases hp : pyr k.addr with
    | none => simp only; exact skip _
    | some chunks =>
      simp only
      by_cases hd : dirty.contains k.addr = true
      · simp only [hd, if_true]; exact skip _
      · have hd' : dirty.contains k.addr = false := by simpa using hd
        simp only [hd', Bool.false_eq_true, if_false]
        obtain ⟨g1, ds0, dl0, g2, g3, g4, g5⟩ := evictPyramid_general chunks tx 0
        obtain ⟨h1, ⟨ds, dl, h2, h3, h4, h5⟩, h6⟩ :=
          ih (evictPyramid tx chunks 0).1 (n + (evictPyramid tx chunks 0).2) (rec ++ [(k, cnt)]) (vis ++ [k.addr])
        refine ⟨h1.trans g1, ⟨ds0 ++ ds, dl0 ++ dl, by rw [h2, g2, List.append_assoc],
          by rw [h3, g3, List.append_assoc], ?_, ?_⟩, ?_⟩
        · intro w hw
          rcases List.mem_append.mp hw with h | h
          · apply DataSafe.mono _ (g4 w h)
            intro a ha
            simp only [listed, List.flatMap_cons, hp, Option.getD_some]
            exact List.mem_append.mpr (Or.inl ha)
          · exact DataSafe.mono hsub (h4 w h)
        · intro w hw
          rw [flat_append] at hw
          rcases List.mem_append.mp hw with h | h
          · exact g5 w h
          · exact h5 w h
        · intro e he
          rcases h6 e he with h | h
          · rcases List.mem_append.mp h with h' | h'
            · exact Or.inl h'
            · simp at h'; subst h'; exact Or.inr (by simp)
          · exact Or.inr (by simp [h])

theorem evictLoop_unpinned (pyr : Addr → Option (List (Addr × Nat))) (dirty : List Addr)
    (cands : List (GcKey × Nat)) (tx : Tx) (n : Nat) (rec : List (GcKey × Nat)) (vis : List Addr)
    (hg : ∀ e ∈ cands, ∀ l, pyr e.1.addr = some l → ∀ c ∈ l, SMap.get c.1 tx.db.pin = none) :
    (evictLoop pyr dirty tx cands n rec vis).1.db = tx.db ∧ (evictLoop pyr dirty tx cands n rec vis).1.log = tx.log ∧
      ∃ ds, (evictLoop pyr dirty tx cands n rec vis).1.batch = tx.batch ++ ds ∧ ∀ w ∈ ds, NoPin w := by
  induction cands generalizing tx n rec vis with
  | nil => exact ⟨rfl, rfl, [], by simp [evictLoop], by simp⟩
  | cons c cands ih =>
    obtain ⟨k, cnt⟩ := c
    have hg' : ∀ e ∈ cands, ∀ l, pyr e.1.addr = some l → ∀ c ∈ l, SMap.get c.1 tx.db.pin = none :=
      fun e he => hg e (by simp [he])
    unfold evictLoop
    cases hp : pyr k.addr with
    | none => simp only; exact ih tx n rec _ hg'
    | some chunks =>
      simp only
      by_cases hd : dirty.contains k.addr = true
      · simp only [hd, if_true]; exact ih tx n rec _ hg'
      · have hd' : dirty.contains k.addr = false := by simpa using hd
        simp only [hd', Bool.false_eq_true, if_false]
        obtain ⟨g1, g2, ds0, g3, g4⟩ := evictPyramid_unpinned chunks tx 0 (hg (k, cnt) (by simp) chunks hp)
        obtain ⟨h1, h2, ds, h3, h4⟩ := ih (evictPyramid tx chunks 0).1 (n + (evictPyramid tx chunks 0).2)
          (rec ++ [(k, cnt)]) (vis ++ [k.addr]) (by rw [g1]; exact hg')
        refine ⟨h1.trans g1, h2.trans g2, ds0 ++ ds, by rw [h3, g3, List.append_assoc], ?_⟩
        intro w hw
        rcases List.mem_append.mp hw with h | h
        · exact g4 w h
        · exact h4 w h

/-- the fold of `gcEvict` over the recycled roots -/
def recycledTx (recycled : List (GcKey × Nat)) (tx : Tx) : Tx :=
  recycled.foldl (fun (t : Tx) (e : GcKey × Nat) =>
    ((t.inBatch (.dataDel e.1.addr)).inBatch (.accDel e.1.addr)).inBatch (.gcDel e.1)) tx

/-- the batch part `gcEvict` appends for the recycled roots -/
theorem recycled_fold (recycled : List (GcKey × Nat)) (tx : Tx) :
    (recycledTx recycled tx).db = tx.db ∧ (recycledTx recycled tx).log = tx.log ∧
    ∃ ds, (recycledTx recycled tx).batch = tx.batch ++ ds ∧
      (∀ w ∈ ds, NoPin w) ∧ (∀ w ∈ ds, DataSafe (recycled.map (·.1.addr)) w) := by
  induction recycled generalizing tx with
  | nil => exact ⟨rfl, rfl, [], by simp [recycledTx], by simp, by simp⟩
  | cons e l ih =>
    simp only [recycledTx, List.foldl] at ih ⊢
    obtain ⟨h1, h2, ds, h3, h4, h5⟩ :=
      ih (((tx.inBatch (.dataDel e.1.addr)).inBatch (.accDel e.1.addr)).inBatch (.gcDel e.1))
    refine ⟨by simpa [Tx.inBatch] using h1, by simpa [Tx.inBatch] using h2,
      [.dataDel e.1.addr, .accDel e.1.addr, .gcDel e.1] ++ ds, by rw [h3]; simp [Tx.inBatch], ?_, ?_⟩
    · intro w hw
      rcases List.mem_append.mp hw with h | h
      · simp at h; rcases h with h | h | h <;> subst h <;> simp [NoPin]
      · exact h4 w h
    · intro w hw
      rcases List.mem_append.mp hw with h | h
      · simp at h; rcases h with h | h | h <;> subst h <;> simp [DataSafe]
      · exact DataSafe.mono (fun a ha => by simp [ha]) (h5 w h)

end Aurora.Localstore
