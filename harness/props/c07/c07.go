// Package c07: correspondence + oracles for "file reads honour the reader contract"
// (joiner ReadAt with len/cap buffers, Read, Seek; file.JoinReadAll).
package c07

import (
	"fmt"

	"verifharness/core"
	fc "verifharness/props/filecommon"
)

type prop struct{}

func init() { core.Register(prop{}) }

func (prop) ID() string       { return "C07" }
func (prop) New() core.Runner { return fc.New("C07") }
func (prop) Rule() string {
	return "cases: a file is uploaded (plain ~80%, encrypted ~20%; sizes 0,1,31..33,...,4095..4097,C-1,C,C+1,2C+-1,3C,random), opened with joiner.New, then " +
		"`readat off len cap` with cap-len in {0,1,7,64,C,random} (the buffer's whole capacity is pre-filled with the sentinel 0xEE and inspected afterwards), offsets 0,size-1,size,size+1,chunk boundaries+-1,random, lengths 0,1,10,100,C,size,size+5,random; " +
		"`read len cap` runs to EOF and beyond; `seek off whence` with whence 0,1,2 and invalid (3,-1), offsets 0,size,size+1,negative,random; `readall`. " +
		"Go oracle (model-free): never returns more than len, never writes at index >= len (sentinel intact), returns min(len,size-off) bytes equal to the content, EOF iff off >= size, sequential reads are served from the oracle's own cursor (no skip, no repeat), " +
		"Seek lands on off / cur+off / size-off or fails, and fails only outside [0,size] or for a bad whence. Fixed regression case: make([]byte,10,64) on an 800-byte file. " +
		"Non-trivial: >= 1 readat/read with cap > len or >= 1 seek on an opened file; distinct by op-list hash."
}

func (prop) Gen(r *core.Rand, tier string) []core.Case {
	nSmall, nMed, nBig := 150, 12, 5
	if tier == "thorough" {
		nSmall, nMed, nBig = 800, 60, 16
	}
	C := fc.C
	cs := []core.Case{
		{ID: "fix-cap-gt-len", NT: true, Ops: []string{"new", "write g:1:800", "sum", "open", "readat 0 10 64", "readat 795 10 64", "readat 0 0 64", "read 10 64", "read 10 10", "readat 800 10 64", "readat 799 10 11"}},
		{ID: "fix-seek", NT: true, Ops: []string{"new", "write g:2:100", "sum", "open", "seek 10 0", "read 5 9", "seek 10 1", "read 5 5", "seek 10 2", "read 20 20", "seek 0 2", "read 1 2", "seek 101 0", "seek 100 0", "seek -1 0", "seek 101 2", "seek -1 2", "seek -200 1", "seek 0 3", "seek 0 -1", "read 1 1"}},
		{ID: "fix-protocol", Ops: []string{"readat 0 1 1", "new", "write g:1:10", "readat 0 1 1", "sum", "readat 0 1 1", "open", "readat 0 2 1", "readat -1 1 1", "read 2 1", "seek 0", "frob"}},
		{ID: "fix-chunk-edge", NT: true, Ops: []string{"new", fmt.Sprintf("write p:3:%d:4096", 2*C+10), "sum", "open",
			fmt.Sprintf("readat %d 20 %d", C-10, 20+C), fmt.Sprintf("readat %d 5 64", 2*C+8), fmt.Sprintf("readat %d 5 64", 2*C+10), fmt.Sprintf("seek 11 2"), "read 100 200", "read 100 200"}},
	}
	// encrypted tree with two intermediate levels (1 GiB + C + 17 bytes), served on demand by the synthetic
	// store of filecommon (`new synth`): the reader contract across / beyond the 1 GiB boundary, cap > len
	{
		G := 4096 * C
		size := G + C + 17
		cs = append(cs, core.Case{ID: "fix-enc-synth-two-levels", NT: true, Ops: []string{
			fmt.Sprintf("new synth 9 %d 4096", size), "open",
			fmt.Sprintf("readat %d 200 264", G-50), fmt.Sprintf("readat %d 40 64", G+C+1), fmt.Sprintf("readat %d 10 10", size),
			fmt.Sprintf("seek %d 0", G+C-5), "read 10 20", "read 100 100", "read 1 1", "seek 30 2", "read 10 10"}})
	}
	add := func(id string, total int, k int) {
		head := "new"
		if r.Chance(20) {
			head = "new enc"
		}
		c := core.Case{ID: id, Ops: []string{head}}
		c.Ops = append(c.Ops, fc.Writes(r, total)...)
		c.Ops = append(c.Ops, "sum", "open")
		big := total > 70000
		offs := []int{0, 0, total - 1, total, total + 1, C - 1, C, C + 1, 2 * C, total / 2, total - 10}
		nt := false
		for i := 0; i < k; i++ {
			extra := r.Pick([]int{0, 1, 1, 7, 64, 64, 1000})
			if r.Chance(8) {
				extra = C
			}
			if r.Chance(15) {
				extra = r.Intn(300)
			}
			switch r.Intn(10) {
			case 0, 1, 2, 3, 4:
				off := r.Pick(offs)
				if off < 0 || r.Chance(40) {
					off = r.Intn(total + 3)
				}
				ln := r.Pick([]int{0, 1, 10, 100, total, total + 5})
				if big && r.Chance(40) {
					ln = r.Pick([]int{C, C + 1, 2 * C})
				}
				if r.Chance(30) {
					ln = r.Intn(total + 10)
				}
				ops := fmt.Sprintf("readat %d %d %d", off, ln, ln+extra)
				c.Ops = append(c.Ops, ops)
				nt = nt || extra > 0
			case 5, 6:
				ln := r.Pick([]int{0, 1, 7, 100, total/3 + 1, total + 1})
				if big {
					ln = r.Pick([]int{C, C / 2, 100000, 0})
				}
				n := r.Range(1, 5)
				for j := 0; j < n; j++ {
					c.Ops = append(c.Ops, fmt.Sprintf("read %d %d", ln, ln+extra))
				}
				nt = nt || extra > 0
			case 7, 8:
				wh := r.Pick([]int{0, 0, 1, 1, 2, 2, 2, 3, -1})
				off := r.Pick([]int{0, total, total + 1, -1, total / 2, 1, -total, total - 1})
				if r.Chance(40) {
					off = r.Range(-total-2, total+2)
				}
				c.Ops = append(c.Ops, fmt.Sprintf("seek %d %d", off, wh))
				nt = true
			default:
				c.Ops = append(c.Ops, "readall")
			}
		}
		c.NT = nt
		cs = append(cs, c)
	}
	for i := 0; i < nSmall; i++ {
		add(fmt.Sprintf("s%d", i), fc.Length(r, 0, 0), r.Range(4, 14))
	}
	for i := 0; i < nMed; i++ {
		add(fmt.Sprintf("m%d", i), fc.Length(r, 1, 0), r.Range(4, 9))
	}
	for i := 0; i < nBig; i++ {
		add(fmt.Sprintf("b%d", i), fc.Length(r, 2, 3*C), r.Range(3, 6))
	}
	return cs
}
