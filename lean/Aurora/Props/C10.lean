import Aurora.Lemmas.MantarayPersist
/-!
# C10 — Directory manifests map paths to the last written entry

Model: `Aurora/Model/Mantaray.lean` (transcription of the dependency
`gauss-project/manifest@v0.4.2/mantaray` as driven by `/repo/pkg/manifest/mantaray.go` and
`/repo/pkg/file/loadsave`); specification: `Aurora/Spec/PathMap.lean` (association list, `store`
snapshots it, `reload` returns to the snapshot).

The full statement `C10_full` — every history of add / remove / store / reload / lookup / hasPrefix
answers as the map does — is **false of the code** (six independent defects, all in the dependency,
each with a minimal history below and a `known:` entry); what is proved:
(1) `C10_add_lookup_refines` — the full refinement for unbounded histories of add / lookup /
hasPrefix on an in-memory manifest (own path and frame condition, edge splits, prefix limit, overwrites);
(1b) `C10_remove_refines_guarded` — the same for histories with `remove`, under the explicit guard
`Guarded` (every remove targets a mapped path that no other mapped path extends; no store / reload);
(1c) `C10_store_reload_lookup_refines` — persistence for the build–store–reopen–read pattern: any adds,
then `store`, `reload`, then any lookups on the lazily loaded manifest;
(2) for *every* trie state (loaded, lazily loaded or reloaded; any history before it) a lookup of the
path just added / just removed answers as the map does.
Further modification of a reopened manifest (inside its guard), `hasPrefix` on a reopened manifest or
after a `remove` are tied to the code only by the differential run on histories that stay inside the guard.
-/
namespace Aurora.Mantaray

/-- The property: the manifest refines the path map on every history. -/
def C10_full : Prop := ∀ ops : List Op, (run State.new ops).2 = specRun {} ops

/-- the operations of the in-memory fragment: adds carrying metadata, lookups and prefix queries -/
def MemOp : Op → Prop
  | .add _ _ md => md ≠ []
  | .lookup _ => True
  | .hasPrefix _ => True
  | _ => False

/-- Refinement for the in-memory fragment (no bound on the history, any paths — shared prefixes,
    edge splits, the 30-byte prefix limit, overwrites): every history of `add` (with metadata),
    `lookup` and `hasPrefix` on a fresh manifest answers exactly as the path map — each lookup returns
    the reference and metadata of the last add of that path, or not-found; each prefix query says
    whether some mapped path starts with the prefix.  (This is DESIGN's `add_lookup_refines`
    restricted to histories without store / reload; those are in the differential run only.) -/
theorem C10_add_lookup_refines (ops : List Op) (hops : ∀ op ∈ ops, MemOp op) :
    (run State.new ops).2 = specRun {} ops := by
  suffices H : ∀ (ops : List Op) (s : State) (sp : Spec), (∀ op ∈ ops, MemOp op) → s.dead = false →
      Mem s.root → (∀ fl q, q.length < fl → sem fl s.root q = sp.cur.find q) →
      (∀ fl q, q.length < fl → hp fl s.root q = sp.cur.hasPrefix q) →
      (run s ops).2 = specRun sp ops from
    H ops State.new {} hops rfl Mem.new
      (by
        intro fl q hq
        cases fl with
        | zero => omega
        | succ f =>
          show sem (f + 1) Node.new q = PathMap.find [] q
          rw [sem_noforks f Node.new rfl]; cases q <;> simp [semNode_new, PathMap.find])
      (by
        intro fl q hq
        cases fl with
        | zero => omega
        | succ f =>
          show hp (f + 1) Node.new q = PathMap.hasPrefix [] q
          rw [hp_noforks f Node.new rfl]; cases q <;> simp [PathMap.hasPrefix])
  intro ops
  induction ops with
  | nil => intro s sp _ _ _ _ _; rfl
  | cons op rest ih =>
    intro s sp hall hlive hm hsim hsimp
    have hop := hall op (by simp)
    have hrest : ∀ o ∈ rest, MemOp o := fun o ho => hall o (by simp [ho])
    cases op with
    | add p e md =>
      simp only [MemOp] at hop
      obtain ⟨n', hn'⟩ := add_isSome e md (p.length + 1) s.root p hm
      obtain ⟨hm', law⟩ := sem_add e md hop (p.length + 1) s.root p n' hm (by omega) hn'
      have lawp := hp_add e md (p.length + 1) s.root p n' hm (by omega) hn'
      simp only [run, specRun, step, hlive, Bool.false_eq_true, if_false, stepLive, hn', specStep]
      congr 1
      exact ih _ _ hrest (by simpa using hlive) hm'
        (by intro fl q hq; rw [law fl q hq, find_insert, hsim fl q hq])
        (by intro fl q hq; rw [lawp fl q hq, hasPrefix_insert, hsimp fl q hq])
    | lookup p =>
      simp only [run, specRun, step, hlive, Bool.false_eq_true, if_false, stepLive, specStep,
        lookup_mem _ hm, hsim _ p (Nat.lt_succ_self _)]
      congr 1
      exact ih _ _ hrest (by simpa using hlive) hm hsim hsimp
    | hasPrefix p =>
      simp only [run, specRun, step, hlive, Bool.false_eq_true, if_false, stepLive, specStep,
        hasPrefix_mem _ hm, hsimp _ p (Nat.lt_succ_self _)]
      congr 1
      exact ih _ _ hrest (by simpa using hlive) hm hsim hsimp
    | remove p => exact absurd hop (by simp [MemOp])
    | store => exact absurd hop (by simp [MemOp])
    | reload => exact absurd hop (by simp [MemOp])

/-- The guard of the remove clause along a history (stated on the specification state, i.e. on the
    mapping alone): adds carry metadata, and every `remove p` targets a mapped, non-empty path that no
    other mapped path extends.  It excludes exactly `C10_remove_drops_extensions_counterexample`;
    store / reload / hasPrefix are not part of these histories (the other remove defects). -/
def Guarded : Spec → List Op → Prop
  | _, [] => True
  | sp, .add p e md :: rest => md ≠ [] ∧ Guarded (specStep sp (.add p e md)).1 rest
  | sp, .lookup _ :: rest => Guarded sp rest
  | sp, .remove p :: rest =>
      p ≠ [] ∧ (sp.cur.find p).isSome = true ∧ (∀ x ∈ sp.cur, isPrefix p x.1 = true → x.1 = p) ∧
      Guarded (specStep sp (.remove p)).1 rest
  | _, _ :: _ => False

/-- Refinement with `remove` (partial by its guard): every unbounded history of add / lookup / remove
    on a fresh in-memory manifest that stays inside `Guarded` answers exactly as the path map — the
    removed path is gone, every other path keeps its entry. -/
theorem C10_remove_refines_guarded (ops : List Op) (hg : Guarded {} ops) :
    (run State.new ops).2 = specRun {} ops := by
  suffices H : ∀ (ops : List Op) (s : State) (sp : Spec), Guarded sp ops → s.dead = false →
      Mem s.root → (∀ fl q, q.length < fl → sem fl s.root q = sp.cur.find q) →
      (run s ops).2 = specRun sp ops from
    H ops State.new {} hg rfl Mem.new
      (by
        intro fl q hq
        cases fl with
        | zero => omega
        | succ f =>
          show sem (f + 1) Node.new q = PathMap.find [] q
          rw [sem_noforks f Node.new rfl]; cases q <;> simp [semNode_new, PathMap.find])
  intro ops
  induction ops with
  | nil => intro s sp _ _ _ _; rfl
  | cons op rest ih =>
    intro s sp hg hlive hm hsim
    cases op with
    | add p e md =>
      obtain ⟨hmd, hgr⟩ := hg
      obtain ⟨n', hn'⟩ := add_isSome e md (p.length + 1) s.root p hm
      obtain ⟨hm', law⟩ := sem_add e md hmd (p.length + 1) s.root p n' hm (by omega) hn'
      simp only [run, specRun, step, hlive, Bool.false_eq_true, if_false, stepLive, hn', specStep] at hgr ⊢
      congr 1
      exact ih _ _ hgr (by simpa using hlive) hm'
        (by intro fl q hq; rw [law fl q hq, find_insert, hsim fl q hq])
    | lookup p =>
      simp only [Guarded] at hg
      simp only [run, specRun, step, hlive, Bool.false_eq_true, if_false, stepLive, specStep,
        lookup_mem _ hm, hsim _ p (Nat.lt_succ_self _)]
      congr 1
      exact ih _ _ hg (by simpa using hlive) hm hsim
    | remove p =>
      obtain ⟨hne, hfind, hext, hgr⟩ := hg
      obtain ⟨v, hv⟩ := Option.isSome_iff_exists.mp hfind
      have hsemp : sem (p.length + 1) s.root p = some v := by rw [hsim _ p (Nat.lt_succ_self _), hv]
      obtain ⟨hm', hok, law, _⟩ := sem_remove (p.length + 1) s.root p hm (Nat.lt_succ_self _) hne
      have hres := hok (get_isSome_of_sem hsemp)
      have hpe : p.isEmpty = false := by cases p <;> simp_all
      simp only [specStep, hpe, Bool.false_eq_true, if_false, hv] at hgr
      simp only [run, specRun, step, hlive, Bool.false_eq_true, if_false, stepLive, specStep, hres, hpe, hv]
      congr 1
      refine ih _ _ hgr (by simpa using hlive) hm' ?_
      intro fl q hq
      rw [law hres fl q hq, find_erase, hsim fl q hq]
      by_cases hpq : isPrefix p q = true
      · by_cases hqp : q = p
        · rw [if_pos hpq, if_pos hqp]
        · simp only [hpq, if_true, hqp, if_false]
          cases hfq : sp.cur.find q with
          | none => rfl
          | some w =>
            obtain ⟨x, hx, hxq⟩ := find_some_mem _ _ _ hfq
            exact absurd (hxq ▸ hext x hx (hxq ▸ hpq)) hqp
      · have hqp : ¬ q = p := by
          intro e; subst e
          exact hpq (by simpa using isPrefix_append_self q [])
        simp [hpq, hqp]
    | store => exact absurd hg (by simp [Guarded])
    | reload => exact absurd hg (by simp [Guarded])
    | hasPrefix p => exact absurd hg (by simp [Guarded])

/-- building ops: adds of non-empty paths carrying metadata -/
def BuildOp : Op → Prop
  | .add p _ md => p ≠ [] ∧ md ≠ []
  | _ => False

/-- reading ops -/
def ReadOp : Op → Prop
  | .lookup _ => True
  | _ => False

/-- Persistence clause for the way the node uses manifests (build in memory, `Store`, later open by
    reference and read): for every list of adds (non-empty paths, with metadata — any number, any
    shared prefixes) followed by `store`, `reload` and any number of lookups, every answer — of the
    adds, of `store` / `reload`, and of every lookup on the lazily loaded reopened manifest — is the
    path map's.  Lookups load nodes in place; `obs_lookup` shows this never changes a later answer. -/
theorem C10_store_reload_lookup_refines (adds reads : List Op)
    (hadds : ∀ op ∈ adds, BuildOp op) (hreads : ∀ op ∈ reads, ReadOp op) :
    (run State.new (adds ++ (Op.store :: Op.reload :: reads))).2 =
      specRun {} (adds ++ (Op.store :: Op.reload :: reads)) := by
  -- phase 3: reads on the reopened manifest
  have H3 : ∀ (reads : List Op) (s : State) (sp : Spec), (∀ op ∈ reads, ReadOp op) → s.dead = false →
      (∀ f q, q.length < f → obs f s.root q = sp.cur.find q) →
      (run s reads).2 = specRun sp reads := by
    intro reads
    induction reads with
    | nil => intro s sp _ _ _; rfl
    | cons op rest ih =>
      intro s sp hall hlive hsim
      have hop := hall op (by simp)
      have hrest : ∀ o ∈ rest, ReadOp o := fun o ho => hall o (by simp [ho])
      cases op with
      | lookup p =>
        have hout := lookup_obs s.root p
        simp only [run, specRun, step, hlive, Bool.false_eq_true, if_false, stepLive, specStep, hout,
          hsim _ p (Nat.lt_succ_self _)]
        congr 1
        refine ih _ _ hrest (by simpa using hlive) ?_
        intro f q hq
        show obs f (lookup s.root p).1 q = _
        unfold lookup
        simp only
        rw [obs_lookup]; exact hsim f q hq
      | add p e md => exact absurd hop (by simp [ReadOp])
      | remove p => exact absurd hop (by simp [ReadOp])
      | store => exact absurd hop (by simp [ReadOp])
      | reload => exact absurd hop (by simp [ReadOp])
      | hasPrefix p => exact absurd hop (by simp [ReadOp])
  -- phases 1 and 2: adds on the fresh trie, then store and reload
  suffices H : ∀ (adds : List Op) (s : State) (sp : Spec), (∀ op ∈ adds, BuildOp op) → s.dead = false →
      Fresh s.root → s.root.value = false → s.root.md = [] →
      (∀ fl q, q.length < fl → sem fl s.root q = sp.cur.find q) →
      (run s (adds ++ (Op.store :: Op.reload :: reads))).2 =
        specRun sp (adds ++ (Op.store :: Op.reload :: reads)) from
    H adds State.new {} hadds rfl Fresh.new rfl rfl (by
      intro fl q hq
      cases fl with
      | zero => omega
      | succ f =>
        show sem (f + 1) Node.new q = PathMap.find [] q
        rw [sem_noforks f Node.new rfl]; cases q <;> simp [semNode_new, PathMap.find])
  intro adds
  induction adds with
  | nil =>
    intro s sp _ hlive hfr hv hmd hsim
    obtain ⟨n1, t, hs, hr⟩ := save_fresh_some hfr
    simp only [List.nil_append, run, specRun, step, hlive, Bool.false_eq_true, if_false, stepLive, hs,
      specStep, hr]
    congr 2
    refine H3 reads _ _ hreads rfl ?_
    intro f q hq
    have := obs_saved f s.root n1 t hfr hs hr false [] [] q hq
    rw [hv, hmd] at this
    show obs f (Node.ofRef t) q = _
    rw [Node.ofRef, this, hsim f q hq]
  | cons op rest ih =>
    intro s sp hall hlive hfr hv hmd hsim
    have hop := hall op (by simp)
    have hrest : ∀ o ∈ rest, BuildOp o := fun o ho => hall o (by simp [ho])
    cases op with
    | add p e md =>
      obtain ⟨hpne, hmdne⟩ := hop
      have hm := hfr.mem
      obtain ⟨n', hn'⟩ := add_isSome e md (p.length + 1) s.root p hm
      obtain ⟨_, law⟩ := sem_add e md hmdne (p.length + 1) s.root p n' hm (by omega) hn'
      have hfr' := fresh_add e md _ _ _ _ hfr hn'
      have hown : n'.value = s.root.value ∧ n'.md = s.root.md := by
        cases p with
        | nil => exact absurd rfl hpne
        | cons k t => exact add_own e md _ _ k t n' hm.loaded hn'
      simp only [List.cons_append, run, specRun, step, hlive, Bool.false_eq_true, if_false, stepLive, hn',
        specStep]
      congr 1
      exact ih _ _ hrest (by simpa using hlive) hfr' (by rw [hown.1, hv]) (by rw [hown.2, hmd])
        (by intro fl q hq; rw [law fl q hq, find_insert, hsim fl q hq])
    | lookup p => exact absurd hop (by simp [BuildOp])
    | remove p => exact absurd hop (by simp [BuildOp])
    | store => exact absurd hop (by simp [BuildOp])
    | reload => exact absurd hop (by simp [BuildOp])
    | hasPrefix p => exact absurd hop (by simp [BuildOp])

/-- Refinement, add/lookup clause (partial): after `add p e md` (non-empty metadata) on ANY live
    manifest state, `lookup p` answers `(e, md)` — whatever was stored, reloaded, read or removed
    before.  Missing w.r.t. the full clause: that lookups of *other* paths are unchanged by the add,
    the `hasPrefix` clause, and empty metadata (`C10_overwrite_keeps_metadata_counterexample`). -/
theorem C10_add_lookup_refines_partial (s : State) (p e : Bytes) (md : Meta) (hlive : s.dead = false)
    (hmd : md ≠ []) (hok : (step s (.add p e md)).2 = .ok) :
    (step (step s (.add p e md)).1 (.lookup p)).2 = .found e md := by
  simp only [step, hlive, Bool.false_eq_true, if_false, stepLive] at hok ⊢
  cases hadd : add (p.length + 1) s.root p e md with
  | none => simp [hadd] at hok
  | some n' =>
    obtain ⟨x, hx, hv, he, hm⟩ := lookup_add e md hmd (p.length + 1) s.root p n' (p.length + 1)
      (by omega) (by omega) hadd
    simp [lookup, hx, hv, he, hm]

/-- Refinement, remove clause (partial): after a `remove p` that answered ok on ANY live manifest
    state, `lookup p` answers not-found.  Missing: that no other path changes
    (`C10_remove_drops_extensions_counterexample`), that the removal survives store + reload
    (`C10_remove_not_persisted_counterexample`), and the `hasPrefix` clause
    (`C10_remove_leaves_prefix_counterexample`). -/
theorem C10_remove_refines_partial (s : State) (p : Bytes) (hlive : s.dead = false)
    (hok : (step s (.remove p)).2 = .ok) :
    (step (step s (.remove p)).1 (.lookup p)).2 = .notFound := by
  simp only [step, hlive, Bool.false_eq_true, if_false, stepLive] at hok ⊢
  cases hrem : remove (p.length + 1) s.root p with
  | mk n' res =>
    rw [hrem] at hok
    cases res with
    | ok =>
      have := lookup_remove (p.length + 1) s.root p n' (p.length + 1) (by omega) (by omega) hrem
      simp [lookup, this]
    | notFound => simp at hok
    | emptyPath => simp at hok

/-! ## The defects: minimal histories on which model (= code, by the correspondence run) and map differ -/

private def a : Bytes := [97]
private def ab : Bytes := [97, 98]
private def ac : Bytes := [97, 99]
private def x : Bytes := [120]
private def y : Bytes := [121]
private def r (k : UInt8) : Bytes := [k]      -- entries (any fixed length)
private def kv : Meta := [107, 61, 118]       -- "k=v"

/-- `Remove("a")` deletes the whole fork, so `"ab"` disappears too. -/
theorem C10_remove_drops_extensions_counterexample :
    (run State.new [.add a (r 1) kv, .add ab (r 2) kv, .remove a, .lookup ab]).2 ≠
      specRun {} [.add a (r 1) kv, .add ab (r 2) kv, .remove a, .lookup ab] := by decide

/-- `Remove` never clears a `ref`: after `store; remove x; store` nothing new is written and a reload
    resurrects `x`. -/
theorem C10_remove_not_persisted_counterexample :
    (run State.new [.add x (r 1) kv, .add y (r 2) kv, .store, .remove x, .store, .reload, .lookup x]).2 ≠
      specRun {} [.add x (r 1) kv, .add y (r 2) kv, .store, .remove x, .store, .reload, .lookup x] := by decide

/-- A read loads the stored root but keeps its `ref`; a following `Add` does not clear it, the next
    `Store` skips the root, and a reload has lost the added path. -/
theorem C10_add_not_persisted_after_read_counterexample :
    (run State.new [.add x (r 1) kv, .store, .lookup x, .add y (r 2) kv, .store, .reload, .lookup y]).2 ≠
      specRun {} [.add x (r 1) kv, .store, .lookup x, .add y (r 2) kv, .store, .reload, .lookup y] := by decide

/-- Overwriting an entry with empty metadata keeps the old metadata. -/
theorem C10_overwrite_keeps_metadata_counterexample :
    (run State.new [.add a (r 1) kv, .add a (r 2) [], .lookup a]).2 ≠
      specRun {} [.add a (r 1) kv, .add a (r 2) [], .lookup a] := by decide

/-- Removing the last key below a branching node leaves the empty node: `hasPrefix` still says yes. -/
theorem C10_remove_leaves_prefix_counterexample :
    (run State.new [.add ab (r 1) kv, .add ac (r 2) kv, .remove ab, .remove ac, .hasPrefix a]).2 ≠
      specRun {} [.add ab (r 1) kv, .add ac (r 2) kv, .remove ab, .remove ac, .hasPrefix a] := by decide

/-- An `Add` whose path ends at a node of a reloaded manifest that is not loaded yet clears that
    node's `ref` without loading it: the keys below it are unreachable at once (and `Store` fails,
    a later `Add` below it panics). -/
theorem C10_overwrite_unloaded_node_counterexample :
    (run State.new [.add a (r 1) kv, .add ab (r 2) kv, .store, .reload, .add a (r 3) kv, .lookup ab, .store]).2 ≠
      specRun {} [.add a (r 1) kv, .add ab (r 2) kv, .store, .reload, .add a (r 3) kv, .lookup ab, .store] := by decide

/-- hence the full refinement does not hold -/
theorem C10_full_counterexample : ¬ C10_full :=
  fun h => C10_remove_drops_extensions_counterexample (h _)

/-! ## Non-vacuity -/

/-- a build–store–reopen–read history (edge split, two levels) -/
example : (∀ op ∈ [Op.add ab (r 1) kv, .add a (r 2) kv, .add ac (r 3) kv], BuildOp op) ∧
    (∀ op ∈ [Op.lookup ab, .lookup a, .lookup x, .lookup ab], ReadOp op) := by
  constructor <;> intro op h <;> simp only [List.mem_cons, List.mem_nil_iff, or_false] at h
  · rcases h with rfl | rfl | rfl <;> simp [BuildOp, ab, a, ac, kv]
  · rcases h with rfl | rfl | rfl | rfl <;> simp [ReadOp]

/-- a history inside the remove guard: add, overwrite, remove a key without extensions, re-add -/
example : Guarded {} [.add ab (r 1) kv, .add ac (r 2) kv, .lookup ab, .remove ab, .lookup ab, .lookup ac,
    .add ab (r 3) kv, .lookup ab] := by
  simp [Guarded, specStep, PathMap.insert, PathMap.erase, PathMap.find, ab, ac, kv, isPrefix]

/-- a history of the in-memory fragment with an edge split, an overwrite and a long path -/
example : ∀ op ∈ [Op.add ab (r 1) kv, .add a (r 2) kv, .add a (r 3) kv, .lookup ab, .hasPrefix a, .lookup x], MemOp op := by
  intro op h
  simp only [List.mem_cons, List.mem_nil_iff, or_false] at h
  rcases h with rfl | rfl | rfl | rfl | rfl | rfl <;> simp [MemOp, kv]

/-- the premises of the partial theorems are satisfiable (on a reloaded, lazily loaded manifest) … -/
example : ∃ s : State, s.dead = false ∧ (step s (.add ac (r 5) kv)).2 = .ok ∧
    (step s (.remove ab)).2 = .ok :=
  ⟨(run State.new [.add a (r 1) kv, .add ab (r 2) kv, .store, .reload]).1, by decide, by decide, by decide⟩

/-- … and inside the guard a history with splits, overwrites, store and reload agrees with the map -/
example :
    (run State.new [.add a (r 1) kv, .add [97, 98, 99] (r 2) kv, .add ab (r 3) kv, .add a (r 4) kv,
      .hasPrefix ab, .store, .reload, .lookup a, .lookup ab, .lookup [97, 98, 99], .lookup ac,
      .hasPrefix ac, .hasPrefix [], .store, .reload, .add ac (r 5) kv, .store, .reload, .lookup ac, .lookup a,
      .remove ac, .lookup ac]).2 =
    specRun {} [.add a (r 1) kv, .add [97, 98, 99] (r 2) kv, .add ab (r 3) kv, .add a (r 4) kv,
      .hasPrefix ab, .store, .reload, .lookup a, .lookup ab, .lookup [97, 98, 99], .lookup ac,
      .hasPrefix ac, .hasPrefix [], .store, .reload, .add ac (r 5) kv, .store, .reload, .lookup ac, .lookup a,
      .remove ac, .lookup ac] := by decide

end Aurora.Mantaray
