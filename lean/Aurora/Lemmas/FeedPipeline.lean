import Aurora.Model.FeedPipeline
namespace Aurora.FeedPipeline
open Aurora.Bmt (Bytes)

theorem writes_flatten_init (init : List ReadRes) (d : Bytes) (h : ∀ r ∈ init, r.2 = false) :
    (writes (init ++ [(d, true)])).flatten = ((init ++ [(d, true)]).map (·.1)).flatten := by
  induction init with
  | nil =>
    simp only [List.nil_append, writes, List.map_cons, List.map_nil, List.flatten_cons, List.flatten_nil,
      List.append_nil]
    by_cases hd : d.length > 0
    · simp [hd]
    · have : d = [] := List.eq_nil_of_length_eq_zero (by omega)
      simp [this]
  | cons r init ih =>
    obtain ⟨x, e⟩ := r
    have he : e = false := h (x, e) (by simp)
    subst he
    have ih := ih (fun r hr => h r (by simp [hr]))
    simp only [List.cons_append, writes, List.map_cons, List.flatten_cons, ih]

/-- every byte the reader delivered reaches the pipeline, in order -/
theorem writes_all_bytes (content : Bytes) (rs : List ReadRes) (h : Admissible content rs) :
    (writes rs).flatten = content := by
  obtain ⟨h1, init, d, h2, h3⟩ := h
  rw [← h1, h2]
  exact writes_flatten_init init d h3

end Aurora.FeedPipeline
