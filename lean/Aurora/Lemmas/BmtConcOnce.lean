import Aurora.Lemmas.BmtConcExtra
/-! Every slot is written at most once per round; maximal executions exist. -/
namespace Aurora.BmtConc
open Aurora.Bmt

theorem exec_chain {cfg : Cfg} {s s' : St} {ts : List Nat} (hv : cfg.vals ≠ [])
    (hpos : cfg.pos < 2 ^ cfg.d) (h : Exec cfg s ts s') :
    ∀ ph, Inv cfg s ph → ∃ ph', Inv cfg s' ph' ∧ Mono ph ph' ∧
      ∀ t, rank cfg.d (s'.pc t) ≤ rank cfg.d (s.pc t) := by
  induction h with
  | nil s => intro ph inv; exact ⟨ph, inv, mono_refl _, fun _ => Nat.le_refl _⟩
  | @cons s s1 s' t ts hs _ ih =>
    intro ph inv
    obtain ⟨ph1, inv1, m1⟩ := inv_step_mono hv hpos inv hs
    obtain ⟨ph', inv', m2, hr⟩ := ih ph1 inv1
    refine ⟨ph', inv', mono_trans m1 m2, ?_⟩
    intro t1
    obtain ⟨ht, hrel⟩ := step_rel hs
    obtain ⟨p', hp, hlt⟩ := rank_step inv ht hrel
    have : rank cfg.d (s1.pc t1) ≤ rank cfg.d (s.pc t1) := by
      rw [hp]
      by_cases e : t1 = t
      · subst e; rw [upd_same]; omega
      · rw [upd_ne _ _ _ _ e]; exact Nat.le_refl _
    exact Nat.le_trans (hr t1) this

/-- rank of a thread that is about to write slot `(n, j, side)` -/
def wrank (cfg : Cfg) (t n : Nat) (side : Bool) : Nat :=
  if t = cfg.pos ∧ side = false then 4 * (cfg.d + 1 - (n - 1)) - 1 else 4 * (cfg.d + 1 - (n - 1))

theorem acc_write_rank {cfg : Cfg} {s : St} {t n j : Nat} {side : Bool}
    (ht : t ≤ cfg.pos) (h : (n, j, side, true) ∈ accesses cfg s t) :
    rank cfg.d (s.pc t) = wrank cfg t n side := by
  unfold accesses at h
  rw [if_neg (by omega)] at h
  cases hpc : s.pc t with
  | init => rw [hpc] at h; simp at h
  | done => rw [hpc] at h; simp at h
  | wrote c k => rw [hpc] at h; simp at h
  | hash c k => rw [hpc] at h; simp at h
  | top c k sv =>
    rw [hpc] at h
    simp only at h
    split at h
    · simp at h
    · split at h
      · next htp =>
        simp only [List.mem_singleton, Prod.mk.injEq] at h
        obtain ⟨rfl, _, _, _⟩ := h
        unfold wrank; rw [if_neg (by omega)]; simp [rank]
      · split at h
        · simp only [List.mem_singleton, Prod.mk.injEq] at h
          obtain ⟨rfl, _, rfl, _⟩ := h
          unfold wrank; rw [if_neg (by simp)]; simp [rank]
        · cases sv with
          | none => simp at h
          | some v =>
            simp only [List.mem_singleton, Prod.mk.injEq] at h
            obtain ⟨rfl, _, rfl, _⟩ := h
            unfold wrank; rw [if_neg (by simp)]; simp [rank]
  | zr c k sv =>
    rw [hpc] at h
    simp only at h
    split at h
    · simp at h
    · next htp =>
      cases sv with
      | none => simp at h
      | some v =>
        simp only [List.mem_singleton, Prod.mk.injEq] at h
        obtain ⟨rfl, _, rfl, _⟩ := h
        unfold wrank; rw [if_pos ⟨by omega, rfl⟩]; simp [rank]

/-- after a thread has written a slot, no thread (including itself) is ever again about to write it -/
theorem write_once {cfg : Cfg} {s1 s1' s2 : St} {ph1 : Nat → Nat → Ph} {t t' : Nat} {ts : List Nat}
    (hv : cfg.vals ≠ []) (hpos : cfg.pos < 2 ^ cfg.d) (inv1 : Inv cfg s1 ph1)
    (ht' : t' ≤ cfg.pos) (hs : step cfg s1 t = some s1') (hex : Exec cfg s1' ts s2)
    {n j : Nat} {side : Bool}
    (ha : (n, j, side, true) ∈ accesses cfg s1 t) (hb : (n, j, side, true) ∈ accesses cfg s2 t') : False := by
  obtain ⟨ht, hrel⟩ := step_rel hs
  obtain ⟨c, x, rfl, hc, hx, hsd, _, hd⟩ := acc_write inv1 ht ha
  obtain ⟨p', hp, hlt⟩ := rank_step inv1 ht hrel
  obtain ⟨ph1', inv1', m1⟩ := inv_step_mono hv hpos inv1 hs
  obtain ⟨ph2, inv2, m2, hr⟩ := exec_chain hv hpos hex ph1' inv1'
  obtain ⟨c', x', e, hc', hx', hsd', _, hd'⟩ := acc_write inv2 ht' hb
  have : c' = c := by omega
  subst this
  have : x' = x := by
    rw [hsd] at hsd'
    have h1 : (x % 2 != 0) = (x' % 2 != 0) := hsd'
    have : x % 2 = x' % 2 := by
      rcases Nat.mod_two_eq_zero_or_one x with a | a <;> rcases Nat.mod_two_eq_zero_or_one x' with b | b <;>
        simp [a, b] at h1 <;> omega
    omega
  subst this
  have hsame : t' = t := by
    rcases hd with ⟨_, q⟩ | ⟨p, q⟩ <;> rcases hd' with ⟨p', q'⟩ | ⟨p', q'⟩
    · rcases ((mono_trans m1 m2) c' x').2 t q with h | h
      · rw [h] at q'; cases q'; rfl
      · rw [h] at q'; cases q'
    · omega
    · omega
    · rw [q, q']
  subst hsame
  have r1 := acc_write_rank ht ha
  have r2 := acc_write_rank ht' hb
  have r3 := hr t'
  have r4 : rank cfg.d (s1'.pc t') < rank cfg.d (s1.pc t') := by rw [hp, upd_same]; exact hlt
  omega

/-! ## maximal executions exist -/

theorem allDone_terminal {cfg : Cfg} {s : St} (hd : AllDone cfg s) : Terminal cfg s := by
  intro t
  unfold step
  split
  · rfl
  · next h => rw [hd t (by omega)]

theorem exists_maximal {cfg : Cfg} (hv : cfg.vals ≠ []) (hpos : cfg.pos < 2 ^ cfg.d) :
    ∀ (n : Nat) (s : St) (ph : Nat → Nat → Ph), measure cfg s ≤ n → Inv cfg s ph →
      ∃ ts s', Exec cfg s ts s' ∧ Terminal cfg s' := by
  intro n
  induction n with
  | zero =>
    intro s ph hm inv
    by_cases hd : AllDone cfg s
    · exact ⟨[], s, .nil s, allDone_terminal hd⟩
    · exfalso
      have : ∃ t, t ≤ cfg.pos ∧ s.pc t ≠ .done := by
        apply Classical.byContradiction
        intro hc
        apply hd
        intro t ht
        apply Classical.byContradiction
        intro hne
        exact hc ⟨t, ht, hne⟩
      obtain ⟨t, ht, hne⟩ := this
      obtain ⟨s1, hs1⟩ := progress hpos inv ht hne
      have := measure_step inv hs1
      omega
  | succ n ih =>
    intro s ph hm inv
    by_cases hd : AllDone cfg s
    · exact ⟨[], s, .nil s, allDone_terminal hd⟩
    · have : ∃ t, t ≤ cfg.pos ∧ s.pc t ≠ .done := by
        apply Classical.byContradiction
        intro hc
        apply hd
        intro t ht
        apply Classical.byContradiction
        intro hne
        exact hc ⟨t, ht, hne⟩
      obtain ⟨t, ht, hne⟩ := this
      obtain ⟨s1, hs1⟩ := progress hpos inv ht hne
      have hm1 := measure_step inv hs1
      obtain ⟨ph1, inv1⟩ := inv_step hv hpos inv hs1
      obtain ⟨ts, s', hex, hterm⟩ := ih s1 ph1 (by omega) inv1
      exact ⟨t :: ts, s', .cons hs1 hex, hterm⟩

end Aurora.BmtConc
