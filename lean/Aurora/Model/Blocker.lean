/-
Model of /repo/pkg/blocker/blocker.go (hand translation, tied by the C26 correspondence run).

State: the monotonic `sequence` and the flag table `peers : addr ↦ blockAfter`.  The constant
`T = uint64(flagTimeout / sequencerResolution)` is fixed by `New` (which panics unless
`flagTimeout > sequencerResolution`, hence `T ≥ 1`).  Every exported method and `block()` runs
under `mu`, the sequence is an atomic counter, so each operation below is one atomic step and a
concurrent execution is an interleaving = a list of these operations.

`tick avail` is one iteration of the sequencer goroutine (`sequence.Inc()` iff the network is
available), `sweep` one call of `block()`.  uint64 wrap-around of `sequence + T` is not
modelled (2^64 ticks).
-/
namespace Aurora.Blocker

abbrev Addr := String

inductive Op where
  | tick (avail : Bool)
  | flag (a : Addr) (avail : Bool)
  | unflag (a : Addr)
  | prune (seen : List Addr)
  | sweep
deriving Repr, DecidableEq

structure State where
  seq   : Nat
  flags : List (Addr × Nat)
deriving Repr, DecidableEq

def init : State := { seq := 0, flags := [] }

/-- `0 < peer.blockAfter && peer.blockAfter < b.sequence.Load()` -/
def due (seq : Nat) (p : Addr × Nat) : Bool := decide (0 < p.2) && decide (p.2 < seq)

/-- the addresses one `block()` call blocklists in state `s` (in table order) -/
def sweepOut (s : State) : List Addr := (s.flags.filter (due s.seq)).map Prod.fst

/-- one atomic operation -/
def step (T : Nat) (s : State) : Op → State
  | .tick avail => if avail then { s with seq := s.seq + 1 } else s
  | .flag a avail =>
    if avail ∧ a ∉ s.flags.map Prod.fst then { s with flags := (a, s.seq + T) :: s.flags } else s
  | .unflag a => { s with flags := s.flags.filter (fun p => p.1 ≠ a) }
  | .prune seen => { s with flags := s.flags.filter (fun p => p.1 ∈ seen) }
  | .sweep => { s with flags := s.flags.filter (fun p => !due s.seq p) }

def run (T : Nat) (s : State) (ops : List Op) : State := ops.foldl (step T) s

end Aurora.Blocker
