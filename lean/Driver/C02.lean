import Driver.FileCommon
/-! Driver for C02: the shared file-pipeline driver (see `Driver/FileCommon.lean` for the ops). -/
namespace Driver.C02
def handler : Driver.Handler := Driver.File.handler
end Driver.C02
