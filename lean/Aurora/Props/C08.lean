import Aurora.Lemmas.Encryption
import Aurora.Generated.Consts
/-!
# C08 — Chunk encryption is invertible and padding is stripped exactly

Models: `Aurora/Model/Encryption.lean` (`encryption.go`, `chunk_encryption.go`) and
`Aurora/Model/DecryptStore.lean` (`decrypt_store.go`).  Statements hold for every hash `H` whose
digests are at least as long as the key (`hH`; Keccak-256 and 32-byte keys in the repository), every
non-empty key, every counter, every running segment index and every admissible padding choice
(`pad` is the list of random bytes `crypto/rand` produced — any list of the right length).
The tree-shape notion used by `C08_strip_intermediate` is `DecryptStore.WFNode` (arithmetic only).
-/
namespace Aurora.Encryption
open Aurora.Bmt

variable (H : Bytes → Bytes)

/-- `Encrypt` rejects data longer than the configured padding. -/
theorem C08_encrypt_too_long_rejected (e : Enc) (data pad : Bytes)
    (hp : e.padding > 0) (hl : data.length > e.padding) :
    e.encrypt H data pad = .error .tooLong := by
  simp [Enc.encrypt, hp, hl]

/-- `Encrypt` succeeds on every other input, for every admissible padding choice. -/
theorem C08_encrypt_accepts (e : Enc) (data pad : Bytes)
    (hl : e.padding = 0 ∨ data.length ≤ e.padding)
    (hpad : pad.length = (if e.padding > 0 then e.padding else data.length) - data.length) :
    ∃ o e', e.encrypt H data pad = .ok (o, e') := by
  have h1 : ¬ (e.padding > 0 ∧ data.length > e.padding) := by omega
  simp only [Enc.encrypt, h1, if_false]
  simp [hpad]

theorem transform_length (e : Enc) (inp : Bytes) (hw : 0 < e.key.length)
    (hH : ∀ x, e.key.length ≤ (H x).length) : (e.transform H inp).1.length = inp.length := by
  simp only [Enc.transform]
  rw [xorSegs_eq H e.key e.initCtr e.key.length (fun i => hH _)]
  apply xorBytes_length
  rw [ks_length H e.key e.initCtr e.key.length (fun i => hH _)]
  exact nsegs_mul_ge _ _ hw

/-- **Ciphertext length**: with padding configured every ciphertext has exactly the padded
    length; without padding it has the length of the plaintext. -/
theorem C08_encrypt_len (e : Enc) (data pad o : Bytes) (e' : Enc) (hw : 0 < e.key.length)
    (hH : ∀ x, e.key.length ≤ (H x).length) (h : e.encrypt H data pad = .ok (o, e')) :
    o.length = if e.padding > 0 then e.padding else data.length := by
  unfold Enc.encrypt at h
  by_cases h1 : e.padding > 0 ∧ data.length > e.padding
  · simp [h1] at h
  · simp only [h1, if_false] at h
    by_cases h2 : pad.length ≠ (if e.padding > 0 then e.padding else data.length) - data.length
    · simp [h2] at h
    · simp only [h2, if_false] at h
      have ho : o = (e.transform H data).1 ++ pad := by
        have := Except.ok.inj h; exact (Prod.mk.inj this).1.symm
      rw [ho, List.length_append, transform_length H e data hw hH]
      have h2' : pad.length = (if e.padding > 0 then e.padding else data.length) - data.length :=
        Decidable.of_not_not h2
      split <;> simp_all <;> omega

/-- **Invertibility**: decrypting a ciphertext with the same key, counter and starting segment
    index gives back the plaintext as its prefix (all of it when no padding is configured). -/
theorem C08_decrypt_encrypt_prefix (e : Enc) (data pad o : Bytes) (e1 : Enc) (hw : 0 < e.key.length)
    (hH : ∀ x, e.key.length ≤ (H x).length) (h : e.encrypt H data pad = .ok (o, e1)) :
    ∃ dec e2, e.decrypt H o = .ok (dec, e2) ∧ dec.length = o.length ∧ dec.take data.length = data := by
  have hlen := C08_encrypt_len H e data pad o e1 hw hH h
  unfold Enc.encrypt at h
  by_cases h1 : e.padding > 0 ∧ data.length > e.padding
  · simp [h1] at h
  · simp only [h1, if_false] at h
    by_cases h2 : pad.length ≠ (if e.padding > 0 then e.padding else data.length) - data.length
    · simp [h2] at h
    · simp only [h2, if_false] at h
      have ho : o = (e.transform H data).1 ++ pad := by
        have := Except.ok.inj h; exact (Prod.mk.inj this).1.symm
      have hd : ¬ (e.padding > 0 ∧ o.length ≠ e.padding) := by
        rw [hlen]; split <;> omega
      refine ⟨(e.transform H o).1, (e.transform H o).2, by simp [Enc.decrypt, hd],
        transform_length H e o hw hH, ?_⟩
      -- both transforms are XORs with a keystream; the shorter keystream is a prefix of the longer
      have hk : ∀ i, e.key.length ≤ (segmentKey H e.key e.initCtr i).length := fun i => hH _
      have hdo : data.length ≤ o.length := by
        rw [ho, List.length_append, transform_length H e data hw hH]; omega
      simp only [Enc.transform] at ho ⊢
      rw [xorSegs_eq H _ _ _ hk] at ho ⊢
      have hnn : nsegs e.key.length data.length ≤ nsegs e.key.length o.length := nsegs_mono _ _ _ hdo
      have hK : ks H e.key e.initCtr e.key.length (nsegs e.key.length o.length) e.index =
          ks H e.key e.initCtr e.key.length (nsegs e.key.length data.length) e.index ++
          ks H e.key e.initCtr e.key.length (nsegs e.key.length o.length - nsegs e.key.length data.length)
            (e.index + nsegs e.key.length data.length) := by
        rw [← ks_add]; congr 1; omega
      have hKl : data.length ≤
          (ks H e.key e.initCtr e.key.length (nsegs e.key.length data.length) e.index).length := by
        rw [ks_length H _ _ _ hk]; exact nsegs_mul_ge _ _ hw
      have hA : (xorBytes data (ks H e.key e.initCtr e.key.length (nsegs e.key.length data.length) e.index)).length
          = data.length := xorBytes_length _ _ hKl
      unfold xorBytes at *
      rw [List.take_zipWith, hK, List.take_append_of_le_length hKl]
      conv => lhs; arg 2; rw [ho]
      rw [List.take_left' hA]
      rw [zipWith_take_right _ data _ data.length (Nat.le_refl _)]
      exact xorBytes_involutive data _ (by rw [List.length_take]; omega)

/-- `Reset` after an encryption that started at index 0 restores the instance, so
    `Encrypt; Reset; Decrypt` is the round trip of `C08_decrypt_encrypt_prefix`. -/
theorem C08_reset_restores (e : Enc) (data pad o : Bytes) (e1 : Enc) (h0 : e.index = 0)
    (h : e.encrypt H data pad = .ok (o, e1)) : e1.reset = e := by
  unfold Enc.encrypt at h
  by_cases h1 : e.padding > 0 ∧ data.length > e.padding
  · simp [h1] at h
  · simp only [h1, if_false] at h
    by_cases h2 : pad.length ≠ (if e.padding > 0 then e.padding else data.length) - data.length
    · simp [h2] at h
    · simp only [h2, if_false] at h
      have := (Prod.mk.inj (Except.ok.inj h)).2
      rw [← this]
      cases e
      simp only [Enc.transform, Enc.reset] at h0 ⊢
      simp [h0]

/-! ## counters of the span and data keystreams -/

/-- the 32-bit counters hashed while transforming `n` bytes -/
def counters (e : Enc) (n : Nat) : List Nat :=
  (List.range (nsegs e.key.length n)).map (fun i => (e.index + i + e.initCtr) % 2 ^ 32)

/-- What DESIGN §6 planned to prove: the counter of the span keystream is never used for data. -/
def C08_span_data_counters_disjoint_full : Prop :=
  ∀ (key : Bytes), key.length = 32 → ∀ n ≤ 262144,
    ∀ c ∈ counters (dataEnc 262144 key) n, c ∉ counters (spanEnc 262144 64 key) 8

/-- It holds for data of at most `ChunkSize / 2` bytes (segment indices `0 … 4095`; the span uses
    counter `ChunkSize / 64 = 4096`) … -/
theorem C08_span_data_counters_disjoint_partial (key : Bytes) (hk : key.length = 32) (n : Nat)
    (hn : n ≤ 131072) :
    ∀ c ∈ counters (dataEnc 262144 key) n, c ∉ counters (spanEnc 262144 64 key) 8 := by
  intro c hc hs
  simp only [counters, dataEnc, spanEnc, hk, nsegs, List.mem_map, List.mem_range] at hc hs
  obtain ⟨i, hi, rfl⟩ := hc
  obtain ⟨j, hj, hj'⟩ := hs
  omega

/-- … and is **false** beyond: data segment 4096 (bytes 131072 …) of every encrypted chunk is
    XOR-ed with the same keystream segment as the span (the counter `ChunkSize/refSize` was meant
    to lie past the data segments, but segments are 32 bytes, not 64).  This is a keystream reuse
    (confidentiality), not a violation of C08's statement (invertibility, exact stripping). -/
theorem C08_span_data_counters_disjoint_counterexample : ¬ C08_span_data_counters_disjoint_full := by
  intro h
  have := h (List.replicate 32 0) (by simp) 262144 (Nat.le_refl _) 4096
  apply this
  · simp only [counters, dataEnc, nsegs, List.length_replicate, List.mem_map, List.mem_range]
    exact ⟨4096, by omega, by omega⟩
  · simp only [counters, spanEnc, nsegs, List.length_replicate, List.mem_map, List.mem_range]
    exact ⟨0, by omega, by omega⟩

/-- the reused segment key, concretely -/
theorem C08_span_keystream_reused (key : Bytes) :
    segmentKey H key (spanEnc 262144 64 key).initCtr 0 = segmentKey H key (dataEnc 262144 key).initCtr 4096 := by
  simp [segmentKey, spanEnc, dataEnc]

end Aurora.Encryption

namespace Aurora.DecryptStore
open Aurora.Bmt Aurora.Encryption

variable (H : Bytes → Bytes)

/-- **The loop terminates** (the model's fuel is never exhausted): for every `uint64` value, more
    fuel changes nothing and the result satisfies the loop's exit condition. -/
theorem C08_loop_fuel_enough (l : UInt64) (g : Nat) :
    lengthLoopFuel 262144 64 (64 + g) l = lengthLoop 262144 64 l ∧ ¬ (lengthLoop 262144 64 l > 262144) := by
  have hb : l.toNat ≤ bnd 4 := by have := l.toNat_lt; simp [bnd]; omega
  have h4 : ∀ g', lengthLoopFuel 262144 64 (4 + g') l = lengthLoopFuel 262144 64 4 l :=
    fun g' => loop_fuel_stable 4 g' l hb
  have e64 : lengthLoop 262144 64 l = lengthLoopFuel 262144 64 4 l := h4 60
  refine ⟨by rw [e64, show 64 + g = 4 + (60 + g) by omega, h4], ?_⟩
  rw [e64]
  exact loop_exit 4 l (h4 1)

/-- **No uint64 overflow below 2^63**: for spans `< 2^63` the wrapping `uint64` loop computes
    exactly the mathematical (`Nat`) iteration `s ↦ ⌈s / ChunkSize⌉ · 64`. -/
theorem C08_no_u64_overflow (s : Nat) (hs : s < 2 ^ 63) :
    (lengthLoop 262144 64 (UInt64.ofNat s)).toNat = natLoop 64 s := by
  have ht : (UInt64.ofNat s).toNat = s := by
    rw [UInt64.toNat_ofNat']; exact Nat.mod_eq_of_lt (by omega)
  unfold lengthLoop
  rw [loop_eq_natLoop 64 _ (by rw [ht]; exact hs), ht]

/-- Beyond that the loop does wrap: the span `2^64 - 1` is "restored" to length 0. -/
theorem C08_u64_wraps_near_max : lengthLoop 262144 64 (UInt64.ofNat (2 ^ 64 - 1)) = 0 := by decide

/-- **Leaf chunks**: a span of at most `ChunkSize` is returned unchanged — the payload is cut to
    exactly the data length the writer stored. -/
theorem C08_strip_leaf (s : Nat) (hs : s ≤ 262144) :
    (lengthLoop 262144 64 (UInt64.ofNat s)).toNat = s := by
  rw [C08_no_u64_overflow s (by omega)]
  exact natLoop_done _ _ hs

/-- **Intermediate chunks**: for every well-formed encrypted subtree (height `h + 1`, `k` children,
    `k - 1` full children of `ChunkSize · 4096^h` bytes and a last child of `1 … ChunkSize · 4096^h`
    bytes) whose span is below 2^63 the loop returns `64 · k`: 64 bytes per child reference. -/
theorem C08_strip_intermediate (h k s : Nat) (hwf : WFNode 262144 4096 h k s) (hs : s < 2 ^ 63) :
    (lengthLoop 262144 64 (UInt64.ofNat s)).toNat = 64 * k := by
  rw [C08_no_u64_overflow s hs]
  obtain ⟨h2, hB, hlo, hhi⟩ := hwf
  rw [full_eq] at hlo hhi
  -- the height is small: 64 · 4096^(h+1) < 2^63
  have hh : h + 2 ≤ 64 := by
    by_cases hh : h + 2 ≤ 64
    · exact hh
    · exfalso
      have hp : (4096 : Nat) ^ 5 ≤ 4096 ^ (h + 1) := Nat.pow_le_pow_right (by omega) (by omega)
      have h5 : (4096 : Nat) ^ 5 = 1152921504606846976 := by decide
      have : 64 * 4096 ^ (h + 1) ≤ (k - 1) * (64 * 4096 ^ (h + 1)) :=
        Nat.le_mul_of_pos_left _ (by omega)
      omega
  exact natLoop_node h 64 k s h2 hB hlo hhi hh

/-- the shape hypothesis is satisfiable at every height, e.g. two children, the last one 1 byte -/
example (h : Nat) : WFNode 262144 4096 h 2 (full 262144 4096 h + 1) := by
  have : 0 < full 262144 4096 h := Nat.mul_pos (by omega) (Nat.pow_pos (by omega))
  exact ⟨by omega, by omega, by omega, by omega⟩

/-- The decrypting store on what `EncryptChunk` produced for a leaf chunk (`span = |data| ≤
    ChunkSize`, 32-byte key): the original `span ‖ data` comes back, padding stripped exactly. -/
theorem C08_chunk_roundtrip (key pad span data es ed : Bytes)
    (hk : key.length = 32) (hH : ∀ x, 32 ≤ (H x).length)
    (hspan : span.length = 8) (hd : data.length ≤ 262144)
    (hsv : u64le span = UInt64.ofNat data.length)
    (henc : encryptChunk H 262144 64 key pad (span ++ data) = .ok (es, ed)) :
    decryptChunkData H 262144 64 (es ++ ed) key = .ok (span ++ data) := by
  unfold encryptChunk at henc
  rw [List.take_left' hspan, List.drop_left' hspan] at henc
  cases h1 : (spanEnc 262144 64 key).encrypt H span [] with
  | error e => simp [h1] at henc
  | ok r1 =>
    obtain ⟨es', e1⟩ := r1
    simp only [h1] at henc
    cases h2 : (dataEnc 262144 key).encrypt H data pad with
    | error e => simp [h2] at henc
    | ok r2 =>
      obtain ⟨ed', e2⟩ := r2
      simp only [h2] at henc
      obtain ⟨rfl, rfl⟩ := Prod.mk.inj (Except.ok.inj henc)
      have hw1 : 0 < (spanEnc 262144 64 key).key.length := by simp [spanEnc, hk]
      have hw2 : 0 < (dataEnc 262144 key).key.length := by simp [dataEnc, hk]
      have hH1 : ∀ x, (spanEnc 262144 64 key).key.length ≤ (H x).length := by
        intro x; simp only [spanEnc, hk]; exact hH x
      have hH2 : ∀ x, (dataEnc 262144 key).key.length ≤ (H x).length := by
        intro x; simp only [dataEnc, hk]; exact hH x
      have l1 := C08_encrypt_len H _ _ _ _ _ hw1 hH1 h1
      have l2 := C08_encrypt_len H _ _ _ _ _ hw2 hH2 h2
      simp only [spanEnc, dataEnc] at l1 l2
      simp only [Nat.lt_irrefl, if_false, hspan] at l1
      simp only [show (262144 : Nat) > 0 by omega, if_true] at l2
      obtain ⟨ds, _, hds, hdl, hdp⟩ := C08_decrypt_encrypt_prefix H _ _ _ _ _ hw1 hH1 h1
      obtain ⟨dd, _, hdd, hddl, hddp⟩ := C08_decrypt_encrypt_prefix H _ _ _ _ _ hw2 hH2 h2
      have hds' : ds = span := by
        rw [← hdp, hspan, ← l1, ← hdl]; exact (List.take_length).symm
      subst hds'
      unfold decryptChunkData
      rw [List.take_left' l1, List.drop_left' l1, hds, hdd]
      simp only []
      rw [hsv]
      have : (lengthLoop (UInt64.ofNat 262144) (UInt64.ofNat 64) (UInt64.ofNat data.length)).toNat = data.length :=
        C08_strip_leaf data.length hd
      rw [this, hddp]

/-- The parameters the repository instantiates the models with. -/
theorem C08_consts :
    Aurora.Generated.chunkSize = 262144 ∧ Aurora.Generated.hashSize + 32 = 64 ∧
    Aurora.Generated.chunkSize / 64 = 4096 := by decide

end Aurora.DecryptStore
