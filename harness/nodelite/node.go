// Package nodelite is the "node-lite" harness of DESIGN §6 (C12, C15, C16, C17): one process-local
// AuroraFS node assembled from the REAL services the way pkg/node wires them —
// localstore.DB (leveldb in memory, through lstore-a's write-logging shed driver), retrieval,
// netstore, traversal, pinning, chunkinfo and the HTTP API server — with only the network edge
// faked: a switchable p2p.Streamer that connects two such nodes through in-memory pipes, a
// route table that always connects, mock accounting, and a chain resolver that knows no nodes.
// Upload registration (OnChunkRetrieved per data chunk), the delete closure and the pin guard live
// in the API layer, so everything is driven through the API handler (httptest recorder).
package nodelite

import (
	"archive/tar"
	"bytes"
	"context"
	"encoding/json"
	"errors"
	"fmt"
	"io"
	"net/http"
	"net/http/httptest"
	"net/url"
	"os"
	"sort"
	"sync"
	"time"

	"github.com/ethereum/go-ethereum/common"
	"github.com/ethereum/go-ethereum/core/types"
	"github.com/gauss-project/aurorafs/pkg/accounting/mock"
	"github.com/gauss-project/aurorafs/pkg/api"
	"github.com/gauss-project/aurorafs/pkg/aurora"
	mockauth "github.com/gauss-project/aurorafs/pkg/auth/mock"
	"github.com/gauss-project/aurorafs/pkg/boson"
	"github.com/gauss-project/aurorafs/pkg/chunkinfo"
	cipb "github.com/gauss-project/aurorafs/pkg/chunkinfo/pb"
	"github.com/gauss-project/aurorafs/pkg/file/joiner"
	"github.com/gauss-project/aurorafs/pkg/file/loadsave"
	"github.com/gauss-project/aurorafs/pkg/localstore"
	"github.com/gauss-project/aurorafs/pkg/logging"
	"github.com/gauss-project/aurorafs/pkg/manifest"
	"github.com/gauss-project/aurorafs/pkg/netstore"
	"github.com/gauss-project/aurorafs/pkg/p2p"
	"github.com/gauss-project/aurorafs/pkg/p2p/protobuf"
	"github.com/gauss-project/aurorafs/pkg/pinning"
	resolverMock "github.com/gauss-project/aurorafs/pkg/resolver/mock"
	"github.com/gauss-project/aurorafs/pkg/retrieval"
	rpb "github.com/gauss-project/aurorafs/pkg/retrieval/pb"
	"github.com/gauss-project/aurorafs/pkg/routetab"
	"github.com/gauss-project/aurorafs/pkg/rpc"
	"github.com/gauss-project/aurorafs/pkg/sctx"
	"github.com/gauss-project/aurorafs/pkg/settlement/chain"
	statestore "github.com/gauss-project/aurorafs/pkg/statestore/leveldb"
	"github.com/gauss-project/aurorafs/pkg/storage"
	"github.com/gauss-project/aurorafs/pkg/subscribe"
	"github.com/gauss-project/aurorafs/pkg/traversal"
	"github.com/sirupsen/logrus"

	"verifharness/lsharness"
)

// DefaultCapacity keeps garbage collection out of reach until a case asks for it.
const DefaultCapacity = 1000000

// ---- network edge fakes --------------------------------------------------------------------

// switchStreamer is the node's p2p.Streamer; its target is set when two nodes are connected.
type switchStreamer struct {
	mu    sync.Mutex
	inner p2p.Streamer
}

var errNoPeer = errors.New("nodelite: no peer connected")

func (s *switchStreamer) get() p2p.Streamer {
	s.mu.Lock()
	defer s.mu.Unlock()
	return s.inner
}
func (s *switchStreamer) NewStream(ctx context.Context, a boson.Address, h p2p.Headers, proto, ver, name string) (p2p.Stream, error) {
	in := s.get()
	if in == nil {
		return nil, errNoPeer
	}
	return in.NewStream(ctx, a, h, proto, ver, name)
}
func (s *switchStreamer) NewRelayStream(ctx context.Context, a boson.Address, h p2p.Headers, proto, ver, name string, mid bool) (p2p.Stream, error) {
	return nil, errNoPeer
}
func (s *switchStreamer) NewConnChainRelayStream(ctx context.Context, a boson.Address, h p2p.Headers, proto, ver, name string) (p2p.Stream, error) {
	return nil, errNoPeer
}

// openRoute is a route table in which every peer is directly connected.
type openRoute struct{}

func (openRoute) GetRoute(context.Context, boson.Address) ([]*routetab.Path, error) { return nil, nil }
func (openRoute) FindRoute(context.Context, boson.Address, ...time.Duration) ([]*routetab.Path, error) {
	return nil, nil
}
func (openRoute) DelRoute(context.Context, boson.Address) error { return nil }
func (openRoute) Connect(context.Context, boson.Address) error  { return nil }
func (openRoute) GetTargetNeighbor(context.Context, boson.Address, int) ([]boson.Address, error) {
	return nil, nil
}
func (openRoute) IsNeighbor(boson.Address) bool { return true }
func (openRoute) FindUnderlay(context.Context, boson.Address, ...time.Duration) (*aurora.Address, error) {
	return nil, errors.New("nodelite: no underlay")
}

// noChain is an oracle-chain resolver that knows no storage node for any cid.
type noChain struct{}

func (noChain) GetCid(string) []byte                                        { return nil }
func (noChain) GetNodesFromCid([]byte) []boson.Address                      { return nil }
func (noChain) GetSourceNodes(string) []boson.Address                       { return nil }
func (noChain) OnStoreMatched(boson.Address, uint64, uint64, boson.Address) {}
func (noChain) DataStoreFinished(boson.Address, uint64, uint64, []byte, chan chain.ChainResult) {
}
func (noChain) RegisterCidAndNode(context.Context, boson.Address, boson.Address) (common.Hash, error) {
	return common.Hash{}, errors.New("nodelite: no chain")
}
func (noChain) RemoveCidAndNode(context.Context, boson.Address, boson.Address) (common.Hash, error) {
	return common.Hash{}, errors.New("nodelite: no chain")
}
func (noChain) GetRegisterState(context.Context, boson.Address, boson.Address) (bool, error) {
	return false, nil
}
func (noChain) WaitForReceipt(context.Context, boson.Address, common.Hash) (*types.Receipt, error) {
	return nil, errors.New("nodelite: no chain")
}
func (noChain) API() rpc.API { return rpc.API{} }

// PutLog wraps the storer handed to the API server and records every chunk address written
// through it (ground truth "all chunks of an upload", independent of traversal).
type PutLog struct {
	storage.Storer
	mu  sync.Mutex
	log []boson.Address
}

func (p *PutLog) Put(ctx context.Context, mode storage.ModePut, chs ...boson.Chunk) ([]bool, error) {
	p.mu.Lock()
	for _, c := range chs {
		p.log = append(p.log, c.Address())
	}
	p.mu.Unlock()
	return p.Storer.Put(ctx, mode, chs...)
}

// Take returns and clears the log.
func (p *PutLog) Take() []boson.Address {
	p.mu.Lock()
	defer p.mu.Unlock()
	l := p.log
	p.log = nil
	return l
}

// ---- node ----------------------------------------------------------------------------------

// Node is one assembled node.
type Node struct {
	Addr   boson.Address
	Logger logging.Logger
	LStore *lsharness.Store
	dsn    string
	DB     *localstore.DB
	State  storage.StateStorer
	Retr   *retrieval.Service
	NS     *netstore.Store
	Fault  *faultStorer // the storer netstore reads through: n.DB behind a pass-through wrapper with an armable read fault
	Trav   traversal.Traverser
	Pin    *pinning.Service
	CI     *chunkinfo.ChunkInfo
	APICI  *apiCI // what the API server holds: CI behind a pass-through wrapper (DelFile entry hook, see DeleteHeld)
	Log    *PutLog
	API    api.Service
	Str    *switchStreamer
	peer   *Node
}

// New assembles a node with overlay address addr (any 32 bytes).
func New(addr []byte) (*Node, error) {
	var lw io.Writer = io.Discard
	lvl := logrus.Level(0)
	if os.Getenv("VH_LOG") != "" {
		lw, lvl = os.Stderr, logrus.DebugLevel
	}
	n := &Node{Addr: boson.NewAddress(addr), Logger: logging.New(lw, lvl), LStore: &lsharness.Store{}, Str: &switchStreamer{}}
	n.dsn = lsharness.Bind(n.LStore)
	db, err := localstore.New(n.dsn, addr, &localstore.Options{Driver: lsharness.DriverName, Capacity: DefaultCapacity}, n.Logger)
	if err != nil {
		return nil, err
	}
	db.VerifStopGCWorker()
	n.DB = db
	n.State, err = statestore.NewInMemoryStateStore(n.Logger)
	if err != nil {
		return nil, err
	}
	n.Retr = retrieval.New(n.Addr, n.Str, openRoute{}, db, true, n.Logger, nil, mock.NewAccounting(), subscribe.NewSubPub())
	n.Fault = &faultStorer{Storer: db}
	n.NS = netstore.New(n.Fault, n.Retr, n.Logger, n.Addr)
	n.Trav = traversal.New(n.NS)
	n.Pin = pinning.NewService(db, n.State, n.Trav)
	if err := n.startChunkInfo(); err != nil {
		return nil, err
	}
	return n, nil
}

// startChunkInfo creates a ChunkInfo over the node's state store (as pkg/node does at start-up:
// New, InitChunkInfo, then hand it to localstore, netstore, retrieval and the API).
func (n *Node) startChunkInfo() error {
	ci := chunkinfo.New(n.Addr, n.Str, n.Logger, n.Trav, n.State, n.NS, openRoute{}, noChain{}, resolverMock.NewResolver(), subscribe.NewSubPub())
	if err := ci.InitChunkInfo(); err != nil {
		return err
	}
	n.CI = ci
	n.DB.SetChunkInfo(ci)
	n.NS.SetChunkInfo(ci)
	n.Retr.Config(ci)
	n.Log = &PutLog{Storer: n.NS}
	n.APICI = &apiCI{Interface: ci}
	n.API = api.New(n.Log, resolverMock.NewResolver(), n.Addr, n.APICI, n.Trav, n.Pin, &mockauth.Auth{}, n.Logger, nil, nil, nil, noChain{}, nil, nil,
		api.Options{WsPingPeriod: 60 * time.Second})
	if n.peer != nil {
		Connect(n, n.peer)
	}
	return nil
}

// Reinit models a restart of the chunkinfo service: the in-memory tables are dropped and rebuilt
// from the state store by the real InitChunkInfo; localstore and the state store are kept.
func (n *Node) Reinit() error { return n.startChunkInfo() }

// Close releases the databases.
func (n *Node) Close() {
	_ = n.DB.Close()
	_ = n.State.Close()
	lsharness.Unbind(n.dsn)
}

// Connect joins two nodes: each node's streamer reaches the other's chunkinfo and retrieval
// protocol handlers.
func Connect(a, b *Node) {
	a.peer, b.peer = b, a
	a.Str.mu.Lock()
	a.Str.inner = &memStreamer{base: a.Addr, protocols: []p2p.ProtocolSpec{b.CI.Protocol(), b.Retr.Protocol()}}
	a.Str.mu.Unlock()
	b.Str.mu.Lock()
	b.Str.inner = &memStreamer{base: b.Addr, protocols: []p2p.ProtocolSpec{a.CI.Protocol(), a.Retr.Protocol()}}
	b.Str.mu.Unlock()
}

// Refresh re-binds the streamers to the current services of both nodes.
func (n *Node) Refresh() {
	if n.peer != nil {
		Connect(n, n.peer)
	}
}

// ---- HTTP ----------------------------------------------------------------------------------

func (n *Node) do(method, target string, hdr map[string]string, body []byte) (int, []byte) {
	var rd io.Reader
	if body != nil {
		rd = bytes.NewReader(body)
	}
	req := httptest.NewRequest(method, target, rd)
	for k, v := range hdr {
		req.Header.Set(k, v)
	}
	rec := httptest.NewRecorder()
	n.API.ServeHTTP(rec, req)
	return rec.Code, rec.Body.Bytes()
}

func refOf(body []byte) (boson.Address, error) {
	var r struct {
		Reference boson.Address `json:"reference"`
	}
	if err := json.Unmarshal(body, &r); err != nil {
		return boson.ZeroAddress, err
	}
	return r.Reference, nil
}

// Upload posts one file (POST /aurora?name=…); it returns the manifest reference and the
// addresses of all chunks the API wrote, in write order (with repetitions).
func (n *Node) Upload(name string, content []byte, pin, encrypt bool) (boson.Address, []boson.Address, int, error) {
	n.Log.Take()
	h := map[string]string{"Content-Type": "application/octet-stream"}
	if pin {
		h[api.AuroraPinHeader] = "true"
	}
	if encrypt {
		h[api.AuroraEncryptHeader] = "true"
	}
	code, body := n.do(http.MethodPost, "/aurora?name="+url.QueryEscape(name), h, content)
	written := n.Log.Take()
	if code != http.StatusCreated {
		return boson.ZeroAddress, written, code, fmt.Errorf("upload: status %d: %s", code, body)
	}
	ref, err := refOf(body)
	return ref, written, code, err
}

// UploadBytes posts raw content (POST /bytes): chunks are stored by upload mode (pinned with the
// header) but nothing is registered with chunkinfo.
func (n *Node) UploadBytes(content []byte, pin bool) (boson.Address, []boson.Address, int, error) {
	n.Log.Take()
	h := map[string]string{"Content-Type": "application/octet-stream"}
	if pin {
		h[api.AuroraPinHeader] = "true"
	}
	code, body := n.do(http.MethodPost, "/bytes", h, content)
	written := n.Log.Take()
	if code != http.StatusCreated {
		return boson.ZeroAddress, written, code, fmt.Errorf("bytes upload: status %d: %s", code, body)
	}
	ref, err := refOf(body)
	return ref, written, code, err
}

// DirFile is one file of a directory upload.
type DirFile struct {
	Path    string
	Content []byte
}

// UploadDir posts a tar collection.
func (n *Node) UploadDir(files []DirFile, pin bool) (boson.Address, []boson.Address, int, error) {
	var buf bytes.Buffer
	tw := tar.NewWriter(&buf)
	for _, f := range files {
		if err := tw.WriteHeader(&tar.Header{Name: f.Path, Mode: 0600, Size: int64(len(f.Content))}); err != nil {
			return boson.ZeroAddress, nil, 0, err
		}
		if _, err := tw.Write(f.Content); err != nil {
			return boson.ZeroAddress, nil, 0, err
		}
	}
	if err := tw.Close(); err != nil {
		return boson.ZeroAddress, nil, 0, err
	}
	n.Log.Take()
	h := map[string]string{"Content-Type": "application/x-tar", api.AuroraCollectionHeader: "true"}
	if pin {
		h[api.AuroraPinHeader] = "true"
	}
	code, body := n.do(http.MethodPost, "/aurora", h, buf.Bytes())
	written := n.Log.Take()
	if code != http.StatusCreated {
		return boson.ZeroAddress, written, code, fmt.Errorf("upload dir: status %d: %s", code, body)
	}
	ref, err := refOf(body)
	return ref, written, code, err
}

// PinRef / UnpinRef / HasPinRef / Pins / Delete drive the corresponding API endpoints and
// return the HTTP status.
func (n *Node) PinRef(ref boson.Address) int {
	c, _ := n.do(http.MethodPost, "/pins/"+ref.String(), nil, nil)
	return c
}
func (n *Node) UnpinRef(ref boson.Address) int {
	c, _ := n.do(http.MethodDelete, "/pins/"+ref.String(), nil, nil)
	return c
}
func (n *Node) HasPinRef(ref boson.Address) int {
	c, _ := n.do(http.MethodGet, "/pins/"+ref.String(), nil, nil)
	return c
}
func (n *Node) Pins() ([]string, int) {
	c, body := n.do(http.MethodGet, "/pins", nil, nil)
	var r struct {
		References []boson.Address `json:"references"`
	}
	_ = json.Unmarshal(body, &r)
	var out []string
	for _, a := range r.References {
		out = append(out, a.String())
	}
	sort.Strings(out)
	return out, c
}
func (n *Node) Delete(ref boson.Address) int {
	c, _ := n.do(http.MethodDelete, "/aurora/"+ref.String(), nil, nil)
	return c
}

// Download runs the real download handler (GET /aurora/{ref}/?targets=peer), including
// chunkinfo.Init (pyramid + discovery exchange; takes > 1 s because of Init's retry ticker).
func (n *Node) Download(ref boson.Address, targets string) (int, []byte) {
	t := "/aurora/" + ref.String() + "/"
	if targets != "" {
		t += "?targets=" + targets
	}
	return n.do(http.MethodGet, t, nil, nil)
}

// ---- reads ---------------------------------------------------------------------------------

// entryRef resolves the index document of a single-file manifest (what the download handler
// serves for an empty path) or the given path of a directory manifest.
func entryRef(ctx context.Context, g storage.Storer, mode storage.ModeGet, root boson.Address, path string) (boson.Address, error) {
	m, err := manifest.NewDefaultManifestReference(root, loadsave.NewReadonly(g, mode))
	if err != nil {
		return boson.ZeroAddress, err
	}
	if path == "" {
		me, err := m.Lookup(ctx, manifest.RootPath)
		if err != nil {
			return boson.ZeroAddress, err
		}
		idx, ok := me.Metadata()[manifest.WebsiteIndexDocumentSuffixKey]
		if !ok {
			return boson.ZeroAddress, errors.New("nodelite: manifest has no index document")
		}
		path = idx
	}
	e, err := m.Lookup(ctx, path)
	if err != nil {
		return boson.ZeroAddress, err
	}
	return e.Reference(), nil
}

// ReadLocal reads one file of a manifest back through the joiner from the LOCAL store only (no
// root context, so nothing is fetched from the network and no bookkeeping is touched:
// ModeGetLookup).  path "" = the index document of a single-file manifest.
func (n *Node) ReadLocal(root boson.Address, path string) ([]byte, error) {
	ctx := context.Background()
	ref, err := entryRef(ctx, n.DB, storage.ModeGetLookup, root, path)
	if err != nil {
		return nil, err
	}
	j, _, err := joiner.New(ctx, n.DB, storage.ModeGetLookup, ref)
	if err != nil {
		return nil, err
	}
	return io.ReadAll(j)
}

// FetchPyramid makes the node learn the pyramid of root from the peer through the real pyramid
// exchange of chunkinfo.Init (doFindChunkPyramid -> peer's handlerPyramid -> onChunkPyramidResp,
// which verifies the pyramid, stores its chunks under the root context and registers it).  Init
// itself would additionally sit in its 1 s retry ticker before the discovery exchange, so the
// exchange is entered through the verif hook VerifFindPyramid; the full Init path is exercised
// by Download.
func (n *Node) FetchPyramid(root boson.Address) error {
	if n.peer == nil {
		return errNoPeer
	}
	ctx := sctx.SetTargets(sctx.SetRootHash(context.Background(), root), n.peer.Addr.String())
	return n.CI.VerifFindPyramid(ctx, root, n.peer.Addr)
}

// getLog records the addresses a reader asks the netstore for, in order.
type getLog struct {
	storage.Storer
	mu  sync.Mutex
	log []boson.Address
}

func (g *getLog) Get(ctx context.Context, mode storage.ModeGet, addr boson.Address) (boson.Chunk, error) {
	g.mu.Lock()
	g.log = append(g.log, addr)
	g.mu.Unlock()
	return g.Storer.Get(ctx, mode, addr)
}

// FetchChunks reads data through the netstore under the file's root context with the peer as
// retrieval target, exactly as the download handler does after Init: manifest lookup with
// ModeGetRequest, then a joiner over the entry.  Only the byte ranges [from,to) given are read
// (a partial download).  Returns the bytes read per range and the chunk addresses the manifest
// lookup and the joiner asked the netstore for, in order.
func (n *Node) FetchChunks(root boson.Address, path string, ranges [][2]int64) ([][]byte, []boson.Address, error) {
	if n.peer == nil {
		return nil, nil, errNoPeer
	}
	g := &getLog{Storer: n.NS}
	ctx := sctx.SetTargets(sctx.SetRootHash(context.Background(), root), n.peer.Addr.String())
	ref, err := entryRef(ctx, g, storage.ModeGetRequest, root, path)
	if err != nil {
		return nil, g.log, err
	}
	j, size, err := joiner.New(ctx, g, storage.ModeGetRequest, ref)
	if err != nil {
		return nil, g.log, err
	}
	var out [][]byte
	for _, r := range ranges {
		from, to := r[0], r[1]
		if to > size {
			to = size
		}
		if from >= to {
			out = append(out, nil)
			continue
		}
		buf := make([]byte, to-from)
		if _, err := j.ReadAt(buf, from); err != nil && err != io.EOF {
			return out, g.log, err
		}
		out = append(out, buf)
	}
	g.mu.Lock()
	defer g.mu.Unlock()
	return out, g.log, nil
}

// GetUnderRoot reads one chunk through the netstore with root as file context (what every
// joiner / manifest read of a download or pin traversal does).
func (n *Node) GetUnderRoot(root, addr boson.Address, mode storage.ModeGet) error {
	_, err := n.NS.Get(sctx.SetRootHash(context.Background(), root), mode, addr)
	return err
}

// errInjectedRead is what the fault-injecting storer answers for the armed address: any error that is not
// storage.ErrNotFound (an I/O error, a closed database, a cancelled context ... look the same to netstore).
var errInjectedRead = errors.New("verif: injected read fault")

// faultStorer is the storer handed to netstore.New: localstore behind a pass-through wrapper.  While an
// address is armed, Get of exactly that address fails with errInjectedRead without reaching localstore
// (no access-time update, no gc index change); everything else is forwarded unchanged.
type faultStorer struct {
	storage.Storer
	mu    sync.Mutex
	armed boson.Address // zero = no fault
	hits  int
}

func (f *faultStorer) Get(ctx context.Context, mode storage.ModeGet, addr boson.Address) (boson.Chunk, error) {
	f.mu.Lock()
	hit := !f.armed.IsZero() && f.armed.Equal(addr)
	if hit {
		f.hits++
	}
	f.mu.Unlock()
	if hit {
		return nil, errInjectedRead
	}
	return f.Storer.Get(ctx, mode, addr)
}

// GetFaultUnderRoot is GetUnderRoot while the local read of exactly addr fails with a non-not-found error.
// It returns netstore's error and how often the armed read was hit (at least once: the local read netstore.Get starts with).
func (n *Node) GetFaultUnderRoot(root, addr boson.Address, mode storage.ModeGet) (error, int) {
	f := n.Fault
	f.mu.Lock()
	f.armed, f.hits = addr, 0
	f.mu.Unlock()
	defer func() {
		f.mu.Lock()
		f.armed = boson.ZeroAddress
		f.mu.Unlock()
	}()
	_, err := n.NS.Get(sctx.SetRootHash(context.Background(), root), mode, addr)
	f.mu.Lock()
	hits := f.hits
	f.mu.Unlock()
	return err, hits
}

// AskChunkInfo sends the chunk-info request the node's discovery queue would send for root to
// the peer; the peer's real handler answers through its streamer into this node's
// handlerChunkInfoResp, which records the peer's availability in the discover table.
func (n *Node) AskChunkInfo(root boson.Address) error {
	if n.peer == nil {
		return errNoPeer
	}
	before := len(n.CI.GetChunkInfoDiscoverOverlays(root))
	ctx, cancel := context.WithTimeout(context.Background(), 2*time.Second)
	defer cancel()
	st, err := n.Str.NewStream(ctx, n.peer.Addr, nil, "chunkinfo", "2.0.0", "chunkinforeq")
	if err != nil {
		return err
	}
	w := protobuf.NewWriter(st)
	if err := w.WriteMsgWithContext(ctx, &cipb.ChunkInfoReq{RootCid: root.Bytes(), Target: n.peer.Addr.Bytes(), Req: n.Addr.Bytes()}); err != nil {
		return err
	}
	_ = st.Close()
	// the answer arrives asynchronously (two handler goroutines); wait until it is recorded
	deadline := time.Now().Add(2 * time.Second)
	for time.Now().Before(deadline) {
		if len(n.CI.GetChunkInfoDiscoverOverlays(root)) > before {
			return nil
		}
		time.Sleep(200 * time.Microsecond)
	}
	if before > 0 {
		return nil
	}
	return errors.New("nodelite: no chunk info answer")
}

// ServeToPeer makes the peer P ask THIS node for one chunk of the file root, with this node as
// target: the request P's retrieval service sends (pb.RequestChunk over the "retrieval" stream), opened
// on P's streamer and answered by this node's real retrieval handler — local Get(ModeGetRequest),
// delivery, accounting debit, then chunkinfo.OnChunkTransferred(cid, root, P, self), which creates /
// updates the availability record this node keeps for P (memory + `chunk-<root>-<P>` in the state store).
// The delivered bytes are returned; the call returns after the handler has finished.
func (n *Node) ServeToPeer(root, addr boson.Address) ([]byte, error) {
	if n.peer == nil {
		return nil, errNoPeer
	}
	ms, ok := n.peer.Str.get().(*memStreamer)
	if !ok {
		return nil, errNoPeer
	}
	ctx, cancel := context.WithTimeout(context.Background(), 5*time.Second)
	defer cancel()
	st, err := ms.NewStream(ctx, n.Addr, nil, "retrieval", "1.0.0", "retrieval")
	if err != nil {
		return nil, err
	}
	w, r := protobuf.NewWriterAndReader(st)
	if err := w.WriteMsgWithContext(ctx, &rpb.RequestChunk{TargetAddr: n.Addr.Bytes(), RootAddr: root.Bytes(), ChunkAddr: addr.Bytes()}); err != nil {
		_ = st.Reset()
		return nil, err
	}
	var d rpb.Delivery
	rerr := r.ReadMsgWithContext(ctx, &d)
	_ = st.Close()
	ms.Wait() // the handler reports the transfer to chunkinfo AFTER the delivery was written
	if rerr != nil {
		return nil, rerr
	}
	return d.Data, nil
}

// apiCI is the chunkinfo.Interface the API server is built with: everything is passed on to the real
// ChunkInfo.  A one-shot hook can be armed for the NEXT DelFile call: it runs at the entry of that call,
// before it is forwarded (i.e. before the real DelFile takes chunkinfo's syncLk).  A DELETE handler that
// is held there has done everything it does before DelFile and nothing of what happens under the lock;
// whatever the hook runs to completion meanwhile is an operation overlapping with that delete.
type apiCI struct {
	chunkinfo.Interface
	mu   sync.Mutex
	hook func(root boson.Address)
}

func (a *apiCI) DelFile(root boson.Address, del func() error) error {
	a.mu.Lock()
	h := a.hook
	a.hook = nil
	a.mu.Unlock()
	if h != nil {
		h(root)
	}
	return a.Interface.DelFile(root, del)
}

// DeleteHeld is Delete(ref) with `during` executed while the DELETE handler is held at the entry of
// ChunkInfo.DelFile.  fired tells whether the handler got that far.
func (n *Node) DeleteHeld(ref boson.Address, during func()) (code int, fired bool) {
	n.APICI.mu.Lock()
	n.APICI.hook = func(root boson.Address) {
		if root.Equal(ref) {
			fired = true
			during()
		}
	}
	n.APICI.mu.Unlock()
	code = n.Delete(ref)
	n.APICI.mu.Lock()
	n.APICI.hook = nil
	n.APICI.mu.Unlock()
	return code, fired
}

// raceCI is the chunkinfo.Interface handed to the localstore during a scripted collection run: it
// passes everything on to the real ChunkInfo and watches the DelFile calls of the FIRST run: if they are
// for exactly the roots in expect, in that order, the hook runs inside the last of these calls, before it
// is forwarded.  With one root that is the first DelFile call of the collection: collectGarbage has
// selected its candidates and is about to evict this one — it has entered DelFile but the deletion
// callback (which takes batchMu and re-checks the dirty addresses) has not run yet — so whatever the hook
// does is an access racing with the eviction of exactly this candidate.  With two roots the hook runs in
// the window of the second candidate, i.e. AFTER the callback of the first one has decided that file's
// deletions and BEFORE the run commits its batch.
type raceCI struct {
	chunkinfo.Interface
	expect []boson.Address
	hook   func()
	seen   int
	armed  bool
	fired  bool
}

func (r *raceCI) DelFile(root boson.Address, del func() error) error {
	if r.armed {
		if r.seen < len(r.expect) && root.Equal(r.expect[r.seen]) {
			r.seen++
			if r.seen == len(r.expect) {
				r.armed, r.fired = false, true
				r.hook()
			}
		} else {
			r.armed = false
		}
	}
	return r.Interface.DelFile(root, del)
}

// CollectGarbageRace is CollectGarbage with a scripted racing access: if the first len(expect) DelFile
// calls of the first run are for expect, hook is executed (on the collecting goroutine, no lock held)
// inside the last of them before it is forwarded.  fired tells whether that happened.
func (n *Node) CollectGarbageRace(capacity uint64, expect []boson.Address, hook func()) (runs int, collected uint64, fired bool, err error) {
	w := &raceCI{Interface: n.CI, expect: expect, hook: hook, armed: len(expect) > 0}
	n.DB.SetChunkInfo(w)
	defer n.DB.SetChunkInfo(n.CI)
	n.DB.VerifSetCapacity(capacity)
	for runs < 8 {
		c, done, e := n.DB.VerifCollectGarbage()
		w.armed = false // only the first run is scripted
		runs++
		collected += c
		if e != nil {
			return runs, collected, w.fired, e
		}
		if done {
			break
		}
	}
	n.DB.VerifTakeGCTrigger()
	return runs, collected, w.fired, nil
}

// CollectGarbage sets the capacity and runs collection synchronously until a run reports done
// (at most 8 runs).  It returns the number of runs, the total collected count and the last error.
func (n *Node) CollectGarbage(capacity uint64) (runs int, collected uint64, err error) {
	n.DB.VerifSetCapacity(capacity)
	for runs < 8 {
		c, done, e := n.DB.VerifCollectGarbage()
		runs++
		collected += c
		if e != nil {
			return runs, collected, e
		}
		if done {
			break
		}
	}
	n.DB.VerifTakeGCTrigger()
	return runs, collected, nil
}

// Quiesce waits for the localstore's background access-time updates.
func (n *Node) Quiesce() { n.DB.VerifWaitUpdateGC() }

// StateKeys lists the state-store keys with the given prefix.
func (n *Node) StateKeys(prefix string) []string {
	var out []string
	_ = n.State.Iterate(prefix, func(k, _ []byte) (bool, error) {
		out = append(out, string(k))
		return false, nil
	})
	sort.Strings(out)
	return out
}
