import Aurora.Lemmas.Depth
/-!
# C22 — Neighbourhood depth is consistent with the peer set

Theorems about `Aurora.Topo.recalcDepth` (Model/Depth.lean), the transcription of
`kademlia.recalcDepth` after the two `fix:` commits.  `bins : List (List Bool)` is the connected
`PSlice` (bin by bin, slice order) with one reachability flag per peer; all statements hold for
every bin list (any number of bins, any sizes), every radius and every threshold record `p`.
-/
namespace Aurora.Props.C22
open Aurora.Topo

/-- clause "never exceeds the radius" -/
theorem C22_depth_le_radius (p : Params) (bins : Bins) (radius : Nat) :
    recalcDepth p bins radius ≤ radius :=
  recalcDepth_le_radius p bins radius

/-- clause "is zero when at most three (`nnLowWatermark`) peers are connected" -/
theorem C22_depth_zero_small (p : Params) (bins : Bins) (radius : Nat)
    (h : binsLength bins ≤ p.nnLow) : recalcDepth p bins radius = 0 := by
  unfold recalcDepth; simp [h]

/-- clause "when positive leaves at least three reachable peers at or beyond it":
`reachFrom bins d` counts the reachable peers in bins `≥ d`. -/
theorem C22_depth_leaves_nn (p : Params) (bins : Bins) (radius : Nat)
    (h : 0 < recalcDepth p bins radius) :
    p.nnLow ≤ reachFrom bins (recalcDepth p bins radius) := by
  have hc := recalcDepth_le_cand p bins radius
  have := candOf_spec p.nnLow bins (by omega)
  exact Nat.le_trans this (reachFrom_anti bins hc)

/-- clause "never exceeds the shallowest empty bin" (stated for every empty bin `e`) -/
theorem C22_depth_le_empty_bin (p : Params) (bins : Bins) (radius : Nat) (e : Nat)
    (he : e < bins.length) (hb : bins.getD e [] = []) : recalcDepth p bins radius ≤ e :=
  Nat.le_trans (recalcDepth_le_su p bins radius) (suOf_le_empty p.quick bins e he hb)

/-- clause "every shallower bin holds at least the quick-saturation number of reachable peers"
(this is the clause the unchanged code violated; `reachIn bins b` = reachable peers of bin `b`) -/
theorem C22_shallower_bins_saturated (p : Params) (bins : Bins) (radius : Nat) (b : Nat)
    (hb : b < recalcDepth p bins radius) : p.quick ≤ reachIn bins b :=
  suOf_saturated p.quick bins b (Nat.lt_of_lt_of_le hb (recalcDepth_le_su p bins radius))

/-- clause "depends only on the current set": the depth is a function of the per-bin
(reachable, total) counts -/
theorem C22_depth_depends_on_counts (p : Params) (bins bins' : Bins) (radius : Nat)
    (h : bins.map binSummary = bins'.map binSummary) :
    recalcDepth p bins radius = recalcDepth p bins' radius :=
  recalcDepth_congr p bins bins' radius h

/-- clause "not on the order of connections": connection / disconnection order only decides the
slice order inside each bin; any bin-wise permutation gives the same depth -/
theorem C22_depth_order_independent (p : Params) (bins bins' : Bins) (radius : Nat)
    (h : BinsPerm bins bins') : recalcDepth p bins radius = recalcDepth p bins' radius :=
  recalcDepth_congr p bins bins' radius (summary_of_perm bins bins' h)

/-- the thresholds the node really runs with (source initialisers regenerated from /repo, then
`kademlia.New`'s derivation from `Options.BinMaxPeers`): the watermark is the "three" of the
statement and the quick-saturation number is positive, so the saturation clause says something. -/
theorem C22_thresholds (binMax : Nat) :
    (Params.default.withBinMax binMax).nnLow = 3 ∧ 0 < (Params.default.withBinMax binMax).quick := by
  have hn : Params.default.nnLow = 3 := by decide
  have hq : 0 < Params.default.quick := by decide
  unfold Params.withBinMax
  split
  · refine ⟨hn, ?_⟩
    show 0 < _ / 5
    split <;> split <;> omega
  · exact ⟨hn, hq⟩

/-! ### non-vacuity / regression examples (thresholds 3 / 4) -/

private def r (n : Nat) : List Bool := List.replicate n true
private def u (n : Nat) : List Bool := List.replicate n false

/-- DESIGN §7: bins 0:4 reachable, 1:1 unreachable, 2:4 reachable, 3:3 reachable.  The unchanged
code answered 3; bin 1 holds no reachable peer, so the depth is 1. -/
example : recalcDepth Params.default [r 4, u 1, r 4, r 3] 31 = 1 := by decide
example : recalcDepth Params.default [r 4, r 4, r 4, r 3] 31 = 3 := by decide
example : recalcDepth Params.default [r 4, r 4, r 4, r 3] 2 = 2 := by decide
example : recalcDepth Params.default [r 4, r 4, [], r 3] 31 = 2 := by decide
example : recalcDepth Params.default [r 1, r 1, r 1] 31 = 0 := by decide
/-- hypotheses of `C22_depth_leaves_nn` / `C22_shallower_bins_saturated` are satisfiable -/
example : 0 < recalcDepth Params.default [r 4, r 4 ++ u 2, r 2 ++ u 1 ++ r 1] 31 := by decide
/-- hypothesis of `C22_depth_le_empty_bin` -/
example : (2 : Nat) < [r 4, r 4, [], r 3].length ∧ [r 4, r 4, [], r 3].getD 2 [] = [] := by decide
/-- hypothesis of `C22_depth_order_independent` -/
example : BinsPerm [[true, false], [false, true, true]] [[false, true], [true, true, false]] :=
  .cons (List.Perm.swap _ _ _) (.cons (by decide) .nil)

end Aurora.Props.C22
