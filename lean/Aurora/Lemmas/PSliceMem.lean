import Aurora.Model.PSliceMem
/-! Snapshot isolation for the backing-array model (core Lean only). -/
namespace Aurora.PSliceMem
open Aurora.PSlice (Addr)

/-- the snapshot `h` stays readable: its array exists and every bin that currently uses the same
    array has at least `h.len` elements (so in-place appends land at or after index `h.len`). -/
def Stable (m : Mem) (h : Hdr) : Prop :=
  h.arr < m.heap.length ∧
  ∀ j, j < m.bins.length → (hdr m j).arr = h.arr → h.len ≤ (hdr m j).len

/-- representation invariant of the memory: headers point into the heap, `len ≤ cap ≤` array
    size, and two bins share an array only if both have capacity 0 (nil slices). -/
structure WF (m : Mem) : Prop where
  inheap : ∀ j, j < m.bins.length → (hdr m j).arr < m.heap.length
  lencap : ∀ j, j < m.bins.length → (hdr m j).len ≤ (hdr m j).cap
  capsz : ∀ j, j < m.bins.length → (hdr m j).cap ≤ (cells m (hdr m j).arr).length
  noalias : ∀ j k, j < m.bins.length → k < m.bins.length → j ≠ k →
    (hdr m j).arr = (hdr m k).arr → (hdr m j).cap = 0 ∧ (hdr m k).cap = 0

theorem hdr_set (m : Mem) (heap' : List (List Addr)) (i : Nat) (h : Hdr) (j : Nat) :
    hdr ⟨heap', m.bins.set i h⟩ j = if j = i ∧ i < m.bins.length then h else hdr m j := by
  unfold hdr
  simp only [List.getElem?_set]
  by_cases e : i = j
  · subst e
    by_cases hl : i < m.bins.length <;> simp [hl]
  · have : ¬ j = i := fun h' => e h'.symm
    simp [e, this]

theorem cells_append (m : Mem) (x : List Addr) (bins : List Hdr) (id : Nat) (h : id < m.heap.length) :
    cells ⟨m.heap ++ [x], bins⟩ id = cells m id := by
  unfold cells
  simp [List.getElem?_append_left h]

/-- one primitive write: a stable snapshot reads the same and stays stable -/
theorem step_isolated (m : Mem) (h : Hdr) (hs : Stable m h) (p : Prim) :
    read (step m p) h = read m h ∧ Stable (step m p) h := by
  obtain ⟨harr, hlen⟩ := hs
  cases p with
  | write i a =>
    unfold step
    simp only
    by_cases hc : (hdr m i).len < (hdr m i).cap
    · rw [if_pos hc]
      have hi : i < m.bins.length := by
        apply Classical.byContradiction; intro hn
        have : hdr m i = ⟨0, 0, 0⟩ := by unfold hdr; rw [List.getElem?_eq_none (by omega)]; rfl
        rw [this] at hc; simp at hc
      constructor
      · unfold read cells
        simp only [List.getElem?_set]
        by_cases e : (hdr m i).arr = h.arr
        · have hle := hlen i hi e
          rw [e]
          simp only [harr, if_true, Option.getD_some]
          have : (cells m h.arr) = m.heap[h.arr]?.getD [] := rfl
          rw [← e] at this ⊢
          apply List.ext_getElem?
          intro n
          simp only [List.getElem?_take]
          by_cases hn : n < h.len
          · simp only [hn, if_true]
            rw [List.getElem?_set_ne (by omega)]
          · simp [hn]
        · simp [e]
      · refine ⟨by simpa using harr, ?_⟩
        intro j hj
        have hj' : j < m.bins.length := by simpa using hj
        rw [hdr_set m]
        by_cases e : j = i ∧ i < m.bins.length
        · rw [if_pos e]
          simp only
          intro ha
          have := hlen i hi ha
          omega
        · rw [if_neg e]; exact hlen j hj'
    · rw [if_neg hc]; exact ⟨rfl, harr, hlen⟩
  | realloc i content len cap =>
    simp only [step]
    by_cases hc : len ≤ cap ∧ cap ≤ content.length
    · rw [if_pos hc]
      constructor
      · unfold read
        rw [cells_append m content _ h.arr harr]
      · refine ⟨by simp; omega, ?_⟩
        intro j hj
        have hj' : j < m.bins.length := by simpa using hj
        rw [hdr_set m]
        by_cases e : j = i ∧ i < m.bins.length
        · rw [if_pos e]; simp only; intro ha; omega
        · rw [if_neg e]; exact hlen j hj'
    · rw [if_neg hc]; exact ⟨rfl, harr, hlen⟩

/-- a header read from a well-formed memory is a stable snapshot -/
theorem stable_of_wf (m : Mem) (hw : WF m) (i : Nat) (hi : i < m.bins.length) : Stable m (hdr m i) := by
  refine ⟨hw.inheap i hi, ?_⟩
  intro j hj e
  by_cases hji : j = i
  · subst hji; exact Nat.le_refl _
  · have := hw.noalias j i hj hi hji e
    have := hw.lencap i hi
    omega

theorem run_isolated : ∀ (ps : List Prim) (m : Mem) (h : Hdr), Stable m h → read (run m ps) h = read m h := by
  intro ps
  induction ps with
  | nil => intro m h _; rfl
  | cons p ps ih =>
    intro m h hs
    obtain ⟨h1, h2⟩ := step_isolated m h hs p
    show read (run (step m p) ps) h = read m h
    rw [ih (step m p) h h2, h1]

theorem wf_init (n : Nat) : WF (init n) := by
  have hh : ∀ j, hdr (init n) j = ⟨0, 0, 0⟩ := by
    intro j; unfold hdr init; simp only [List.getElem?_replicate]; split <;> rfl
  refine ⟨?_, ?_, ?_, ?_⟩
  · intro j _; rw [hh]; simp [init]
  · intro j _; rw [hh]; exact Nat.le_refl _
  · intro j _; rw [hh]; exact Nat.zero_le _
  · intro j k _ _ _ _; rw [hh, hh]; exact ⟨rfl, rfl⟩


theorem cells_write_length (m : Mem) (bins : List Hdr) (arr idx : Nat) (a : Addr) (id : Nat) :
    (cells ⟨m.heap.set arr ((cells m arr).set idx a), bins⟩ id).length = (cells m id).length := by
  unfold cells
  simp only [List.getElem?_set]
  by_cases e : arr = id
  · subst e
    by_cases hl : arr < m.heap.length <;> simp [hl]
  · simp [e]

/-- every primitive write keeps the memory well formed, so a header read at *any* later time is
    again a stable snapshot -/
theorem wf_step (m : Mem) (hw : WF m) (p : Prim) : WF (step m p) := by
  cases p with
  | write i a =>
    simp only [step]
    by_cases hc : (hdr m i).len < (hdr m i).cap
    · rw [if_pos hc]
      have hi : i < m.bins.length := by
        apply Classical.byContradiction; intro hn
        have : hdr m i = ⟨0, 0, 0⟩ := by unfold hdr; rw [List.getElem?_eq_none (by omega)]; rfl
        rw [this] at hc; simp at hc
      have hh := hdr_set m (m.heap.set (hdr m i).arr ((cells m (hdr m i).arr).set (hdr m i).len a)) i
        { hdr m i with len := (hdr m i).len + 1 }
      refine ⟨?_, ?_, ?_, ?_⟩
      · intro j hj
        have hj' : j < m.bins.length := by simpa using hj
        rw [hh j]; simp only [List.length_set]
        split
        · exact hw.inheap i hi
        · exact hw.inheap j hj'
      · intro j hj
        have hj' : j < m.bins.length := by simpa using hj
        rw [hh j]
        split
        · simp only; omega
        · exact hw.lencap j hj'
      · intro j hj
        have hj' : j < m.bins.length := by simpa using hj
        rw [cells_write_length, hh j]
        split
        · exact hw.capsz i hi
        · exact hw.capsz j hj'
      · intro j k hj hk hjk
        have hj' : j < m.bins.length := by simpa using hj
        have hk' : k < m.bins.length := by simpa using hk
        rw [hh j, hh k]
        have key := hw.noalias j k hj' hk' hjk
        by_cases ej : j = i ∧ i < m.bins.length
        · have nk : ¬ (k = i ∧ i < m.bins.length) := fun h => hjk (by omega)
          rw [if_pos ej, if_neg nk]; simp only
          have : j = i := ej.1
          subst this; exact key
        · by_cases ek : k = i ∧ i < m.bins.length
          · rw [if_neg ej, if_pos ek]; simp only
            have : k = i := ek.1
            subst this; exact key
          · rw [if_neg ej, if_neg ek]; exact key
    · rw [if_neg hc]; exact hw
  | realloc i content len cap =>
    simp only [step]
    by_cases hc : len ≤ cap ∧ cap ≤ content.length
    · rw [if_pos hc]
      have hh := hdr_set m (m.heap ++ [content]) i ⟨m.heap.length, len, cap⟩
      have hnew : cells ⟨m.heap ++ [content], m.bins.set i ⟨m.heap.length, len, cap⟩⟩ m.heap.length = content := by
        unfold cells; simp
      refine ⟨?_, ?_, ?_, ?_⟩
      · intro j hj
        have hj' : j < m.bins.length := by simpa using hj
        rw [hh j]; simp only [List.length_append, List.length_singleton]
        split
        · simp
        · have := hw.inheap j hj'; omega
      · intro j hj
        have hj' : j < m.bins.length := by simpa using hj
        rw [hh j]
        split
        · exact hc.1
        · exact hw.lencap j hj'
      · intro j hj
        have hj' : j < m.bins.length := by simpa using hj
        rw [hh j]
        split
        · simp only; rw [hnew]; exact hc.2
        · rw [cells_append m content _ _ (hw.inheap j hj')]; exact hw.capsz j hj'
      · intro j k hj hk hjk
        have hj' : j < m.bins.length := by simpa using hj
        have hk' : k < m.bins.length := by simpa using hk
        rw [hh j, hh k]
        by_cases ej : j = i ∧ i < m.bins.length
        · have nk : ¬ (k = i ∧ i < m.bins.length) := fun h => hjk (by omega)
          rw [if_pos ej, if_neg nk]; simp only
          intro e; have := hw.inheap k hk'; omega
        · by_cases ek : k = i ∧ i < m.bins.length
          · rw [if_neg ej, if_pos ek]; simp only
            intro e; have := hw.inheap j hj'; omega
          · rw [if_neg ej, if_neg ek]; exact hw.noalias j k hj' hk' hjk
    · rw [if_neg hc]; exact hw

theorem wf_run : ∀ (ps : List Prim) (m : Mem), WF m → WF (run m ps) := by
  intro ps
  induction ps with
  | nil => intro m h; exact h
  | cons p ps ih => intro m h; exact ih (step m p) (wf_step m h p)

theorem bins_length_step (m : Mem) (p : Prim) : (step m p).bins.length = m.bins.length := by
  cases p with
  | write i a => simp only [step]; split <;> simp
  | realloc i c l k => simp only [step]; split <;> simp

theorem bins_length_run : ∀ (ps : List Prim) (m : Mem), (run m ps).bins.length = m.bins.length := by
  intro ps
  induction ps with
  | nil => intro m; rfl
  | cons p ps ih => intro m; show (run (step m p) ps).bins.length = _; rw [ih, bins_length_step]

end Aurora.PSliceMem
