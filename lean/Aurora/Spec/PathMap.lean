import Aurora.Model.Mantaray
/-!
# Specification of a directory manifest: an association list from paths to (reference, metadata)

`specStep` is what the property asks of every operation of `manifest.Interface`: `add` maps the
path to the new entry (replacing reference *and* metadata), `remove` deletes exactly that path,
`store` makes the current mapping the persistent one, `reload` (a manifest opened from the last
stored address) shows the persistent mapping, `lookup` reads the mapping, `hasPrefix q` says whether
some mapped path starts with `q` (the empty prefix always exists).
-/
namespace Aurora.Mantaray

abbrev PathMap := List (Bytes × (Bytes × Meta))

def PathMap.find (m : PathMap) (p : Bytes) : Option (Bytes × Meta) :=
  match List.find? (fun x => x.1 == p) m with
  | some x => some x.2
  | none => none

def PathMap.erase (m : PathMap) (p : Bytes) : PathMap := m.filter (fun x => !(x.1 == p))

def PathMap.insert (m : PathMap) (p : Bytes) (v : Bytes × Meta) : PathMap := (p, v) :: m.erase p

def PathMap.hasPrefix (m : PathMap) (q : Bytes) : Bool := q.isEmpty || m.any (fun x => isPrefix q x.1)

structure Spec where
  cur : PathMap := []
  snap : Option PathMap := none

def specStep (s : Spec) : Op → Spec × Out
  | .add p e md => ({ s with cur := s.cur.insert p (e, md) }, .ok)
  | .remove p =>
    if p.isEmpty then (s, .err)
    else match s.cur.find p with
      | some _ => ({ s with cur := s.cur.erase p }, .ok)
      | none => (s, .notFound)
  | .store => ({ s with snap := some s.cur }, .ok)
  | .reload =>
    match s.snap with
    | some m => ({ s with cur := m }, .ok)
    | none => (s, .noStore)
  | .lookup p =>
    (s, match s.cur.find p with | some (e, md) => .found e md | none => .notFound)
  | .hasPrefix q => (s, .bool (s.cur.hasPrefix q))

def specRun (s : Spec) : List Op → List Out
  | [] => []
  | op :: rest => let r := specStep s op; r.2 :: specRun r.1 rest

end Aurora.Mantaray
