// Package c30: correspondence + oracle for "cheques are credited once and to the right peer"
// (traffic.Service.ReceiveCheque over the real cheque store with real secp256k1 signatures).
package c30

import (
	"context"
	"fmt"
	"math/big"
	"sort"
	"strconv"
	"strings"

	"github.com/gauss-project/aurorafs/pkg/settlement/traffic"
	chequePkg "github.com/gauss-project/aurorafs/pkg/settlement/traffic/cheque"

	"verifharness/core"
	"verifharness/settle"
)

type prop struct{}

func init() { core.Register(prop{}) }

func (prop) ID() string { return "C30" }
func (prop) Rule() string {
	return "cases: 3 peers (ids 0-2) registered with chain addresses 1-3 (keys), then 6-40 ops: cheques delivered through Service.ReceiveCheque " +
		"(valid increasing, replay of an earlier line, equal, decreasing, wrong recipient, wrong signer, corrupted/truncated/empty signature, " +
		"validly signed by registered issuer B but delivered by peer A, signed by an unregistered key, delivered by an unregistered peer, huge amounts), " +
		"direct ChequeStore.ReceiveCheque calls, LastReceivedCheque and TrafficCheques observations, rare re-registration; fixed regression cases " +
		"fix-foreign-issuer* first. Non-trivial: >=1 valid cheque, >=1 adversarial cheque and >=1 observation; distinct by op-list hash."
}

const (
	nPeers = 5  // peer ids 0..4 (3,4 normally unregistered)
	nAddrs = 16 // chain address ids 0..15 (0 = this node, 0..7 have keys)
)

func (prop) Gen(r *core.Rand, tier string) []core.Case {
	n := 300
	if tier == "thorough" {
		n = 6000
	}
	cs := []core.Case{
		{ID: "fix-foreign-issuer", NT: true, Ops: []string{"reg 0 1", "reg 1 2", "recv 0 2 0 77 2 0", "cheques", "last 0", "last 1"}},
		{ID: "fix-foreign-issuer-then-own", NT: true, Ops: []string{"reg 0 1", "reg 1 2", "recv 1 2 0 50 2 0", "recv 0 2 0 77 2 0", "recv 0 1 0 10 1 0", "cheques", "last 0", "last 1"}},
		{ID: "fix-wrong-recipient-own-issuer", NT: true, Ops: []string{"reg 0 1", "recv 0 1 5 10 1 0", "cheques", "last 0"}},
		{ID: "fix-replay-reorder", NT: true, Ops: []string{"reg 0 1", "recv 0 1 0 10 1 0", "recv 0 1 0 30 1 0", "recv 0 1 0 10 1 0", "recv 0 1 0 30 1 0", "recv 0 1 0 20 1 0", "cheques", "last 0"}},
	}
	for i := 0; i < n; i++ {
		c := core.Case{ID: fmt.Sprintf("g%d", i)}
		last := map[int]*big.Int{}
		for p := 0; p < 3; p++ {
			c.Ops = append(c.Ops, fmt.Sprintf("reg %d %d", p, p+1))
		}
		fwd := map[int]int{0: 1, 1: 2, 2: 3}
		var sent []string
		valid, adv, obs := 0, 0, 0
		nops := r.Range(6, 40)
		cumOf := func(a int) *big.Int {
			if v, ok := last[a]; ok {
				return v
			}
			return big.NewInt(0)
		}
		for k := 0; k < nops; k++ {
			p := r.Intn(3)
			a := fwd[p]
			verb := "recv " + strconv.Itoa(p) + " "
			if r.Chance(12) {
				verb = "srecv "
			}
			line := func(ben, rcp int, cum *big.Int, signer, mut int) string {
				return fmt.Sprintf("%s%d %d %s %d %d", verb, ben, rcp, cum.String(), signer, mut)
			}
			inc := big.NewInt(int64(r.Range(1, 50)))
			if r.Chance(5) {
				inc = new(big.Int).Lsh(big.NewInt(int64(r.Range(1, 9))), uint(r.Range(60, 90)))
			}
			switch r.Intn(20) {
			case 0, 1, 2, 3, 4, 5, 6: // valid, increasing
				cum := new(big.Int).Add(cumOf(a), inc)
				l := line(a, 0, cum, a, 0)
				last[a] = cum
				sent = append(sent, l)
				c.Ops = append(c.Ops, l)
				valid++
			case 7: // replay of an earlier line (possibly through another peer: the line is kept as is)
				if len(sent) > 0 {
					c.Ops = append(c.Ops, sent[r.Intn(len(sent))])
					adv++
				}
			case 8: // equal / decreasing
				cum := new(big.Int).Sub(cumOf(a), big.NewInt(int64(r.Intn(3))))
				if cum.Sign() < 0 {
					cum = big.NewInt(0)
				}
				c.Ops = append(c.Ops, line(a, 0, cum, a, 0))
				adv++
			case 9: // wrong recipient
				c.Ops = append(c.Ops, line(a, r.Pick([]int{4, 5, 1, 2}), new(big.Int).Add(cumOf(a), inc), a, 0))
				adv++
			case 10: // wrong signer
				s := r.Pick([]int{0, 1, 2, 3, 4, 5})
				c.Ops = append(c.Ops, line(a, 0, new(big.Int).Add(cumOf(a), inc), s, 0))
				if s != a {
					adv++
				} else {
					last[a] = new(big.Int).Add(cumOf(a), inc)
					valid++
				}
			case 11: // corrupted / truncated / empty signature
				c.Ops = append(c.Ops, line(a, 0, new(big.Int).Add(cumOf(a), inc), a, r.Range(1, 3)))
				adv++
			case 12, 13: // validly signed by another registered issuer, delivered by p
				b := fwd[(p+1+r.Intn(2))%3]
				cum := new(big.Int).Add(cumOf(b), inc)
				l := line(b, 0, cum, b, 0)
				if verb == "srecv " {
					last[b] = cum
				}
				sent = append(sent, l)
				c.Ops = append(c.Ops, l)
				adv++
			case 14: // signed by an unregistered key, claims to be it
				b := r.Pick([]int{4, 5, 6})
				c.Ops = append(c.Ops, line(b, 0, new(big.Int).Add(cumOf(b), inc), b, 0))
				adv++
			case 15: // unregistered peer delivers a perfectly valid cheque of issuer a
				c.Ops = append(c.Ops, fmt.Sprintf("recv %d %d 0 %s %d 0", r.Pick([]int{3, 4}), a, new(big.Int).Add(cumOf(a), inc).String(), a))
				adv++
			case 16: // rare re-registration
				if r.Chance(25) {
					np, na := r.Intn(4), r.Range(1, 5)
					c.Ops = append(c.Ops, fmt.Sprintf("reg %d %d", np, na))
					fwd[np] = na
				} else {
					c.Ops = append(c.Ops, "cheques")
					obs++
				}
			case 17, 18:
				c.Ops = append(c.Ops, "last "+strconv.Itoa(r.Intn(4)))
				obs++
			default:
				c.Ops = append(c.Ops, "cheques")
				obs++
			}
		}
		c.Ops = append(c.Ops, "cheques", "last 0", "last 1", "last 2")
		c.NT = valid > 0 && adv > 0
		cs = append(cs, c)
	}
	return cs
}

type runner struct {
	env *settle.Env
	// model-free shadow for the oracle
	fwd    map[int]int      // peer -> address as registered by the harness
	rev    map[int]int      // address -> peer
	maxAcc map[int]*big.Int // highest accepted cumulative payout per issuer
	sumAmt map[int]*big.Int // Σ amounts returned by the store per issuer
}

func (prop) New() core.Runner {
	return &runner{env: settle.NewEnv(), fwd: map[int]int{}, rev: map[int]int{}, maxAcc: map[int]*big.Int{}, sumAmt: map[int]*big.Int{}}
}
func (rn *runner) Close() { rn.env.Close() }

func errWord(err error) string {
	switch {
	case err == nil:
		return "ok"
	case err == chequePkg.ErrWrongBeneficiary:
		return "wrong-recipient"
	case err == chequePkg.ErrChequeInvalid:
		return "invalid"
	case err == chequePkg.ErrChequeNotIncreasing:
		return "not-increasing"
	case err.Error() == "account information error":
		return "unknown-peer"
	case err.Error() == "account information error ":
		return "account"
	}
	return "recover-err"
}

// credits returns the sorted "peer:received" entries of TrafficCheques, optionally without peer `skip`.
func (rn *runner) credits(skip int) string {
	l, _ := rn.env.Svc.TrafficCheques()
	var keep []*traffic.TrafficCheque
	for _, tc := range l {
		if settle.PeerID(tc.Peer, nPeers) != skip {
			keep = append(keep, tc)
		}
	}
	return chequesStr(keep)
}

func chequesStr(l []*traffic.TrafficCheque) string {
	var out []string
	type kv struct {
		p int
		v *big.Int
	}
	var kvs []kv
	for _, tc := range l {
		if tc.ReceivedSettlements.Sign() == 0 {
			continue
		}
		kvs = append(kvs, kv{settle.PeerID(tc.Peer, nPeers), tc.ReceivedSettlements})
	}
	sort.Slice(kvs, func(i, j int) bool {
		if kvs[i].p != kvs[j].p {
			return kvs[i].p < kvs[j].p
		}
		return kvs[i].v.Cmp(kvs[j].v) <= 0
	})
	for _, x := range kvs {
		out = append(out, fmt.Sprintf("%d:%s", x.p, x.v.String()))
	}
	if len(out) == 0 {
		return "-"
	}
	return strings.Join(out, " ")
}

func get(m map[int]*big.Int, k int) *big.Int {
	if v, ok := m[k]; ok {
		return v
	}
	return big.NewInt(0)
}

func (rn *runner) Step(ctx *core.Ctx, op []string) string {
	atoi := func(s string) (int, bool) {
		v, err := strconv.Atoi(s)
		return v, err == nil && v >= 0
	}
	switch {
	case len(op) == 3 && op[0] == "reg":
		p, ok1 := atoi(op[1])
		a, ok2 := atoi(op[2])
		if !ok1 || !ok2 || p >= nPeers || a >= nAddrs {
			return "bad-op"
		}
		if err := rn.env.Book.PutBeneficiary(settle.Peer(p), settle.Addr(a)); err != nil {
			return "err"
		}
		rn.fwd[p] = a
		rn.rev[a] = p
		return "ok"
	case (len(op) == 7 && op[0] == "recv") || (len(op) == 6 && op[0] == "srecv"):
		f := op[1:]
		p := -1
		if op[0] == "recv" {
			var ok bool
			if p, ok = atoi(op[1]); !ok || p >= nPeers {
				return "bad-op"
			}
			f = op[2:]
		}
		ben, ok1 := atoi(f[0])
		rcp, ok2 := atoi(f[1])
		cum, ok3 := new(big.Int).SetString(f[2], 10)
		signer, ok4 := atoi(f[3])
		mut, ok5 := atoi(f[4])
		if !ok1 || !ok2 || !ok3 || !ok4 || !ok5 || ben >= nAddrs || rcp >= nAddrs || signer >= settle.NKeys || mut > 3 || cum.Sign() < 0 {
			return "bad-op"
		}
		sc, err := settle.SignCheque(settle.Addr(ben), settle.Addr(rcp), cum, signer)
		if err != nil {
			return "bad-op"
		}
		switch mut {
		case 1:
			sc.Signature[7] ^= 0x40
		case 2:
			sc.Signature = sc.Signature[:40]
		case 3:
			sc.Signature = nil
		}
		// oracle field for the model: what the real recovery says
		rec := "rec=err"
		if a, err := chequePkg.RecoverCheque(sc, settle.ChainID); err == nil {
			if id := settle.AddrID(a, nAddrs); id >= 0 {
				rec = "rec=" + strconv.Itoa(id)
			} else {
				rec = "rec=unk"
			}
		}
		ctx.Annotate(rec)
		genuine := mut == 0 && signer == ben // the stated issuer really signed this cheque
		owner := -2 // the peer the issuer's address is registered for
		if rp, ok := rn.rev[ben]; ok {
			owner = rp
		}
		beforeAll, beforeOthers := rn.credits(-2), rn.credits(owner)
		rn.env.CS.Take()
		var amount *big.Int
		if op[0] == "recv" {
			err = rn.env.Svc.ReceiveCheque(context.Background(), settle.Peer(p), sc)
			if rs := rn.env.CS.Take(); len(rs) == 1 && rs[0].Err == nil {
				amount = rs[0].Amount
			} else if err == nil {
				ctx.Fail("accept-without-store", "service accepted but the cheque store did not accept exactly once")
			}
		} else {
			amount, err = rn.env.CS.ReceiveCheque(context.Background(), sc)
		}
		afterAll, afterOthers := rn.credits(-2), rn.credits(owner)
		if err != nil {
			if beforeAll != afterAll {
				ctx.Fail("reject-changed-credit", "rejected cheque changed the credits: [%s] -> [%s]", beforeAll, afterAll)
			}
			return errWord(err)
		}
		// ---- accepted: the four conditions of the property, evaluated without the model
		if rcp != 0 {
			ctx.Fail("accept-wrong-recipient", "accepted a cheque for recipient id %d", rcp)
		}
		if !genuine {
			ctx.Fail("accept-bad-signature", "accepted a cheque of issuer %d signed by key %d (mutation %d)", ben, signer, mut)
		}
		if cum.Cmp(get(rn.maxAcc, ben)) <= 0 {
			ctx.Fail("accept-not-increasing", "accepted cumulative %s <= highest accepted %s of issuer %d", cum, get(rn.maxAcc, ben), ben)
		}
		if op[0] == "recv" {
			if a, ok := rn.fwd[p]; !ok || a != ben {
				ctx.Fail("accept-foreign-issuer", "peer %d (registered address %d, known=%v) delivered a cheque of issuer %d and it was accepted", p, a, ok, ben)
			}
			if beforeOthers != afterOthers {
				ctx.Fail("credit-other-peer", "cheque of issuer %d (address registered for peer %d) changed the credit of other peers: [%s] -> [%s]", ben, owner, beforeOthers, afterOthers)
			}
		}
		if amount != nil {
			rn.sumAmt[ben] = new(big.Int).Add(get(rn.sumAmt, ben), amount)
		}
		if cum.Cmp(get(rn.maxAcc, ben)) > 0 {
			rn.maxAcc[ben] = cum
		}
		if get(rn.sumAmt, ben).Cmp(get(rn.maxAcc, ben)) != 0 {
			ctx.Fail("credit-sum", "issuer %d: sum of credited amounts %s != highest accepted cumulative payout %s", ben, get(rn.sumAmt, ben), get(rn.maxAcc, ben))
		}
		return "ok " + amount.String()
	case len(op) == 2 && op[0] == "last":
		p, ok := atoi(op[1])
		if !ok || p >= nPeers {
			return "bad-op"
		}
		c, err := rn.env.Svc.LastReceivedCheque(settle.Peer(p))
		if err == chequePkg.ErrNoCheque {
			return "nocheque"
		}
		if err != nil {
			return "err"
		}
		if c.CumulativePayout == nil {
			return "empty"
		}
		if a, ok := rn.fwd[p]; ok && c.CumulativePayout.Cmp(get(rn.maxAcc, a)) != 0 {
			ctx.Fail("last-not-max", "LastReceivedCheque(peer %d) = %s, highest accepted of its issuer %d = %s", p, c.CumulativePayout, a, get(rn.maxAcc, a))
		}
		return fmt.Sprintf("%d %d %s", settle.AddrID(c.Beneficiary, nAddrs), settle.AddrID(c.Recipient, nAddrs), c.CumulativePayout.String())
	case len(op) == 1 && op[0] == "cheques":
		l, err := rn.env.Svc.TrafficCheques()
		if err != nil {
			return "err"
		}
		return chequesStr(l)
	}
	return "bad-op"
}
