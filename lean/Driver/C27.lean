import Driver.Util
import Aurora.Model.RouteTable
/-! Driver for C27: runs the route-table model on the op lines of the harness. -/
namespace Driver.C27
open Aurora.RouteTable

/-- `0.1.2` ↦ [0,1,2]; `-` ↦ [] -/
def parsePath (s : String) : Option (List Nat) :=
  if s = "-" then some [] else (s.splitOn ".").mapM (·.toNat?)

/-- `0,1,2` ↦ [0,1,2]; `-` ↦ [] -/
def parseList (s : String) : Option (List Nat) :=
  if s = "-" then some [] else (s.splitOn ",").mapM (·.toNat?)

def pathStr (p : List Nat) : String :=
  if p.isEmpty then "-" else ".".intercalate (p.map toString)

def listStr (l : List String) : String := if l.isEmpty then "-" else ",".intercalate l

def sortNat (l : List Nat) : List Nat := (l.toArray.qsort (· < ·)).toList
def sortStr (l : List String) : List String := (l.toArray.qsort (· < ·)).toList

def routeStr (r : Route) : String := s!"{r.nbr}:{pathStr r.key}"

def dumpTable (t : Table) : String :=
  let ps := sortStr (t.paths.map (fun kv => pathStr kv.1))
  let rs := (t.routes.toArray.qsort (fun a b => a.1 < b.1)).toList
  let rstr := rs.map (fun (tg, l) => s!"{tg}=[" ++ ";".intercalate (l.map routeStr) ++ "]")
  s!"P={listStr ps} R={listStr rstr}"

structure St where
  alpha : Nat
  ttl : Nat
  t : Table

def step (st : Option St) (op : List String) : Option St × String :=
  match op, st with
  | ["init", a, l], _ =>
    match a.toNat?, l.toNat? with
    | some a, some l => (some { alpha := a, ttl := l, t := empty }, "ok")
    | _, _ => (st, "bad-op")
  | _, none => (none, "notable")
  | ["save", p, now], some s =>
    match parsePath p, now.toNat? with
    | some p, some now => (some { s with t := save s.alpha s.t p now }, "ok")
    | _, _ => (st, "bad-op")
  | ["delete", p], some s =>
    match parsePath p with
    | some p => (some { s with t := delete s.t p }, "ok")
    | none => (st, "bad-op")
  | ["gc", e, now], some s =>
    match e.toNat?, now.toNat? with
    | some e, some now => (some { s with t := gc s.t e now }, "ok")
    | _, _ => (st, "bad-op")
  | ["reload"], some s => (some { s with t := reload s.ttl s.t }, "ok")
  | ["get", tg], some s =>
    match tg.toNat? with
    | some tg =>
      match get s.t tg with
      | none => (st, "notfound")
      | some ps => (st, listStr (ps.map pathStr))
    | none => (st, "bad-op")
  | ["nexthop", tg, sk], some s =>
    match tg.toNat?, parseList sk with
    | some tg, some sk => (st, listStr ((sortNat (nextHop s.t tg sk)).map toString))
    | _, _ => (st, "bad-op")
  | ["dump"], some s => (st, dumpTable s.t)
  | _, _ => (st, "bad-op")

def handler : Driver.Handler := { σ := Option St, init := none, step := step }

end Driver.C27
