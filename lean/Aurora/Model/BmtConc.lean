import Aurora.Model.Bmt
/-!
# BMT: small-step model of the concurrent node-combination phase

`/repo/pkg/bmt/bmt.go` (`processSection`, `writeNode`, `writeFinalNode`) and `/repo/pkg/bmt/pool.go`
(`node`, `toggle`, `newTree`, `Pool.Get/Put`).

`Model/Bmt.lean` represents the per-section goroutines by the dataflow value they compute
(`iterUp … (leafs ++ [final])`).  This file models the goroutines themselves as an interleaving
transition system; `Props/C03Conc.lean` proves that **every** maximal interleaving delivers exactly
that dataflow value.

## Tree indexing (`newTree`)

`newTree` builds a complete binary tree; `tree.leaves` is its lowest level (one leaf per section),
the other nodes are reached through `parent` links.  We index a position by `(c, k)`:
level `c` (`0` = leaf level = sections, `d` = root) and index `k < 2^(d-c)` within the level.

* parent of `(c, k)` is `(c+1, k/2)`        (`parent := prevlevel[i/2]`)
* `(c, k).isLeft = (k % 2 = 0)`             (`isLeft: index%2 == 0` in `newNode`)
* `n == nil` (above the root) ⇔ `c ≥ d`.
* Go's `level` variable of `writeFinalNode` equals `c + 1` when the thread carries the value of
  position `(c, k)` into node `(c+1, k/2)`; so the padding value is `zerohashes[c+1]`.

Leaf nodes' own `left/right/state` fields are never used by the code (the section is hashed straight
from the buffer); only nodes of level `≥ 1` carry slots and a toggle.

## Shared state

per node `(c, j)`: `left c j`, `right c j : Option Bytes` (Go `[]byte`, `none` = nil) and
`state c j : Nat` (the `int32` toggle counter; overflow after 2^31 uses is out of scope),
plus the content of the unbuffered `result` channel as the list of values received by `Hash`.

## Threads

Thread `t < pos` is `go h.processSection(t, false)` (spawned by `Write`), thread `t = pos` is
`go h.processSection(pos, true)` (spawned by `Hash`).  A thread that has not been scheduled yet is
simply a thread sitting at `PC.init`, so the order and time of the `go` statements is irrelevant
by construction: every interleaving of every spawn order is an interleaving of this system.

Program counters (one `step` = at most one shared access, local computation is merged into the
preceding shared access):

| pc | Go program point |
|---|---|
| `init` | `processSection` entry: `section := doHash(hasher, buffer[offset:offset+secsize])`; the digest is `vals[t]` (read at spawn time = read now, `C03_spawned_sections_stable`) |
| `top c k s` | loop head of `writeNode` / `writeFinalNode` with `n = (c+1,k/2)` (`nil` if `c ≥ d`), `isLeft = (k%2=0)`, carried value `s` |
| `zr c k s` | `writeFinalNode`, `isLeft` branch, after `n.right = h.zerohashes[level]` |
| `wrote c k` | after `n.left = s` / `n.right = s`, before `n.toggle()` |
| `hash c j` | `toggle` returned false (second arrival) or the no-toggle branch: before `doHash(n.hasher, n.left, n.right)` with `n = (c, j)` |
| `done` | returned |
-/
namespace Aurora.BmtConc
open Aurora.Bmt

inductive PC where
  | init
  | top (c k : Nat) (s : Option Bytes)
  | zr (c k : Nat) (s : Option Bytes)
  | wrote (c k : Nat)
  | hash (c j : Nat)
  | done
deriving DecidableEq, Repr

/-- pointwise update of a function of one (`upd`) or two (`upd2`) arguments -/
def upd {α : Type} (f : Nat → α) (i : Nat) (v : α) : Nat → α := fun x => if x = i then v else f x
def upd2 {α : Type} (f : Nat → Nat → α) (i j : Nat) (v : α) : Nat → Nat → α :=
  fun x y => if x = i ∧ y = j then v else f x y

structure St where
  left   : Nat → Nat → Option Bytes
  right  : Nat → Nat → Option Bytes
  state  : Nat → Nat → Nat
  result : List Bytes
  pc     : Nat → PC

structure Cfg where
  H    : Bytes → Bytes
  seg  : Nat
  d    : Nat              -- section levels: `2^d` sections
  vals : List Bytes       -- section digests `leafs ++ [final]`; `vals[t]` is what thread `t` computes

/-- index of the final section = number of `processSection(i,false)` threads -/
def Cfg.pos (cfg : Cfg) : Nat := cfg.vals.length - 1

def setPc (s : St) (t : Nat) (p : PC) : St := { s with pc := upd s.pc t p }

/-- `n.toggle()` on node `(c+1, k/2)` followed by the (local) reaction to its result.
    `toggle` = `atomic.AddInt32(&n.state, 1) % 2 == 1`  (pool.go:142).
    * first arrival (`true`): `writeNode` returns (bmt.go:177-179); `writeFinalNode` sets
      `noHash = true`, `s = nil` and moves to the parent (bmt.go:225/233, 243-244, 256-258);
    * second arrival: go on to `doHash(n.hasher, n.left, n.right)`. -/
def toggleStep (cfg : Cfg) (s : St) (t c k : Nat) : St :=
  let st' := s.state (c + 1) (k / 2) + 1
  let s1 : St := { s with state := upd2 s.state (c + 1) (k / 2) st' }
  if st' % 2 = 1 then
    setPc s1 t (if t < cfg.pos then .done else .top (c + 1) (k / 2) none)
  else
    setPc s1 t (.hash (c + 1) (k / 2))

/-- `h.result <- v`: the channel is unbuffered and `Hash` receives exactly once
    (bmt.go:82-87), so a send is enabled only while nothing has been received;
    a second sender would block forever. -/
def sendStep (s : St) (t : Nat) (v : Bytes) : Option St :=
  if s.result = [] then some { setPc s t .done with result := [v] } else none

/-- One step of thread `t`; `none` = the thread cannot move (finished, blocked, or no such thread). -/
def step (cfg : Cfg) (s : St) (t : Nat) : Option St :=
  if cfg.pos < t then none else
  match s.pc t with
  | .done => none
  | .init =>
    -- processSection:129-146  `section := doHash(...)`; `n = leaves[i].parent`; `isLeft = leaves[i].isLeft`
    some (setPc s t (.top 0 t (some (cfg.vals.getD t []))))
  | .top c k sv =>
    if cfg.d ≤ c then
      -- `if n == nil`
      if t < cfg.pos then
        sendStep s t (sv.getD [])                   -- writeNode:166-169  `h.result <- s`
      else
        match sv with
        | some v => sendStep s t v                  -- writeFinalNode:205-208  `if s != nil { h.result <- s }`
        | none => some (setPc s t .done)            -- writeFinalNode:209  `return`
    else if t < cfg.pos then
      -- writeNode:171-175  `if isLeft { n.left = s } else { n.right = s }`
      if k % 2 = 0 then
        some (setPc { s with left := upd2 s.left (c + 1) (k / 2) sv } t (.wrote c k))
      else
        some (setPc { s with right := upd2 s.right (c + 1) (k / 2) sv } t (.wrote c k))
    else if k % 2 = 0 then
      -- writeFinalNode:212-216  `if isLeft { n.right = h.zerohashes[level]`
      some (setPc { s with right := upd2 s.right (c + 1) (k / 2) (some (zerohash cfg.H cfg.seg (c + 1))) } t (.zr c k sv))
    else
      match sv with
      | some v =>
        -- writeFinalNode:229-231  `n.right = s`   (then `noHash = n.toggle()`)
        some (setPc { s with right := upd2 s.right (c + 1) (k / 2) (some v) } t (.wrote c k))
      | none =>
        -- writeFinalNode:234-237  `noHash = true`; 243-244 `s = nil`; 256-258 move to parent
        some (setPc s t (.top (c + 1) (k / 2) none))
  | .zr c k sv =>
    if t < cfg.pos then none else                   -- not a program point of writeNode
    match sv with
    | some v =>
      -- writeFinalNode:217-222  `n.left = s; noHash = false`  (no toggle)
      some (setPc { s with left := upd2 s.left (c + 1) (k / 2) (some v) } t (.hash (c + 1) (k / 2)))
    | none =>
      -- writeFinalNode:223-225  `noHash = n.toggle()`
      some (toggleStep cfg s t c k)
  | .wrote c k =>
    -- writeNode:177  `if n.toggle() { return }` / writeFinalNode:233  `noHash = n.toggle()`
    some (toggleStep cfg s t c k)
  | .hash c j =>
    -- writeNode:182,190-192 / writeFinalNode:246,256-258
    -- `s = doHash(n.hasher, n.left, n.right); isLeft = n.isLeft; n = n.parent; level++`
    some (setPc s t (.top c j (some (cfg.H ((s.left c j).getD [] ++ (s.right c j).getD [])))))

/-- The non-atomic memory accesses the next step of thread `t` performs:
    `(level, index, isRightSlot, isWrite)`.  The toggle is an atomic operation, not a data access. -/
def accesses (cfg : Cfg) (s : St) (t : Nat) : List (Nat × Nat × Bool × Bool) :=
  if cfg.pos < t then [] else
  match s.pc t with
  | .top c k sv =>
    if cfg.d ≤ c then []
    else if t < cfg.pos then [(c + 1, k / 2, k % 2 != 0, true)]
    else if k % 2 = 0 then [(c + 1, k / 2, true, true)]
    else match sv with
      | some _ => [(c + 1, k / 2, true, true)]
      | none => []
  | .zr c k sv =>
    if t < cfg.pos then [] else
    match sv with
    | some _ => [(c + 1, k / 2, false, true)]
    | none => []
  | .hash c j => [(c, j, false, false), (c, j, true, false)]
  | _ => []

/-- Start of the combination phase: no thread has moved, nothing delivered; the tree comes from
    the pool: every toggle counter is **even** but otherwise arbitrary, the slots hold arbitrary
    stale values (`left`/`right` are unconstrained). -/
structure Init (cfg : Cfg) (s : St) : Prop where
  pcs    : ∀ t, t ≤ cfg.pos → s.pc t = .init
  result : s.result = []
  even   : ∀ c j, s.state c j % 2 = 0

/-- `Exec cfg s sched s'`: running the schedule `sched` (thread ids, in order) from `s` ends in `s'`. -/
inductive Exec (cfg : Cfg) : St → List Nat → St → Prop where
  | nil (s : St) : Exec cfg s [] s
  | cons {s s1 s' : St} {t : Nat} {ts : List Nat} :
      step cfg s t = some s1 → Exec cfg s1 ts s' → Exec cfg s (t :: ts) s'

/-- no thread can move -/
def Terminal (cfg : Cfg) (s : St) : Prop := ∀ t, step cfg s t = none

/-- termination measure: remaining steps of one thread -/
def rank (d : Nat) : PC → Nat
  | .init => 4 * (d + 1) + 1
  | .top c _ _ => 4 * (d + 1 - c)
  | .zr c _ _ => 4 * (d + 1 - c) - 1
  | .wrote c _ => 4 * (d + 1 - c) - 2
  | .hash c _ => 4 * (d + 1 - c) + 1
  | .done => 0

def measure (cfg : Cfg) (s : St) : Nat :=
  ((List.range (cfg.pos + 1)).map (fun t => rank cfg.d (s.pc t))).sum

/-! ## Pool (`pool.go`): a buffered channel of trees

`NewPool` fills `c` with `capacity` distinct trees; `Get` is `t := <-p.c`, `Put` is `p.c <- h.bmt`.
Goroutine `g` holds the list `held g` of trees it obtained and has not returned. -/
structure Pool where
  chan : List Nat               -- trees in the channel buffer (FIFO)
  held : Nat → List Nat         -- trees held by the hasher(s) of goroutine `g`

inductive PoolStep : Pool → Pool → Prop where
  /-- `Get`: receive the head of the channel (blocks when empty: no step). -/
  | get (g tr : Nat) (rest : List Nat) (held : Nat → List Nat) :
      PoolStep ⟨tr :: rest, held⟩ ⟨rest, upd held g (tr :: held g)⟩
  /-- `Put`: send a tree this goroutine holds (each `Put` returns a tree previously obtained by
      that hasher); the buffer has room because at most `capacity` trees exist. -/
  | put (g tr : Nat) (chan : List Nat) (held : Nat → List Nat) :
      tr ∈ held g → PoolStep ⟨chan, held⟩ ⟨chan ++ [tr], upd held g ((held g).erase tr)⟩

inductive PoolReach : Pool → Pool → Prop where
  | refl (p : Pool) : PoolReach p p
  | tail {p q r : Pool} : PoolReach p q → PoolStep q r → PoolReach p r

end Aurora.BmtConc
