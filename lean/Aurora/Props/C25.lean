import Aurora.Model.Blocklist
namespace Aurora.Blocklist
theorem C25_placeholder : True := trivial
end Aurora.Blocklist
